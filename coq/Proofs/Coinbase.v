(* coinbase_txin / coinbase_tx (model of the code) against the standards:
   BIP34 height push, null outpoint + 100-byte limit, subsidy, BIP141 commitment. *)
From Coq Require Import ZArith List Lia Bool.
Require Import Bits.Lib.Result Bits.Lib.Bytes Bits.Lib.CompactSize.
Require Import Bits.Model.CompactSize Bits.Model.Witness Bits.Model.Tx Bits.Proofs.CompactSize.
Require Import Bits.Spec.ScriptNum Bits.Spec.Subsidy Bits.Spec.Coinbase Bits.Spec.Merkle.
Require Import Bits.Model.Coinbase Bits.Proofs.ScriptNum Bits.Proofs.Merkle.
Import ListNotations.
Import Coq.Init.Byte.
Local Open Scope Z_scope.

(* ---------- small helpers ---------- *)
Lemma ok_inj {A} (a b : A) : Ok a = Ok b -> a = b.
Proof. congruence. Qed.

Lemma chk_le_ok k v : 0 <= v < 256 ^ Z.of_nat k -> to_le_chk k v = Ok (to_le k v).
Proof.
  intros H. unfold to_le_chk.
  destruct (Z.leb_spec 0 v); [|lia]. destruct (Z.ltb_spec v (256 ^ Z.of_nat k)); [|lia]. reflexivity.
Qed.

Lemma chk_le_inv k v bs : to_le_chk k v = Ok bs -> 0 <= v < 256 ^ Z.of_nat k /\ bs = to_le k v.
Proof.
  unfold to_le_chk. destruct (Z.leb_spec 0 v); destruct (Z.ltb_spec v (256 ^ Z.of_nat k));
    cbn [andb]; intros E; inversion E; subst; auto.
Qed.

Lemma chk_le_err k v e : to_le_chk k v = Err e -> e = OverflowE.
Proof. unfold to_le_chk. destruct (_ && _); congruence. Qed.

Lemma zlen_nonneg {A} (l : list A) : 0 <= zlen l.
Proof. unfold zlen. lia. Qed.

(* ---------- BIP34 ---------- *)
Lemma bit_length_pos h : 0 < h -> bit_length h = Z.log2 h + 1.
Proof.
  intros H. unfold bit_length. destruct (Z.eqb_spec h 0); [lia|]. now rewrite Z.abs_eq by lia.
Qed.

Theorem height_push_is_spec h : 0 <= h < 2 ^ 599 -> height_push h = Ok (push_int h).
Proof.
  intros [H0 U]. unfold height_push.
  destruct (Z.leb_spec h 16) as [S16|B].
  - rewrite push_int_small by lia. unfold op_n_byte.
    destruct (Z.ltb_spec h 0); [lia|]. destruct (Z.eqb_spec h 0); reflexivity.
  - assert (H : 0 < h) by lia.
    rewrite bit_length_pos by exact H.
    replace (Z.log2 h + 1 + 8) with (Z.log2 h + 9) by lia. fold (nbytes h).
    pose proof (nbytes_small h H U) as N76. pose proof (nbytes_pos h H) as N1.
    rewrite chk_le_ok by (change (256 ^ Z.of_nat 1) with 256; lia).
    rewrite push_int_big by lia. reflexivity.
Qed.

(* outside the range in which a direct push is the right opcode (number_of_bytes >= 76, h >= 2^599) the code
   still writes one length byte; negative heights raise *)
Lemma height_push_negative h : h < 0 -> height_push h = Err AttributeE.
Proof.
  intros H. unfold height_push, op_n_byte.
  destruct (Z.leb_spec h 16); [|lia]. destruct (Z.ltb_spec h 0); [reflexivity|lia].
Qed.

(* ---------- coinbase_txin ---------- *)
Lemma outpoint_null : outpoint (repeat x00 32) UINT32_MAX = Ok null_outpoint.
Proof. vm_compute. reflexivity. Qed.

Lemma coinbase_txin_ok cs seq bh script :
  prepend_height cs bh = Ok script -> (length script <= 100)%nat ->
  coinbase_txin cs seq bh = Ok (coinbase_input script seq).
Proof.
  intros P L. unfold coinbase_txin. rewrite P. cbn [bind].
  destruct (Z.ltb_spec 100 (zlen script)) as [X|_]; [unfold zlen in X; lia|].
  rewrite outpoint_null. cbn [bind]. unfold txin.
  rewrite compact_size_uint_spec by (split; [lia | apply Z.lt_trans with 101; [lia | reflexivity]]).
  reflexivity.
Qed.

Lemma coinbase_txin_too_long cs seq bh script :
  prepend_height cs bh = Ok script -> (100 < length script)%nat ->
  coinbase_txin cs seq bh = Err ValueE.
Proof.
  intros P L. unfold coinbase_txin. rewrite P. cbn [bind].
  destruct (Z.ltb_spec 100 (zlen script)) as [_|X]; [reflexivity | unfold zlen in X; lia].
Qed.

Lemma coinbase_txin_inv cs seq bh t : coinbase_txin cs seq bh = Ok t ->
  exists script, prepend_height cs bh = Ok script /\ (length script <= 100)%nat /\
                 t = coinbase_input script seq.
Proof.
  intros E. destruct (prepend_height cs bh) as [script|e] eqn:P.
  - exists script. destruct (le_gt_dec (length script) 100) as [L|G].
    + rewrite (coinbase_txin_ok cs seq bh script P L) in E. inversion E. auto.
    + rewrite (coinbase_txin_too_long cs seq bh script P G) in E. discriminate.
  - unfold coinbase_txin in E. rewrite P in E. discriminate.
Qed.

Lemma prepend_height_some cs h : 0 <= h < 2 ^ 599 -> prepend_height cs (Some h) = Ok (push_int h ++ cs).
Proof. intros H. unfold prepend_height. rewrite height_push_is_spec by exact H. reflexivity. Qed.

Lemma prepend_height_err cs bh e : prepend_height cs bh = Err e -> e = AttributeE \/ e = OverflowE.
Proof.
  destruct bh as [h|]; cbn [prepend_height]; [|discriminate].
  unfold height_push. destruct (h <=? 16).
  - unfold op_n_byte. destruct (h <? 0); [cbn; intros E; inversion E; auto|].
    destruct (h =? 0); discriminate.
  - destruct (to_le_chk 1 ((bit_length h + 8) / 8)) eqn:C; cbn; [discriminate|].
    intros E; inversion E; subst. right. eapply chk_le_err; eauto.
Qed.

(* ---------- subsidy ---------- *)
Lemma subsidy_model h bph : 0 <= h -> 0 < bph ->
  (if h / bph =? 0 then 5000000000 else 5000000000 / 2 ^ (h / bph)) = subsidy h bph.
Proof.
  intros H0 Hb. unfold subsidy. change (50 * COIN) with 5000000000.
  assert (K : 0 <= h / bph) by (apply Z.div_pos; lia).
  destruct (Z.eqb_spec (h / bph) 0) as [E|E].
  - rewrite E. reflexivity.
  - destruct (Z.leb_spec 64 (h / bph)) as [G|L].
    + apply Z.div_small. split; [lia|].
      apply Z.lt_le_trans with (2 ^ 64); [reflexivity | apply Z.pow_le_mono_r; lia].
    + now rewrite Z.shiftr_div_pow2 by lia.
Qed.

Lemma subsidy_range h bph : 0 <= h -> 0 < bph -> 0 <= subsidy h bph <= 5000000000.
Proof.
  intros H0 Hb. unfold subsidy. change (50 * COIN) with 5000000000.
  assert (K : 0 <= h / bph) by (apply Z.div_pos; lia).
  destruct (Z.leb_spec 64 (h / bph)); [lia|].
  rewrite Z.shiftr_div_pow2 by lia.
  assert (0 < 2 ^ (h / bph)) by (apply Z.pow_pos_nonneg; lia).
  split; [apply Z.div_pos; lia|]. apply Z.div_le_upper_bound; nia.
Qed.

Lemma interval_pos regtest : 0 < interval_of regtest.
Proof. destruct regtest; reflexivity. Qed.

Lemma model_interval regtest : (if negb regtest then 210000 else 150) = interval_of regtest.
Proof. destruct regtest; reflexivity. Qed.

(* ---------- the two uses of script() ---------- *)
Lemma script_push_small data : zlen data <= 75 -> script_push data = Ok (z2b (zlen data) :: data).
Proof.
  intros H. unfold script_push. destruct (Z.ltb_spec 75 (zlen data)); [lia|]. reflexivity.
Qed.

Lemma commitment_push root : length root = 32%nat ->
  script_push ([xaa; x21; xa9; xed] ++ root) = Ok ([x24] ++ commitment_header ++ root).
Proof.
  intros L. assert (Z : zlen ([xaa; x21; xa9; xed] ++ root) = 36).
  { unfold zlen. rewrite app_length, L. reflexivity. }
  rewrite script_push_small by lia. rewrite Z. reflexivity.
Qed.

Lemma reserved_witness :
  witness_ser [witness_reserved_value] = Ok ([x01] ++ len_cs witness_reserved_value ++ witness_reserved_value).
Proof. vm_compute. reflexivity. Qed.

Lemma txout_ok v spk : 0 <= v < 2 ^ 64 -> zlen spk < 2 ^ 64 -> txout v spk = Ok (tx_output v spk).
Proof.
  intros Hv Hs. unfold txout. rewrite chk_le_ok by (change (256 ^ Z.of_nat 8) with (2 ^ 64); lia).
  cbn [bind]. rewrite compact_size_uint_spec by (unfold zlen in Hs; lia). reflexivity.
Qed.

Lemma txout_inv v spk o : txout v spk = Ok o -> 0 <= v < 2 ^ 64 /\ zlen spk < 2 ^ 64 /\ o = tx_output v spk.
Proof.
  unfold txout. intros E. apply bind_ok in E as (vb & E1 & E). apply bind_ok in E as (c & E2 & E).
  apply chk_le_inv in E1 as [R ->]. apply compact_size_uint_inv in E2 as [R2 ->].
  inversion E. change (256 ^ Z.of_nat 8) with (2 ^ 64) in R. unfold zlen.
  split; [exact R|]. split; [lia|reflexivity].
Qed.

(* ---------- coinbase_tx ---------- *)
(* what the transaction must claim *)
Definition claimed (reward height : option Z) (regtest : bool) : option Z :=
  match height, reward with
  | Some h, None => Some (subsidy h (interval_of regtest))
  | _, r => r
  end.

(* the serialisation the standards prescribe for the pieces *)
Definition coinbase_expected (script : bytes) (value : Z) (spk : bytes) (commit : option bytes) : bytes :=
  match commit with
  | None => coinbase_legacy script [(value, spk)]
  | Some c => coinbase_segwit script [(value, spk); (0, c)] witness_reserved_value
  end.

(* the commitment scriptPubKey built for a truthy argument *)
Definition commit_spk (wroot : option bytes) : result (option bytes) :=
  match wroot with
  | Some (b :: r) => rmap (fun p => Some ([x6a] ++ p)) (script_push ([xaa; x21; xa9; xed] ++ b :: r))
  | _ => Ok None
  end.

Lemma tx_raw_legacy i o :
  tx_raw [i] [o] 1 0 [] = Ok (to_le 4 1 ++ [x01] ++ i ++ [x01] ++ o ++ to_le 4 0).
Proof.
  unfold tx_raw. cbn [length Z.of_nat]. change (to_le_chk 4 1) with (Ok (to_le 4 1)).
  change (to_le_chk 4 0) with (Ok (to_le 4 0)).
  change (compact_size_uint (Z.of_nat 1)) with (Ok [x01]). cbn [bind concat]. now rewrite !app_nil_r.
Qed.

Lemma tx_raw_segwit i o1 o2 w :
  tx_raw [i] [o1; o2] 1 0 [w]
  = Ok (to_le 4 1 ++ [x00] ++ [x01] ++ [x01] ++ i ++ [x02] ++ (o1 ++ o2) ++ w ++ to_le 4 0).
Proof.
  unfold tx_raw. cbn [length Z.of_nat]. change (to_le_chk 4 1) with (Ok (to_le 4 1)).
  change (to_le_chk 4 0) with (Ok (to_le 4 0)).
  change (compact_size_uint (Z.of_nat 1)) with (Ok [x01]).
  change (compact_size_uint (Z.of_nat 2)) with (Ok [x02]). cbn [bind concat]. now rewrite !app_nil_r.
Qed.

(* the reward step *)
Definition reward_step (reward height : option Z) (regtest : bool) : result (option Z) :=
  match height with
  | None => Ok reward
  | Some h =>
    if h <? 0 then Err AttributeE
    else match reward with
         | Some r => if r <=? subsidy h (interval_of regtest) then Ok (Some r) else Err AssertionE
         | None => Ok (Some (subsidy h (interval_of regtest)))
         end
  end.

Lemma coinbase_tx_unfold cs spk reward height regtest wroot :
  coinbase_tx cs spk reward height regtest wroot =
  bind (reward_step reward height regtest) (fun reward' =>
  bind (coinbase_txin cs [xff; xff; xff; xff] height) (fun txin_ =>
  bind (match reward' with None => Err AttributeE | Some v => txout v spk end) (fun txout_ =>
  if py_truthy_bytes wroot then
    let root := match wroot with Some r => r | None => [] end in
    bind (script_push ([xaa; x21; xa9; xed] ++ root)) (fun push =>
    bind (txout 0 ([x6a] ++ push)) (fun commit_out =>
    bind (witness_ser [witness_reserved_value]) (fun wit =>
    tx_raw [txin_] [txout_; commit_out] 1 0 [wit])))
  else tx_raw [txin_] [txout_] 1 0 []))).
Proof.
  unfold coinbase_tx, coinbase_tx_with, floordiv_pow2, reward_step. rewrite model_interval.
  destruct height as [h|]; [|reflexivity].
  destruct (Z.ltb_spec h 0) as [N|N]; [reflexivity|].
  rewrite subsidy_model by (try apply interval_pos; lia). reflexivity.
Qed.

Lemma reward_step_inv reward height regtest r' : reward_step reward height regtest = Ok r' ->
  r' = claimed reward height regtest /\
  (forall h, height = Some h -> 0 <= h /\
     exists v, r' = Some v /\ v <= subsidy h (interval_of regtest)).
Proof.
  unfold reward_step, claimed. destruct height as [h|].
  - destruct (Z.ltb_spec h 0) as [N|N]; [discriminate|].
    destruct reward as [r|].
    + destruct (Z.leb_spec r (subsidy h (interval_of regtest))) as [L|L]; [|discriminate].
      intros E; inversion E; subst. split; [reflexivity|].
      intros h' Eh; inversion Eh; subst. split; [lia|]. exists r. auto.
    + intros E; inversion E; subst. split; [reflexivity|].
      intros h' Eh; inversion Eh; subst. split; [lia|]. eexists. split; [reflexivity|lia].
  - intros E; inversion E; subst. split; [reflexivity|]. intros h Eh. discriminate.
Qed.

Lemma legacy_layout script value spk :
  to_le 4 1 ++ [x01] ++ coinbase_input script [xff; xff; xff; xff] ++ [x01]
  ++ tx_output value spk ++ to_le 4 0 = coinbase_expected script value spk None.
Proof. unfold coinbase_expected, coinbase_legacy. cbn [map concat fst snd]. now rewrite app_nil_r. Qed.

Lemma segwit_layout script value spk c :
  to_le 4 1 ++ [x00] ++ [x01] ++ [x01] ++ coinbase_input script [xff; xff; xff; xff] ++ [x02]
  ++ (tx_output value spk ++ tx_output 0 c)
  ++ ([x01] ++ len_cs witness_reserved_value ++ witness_reserved_value) ++ to_le 4 0
  = coinbase_expected script value spk (Some c).
Proof.
  unfold coinbase_expected, coinbase_segwit. cbn [map concat fst snd].
  change (len_cs [(value, spk); (0, c)]) with [x02].
  rewrite app_nil_r. repeat rewrite <- app_assoc. reflexivity.
Qed.

(* the extracted program uses [floordiv_pow2_fast]; it is the same function *)
Lemma floordiv_pow2_fast_eq a k : 0 < a -> 0 <= k -> floordiv_pow2_fast a k = floordiv_pow2 a k.
Proof.
  intros Ha Hk. unfold floordiv_pow2_fast, floordiv_pow2.
  destruct (Z.ltb_spec (Z.log2 a) k) as [L|L].
  - symmetry. apply Z.div_small. split; [lia|]. apply Z.log2_lt_pow2; lia.
  - apply Z.shiftr_div_pow2. exact Hk.
Qed.

Theorem coinbase_tx_fast_eq cs spk reward height regtest wroot :
  coinbase_tx_fast cs spk reward height regtest wroot = coinbase_tx cs spk reward height regtest wroot.
Proof.
  unfold coinbase_tx_fast, coinbase_tx, coinbase_tx_with.
  destruct height as [h|]; [|reflexivity].
  destruct (Z.ltb_spec h 0) as [N|N]; [reflexivity|].
  rewrite floordiv_pow2_fast_eq; [reflexivity | lia |].
  apply Z.div_pos; [lia | destruct regtest; cbn; lia].
Qed.

(* MAIN inversion: every successfully built coinbase has the prescribed shape *)
Theorem coinbase_tx_inv cs spk reward height regtest wroot t :
  coinbase_tx cs spk reward height regtest wroot = Ok t ->
  exists script value commit,
    prepend_height cs height = Ok script /\ (length script <= 100)%nat /\
    claimed reward height regtest = Some value /\ 0 <= value < 2 ^ 64 /\ zlen spk < 2 ^ 64 /\
    (forall h, height = Some h -> 0 <= h /\ value <= subsidy h (interval_of regtest)) /\
    commit_spk wroot = Ok commit /\
    t = coinbase_expected script value spk commit.
Proof.
  rewrite coinbase_tx_unfold. intros E.
  apply bind_ok in E as (r' & R & E). apply bind_ok in E as (txin_ & TI & E).
  apply bind_ok in E as (txout_ & TO & E).
  apply reward_step_inv in R as [Rc Rh].
  apply coinbase_txin_inv in TI as (script & P & L & ->).
  destruct r' as [value|]; [|discriminate].
  apply txout_inv in TO as (Vr & Sr & ->).
  assert (Hh : forall h, height = Some h -> 0 <= h /\ value <= subsidy h (interval_of regtest)).
  { intros h Eh. destruct (Rh h Eh) as [H0 (v & Ev & Lv)]. inversion Ev; subst. auto. }
  exists script, value.
  assert (Leg : coinbase_expected script value spk None =
                to_le 4 1 ++ [x01] ++ coinbase_input script [xff; xff; xff; xff] ++ [x01]
                ++ tx_output value spk ++ to_le 4 0).
  { unfold coinbase_expected, coinbase_legacy. cbn [map concat fst snd]. now rewrite app_nil_r. }
  destruct wroot as [[|b r]|]; cbn [py_truthy_bytes] in E.
  - exists None. rewrite tx_raw_legacy in E. apply ok_inj in E. subst t. rewrite Leg.
    repeat (split; [first [exact P | exact L | symmetry; exact Rc | exact Vr | exact Sr | exact Hh | reflexivity]|]).
    reflexivity.
  - apply bind_ok in E as (push & SP & E). apply bind_ok in E as (co & CO & E).
    rewrite reserved_witness in E. cbn [bind] in E. rewrite tx_raw_segwit in E.
    apply txout_inv in CO as (_ & _ & ->).
    exists (Some ([x6a] ++ push)). cbn [commit_spk]. cbv zeta in SP. rewrite SP. cbn [rmap].
    apply ok_inj in E. subst t.
    repeat (split; [first [exact P | exact L | symmetry; exact Rc | exact Vr | exact Sr | exact Hh | reflexivity]|]).
    apply segwit_layout.
  - exists None. rewrite tx_raw_legacy in E. apply ok_inj in E. subst t. rewrite Leg.
    repeat (split; [first [exact P | exact L | symmetry; exact Rc | exact Vr | exact Sr | exact Hh | reflexivity]|]).
    reflexivity.
Qed.

(* ... and the converse: when the pieces are in range the coinbase IS built *)
Theorem coinbase_tx_ok cs spk reward height regtest wroot script value commit :
  prepend_height cs height = Ok script -> (length script <= 100)%nat ->
  (forall h, height = Some h -> 0 <= h) ->
  claimed reward height regtest = Some value -> 0 <= value < 2 ^ 64 ->
  (forall h r, height = Some h -> reward = Some r -> r <= subsidy h (interval_of regtest)) ->
  zlen spk < 2 ^ 64 ->
  commit_spk wroot = Ok commit -> (forall c, commit = Some c -> zlen c < 2 ^ 64) ->
  coinbase_tx cs spk reward height regtest wroot = Ok (coinbase_expected script value spk commit).
Proof.
  intros P L H0 C V Rle S CS CL. rewrite coinbase_tx_unfold.
  assert (R : reward_step reward height regtest = Ok (Some value)).
  { unfold reward_step, claimed in *. destruct height as [h|].
    - specialize (H0 h eq_refl). destruct (Z.ltb_spec h 0); [lia|].
      destruct reward as [r|].
      + inversion C; subst. specialize (Rle h value eq_refl eq_refl).
        destruct (Z.leb_spec value (subsidy h (interval_of regtest))); [reflexivity|lia].
      + now inversion C.
    - now rewrite C. }
  rewrite R. cbn [bind]. rewrite (coinbase_txin_ok cs _ height script P L). cbn [bind].
  rewrite txout_ok by assumption. cbn [bind].
  destruct wroot as [[|b r]|]; cbn [py_truthy_bytes commit_spk] in *.
  - inversion CS; subst. rewrite tx_raw_legacy. f_equal. apply legacy_layout.
  - destruct (script_push ([xaa; x21; xa9; xed] ++ b :: r)) as [push|e] eqn:SP; [|discriminate].
    cbn [rmap] in CS. inversion CS; subst. cbv zeta. cbn [bind].
    rewrite txout_ok by (try apply CL; try reflexivity; lia). cbn [bind].
    rewrite reserved_witness. cbn [bind]. rewrite tx_raw_segwit. f_equal. apply segwit_layout.
  - inversion CS; subst. rewrite tx_raw_legacy. f_equal. apply legacy_layout.
Qed.

(* when is the result an error *)
Theorem coinbase_tx_script_limit cs spk reward height regtest wroot script :
  prepend_height cs height = Ok script -> (100 < length script)%nat ->
  exists e, coinbase_tx cs spk reward height regtest wroot = Err e.
Proof.
  intros P L. rewrite coinbase_tx_unfold.
  destruct (reward_step reward height regtest) as [r'|e]; [|eexists; reflexivity].
  cbn [bind]. rewrite (coinbase_txin_too_long cs _ height script P L). eexists; reflexivity.
Qed.

Theorem coinbase_tx_reward_too_high cs spk r h regtest wroot :
  0 <= h -> subsidy h (interval_of regtest) < r ->
  coinbase_tx cs spk (Some r) (Some h) regtest wroot = Err AssertionE.
Proof.
  intros H0 G. rewrite coinbase_tx_unfold. unfold reward_step.
  destruct (Z.ltb_spec h 0); [lia|].
  destruct (Z.leb_spec r (subsidy h (interval_of regtest))); [lia|]. reflexivity.
Qed.

(* ---------- BIP141 commitment ---------- *)
Lemma commit_spk_32 root : length root = 32%nat -> commit_spk (Some root) = Ok (Some (commitment_script root)).
Proof.
  intros L. destruct root as [|b r]; [discriminate L|]. cbn [commit_spk].
  rewrite commitment_push by exact L. reflexivity.
Qed.

Lemma commit_spk_none_iff wroot c : commit_spk wroot = Ok c ->
  (c <> None <-> exists b r, wroot = Some (b :: r)).
Proof.
  destruct wroot as [[|b r]|]; cbn [commit_spk].
  - intros E; inversion E. split; [congruence | intros (? & ? & ?); discriminate].
  - destruct (script_push _); cbn [rmap]; intros E; inversion E.
    split; [intros _; eauto | discriminate].
  - intros E; inversion E. split; [congruence | intros (? & ? & ?); discriminate].
Qed.

Lemma script_push_length data p : script_push data = Ok p -> zlen p <= zlen data + 5 /\ zlen data < 2 ^ 32.
Proof.
  unfold script_push. pose proof (zlen_nonneg data) as N.
  destruct (Z.ltb_spec 75 (zlen data)) as [G|G].
  - assert (B : (bit_length (zlen data) + 7) / 8 <= 4 -> zlen data < 2 ^ 32).
    { intros M. rewrite bit_length_pos in M by lia.
      assert (Z.log2 (zlen data) < 32).
      { destruct (Z_lt_le_dec (Z.log2 (zlen data)) 32) as [|C]; [assumption|]. exfalso.
        assert (5 <= (Z.log2 (zlen data) + 1 + 7) / 8) by (apply Z.div_le_lower_bound; lia). lia. }
      apply Z.log2_lt_pow2; lia. }
    destruct (Z.eqb_spec ((bit_length (zlen data) + 7) / 8) 1) as [E1|_];
      [|destruct (Z.eqb_spec ((bit_length (zlen data) + 7) / 8) 2) as [E2|_];
        [|destruct (Z.leb_spec ((bit_length (zlen data) + 7) / 8) 4) as [E4|_]]];
      intros E; try discriminate; apply ok_inj in E; subst p; unfold zlen in *;
      rewrite !app_length, to_le_length; cbn [length]; (split; [lia | apply B; lia]).
  - intros E. apply ok_inj in E. subst p. unfold zlen in *. rewrite app_length, to_le_length.
    split; [lia|]. apply Z.le_lt_trans with 75; [lia | reflexivity].
Qed.

Lemma commit_spk_length wroot c : commit_spk wroot = Ok (Some c) -> zlen c < 2 ^ 64.
Proof.
  destruct wroot as [[|b r]|]; cbn [commit_spk]; try discriminate.
  destruct (script_push ([xaa; x21; xa9; xed] ++ b :: r)) as [p|e] eqn:SP; cbn [rmap]; [|discriminate].
  intros E. apply ok_inj in E. injection E as <-.
  apply script_push_length in SP as [L1 L2]. unfold zlen in *.
  set (n := Z.of_nat (length ([xaa; x21; xa9; xed] ++ b :: r))) in *.
  cbn [app length]. rewrite Nat2Z.inj_succ.
  assert (2 ^ 32 + 10 < 2 ^ 64) by reflexivity. lia.
Qed.

Section WithHash.
  Variable sha256 : bytes -> bytes.

  (* coinbase_tx writes its argument VERBATIM after 6a24aa21a9ed: read as "the witness merkle root" (the parameter's
     name and docstring) the output is the BIP141 commitment to that root only if the root is a fixed point of
     r |-> hash256(r ++ reserved); the argument has to be the commitment hash itself *)
  Theorem commitment_arg_is_the_hash root : length root = 32%nat ->
    (commit_spk (Some root) = Ok (Some (commitment_script (commitment_hash sha256 root witness_reserved_value)))
     <-> commitment_hash sha256 root witness_reserved_value = root).
  Proof.
    intros L. rewrite (commit_spk_32 root L). split.
    - intros E. apply ok_inj in E. injection E as E. symmetry. exact E.
    - intros ->. reflexivity.
  Qed.

  (* what mine_block passes as witness_merkle_root_hash is the BIP141 commitment hash of the block's
     witness root *)
  Theorem mine_block_commitment_is_bip141 wtxids :
    mine_block_commitment sha256 wtxids
    = Ok (commitment_hash sha256 (witness_root sha256 wtxids) witness_reserved_value).
  Proof.
    unfold mine_block_commitment. change (repeat x00 32) with null_txid.
    rewrite merkle_is_spec by discriminate. reflexivity.
  Qed.
End WithHash.
