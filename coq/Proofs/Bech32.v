(* C06 main lemmas: the decoder + validity check of utils.py accept exactly BIP173/BIP350's valid segwit
   addresses (with the same hrp/version/program), every failure is an AssertionError, the classifiers
   are total, and encode/decode round-trips. *)
From Coq Require Import ZArith List Lia Bool.
Require Import Bits.Lib.Result Bits.Lib.Bytes Bits.Lib.Radix Bits.Lib.RadixW.
Require Import Bits.Spec.Bip173 Bits.Model.Base58 Bits.Model.Bech32.
Require Import Bits.Proofs.Bech32Checksum Bits.Proofs.Bech32Regroup Bits.Proofs.Bech32Parse.
Import ListNotations.
Local Open Scope Z_scope.
Local Open Scope result_scope.

(* ---------- small helpers ---------- *)
Lemma assert_ok b e u : assert_ b e = Ok u -> b = true.
Proof. destruct b; [reflexivity|discriminate]. Qed.

Lemma assert_true e : assert_ true e = Ok tt.
Proof. reflexivity. Qed.

Lemma mapM_firstn {A B} (f : A -> result B) n : forall l r,
  mapM f l = Ok r -> mapM f (firstn n l) = Ok (firstn n r).
Proof.
  induction n as [|n IH]; intros l r H; [reflexivity|].
  destruct l as [|x l]; cbn [mapM] in H.
  - injection H as <-. reflexivity.
  - destruct (f x) as [y|] eqn:E; cbn [bind] in H; [|discriminate].
    destruct (mapM f l) as [ys|] eqn:E'; cbn [bind] in H; [|discriminate].
    injection H as <-. cbn [firstn mapM]. rewrite E. cbn [bind]. now rewrite (IH l ys E').
Qed.

Lemma forallb_skipn {A} (p : A -> bool) n l : forallb p l = true -> forallb p (skipn n l) = true.
Proof.
  rewrite !forallb_forall. intros H x Hx. apply H. rewrite <- (firstn_skipn n l). apply in_or_app. now right.
Qed.

Lemma forallb_firstn {A} (p : A -> bool) n l : forallb p l = true -> forallb p (firstn n l) = true.
Proof.
  rewrite !forallb_forall. intros H x Hx. apply H. rewrite <- (firstn_skipn n l). apply in_or_app. now left.
Qed.

Lemma forallb_eq {A} (p q : A -> bool) l : (forall x, p x = q x) -> forallb p l = forallb q l.
Proof. intros E. induction l as [|x l IH]; cbn [forallb]; [reflexivity|]. now rewrite E, IH. Qed.

Lemma nonempty_length {A} (l : list A) : nonempty l = true <-> (0 < length l)%nat.
Proof. destruct l; cbn; split; (lia || discriminate || auto). Qed.

Lemma nonempty_false_length {A} (l : list A) : nonempty l = false <-> length l = 0%nat.
Proof. destruct l; cbn; split; (lia || discriminate || auto). Qed.

Lemma droplast_length {A} n (l : list A) : length (droplast n l) = (length l - n)%nat.
Proof. unfold droplast. rewrite firstn_length. lia. Qed.

Lemma lastn_length {A} n (l : list A) : length (lastn n l) = Nat.min n (length l).
Proof. unfold lastn. rewrite skipn_length. lia. Qed.

Lemma hrp_range_eq h :
  forallb (fun c => in_range_Z (b2z c) 33 127) h = forallb (fun c => (33 <=? b2z c) && (b2z c <=? 126)) h.
Proof.
  apply forallb_eq. intros c. unfold in_range_Z. f_equal.
  destruct (Z.ltb_spec (b2z c) 127), (Z.leb_spec (b2z c) 126); (reflexivity || lia).
Qed.

(* ---------- the part of the decoder after parse_bech32 / of the spec after the split ---------- *)
Definition model_tail (hrp data : bytes) : result (bytes * Z * bytes) :=
  assert_ (nonempty (droplast 6 data)) AssertionE ;;;
  assert_ (int_map_mem (firstn 1 data)) AssertionE ;;;
  v0 <- int_map_get (firstn 1 data) ;;
  assert_valid_bech32 hrp data (if negb (v0 =? 0) && true then BECH32M_CONST else 1) ;;;
  witness_version <- int_map_get (firstn 1 data) ;;
  assert_ (in_range_Z witness_version 0 17) AssertionE ;;;
  assert_ (nonempty (droplast 6 (skipn 1 data))) AssertionE ;;;
  witness_program <- bech32_decode (droplast 6 (skipn 1 data)) ;;
  assert_valid_segwit hrp witness_version witness_program ;;;
  Ok (hrp, witness_version, witness_program).

Ltac head_m t := match t with bind ?m _ => head_m m | _ => t end.

Lemma decode_valid_unfold s :
  decode_valid s = bind (parse_bech32 s) (fun hd => model_tail (fst hd) (snd hd)).
Proof.
  unfold decode_valid, decode_segwit_addr, decode_segwit_addr_, model_tail.
  destruct (parse_bech32 s) as [[h d]|e]; [|reflexivity]. cbn [bind fst snd].
  repeat match goal with
         | |- bind ?m _ = _ => let a := head_m m in destruct a; cbn [bind]; try reflexivity
         end.
Qed.

Definition spec_tail (hrp dp : bytes) : option (bytes * Z * bytes) :=
  if negb ((1 <=? length hrp)%nat && (length hrp <=? 83)%nat
           && forallb (fun c => (33 <=? b2z c) && (b2z c <=? 126)) hrp) then None else
  if negb (6 <=? length dp)%nat then None else
  match values_of dp with
  | None => None
  | Some [] => None
  | Some (version :: rest) =>
    if negb (version <=? 16) then None else
    if negb (polymod (hrp_expand hrp ++ version :: rest)
             =? (if version =? 0 then BECH32_CONST else BECH32M_CONST)) then None else
    match convert_5to8 (droplast 6 rest) with
    | None => None
    | Some prog =>
      if program_length_ok version (length prog) && existsb (bytes_eqb hrp) segwit_hrps
      then Some (hrp, version, prog) else None
    end
  end.

Lemma spec_decode_unfold s :
  spec_decode s =
  if negb (Z.of_nat (length s) <=? max_len) then None else
  if mixed_case s then None else
  match split_last_sep (lowercase s) with
  | None => None
  | Some (hrp, dp) => spec_tail hrp dp
  end.
Proof. reflexivity. Qed.

Lemma segwit_check_eq h v p :
  assert_valid_segwit h v p
  = assert_ (program_length_ok v (length p) && existsb (bytes_eqb h) segwit_hrps) AssertionE.
Proof.
  unfold assert_valid_segwit, program_length_ok, in_range_Z, lenZ.
  change [hrp_bc; hrp_tb; hrp_bcrt] with segwit_hrps.
  destruct (existsb (bytes_eqb h) segwit_hrps); cbn [assert_ bind]; [|now rewrite andb_false_r].
  rewrite andb_true_r.
  destruct (Z.leb_spec 2 (Z.of_nat (length p))), (Nat.leb_spec 2 (length p)); try lia; cbn [andb assert_ bind]; [|reflexivity].
  destruct (Z.ltb_spec (Z.of_nat (length p)) 41), (Nat.leb_spec (length p) 40); try lia; cbn [andb assert_ bind]; [|reflexivity].
  destruct (v =? 0); [|reflexivity].
  destruct (Z.eqb_spec (Z.of_nat (length p)) 20), (Nat.eqb_spec (length p) 20); try lia; cbn [orb]; [reflexivity|].
  destruct (Z.eqb_spec (Z.of_nat (length p)) 32), (Nat.eqb_spec (length p) 32); try lia; reflexivity.
Qed.

Lemma droplast_mapM d' rest : mapM int_map_byte d' = Ok rest ->
  mapM int_map_byte (droplast 6 d') = Ok (droplast 6 rest).
Proof.
  intros M. pose proof (mapM_int_map_ok _ _ M) as (_ & _ & _ & _ & _ & L & _).
  unfold droplast. rewrite L. now apply mapM_firstn.
Qed.

Lemma in_range_droplast b n l : in_range b l -> in_range b (droplast n l).
Proof. apply in_range_firstn. Qed.

Lemma const_eq v : (if negb (v =? 0) && true then BECH32M_CONST else 1) = (if v =? 0 then BECH32_CONST else BECH32M_CONST).
Proof. destruct (v =? 0); reflexivity. Qed.

(* ---------- soundness: what the code accepts is valid per the BIPs, with the same result ---------- *)
Lemma tail_sound h d r : model_tail h d = Ok r -> spec_tail h d = Some r.
Proof.
  unfold model_tail. intros H.
  apply bind_ok in H as (u1 & A1 & H). apply assert_ok in A1.
  apply bind_ok in H as (u2 & A2 & H). apply assert_ok in A2.
  apply bind_ok in H as (v0 & B0 & H).
  apply bind_ok in H as (u3 & AV & H).
  apply bind_ok in H as (wv & B1 & H).
  apply bind_ok in H as (u4 & A3 & H). apply assert_ok in A3.
  apply bind_ok in H as (u5 & A4 & H). apply assert_ok in A4.
  apply bind_ok in H as (prog & D & H).
  apply bind_ok in H as (u6 & S & H). injection H as <-.
  rewrite B0 in B1. injection B1 as <-.
  destruct d as [|c d']; [discriminate A2|].
  change (firstn 1 (c :: d')) with [c] in *. change (skipn 1 (c :: d')) with d' in *.
  cbn [int_map_get] in B0.
  unfold assert_valid_bech32 in AV.
  apply bind_ok in AV as (w1 & F1 & AV). apply assert_ok in F1.
  apply bind_ok in AV as (w2 & F2 & AV). apply assert_ok in F2.
  apply bind_ok in AV as (w3 & F3 & AV). apply assert_ok in F3.
  apply bind_ok in AV as (w4 & F4 & AV). apply assert_ok in F4.
  apply bind_ok in AV as (w5 & F5 & AV). apply assert_ok in F5.
  apply bind_ok in AV as (vals & M & V). apply assert_ok in V.
  cbn [mapM] in M. rewrite B0 in M. cbn [bind] in M.
  destruct (mapM int_map_byte d') as [rest|] eqn:M'; cbn [bind] in M; [|discriminate]. injection M as <-.
  pose proof (mapM_int_map_ok _ _ M') as (V' & R' & _ & _ & _ & L' & _).
  pose proof (int_map_byte_ok _ _ B0) as (CV & Rv & _).
  unfold spec_tail.
  rewrite <- hrp_range_eq, F1. unfold in_range_Z, lenZ in F2, A3.
  apply andb_true_iff in F2 as [F2a F2b]. apply Z.leb_le in F2a. apply Z.ltb_lt in F2b.
  replace (1 <=? length h)%nat with true by (symmetry; apply Nat.leb_le; lia).
  replace (length h <=? 83)%nat with true by (symmetry; apply Nat.leb_le; lia). cbn [andb negb].
  apply nonempty_length in A1. rewrite droplast_length in A1. cbn [length] in A1.
  replace (6 <=? length (c :: d'))%nat with true by (symmetry; apply Nat.leb_le; cbn [length]; lia). cbn [negb].
  cbn [values_of]. rewrite CV, V'.
  apply andb_true_iff in A3 as [_ A3]. apply Z.ltb_lt in A3.
  replace (v0 <=? 16) with true by (symmetry; apply Z.leb_le; lia). cbn [negb].
  unfold bech32_verify_checksum in V. rewrite polymod_spec, hrp_expand_spec, const_eq in V.
  rewrite V. cbn [negb].
  apply nonempty_length in A4.
  rewrite (bech32_decode_vals _ _ (droplast_mapM _ _ M')) in D.
  rewrite decode_vals_spec in D.
  - destruct (convert_5to8 (droplast 6 rest)) as [p|]; [|discriminate]. injection D as ->.
    rewrite segwit_check_eq in S. apply assert_ok in S. now rewrite S.
  - now apply in_range_droplast.
  - intros E. rewrite droplast_length in A4. apply (f_equal (@length Z)) in E.
    rewrite droplast_length in E. cbn [length] in E. lia.
Qed.

(* ---------- completeness: every address valid per the BIPs is accepted, with the same result ---------- *)
Lemma tail_complete h d r : spec_tail h d = Some r -> model_tail h d = Ok r.
Proof.
  unfold spec_tail. intros H.
  destruct ((1 <=? length h)%nat && (length h <=? 83)%nat
            && forallb (fun c => (33 <=? b2z c) && (b2z c <=? 126)) h) eqn:C1; [|discriminate].
  apply andb_true_iff in C1 as [C1 C1c]. apply andb_true_iff in C1 as [C1a C1b].
  apply Nat.leb_le in C1a, C1b.
  destruct (6 <=? length d)%nat eqn:C2; [|discriminate]. apply Nat.leb_le in C2. cbn [negb] in H.
  destruct (values_of d) as [[|v rest]|] eqn:VO; try discriminate.
  destruct (v <=? 16) eqn:C3; [|discriminate]. apply Z.leb_le in C3. cbn [negb] in H.
  destruct (polymod (hrp_expand h ++ v :: rest) =? (if v =? 0 then BECH32_CONST else BECH32M_CONST)) eqn:C4;
    [|discriminate]. cbn [negb] in H.
  destruct (convert_5to8 (droplast 6 rest)) as [prog|] eqn:CV; [|discriminate].
  destruct (program_length_ok v (length prog) && existsb (bytes_eqb h) segwit_hrps) eqn:C5; [|discriminate].
  injection H as <-.
  pose proof (values_of_mapM _ _ VO) as M.
  destruct d as [|c d']; [discriminate M|].
  cbn [mapM] in M. destruct (int_map_byte c) as [v'|] eqn:B0; cbn [bind] in M; [|discriminate].
  destruct (mapM int_map_byte d') as [rest'|] eqn:M'; cbn [bind] in M; [|discriminate].
  injection M as -> ->.
  pose proof (mapM_int_map_ok _ _ M') as (_ & R' & FC & _ & _ & L' & _).
  pose proof (int_map_byte_ok _ _ B0) as (_ & Rv & IC & _).
  (* the program has at least two bytes, hence at least four payload characters *)
  assert (PL : (2 <= length prog)%nat).
  { apply andb_true_iff in C5 as [C5 _]. unfold program_length_ok in C5.
    apply andb_true_iff in C5 as [C5 _]. apply andb_true_iff in C5 as [C5 _]. now apply Nat.leb_le. }
  pose proof (convert_5to8_length _ _ CV) as PLen. rewrite droplast_length in PLen.
  assert (LR : (10 <= length rest)%nat).
  { destruct (Nat.le_gt_cases 10 (length rest)) as [G|G]; [exact G|exfalso].
    assert (X : (5 * (length rest - 6) / 8 < 2)%nat) by (apply Nat.div_lt_upper_bound; lia). lia. }
  unfold model_tail.
  change (firstn 1 (c :: d')) with [c]. change (skipn 1 (c :: d')) with d'.
  replace (nonempty (droplast 6 (c :: d'))) with true
    by (symmetry; apply nonempty_length; rewrite droplast_length; cbn [length]; lia).
  cbn [assert_ bind int_map_mem int_map_get]. fold (in_chars c). rewrite IC. cbn [assert_ bind].
  rewrite B0. cbn [bind].
  (* assert_valid_bech32 *)
  unfold assert_valid_bech32. rewrite hrp_range_eq, C1c. cbn [assert_ bind].
  unfold in_range_Z, lenZ.
  replace (1 <=? Z.of_nat (length h)) with true by (symmetry; apply Z.leb_le; lia).
  replace (Z.of_nat (length h) <? 84) with true by (symmetry; apply Z.ltb_lt; lia). cbn [andb assert_ bind].
  rewrite lastn_length. replace (Nat.min 6 (length (c :: d'))) with 6%nat by lia.
  cbn [Z.of_nat Pos.of_succ_nat Pos.succ Z.eqb Pos.eqb assert_ bind].
  assert (FD : forallb in_chars (c :: d') = true) by (cbn [forallb]; now rewrite IC, FC).
  unfold lastn. rewrite (forallb_skipn _ _ _ FD), FD. cbn [assert_ bind].
  cbn [mapM]. rewrite B0. cbn [bind]. rewrite M'. cbn [bind].
  unfold bech32_verify_checksum. rewrite polymod_spec, hrp_expand_spec, const_eq, C4. cbn [assert_ bind].
  replace (0 <=? v) with true by (symmetry; apply Z.leb_le; lia).
  replace (v <? 17) with true by (symmetry; apply Z.ltb_lt; lia). cbn [andb assert_ bind].
  replace (nonempty (droplast 6 d')) with true
    by (symmetry; apply nonempty_length; rewrite droplast_length; lia).
  cbn [assert_ bind].
  rewrite (bech32_decode_vals _ _ (droplast_mapM _ _ M')).
  rewrite decode_vals_spec, CV.
  - cbn [bind]. now rewrite segwit_check_eq, C5.
  - now apply in_range_droplast.
  - intros E. apply (f_equal (@length Z)) in E. rewrite droplast_length in E. cbn [length] in E. lia.
Qed.

(* ---------- every failure of the decoder + validity check is an AssertionError ---------- *)
Lemma assert_err b e e2 : assert_ b e = Err e2 -> e2 = e.
Proof. destruct b; cbn; congruence. Qed.

Ltac assert_step H A :=
  match type of H with
  | bind (assert_ ?b AssertionE) _ = Err ?e =>
    destruct b eqn:A; cbn [assert_ bind] in H; [|injection H as <-; reflexivity]
  end.

Lemma tail_err h d e : model_tail h d = Err e -> e = AssertionE.
Proof.
  unfold model_tail. intros H.
  assert_step H A1. assert_step H A2.
  destruct d as [|c d']; [discriminate A2|].
  change (firstn 1 (c :: d')) with [c] in *. change (skipn 1 (c :: d')) with d' in *.
  cbn [int_map_mem int_map_get] in *. fold (in_chars c) in A2.
  destruct (in_chars_int_map c A2) as (v0 & B0). rewrite B0 in H. cbn [bind] in H.
  destruct (assert_valid_bech32 h (c :: d') (if negb (v0 =? 0) && true then BECH32M_CONST else 1)) as [u|e'] eqn:AV;
    cbn [bind] in H.
  - assert_step H A3. assert_step H A4.
    (* the checksum check has passed, so every character is in the table *)
    unfold assert_valid_bech32 in AV.
    apply bind_ok in AV as (w1 & _ & AV). apply bind_ok in AV as (w2 & _ & AV).
    apply bind_ok in AV as (w3 & _ & AV). apply bind_ok in AV as (w4 & _ & AV).
    apply bind_ok in AV as (w5 & _ & AV). apply bind_ok in AV as (vals & M & _).
    cbn [mapM] in M. rewrite B0 in M. cbn [bind] in M.
    destruct (mapM int_map_byte d') as [rest|] eqn:M'; cbn [bind] in M; [|discriminate].
    pose proof (mapM_int_map_ok _ _ M') as (_ & R' & _).
    rewrite (bech32_decode_vals _ _ (droplast_mapM _ _ M')) in H.
    rewrite decode_vals_spec in H.
    + destruct (convert_5to8 (droplast 6 rest)) as [p|]; cbn [bind] in H; [|now injection H as <-].
      rewrite segwit_check_eq in H. assert_step H A5. discriminate H.
    + now apply in_range_droplast.
    + intros E. apply nonempty_length in A4. pose proof (droplast_mapM _ _ M') as MM.
      apply mapM_int_map_ok in MM as (_ & _ & _ & _ & _ & LL & _). rewrite E in LL. cbn [length] in LL. lia.
  - injection H as <-. unfold assert_valid_bech32 in AV.
    assert_step AV F1. assert_step AV F2. assert_step AV F3. assert_step AV F4. assert_step AV F5.
    destruct (forallb_in_chars_mapM _ F5) as (vals & M). rewrite M in AV. cbn [bind] in AV.
    now apply assert_err in AV.
Qed.

Lemma tail_eq h d :
  model_tail h d = match spec_tail h d with Some r => Ok r | None => Err AssertionE end.
Proof.
  destruct (model_tail h d) as [r|e] eqn:M.
  - now rewrite (tail_sound _ _ _ M).
  - rewrite (tail_err _ _ _ M). destruct (spec_tail h d) as [r|] eqn:S; [|reflexivity].
    rewrite (tail_complete _ _ _ S) in M. discriminate.
Qed.

(* ---------- the whole decoder ---------- *)
Lemma spec_tail_hrp h d r : spec_tail h d = Some r -> existsb (bytes_eqb h) segwit_hrps = true.
Proof.
  unfold spec_tail. intros H.
  destruct (negb _); [discriminate|]. destruct (negb _); [discriminate|].
  destruct (values_of d) as [[|v rest]|]; try discriminate.
  destruct (negb _); [discriminate|]. destruct (negb _); [discriminate|].
  destruct (convert_5to8 _); [|discriminate].
  destruct (_ && existsb _ _) eqn:E; [|discriminate]. apply andb_true_iff in E as [_ E]. exact E.
Qed.

Lemma segwit_hrp_cases h : existsb (bytes_eqb h) segwit_hrps = true -> h = hrp_bc \/ h = hrp_tb \/ h = hrp_bcrt.
Proof.
  cbn [existsb segwit_hrps]. rewrite !orb_true_iff, !bytes_eqb_eq. intros [H|[H|[H|H]]]; auto. discriminate.
Qed.

Lemma segwit_hrp_head h : existsb (bytes_eqb h) segwit_hrps = true -> exists c t, h = c :: t /\ is_lower c = true.
Proof.
  intros H. apply segwit_hrp_cases in H as [-> | [-> | ->]]; eexists; eexists; (split; [reflexivity|reflexivity]).
Qed.

Theorem decode_valid_spec s :
  decode_valid s = match spec_decode s with Some r => Ok r | None => Err AssertionE end.
Proof.
  rewrite decode_valid_unfold, parse_bech32_eq, spec_decode_unfold. unfold lenZ.
  destruct (Z.of_nat (length s) <=? max_len); cbn [negb andb]; [|reflexivity].
  destruct (py_isupper s || py_islower s) eqn:C.
  - rewrite (case_ok_not_mixed _ C).
    destruct (split_last_sep (lowercase s)) as [[h d]|]; [|reflexivity].
    destruct h as [|c h]; [reflexivity|]. cbn [nonempty bind fst snd]. apply tail_eq.
  - cbn [bind]. destruct (mixed_case s) eqn:MC; [reflexivity|].
    destruct (split_last_sep (lowercase s)) as [[h d]|] eqn:SP; [|reflexivity].
    destruct (spec_tail h d) as [r|] eqn:ST; [exfalso|reflexivity].
    apply spec_tail_hrp in ST. apply segwit_hrp_head in ST as (c & t & -> & LC).
    apply split_last_sep_some in SP as (SP & _). cbn [app] in SP.
    pose proof (lowercase_head_letter _ _ _ SP LC) as LT.
    rewrite (not_mixed_case_ok _ MC LT) in C. discriminate.
Qed.

Theorem accept_iff_spec s r : decode_valid s = Ok r <-> spec_decode s = Some r.
Proof.
  rewrite decode_valid_spec. destruct (spec_decode s) as [r'|]; split; intros H; try discriminate;
    injection H as ->; reflexivity.
Qed.

Theorem decode_valid_error_kind s e : decode_valid s = Err e -> e = AssertionE.
Proof. rewrite decode_valid_spec. destruct (spec_decode s); [discriminate|]. now intros [= <-]. Qed.

Lemma decode_valid_parts s h v p : decode_valid s = Ok (h, v, p) <->
  decode_segwit_addr s = Ok (h, v, p) /\ assert_valid_segwit h v p = Ok tt.
Proof.
  unfold decode_valid. split.
  - intros H. apply bind_ok in H as ([[h' v'] p'] & D & H).
    apply bind_ok in H as (u & S & H). injection H as -> -> ->. destruct u. auto.
  - intros [D S]. rewrite D. cbn [bind]. rewrite S. reflexivity.
Qed.

(* decode_segwit_addr on its own can only fail with AssertionError as well *)
Theorem decode_segwit_addr_error_kind s e : decode_segwit_addr s = Err e -> e = AssertionE.
Proof.
  intros H. apply (decode_valid_error_kind s). unfold decode_valid. rewrite H. reflexivity.
Qed.

(* ---------- classifiers ---------- *)
Theorem is_segwit_addr_spec s : is_segwit_addr s = Ok (valid_segwit s).
Proof.
  unfold is_segwit_addr, valid_segwit. rewrite decode_valid_spec. destruct (spec_decode s); reflexivity.
Qed.

Section WithHash.
  Variable sha256 : bytes -> bytes.

  Theorem is_addr_spec s : is_addr sha256 s = Ok (is_base58check sha256 s || valid_segwit s).
  Proof.
    unfold is_addr. rewrite is_segwit_addr_spec. destruct (is_base58check sha256 s); [reflexivity|].
    cbn [bind orb]. destruct (valid_segwit s); reflexivity.
  Qed.

  Theorem assert_addr_spec s :
    assert_addr sha256 s = if is_base58check sha256 s || valid_segwit s then Ok true else Err AssertionE.
  Proof.
    unfold assert_addr, is_base58check, is_ok, valid_segwit. rewrite decode_valid_spec.
    destruct (base58check_decode sha256 s); [reflexivity|]. cbn [orb].
    destruct (spec_decode s); reflexivity.
  Qed.

  Theorem classifiers_total s :
    (exists b, is_segwit_addr s = Ok b) /\ (exists b, is_addr sha256 s = Ok b).
  Proof. split; eexists; [apply is_segwit_addr_spec|apply is_addr_spec]. Qed.
End WithHash.
