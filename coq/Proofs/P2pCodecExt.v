(* Proofs about getblocks_payload / headers_payload (Model/P2pCodecExt.v): reference layout (Spec/P2pHeaders.v),
   round trips through parse_getheaders_payload (the repo's parser of the same layout) and through the reference
   receiver of a headers message. *)
From Coq Require Import ZArith List Lia Bool Arith.
Require Import Bits.Lib.Result Bits.Lib.Bytes Bits.Lib.CompactSize Bits.Spec.P2pHeaders.
Require Import Bits.Model.CompactSize Bits.Proofs.CompactSize Bits.Model.P2pCodec Bits.Proofs.P2pCodec Bits.Proofs.P2pCodec2.
Require Import Bits.Model.P2pCodecExt.
Import ListNotations.
Import Coq.Init.Byte.
Local Open Scope Z_scope.

(* ------------------------------------------------------------------ getblocks *)
(* the same bytes as getheaders_payload with hash_count = the number of hashes and an all-zero stop hash *)
Theorem getblocks_is_getheaders hs pv :
  getblocks_payload hs pv = getheaders_payload pv (Z.of_nat (length hs)) hs (repeat x00 32).
Proof. reflexivity. Qed.

Theorem getblocks_layout hs pv : 0 <= pv < 2 ^ 32 -> Z.of_nat (length hs) < 2 ^ 64 ->
  getblocks_payload hs pv = Ok (spec_getblocks_payload pv hs stop_hash_all).
Proof.
  intros Hpv Hn. unfold getblocks_payload, spec_getblocks_payload, stop_hash_all.
  rewrite to_le_chk_ok by (rewrite pow256_4; lia). rewrite compact_size_uint_spec by lia. reflexivity.
Qed.

(* parse (build x) = x for every version, any number of 32-byte hashes (count crossing 252/253, 2^16, 2^32) *)
Theorem getblocks_roundtrip hs pv :
  0 <= pv < 2 ^ 32 -> hashes_ok hs -> Z.of_nat (length hs) < 2 ^ 64 ->
  exists p, getblocks_payload hs pv = Ok p
    /\ p = spec_getblocks_payload pv hs stop_hash_all
    /\ parse_getheaders_payload p
       = Ok (pv, Z.of_nat (length hs), match hs with [] => None | _ => Some hs end, stop_hash_all).
Proof.
  intros Hpv Hhs Hn.
  destruct (codec_roundtrip_getheaders pv hs (repeat x00 32) Hpv Hhs (repeat_length _ _) Hn) as (p & B & P).
  exists p. rewrite getblocks_is_getheaders. split; [exact B|]. split; [|exact P].
  rewrite <- getblocks_is_getheaders, getblocks_layout in B by lia. now injection B as <-.
Qed.

Theorem getblocks_refuses_version hs pv : ~ (0 <= pv < 2 ^ 32) -> getblocks_payload hs pv = Err OverflowE.
Proof. intros H. unfold getblocks_payload. rewrite to_le_chk_err by (now rewrite pow256_4). reflexivity. Qed.

Theorem getblocks_default hs : getblocks_payload_opt hs None = getblocks_payload hs 70015.
Proof. reflexivity. Qed.

(* ------------------------------------------------------------------ headers *)
Definition headers_ok (hs : list bytes) : Prop := Forall (fun h => length h = 80%nat) hs.

Theorem headers_layout count hs : 0 <= count < 2 ^ 64 ->
  headers_payload count hs = Ok (cs_enc count ++ concat (map header_entry hs)).
Proof. intros H. unfold headers_payload. rewrite compact_size_uint_spec by lia. reflexivity. Qed.

Theorem headers_refuses_count count hs : ~ (0 <= count < 2 ^ 64) -> headers_payload count hs = Err ValueE.
Proof. intros H. unfold headers_payload. rewrite cs_refuses by lia. reflexivity. Qed.

Lemma entries_length hs : headers_ok hs -> length (concat (map header_entry hs)) = (81 * length hs)%nat.
Proof.
  induction 1 as [|h hs Hh _ IH]; [reflexivity|]. cbn [map concat]. unfold header_entry at 1.
  rewrite !app_length, IH, Hh. cbn [length]. lia.
Qed.

Lemma spec_parse_entries_build hs rest : headers_ok hs ->
  spec_parse_entries (length hs) (concat (map header_entry hs) ++ rest) = Some (hs, rest).
Proof.
  induction 1 as [|h hs Hh _ IH]; [reflexivity|].
  cbn [map concat length spec_parse_entries].
  set (tl := concat (map header_entry hs) ++ rest) in *.
  assert (E : (header_entry h ++ concat (map header_entry hs)) ++ rest = h ++ x00 :: tl)
    by (unfold tl, header_entry; now rewrite <- !app_assoc).
  rewrite !E.
  assert (L : length (h ++ x00 :: tl) = (81 + length tl)%nat) by (rewrite app_length, Hh; cbn [length]; lia).
  destruct (Nat.ltb_spec (length (h ++ x00 :: tl)) 81) as [C|_]; [lia|].
  rewrite app_nth2 by lia. rewrite Hh, Nat.sub_diag. cbn [nth]. change (b2z x00 =? 0) with true. cbn [negb].
  replace (skipn 81 (h ++ x00 :: tl)) with tl.
  2: { rewrite skipn_app, (skipn_all2 h) by lia. rewrite Hh. reflexivity. }
  rewrite IH. f_equal. f_equal. f_equal. rewrite firstn_app, firstn_all2 by lia. rewrite Hh, Nat.sub_diag.
  cbn [firstn]. apply app_nil_r.
Qed.

(* the reference receiver reads back exactly the headers that were given: count = their number (crossing 252/253),
   at most 2000 of them, each 80 bytes *)
Theorem headers_roundtrip hs : headers_ok hs -> (length hs <= 2000)%nat ->
  exists p, headers_payload (Z.of_nat (length hs)) hs = Ok p
    /\ p = spec_headers_payload hs
    /\ length p = (cs_len (Z.of_nat (length hs)) + 81 * length hs)%nat
    /\ spec_parse_headers p = Some hs.
Proof.
  intros Hhs Hn. assert (R : 0 <= Z.of_nat (length hs) < 2 ^ 64) by lia.
  exists (spec_headers_payload hs). split; [now apply headers_layout|]. split; [reflexivity|].
  unfold spec_headers_payload. split.
  - now rewrite app_length, cs_enc_length, entries_length.
  - unfold spec_parse_headers. rewrite cs_dec_enc by exact R. unfold max_headers.
    destruct (Z.ltb_spec 2000 (Z.of_nat (length hs))) as [C|_]; [lia|].
    rewrite Nat2Z.id. rewrite <- (app_nil_r (concat (map header_entry hs))).
    now rewrite spec_parse_entries_build.
Qed.

(* [count] is an argument of its own: nothing ties it to the list, nor to the documented maximum of 2000 *)
Theorem headers_count_unchecked_refuted :
  exists count hs p, headers_ok hs /\ headers_payload count hs = Ok p /\ spec_parse_headers p = None.
Proof.
  exists 2, [repeat x07 80], (x02 :: repeat x07 80 ++ [x00]). split; [repeat constructor|].
  split; vm_compute; reflexivity.
Qed.

Theorem headers_limit_unchecked_refuted :
  exists count hs p, max_headers < count /\ headers_payload count hs = Ok p.
Proof. exists 2001, [], [xfd; xd1; x07]. split; [reflexivity | vm_compute; reflexivity]. Qed.
