(* C16, send_valid in the template form, part 6: the legacy kinds p2pk, p2pkh, multisig, p2sh. *)
From Coq Require Import ZArith List Lia Bool.
From Coq Require Import Floats.SpecFloat.
Require Import Bits.Lib.Result Bits.Lib.Bytes Bits.Lib.PyStr Bits.Lib.CompactSize.
Require Import Bits.Spec.Bip66 Bits.Spec.Bip143 Bits.Spec.Sighash Bits.Spec.ScriptTemplatesDecode.
Require Import Bits.Model.Ecmath Bits.Model.SendValue Bits.Model.Send Bits.Model.Script.
Require Import Bits.Proofs.Ecdsa Bits.Proofs.Sec1 Bits.Proofs.ScriptWitness.
Require Import Bits.Proofs.SendValue Bits.Proofs.Send Bits.Proofs.SendSign Bits.Proofs.SendValid.
Require Import Bits.Proofs.SendUnlocks Bits.Proofs.SendUnlocks2 Bits.Proofs.SendUnlocks3 Bits.Proofs.SendUnlocks4
        Bits.Proofs.SendUnlocks5.
Require Bits.Model.Tx.
Import ListNotations.
Import Coq.Init.Byte.
Local Open Scope Z_scope.
Local Open Scope result_scope.

Section Cases.
  Variables p a b n : Z.
  Variable G : point.
  Variable sha256 ripemd160 : bytes -> bytes.
  Variable scriptpubkey : bytes -> result bytes.
  Variable is_address : bytes -> bool.
  Hypothesis facts : curve_facts p a b n G.
  Hypothesis SQ : sqrt_facts p.
  Hypothesis Hpw : p <= 2 ^ 256.
  Hypothesis Hnw : n <= 2 ^ 256.
  Hypothesis Hr160 : forall m, length (ripemd160 m) = 20%nat.
  Hypothesis Hs256 : forall m, length (sha256 m) = 32%nat.

  Variable sats : utxo -> Z.
  Variables sender recipient : bytes.
  Variable change : option bytes.
  Variables (f : Z) (frac : spec_float) (fee version locktime : Z) (total : spec_float) (unspents : list utxo).
  Variables (draws : list Z) (raw : bytes) (k : keyinfo) (u : unsigned) (sigs : list (list bytes)).
  Variables (left : bytes) (sss witb txins' : list bytes) (ul : utxo) (txl : bytes).

  Notation lss := (loop_scriptsig p a n G sha256 ripemd160).
  Notation sel_in := (selected_input p a n G sha256 ripemd160).
  Notation pays := (pays_to p a b n G sha256 ripemd160).
  Notation concl := (send_unlocks_concl p a b n G sha256 ripemd160 sats k u version locktime raw).
  Notation nins := (length (us_selected u)).

  Hypothesis Hb : build_unsigned p a n G sha256 ripemd160 scriptpubkey is_address sender recipient change (Some k) frac fee total
                                 unspents = Ok u.
  Hypothesis Hsign : sign_inputs p a n G sha256 ripemd160 k (Some f) version locktime u draws = Ok sigs.
  Hypothesis Hul : In (ul, txl) (us_selected u).
  Hypothesis Hleft : lss (Some k) ul = Ok left.
  Hypothesis Hasm : assemble p a n G k (Some left) nins sigs = Ok (sss, witb).
  Hypothesis Hreb : rebuild_txins (map snd (us_selected u)) sss = Ok txins'.
  Hypothesis Hraw : Bits.Model.Tx.tx_raw txins' (us_txouts u) version locktime witb = Ok raw.
  Hypothesis Hun : forall x, In x unspents ->
                     length (u_txid x) = 32%nat /\ sat_of_btc (u_amount x) = Ok (sats x) /\ 0 <= sats x < 2 ^ 64.
  Hypothesis Rv : 0 <= version < 2 ^ 32.
  Hypothesis Rl : 0 <= locktime < 2 ^ 32.
  Hypothesis Hf : standard_flag f.
  Hypothesis Hpays : forall x, In x unspents -> pays k (u_spk x).

  Lemma sel_nonempty : us_selected u <> [].
  Proof. intros E. rewrite E in Hul. exact Hul. Qed.

  (* finish, for a legacy kind: no witness data *)
  Lemma finish_legacy :
    segwit_kind k = false -> witb = [] -> length sss = nins ->
    (forall t' j xt i sgs digest,
        nth_error (us_selected u) j = Some xt -> In (fst xt) unspents ->
        sel_in (Some k) xt i -> nth_error sigs j = Some sgs ->
        legacy_sighash sha256 t' j (ti_script i) f = Some digest ->
        Forall2 (valid_sig p a b n G digest f) (ki_keys k) sgs ->
        exists items l,
          nth_error sss j = Some (push_ser items) /\ Forall (fun d => lenZ d < 2 ^ 32) items /\
          lock_of (u_spk (fst xt)) = Some l /\
          unlocks sha256 ripemd160 (ecdsa_ok p a b n G) bip66_valid decode_inner t' j (sats (fst xt)) l items []) ->
    concl.
  Proof.
    intros Hseg Ew Lsss H.
    apply (finish p a b n G sha256 ripemd160 scriptpubkey is_address facts sats sender recipient change f frac fee version
                  locktime total unspents draws raw k u sigs sss witb txins' [] (repeat [] nins)); auto.
    - exact sel_nonempty.
    - rewrite Hseg. discriminate.
    - apply repeat_length.
    - rewrite Hseg. exact Ew.
    - intros t t' j xt i sgs digest _ Hj Hin Hsi Es Hd Hv. rewrite Hseg in Hd.
      destruct (H t' j xt i sgs digest Hj Hin Hsi Es Hd Hv) as (items & l & E1 & E2 & E3 & E4).
      exists items, [], l. repeat (split; [assumption|]). split; [|split; assumption].
      apply nth_error_repeat. eapply nth_lt; exact Hj.
  Qed.

  Lemma kind_of_ty kd : ki_type k = kind_name kd -> kind_of (ki_type k) = Some kd.
  Proof. intros ->. apply kind_of_name. Qed.

  (* ---------------------------------------------------------------- p2pk *)
  Lemma case_p2pk : ki_type k = k_p2pk -> concl.
  Proof.
    intros Hty.
    assert (Hseg : segwit_kind k = false) by (unfold segwit_kind; rewrite Hty; reflexivity).
    assert (Hlss : forall x, lss (Some k) x = Ok (u_spk x)) by (intros x; unfold loop_scriptsig; rewrite Hty; reflexivity).
    pose proof Hasm as Ha. unfold assemble in Ha. rewrite Hty in Ha. cbn [of_option bind] in Ha.
    change (bytes_eqb k_p2pk k_p2pk) with true in Ha. cbv iota in Ha.
    apply bind_ok in Ha as (ss & Hfor & Ha). injection Ha as Ess Ew. subst ss. symmetry in Ew.
    destruct (for_inputs_spec _ _ _ _ Hfor) as (Lss & Hnth).
    apply finish_legacy; auto.
    intros t' j xt i sgs digest Hj Hin Hsi Es Hd Hv.
    pose proof (nth_lt _ _ _ Hj) as Hlt.
    destruct (Hnth j Hlt) as (x & Ex & Fx). cbn [Nat.add] in Fx.
    rewrite (nth_r_some _ _ _ Es) in Fx. cbn [bind] in Fx. apply bind_ok in Fx as (s0 & Hs0 & Fx). apply hd_r_inv in Hs0.
    destruct (script_data_inv [s0] x Fx) as (-> & Hsmall).
    pose proof (Hpays _ Hin) as Hp. unfold pays_to in Hp. rewrite (kind_of_ty K_p2pk Hty) in Hp.
    destruct Hp as (k0 & pk & Ek0 & Hpk & Wpk & Espk).
    rewrite (sel_in_script p a n G sha256 ripemd160 k xt i _ Hsi (Hlss _)) in Hd.
    exists [s0], (L_bare (I_p2pk pk) (u_spk (fst xt))).
    split; [exact Ex|]. split; [exact Hsmall|].
    split; [rewrite Espk; apply lock_of_bare; exact Wpk|].
    cbn [unlocks]. split; [reflexivity|]. cbn [inner_unlocks]. exists s0. split; [reflexivity|].
    refine (proj1 (checksig_hd p a b n G Hnw (fun ht => legacy_sighash sha256 t' j (u_spk (fst xt)) ht) digest f (ki_keys k) sgs k0 s0 pk
                       Hf Hd Hv Ek0 Hs0 Hpk)).
  Qed.

  (* ---------------------------------------------------------------- p2pkh *)
  Lemma case_p2pkh : ki_type k = k_p2pkh -> concl.
  Proof.
    intros Hty.
    assert (Hseg : segwit_kind k = false) by (unfold segwit_kind; rewrite Hty; reflexivity).
    assert (Hlss : forall x, lss (Some k) x = Ok (u_spk x)) by (intros x; unfold loop_scriptsig; rewrite Hty; reflexivity).
    pose proof Hasm as Ha. unfold assemble in Ha. rewrite Hty in Ha. cbn [of_option bind] in Ha.
    change (bytes_eqb k_p2pkh k_p2pk) with false in Ha. change (bytes_eqb k_p2pkh k_multisig) with false in Ha.
    change (bytes_eqb k_p2pkh k_p2pkh) with true in Ha. cbv iota zeta in Ha.
    apply bind_ok in Ha as (ss & Hfor & Ha). injection Ha as Ess Ew. subst ss. symmetry in Ew.
    destruct (for_inputs_spec _ _ _ _ Hfor) as (Lss & Hnth).
    apply finish_legacy; auto.
    intros t' j xt i sgs digest Hj Hin Hsi Es Hd Hv.
    pose proof (nth_lt _ _ _ Hj) as Hlt.
    destruct (Hnth j Hlt) as (x & Ex & Fx). cbn [Nat.add] in Fx.
    rewrite (nth_r_some _ _ _ Es) in Fx. cbn [bind] in Fx. apply bind_ok in Fx as (s0 & Hs0 & Fx). apply hd_r_inv in Hs0.
    apply bind_ok in Fx as (k0' & Hk0' & Fx). apply hd_r_inv in Hk0'. apply bind_ok in Fx as (pk' & Hpk' & Fx).
    destruct (script_data_inv [s0; pk'] x Fx) as (-> & Hsmall).
    pose proof (Hpays _ Hin) as Hp. unfold pays_to in Hp. rewrite (kind_of_ty K_p2pkh Hty) in Hp.
    destruct Hp as (k0 & pk & Ek0 & Hpk & Espk).
    rewrite Ek0 in Hk0'. injection Hk0' as <-. rewrite Hpk in Hpk'. injection Hpk' as <-.
    destruct (pub_inv p a b n G facts SQ Hpw k0 _ pk Hpk) as (Kpk & Wpk).
    rewrite (sel_in_script p a n G sha256 ripemd160 k xt i _ Hsi (Hlss _)) in Hd.
    exists [s0; pk], (L_bare (I_p2pkh (hash160 sha256 ripemd160 pk)) (u_spk (fst xt))).
    split; [exact Ex|]. split; [exact Hsmall|].
    split; [rewrite Espk; apply lock_of_bare; cbn [wf_inner]; apply Hr160|].
    cbn [unlocks]. split; [reflexivity|]. cbn [inner_unlocks]. exists s0, pk. split; [reflexivity|]. split; [reflexivity|].
    refine (proj1 (checksig_hd p a b n G Hnw (fun ht => legacy_sighash sha256 t' j (u_spk (fst xt)) ht) digest f (ki_keys k) sgs k0 s0 pk
                       Hf Hd Hv Ek0 Hs0 Kpk)).
  Qed.

  (* ---------------------------------------------------------------- bare multisig *)
  Lemma case_multisig : ki_type k = k_multisig -> concl.
  Proof.
    intros Hty.
    assert (Hseg : segwit_kind k = false) by (unfold segwit_kind; rewrite Hty; reflexivity).
    assert (Hlss : forall x, lss (Some k) x = Ok (u_spk x)) by (intros x; unfold loop_scriptsig; rewrite Hty; reflexivity).
    pose proof Hasm as Ha. unfold assemble in Ha. rewrite Hty in Ha. cbn [of_option bind] in Ha.
    change (bytes_eqb k_multisig k_p2pk) with false in Ha. change (bytes_eqb k_multisig k_multisig) with true in Ha.
    cbv iota in Ha.
    apply bind_ok in Ha as (ss & Hfor & Ha). injection Ha as Ess Ew. subst ss. symmetry in Ew.
    destruct (for_inputs_spec _ _ _ _ Hfor) as (Lss & Hnth).
    apply finish_legacy; auto.
    intros t' j xt i sgs digest Hj Hin Hsi Es Hd Hv.
    pose proof (nth_lt _ _ _ Hj) as Hlt.
    destruct (Hnth j Hlt) as (x & Ex & Fx). cbn [Nat.add] in Fx.
    rewrite (nth_r_some _ _ _ Es) in Fx. cbn [bind] in Fx.
    destruct (script_op0_data_inv sgs x Fx) as (-> & Hsmall).
    pose proof (Hpays _ Hin) as Hp. unfold pays_to in Hp. rewrite (kind_of_ty K_multisig Hty) in Hp.
    destruct Hp as (m & pks & W & Lk & Hord & Espk).
    rewrite (sel_in_script p a n G sha256 ripemd160 k xt i _ Hsi (Hlss _)) in Hd.
    exists ([] :: sgs), (L_bare (I_multisig m pks) (u_spk (fst xt))).
    split; [exact Ex|]. split; [exact Hsmall|].
    split; [rewrite Espk; apply lock_of_bare; exact W|].
    cbn [unlocks]. split; [reflexivity|]. cbn [inner_unlocks]. exists sgs. split; [reflexivity|]. split.
    - etransitivity; [exact (valid_sigs_lengths p a b n G digest f _ _ (standard_flag_byte f Hf) Hv)|exact Lk].
    - apply (valid_sigs_multisig p a b n G Hnw digest f (ki_keys k) sgs pks
               (fun ht => legacy_sighash sha256 t' j (u_spk (fst xt)) ht) (standard_flag_byte f Hf) Hd Hv Hord).
  Qed.

  (* ---------------------------------------------------------------- p2sh *)
  Lemma case_p2sh : ki_type k = k_p2sh -> concl.
  Proof.
    intros Hty.
    assert (Hseg : segwit_kind k = false) by (unfold segwit_kind; rewrite Hty; reflexivity).
    assert (Hlss : forall x, lss (Some k) x = Ok (ki_redeem k)) by (intros x; unfold loop_scriptsig; rewrite Hty; reflexivity).
    pose proof Hasm as Ha. unfold assemble in Ha. rewrite Hty in Ha. cbn [of_option bind] in Ha.
    change (bytes_eqb k_p2sh k_p2pk) with false in Ha. change (bytes_eqb k_p2sh k_multisig) with false in Ha.
    change (bytes_eqb k_p2sh k_p2pkh) with false in Ha. change (is_kind k_p2sh [k_p2wpkh; k_p2sh_p2wpkh]) with false in Ha.
    change (is_kind k_p2sh [k_p2sh; k_p2wsh; k_p2sh_p2wsh]) with true in Ha.
    change (bytes_eqb k_p2sh k_p2sh) with true in Ha. cbv iota in Ha.
    apply bind_ok in Ha as (dargs & Hdum & Ha). apply bind_ok in Ha as (ss & Hfor & Ha). injection Ha as Ess Ew. subst ss. symmetry in Ew.
    destruct (for_inputs_spec _ _ _ _ Hfor) as (Lss & Hnth).
    apply finish_legacy; auto.
    intros t' j xt i sgs digest Hj Hin Hsi Es Hd Hv.
    pose proof (nth_lt _ _ _ Hj) as Hlt.
    destruct (Hnth j Hlt) as (x & Ex & Fx). cbn [Nat.add] in Fx.
    rewrite (nth_r_some _ _ _ Es) in Fx. cbn [bind] in Fx.
    pose proof (Hpays _ Hin) as Hp. unfold pays_to in Hp. rewrite (kind_of_ty K_p2sh Hty) in Hp.
    destruct Hp as (s & Hown & Espk).
    rewrite (sel_in_script p a n G sha256 ripemd160 k xt i _ Hsi (Hlss _)) in Hd.
    destruct (owned_inner_unlocks p a b n G sha256 ripemd160 Hnw k s (fun ht => legacy_sighash sha256 t' j (ki_redeem k) ht)
                digest f sgs Hown Hf Hd Hv) as (dargs' & ditems & Hdum' & Hcase & Hdec & Hinner).
    rewrite Hdum in Hdum'. injection Hdum' as <-.
    change [hex_of_bytes (ki_redeem k)] with (map hex_of_bytes [ki_redeem k]) in Fx. rewrite <- map_app in Fx.
    destruct (script_dummy_inv dargs ditems _ x Hcase Fx) as (-> & Hsmall).
    exists (ditems ++ sgs ++ [ki_redeem k]), (L_p2sh (hash160 sha256 ripemd160 (ki_redeem k))).
    split; [exact Ex|]. split; [exact Hsmall|].
    split; [rewrite Espk; apply lock_of_p2sh; apply Hr160|].
    cbn [unlocks]. exists (ditems ++ sgs), (ki_redeem k). split; [now rewrite app_assoc|]. split; [reflexivity|].
    left. exists s. auto.
  Qed.
End Cases.
