(* C16, send_valid in the template form, part 1: the decoders of Spec/ScriptTemplatesDecode.v against the byte layouts.
     push_items (concat (map spec_push ds)) = Some ds          the items a scriptSig made of minimal pushes pushes
     decode_inner (enc_inner s) = Some s                        for the well-formed inner scripts
     lock_of (the four scriptPubKey layouts)
   and the invariance of both signature hashes under a replacement of the scriptSigs. *)
From Coq Require Import ZArith List Lia Bool.
Require Import Bits.Lib.Result Bits.Lib.Bytes Bits.Lib.PyStr Bits.Lib.CompactSize.
Require Import Bits.Spec.Script Bits.Spec.Bip143 Bits.Spec.Sighash Bits.Spec.ScriptTemplatesDecode.
Require Bits.Proofs.SendSign.
Import ListNotations.
Import Coq.Init.Byte.
Local Open Scope Z_scope.

(* ------------------------------------------------------------------------------------------------ push_items *)
Definition push_ser (ds : list bytes) : bytes := concat (map spec_push ds).

Lemma firstn_app_len {A} (a b : list A) n : length a = n -> firstn n (a ++ b) = a.
Proof. intros <-. rewrite firstn_app, Nat.sub_diag, firstn_all. cbn. apply app_nil_r. Qed.
Lemma skipn_app_len {A} (a b : list A) n : length a = n -> skipn n (a ++ b) = b.
Proof. intros <-. rewrite skipn_app, Nat.sub_diag, skipn_all. reflexivity. Qed.

Lemma take_push_app d rest k : take_push (lenZ d) (d ++ rest) k = option_map (cons d) (k rest).
Proof.
  unfold take_push, lenZ. rewrite app_length.
  destruct (Z.leb_spec (Z.of_nat (length d)) (Z.of_nat (length d + length rest))); [|lia].
  rewrite Nat2Z.id. now rewrite firstn_app_len, skipn_app_len.
Qed.

Lemma push_items_step f b rest :
  push_items_fuel (S f) (b :: rest) =
  let v := b2z b in
  if v <=? 75 then take_push v rest (push_items_fuel f)
  else if v =? 76 then match rest with l :: r => take_push (b2z l) r (push_items_fuel f) | [] => None end
  else if v =? 77 then
    if 2 <=? lenZ rest then take_push (of_le (firstn 2 rest)) (skipn 2 rest) (push_items_fuel f) else None
  else if v =? 78 then
    if 4 <=? lenZ rest then take_push (of_le (firstn 4 rest)) (skipn 4 rest) (push_items_fuel f) else None
  else if v =? 79 then option_map (cons [x81]) (push_items_fuel f rest)
  else if (81 <=? v) && (v <=? 96) then option_map (cons [z2b (v - 80)]) (push_items_fuel f rest)
  else None.
Proof. reflexivity. Qed.

Lemma push_items_push d rest f : 0 <= lenZ d < 2 ^ 32 ->
  push_items_fuel (S f) (spec_push d ++ rest) = option_map (cons d) (push_items_fuel f rest).
Proof.
  intros H. unfold spec_push, minimal_form.
  destruct (Z.leb_spec (lenZ d) 75).
  { cbn [form_prefix to_le app]. rewrite push_items_step. cbv zeta. rewrite b2z_z2b by lia.
    destruct (Z.leb_spec (lenZ d) 75); [|lia]. apply take_push_app. }
  destruct (Z.leb_spec (lenZ d) 255).
  { cbn [form_prefix to_le app]. rewrite push_items_step. cbv zeta. change (b2z x4c) with 76. cbn [Z.leb Z.eqb Z.compare Pos.compare Pos.compare_cont].
    rewrite b2z_z2b by lia. apply take_push_app. }
  destruct (Z.leb_spec (lenZ d) 65535).
  { cbn [form_prefix app]. rewrite <- app_assoc. rewrite push_items_step. cbv zeta. change (b2z x4d) with 77.
    cbn [Z.leb Z.eqb Z.compare Pos.compare Pos.compare_cont Pos.eqb].
    assert (L2 : 2 <= lenZ (to_le 2 (lenZ d) ++ d ++ rest)) by (unfold lenZ; rewrite app_length, to_le_length; lia).
    destruct (Z.leb_spec 2 (lenZ (to_le 2 (lenZ d) ++ d ++ rest))); [|lia].
    rewrite (firstn_app_len _ _ 2) by apply to_le_length. rewrite (skipn_app_len _ _ 2) by apply to_le_length.
    rewrite of_le_to_le by (change (256 ^ Z.of_nat 2) with 65536; lia). apply take_push_app. }
  cbn [form_prefix app]. rewrite <- app_assoc. rewrite push_items_step. cbv zeta. change (b2z x4e) with 78.
  cbn [Z.leb Z.eqb Z.compare Pos.compare Pos.compare_cont Pos.eqb].
  assert (L4 : 4 <= lenZ (to_le 4 (lenZ d) ++ d ++ rest)) by (unfold lenZ; rewrite app_length, to_le_length; lia).
  destruct (Z.leb_spec 4 (lenZ (to_le 4 (lenZ d) ++ d ++ rest))); [|lia].
  rewrite (firstn_app_len _ _ 4) by apply to_le_length. rewrite (skipn_app_len _ _ 4) by apply to_le_length.
  rewrite of_le_to_le by (change (256 ^ Z.of_nat 4) with (2 ^ 32); lia). apply take_push_app.
Qed.

Lemma spec_push_nonnil d : (1 <= length (spec_push d))%nat.
Proof. unfold spec_push. destruct (minimal_form (lenZ d)); cbn [form_prefix to_le app length]; lia. Qed.

Lemma push_items_fuel_ser : forall ds f, Forall (fun d => lenZ d < 2 ^ 32) ds -> (length (push_ser ds) <= f)%nat ->
  push_items_fuel f (push_ser ds) = Some ds.
Proof.
  induction ds as [|d ds IH]; intros f Hall Hf.
  - destruct f; reflexivity.
  - inversion Hall as [|? ? Hd Hds]; subst. unfold push_ser in *. cbn [map concat] in *. rewrite app_length in Hf.
    pose proof (spec_push_nonnil d). destruct f as [|f]; [lia|].
    rewrite push_items_push by (unfold lenZ in *; lia). rewrite IH; [reflexivity|exact Hds|lia].
Qed.

(* the items pushed by a scriptSig that is a sequence of minimal pushes (the empty item is the byte 00 = OP_0) *)
Theorem push_items_ser ds : Forall (fun d => lenZ d < 2 ^ 32) ds -> push_items (push_ser ds) = Some ds.
Proof. intros H. apply push_items_fuel_ser; [exact H|lia]. Qed.

Lemma push_ser_cons d ds : push_ser (d :: ds) = spec_push d ++ push_ser ds.
Proof. reflexivity. Qed.
Lemma push_ser_app a b : push_ser (a ++ b) = push_ser a ++ push_ser b.
Proof. unfold push_ser. now rewrite map_app, concat_app. Qed.
Lemma spec_push_empty : spec_push [] = [x00].
Proof. reflexivity. Qed.
Lemma spec_push_small d : lenZ d <= 75 -> spec_push d = z2b (lenZ d) :: d.
Proof. intros H. unfold spec_push, minimal_form. destruct (Z.leb_spec (lenZ d) 75); [reflexivity|lia]. Qed.

(* ------------------------------------------------------------------------------------------------ decode_inner *)
Lemma pk_len_byte pk : pk_len_ok pk -> is_pk_len (z2b (lenZ pk)) = true /\ b2z (z2b (lenZ pk)) = lenZ pk.
Proof. unfold pk_len_ok, is_pk_len, lenZ. intros [E|E]; rewrite E; split; reflexivity. Qed.

Lemma parse_keys_enc : forall pks tl f, Forall pk_len_ok pks ->
  (match tl with [] => True | b :: _ => is_pk_len b = false end) ->
  (length (concat (map push_key pks) ++ tl) < f)%nat ->
  parse_keys f (concat (map push_key pks) ++ tl) = Some (pks, tl).
Proof.
  induction pks as [|pk pks IH]; intros tl f Hall Htl Hf.
  - cbn [map concat app] in *. destruct f as [|f]; [lia|]. cbn [parse_keys]. destruct tl as [|b tl]; [reflexivity|].
    now rewrite Htl.
  - inversion Hall as [|? ? Hpk Hpks]; subst. cbn [map concat] in *. unfold push_key at 1 in Hf. unfold push_key at 1.
    rewrite <- app_assoc in *. cbn [app length] in *. destruct f as [|f]; [lia|]. cbn [parse_keys].
    destruct (pk_len_byte pk Hpk) as (E1 & E2). rewrite E1, E2.
    rewrite app_length in Hf.
    assert (Hle : (lenZ pk <=? lenZ (pk ++ concat (map push_key pks) ++ tl)) = true).
    { apply Z.leb_le. unfold lenZ. rewrite app_length. lia. }
    rewrite Hle. unfold lenZ at 1 2. rewrite Nat2Z.id. rewrite firstn_app_len, skipn_app_len by reflexivity.
    rewrite IH; [reflexivity|exact Hpks|exact Htl|lia].
Qed.

Lemma small_int_enc m : (1 <= m <= 16)%nat -> small_int (z2b (80 + Z.of_nat m)) = Some m /\ is_pk_len (z2b (80 + Z.of_nat m)) = false
  /\ byte_eqb (z2b (80 + Z.of_nat m)) x76 = false.
Proof.
  intros H. unfold small_int, is_pk_len. rewrite b2z_z2b by lia.
  destruct (Z.leb_spec 81 (80 + Z.of_nat m)); [|lia]. destruct (Z.leb_spec (80 + Z.of_nat m) 96); [|lia]. cbn [andb].
  split; [f_equal; lia|]. split.
  - destruct (Z.eqb_spec (80 + Z.of_nat m) 33); [lia|]. destruct (Z.eqb_spec (80 + Z.of_nat m) 65); [lia|]. reflexivity.
  - destruct (byte_eqb (z2b (80 + Z.of_nat m)) x76) eqn:E; [|reflexivity]. apply byte_eqb_eq in E.
    apply (f_equal b2z) in E. rewrite b2z_z2b in E by lia. change (b2z x76) with 118 in E. lia.
Qed.

Theorem decode_enc_inner s : wf_inner s -> decode_inner (enc_inner s) = Some s.
Proof.
  destruct s as [pk|h|m pks]; cbn [wf_inner enc_inner]; intros W.
  - destruct (pk_len_byte pk W) as (E1 & E2). unfold push_key. cbn [app decode_inner]. rewrite E1, E2.
    assert (EL : (lenZ (pk ++ [xac]) =? lenZ pk + 1) = true) by (apply Z.eqb_eq; unfold lenZ; rewrite app_length; cbn; lia).
    rewrite EL. unfold lenZ. rewrite Nat2Z.id, firstn_app_len, skipn_app_len by reflexivity. reflexivity.
  - cbn [app decode_inner]. change (is_pk_len x76) with false. change (byte_eqb x76 x76) with true. cbv iota.
    assert (EL : (lenZ (xa9 :: x14 :: h ++ [x88; xac]) =? 24) = true)
      by (apply Z.eqb_eq; unfold lenZ; cbn [length]; rewrite app_length; cbn [length]; lia).
    rewrite EL. set (r := h ++ [x88; xac]).
    change (firstn 2 (xa9 :: x14 :: r)) with [xa9; x14]. change (skipn 22 (xa9 :: x14 :: r)) with (skipn 20 r).
    change (skipn 2 (xa9 :: x14 :: r)) with r. subst r.
    rewrite skipn_app_len, firstn_app_len by exact W. reflexivity.
  - destruct W as (Hm & Hn & Hall). destruct (small_int_enc m ltac:(lia)) as (S1 & S2 & S3).
    cbn [app decode_inner]. rewrite S2, S3, S1.
    assert (Hn' : (1 <= length pks <= 16)%nat) by lia.
    destruct (small_int_enc (length pks) Hn') as (T1 & T2 & _). fold (lenZ pks) in T1, T2.
    rewrite parse_keys_enc; [|exact Hall|exact T2|lia].
    rewrite T1. change (bytes_eqb [xae] [xae]) with true. rewrite Nat.eqb_refl.
    destruct (Nat.leb_spec m (length pks)); [reflexivity|lia].
Qed.

(* ------------------------------------------------------------------------------------------------ lock_of *)
Lemma lock_of_p2sh h : length h = 20%nat -> lock_of (spk_p2sh h) = Some (L_p2sh h).
Proof.
  intros L. unfold lock_of, spk_p2sh. cbn [app].
  assert (E : (length (xa9 :: x14 :: h ++ [x87]) =? 23)%nat = true) by (apply Nat.eqb_eq; cbn [length]; rewrite app_length; cbn; lia).
  rewrite E. set (r := h ++ [x87]).
  change (firstn 2 (xa9 :: x14 :: r)) with [xa9; x14]. change (skipn 22 (xa9 :: x14 :: r)) with (skipn 20 r).
  change (skipn 2 (xa9 :: x14 :: r)) with r. subst r.
  rewrite skipn_app_len, firstn_app_len by exact L. reflexivity.
Qed.

Lemma lock_of_p2wpkh h : length h = 20%nat -> lock_of (spk_p2wpkh h) = Some (L_p2wpkh h).
Proof.
  intros L. unfold lock_of, spk_p2wpkh. cbn [app length]. rewrite L. reflexivity.
Qed.

Lemma lock_of_p2wsh h : length h = 32%nat -> lock_of (spk_p2wsh h) = Some (L_p2wsh h).
Proof.
  intros L. unfold lock_of, spk_p2wsh. cbn [app length]. rewrite L. reflexivity.
Qed.

Lemma bytes_eqb_hd a b x y : byte_eqb a x = false -> bytes_eqb (a :: b) (x :: y) = false.
Proof. intros H. cbn [bytes_eqb]. now rewrite H. Qed.

Lemma enc_inner_hd s : wf_inner s -> exists b0 rest, enc_inner s = b0 :: rest /\ byte_eqb b0 xa9 = false /\ byte_eqb b0 x00 = false
  /\ (2 <= length rest)%nat.
Proof.
  destruct s as [pk|h|m pks]; cbn [wf_inner enc_inner]; intros W.
  - exists (z2b (lenZ pk)), (pk ++ [xac]). split; [reflexivity|]. rewrite app_length. unfold lenZ.
    destruct W as [E|E]; rewrite E; repeat split; cbn; lia.
  - exists x76, ([xa9; x14] ++ h ++ [x88; xac]). repeat split. cbn [app length]. lia.
  - destruct W as (Hm & Hn & _). eexists _, _. split; [reflexivity|].
    assert (forall c, b2z c < 80 \/ 96 < b2z c -> byte_eqb (z2b (80 + Z.of_nat m)) c = false).
    { intros c Hc. destruct (byte_eqb _ c) eqn:E; [|reflexivity]. apply byte_eqb_eq in E. apply (f_equal b2z) in E.
      rewrite b2z_z2b in E by lia. lia. }
    split; [apply H; cbn; lia|]. split; [apply H; cbn; lia|]. rewrite app_length. cbn [length]. lia.
Qed.

Theorem lock_of_bare s : wf_inner s -> lock_of (enc_inner s) = Some (L_bare s (enc_inner s)).
Proof.
  intros W. destruct (enc_inner_hd s W) as (b0 & rest & E & N1 & N2 & L).
  unfold lock_of. rewrite (decode_enc_inner s W). rewrite E.
  destruct rest as [|b1 rest]; [cbn in L; lia|]. cbn [firstn].
  rewrite (bytes_eqb_hd b0 [b1] xa9 [x14] N1), (bytes_eqb_hd b0 [b1] x00 [x14] N2), (bytes_eqb_hd b0 [b1] x00 [x20] N2).
  now rewrite !andb_false_r.
Qed.

(* ------------------------------------------------------------------------------------------------ sighash invariance *)
(* two transactions that differ in their scriptSigs only *)
Definition same_but_scripts (t t' : tx) : Prop :=
  tx_version t' = tx_version t /\ tx_locktime t' = tx_locktime t /\ tx_outs t' = tx_outs t /\
  Forall2 (fun i i' => ti_txid i' = ti_txid i /\ ti_vout i' = ti_vout i /\ ti_seq i' = ti_seq i) (tx_ins t) (tx_ins t').

Lemma Forall2_map_eq {A B} (R : A -> A -> Prop) (f : A -> B) l l' :
  (forall x y, R x y -> f y = f x) -> Forall2 R l l' -> map f l' = map f l.
Proof. intros H. induction 1; cbn [map]; [reflexivity|]. f_equal; auto. Qed.

Lemma Forall2_nth2 {A B} (R : A -> B -> Prop) l l' : Forall2 R l l' ->
  forall j, match nth_error l j, nth_error l' j with
            | Some x, Some y => R x y | None, None => True | _, _ => False end.
Proof. induction 1 as [|x y l l' Hxy _ IH]; intros [|j]; cbn [nth_error]; auto. apply IH. Qed.

Lemma sighash_same_but_scripts sha256 t t' j amt sc f :
  same_but_scripts t t' -> sighash sha256 t' j amt sc f = sighash sha256 t j amt sc f.
Proof.
  intros (Ev & El & Eo & Hins). unfold sighash, preimage.
  assert (E1 : hash_prevouts sha256 t' f = hash_prevouts sha256 t f).
  { unfold hash_prevouts.
    replace (map ser_outpoint (tx_ins t')) with (map ser_outpoint (tx_ins t)); [reflexivity|]. symmetry.
    eapply Forall2_map_eq; cycle 1; [exact Hins|].
    cbv beta. intros x y (A1 & A2 & _). unfold ser_outpoint. now rewrite A1, A2. }
  assert (E2 : hash_sequence sha256 t' f = hash_sequence sha256 t f).
  { unfold hash_sequence.
    replace (map (fun i => u32le (ti_seq i)) (tx_ins t')) with (map (fun i => u32le (ti_seq i)) (tx_ins t)); [reflexivity|].
    symmetry. eapply Forall2_map_eq; cycle 1; [exact Hins|].
    cbv beta. intros x y (_ & _ & A3). now rewrite A3. }
  assert (E3 : hash_outputs sha256 t' j f = hash_outputs sha256 t j f) by (unfold hash_outputs; now rewrite Eo).
  pose proof (Forall2_nth2 _ _ _ Hins j) as Hj.
  destruct (nth_error (tx_ins t) j) as [i|], (nth_error (tx_ins t') j) as [i'|]; try contradiction; [|reflexivity].
  destruct Hj as (A1 & A2 & A3). unfold ser_outpoint. now rewrite E1, E2, E3, Ev, El, A1, A2, A3.
Qed.

Lemma mapi_from_same zs j sc : forall l l' k,
  Forall2 (fun i i' => ti_txid i' = ti_txid i /\ ti_vout i' = ti_vout i /\ ti_seq i' = ti_seq i) l l' ->
  mapi_from (legacy_input zs j sc) k l' = mapi_from (legacy_input zs j sc) k l.
Proof.
  intros l l' k H. revert k. induction H as [|i i' l l' (A1 & A2 & A3) _ IH]; intros k; cbn [mapi_from]; [reflexivity|].
  rewrite IH. f_equal. unfold legacy_input. now rewrite A1, A2, A3.
Qed.

Lemma legacy_sighash_same_but_scripts sha256 t t' j sc f :
  same_but_scripts t t' -> legacy_sighash sha256 t' j sc f = legacy_sighash sha256 t j sc f.
Proof.
  intros (Ev & El & Eo & Hins). unfold legacy_sighash, legacy_preimage.
  pose proof (Forall2_nth2 _ _ _ Hins j) as Hj.
  destruct (nth_error (tx_ins t) j) as [i|], (nth_error (tx_ins t') j) as [i'|]; try contradiction; [|reflexivity].
  destruct Hj as (A1 & A2 & A3). rewrite Eo, Ev, El.
  rewrite (mapi_from_same _ j sc _ _ 0%nat Hins). unfold legacy_input at 1 3. rewrite Nat.eqb_refl, A1, A2, A3. reflexivity.
Qed.
