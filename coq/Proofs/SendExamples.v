(* C16: concrete runs of the repaired signing model (kernel computation): non-vacuity of the message-layer theorems.
   The scenarios use a one-byte scriptPubKey / witness script and a constant scriptpubkey(); they hold for every curve
   (no key is touched), the legacy ones for every sha256 / ripemd160, the segwit one with a stand-in hash function. *)
From Coq Require Import ZArith List Lia Bool.
From Coq Require Import Floats.SpecFloat.
Require Import Bits.Lib.Result Bits.Lib.Bytes Bits.Lib.CompactSize.
Require Import Bits.Spec.Bip143 Bits.Spec.Sighash.
Require Import Bits.Model.SendValue Bits.Model.Send.
Require Bits.Model.Tx Bits.Model.Bip143.
Import ListNotations.
Import Coq.Init.Byte.
Local Open Scope Z_scope.

Module MT := Bits.Model.Tx.

Definition spk0 : bytes := [x51].                                     (* the script being spent / the witness script *)
Definition one_btc : spec_float := sf_of_me 1 0.
Definition ux (b : byte) (vout : Z) : utxo := mk_utxo (repeat b 32) vout one_btc spk0.
Definition a_key : bytes := repeat x01 32.
Definition ki_p2pk : keyinfo := mk_keyinfo k_p2pk [x01] [a_key] [].
Definition ki_p2wsh : keyinfo := mk_keyinfo k_p2wsh spk0 [a_key] spk0.
Definition spk_of (_ : bytes) : result bytes := Ok [x52].            (* scriptpubkey() of recipient / change *)
Definition all_addresses (_ : bytes) : bool := true.
Definition no_addresses (_ : bytes) : bool := false.
Definition sin (b : byte) (vout : Z) (script : bytes) : tx_input :=
  Bits.Spec.Bip143.mk_txin (repeat b 32) vout script 0xffffffff.     (* rev (repeat b 32) = repeat b 32 *)
Definition sout (v : Z) : tx_output := Bits.Spec.Bip143.mk_txout v [x52].
Definition txins_of (u : unsigned) : list bytes := map snd (us_selected u).
(* a stand-in for sha256 (32 bytes, depends on its input) - only to let the kernel compute a BIP143 pre-image *)
Definition toy_hash (m : bytes) : bytes := firstn 32 (rev m ++ repeat x00 32).

Section Examples.
  Variables p a n : Z.
  Variable G : Bits.Model.Ecmath.point.
  Variable sha256 ripemd160 : bytes -> bytes.
  Notation build := (build_unsigned p a n G sha256 ripemd160 spk_of all_addresses [] [] None).

  (* legacy, two inputs spending output indices 4 and 0, two outputs, version 2, locktime 7: every input gets ITS OWN message,
     and message ++ flag is the consensus pre-image, for SINGLE (input 1 signs output 1), NONE|ANYONECANPAY and ALL *)
  Example legacy_two_inputs :
    exists u m0 m1 n0 n1 a0 a1,
      build (Some ki_p2pk) (sf_of_me 3 (-2)) 1000 (sf_of_me 2 0) [ux x11 4; ux x22 0] = Ok u /\
      length (us_selected u) = 2%nat /\ length (us_txouts u) = 2%nat /\
      let t := mk_tx 2 [sin x11 4 spk0; sin x22 0 spk0] [sout 149999000; sout 50000000] 7 in
      txins_of u = map ser_txin (tx_ins t) /\ us_txouts u = map ser_txout (tx_outs t) /\
      legacy_msgs (txins_of u) (us_txouts u) 2 7 3 0 (txins_of u) = Ok [m0; m1] /\
      legacy_preimage t 0 spk0 3 = Some (m0 ++ u32le 3) /\ legacy_preimage t 1 spk0 3 = Some (m1 ++ u32le 3) /\
      m0 <> m1 /\
      legacy_msgs (txins_of u) (us_txouts u) 2 7 0x82 0 (txins_of u) = Ok [n0; n1] /\
      legacy_preimage t 0 spk0 0x82 = Some (n0 ++ u32le 0x82) /\ legacy_preimage t 1 spk0 0x82 = Some (n1 ++ u32le 0x82) /\
      legacy_msgs (txins_of u) (us_txouts u) 2 7 1 0 (txins_of u) = Ok [a0; a1] /\
      legacy_preimage t 0 spk0 1 = Some (a0 ++ u32le 1) /\ legacy_preimage t 1 spk0 1 = Some (a1 ++ u32le 1).
  Proof.
    do 7 eexists.
    split; [vm_compute; reflexivity|]. split; [reflexivity|]. split; [reflexivity|]. cbv zeta.
    split; [vm_compute; reflexivity|]. split; [vm_compute; reflexivity|].
    split; [vm_compute; reflexivity|]. split; [vm_compute; reflexivity|]. split; [vm_compute; reflexivity|].
    split; [vm_compute; discriminate|].
    split; [vm_compute; reflexivity|]. split; [vm_compute; reflexivity|]. split; [vm_compute; reflexivity|].
    split; [vm_compute; reflexivity|]. split; vm_compute; reflexivity.
  Qed.

  (* SIGHASH_SINGLE with two inputs and ONE output: input 1 has no output - refused (consensus digest: the constant 1) *)
  Example legacy_single_quirk_refused :
    exists u,
      build (Some ki_p2pk) (sf_of_me 1 0) 1000 (sf_of_me 2 0) [ux x11 0; ux x22 1] = Ok u /\
      length (us_selected u) = 2%nat /\ length (us_txouts u) = 1%nat /\
      legacy_msgs (txins_of u) (us_txouts u) 1 0 3 0 (txins_of u) = Err ValueE /\
      let t := mk_tx 1 [sin x11 0 spk0; sin x22 1 spk0] [sout 199999000] 0 in
      legacy_sighash sha256 t 1 spk0 3 = Some uint256_one /\
      exists m, legacy_msgs (txins_of u) (us_txouts u) 1 0 1 0 (txins_of u) = Ok m.        (* SIGHASH_ALL: fine *)
  Proof.
    eexists. split; [vm_compute; reflexivity|]. split; [reflexivity|]. split; [reflexivity|].
    split; [vm_compute; reflexivity|]. cbv zeta. split; [vm_compute; reflexivity|]. eexists. vm_compute. reflexivity.
  Qed.

  (* the change of a raw-scriptPubKey sender goes to that script; of a key / address sender to scriptpubkey(sender) *)
  Example change_script_cases :
    change_script spk_of no_addresses [x51; xae] None = Ok [x51; xae] /\
    change_script spk_of no_addresses [x51; xae] (Some []) = Ok [x51; xae] /\
    change_script spk_of all_addresses [x51; xae] None = Ok [x52] /\
    change_script spk_of no_addresses [x51; xae] (Some [x31]) = Ok [x52].
  Proof. repeat split. Qed.
End Examples.

(* segwit (p2wsh), two inputs spending output indices 1 and 0 (NOT their positions), an unselected third unspent, version 2,
   locktime 7: one message per SELECTED input, and it is the BIP143 pre-image of that input (stand-in hash) *)
Example segwit_two_inputs :
  forall (p a n : Z) (G : Bits.Model.Ecmath.point) (ripemd160 : bytes -> bytes),
  exists u sc m0 m1,
    build_unsigned p a n G toy_hash ripemd160 spk_of all_addresses [] [] None (Some ki_p2wsh) (sf_of_me 1 (-1)) 1000 (sf_of_me 3 0)
                   [ux x11 1; ux x22 0; ux x33 5] = Ok u /\
    map fst (us_selected u) = [ux x11 1; ux x22 0] /\
    scriptcode_of p a n G toy_hash ripemd160 ki_p2wsh = Ok sc /\ sc = ser_script spk0 /\
    let t := mk_tx 2 [sin x11 1 []; sin x22 0 []] [sout 149999000; sout 50000000] 7 in
    txins_of u = map ser_txin (tx_ins t) /\ us_txouts u = map ser_txout (tx_outs t) /\
    segwit_msgs toy_hash (txins_of u) (us_txouts u) sc 2 7 (Some 0x83) 0 (map fst (us_selected u)) = Ok [m0; m1] /\
    preimage toy_hash t 0 100000000 spk0 0x83 = Some m0 /\ preimage toy_hash t 1 100000000 spk0 0x83 = Some m1.
Proof.
  intros. do 4 eexists.
  split; [vm_compute; reflexivity|]. split; [reflexivity|]. split; [vm_compute; reflexivity|]. split; [reflexivity|].
  cbv zeta. split; [vm_compute; reflexivity|]. split; [vm_compute; reflexivity|].
  split; [vm_compute; reflexivity|]. split; vm_compute; reflexivity.
Qed.
