(* `bits pubkey` on SEC1 input accepts exactly what utils.point accepts and re-encodes the decoded point. *)
From Coq Require Import ZArith List Bool Lia.
Require Import Bits.Lib.Result Bits.Lib.Bytes Bits.Model.Ecmath Bits.Proofs.Ecmath Bits.Model.Sec1 Bits.Proofs.Sec1
  Bits.Model.Pem Bits.Model.CliKeys.
Require Bits.Spec.Sec1.
Import ListNotations.
Local Open Scope Z_scope.

Theorem cli_pubkey_sec1_iff b64enc p a b n G : sec1_facts p a b ->
  forall data c out, length data = 33%nat \/ length data = 65%nat ->
  (cli_pubkey b64enc p a b n G data c false = Ok out <->
   exists x y, Spec.Sec1.valid_encoding p a b data x y /\ out = Spec.Sec1.encode c x y).
Proof.
  intros [SQ Ha Hb Hw _] data c out L.
  assert (E : cli_pubkey b64enc p a b n G data c false =
              bind (bind (sec1_point p a b data) (fun xy => let '(x, y) := xy in pubkey x y c)) (fun pk => Ok pk)).
  { unfold cli_pubkey. destruct L as [L|L]; rewrite L; reflexivity. }
  rewrite E. clear E. split.
  - intros H. apply bind_ok in H as (pk & H & E). injection E as <-.
    apply bind_ok in H as ([x y] & HP & HK). exists x, y.
    split; [now apply (sec1_accept_iff p a b SQ Ha Hb Hw)|].
    destruct (sec1_point_sound p a b (sq_p p SQ) Ha Hb (sq_mod4 p SQ) data x y HP) as [OC _].
    destruct (sec1_roundtrip p a b SQ Ha Hb Hw x y c OC) as [K _]. congruence.
  - intros (x & y & V & ->). pose proof V as V'. apply (sec1_accept_iff p a b SQ Ha Hb Hw) in V. rewrite V. cbn [bind].
    destruct (sec1_point_sound p a b (sq_p p SQ) Ha Hb (sq_mod4 p SQ) data x y V) as [OC _].
    destruct (sec1_roundtrip p a b SQ Ha Hb Hw x y c OC) as [K _]. rewrite K. reflexivity.
Qed.

(* whatever the flags, SEC1 input that utils.point refuses is refused (also with -0pem) *)
Theorem cli_pubkey_refuses b64enc p a b n G data c pem e :
  length data = 33%nat \/ length data = 65%nat ->
  sec1_point p a b data = Err e -> cli_pubkey b64enc p a b n G data c pem = Err e.
Proof. intros L H. unfold cli_pubkey. destruct L as [L|L]; rewrite L; cbn [Nat.eqb orb]; rewrite H; reflexivity. Qed.
