(* (p, n) = (67, 79): n > p.  ~0.5 million associativity triples by kernel computation. *)
From Coq Require Import ZArith List Bool Lia.
Require Import Bits.Lib.Result Bits.Model.Ecmath Bits.Proofs.Ecmath Bits.Proofs.Ecdsa Bits.Proofs.SmallCurves.
Import ListNotations.
Local Open Scope Z_scope.
Definition G67 : point := Eval vm_compute in hd None (tl (all_pts 67 0 7)).
Theorem facts_67 : curve_facts 67 0 7 79 G67.
Proof.
  apply check_facts_sound; [lia | lia | reflexivity | reflexivity | vm_compute; reflexivity | vm_compute; reflexivity].
Qed.
