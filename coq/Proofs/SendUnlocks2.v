(* C16, send_valid in the template form, part 2: the cryptographic layer.
     [ecdsa_ok pk der d]      the model's ECDSA verification (ecmath.verify) of the DER-decoded (r, s) under the SEC1-decoded
                              key, on the 32-byte digest d                            - the [ecdsa] parameter of Sighash.unlocks
     [key_pk key pk]          pk is a SEC1 encoding of the public point of the private key
     valid_sig -> checksig    (BIP66 strictness by C01's der_strict, DER round trip, SEC1 round trip)
     keys.pub                 is such an encoding, 33 / 65 bytes
     OP_CHECKMULTISIG         signatures made in key order match an in-order sub-sequence of the script's keys *)
From Coq Require Import ZArith List Lia Bool.
Require Import Bits.Lib.Result Bits.Lib.Bytes Bits.Lib.PyStr.
Require Import Bits.Spec.Bip66 Bits.Spec.Sighash Bits.Spec.ScriptTemplatesDecode.
Require Import Bits.Model.Ecmath Bits.Model.Keys Bits.Model.Der Bits.Model.Sec1 Bits.Model.Send.
Require Import Bits.Proofs.Ecmath Bits.Proofs.Ecdsa Bits.Proofs.Keys Bits.Proofs.Sec1 Bits.Proofs.SendValid.
Require Bits.Proofs.Der Bits.Spec.Sec1.
Import ListNotations.
Import Coq.Init.Byte.
Local Open Scope Z_scope.

Section Crypto.
  Variables p a b n : Z.
  Variable G : point.
  Hypothesis facts : curve_facts p a b n G.
  Hypothesis SQ : sqrt_facts p.
  Hypothesis Hpw : p <= 2 ^ 256.
  Hypothesis Hnw : n <= 2 ^ 256.

  Definition ecdsa_ok (pk der d : bytes) : Prop :=
    exists Q r s, sec1_point p a b pk = Ok Q /\ der_decode_sig der = Ok (r, s) /\
                  verify p a b n G r s (Some Q) (of_be d) = Ok true.

  Definition key_pk (key pk : bytes) : Prop :=
    exists d Q, privkey_int n key = Ok d /\ smul p a d G = Some Q /\ sec1_point p a b pk = Ok Q.

  Lemma verify_range r s Q z : verify p a b n G r s Q z = Ok true -> 1 <= r < n /\ 1 <= s < n.
  Proof.
    unfold verify. destruct (Z.leb_spec 1 r), (Z.ltb_spec r n); cbn [andb negb]; try discriminate.
    destruct (Z.leb_spec 1 s), (Z.ltb_spec s n); cbn [andb negb]; try discriminate. lia.
  Qed.

  Notation checksig_ := (checksig ecdsa_ok bip66_valid).

  Lemma valid_sig_checksig digest f key sg pk (dg : Z -> option bytes) :
    0 <= f < 256 -> valid_sig p a b n G digest f key sg -> key_pk key pk -> dg f = Some digest ->
    checksig_ dg sg pk /\ (9 <= length sg <= 73)%nat.
  Proof.
    intros Hf (d & r & s & der & Hd & Hder & -> & Hv) (d' & Q & Hd' & HQ & Hpk) Hdg.
    rewrite Hd in Hd'. injection Hd' as <-. rewrite HQ in Hv.
    destruct (verify_range _ _ _ _ Hv) as (Rr & Rs).
    assert (Rr' : 1 <= r < 2 ^ 256) by lia. assert (Rs' : 1 <= s < 2 ^ 256) by lia.
    destruct (Bits.Proofs.Der.der_strict r s (z2b f) Rr' Rs') as (der' & E' & Hstrict).
    rewrite Hder in E'. injection E' as <-.
    destruct (Bits.Proofs.Der.der_roundtrip r s Rr' Rs') as (der' & E' & Hdec).
    rewrite Hder in E'. injection E' as <-.
    split.
    - exists der, (z2b f), digest. split; [reflexivity|]. split; [exact Hstrict|]. rewrite b2z_z2b by exact Hf.
      split; [exact Hdg|]. exists Q, r, s. auto.
    - unfold bip66_valid in Hstrict. cbv zeta in Hstrict.
      destruct (Z.ltb_spec (Z.of_nat (length (der ++ [z2b f]))) 9); [discriminate|].
      destruct (Z.gtb_spec (Z.of_nat (length (der ++ [z2b f]))) 73); [discriminate|]. lia.
  Qed.

  (* bits.keys.pub: a SEC1 encoding (compressed or not, as asked) of the public point of the key *)
  Lemma pub_inv key c pk : pub p a n G key c = Ok pk -> key_pk key pk /\ pk_len_ok pk.
  Proof.
    intros H. unfold pub in H. apply bind_ok in H as (P & HP & H).
    unfold compute_point in HP. apply bind_ok in HP as (d & Hd & HP).
    pose proof Hd as Hd'. apply privkey_int_iff in Hd' as (_ & Rd & Ed). rewrite <- Ed in Rd.
    rewrite (scalar_mul_smul p a b (cf_p _ _ _ _ _ facts) (cf_a _ _ _ _ _ facts) (cf_group _ _ _ _ _ facts) d G
               (cf_G _ _ _ _ _ facts)) in HP by lia.
    injection HP as <-.
    pose proof (smul_oncurve p a b (cf_group _ _ _ _ _ facts) d G (cf_G _ _ _ _ _ facts) ltac:(lia)) as Hon.
    destruct (smul p a d G) as [[x y]|] eqn:EQ; [|discriminate].
    destruct (sec1_roundtrip p a b SQ (cf_a _ _ _ _ _ facts) (cf_b _ _ _ _ _ facts) Hpw x y c Hon) as (E1 & E2).
    change (Bits.Model.Sec1.pubkey x y c = Ok pk) in H. rewrite E1 in H. injection H as <-.
    split.
    - exists d, (x, y). auto.
    - unfold pk_len_ok, Bits.Spec.Sec1.encode. destruct c; cbn [length]; rewrite ?app_length, !to_be_length; lia.
  Qed.

  (* ---- OP_CHECKMULTISIG: keys consumed in order ---- *)
  Inductive keys_in_order : list bytes -> list bytes -> Prop :=
  | kio_nil pks : keys_in_order [] pks
  | kio_take k ks pk pks : key_pk k pk -> keys_in_order ks pks -> keys_in_order (k :: ks) (pk :: pks)
  | kio_skip ks pk pks : keys_in_order ks pks -> keys_in_order ks (pk :: pks).

  Lemma checkmultisig_in_order dg keys pks : keys_in_order keys pks -> forall sgs,
    Forall2 (fun k sg => forall pk, key_pk k pk -> checksig_ dg sg pk) keys sgs ->
    checkmultisig ecdsa_ok bip66_valid dg sgs pks.
  Proof.
    induction 1 as [pks|k ks pk pks Hk _ IH|ks pk pks _ IH]; intros sgs HF.
    - inversion HF; subst. exact I.
    - inversion HF as [|? sg ? sgs' H1 H2]; subst. cbn [checkmultisig]. left. split; [apply H1; exact Hk | apply IH; exact H2].
    - destruct sgs as [|sg sgs']; [exact I|]. cbn [checkmultisig]. right. exact (IH _ HF).
  Qed.

  Lemma valid_sigs_multisig digest f keys sgs pks (dg : Z -> option bytes) :
    0 <= f < 256 -> dg f = Some digest ->
    Forall2 (valid_sig p a b n G digest f) keys sgs -> keys_in_order keys pks ->
    checkmultisig ecdsa_ok bip66_valid dg sgs pks.
  Proof.
    intros Hf Hdg HF Hk. apply (checkmultisig_in_order dg keys pks Hk).
    eapply Forall2_imp; [|exact HF]. intros k sg Hv pk Hpk.
    apply (valid_sig_checksig digest f k sg pk dg Hf Hv Hpk Hdg).
  Qed.

  Lemma valid_sigs_lengths digest f keys sgs :
    0 <= f < 256 -> Forall2 (valid_sig p a b n G digest f) keys sgs -> length sgs = length keys.
  Proof. intros _ H. symmetry. induction H; cbn [length]; congruence. Qed.

  (* every signature is 9..73 bytes long (it has a SEC1-encodable public key: any key of the list has one) *)
  Lemma valid_sig_length digest f key sg :
    0 <= f < 256 -> valid_sig p a b n G digest f key sg -> (9 <= length sg <= 73)%nat.
  Proof.
    intros Hf (d & r & s & der & Hd & Hder & -> & Hv).
    destruct (verify_range _ _ _ _ Hv) as (Rr & Rs).
    assert (Rr' : 1 <= r < 2 ^ 256) by lia. assert (Rs' : 1 <= s < 2 ^ 256) by lia.
    destruct (Bits.Proofs.Der.der_strict r s (z2b f) Rr' Rs') as (der' & E' & Hstrict).
    rewrite Hder in E'. injection E' as <-.
    unfold bip66_valid in Hstrict. cbv zeta in Hstrict.
    destruct (Z.ltb_spec (Z.of_nat (length (der ++ [z2b f]))) 9); [discriminate|].
    destruct (Z.gtb_spec (Z.of_nat (length (der ++ [z2b f]))) 73); [discriminate|]. lia.
  Qed.
End Crypto.
