From Coq Require Import ZArith List Lia Bool.
Require Import Bits.Lib.Result Bits.Lib.Bytes Bits.Lib.Radix Bits.Spec.Base58 Bits.Model.Base58.
Import ListNotations.
Local Open Scope Z_scope.

(* ---------- alphabet lookup ---------- *)
Lemma index_of_spec c l : forall k i, index_of c l k = Some i ->
  k <= i < k + Z.of_nat (length l) /\ nth (Z.to_nat (i - k)) l Coq.Init.Byte.x00 = c.
Proof.
  induction l as [|x xs IH]; intros k i H; simpl in H; [discriminate|].
  destruct (byte_eqb x c) eqn:E.
  - inversion H; subst. apply byte_eqb_eq in E. subst.
    rewrite Z.sub_diag. cbn [length]. split; [lia|reflexivity].
  - apply IH in H as [H1 H2]. cbn [length]. split; [lia|].
    replace (Z.to_nat (i - k)) with (S (Z.to_nat (i - (k + 1)))) by lia. exact H2.
Qed.

Lemma alpha_at_idx c i : alpha_idx c = Ok i -> alpha_at i = c /\ 0 <= i < 58.
Proof.
  unfold alpha_idx, alpha_at. destruct (index_of c alphabet 0) as [j|] eqn:E; simpl; [|discriminate].
  intros H; inversion H; subst. apply index_of_spec in E as [H1 H2].
  rewrite Z.sub_0_r in H2. split; [exact H2|]. change (Z.of_nat (length alphabet)) with 58 in H1. lia.
Qed.

Lemma alpha_idx_err c e : alpha_idx c = Err e -> e = KeyE.
Proof. unfold alpha_idx. destruct (index_of c alphabet 0); simpl; congruence. Qed.

Lemma alpha_idx_at i : 0 <= i < 58 -> alpha_idx (alpha_at i) = Ok i.
Proof.
  intros H.
  assert (F : forallb (fun n => match alpha_idx (alpha_at (Z.of_nat n)) with
                                | Ok j => j =? Z.of_nat n | Err _ => false end) (seq 0 58) = true)
    by (vm_compute; reflexivity).
  rewrite forallb_forall in F. specialize (F (Z.to_nat i)).
  rewrite Z2Nat.id in F by lia.
  destruct (alpha_idx (alpha_at i)) as [j|e].
  - f_equal. apply Z.eqb_eq. apply F. apply in_seq. lia.
  - discriminate F. apply in_seq. lia.
Qed.

Lemma alpha_at_inj i j : 0 <= i < 58 -> 0 <= j < 58 -> alpha_at i = alpha_at j -> i = j.
Proof.
  intros Hi Hj E. pose proof (alpha_idx_at i Hi) as A. rewrite E, (alpha_idx_at j Hj) in A. congruence.
Qed.

Lemma alpha_idx_ok_iff c : (exists i, alpha_idx c = Ok i) <-> In c alphabet.
Proof.
  split.
  - intros [i H]. apply alpha_at_idx in H as [H1 H2]. subst c. unfold alpha_at.
    apply nth_In. change (length alphabet) with 58%nat. lia.
  - intros H. apply (In_nth _ _ Coq.Init.Byte.x00) in H as (n & Hn & E).
    exists (Z.of_nat n). rewrite <- E. change (length alphabet) with 58%nat in Hn.
    replace (nth n alphabet Coq.Init.Byte.x00) with (alpha_at (Z.of_nat n))
      by (unfold alpha_at; now rewrite Nat2Z.id).
    apply alpha_idx_at. lia.
Qed.

(* ---------- mapM over the alphabet ---------- *)
Lemma mapM_alpha_idx_map ds : in_range 58 ds -> mapM alpha_idx (map alpha_at ds) = Ok ds.
Proof.
  induction 1 as [|d ds Hd _ IH]; simpl; [reflexivity|].
  rewrite alpha_idx_at by assumption. simpl. now rewrite IH.
Qed.

Lemma mapM_alpha_idx_inv l : forall r, mapM alpha_idx l = Ok r -> l = map alpha_at r /\ in_range 58 r.
Proof.
  induction l as [|c l IH]; intros r H; simpl in H.
  - inversion H. split; [reflexivity|constructor].
  - destruct (alpha_idx c) as [i|] eqn:E; simpl in H; [|discriminate].
    destruct (mapM alpha_idx l) as [r'|] eqn:E'; simpl in H; [|discriminate].
    inversion H; subst. apply alpha_at_idx in E as [E1 E2]. destruct (IH r' eq_refl) as [I1 I2].
    split; [simpl; congruence|constructor; auto].
Qed.

Lemma mapM_alpha_idx_err l e : mapM alpha_idx l = Err e -> e = KeyE /\ exists c, In c l /\ ~ In c alphabet.
Proof.
  induction l as [|c l IH]; simpl; [discriminate|].
  destruct (alpha_idx c) as [i|e'] eqn:E; simpl.
  - destruct (mapM alpha_idx l) as [r'|e''] eqn:E'; simpl; [discriminate|].
    intros H; inversion H; subst. destruct (IH eq_refl) as [-> (c' & H1 & H2)].
    split; auto. exists c'; auto.
  - intros H; inversion H; subst. split; [eapply alpha_idx_err; eauto|].
    exists c. split; auto. intros Hin. apply alpha_idx_ok_iff in Hin as [i Hi]. congruence.
Qed.

Lemma mapM_alpha_idx_ok_iff l : (exists r, mapM alpha_idx l = Ok r) <-> Forall (fun c => In c alphabet) l.
Proof.
  split.
  - intros [r H]. apply mapM_alpha_idx_inv in H as [-> H]. apply Forall_forall. intros c Hc.
    apply in_map_iff in Hc as (d & <- & Hd). apply alpha_idx_ok_iff. exists d. apply alpha_idx_at.
    unfold in_range in H. rewrite Forall_forall in H. auto.
  - intros H. destruct (mapM alpha_idx l) as [r|e] eqn:E; [eauto|].
    apply mapM_alpha_idx_err in E as [_ (c & H1 & H2)]. rewrite Forall_forall in H. exfalso; auto.
Qed.

(* ---------- sum over reversed digits ---------- *)
Lemma sum_rev_undigits l : forall i, 0 <= i -> sum_rev l i = 58 ^ i * undigits 58 (rev l).
Proof.
  induction l as [|d l IH]; intros i Hi; simpl; [unfold undigits; simpl; lia|].
  rewrite undigits_snoc, IH by lia. rewrite Z.pow_add_r by lia. ring.
Qed.

(* ---------- stripping ---------- *)
Lemma lstrip_repeat_app c k t : (forall x xs, t = x :: xs -> x <> c) -> lstrip c (repeat c k ++ t) = t.
Proof.
  intros H. induction k as [|k IH]; simpl.
  - destruct t as [|x xs]; [reflexivity|]. simpl.
    destruct (byte_eqb x c) eqn:E; [|reflexivity].
    apply byte_eqb_eq in E. exfalso. eapply H; eauto.
  - assert (byte_eqb c c = true) as -> by now apply byte_eqb_eq. exact IH.
Qed.

Lemma pow58_le_256 k : 58 ^ Z.of_nat k <= 256 ^ Z.of_nat k.
Proof. apply Z.pow_le_mono_l. lia. Qed.

Lemma pow256_le_58sq k : 256 ^ Z.of_nat k <= 58 ^ Z.of_nat (2 * k).
Proof.
  rewrite Nat2Z.inj_mul. change (Z.of_nat 2) with 2. rewrite Z.pow_mul_r by lia.
  apply Z.pow_le_mono_l. lia.
Qed.

Lemma b2z_x00 : b2z Coq.Init.Byte.x00 = 0. Proof. reflexivity. Qed.

Lemma hd_map_alpha_ne ds : in_range 58 ds -> no_lead0 ds ->
  forall x xs, map alpha_at ds = x :: xs -> x <> zero_char.
Proof.
  intros Hr Hl x xs E. destruct ds as [|d ds]; [discriminate|]. simpl in E. inversion E; subst.
  inversion Hr; subst. simpl in Hl. unfold zero_char. intros C. apply alpha_at_inj in C; lia.
Qed.

Lemma hd_map_z2b_ne d : in_range 256 d -> no_lead0 d ->
  forall x xs, map z2b d = x :: xs -> x <> Coq.Init.Byte.x00.
Proof.
  intros Hr Hl x xs Ex. destruct d as [|d0 d']; [discriminate|].
  simpl in Ex. injection Ex as <- _. inversion Hr as [|? ? Hd0 _]; subst. simpl in Hl.
  intros C. apply (f_equal b2z) in C. rewrite b2z_z2b, b2z_x00 in C by assumption. lia.
Qed.

(* ---------- main round trips ---------- *)
Theorem b58_decode_encode data : base58decode (base58encode data) = Ok data.
Proof.
  unfold base58encode.
  destruct (lstrip_spec Coq.Init.Byte.x00 data) as [Hd Hs].
  set (s := lstrip Coq.Init.Byte.x00 data) in *.
  set (z := (length data - length s)%nat) in *.
  set (n := of_be s).
  assert (Hn : 0 <= n < 58 ^ Z.of_nat (2 * length s)).
  { split; [apply of_be_nonneg|]. pose proof (of_be_bound s). pose proof (pow256_le_58sq (length s)). subst n; lia. }
  set (ds := digits (2 * length s) 58 n).
  assert (Hr : in_range 58 ds) by (apply digits_in_range; lia).
  assert (Hl : no_lead0 ds) by (apply digits_no_lead0; [lia|exact Hn]).
  assert (Hu : undigits 58 ds = n) by (apply digits_undigits; [lia|exact Hn]).
  unfold base58decode.
  rewrite lstrip_repeat_app by (apply hd_map_alpha_ne; assumption).
  rewrite app_length, repeat_length, Nat.add_sub.
  rewrite <- map_rev, mapM_alpha_idx_map by (apply Forall_rev; exact Hr).
  cbn [bind]. rewrite sum_rev_undigits by lia. rewrite rev_involutive, Hu.
  rewrite Z.pow_0_r, Z.mul_1_l. rewrite map_length.
  f_equal. etransitivity; [|symmetry; exact Hd]. f_equal.
  (* base-256 digits of n are the bytes of s *)
  assert (Hs256 : n = undigits 256 (map b2z s)) by apply of_be_undigits.
  assert (Hl256 : no_lead0 (map b2z s)).
  { destruct s as [|x xs] eqn:Es; simpl; auto. intros C. rewrite <- b2z_x00 in C.
    apply b2z_inj in C. eapply Hs; eauto. }
  unfold digits.
  rewrite (digits_aux_fuel_indep 256 ltac:(lia) (length ds) (length s)).
  - rewrite Hs256. fold (digits (length s) 256 (undigits 256 (map b2z s))).
    rewrite digits_of_undigits; [apply map_z2b_b2z|lia|apply map_b2z_in_range|exact Hl256|rewrite map_length; lia].
  - split; [lia|]. rewrite <- Hu. pose proof (undigits_bound 58 ds ltac:(lia) Hr).
    pose proof (pow58_le_256 (length ds)). lia.
  - split; [lia|]. apply of_be_bound.
Qed.

Theorem b58_encode_decode s b : base58decode s = Ok b -> base58encode b = s.
Proof.
  revert b. unfold base58decode.
  destruct (lstrip_spec zero_char s) as [Hd Hs].
  set (t := lstrip zero_char s) in *.
  set (k := (length s - length t)%nat) in *.
  intros b.
  destruct (mapM alpha_idx (rev t)) as [ir|e] eqn:E; simpl; [|discriminate].
  intros H; injection H as <-.
  apply mapM_alpha_idx_inv in E as [Et Hir].
  set (idxs := rev ir).
  assert (Ht : t = map alpha_at idxs).
  { subst idxs. rewrite map_rev, <- Et. now rewrite rev_involutive. }
  assert (Hr : in_range 58 idxs) by (apply Forall_rev; exact Hir).
  assert (Hl : no_lead0 idxs).
  { destruct idxs as [|d ds] eqn:Ei; simpl; auto. intros ->. simpl in Ht.
    eapply Hs; [exact Ht|reflexivity]. }
  rewrite sum_rev_undigits by lia. fold idxs. rewrite Z.pow_0_r, Z.mul_1_l.
  set (r := undigits 58 idxs).
  assert (Hlen : length t = length idxs) by (rewrite Ht; apply map_length).
  assert (Hrb : 0 <= r < 256 ^ Z.of_nat (length t)).
  { split; [apply undigits_nonneg; [lia|exact Hr]|].
    pose proof (undigits_bound 58 idxs ltac:(lia) Hr). pose proof (pow58_le_256 (length idxs)).
    rewrite Hlen. subst r; lia. }
  set (d := digits (length t) 256 r).
  assert (Hd256 : in_range 256 d) by (apply digits_in_range; lia).
  assert (Hdl : no_lead0 d) by (apply digits_no_lead0; [lia|exact Hrb]).
  assert (Hdu : undigits 256 d = r) by (apply digits_undigits; [lia|exact Hrb]).
  unfold base58encode.
  assert (Hstrip : lstrip Coq.Init.Byte.x00 (repeat Coq.Init.Byte.x00 k ++ map z2b d) = map z2b d).
  { apply lstrip_repeat_app. apply hd_map_z2b_ne; assumption. }
  rewrite Hstrip. rewrite app_length, repeat_length, Nat.add_sub.
  rewrite of_be_undigits, map_b2z_z2b by assumption. rewrite Hdu.
  etransitivity; [|symmetry; exact Hd]. f_equal. rewrite Ht. f_equal.
  unfold digits. rewrite map_length.
  rewrite (digits_aux_fuel_indep 58 ltac:(lia) (2 * length d) (length idxs)).
  - fold (digits (length idxs) 58 r). subst r. apply digits_of_undigits; auto; lia.
  - split; [lia|]. rewrite <- Hdu. pose proof (undigits_bound 256 d ltac:(lia) Hd256).
    pose proof (pow256_le_58sq (length d)). lia.
  - split; [lia|]. apply undigits_bound; [lia|exact Hr].
Qed.

Theorem b58_decode_ok_iff s : (exists b, base58decode s = Ok b) <-> Forall (fun c => In c alphabet) s.
Proof.
  unfold base58decode.
  destruct (lstrip_spec zero_char s) as [Hd _].
  set (t := lstrip zero_char s) in *.
  assert (Hz : In zero_char alphabet) by (vm_compute; auto).
  split.
  - intros [b H]. destruct (mapM alpha_idx (rev t)) as [ir|e] eqn:E; simpl in H; [|discriminate].
    assert (Forall (fun c => In c alphabet) (rev t)) by (apply mapM_alpha_idx_ok_iff; eauto).
    rewrite Hd. apply Forall_app. split.
    + apply Forall_forall. intros c Hc. apply repeat_spec in Hc. now subst.
    + rewrite <- (rev_involutive t). now apply Forall_rev.
  - intros H. rewrite Hd in H. apply Forall_app in H as [_ H].
    apply Forall_rev in H. apply mapM_alpha_idx_ok_iff in H as [ir ->]. simpl. eauto.
Qed.

Theorem b58_decode_err s e : base58decode s = Err e -> e = KeyE /\ exists c, In c s /\ ~ In c alphabet.
Proof.
  unfold base58decode.
  destruct (lstrip_spec zero_char s) as [Hd _].
  set (t := lstrip zero_char s) in *.
  destruct (mapM alpha_idx (rev t)) as [ir|e'] eqn:E; simpl; [discriminate|].
  intros H; inversion H; subst. apply mapM_alpha_idx_err in E as [-> (c & H1 & H2)].
  split; auto. exists c. split; auto. rewrite Hd. apply in_or_app. right. now apply in_rev.
Qed.

(* ---------- Base58Check ---------- *)
Section Check.
  Variable sha256 : bytes -> bytes.
  Hypothesis sha256_len : forall m, length (sha256 m) = 32%nat.

  Lemma hash256_len m : length (hash256 sha256 m) = 32%nat.
  Proof. unfold hash256. apply sha256_len. Qed.

  Lemma cks_len m : length (firstn 4 (hash256 sha256 m)) = 4%nat.
  Proof. rewrite firstn_length, hash256_len. reflexivity. Qed.

  Lemma droplast_app {A} (a b : list A) : droplast (length b) (a ++ b) = a.
  Proof. unfold droplast. rewrite app_length, Nat.add_sub. rewrite firstn_app, Nat.sub_diag, firstn_all. simpl. apply app_nil_r. Qed.

  Lemma lastn_app {A} (a b : list A) : lastn (length b) (a ++ b) = b.
  Proof. unfold lastn. rewrite app_length, Nat.add_sub. rewrite skipn_app, Nat.sub_diag, skipn_all. reflexivity. Qed.

  Lemma bytes_eqb_refl a : bytes_eqb a a = true.
  Proof. now apply bytes_eqb_eq. Qed.

  Theorem b58check_roundtrip p : base58check_decode sha256 (base58check sha256 p) = Ok p.
  Proof.
    unfold base58check_decode, base58check. rewrite b58_decode_encode. cbn [bind].
    pose proof (cks_len p) as L. set (c := firstn 4 (hash256 sha256 p)) in *.
    rewrite <- L. rewrite droplast_app, lastn_app. rewrite L. subst c. rewrite bytes_eqb_refl. reflexivity.
  Qed.

  Lemma lastn_length {A} n (l : list A) : length (lastn n l) = Nat.min n (length l).
  Proof. unfold lastn. rewrite skipn_length. lia. Qed.

  Theorem b58check_accept_iff s p :
    base58check_decode sha256 s = Ok p <->
    exists d, base58decode s = Ok d /\ (4 <= length d)%nat /\ p = droplast 4 d
              /\ lastn 4 d = firstn 4 (hash256 sha256 p).
  Proof.
    unfold base58check_decode. split.
    - destruct (base58decode s) as [d|e]; simpl; [|discriminate].
      destruct (bytes_eqb _ _) eqn:E; [|discriminate]. intros H; inversion H; subst; clear H.
      apply bytes_eqb_eq in E. exists d. repeat split; auto.
      assert (L : length (lastn 4 d) = 4%nat) by (rewrite E; apply cks_len).
      rewrite lastn_length in L. lia.
    - intros (d & -> & _ & -> & E). simpl. rewrite E, bytes_eqb_refl. reflexivity.
  Qed.

  Theorem b58check_reject_kinds s e :
    base58check_decode sha256 s = Err e -> e = KeyE \/ e = ValueE.
  Proof.
    unfold base58check_decode. destruct (base58decode s) as [d|e'] eqn:E; simpl.
    - destruct (bytes_eqb _ _); [discriminate|]. intros H; inversion H; auto.
    - intros H; inversion H; subst. apply b58_decode_err in E as [-> _]. auto.
  Qed.

  Theorem is_base58check_iff s : is_base58check sha256 s = true <-> exists p, base58check_decode sha256 s = Ok p.
  Proof.
    unfold is_base58check. destruct (base58check_decode sha256 s); simpl; split; eauto; try discriminate.
    intros [p H]; discriminate.
  Qed.
End Check.
