(* Proofs about the module-state model (Model/P2pSession.v): a refused call leaves no trace. *)
From Coq Require Import ZArith List Lia Bool.
Require Import Bits.Lib.Result Bits.Lib.Bytes Bits.Spec.P2p Bits.Spec.P2pNet.
Require Import Bits.Model.P2pFrame Bits.Model.P2pSession Bits.Proofs.P2pFrame.
Import ListNotations.
Local Open Scope Z_scope.

Lemma assoc_bytes_in k t v : assoc_bytes k t = Some v -> In (k, v) t.
Proof.
  induction t as [|[k' v'] t IH]; cbn [assoc_bytes]; [discriminate|].
  destruct (bytes_eqb k' k) eqn:E; [|intros H; right; auto].
  apply bytes_eqb_eq in E. subst k'. intros H. injection H as <-. now left.
Qed.

(* the call either selects the start string of the named network (case-insensitively) ... *)
Lemma set_magic_accepts network cur m :
  network_magic network = Some m ->
  set_magic_start_bytes network cur = (Ok true, m) /\ In (map ascii_lower network, m) network_magics.
Proof. intros H. unfold set_magic_start_bytes. rewrite H. split; [reflexivity | now apply assoc_bytes_in]. Qed.

(* ... or is refused and then leaves the global exactly as it was *)
Lemma set_magic_refused_no_trace network cur e cur' :
  set_magic_start_bytes network cur = (Err e, cur') -> cur' = cur /\ network_magic network = None.
Proof.
  unfold set_magic_start_bytes. destruct (network_magic network) as [m|]; intros H; [discriminate|].
  injection H as _ <-. auto.
Qed.

Lemma network_magics_len4 k m : In (k, m) network_magics -> length m = 4%nat.
Proof. cbn. intros [H|[H|[H|[]]]]; injection H as _ <-; reflexivity. Qed.

Section WithHash.
  Variable sha256 : bytes -> bytes.
  Notation session := (session sha256).
  Notation run_step := (run_step sha256).

  Lemma session_app cur a b :
    session cur (a ++ b) =
    (fst (session cur a) ++ fst (session (snd (session cur a)) b), snd (session (snd (session cur a)) b)).
  Proof.
    revert cur. induction a as [|s a IH]; intros cur; cbn [app P2pSession.session fst snd].
    - now destruct (session cur b).
    - destruct (run_step cur s) as [o c1]. rewrite IH.
      destruct (session c1 a) as [oa c2]. cbn [fst snd]. destruct (session c2 b) as [ob c3]. reflexivity.
  Qed.

  (* a step that is refused: a selection of an unknown network / with a non-string, a serialisation that raises *)
  Definition refused (cur : bytes) (s : step) : Prop :=
    match s with
    | SSelect n => network_magic n = None
    | SSelectBadType => True
    | SSer c p => exists e, msg_ser sha256 cur c p = Err e
    | SRecv _ _ _ => False
    end.

  Lemma refused_step_no_trace cur s : refused cur s -> snd (run_step cur s) = cur.
  Proof.
    destruct s as [n| |f st sc|c p]; cbn [refused P2pSession.run_step]; intros H; try reflexivity.
    unfold set_magic_start_bytes. now rewrite H.
  Qed.

  (* REFUSED CALLS LEAVE NO TRACE: inserting a refused call anywhere in a session changes neither the outcome of any
     other call nor the final state *)
  Theorem refused_call_transparent cur a s b :
    refused (snd (session cur a)) s ->
    session cur (a ++ s :: b) =
    (fst (session cur a) ++ fst (run_step (snd (session cur a)) s) :: fst (session (snd (session cur a)) b),
     snd (session cur (a ++ b))).
  Proof.
    intros H. rewrite !session_app. cbn [fst snd P2pSession.session].
    pose proof (refused_step_no_trace _ _ H) as E.
    destruct (run_step (snd (session cur a)) s) as [o c1]. cbn [fst snd] in *. subst c1.
    destruct (session (snd (session cur a)) b) as [ob c2]. reflexivity.
  Qed.

  Hypothesis sha256_len : forall m, length (sha256 m) = 32%nat.

  (* select a network, have any number of refused calls, then receive: a message framed for that network, in any
     fragmentation, is still received *)
  Theorem select_refuse_receive cur network m junk c p rest sch fuel :
    network_magic network = Some m ->
    Forall (fun s => forall cur', refused cur' s) junk ->
    In c commands -> zlen p <= max_size -> pos_sched sch -> (24 + length p <= fuel)%nat ->
    exists fr os,
      msg_ser sha256 m c p = Ok fr /\
      session cur (SSelect network :: junk ++ [SRecv fuel (fr ++ rest) sch])
      = (OSelect (Ok true) :: os ++ [ORecv (Ok (m, c, p, rest))], m).
  Proof.
    intros Hn Hj Hc Hp Hs Hf.
    destruct (set_magic_accepts network cur m Hn) as [E Hin].
    pose proof (network_magics_len4 _ _ Hin) as Hm.
    destruct (frame_any_fragmentation sha256 sha256_len m c p rest sch fuel Hm Hc Hp Hs Hf)
      as (fr & sch' & f' & Hser & HR & _).
    exists fr. cbn [P2pSession.session P2pSession.run_step]. rewrite E.
    assert (J : snd (session m junk) = m).
    { clear -Hj. induction Hj as [|s junk Hs _ IH]; [reflexivity|]. cbn [P2pSession.session].
      pose proof (refused_step_no_trace m s (Hs m)) as E1.
      destruct (run_step m s) as [o c1]. cbn [snd] in E1. subst c1.
      destruct (session m junk) as [oj c2]. cbn [snd] in *. exact IH. }
    rewrite session_app. rewrite J. cbn [P2pSession.session P2pSession.run_step fst snd].
    match goal with |- context [recv_msg ?x1 ?x2 ?x3 ?x4] =>
      replace (recv_msg x1 x2 x3 x4) with (@Ok (bytes * bytes * bytes * sock * nat) (m, c, p, (rest, sch'), f'))
        by (symmetry; exact HR) end.
    exists (fst (session m junk)). split; [exact Hser | reflexivity].
  Qed.
End WithHash.
