From Coq Require Import ZArith List Bool Lia.
Require Import Bits.Lib.Result Bits.Lib.Bytes Bits.Model.Ecmath Bits.Model.Keys.
Import ListNotations.
Local Open Scope Z_scope.

Lemma privkey_int_iff n k v :
  privkey_int n k = Ok v <-> length k = 32%nat /\ 1 <= of_be k < n /\ v = of_be k.
Proof.
  unfold privkey_int. destruct (Nat.eqb_spec (length k) 32) as [E|E]; simpl.
  - destruct (Z.ltb_spec 0 (of_be k)) as [H0|H0], (Z.ltb_spec (of_be k) n) as [H1|H1]; simpl.
    + split; [intros H; inversion H; subst; repeat split; auto; lia | intros (_ & _ & ->); reflexivity].
    + split; [discriminate | intros (_ & ? & _); lia].
    + split; [discriminate | intros (_ & ? & _); lia].
    + split; [discriminate | intros (_ & ? & _); lia].
  - split; [discriminate|]. intros (? & _); contradiction.
Qed.

Lemma privkey_int_err n k e : privkey_int n k = Err e -> e = AssertionE.
Proof.
  unfold privkey_int. destruct (Nat.eqb (length k) 32); simpl; [|congruence].
  destruct ((0 <? of_be k) && (of_be k <? n)); congruence.
Qed.

(* a freshly generated key is valid whatever the random source returns (randbelow(n-1) is in [0, n-2]) *)
Lemma keygen_in_range n d : 1 < n <= 2 ^ 256 -> 0 <= d < n - 1 ->
  exists kb, key_of_draw d = Ok kb /\ privkey_int n kb = Ok (d + 1).
Proof.
  intros Hn Hd. unfold key_of_draw, to_be_chk.
  assert (R : 0 <= d + 1 < 256 ^ Z.of_nat 32).
  { change (256 ^ Z.of_nat 32) with (2 ^ 256). lia. }
  destruct (Z.leb_spec 0 (d + 1)); [|lia]. destruct (Z.ltb_spec (d + 1) (256 ^ Z.of_nat 32)); [|lia].
  simpl. eexists. split; [reflexivity|].
  apply privkey_int_iff. rewrite to_be_length, of_be_to_be by exact R. repeat split; lia.
Qed.

Lemma compute_point_is_kG p a n G k v : privkey_int n k = Ok v ->
  compute_point p a n G k = point_scalar_mul p a v G.
Proof. intros H. unfold compute_point. now rewrite H. Qed.
