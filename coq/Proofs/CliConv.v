(* C20, conversion half: read_bytes / write_bytes are lossless, hex / bin input is left-zero-padded to whole
   bytes with surrounding white space ignored, what is written IS the standard representation. *)
From Coq Require Import ZArith List Lia Bool Arith.
Require Import Bits.Lib.Result Bits.Lib.Bytes Bits.Lib.Radix Bits.Lib.RadixW.
Require Import Bits.Spec.Cli Bits.Model.Cli.
Import ListNotations.
Import Coq.Init.Byte.
Local Open Scope Z_scope.
Ltac Zify.zify_post_hook ::= Z.to_euclidean_division_equations.

Definition all_ws (l : text) : Prop := forallb is_uspace l = true.
Definition is_hex (c : Z) : Prop := hexval c <> None.
Definition hv (c : Z) : Z := match hexval c with Some v => v | None => 0 end.
Definition is_bit (c : Z) : Prop := c = 48 \/ c = 49.
Definition fmt3 (f : pyval) : Prop := f = PStr s_raw \/ f = PStr s_hex \/ f = PStr s_bin.

(* ---------------------------------------------------------------------------------------- *)
(* str.strip                                                                                 *)
(* ---------------------------------------------------------------------------------------- *)
Lemma lstrip_ws_all s t : forallb is_uspace s = true -> lstrip_ws (s ++ t) = lstrip_ws t.
Proof.
  induction s as [|c s IH]; cbn [forallb app lstrip_ws]; [reflexivity|].
  intros H. apply andb_true_iff in H as [Hc Hs]. rewrite Hc. auto.
Qed.

Lemma lstrip_ws_nonspace s : Forall (fun c => is_uspace c = false) s -> lstrip_ws s = s.
Proof. destruct s as [|c s]; [reflexivity|]. intros H. inversion H as [|? ? Hc _]; subst. cbn [lstrip_ws]. now rewrite Hc. Qed.

Lemma forallb_rev {A} (f : A -> bool) l : forallb f (rev l) = forallb f l.
Proof.
  induction l as [|x l IH]; [reflexivity|]. cbn [rev forallb].
  rewrite forallb_app, IH. cbn [forallb]. rewrite andb_true_r. apply andb_comm.
Qed.

Lemma lstrip_ws_head c s : is_uspace c = false -> lstrip_ws (c :: s) = c :: s.
Proof. intros H. cbn [lstrip_ws]. now rewrite H. Qed.

Lemma strip_spec pre s post :
  all_ws pre -> all_ws post -> Forall (fun c => is_uspace c = false) s -> strip (pre ++ s ++ post) = s.
Proof.
  unfold all_ws, strip. intros Hpre Hpost Hs.
  rewrite lstrip_ws_all by assumption.
  destruct s as [|c s].
  - cbn [app]. replace post with (post ++ []) by apply app_nil_r.
    rewrite lstrip_ws_all by assumption. reflexivity.
  - inversion Hs as [|? ? Hc Hs']; subst.
    change ((c :: s) ++ post) with (c :: (s ++ post)).
    rewrite lstrip_ws_head by assumption.
    change (c :: s ++ post) with ((c :: s) ++ post).
    rewrite rev_app_distr, lstrip_ws_all by (now rewrite forallb_rev).
    rewrite lstrip_ws_nonspace by (apply Forall_rev; assumption).
    apply rev_involutive.
Qed.

(* ---------------------------------------------------------------------------------------- *)
(* characters                                                                                *)
(* ---------------------------------------------------------------------------------------- *)
Lemma hexval_facts c v : hexval c = Some v ->
  0 <= v < 16 /\ is_uspace c = false /\ is_cspace c = false.
Proof.
  unfold hexval. intros H.
  assert (R : (48 <= c <= 57 /\ v = c - 48) \/ (97 <= c <= 102 /\ v = c - 87) \/ (65 <= c <= 70 /\ v = c - 55)).
  { destruct ((48 <=? c) && (c <=? 57)) eqn:E1.
    { apply andb_true_iff in E1 as [A B]. apply Z.leb_le in A, B. injection H as <-. lia. }
    destruct ((97 <=? c) && (c <=? 102)) eqn:E2.
    { apply andb_true_iff in E2 as [A B]. apply Z.leb_le in A, B. injection H as <-. lia. }
    destruct ((65 <=? c) && (c <=? 70)) eqn:E3; [|discriminate].
    apply andb_true_iff in E3 as [A B]. apply Z.leb_le in A, B. injection H as <-. lia. }
  split; [lia|]. split.
  - apply not_true_is_false. intros S. unfold is_uspace in S.
    repeat rewrite ?orb_true_iff, ?andb_true_iff, ?Z.leb_le, ?Z.eqb_eq in S. lia.
  - apply not_true_is_false. intros S. unfold is_cspace in S.
    repeat rewrite ?orb_true_iff, ?andb_true_iff, ?Z.leb_le, ?Z.eqb_eq in S. lia.
Qed.

Lemma is_hex_hv c : is_hex c -> hexval c = Some (hv c).
Proof. unfold is_hex, hv. destruct (hexval c); [reflexivity|congruence]. Qed.

Lemma is_hex_nonspace c : is_hex c -> is_uspace c = false.
Proof. intros H. apply is_hex_hv in H. now apply hexval_facts in H. Qed.

Lemma digitchar_hex d : 0 <= d < 16 -> hexval (digitchar d) = Some d.
Proof.
  intros H. assert (E : exists k : nat, (k < 16)%nat /\ d = Z.of_nat k) by (exists (Z.to_nat d); lia).
  destruct E as (k & Hk & ->). do 16 (destruct k as [|k]; [reflexivity|]). lia.
Qed.

Lemma digitchar_spec d : 0 <= d < 16 -> digitchar d = spec_digit d.
Proof.
  intros H. assert (E : exists k : nat, (k < 16)%nat /\ d = Z.of_nat k) by (exists (Z.to_nat d); lia).
  destruct E as (k & Hk & ->). do 16 (destruct k as [|k]; [reflexivity|]). lia.
Qed.

Lemma is_bit_facts c : is_bit c -> is_uspace c = false /\ is_hex c /\ hv c = c - 48 /\ 0 <= c - 48 < 2.
Proof. intros [-> | ->]; (repeat split; try reflexivity; try lia; try (unfold is_hex; cbn; congruence)). Qed.

(* ---------------------------------------------------------------------------------------- *)
(* nibbles <-> bytes                                                                         *)
(* ---------------------------------------------------------------------------------------- *)
Fixpoint pairs (ds : list Z) : bytes :=
  match ds with
  | h :: l :: r => z2b (16 * h + l) :: pairs r
  | _ => []
  end.

Definition nibbles (bs : bytes) : list Z := flat_map (fun b => [b2z b / 16; b2z b mod 16]) bs.

Lemma pair_ind {A} (P : list A -> Prop) :
  P [] -> (forall a, P [a]) -> (forall a b l, P l -> P (a :: b :: l)) -> forall l, P l.
Proof.
  intros H0 H1 H2. fix IH 1. intros [|a [|b l]]; [exact H0 | apply H1 | apply H2, IH].
Qed.

Lemma nibbles_app a b : nibbles (a ++ b) = nibbles a ++ nibbles b.
Proof. unfold nibbles. apply flat_map_app. Qed.

Lemma nibbles_length bs : length (nibbles bs) = (2 * length bs)%nat.
Proof. induction bs as [|b bs IH]; cbn [nibbles flat_map app length] in *; [reflexivity|]. unfold nibbles in IH. lia. Qed.

Lemma nibbles_in_range bs : in_range 16 (nibbles bs).
Proof.
  induction bs as [|b bs IH]; [constructor|]. cbn [nibbles flat_map app].
  pose proof (b2z_range b). repeat constructor; try lia. exact IH.
Qed.

Lemma undigits_nibbles bs : undigits 16 (nibbles bs) = of_be bs.
Proof.
  induction bs as [|b bs IH] using rev_ind; [reflexivity|].
  rewrite nibbles_app, of_be_app. cbn [nibbles flat_map app length].
  change [b2z b / 16; b2z b mod 16] with ([b2z b / 16] ++ [b2z b mod 16]).
  rewrite app_assoc, !undigits_snoc, IH. change (of_be [b]) with (0 * 256 + b2z b).
  pose proof (b2z_range b). change (Z.of_nat 1) with 1. rewrite Z.pow_1_r. lia.
Qed.

Lemma pairs_nibbles ds : in_range 16 ds -> Nat.even (length ds) = true -> nibbles (pairs ds) = ds.
Proof.
  induction ds as [| a | h l r IH] using pair_ind; intros Hr He.
  - reflexivity.
  - discriminate.
  - inversion Hr as [|? ? Hh Hr1]; subst. inversion Hr1 as [|? ? Hl Hr2]; subst.
    cbn [pairs nibbles flat_map app]. rewrite b2z_z2b by lia.
    change (flat_map (fun b => [b2z b / 16; b2z b mod 16]) (pairs r)) with (nibbles (pairs r)).
    rewrite IH by (auto). f_equal; [lia|]. f_equal. lia.
Qed.

Lemma pairs_length ds : Nat.even (length ds) = true -> (2 * length (pairs ds) = length ds)%nat.
Proof.
  induction ds as [| a | h l r IH] using pair_ind; intros He; [reflexivity|discriminate|].
  cbn [pairs length] in *. specialize (IH He). lia.
Qed.

Lemma pairs_to_be ds : in_range 16 ds -> Nat.even (length ds) = true ->
  pairs ds = to_be (Nat.div (length ds) 2) (undigits 16 ds).
Proof.
  intros Hr He. pose proof (pairs_length ds He) as HL.
  assert (E : undigits 16 ds = of_be (pairs ds)) by (rewrite <- undigits_nibbles, pairs_nibbles; auto).
  rewrite E. replace (Nat.div (length ds) 2) with (length (pairs ds)).
  - symmetry. apply to_be_of_be.
  - rewrite <- HL, Nat.mul_comm, Nat.div_mul; lia.
Qed.

Lemma fromhex_digits s : Forall is_hex s -> Nat.even (length s) = true -> fromhex s = Ok (pairs (map hv s)).
Proof.
  induction s as [| a | c1 c2 r IH] using pair_ind; intros Hh He; [reflexivity|discriminate|].
  inversion Hh as [|? ? H1 Hh1]; subst. inversion Hh1 as [|? ? H2 Hh2]; subst.
  pose proof (is_hex_hv _ H1) as E1. pose proof (is_hex_hv _ H2) as E2.
  destruct (hexval_facts _ _ E1) as (_ & _ & S1).
  cbn [fromhex map pairs]. rewrite S1, E1, E2, IH by auto. reflexivity.
Qed.

Lemma undigits_zeros b k ds : undigits b (repeat 0 k ++ ds) = undigits b ds.
Proof. induction k as [|k IH]; [reflexivity|]. cbn [repeat app]. rewrite undigits_cons, IH. lia. Qed.

Lemma in_range_zeros b k : 0 < b -> in_range b (repeat 0 k).
Proof. intros Hb. induction k; cbn [repeat]; constructor; auto. lia. Qed.

(* ---------------------------------------------------------------------------------------- *)
(* pad_hex                                                                                   *)
(* ---------------------------------------------------------------------------------------- *)
Lemma in_range_hv s : Forall is_hex s -> in_range 16 (map hv s).
Proof.
  induction 1 as [|c s Hc _ IH]; cbn [map]; constructor; [|exact IH].
  apply is_hex_hv in Hc. now apply hexval_facts in Hc.
Qed.

Theorem pad_hex udec pre s post raw :
  all_ws pre -> all_ws post -> Forall is_hex s ->
  read_bytes udec (PStr s_hex) (mkIn raw (pre ++ s ++ post)) = Ok (spec_padded 16 2 (map hv s)).
Proof.
  intros Hpre Hpost Hs. unfold read_bytes. cbn [is_str in_text].
  change (bytes_eqb s_hex s_raw) with false. change (bytes_eqb s_hex s_hex) with true. cbv iota.
  rewrite strip_spec; [|assumption|assumption|].
  2:{ eapply Forall_impl; [|exact Hs]. intros c Hc. now apply is_hex_nonspace. }
  unfold spec_padded. rewrite map_length.
  destruct (Nat.odd (length s)) eqn:Hodd.
  - assert (He : Nat.even (length (48 :: s)) = true).
    { cbn [length]. rewrite Nat.even_succ. exact Hodd. }
    rewrite fromhex_digits; [|constructor; [unfold is_hex; cbn; congruence|assumption]|exact He].
    rewrite pairs_to_be; [|apply in_range_hv; constructor; [unfold is_hex; cbn; congruence|assumption]|now rewrite map_length].
    rewrite map_length. cbn [map]. change (hv 48) with 0.
    rewrite undigits_cons, Z.mul_0_l, Z.add_0_l. f_equal. f_equal.
    cbn [length]. apply Nat.odd_spec in Hodd. destruct Hodd as [m Hm]. rewrite Hm.
    replace (S (2 * m + 1)) with ((m + 1) * 2)%nat by lia.
    replace (2 * m + 1 + (2 - 1))%nat with ((m + 1) * 2)%nat by lia. reflexivity.
  - assert (He : Nat.even (length s) = true).
    { rewrite <- Nat.negb_odd, Hodd. reflexivity. }
    rewrite fromhex_digits by assumption.
    rewrite pairs_to_be; [|now apply in_range_hv|now rewrite map_length].
    rewrite map_length. f_equal. f_equal.
    apply Nat.even_spec in He. destruct He as [m Hm]. rewrite Hm.
    replace (2 * m)%nat with (m * 2)%nat by lia. rewrite Nat.div_mul by lia.
    replace (m * 2 + (2 - 1))%nat with (1 + m * 2)%nat by lia.
    rewrite Nat.div_add by lia. reflexivity.
Qed.

(* ---------------------------------------------------------------------------------------- *)
(* int(s, 2) on a plain bit string, pad_bin                                                  *)
(* ---------------------------------------------------------------------------------------- *)
Definition bv (c : Z) : Z := c - 48.

Lemma scan_bits s : Forall is_bit s -> forall prev acc n, (s = [] -> prev <> 95) ->
  scan_bin s prev acc n = Ok (fold_left (fun a d => a * 2 + d) (map bv s) acc, n + Z.of_nat (length s), []).
Proof.
  induction 1 as [|c s Hc _ IH]; intros prev acc n Hp.
  - cbn [scan_bin map fold_left length]. destruct (Z.eqb_spec prev 95) as [E|_]; [now elim Hp|].
    now rewrite Z.add_0_r.
  - cbn [scan_bin map fold_left length].
    assert (E1 : (c =? 95) = false) by (destruct Hc as [-> | ->]; reflexivity).
    assert (E2 : ((c =? 48) || (c =? 49)) = true) by (destruct Hc as [-> | ->]; reflexivity).
    rewrite E1, E2, IH.
    + replace (n + Z.of_nat (S (length s))) with (n + 1 + Z.of_nat (length s)) by lia.
      replace (acc * 2 + bv c) with (2 * acc + (c - 48)) by (unfold bv; lia). reflexivity.
    + intros _. destruct Hc as [-> | ->]; lia.
Qed.

Lemma map_to_ascii_bits udec s : Forall is_bit s -> map (to_ascii udec) s = s.
Proof.
  induction 1 as [|c s Hc _ IH]; cbn [map]; [reflexivity|]. rewrite IH. f_equal.
  destruct Hc as [-> | ->]; reflexivity.
Qed.

Lemma int2_bits udec s : s <> [] -> Forall is_bit s -> int2 udec s = Ok (undigits 2 (map bv s)).
Proof.
  intros Hne Hs. unfold int2. rewrite map_to_ascii_bits by assumption.
  destruct s as [|c r]; [congruence|]. inversion Hs as [|? ? Hc Hr]; subst.
  assert (D : drop_cspace (c :: r) = c :: r) by (destruct Hc as [-> | ->]; reflexivity).
  assert (SS : split_sign (c :: r) = (false, c :: r)) by (destruct Hc as [-> | ->]; reflexivity).
  assert (P : skip_prefix (c :: r) = c :: r).
  { destruct r as [|c1 r']; [reflexivity|]. inversion Hr as [|? ? Hc1 _]; subst.
    destruct Hc as [-> | ->], Hc1 as [-> | ->]; reflexivity. }
  rewrite D, SS. cbn [fst snd]. rewrite P.
  unfold parse_bin.
  assert (E : (c =? 95) = false) by (destruct Hc as [-> | ->]; reflexivity).
  rewrite E, scan_bits by (assumption || congruence).
  cbn [length]. destruct (Z.eqb_spec (0 + Z.of_nat (S (length r))) 0) as [Z0|_]; [lia|].
  reflexivity.
Qed.

Lemma pow256_pow2 k : 256 ^ Z.of_nat k = 2 ^ Z.of_nat (8 * k).
Proof.
  change 256 with (2 ^ 8). rewrite <- Z.pow_mul_r by lia. f_equal. lia.
Qed.

Theorem pad_bin udec pre s post raw :
  all_ws pre -> all_ws post -> Forall is_bit s ->
  read_bytes udec (PStr s_bin) (mkIn raw (pre ++ s ++ post)) = Ok (spec_padded 2 8 (map bv s)).
Proof.
  intros Hpre Hpost Hs. unfold read_bytes. cbn [is_str in_text].
  change (bytes_eqb s_bin s_raw) with false. change (bytes_eqb s_bin s_hex) with false.
  change (bytes_eqb s_bin s_bin) with true. cbv iota zeta.
  rewrite strip_spec; [|assumption|assumption|].
  2:{ eapply Forall_impl; [|exact Hs]. intros c Hc. now apply is_bit_facts. }
  unfold spec_padded. rewrite map_length.
  set (L := length s). assert (HL0 : length s = L) by reflexivity. clearbody L.
  set (r := Z.of_nat L mod 8).
  set (pad := if r =? 0 then 0%nat else Z.to_nat (8 - r)).
  match goal with |- context [int2 udec ?d] => set (data := d) end.
  assert (Hdata : data = repeat 48 pad ++ s) by (unfold data, pad; destruct (r =? 0); reflexivity).
  clearbody data. subst data.
  assert (Hbits : Forall is_bit (repeat 48 pad ++ s)).
  { apply Forall_app. split; [|assumption]. clear. induction pad; cbn [repeat]; constructor; auto. now left. }
  assert (Hlen : length (repeat 48 pad ++ s) = (pad + L)%nat) by (rewrite app_length, repeat_length, HL0; reflexivity).
  assert (Hk : exists k : nat, (pad + L = 8 * k)%nat /\ Nat.div (L + (8 - 1)) 8 = k).
  { exists (Nat.div (L + 7) 8).
    pose proof (Nat.div_mod (L + 7) 8 ltac:(lia)) as D1. pose proof (Nat.mod_upper_bound (L + 7) 8 ltac:(lia)) as D2.
    replace (L + (8 - 1))%nat with (L + 7)%nat by lia.
    unfold pad, r. destruct (Z.eqb_spec (Z.of_nat L mod 8) 0) as [E|E]; split; lia. }
  destruct Hk as (k & Hk & Hk').
  assert (Hval : undigits 2 (map bv (repeat 48 pad ++ s)) = undigits 2 (map bv s)).
  { rewrite map_app. replace (map bv (repeat 48 pad)) with (repeat 0 pad); [apply undigits_zeros|].
    clear. induction pad; cbn [repeat map]; [reflexivity|]. now f_equal. }
  destruct (repeat 48 pad ++ s) as [|c0 rest] eqn:Edata.
  - (* nothing to read *)
    cbn [length] in Hlen. rewrite Hk'. replace k with 0%nat by lia. reflexivity.
  - rewrite <- Edata in *. rewrite int2_bits; [|rewrite Edata; discriminate|assumption].
    rewrite Hlen, Hk, Hk'. replace (Nat.div (8 * k) 8) with k by (rewrite Nat.mul_comm, Nat.div_mul; lia).
    unfold to_be_chk.
    assert (Hr : in_range 2 (map bv (repeat 48 pad ++ s))).
    { clear - Hbits. induction Hbits as [|c l Hc _ IH]; cbn [map]; constructor; [|exact IH].
      unfold bv. destruct Hc as [-> | ->]; lia. }
    pose proof (undigits_nonneg 2 _ ltac:(lia) Hr) as Hn.
    pose proof (undigits_bound 2 _ ltac:(lia) Hr) as Hb.
    rewrite map_length, Hlen, Hk, <- pow256_pow2 in Hb.
    destruct (Z.leb_spec 0 (undigits 2 (map bv (repeat 48 pad ++ s)))) as [_|]; [|lia].
    destruct (Z.ltb_spec (undigits 2 (map bv (repeat 48 pad ++ s))) (256 ^ Z.of_nat k)) as [_|]; [|lia].
    cbn [andb]. now rewrite Hval.
Qed.

(* ---------------------------------------------------------------------------------------- *)
(* format(n, "0{w}x"|"0{w}b") and write_bytes                                                *)
(* ---------------------------------------------------------------------------------------- *)
Lemma digits_aux_length fuel b n acc : (length (digits_aux fuel b n acc) <= fuel + length acc)%nat.
Proof.
  revert n acc. induction fuel as [|f IH]; intros n acc; cbn [digits_aux]; [lia|].
  destruct (n =? 0); [lia|]. specialize (IH (n / b) (n mod b :: acc)). cbn [length] in IH. lia.
Qed.

Lemma pyformat_spec b w n : 1 < b -> (0 < w)%nat -> 0 <= n < b ^ Z.of_nat w ->
  exists ds, pyformat w b w n = map digitchar ds /\ length ds = w /\ in_range b ds /\ undigits b ds = n.
Proof.
  intros Hb Hw Hn. unfold pyformat.
  destruct (Z.eqb_spec n 0) as [->|Hnz].
  - exists (repeat 0 (w - length [0]) ++ [0]). split; [reflexivity|]. split.
    { rewrite app_length, repeat_length. cbn [length]. lia. }
    split.
    { apply Forall_app. split; [apply in_range_zeros; lia|]. repeat constructor; lia. }
    rewrite undigits_zeros. reflexivity.
  - exists (repeat 0 (w - length (digits w b n)) ++ digits w b n). split; [reflexivity|].
    pose proof (digits_aux_length w b n []) as HL. cbn [length] in HL. fold (digits w b n) in HL.
    split.
    { rewrite app_length, repeat_length. lia. }
    split.
    { apply Forall_app. split; [apply in_range_zeros; lia|apply digits_in_range; lia]. }
    rewrite undigits_zeros. apply digits_undigits; assumption.
Qed.

(* what write_bytes produces in the two text formats *)
Lemma write_text_spec linesep f (b : Z) (k : nat) data :
  (f = PStr s_hex /\ b = 16 /\ k = 2%nat) \/ (f = PStr s_bin /\ b = 2 /\ k = 8%nat) ->
  exists ds, write_bytes linesep f data = Ok ([], map digitchar ds ++ linesep)
             /\ length ds = (length data * k)%nat /\ in_range b ds /\ undigits b ds = of_be data.
Proof.
  intros Hf.
  assert (Hw : write_bytes linesep f data =
               Ok ([], match data with [] => [] | _ => pyformat (length data * k) b (length data * k) (of_be data) end ++ linesep)).
  { destruct Hf as [(-> & -> & ->) | (-> & -> & ->)]; reflexivity. }
  assert (Hb : 1 < b) by (destruct Hf as [(_ & -> & _) | (_ & -> & _)]; lia).
  assert (Hk : (0 < k)%nat) by (destruct Hf as [(_ & _ & ->) | (_ & _ & ->)]; lia).
  assert (Hpow : b ^ Z.of_nat k = 256) by (destruct Hf as [(_ & -> & ->) | (_ & -> & ->)]; reflexivity).
  destruct data as [|x data'] eqn:Ed.
  - exists []. rewrite Hw. repeat split; constructor.
  - rewrite <- Ed in *. assert (Hl : (0 < length data)%nat) by (rewrite Ed; cbn [length]; lia).
    destruct (pyformat_spec b (length data * k) (of_be data) Hb ltac:(nia)) as (ds & E & HL & HR & HU).
    { pose proof (of_be_nonneg data). pose proof (of_be_bound data).
      rewrite Nat2Z.inj_mul, Z.mul_comm, Z.pow_mul_r, Hpow by lia. lia. }
    exists ds. rewrite Hw. rewrite Ed at 1. rewrite <- Ed. rewrite E. auto.
Qed.

Lemma map_hv_digitchar ds : in_range 16 ds -> map hv (map digitchar ds) = ds /\ Forall is_hex (map digitchar ds).
Proof.
  induction 1 as [|d ds Hd _ IH]; cbn [map]; [split; constructor|].
  destruct IH as [IH1 IH2]. pose proof (digitchar_hex d Hd) as E. split.
  - unfold hv at 1. rewrite E, IH1. reflexivity.
  - constructor; [unfold is_hex; rewrite E; discriminate|assumption].
Qed.

Lemma map_bv_digitchar ds : in_range 2 ds -> map bv (map digitchar ds) = ds /\ Forall is_bit (map digitchar ds).
Proof.
  induction 1 as [|d ds Hd _ IH]; cbn [map]; [split; constructor|].
  destruct IH as [IH1 IH2]. assert (Hd' : d = 0 \/ d = 1) by lia. split.
  - rewrite IH1. destruct Hd' as [-> | ->]; reflexivity.
  - constructor; [destruct Hd' as [-> | ->]; [left|right]; reflexivity|assumption].
Qed.

(* ---------------------------------------------------------------------------------------- *)
(* losslessness                                                                              *)
(* ---------------------------------------------------------------------------------------- *)
Theorem roundtrip udec linesep f data : all_ws linesep -> fmt3 f ->
  exists o, write_bytes linesep f data = Ok o /\ read_bytes udec f (as_input o) = Ok data.
Proof.
  intros Hls [-> | [-> | ->]].
  - exists (data, []). split; reflexivity.
  - destruct (write_text_spec linesep (PStr s_hex) 16 2 data ltac:(left; auto)) as (ds & Hw & HL & HR & HU).
    eexists. split; [exact Hw|]. unfold as_input. cbn [fst snd].
    destruct (map_hv_digitchar ds HR) as [Hm Hh].
    change (map digitchar ds ++ linesep) with ([] ++ map digitchar ds ++ linesep).
    rewrite pad_hex; [|reflexivity|assumption|assumption].
    rewrite Hm. unfold spec_padded. rewrite HL, HU.
    replace (Nat.div (length data * 2 + (2 - 1)) 2) with (length data).
    2:{ replace (length data * 2 + (2 - 1))%nat with (1 + length data * 2)%nat by lia.
        rewrite Nat.div_add by lia. reflexivity. }
    now rewrite to_be_of_be.
  - destruct (write_text_spec linesep (PStr s_bin) 2 8 data ltac:(right; auto)) as (ds & Hw & HL & HR & HU).
    eexists. split; [exact Hw|]. unfold as_input. cbn [fst snd].
    destruct (map_bv_digitchar ds HR) as [Hm Hh].
    change (map digitchar ds ++ linesep) with ([] ++ map digitchar ds ++ linesep).
    rewrite pad_bin; [|reflexivity|assumption|assumption].
    rewrite Hm. unfold spec_padded. rewrite HL, HU.
    replace (Nat.div (length data * 8 + (8 - 1)) 8) with (length data).
    2:{ replace (length data * 8 + (8 - 1))%nat with (7 + length data * 8)%nat by lia.
        rewrite Nat.div_add by lia. reflexivity. }
    now rewrite to_be_of_be.
Qed.

Theorem convert_lossless udec linesep f g data : all_ws linesep -> fmt3 f -> fmt3 g ->
  reconvert udec linesep f g data = Ok data.
Proof.
  intros Hls Hf Hg. unfold reconvert.
  destruct (roundtrip udec linesep f data Hls Hf) as (o1 & W1 & R1). rewrite W1, R1.
  destruct (roundtrip udec linesep g data Hls Hg) as (o2 & W2 & R2). rewrite W2, R2. reflexivity.
Qed.

(* ---------------------------------------------------------------------------------------- *)
(* what is written is the standard representation                                            *)
(* ---------------------------------------------------------------------------------------- *)
Lemma spec_hex_nibbles data : spec_hex data = map digitchar (nibbles data).
Proof.
  induction data as [|b r IH]; [reflexivity|]. cbn [spec_hex nibbles flat_map app map].
  pose proof (b2z_range b).
  rewrite <- !digitchar_spec by lia. f_equal. f_equal. exact IH.
Qed.

Lemma spec_bin_byte b :
  map (fun i => if Z.testbit (b2z b) i then 49 else 48) [7; 6; 5; 4; 3; 2; 1; 0] = map digitchar (digits_w 2 8 (b2z b)).
Proof. destruct b; vm_compute; reflexivity. Qed.

Lemma spec_bin_bits data : spec_bin data = map digitchar (bits_of_bytes data).
Proof.
  induction data as [|b r IH]; [reflexivity|].
  rewrite bits_of_bytes_cons, map_app, <- IH, <- spec_bin_byte. reflexivity.
Qed.

Theorem write_is_spec linesep data :
  write_bytes linesep (PStr s_raw) data = Ok (data, [])
  /\ write_bytes linesep (PStr s_hex) data = Ok ([], spec_hex data ++ linesep)
  /\ write_bytes linesep (PStr s_bin) data = Ok ([], spec_bin data ++ linesep).
Proof.
  split; [reflexivity|]. split.
  - destruct (write_text_spec linesep (PStr s_hex) 16 2 data ltac:(left; auto)) as (ds & Hw & HL & HR & HU).
    rewrite Hw, spec_hex_nibbles. enough (E : ds = nibbles data) by now rewrite E.
    apply (undigits_inj 16); [lia|assumption|apply nibbles_in_range| |].
    + rewrite HL, nibbles_length. lia.
    + now rewrite undigits_nibbles.
  - destruct (write_text_spec linesep (PStr s_bin) 2 8 data ltac:(right; auto)) as (ds & Hw & HL & HR & HU).
    rewrite Hw, spec_bin_bits. enough (E : ds = bits_of_bytes data) by now rewrite E.
    apply (undigits_inj 2); [lia|assumption|apply bits_of_bytes_in_range| |].
    + rewrite HL, bits_of_bytes_length. lia.
    + now rewrite undigits_bits_of_bytes.
Qed.

(* unrecognised formats raise ValueError on both sides *)
Lemma bad_format udec linesep f inp data :
  is_str f s_raw = false -> is_str f s_hex = false -> is_str f s_bin = false ->
  read_bytes udec f inp = Err ValueE /\ write_bytes linesep f data = Err ValueE.
Proof. intros A B C. unfold read_bytes, write_bytes. rewrite A, B, C. split; reflexivity. Qed.
