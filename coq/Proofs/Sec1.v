(* SEC1 public-key octets: round trip, exact accepted set, error classes (utils.pubkey / point / is_point /
   compressed_pubkey).  The number-theoretic facts about square roots mod p are the explicit hypothesis record
   [sqrt_facts] (plus [s1_no2tors] for totality of is_point); both are PROVED by computation for p = 43, 79, 67
   (Proofs/Sec1Small.v) and remain premises for secp256k1. *)
From Coq Require Import ZArith List Bool Lia Zpow_facts.
Require Import Bits.Lib.Result Bits.Lib.Bytes Bits.Model.Ecmath Bits.Proofs.Ecmath Bits.Model.Sec1.
Require Bits.Spec.Sec1.
Import ListNotations.
Import Coq.Init.Byte.
Local Open Scope Z_scope.
Ltac Zify.zify_post_hook ::= Z.to_euclidean_division_equations.

Record sqrt_facts (p : Z) : Prop := {
  sq_p : 3 < p;
  sq_mod4 : p mod 4 = 3;
  (* the candidate w = (y^2)^((p+1)/4) is one of the two square roots of y^2 *)
  sq_root : forall y, 0 <= y < p ->
            let w := fpow p (fmul p y y) ((p + 1) / 4) in w = y \/ w = fsub p 0 y
}.

Record sec1_facts (p a b : Z) : Prop := {
  s1_sqrt : sqrt_facts p;
  s1_a : inF p a = true;
  s1_b : inF p b = true;
  s1_width : p <= 2 ^ 256;
  (* no point of order two: x^3 + a x + b has no root, so the candidate square root is never 0
     (with w = 0 both candidates are 0 and the odd-parity selection of utils.point raises IndexError) *)
  s1_no2tors : forall x, 0 <= x < p -> fpow p (rhs p a b x) ((p + 1) / 4) <> 0
}.

Section Sec1Proofs.
  Variables p a b : Z.
  Hypothesis Hp : 3 < p.
  Hypothesis Ha : inF p a = true.
  Hypothesis Hb : inF p b = true.

  Notation e4 := ((p + 1) / 4).
  Notation neg := (fsub p 0).
  Notation sec1_point := (sec1_point p a b).

  Lemma fpow2 y : fpow p y 2 = fmul p y y.
  Proof. unfold fpow, fmul. rewrite Zpow_mod_correct by lia. f_equal. lia. Qed.

  Lemma inF_rhs x : inF p (rhs p a b x) = true.
  Proof. unfold rhs. apply inF_fadd; lia. Qed.

  Lemma neg_0 : neg 0 = 0.
  Proof. unfold fsub. apply Z.mod_0_l. lia. Qed.
  Lemma neg_pos y : 0 < y < p -> neg y = p - y.
  Proof.
    intros H. unfold fsub. replace (0 - y) with (p - y + (-1) * p) by lia.
    rewrite Z.mod_add by lia. apply Z.mod_small. lia.
  Qed.
  Lemma neg_neg y : 0 <= y < p -> neg (neg y) = y.
  Proof.
    intros H. destruct (Z.eq_dec y 0) as [->|N]; [now rewrite !neg_0|].
    rewrite (neg_pos y) by lia. rewrite neg_pos by lia. lia.
  Qed.
  Lemma neg_range y : 0 <= neg y < p.
  Proof. unfold fsub. apply Z.mod_pos_bound. lia. Qed.

  (* ---------- the checked functions on in-range input ---------- *)
  Lemma on_curve_inv x y r : point_is_on_curve p a b x y = Ok r ->
    inF p x = true /\ inF p y = true /\ r = (fpow p y 2 =? rhs p a b x).
  Proof.
    intros H. destruct (inF p y) eqn:Ey.
    - destruct (inF p x) eqn:Ex.
      + rewrite (on_curve_ok p a b Hp Ha Hb) in H by auto. injection H as <-. auto.
      + unfold point_is_on_curve in H. rewrite (pow_ok p) in H by (auto; lia). cbn [bind] in H.
        unfold curve_rhs, pow_mod_p in H. rewrite Ex in H. discriminate.
    - unfold point_is_on_curve, pow_mod_p in H. rewrite Ey in H. discriminate.
  Qed.

  Lemma on_curve_err x y e : point_is_on_curve p a b x y = Err e ->
    e = ValueE /\ (inF p x = false \/ inF p y = false).
  Proof.
    intros H. destruct (inF p y) eqn:Ey.
    - destruct (inF p x) eqn:Ex.
      + rewrite (on_curve_ok p a b Hp Ha Hb) in H by auto. discriminate.
      + unfold point_is_on_curve in H. rewrite (pow_ok p) in H by (auto; lia). cbn [bind] in H.
        unfold curve_rhs, pow_mod_p in H. rewrite Ex in H. cbn in H. injection H as <-. auto.
    - unfold point_is_on_curve, pow_mod_p in H. rewrite Ey in H. cbn in H. injection H as <-. auto.
  Qed.

  Section WithMod4.
  Hypothesis Hmod4 : p mod 4 = 3.

  Lemma p_odd : p mod 2 = 1.
  Proof using Hmod4. clear Ha Hb. lia. Qed.

  Lemma e4_nonneg : 0 <= e4.
  Proof using Hp. clear Ha Hb Hmod4. apply Z.div_pos; lia. Qed.

  Lemma y_from_x_ok x : inF p x = true ->
    y_from_x p a b x = Ok (fpow p (rhs p a b x) e4, neg (fpow p (rhs p a b x) e4)).
  Proof using Hp Ha Hb Hmod4.
    intros Hx. unfold y_from_x. rewrite (curve_rhs_ok p a b Hp Ha Hb) by auto. cbn [bind].
    unfold sqrt_mod_p. rewrite (add_ok p) by (auto using inF_0, inF_rhs). cbn [bind].
    assert (E0 : fadd p 0 (rhs p a b x) = rhs p a b x).
    { unfold fadd. rewrite Z.add_0_l. apply Z.mod_small. apply inF_iff, inF_rhs. }
    rewrite E0, Hmod4. cbn [Z.eqb Pos.eqb].
    rewrite (pow_ok p) by (auto using inF_rhs, e4_nonneg). cbn [bind].
    rewrite (sub_ok p) by (auto using inF_0, inF_fpow with zarith). reflexivity.
  Qed.

  Lemma y_from_x_err x : inF p x = false -> y_from_x p a b x = Err ValueE.
  Proof. intros Hx. unfold y_from_x, curve_rhs, pow_mod_p. rewrite Hx. reflexivity. Qed.

  (* ---------- parity selection ---------- *)
  Definition parity_flag (y : Z) : bool := negb (y mod 2 =? 0).

  Lemma neg_parity y : 0 < y < p -> parity_flag (neg y) = negb (parity_flag y).
  Proof using Hp Hmod4.
    intros H. rewrite neg_pos by lia. pose proof p_odd as Po. unfold parity_flag.
    destruct (Z.eqb_spec ((p - y) mod 2) 0), (Z.eqb_spec (y mod 2) 0); cbn; auto; lia.
  Qed.

  Lemma pick_unfold odd w1 w2 :
    pick_parity odd (w1, w2) =
    if Bool.eqb (parity_flag w1) odd then Ok w1
    else if Bool.eqb (parity_flag w2) odd then Ok w2 else Err IndexE.
  Proof.
    unfold pick_parity, parity_flag. cbn [fst snd filter].
    destruct odd, (w1 mod 2 =? 0), (w2 mod 2 =? 0); reflexivity.
  Qed.

  Lemma pick_ok y w : 0 <= y < p -> w = y \/ w = neg y ->
    pick_parity (parity_flag y) (w, neg w) = Ok y.
  Proof using Hp Hmod4.
    intros Hy Hw. rewrite pick_unfold.
    destruct (Z.eq_dec y 0) as [->|N].
    - assert (w = 0) as -> by (destruct Hw as [->| ->]; [reflexivity|apply neg_0]).
      rewrite eqb_reflx. reflexivity.
    - destruct Hw as [-> | ->].
      + rewrite eqb_reflx. reflexivity.
      + rewrite neg_neg by lia. rewrite neg_parity by lia.
        destruct (parity_flag y); cbn; reflexivity.
  Qed.

  Lemma pick_inv odd w1 w2 y : pick_parity odd (w1, w2) = Ok y ->
    (y = w1 \/ y = w2) /\ parity_flag y = odd.
  Proof.
    rewrite pick_unfold.
    destruct (Bool.eqb (parity_flag w1) odd) eqn:E1.
    - intros H; injection H as <-. apply eqb_prop in E1. auto.
    - destruct (Bool.eqb (parity_flag w2) odd) eqn:E2; [|discriminate].
      intros H; injection H as <-. apply eqb_prop in E2. auto.
  Qed.

  (* with a non-zero candidate the two candidates have different parities: the selection never fails *)
  Lemma pick_total odd w : 0 < w < p -> exists y, pick_parity odd (w, neg w) = Ok y.
  Proof using Hp Hmod4.
    intros Hw. rewrite pick_unfold, neg_parity by lia.
    destruct (parity_flag w), odd; cbn; eauto.
  Qed.

  (* ---------- normal forms of utils.point by length ---------- *)
  Definition after_y (x : Z) (ry : result Z) : result (Z * Z) :=
    bind ry (fun y => bind (point_is_on_curve p a b x y)
                           (fun ok => if ok then Ok (x, y) else Err AssertionE)).

  Lemma point_33 v payload : length payload = 32%nat ->
    sec1_point (v :: payload) =
    let x := of_be payload in
    after_y x (if b2z v =? 2 then bind (y_from_x p a b x) (pick_parity false)
               else if b2z v =? 3 then bind (y_from_x p a b x) (pick_parity true)
               else if b2z v =? 4 then Err AssertionE else Err ValueE).
  Proof.
    intros L. unfold Sec1.sec1_point. cbn [length]. rewrite L. cbn [Nat.eqb orb negb].
    rewrite firstn_all2 by lia. reflexivity.
  Qed.

  Lemma point_65 v payload : length payload = 64%nat ->
    sec1_point (v :: payload) =
    let x := of_be (firstn 32 payload) in
    after_y x (if b2z v =? 2 then Err AssertionE
               else if b2z v =? 3 then Err AssertionE
               else if b2z v =? 4 then Ok (of_be (skipn 32 payload)) else Err ValueE).
  Proof.
    intros L. unfold Sec1.sec1_point. cbn [length]. rewrite L. cbn [Nat.eqb orb negb]. reflexivity.
  Qed.

  Lemma point_badlen pk : length pk <> 33%nat -> length pk <> 65%nat -> sec1_point pk = Err AssertionE.
  Proof.
    intros H1 H2. unfold Sec1.sec1_point.
    destruct (Nat.eqb_spec (length pk) 33); [contradiction|].
    destruct (Nat.eqb_spec (length pk) 65); [contradiction|]. reflexivity.
  Qed.

  Lemma b2z_2 v : (b2z v =? 2) = true <-> v = x02.
  Proof. rewrite Z.eqb_eq. split; [intros H; apply b2z_inj; rewrite H; reflexivity | intros ->; reflexivity]. Qed.
  Lemma b2z_3 v : (b2z v =? 3) = true <-> v = x03.
  Proof. rewrite Z.eqb_eq. split; [intros H; apply b2z_inj; rewrite H; reflexivity | intros ->; reflexivity]. Qed.
  Lemma b2z_4 v : (b2z v =? 4) = true <-> v = x04.
  Proof. rewrite Z.eqb_eq. split; [intros H; apply b2z_inj; rewrite H; reflexivity | intros ->; reflexivity]. Qed.

  Definition prefix_of (y : Z) : byte := if y mod 2 =? 0 then x02 else x03.

  Lemma prefix_flag y : b2z (prefix_of y) = if parity_flag y then 3 else 2.
  Proof. unfold prefix_of, parity_flag. destruct (y mod 2 =? 0); reflexivity. Qed.

  (* compressed decoding of (x, y) with y a root of rhs x *)
  Lemma decode_compressed x y payload :
    (forall z, 0 <= z < p -> let w := fpow p (fmul p z z) e4 in w = z \/ w = neg z) ->
    length payload = 32%nat -> of_be payload = x ->
    inF p x = true -> inF p y = true -> fpow p y 2 = rhs p a b x ->
    sec1_point (prefix_of y :: payload) = Ok (x, y).
  Proof using Hp Ha Hb Hmod4.
    intros Root L Ex Hx Hy Hc. rewrite point_33 by exact L. cbv zeta. rewrite Ex.
    assert (Y : bind (y_from_x p a b x) (pick_parity (parity_flag y)) = Ok y).
    { rewrite y_from_x_ok by exact Hx. cbn [bind]. apply pick_ok; [apply inF_iff, Hy|].
      rewrite <- Hc, fpow2. apply Root. apply inF_iff, Hy. }
    rewrite prefix_flag. unfold after_y.
    destruct (parity_flag y) eqn:Pf; cbn [Z.eqb Pos.eqb]; rewrite Y; cbn [bind];
      rewrite (on_curve_ok p a b Hp Ha Hb) by auto; cbn [bind];
      rewrite Hc, Z.eqb_refl; reflexivity.
  Qed.

  Lemma decode_uncompressed X Y :
    length X = 32%nat -> length Y = 32%nat ->
    inF p (of_be X) = true -> inF p (of_be Y) = true -> fpow p (of_be Y) 2 = rhs p a b (of_be X) ->
    sec1_point (x04 :: X ++ Y) = Ok (of_be X, of_be Y).
  Proof using Hp Ha Hb.
    intros LX LY Hx Hy Hc. rewrite point_65 by (rewrite app_length; lia). cbv zeta.
    change (b2z x04) with 4. cbn [Z.eqb Pos.eqb].
    rewrite <- LX at 1 2. rewrite firstn_app, Nat.sub_diag, firstn_all. cbn [firstn]. rewrite app_nil_r.
    rewrite skipn_app, Nat.sub_diag, skipn_all. cbn [skipn app].
    unfold after_y. cbn [bind]. rewrite (on_curve_ok p a b Hp Ha Hb) by auto. cbn [bind].
    rewrite Hc, Z.eqb_refl. reflexivity.
  Qed.

  (* ---------- soundness: what an accepted string looks like (no square-root facts needed) ---------- *)
  Theorem sec1_point_sound pk x y : sec1_point pk = Ok (x, y) ->
    oncurve p a b (Some (x, y)) /\
    (pk = prefix_of y :: to_be 32 x \/ pk = x04 :: to_be 32 x ++ to_be 32 y).
  Proof using Hp Ha Hb Hmod4.
    intros H.
    destruct (Nat.eq_dec (length pk) 33) as [L33|N33]; [|destruct (Nat.eq_dec (length pk) 65) as [L65|N65]].
    - destruct pk as [|v payload]; [discriminate|]. cbn [length] in L33.
      assert (L : length payload = 32%nat) by lia. rewrite point_33 in H by exact L. cbv zeta in H.
      unfold after_y in H. apply bind_ok in H as (y0 & Ey & H). apply bind_ok in H as (ok & Eo & H).
      destruct ok; [|discriminate]. injection H as Hx <-.
      apply on_curve_inv in Eo as (Ix & Iy & Eq). symmetry in Eq. apply Z.eqb_eq in Eq.
      subst x. split; [cbn; auto|]. left.
      assert (TB : to_be 32 (of_be payload) = payload).
      { pose proof (to_be_of_be payload) as T. rewrite L in T. exact T. }
      rewrite TB. f_equal.
      destruct (b2z v =? 2) eqn:E2.
      { apply bind_ok in Ey as (ys & _ & Ey). destruct ys as [w1 w2]. apply pick_inv in Ey as [_ Pf].
        apply b2z_2 in E2. subst v. unfold prefix_of. unfold parity_flag in Pf.
        destruct (y0 mod 2 =? 0); [reflexivity|discriminate]. }
      destruct (b2z v =? 3) eqn:E3.
      { apply bind_ok in Ey as (ys & _ & Ey). destruct ys as [w1 w2]. apply pick_inv in Ey as [_ Pf].
        apply b2z_3 in E3. subst v. unfold prefix_of. unfold parity_flag in Pf.
        destruct (y0 mod 2 =? 0); [discriminate|reflexivity]. }
      destruct (b2z v =? 4); discriminate.
    - destruct pk as [|v payload]; [discriminate|]. cbn [length] in L65.
      assert (L : length payload = 64%nat) by lia. rewrite point_65 in H by exact L. cbv zeta in H.
      assert (L1 : length (firstn 32 payload) = 32%nat) by (rewrite firstn_length; lia).
      assert (L2 : length (skipn 32 payload) = 32%nat) by (rewrite skipn_length; lia).
      pose proof (firstn_skipn 32 payload) as FS.
      remember (firstn 32 payload) as Xb eqn:EX. remember (skipn 32 payload) as Yb eqn:EY.
      unfold after_y in H. apply bind_ok in H as (y0 & Ey & H). apply bind_ok in H as (ok & Eo & H).
      destruct ok; [|discriminate]. injection H as Hx <-.
      apply on_curve_inv in Eo as (Ix & Iy & Eq). symmetry in Eq. apply Z.eqb_eq in Eq.
      subst x. split; [cbn; auto|]. right.
      destruct (b2z v =? 2); [discriminate|]. destruct (b2z v =? 3); [discriminate|].
      destruct (b2z v =? 4) eqn:E4; [|discriminate]. apply b2z_4 in E4. subst v.
      assert (y0 = of_be Yb) by congruence. subst y0.
      pose proof (to_be_of_be Xb) as T1. rewrite L1 in T1.
      pose proof (to_be_of_be Yb) as T2. rewrite L2 in T2.
      rewrite T1, T2, FS. reflexivity.
    - rewrite point_badlen in H by auto. discriminate.
  Qed.

  End WithMod4.

  (* ---------- field equation of the code vs the curve equation of the standard ---------- *)
  Lemma rhs_spec x : rhs p a b x = (x * x * x + a * x + b) mod p.
  Proof.
    unfold rhs, fadd, fmul, fpow. rewrite Zpow_mod_correct by lia.
    replace (x ^ 3) with (x * x * x) by ring. replace (x * a) with (a * x) by ring.
    rewrite (Z.add_mod (x * x * x + a * x) b p) by lia. rewrite (Z.add_mod (x * x * x) (a * x) p) by lia.
    rewrite (Z.add_mod (((x * x * x) mod p + (a * x) mod p) mod p) b p) by lia.
    rewrite Z.mod_mod by lia. reflexivity.
  Qed.

  Lemma curve_eq_iff x y : fpow p y 2 = rhs p a b x <-> Spec.Sec1.curve_eq p a b x y.
  Proof. unfold Spec.Sec1.curve_eq. rewrite fpow2, rhs_spec. unfold fmul. tauto. Qed.
End Sec1Proofs.

(* ================= the theorems of C14 (SEC1 part) ================= *)
Section Theorems.
  Variables p a b : Z.
  Hypothesis SQ : sqrt_facts p.
  Hypothesis Ha : inF p a = true.
  Hypothesis Hb : inF p b = true.
  Hypothesis Hw : p <= 2 ^ 256.

  Let Hp : 3 < p := sq_p p SQ.
  Let Hm : p mod 4 = 3 := sq_mod4 p SQ.

  Lemma to_be_chk_32 x : 0 <= x < p -> to_be_chk 32 x = Ok (to_be 32 x).
  Proof using Hw.
    clear Ha Hb. intros H. unfold to_be_chk. change (256 ^ Z.of_nat 32) with (2 ^ 256).
    destruct (Z.leb_spec 0 x); [|lia]. destruct (Z.ltb_spec x (2 ^ 256)); [|lia]. reflexivity.
  Qed.

  Lemma of_be_to_be_32 x : 0 <= x < p -> of_be (to_be 32 x) = x.
  Proof using Hw. clear Ha Hb. intros H. apply of_be_to_be. change (256 ^ Z.of_nat 32) with (2 ^ 256). lia. Qed.

  (* for every curve point, both encodings are produced without error, equal SEC1 2.3.3, and decode to the point *)
  Theorem sec1_roundtrip x y c : oncurve p a b (Some (x, y)) ->
    pubkey x y c = Ok (Spec.Sec1.encode c x y) /\
    sec1_point p a b (Spec.Sec1.encode c x y) = Ok (x, y).
  Proof using SQ Ha Hb Hw.
    intros (Ix & Iy & Hc). pose proof (proj1 (inF_iff p x) Ix) as Rx. pose proof (proj1 (inF_iff p y) Iy) as Ry.
    destruct c; unfold pubkey, Spec.Sec1.encode.
    - rewrite to_be_chk_32 by exact Rx. cbn [bind]. split; [reflexivity|].
      change (if y mod 2 =? 0 then x02 else x03) with (prefix_of y).
      apply decode_compressed; auto using to_be_length, of_be_to_be_32. apply (sq_root p SQ).
    - rewrite !to_be_chk_32 by assumption. cbn [bind]. split; [reflexivity|].
      rewrite <- (of_be_to_be_32 x Rx) at 2. rewrite <- (of_be_to_be_32 y Ry) at 2.
      apply decode_uncompressed; auto using to_be_length; rewrite !of_be_to_be_32 by assumption; auto.
  Qed.

  (* re-encoding an accepted string gives the same bytes *)
  Theorem sec1_reencode pk x y : sec1_point p a b pk = Ok (x, y) ->
    exists c, pubkey x y c = Ok pk.
  Proof using SQ Ha Hb Hw.
    intros H. destruct (sec1_point_sound p a b Hp Ha Hb Hm pk x y H) as [(Ix & Iy & _) [E|E]].
    - exists true. unfold pubkey. rewrite to_be_chk_32 by (now apply inF_iff). cbn [bind]. now rewrite E.
    - exists false. unfold pubkey. rewrite !to_be_chk_32 by (now apply inF_iff). cbn [bind]. now rewrite E.
  Qed.

  (* utils.point accepts EXACTLY the valid SEC1 encodings of Spec/Sec1.v and returns the point they denote *)
  Theorem sec1_accept_iff bs x y :
    sec1_point p a b bs = Ok (x, y) <-> Spec.Sec1.valid_encoding p a b bs x y.
  Proof using SQ Ha Hb Hw.
    split.
    - intros H. destruct (sec1_point_sound p a b Hp Ha Hb Hm bs x y H) as [(Ix & Iy & Hc) [E|E]].
      + left. exists (prefix_of y), (to_be 32 x). apply inF_iff in Ix, Iy.
        repeat split; auto using to_be_length; try lia.
        * unfold prefix_of. destruct (y mod 2 =? 0); auto.
        * symmetry. now apply of_be_to_be_32.
        * now apply curve_eq_iff.
        * unfold prefix_of. destruct (Z.eqb_spec (y mod 2) 0) as [E0|E0]; [rewrite E0; reflexivity|].
          change (b2z x03 - 2) with 1. pose proof (Z.mod_pos_bound y 2). lia.
      + right. exists (to_be 32 x), (to_be 32 y). apply inF_iff in Ix, Iy.
        repeat split; auto using to_be_length; try lia; try (symmetry; now apply of_be_to_be_32).
        now apply curve_eq_iff.
    - intros [(pre & X & -> & LX & Hpre & -> & Rx & Ry & Hc & Par) | (X & Y & -> & LX & LY & -> & -> & Rx & Ry & Hc)].
      + assert (pre = prefix_of y) as ->.
        { unfold prefix_of. destruct Hpre as [-> | ->].
          - change (b2z x02 - 2) with 0 in Par. rewrite Par. reflexivity.
          - change (b2z x03 - 2) with 1 in Par. rewrite Par. reflexivity. }
        apply decode_compressed; auto; try (now apply inF_iff); [apply (sq_root p SQ)|].
        now apply curve_eq_iff.
      + apply decode_uncompressed; auto; try (now apply inF_iff). now apply curve_eq_iff.
  Qed.

  (* x in range whose right-hand side has no square root (or whose root has the other parity only -- impossible):
     the candidate is not a root and the final on-curve assert rejects with AssertionError *)
  Theorem sec1_nonresidue_rejected v X :
    fpow p (rhs p a b (of_be X)) ((p + 1) / 4) <> 0 ->
    length X = 32%nat -> v = x02 \/ v = x03 -> 0 <= of_be X < p ->
    (forall y, 0 <= y < p -> fpow p y 2 <> rhs p a b (of_be X)) ->
    sec1_point p a b (v :: X) = Err AssertionE.
  Proof using SQ Ha Hb Hw.
    intros Nz LX Hv Rx NR. rewrite point_33 by exact LX. cbv zeta.
    assert (Ix : inF p (of_be X) = true) by now apply inF_iff.
    set (w := fpow p (rhs p a b (of_be X)) ((p + 1) / 4)) in *.
    assert (Rw : 0 < w < p).
    { assert (0 <= w < p) by (apply inF_iff; unfold w; apply inF_fpow; lia). lia. }
    assert (K : forall odd, after_y p a b (of_be X) (bind (y_from_x p a b (of_be X)) (pick_parity odd)) = Err AssertionE).
    { intros odd. rewrite (y_from_x_ok p a b Hp Ha Hb Hm) by exact Ix. cbn [bind]. fold w.
      destruct (pick_total p Hp Hm odd w Rw) as (y0 & Ey). rewrite Ey. unfold after_y. cbn [bind].
      apply pick_inv in Ey as [Hy0 _].
      assert (Iy : inF p y0 = true).
      { apply inF_iff. destruct Hy0 as [-> | ->]; [lia|apply neg_range; lia]. }
      rewrite (on_curve_ok p a b Hp Ha Hb) by auto. cbn [bind].
      destruct (Z.eqb_spec (fpow p y0 2) (rhs p a b (of_be X))) as [E|E]; [|reflexivity].
      exfalso. apply (NR y0); [now apply inF_iff|exact E]. }
    destruct Hv as [-> | ->].
    - change (b2z x02) with 2. cbn [Z.eqb Pos.eqb]. apply K.
    - change (b2z x03) with 3. cbn [Z.eqb Pos.eqb]. apply K.
  Qed.

  (* ---------- error classes: everything that is not accepted raises AssertionError or ValueError ---------- *)
  Hypothesis No2 : forall x, 0 <= x < p -> fpow p (rhs p a b x) ((p + 1) / 4) <> 0.

  Lemma after_y_class x ry :
    (forall e, ry = Err e -> e = AssertionE \/ e = ValueE) ->
    forall e, after_y p a b x ry = Err e -> e = AssertionE \/ e = ValueE.
  Proof using SQ Ha Hb.
    intros Hr e H. unfold after_y in H. destruct ry as [y|e0]; cbn [bind] in H.
    - destruct (point_is_on_curve p a b x y) as [[|]|e1] eqn:Eo; cbn [bind] in H; try discriminate.
      + injection H as <-. auto.
      + injection H as <-. apply (on_curve_err p a b Hp Ha Hb) in Eo as [-> _]. auto.
    - injection H as <-. apply Hr. reflexivity.
  Qed.

  Lemma select_class x odd e :
    bind (y_from_x p a b x) (pick_parity odd) = Err e -> e = ValueE.
  Proof using SQ Ha Hb No2.
    destruct (inF p x) eqn:Ix.
    - rewrite (y_from_x_ok p a b Hp Ha Hb Hm) by exact Ix. cbn [bind].
      set (w := fpow p (rhs p a b x) ((p + 1) / 4)).
      assert (Rw : 0 < w < p).
      { assert (0 <= w < p) by (apply inF_iff; unfold w; apply inF_fpow; lia).
        assert (w <> 0) by (apply No2; now apply inF_iff). lia. }
      destruct (pick_total p Hp Hm odd w Rw) as (y0 & ->). discriminate.
    - rewrite y_from_x_err by exact Ix. cbn [bind]. intros H. now injection H as <-.
  Qed.

  Theorem sec1_reject_class bs e : sec1_point p a b bs = Err e -> e = AssertionE \/ e = ValueE.
  Proof using SQ Ha Hb No2.
    destruct (Nat.eq_dec (length bs) 33) as [L33|N33]; [|destruct (Nat.eq_dec (length bs) 65) as [L65|N65]].
    - destruct bs as [|v payload]; [discriminate|]. cbn [length] in L33.
      rewrite point_33 by lia. cbv zeta. apply after_y_class. intros e0.
      destruct (b2z v =? 2); [intros H; right; eapply select_class; eauto|].
      destruct (b2z v =? 3); [intros H; right; eapply select_class; eauto|].
      destruct (b2z v =? 4); intros H; injection H as <-; auto.
    - destruct bs as [|v payload]; [discriminate|]. cbn [length] in L65.
      rewrite point_65 by lia. cbv zeta. apply after_y_class. intros e0.
      destruct (b2z v =? 2); [intros H; injection H as <-; auto|].
      destruct (b2z v =? 3); [intros H; injection H as <-; auto|].
      destruct (b2z v =? 4); [discriminate|]. intros H; injection H as <-; auto.
    - rewrite point_badlen by auto. intros H; injection H as <-; auto.
  Qed.

  (* is_point is total and decides validity of the encoding *)
  Theorem is_point_total bs :
    exists r, is_point p a b bs = Ok r /\ (r = true <-> exists x y, Spec.Sec1.valid_encoding p a b bs x y).
  Proof using SQ Ha Hb Hw No2.
    unfold is_point. destruct (sec1_point p a b bs) as [[x y]|e] eqn:E.
    - exists true. split; [reflexivity|]. split; [intros _; exists x, y; now apply sec1_accept_iff|auto].
    - assert (NV : ~ exists x y, Spec.Sec1.valid_encoding p a b bs x y).
      { intros (x & y & V). apply sec1_accept_iff in V. congruence. }
      destruct (sec1_reject_class bs e E) as [-> | ->]; exists false; (split; [reflexivity|]);
        (split; [discriminate|intros V; contradiction]).
  Qed.

  (* compressed_pubkey: identity on 02/03 strings of either admitted length, compression of a valid 04 string *)
  Theorem compressed_pubkey_04 X Y :
    Spec.Sec1.valid_encoding p a b (x04 :: X ++ Y) (of_be X) (of_be Y) -> length X = 32%nat -> length Y = 32%nat ->
    compressed_pubkey p a b (x04 :: X ++ Y) = Ok (Spec.Sec1.encode true (of_be X) (of_be Y)).
  Proof using SQ Ha Hb Hw.
    intros V LX LY. pose proof V as V'. apply sec1_accept_iff in V.
    unfold compressed_pubkey. cbn [length]. rewrite app_length, LX, LY. cbn [Nat.add Nat.eqb orb negb].
    change (b2z x04) with 4. cbn [Z.eqb Pos.eqb orb]. rewrite V. cbn [bind].
    unfold pubkey. rewrite to_be_chk_32; [reflexivity|].
    apply (sec1_point_sound p a b Hp Ha Hb Hm) in V as [(Ix & _) _]. now apply inF_iff.
  Qed.
End Theorems.
