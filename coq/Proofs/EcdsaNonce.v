(* Nonce clause of C01 and s-malleability of C02: what two signatures sharing r imply; (r, n-s) ~ (r, s).
   Uses two more explicit curve hypotheses (proved by computation on the small curves):
   points with the same x are equal or opposite; G generates the whole group. *)
From Coq Require Import ZArith List Bool Lia Zpow_facts Zdiv Setoid Morphisms.
Require Import Bits.Lib.Result Bits.Lib.Group Bits.Lib.ModArith Bits.Model.Ecmath Bits.Proofs.Ecmath
  Bits.Proofs.Ecdsa Bits.Proofs.EcdsaMore Bits.Proofs.SmallCurves.
Import ListNotations.
Local Open Scope Z_scope.

Record curve_facts_x (p a b n : Z) (G : point) : Prop := {
  cx_same_x : forall x y1 y2, oncurve p a b (Some (x, y1)) -> oncurve p a b (Some (x, y2)) ->
                              y2 = y1 \/ y2 = fsub p 0 y1;
  cx_gen : forall P, oncurve p a b P -> exists d, 0 <= d < n /\ P = smul p a d G;
}.

Section Check.
  Variables p a b n : Z.
  Variable G : point.
  Definition check_x : bool :=
    let pts := all_pts p a b in
    forallb (fun P => forallb (fun Q =>
      match P, Q with
      | Some (x1, y1), Some (x2, y2) => negb (x1 =? x2) || (y2 =? y1) || (y2 =? fsub p 0 y1)
      | _, _ => true
      end) pts) pts &&
    forallb (fun P => existsb (fun d => point_eqb P (smul p a d G)) (zrange n)) pts.

  Lemma check_x_sound : check_x = true -> curve_facts_x p a b n G.
  Proof.
    unfold check_x. rewrite andb_true_iff. intros [H1 H2].
    rewrite forallb_forall in H1, H2. constructor.
    - intros x y1 y2 O1 O2. apply (all_pts_complete p a b) in O1, O2.
      specialize (H1 _ O1). rewrite forallb_forall in H1. specialize (H1 _ O2). cbn in H1.
      rewrite Z.eqb_refl in H1. cbn [negb orb] in H1.
      apply orb_true_iff in H1 as [H1|H1]; apply Z.eqb_eq in H1; auto.
    - intros P OP. apply (all_pts_complete p a b) in OP. specialize (H2 _ OP).
      apply existsb_exists in H2 as (d & Hd & E). apply point_eqb_eq in E.
      exists d. split; [|exact E]. unfold zrange in Hd. apply in_map_iff in Hd as (k & <- & Hk).
      apply in_seq in Hk. lia.
  Qed.
End Check.

Theorem facts_x_43 : curve_facts_x 43 0 7 31 G43.
Proof. apply check_x_sound. vm_compute. reflexivity. Qed.

Section Nonce.
  Variables p a b n : Z.
  Variable G : point.
  Hypothesis CF : curve_facts p a b n G.
  Hypothesis CX : curve_facts_x p a b n G.
  Let CG := cf_group _ _ _ _ _ CF.
  Let HG := cf_G _ _ _ _ _ CF.
  Let Hn := cf_n _ _ _ _ _ CF.

  (* k -> k G is injective on [0, n) *)
  Lemma smul_inj k1 k2 : 0 <= k1 < n -> 0 <= k2 < n -> smul p a k1 G = smul p a k2 G -> k1 = k2.
  Proof.
    assert (W : forall j k, 0 <= j <= k -> k < n -> smul p a j G = smul p a k G -> j = k).
    { intros j k Hjk Hk E.
      replace k with (j + (k - j)) in E by lia.
      rewrite (smul_add p a b CG) in E by (auto; lia).
      assert (Vj : oncurve p a b (smul p a j G)) by (apply (smul_oncurve p a b CG); auto; lia).
      assert (Vd : oncurve p a b (smul p a (k - j) G)) by (apply (smul_oncurve p a b CG); auto; lia).
      rewrite <- (g_id_r _ _ _ _ _ CG (smul p a j G)) in E at 1.
      apply (op_cancel_l _ _ _ _ _ CG) in E; auto; [|apply CG].
      destruct (Z.eq_dec (k - j) 0) as [Z0|NZ]; [lia|].
      exfalso. apply (cf_min _ _ _ _ _ CF (k - j)); [lia|]. now symmetry. }
    intros H1 H2 E. destruct (Z.le_ge_cases k1 k2); [apply W; auto; lia|].
    symmetry. apply W; auto; lia.
  Qed.

  (* two nonces whose points share the x coordinate are equal or opposite modulo n *)
  Theorem same_x_nonces k1 k2 x y1 y2 : 0 < k1 < n -> 0 < k2 < n ->
    smul p a k1 G = Some (x, y1) -> smul p a k2 G = Some (x, y2) -> k2 = k1 \/ k2 = n - k1.
  Proof.
    intros H1 H2 E1 E2.
    assert (O1 : oncurve p a b (Some (x, y1))) by (rewrite <- E1; apply (smul_oncurve p a b CG); auto; lia).
    assert (O2 : oncurve p a b (Some (x, y2))) by (rewrite <- E2; apply (smul_oncurve p a b CG); auto; lia).
    destruct (cx_same_x _ _ _ _ _ CX x y1 y2 O1 O2) as [->| ->].
    - left. symmetry. apply smul_inj; try lia. congruence.
    - right. apply smul_inj; try lia.
      rewrite E2. replace (n - k1) with ((- k1) mod n).
      + rewrite (smul_neg p a b n G CF) by lia. rewrite E1. reflexivity.
      + rewrite Z.mod_opp_l_nz by (try lia; rewrite Z.mod_small by lia; lia).
        rewrite Z.mod_small by lia. reflexivity.
  Qed.

  (* C01: two signatures with the same r were made from draws whose points agree in x modulo n:
     r is a function of the random draw only - never of the key or the message *)
  Theorem r_collision_needs_repeat draws1 draws2 d1 d2 z1 z2 r s1 s2 rest1 rest2 :
    1 <= d1 < n -> 1 <= d2 < n ->
    sign_with p a n G draws1 d1 z1 = Ok (r, s1, rest1) ->
    sign_with p a n G draws2 d2 z2 = Ok (r, s2, rest2) ->
    exists k1 k2 x1 y1 x2 y2, In k1 draws1 /\ In k2 draws2 /\ 0 < k1 < n /\ 0 < k2 < n /\
      smul p a k1 G = Some (x1, y1) /\ smul p a k2 G = Some (x2, y2) /\
      x1 mod n = r /\ x2 mod n = r /\ (x1 = x2 -> k2 = k1 \/ k2 = n - k1).
  Proof.
    intros Hd1 Hd2 S1 S2.
    destruct (sign_sound p a b n G CF draws1 d1 z1 r s1 rest1 Hd1 S1) as (_ & _ & (k1 & I1 & K1 & x1 & y1 & E1 & R1)).
    destruct (sign_sound p a b n G CF draws2 d2 z2 r s2 rest2 Hd2 S2) as (_ & _ & (k2 & I2 & K2 & x2 & y2 & E2 & R2)).
    exists k1, k2, x1, y1, x2, y2.
    split; [exact I1|]. split; [exact I2|]. split; [exact K1|]. split; [exact K2|].
    split; [exact E1|]. split; [exact E2|]. split; [now symmetry|]. split; [now symmetry|].
    intros ->. eapply same_x_nonces; eauto.
  Qed.

  (* ---- malleability: (r, n - s) is accepted exactly when (r, s) is ---- *)
  Notation ninv := (fun s => Zpow_mod s (n - 2) n).
  Local Instance eqm_equiv' : Equivalence (eqm n) := eqm_setoid n.
  Local Instance add_eqm' : Proper (eqm n ==> eqm n ==> eqm n) Z.add := Zplus_eqm n.
  Local Instance mul_eqm' : Proper (eqm n ==> eqm n ==> eqm n) Z.mul := Zmult_eqm n.
  Local Instance opp_eqm' : Proper (eqm n ==> eqm n) Z.opp := Zopp_eqm n.

  Lemma inv_neg s : 0 < s < n -> eqm n (ninv (n - s)) (- ninv s).
  Proof.
    intros Hs.
    pose proof (eqm_inv n ltac:(lia) ninv (cf_inv_n _ _ _ _ _ CF) s Hs) as I1.
    pose proof (eqm_inv n ltac:(lia) ninv (cf_inv_n _ _ _ _ _ CF) (n - s) ltac:(lia)) as I2.
    cbv beta in I1, I2.
    transitivity (ninv (n - s) * (s * ninv s)); [rewrite I1; apply eq_eqm; ring|].
    transitivity (- ((n - s) * ninv (n - s)) * ninv s + n * (ninv (n - s) * ninv s)); [apply eq_eqm; ring|].
    rewrite I2.
    transitivity (- ninv s + n * (ninv (n - s) * ninv s)); [apply eq_eqm; ring|].
    unfold eqm. rewrite (Z.mul_comm n), Z.mod_add by lia. reflexivity.
  Qed.

  Theorem malleated_s r s Q z : oncurve p a b Q -> 1 <= s < n ->
    spec_verify p a n G r (n - s) Q z = spec_verify p a n G r s Q z.
  Proof.
    intros HQ Hs. unfold spec_verify.
    replace ((1 <=? n - s) && (n - s <? n)) with ((1 <=? s) && (s <? n)).
    2:{ destruct (Z.leb_spec 1 s), (Z.ltb_spec s n), (Z.leb_spec 1 (n - s)), (Z.ltb_spec (n - s) n); try reflexivity; lia. }
    destruct ((1 <=? r) && (r <? n)); [|reflexivity].
    destruct ((1 <=? s) && (s <? n)); [|reflexivity]. cbn [andb].
    destruct (cx_gen _ _ _ _ _ CX Q HQ) as (d & Hd & ->).
    set (e := z mod n).
    assert (Rm : forall t, 0 <= t mod n) by (intros; apply Z.mod_pos_bound; lia).
    rewrite !(combine p a b n G CF) by (try apply Rm; lia).
    set (u := ((e * ninv s) mod n + (r * ninv s) mod n * d) mod n).
    assert (E : ((e * ninv (n - s)) mod n + (r * ninv (n - s)) mod n * d) mod n = (- u) mod n).
    { assert (N1 : 1 < n) by (clear - Hs; lia).
      apply (eqm_small n); try (apply Z.mod_pos_bound; lia).
      subst u. rewrite !(eqm_mod n N1). rewrite (inv_neg s ltac:(lia)).
      apply eq_eqm. ring. }
    cbv beta in E. rewrite E.
    rewrite (smul_neg p a b n G CF) by (subst u; auto).
    destruct (smul p a u G) as [[x y]|]; reflexivity.
  Qed.
End Nonce.
