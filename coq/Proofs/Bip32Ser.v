(* BIP32 extended-key serialisation: serialized_extended_key / deserialized_extended_key are inverse on the valid
   keys, and the deserialiser accepts EXACTLY the payloads the BIP declares valid (Spec.decodes). *)
From Coq Require Import ZArith List Bool Lia Zpow_facts.
Require Import Bits.Lib.Result Bits.Lib.Bytes Bits.Model.Ecmath Bits.Proofs.Ecmath Bits.Model.Keys Bits.Proofs.Keys
  Bits.Model.Base58 Bits.Proofs.Base58 Bits.Model.Sec1 Bits.Proofs.Sec1 Bits.Model.Bip32 Bits.Proofs.Bip32.
Require Bits.Spec.Bip32 Bits.Spec.Sec1.
Import ListNotations.
Import Coq.Init.Byte.
Local Open Scope Z_scope.

Module S := Bits.Spec.Bip32.

(* ---------- list slicing ---------- *)
Lemma firstn_app_len {A} k (x y : list A) : length x = k -> firstn k (x ++ y) = x.
Proof. intros <-. rewrite firstn_app, Nat.sub_diag, firstn_all. cbn [firstn]. apply app_nil_r. Qed.
Lemma skipn_app_len {A} k (x y : list A) : length x = k -> skipn k (x ++ y) = y.
Proof. intros <-. rewrite skipn_app, Nat.sub_diag, skipn_all. reflexivity. Qed.
Lemma slice_mid {A} (pre x post : list A) i j :
  length pre = i -> length x = (j - i)%nat -> slice i j (pre ++ x ++ post) = x.
Proof. intros Hi Hj. unfold slice. rewrite (skipn_app_len i) by exact Hi. now apply firstn_app_len. Qed.
Lemma skipn_skipn' {A} x y (l : list A) : skipn x (skipn y l) = skipn (y + x) l.
Proof.
  revert l. induction y as [|y IH]; intros l; [reflexivity|].
  destruct l as [|h t]; [now rewrite !skipn_nil|]. cbn [skipn Nat.add]. apply IH.
Qed.
Lemma skipn_slice {A} i j (l : list A) : (i <= j)%nat -> skipn i l = slice i j l ++ skipn j l.
Proof.
  intros H. unfold slice. rewrite <- (firstn_skipn (j - i) (skipn i l)) at 1. f_equal.
  rewrite skipn_skipn'. f_equal. lia.
Qed.
Lemma slice_length {A} i j (l : list A) : (j <= length l)%nat -> length (slice i j l) = (j - i)%nat.
Proof. intros H. unfold slice. rewrite firstn_length, skipn_length. lia. Qed.

Lemma payload_join (d : bytes) : length d = 78%nat ->
  d = firstn 4 d ++ slice 4 5 d ++ slice 5 9 d ++ slice 9 13 d ++ slice 13 45 d ++ skipn 45 d.
Proof.
  intros L. rewrite <- (firstn_skipn 4 d) at 1. f_equal.
  rewrite (skipn_slice 4 5) by lia. f_equal. rewrite (skipn_slice 5 9) by lia. f_equal.
  rewrite (skipn_slice 9 13) by lia. f_equal. now rewrite (skipn_slice 13 45) by lia.
Qed.

Lemma payload_split (v dp fp ch cc sk : bytes) :
  length v = 4%nat -> length dp = 1%nat -> length fp = 4%nat -> length ch = 4%nat -> length cc = 32%nat ->
  let d := v ++ dp ++ fp ++ ch ++ cc ++ sk in
  firstn 4 d = v /\ slice 4 5 d = dp /\ slice 5 9 d = fp /\ slice 9 13 d = ch /\ slice 13 45 d = cc /\ skipn 45 d = sk.
Proof.
  intros Lv Ld Lf Lc Lcc d. unfold d. repeat split.
  - now apply firstn_app_len.
  - now apply slice_mid.
  - replace (v ++ dp ++ fp ++ ch ++ cc ++ sk) with ((v ++ dp) ++ fp ++ (ch ++ cc ++ sk)) by now rewrite <- !app_assoc.
    apply slice_mid; [rewrite app_length; lia|exact Lf].
  - replace (v ++ dp ++ fp ++ ch ++ cc ++ sk) with ((v ++ dp ++ fp) ++ ch ++ (cc ++ sk)) by now rewrite <- !app_assoc.
    apply slice_mid; [rewrite !app_length; lia|exact Lc].
  - replace (v ++ dp ++ fp ++ ch ++ cc ++ sk) with ((v ++ dp ++ fp ++ ch) ++ cc ++ sk) by now rewrite <- !app_assoc.
    apply slice_mid; [rewrite !app_length; lia|exact Lcc].
  - replace (v ++ dp ++ fp ++ ch ++ cc ++ sk) with ((v ++ dp ++ fp ++ ch ++ cc) ++ sk) by now rewrite <- !app_assoc.
    apply skipn_app_len. rewrite !app_length. lia.
Qed.

(* ---------- versions ---------- *)
Lemma version_flags pub tn :
  is_public_version (S.vbytes pub tn) = pub /\ is_private_version (S.vbytes pub tn) = negb pub /\
  is_testnet_version (S.vbytes pub tn) = tn /\ known_version (S.vbytes pub tn) = true /\
  length (S.vbytes pub tn) = 4%nat.
Proof. destruct pub, tn; vm_compute; auto. Qed.

Lemma known_version_inv v : known_version v = true -> exists pub tn, v = S.vbytes pub tn.
Proof.
  unfold known_version, is_private_version, is_public_version. rewrite !orb_true_iff, !bytes_eqb_eq.
  intros [[->| ->]|[->| ->]]; [exists false, false|exists false, true|exists true, false|exists true, true]; reflexivity.
Qed.

Lemma to_be_1 z : to_be 1 z = [z2b z].
Proof. reflexivity. Qed.
Lemma of_be_1 c : of_be [c] = b2z c.
Proof. unfold of_be. cbn [fold_left]. lia. Qed.
Lemma b2z_0 c : b2z c = 0 -> c = x00.
Proof. intros H. apply b2z_inj. rewrite H. reflexivity. Qed.
Lemma bytes_eqb_refl' x : bytes_eqb x x = true.
Proof. now apply bytes_eqb_eq. Qed.
Lemma bytes_eqb_neq x y : x <> y -> bytes_eqb x y = false.
Proof. intros H. destruct (bytes_eqb x y) eqn:E; [apply bytes_eqb_eq in E; contradiction|reflexivity]. Qed.

(* the model's representation of the deserialised fields of a structured key *)
Definition key_of (k : S.keyt) : xk := match k with S.Prv k => KPriv k | S.Pub K => KPub K end.
Definition fields_of (X : S.xkey) : fields :=
  (S.vbytes (S.is_pub (S.xk_key X)) (S.xk_testnet X), [z2b (S.xk_depth X)], S.xk_fp X, S.ser32 (S.xk_child X),
   S.xk_cc X, key_of (S.xk_key X)).

Section Ser.
  Variables p a b n : Z.
  Hypothesis SQ : sqrt_facts p.
  Hypothesis Ha : inF p a = true.
  Hypothesis Hb : inF p b = true.
  Hypothesis Hwp : p <= 2 ^ 256.
  Hypothesis Hwn : n <= 2 ^ 256.
  Variable sha256 : bytes -> bytes.
  Hypothesis sha256_len : forall m, length (sha256 m) = 32%nat.

  Let Hp : 3 < p := sq_p p SQ.
  Let Hm : p mod 4 = 3 := sq_mod4 p SQ.

  Notation wf := (S.wf p a b n).
  Notation decodes := (S.decodes p a b n).
  Definition enc (X : S.xkey) : bytes := base58check sha256 (S.serialize X).

  Lemma on_curve_iff x y : S.on_curve p a b (Some (x, y)) <-> oncurve p a b (Some (x, y)).
  Proof.
    cbn [S.on_curve oncurve]. rewrite !(inF_iff p), (curve_eq_iff p a b Hp). unfold Bits.Spec.Sec1.curve_eq. tauto.
  Qed.

  Lemma serP_encode x y : S.serP (Some (x, y)) = Bits.Spec.Sec1.encode true x y.
  Proof. cbn [S.serP Bits.Spec.Sec1.encode]. rewrite even_mod2. reflexivity. Qed.

  Lemma ser_key_length k : S.key_valid p a b n k -> length (S.ser_key k) = 33%nat.
  Proof.
    destruct k as [k|[[x y]|]]; cbn [S.key_valid S.ser_key S.on_curve]; intros H; try contradiction.
    - cbn [length]. unfold S.ser256. now rewrite to_be_length.
    - cbn [S.serP length]. unfold S.ser256. now rewrite to_be_length.
  Qed.

  (* ---------- the payload parser on a serialised valid key ---------- *)
  Lemma payload_of_serialize X : wf X -> xkey_of_payload p a b n (S.serialize X) = Ok (fields_of X).
  Proof.
    intros (Hd & Lfp & Hch & Lcc & Hk & H0).
    destruct X as [tn depth fp child cc key]. cbn [S.xk_testnet S.xk_depth S.xk_fp S.xk_child S.xk_cc S.xk_key] in *.
    unfold fields_of, S.serialize. cbn [S.xk_testnet S.xk_depth S.xk_fp S.xk_child S.xk_cc S.xk_key].
    set (pub := S.is_pub key).
    destruct (version_flags pub tn) as (Vp & Vr & Vt & Vk & Lv).
    assert (Lch : length (S.ser32 child) = 4%nat) by (unfold S.ser32; apply to_be_length).
    assert (Lsk := ser_key_length key Hk).
    destruct (payload_split (S.vbytes pub tn) [z2b depth] fp (S.ser32 child) cc (S.ser_key key) Lv eq_refl Lfp Lch Lcc)
      as (E1 & E2 & E3 & E4 & E5 & E6).
    unfold xkey_of_payload.
    assert (L78 : length (S.vbytes pub tn ++ [z2b depth] ++ fp ++ S.ser32 child ++ cc ++ S.ser_key key) = 78%nat).
    { rewrite !app_length, Lv, Lfp, Lch, Lcc, Lsk. reflexivity. }
    rewrite L78. cbn [Nat.eqb negb]. rewrite E1, E2, E3, E4, E5, E6, Vk, Vp. cbn [negb].
    (* depth-0 rules *)
    assert (D : bytes_eqb [z2b depth] [x00] && negb (bytes_eqb fp S.zero4) = false /\
                bytes_eqb [z2b depth] [x00] && negb (bytes_eqb (S.ser32 child) S.zero4) = false).
    { destruct (Z.eq_dec depth 0) as [Z0|NZ].
      - destruct (H0 Z0) as [-> ->]. split; rewrite andb_false_iff; right; reflexivity.
      - assert (bytes_eqb [z2b depth] [x00] = false) as ->.
        { apply bytes_eqb_neq. intros E. injection E as E. apply NZ.
          rewrite <- (b2z_z2b depth) by lia. rewrite E. reflexivity. }
        auto. }
    destruct D as [-> ->].
    destruct key as [k|[[x y]|]]; cbn [S.key_valid S.on_curve] in Hk; try contradiction; unfold pub; cbn [S.is_pub S.ser_key key_of].
    - (* private *)
      cbn [firstn skipn]. replace (bytes_eqb [x00] [x02] || bytes_eqb [x00] [x03]) with false by reflexivity.
      rewrite bytes_eqb_refl'. cbn [negb].
      assert (PK : privkey_int n (S.ser256 k) = Ok k).
      { apply privkey_int_iff. unfold S.ser256. rewrite to_be_length, of_be_to_be by (change (256 ^ Z.of_nat 32) with (2 ^ 256); lia).
        repeat split; lia. }
      rewrite PK. reflexivity.
    - (* public *)
      rewrite serP_encode.
      assert (OC : oncurve p a b (Some (x, y))) by now apply on_curve_iff.
      destruct (sec1_roundtrip p a b SQ Ha Hb Hwp x y true OC) as [_ RT]. rewrite RT. cbn [bind].
      unfold Bits.Spec.Sec1.encode. cbn [firstn].
      destruct (y mod 2 =? 0); reflexivity.
  Qed.

  (* ---------- what an accepted payload looks like ---------- *)
  Lemma payload_sound d f : xkey_of_payload p a b n d = Ok f -> exists X, decodes d X /\ f = fields_of X.
  Proof.
    intros H. unfold xkey_of_payload in H.
    destruct (Nat.eqb_spec (length d) 78) as [L|L]; cbn [negb] in H; [|discriminate].
    destruct (known_version (firstn 4 d)) eqn:KV; cbn [negb] in H; [|discriminate].
    destruct (known_version_inv _ KV) as (pub & tn & EV).
    pose proof (payload_join d L) as J.
    remember (slice 4 5 d) as dp eqn:Edp. remember (slice 5 9 d) as fp eqn:Efp.
    remember (slice 9 13 d) as ch eqn:Ech. remember (slice 13 45 d) as cc eqn:Ecc.
    remember (skipn 45 d) as sk eqn:Esk.
    assert (Ldp : length dp = 1%nat) by (subst dp; rewrite slice_length; lia).
    assert (Lfp : length fp = 4%nat) by (subst fp; rewrite slice_length; lia).
    assert (Lch : length ch = 4%nat) by (subst ch; rewrite slice_length; lia).
    assert (Lcc : length cc = 32%nat) by (subst cc; rewrite slice_length; lia).
    assert (Lsk : length sk = 33%nat) by (subst sk; rewrite skipn_length; lia).
    destruct dp as [|c [|? ?]]; try discriminate. clear Ldp.
    destruct (bytes_eqb [c] [x00] && negb (bytes_eqb fp S.zero4)) eqn:C1; [discriminate|].
    destruct (bytes_eqb [c] [x00] && negb (bytes_eqb ch S.zero4)) eqn:C2; [discriminate|].
    rewrite EV in H. destruct (version_flags pub tn) as (Vp & _). rewrite Vp in H.
    assert (Zero : b2z c = 0 -> fp = S.zero4 /\ of_be ch = 0).
    { intros Z0. apply b2z_0 in Z0. rewrite Z0 in C1, C2. rewrite bytes_eqb_refl' in C1, C2. cbn [andb] in C1, C2.
      apply negb_false_iff, bytes_eqb_eq in C1. apply negb_false_iff, bytes_eqb_eq in C2.
      rewrite C1, C2. split; reflexivity. }
    assert (Rch : 0 <= of_be ch < 2 ^ 32).
    { split; [apply of_be_nonneg|]. pose proof (of_be_bound ch) as B. rewrite Lch in B. exact B. }
    assert (Sch : S.ser32 (of_be ch) = ch).
    { unfold S.ser32. pose proof (to_be_of_be ch) as T. rewrite Lch in T. exact T. }
    destruct pub.
    - (* public *)
      destruct (bytes_eqb (firstn 1 sk) [x00]); [discriminate|].
      destruct (bytes_eqb (firstn 1 sk) [x02] || bytes_eqb (firstn 1 sk) [x03]); cbn [negb] in H; [|discriminate].
      destruct (sec1_point p a b sk) as [[x y]|e] eqn:SP; cbn [bind] in H; [|discriminate].
      injection H as <-.
      destruct (sec1_point_sound p a b Hp Ha Hb Hm sk x y SP) as [OC [E|E]].
      2:{ exfalso. rewrite E in Lsk. cbn [length] in Lsk. rewrite app_length, !to_be_length in Lsk. lia. }
      exists {| S.xk_testnet := tn; S.xk_depth := b2z c; S.xk_fp := fp; S.xk_child := of_be ch; S.xk_cc := cc;
                S.xk_key := S.Pub (Some (x, y)) |}.
      split; [split|].
      + unfold S.serialize. cbn [S.xk_testnet S.xk_depth S.xk_fp S.xk_child S.xk_cc S.xk_key S.is_pub S.ser_key].
        rewrite z2b_b2z, Sch, serP_encode. unfold Bits.Spec.Sec1.encode. fold (prefix_of y). rewrite <- E, <- EV. exact J.
      + unfold S.wf. cbn [S.xk_testnet S.xk_depth S.xk_fp S.xk_child S.xk_cc S.xk_key S.key_valid].
        pose proof (b2z_range c). split; [lia|]. split; [exact Lfp|]. split; [exact Rch|]. split; [exact Lcc|].
        split; [now apply on_curve_iff|exact Zero].
      + unfold fields_of. cbn [S.xk_testnet S.xk_depth S.xk_fp S.xk_child S.xk_cc S.xk_key S.is_pub key_of].
        rewrite z2b_b2z, Sch. reflexivity.
    - (* private *)
      destruct (bytes_eqb (firstn 1 sk) [x02] || bytes_eqb (firstn 1 sk) [x03]); [discriminate|].
      destruct (bytes_eqb (firstn 1 sk) [x00]) eqn:P0; cbn [negb] in H; [|discriminate].
      destruct (privkey_int n (skipn 1 sk)) as [k|e] eqn:PK; cbn [bind] in H; [|discriminate].
      injection H as <-.
      apply privkey_int_iff in PK as (Lk & Rk & ->).
      destruct sk as [|s0 kb]; [discriminate|]. cbn [firstn skipn] in *.
      apply bytes_eqb_eq in P0. injection P0 as ->.
      assert (Skb : S.ser256 (of_be kb) = kb).
      { unfold S.ser256. pose proof (to_be_of_be kb) as T. rewrite Lk in T. exact T. }
      exists {| S.xk_testnet := tn; S.xk_depth := b2z c; S.xk_fp := fp; S.xk_child := of_be ch; S.xk_cc := cc;
                S.xk_key := S.Prv (of_be kb) |}.
      split; [split|].
      + unfold S.serialize. cbn [S.xk_testnet S.xk_depth S.xk_fp S.xk_child S.xk_cc S.xk_key S.is_pub S.ser_key].
        rewrite z2b_b2z, Sch, Skb, <- EV. exact J.
      + unfold S.wf. cbn [S.xk_testnet S.xk_depth S.xk_fp S.xk_child S.xk_cc S.xk_key S.key_valid].
        pose proof (b2z_range c). split; [lia|]. split; [exact Lfp|]. split; [exact Rch|]. split; [exact Lcc|].
        split; [lia|exact Zero].
      + unfold fields_of. cbn [S.xk_testnet S.xk_depth S.xk_fp S.xk_child S.xk_cc S.xk_key S.is_pub key_of].
        rewrite z2b_b2z, Sch. reflexivity.
  Qed.

  (* the payload level of C09 xkey_accept_iff *)
  Theorem payload_accept_iff d f :
    xkey_of_payload p a b n d = Ok f <-> exists X, decodes d X /\ f = fields_of X.
  Proof.
    split; [apply payload_sound|]. intros (X & (-> & W) & ->). now apply payload_of_serialize.
  Qed.

  (* a Base58Check string that decodes is the encoding of its payload *)
  Lemma b58check_decode_inv s d : base58check_decode sha256 s = Ok d -> s = base58check sha256 d.
  Proof.
    intros H. apply (b58check_accept_iff sha256 sha256_len) in H as (r & D & L4 & -> & CK).
    apply b58_encode_decode in D. unfold base58check. rewrite <- CK. unfold droplast, lastn.
    rewrite firstn_skipn. now symmetry.
  Qed.

  (* C09 xkey_accept_iff: deserialized_extended_key accepts a string iff its Base58Check payload (checksum valid)
     is a valid serialised extended key in the sense of the BIP, and returns that key's fields *)
  Theorem xkey_accept_iff s f :
    deserialized_extended_key p a b n sha256 s = Ok f <->
    exists d X, base58check_decode sha256 s = Ok d /\ decodes d X /\ f = fields_of X.
  Proof.
    unfold deserialized_extended_key. split.
    - intros H. apply bind_ok in H as (d & D & P). apply payload_sound in P as (X & DX & ->). eauto.
    - intros (d & X & D & DX & ->). rewrite D. cbn [bind]. apply payload_accept_iff. eauto.
  Qed.

  Corollary deser_enc X : wf X -> deserialized_extended_key p a b n sha256 (enc X) = Ok (fields_of X).
  Proof.
    intros W. unfold deserialized_extended_key, enc. rewrite (b58check_roundtrip sha256 sha256_len). cbn [bind].
    now apply payload_of_serialize.
  Qed.

  Corollary deser_inv s f : deserialized_extended_key p a b n sha256 s = Ok f ->
    exists X, wf X /\ s = enc X /\ f = fields_of X.
  Proof.
    intros H. apply xkey_accept_iff in H as (d & X & D & (-> & W) & ->).
    exists X. split; [exact W|]. split; [|reflexivity]. now apply b58check_decode_inv.
  Qed.

  (* ---------- the serialiser on valid field tuples (bytes or ints for depth / child number) ---------- *)
  Lemma ser_enc X : wf X -> forall dep chn,
    dep = AsBytes [z2b (S.xk_depth X)] \/ dep = AsInt (S.xk_depth X) ->
    chn = AsBytes (S.ser32 (S.xk_child X)) \/ chn = AsInt (S.xk_child X) ->
    serialized_extended_key sha256 (key_of (S.xk_key X)) (S.xk_cc X) dep (S.xk_fp X) chn (S.xk_testnet X) = Ok (enc X).
  Proof.
    intros (Hd & Lfp & Hch & Lcc & Hk & H0) dep chn Hdep Hchn.
    destruct X as [tn depth fp child cc key]. cbn [S.xk_testnet S.xk_depth S.xk_fp S.xk_child S.xk_cc S.xk_key] in *.
    unfold serialized_extended_key, enc, S.serialize. cbn [S.xk_testnet S.xk_depth S.xk_fp S.xk_child S.xk_cc S.xk_key].
    assert (Edep : match dep with AsBytes d => Ok d | AsInt z => to_be_chk 1 z end = Ok [z2b depth]).
    { destruct Hdep as [-> | ->]; [reflexivity|]. rewrite to_be_chk_ok by (change (256 ^ Z.of_nat 1) with 256; lia). reflexivity. }
    assert (Echn : match chn with AsBytes c => Ok c | AsInt z => to_be_chk 4 z end = Ok (S.ser32 child)).
    { destruct Hchn as [-> | ->]; [reflexivity|]. apply ser_32_ok. exact Hch. }
    destruct key as [k|[[x y]|]]; cbn [S.key_valid S.on_curve] in Hk; try contradiction; cbn [key_of S.is_pub S.ser_key].
    - rewrite ser_256_ok by lia. cbn [bind fst snd]. rewrite Edep, Echn. cbn [bind]. destruct tn; reflexivity.
    - assert (OC : oncurve p a b (Some (x, y))) by now apply on_curve_iff.
      unfold pubkey_compressed. destruct (sec1_roundtrip p a b SQ Ha Hb Hwp x y true OC) as [PK _]. rewrite PK.
      cbn [bind fst snd]. rewrite Edep, Echn. cbn [bind]. rewrite serP_encode. destruct tn; reflexivity.
  Qed.

  (* C09 xkey_roundtrip: for every VALID field tuple, deserialising the serialisation returns the fields *)
  Theorem xkey_roundtrip X : wf X -> forall dep chn,
    dep = AsBytes [z2b (S.xk_depth X)] \/ dep = AsInt (S.xk_depth X) ->
    chn = AsBytes (S.ser32 (S.xk_child X)) \/ chn = AsInt (S.xk_child X) ->
    bind (serialized_extended_key sha256 (key_of (S.xk_key X)) (S.xk_cc X) dep (S.xk_fp X) chn (S.xk_testnet X))
         (deserialized_extended_key p a b n sha256) = Ok (fields_of X).
  Proof.
    intros W dep chn Hd Hc. rewrite (ser_enc X W dep chn Hd Hc). cbn [bind]. now apply deser_enc.
  Qed.

  (* the serialisation has the BIP's layout and length *)
  Lemma serialize_length X : wf X -> length (S.serialize X) = 78%nat.
  Proof.
    intros (Hd & Lfp & Hch & Lcc & Hk & H0). unfold S.serialize.
    destruct (version_flags (S.is_pub (S.xk_key X)) (S.xk_testnet X)) as (_ & _ & _ & _ & Lv).
    rewrite !app_length, Lv, Lfp, Lcc, (ser_key_length _ Hk). unfold S.ser32. rewrite to_be_length. reflexivity.
  Qed.

  (* rejections: every error of the deserialiser is one of the classes the code raises *)
  Theorem xkey_reject_kinds s e :
    (forall x, 0 <= x < p -> fpow p (rhs p a b x) ((p + 1) / 4) <> 0) ->
    deserialized_extended_key p a b n sha256 s = Err e -> e = KeyE \/ e = ValueE \/ e = AssertionE.
  Proof.
    intros No2 H. unfold deserialized_extended_key in H.
    destruct (base58check_decode sha256 s) as [d|e0] eqn:D; cbn [bind] in H.
    2:{ injection H as <-. destruct (b58check_reject_kinds sha256 s e0 D) as [-> | ->]; auto. }
    unfold xkey_of_payload in H.
    destruct (negb (Nat.eqb (length d) 78)); [injection H as <-; auto|].
    destruct (negb (known_version (firstn 4 d))); [injection H as <-; auto|].
    destruct (_ && _); [injection H as <-; auto|].
    destruct (_ && _); [injection H as <-; auto|].
    destruct (is_public_version (firstn 4 d)).
    - destruct (bytes_eqb _ _); [injection H as <-; auto|].
      destruct (negb _); [injection H as <-; auto|].
      destruct (sec1_point p a b (skipn 45 d)) as [xy|e1] eqn:SP; cbn [bind] in H; [discriminate|].
      injection H as <-. destruct (sec1_reject_class p a b SQ Ha Hb No2 _ _ SP) as [-> | ->]; auto.
    - destruct (_ || _); [injection H as <-; auto|].
      destruct (negb _); [injection H as <-; auto|].
      destruct (privkey_int n (skipn 1 (skipn 45 d))) as [k|e1] eqn:PK; cbn [bind] in H; [discriminate|].
      injection H as <-. rewrite (privkey_int_err _ _ _ PK). auto.
  Qed.
End Ser.
