(* The witness-stack clause of C13, derived from the witness codec proofs of Proofs/Witness.v (C05):
   the serialisation is CompactSize(count) followed by CompactSize(len) ++ item for each item. *)
From Coq Require Import ZArith List Lia Bool.
Require Import Bits.Lib.Result Bits.Lib.Bytes Bits.Lib.CompactSize.
Require Import Bits.Model.CompactSize Bits.Model.Witness Bits.Proofs.CompactSize Bits.Proofs.Witness.
Import ListNotations.
Local Open Scope Z_scope.

(* the reference layout (BIP144 / developer reference), built from the SPEC encoder cs_enc *)
Definition spec_witness_item (d : bytes) : bytes := cs_enc (Z.of_nat (length d)) ++ d.
Definition spec_witness (items : list bytes) : bytes :=
  cs_enc (Z.of_nat (length items)) ++ concat (map spec_witness_item items).

Lemma witness_items_ser_format items : forall body, witness_items_ser items = Ok body ->
  body = concat (map spec_witness_item items).
Proof.
  induction items as [|d ds IH]; intros body H.
  - cbn in H. injection H as <-. reflexivity.
  - apply witness_items_ser_cons in H as (b & Hb & _ & ->). cbn [map concat]. now rewrite (IH b Hb).
Qed.

Theorem witness_stack_codec items ser : witness_ser items = Ok ser ->
  ser = spec_witness items /\ forall rest, witness_deser (ser ++ rest) = Ok (items, rest).
Proof.
  intros H. split; [|now apply witness_stack_roundtrip].
  apply witness_ser_inv in H as (body & Hb & _ & ->). unfold spec_witness.
  now rewrite (witness_items_ser_format items body Hb).
Qed.
