(* The transaction model against the formats of the standards (Spec/Tx.v), and the C04/C05 theorems. *)
From Coq Require Import ZArith List Lia Bool.
Require Import Bits.Lib.Result Bits.Lib.Bytes Bits.Lib.CompactSize Bits.Spec.Tx.
Require Import Bits.Model.CompactSize Bits.Model.Witness Bits.Model.Tx.
Require Import Bits.Proofs.CompactSize Bits.Proofs.Witness Bits.Proofs.Tx.
Import ListNotations.
Import Coq.Init.Byte.
Local Open Scope Z_scope.

(* ---------------- the standard's serialisation of a structured transaction ---------------- *)
Definition spec_ins (t : tx_t) : list bytes :=
  map (fun i => spec_txin (ti_txid i) (ti_vout i) (ti_script i) (ti_seq i)) (tx_ins t).
Definition spec_outs (t : tx_t) : list bytes :=
  map (fun o => spec_txout (to_value o) (to_script o)) (tx_outs t).
(* BIP141 original format = what the txid commits to *)
Definition spec_ser_original (t : tx_t) : bytes :=
  spec_tx_original (tx_version t) (spec_ins t) (spec_outs t) (tx_locktime t).
(* the complete serialisation = what the wtxid commits to *)
Definition spec_ser (t : tx_t) : bytes :=
  match tx_wits t with
  | None => spec_ser_original t
  | Some ws => spec_tx_witness (tx_version t) (spec_ins t) (spec_outs t) (map spec_witness_stack ws) (tx_locktime t)
  end.

Lemma witness_items_ser_spec items body : witness_items_ser items = Ok body ->
  body = concat (map spec_var_bytes items).
Proof.
  revert body. induction items as [|d ds IH]; intros body H.
  - injection H as <-. reflexivity.
  - apply witness_items_ser_cons in H as (b & Hb & _ & ->). cbn [map concat]. f_equal. now apply IH.
Qed.

Lemma witness_ser_spec items ser : witness_ser items = Ok ser -> ser = spec_witness_stack items.
Proof.
  intros H. apply witness_ser_inv in H as (body & Hb & _ & ->). unfold spec_witness_stack.
  f_equal. now apply witness_items_ser_spec.
Qed.

Lemma mapM_spec {A} (f : A -> result bytes) (g : A -> bytes) xs ys :
  (forall x y, f x = Ok y -> y = g x) -> mapM f xs = Ok ys -> ys = map g xs.
Proof.
  intros Hf. revert ys. induction xs as [|x xs IH]; intros ys H.
  - injection H as <-. reflexivity.
  - apply mapM_cons_inv in H as (y & ys' & Hy & H & ->). cbn [map]. f_equal; auto.
Qed.

Lemma txin_bytes_spec i : txin_bytes i = spec_txin (ti_txid i) (ti_vout i) (ti_script i) (ti_seq i).
Proof. unfold txin_bytes, spec_txin, spec_var_bytes. now rewrite <- !app_assoc. Qed.
Lemma txout_bytes_spec o : txout_bytes o = spec_txout (to_value o) (to_script o).
Proof. reflexivity. Qed.

Lemma tx_bytes_original v inss outss wss lt : tx_bytes false v inss outss wss lt = spec_tx_original v inss outss lt.
Proof. unfold tx_bytes, spec_tx_original, spec_vector. cbn [app]. now rewrite <- !app_assoc. Qed.
Lemma tx_bytes_witness v inss outss wss lt : tx_bytes true v inss outss wss lt = spec_tx_witness v inss outss wss lt.
Proof. unfold tx_bytes, spec_tx_witness, spec_vector. cbn [app]. now rewrite <- !app_assoc. Qed.

(* REF: on well-formed transactions the code's serialiser produces exactly the standard's formats *)
Theorem tx_ser_is_spec t : wf_tx t ->
  tx_ser t = Ok (spec_ser t) /\ tx_ser_nowit t = Ok (spec_ser_original t).
Proof.
  intros Wf. destruct (tx_ser_wf t Wf) as (inss & outss & wss & Hi & Ho & Hw & E & NW).
  assert (Ei : inss = spec_ins t).
  { apply (mapM_spec txin_ser _ _ _ (fun x y H => eq_trans (proj2 (proj2 (txin_ser_inv x y H))) (txin_bytes_spec x)) Hi). }
  assert (Eo : outss = spec_outs t).
  { apply (mapM_spec txout_ser _ _ _ (fun x y H => proj2 (proj2 (txout_ser_inv x y H))) Ho). }
  subst inss outss. rewrite E, NW. unfold spec_ser, spec_ser_original.
  split; [|now rewrite tx_bytes_original].
  destruct (tx_wits t) as [ws|].
  - rewrite tx_bytes_witness. do 2 f_equal. apply (mapM_spec witness_ser _ _ _ witness_ser_spec Hw).
  - now rewrite tx_bytes_original.
Qed.

Section Ids.
  Variable sha256 : bytes -> bytes.

  (* C05: deserialising the serialisation returns exactly the fields and exactly the trailing bytes *)
  Theorem tx_roundtrip_fields t bs : wf_tx t -> tx_ser t = Ok bs ->
    forall rest, exists d, tx_deser sha256 (bs ++ rest) = Ok (d, rest) /\ p_tx d = t.
  Proof.
    intros Wf H rest. destruct (tx_roundtrip sha256 t bs Wf H rest) as (nw & _ & D).
    eexists. split; [exact D|reflexivity].
  Qed.

  (* C05: serialising the parsed fields again reproduces the original bytes *)
  Theorem tx_reserialise t bs : wf_tx t -> tx_ser t = Ok bs ->
    forall rest d rest', tx_deser sha256 (bs ++ rest) = Ok (d, rest') -> tx_ser (p_tx d) = Ok bs /\ rest' = rest.
  Proof.
    intros Wf H rest d rest' D. destruct (tx_roundtrip sha256 t bs Wf H rest) as (nw & _ & D').
    rewrite D' in D. injection D as <- <-. auto.
  Qed.

  (* C04: the reported identifiers are the consensus identifiers, whatever follows the transaction *)
  Theorem txid_consensus t : wf_tx t -> forall rest,
    exists d, tx_deser sha256 (spec_ser t ++ rest) = Ok (d, rest) /\
      p_txid d = hash256 sha256 (spec_ser_original t) /\
      p_wtxid d = hash256 sha256 (spec_ser t) /\
      p_raw d = spec_ser t /\ p_tx d = t.
  Proof.
    intros Wf rest. destruct (tx_ser_is_spec t Wf) as (E & NW).
    destruct (tx_roundtrip sha256 t _ Wf E rest) as (nw & NW' & D).
    rewrite NW in NW'. injection NW' as <-. eexists. split; [exact D|]. repeat split.
  Qed.

  Theorem legacy_ids_equal t : wf_tx t -> tx_wits t = None -> forall rest d rest',
    tx_deser sha256 (spec_ser t ++ rest) = Ok (d, rest') -> p_txid d = p_wtxid d.
  Proof.
    intros Wf Hn rest d rest' D. destruct (txid_consensus t Wf rest) as (d' & D' & I1 & I2 & _).
    rewrite D' in D. injection D as <- <-. rewrite I1, I2. unfold spec_ser. now rewrite Hn.
  Qed.

  Theorem ids_independent_of_trailing t : wf_tx t -> forall rest1 rest2 d1 d2 r1 r2,
    tx_deser sha256 (spec_ser t ++ rest1) = Ok (d1, r1) ->
    tx_deser sha256 (spec_ser t ++ rest2) = Ok (d2, r2) ->
    d1 = d2 /\ r1 = rest1 /\ r2 = rest2.
  Proof.
    intros Wf rest1 rest2 d1 d2 r1 r2 D1 D2. destruct (tx_ser_is_spec t Wf) as (E & _).
    destruct (tx_roundtrip sha256 t _ Wf E rest1) as (nw & NW & D1').
    destruct (tx_roundtrip sha256 t _ Wf E rest2) as (nw2 & NW2 & D2').
    rewrite NW in NW2. injection NW2 as <-.
    rewrite D1' in D1. rewrite D2' in D2. injection D1 as <- <-. injection D2 as <- <-. auto.
  Qed.
End Ids.
