(* (p, n) = (79, 67): n < p like secp256k1.  ~0.3 million associativity triples by kernel computation. *)
From Coq Require Import ZArith List Bool Lia.
Require Import Bits.Lib.Result Bits.Model.Ecmath Bits.Proofs.Ecmath Bits.Proofs.Ecdsa Bits.Proofs.SmallCurves.
Import ListNotations.
Local Open Scope Z_scope.
Definition G79 : point := Eval vm_compute in hd None (tl (all_pts 79 0 7)).
Theorem facts_79 : curve_facts 79 0 7 67 G79.
Proof.
  apply check_facts_sound; [lia | lia | reflexivity | reflexivity | vm_compute; reflexivity | vm_compute; reflexivity].
Qed.
