(* Executable model of the ASN.1 part of src/bits/pem.py: parse_asn1 / parse_asn1_value / parse_oid and
   encode_parsed_asn1 / encode_parsed_asn1_val / encode_oid.  Definitions only; proofs in Proofs/Asn1.v.

   Python tree node:  [[tag, "Constructed"|"Primitive", class-name], length, value]
     tag    : TAG_MAP name or the bare 5-bit number  -> [tnum] (TAG_MAP is a bijection name <-> number, so the
              number alone is kept; 0x02 INTEGER, 0x03 BIT STRING, 0x04 OCTET STRING, 0x05 NULL,
              0x06 OBJECT IDENTIFIER, 0x0C UTF8String, 0x10 SEQUENCE (OF), 0x11 SET (OF))
     class  : TAG_CLASS_MAP name -> [tcls] 0..3 (Universal, Application, Context-specific, Private)
     length : the length OCTET as an int.  The code knows ONE-BYTE lengths only: the parser reads data[1]
              literally (0x81 means 129 bytes, there is no long form), the encoder writes
              length.to_bytes(1, "big") (OverflowError above 255) and writes the STORED length field,
              it never recomputes it from the content.
     value  : list of nodes | bytes | str (OID: "id-ecPublicKey", "id-ansip256k1" or the dotted string) *)
From Coq Require Import ZArith List Bool.
Require Import Bits.Lib.Result Bits.Lib.Bytes.
Import ListNotations.
Local Open Scope Z_scope.
Local Open Scope result_scope.

Record tag : Type := Tag { tnum : Z; tcons : bool; tcls : Z }.

(* the str produced by parse_oid after the two renamings; [Dotted l] is ".".join(str(n) for n in l) *)
Inductive oidv : Type := IdEcPublicKey | IdAnsip256k1 | Dotted (nodes : list Z).

Inductive node : Type := Node (t : tag) (len : Z) (v : value)
with value : Type := VList (l : list node) | VBytes (b : bytes) | VOid (o : oidv).

Definition T_INTEGER : Z := 2.
Definition T_BITSTRING : Z := 3.
Definition T_OCTETSTRING : Z := 4.
Definition T_OID : Z := 6.
Definition T_SEQUENCE : Z := 16.

Definition oid_ecPublicKey : list Z := [1; 2; 840; 10045; 2; 1].
Definition oid_ansip256k1 : list Z := [1; 3; 132; 0; 10].

Fixpoint listZ_eqb (a b : list Z) : bool :=
  match a, b with
  | [], [] => true
  | x :: a', y :: b' => (x =? y) && listZ_eqb a' b'
  | _, _ => false
  end.

(* ---------------- OID codec ---------------- *)

(* the while-loop of parse_oid after the first byte.  [mid] = inside a multi-byte VLQ group, [acc] = the
   7-bit groups read so far; data[i] past the end raises IndexError *)
Fixpoint oid_nodes (mid : bool) (acc : Z) (data : bytes) : result (list Z) :=
  match data with
  | [] => if mid then Err IndexE else Ok []
  | c :: rest =>
    let v := acc * 128 + b2z c mod 128 in
    if 128 <=? b2z c then oid_nodes true v rest
    else tl <- oid_nodes false 0 rest ;; Ok (v :: tl)
  end.

Definition parse_oid_nodes (data : bytes) : result (list Z) :=
  match data with
  | [] => Err IndexE                                   (* data[0] *)
  | c :: rest => tl <- oid_nodes false 0 rest ;; Ok (b2z c / 40 :: b2z c mod 40 :: tl)
  end.

(* the renaming done in parse_asn1_value *)
Definition name_oid (l : list Z) : oidv :=
  if listZ_eqb l oid_ecPublicKey then IdEcPublicKey
  else if listZ_eqb l oid_ansip256k1 then IdAnsip256k1 else Dotted l.

(* the renaming done in encode_parsed_asn1_val *)
Definition oid_nodes_of (o : oidv) : list Z :=
  match o with IdEcPublicKey => oid_ecPublicKey | IdAnsip256k1 => oid_ansip256k1 | Dotted l => l end.

Definition bit_length (z : Z) : Z := if z <=? 0 then 0 else Z.log2 z + 1.

(* multi-byte branch of encode_oid, AS WRITTEN: number_of_bytes = (bit_length + 8) // 8 seven-bit groups cut
   from format(node, "0{7*nb}b"); when bit_length > 7*nb (bit lengths 15, 22, 23, 29..31, ...) the string is
   longer than 7*nb and the low bits are silently dropped *)
Definition vlq_encode (nd : Z) : bytes :=
  let bl := bit_length nd in
  let nb := (bl + 8) / 8 in
  let L := Z.max bl (7 * nb) in
  map (fun i : nat =>
         let i := Z.of_nat i in
         z2b (Z.shiftr nd (L - 7 * (i + 1)) mod 128 + (if i <? nb - 1 then 128 else 0)))
      (seq 0 (Z.to_nat nb)).

Definition encode_oid_node (nd : Z) : result bytes :=
  if nd <? 128 then to_be_chk 1 nd else Ok (vlq_encode nd).

Fixpoint encode_oid_tail (l : list Z) : result bytes :=
  match l with
  | [] => Ok []
  | nd :: rest => h <- encode_oid_node nd ;; t <- encode_oid_tail rest ;; Ok (h ++ t)
  end.

Definition encode_oid (l : list Z) : result bytes :=
  match l with
  | n0 :: n1 :: rest =>
    h <- to_be_chk 1 (n0 * 40 + n1) ;; t <- encode_oid_tail rest ;; Ok (h ++ t)
  | _ => Err IndexE                                     (* nodes[1] *)
  end.

(* ---------------- parse_asn1 ---------------- *)

Definition tag_of_byte (c : byte) : tag :=
  Tag (b2z c mod 32) (32 <=? b2z c mod 64) (b2z c / 64).

(* parse_asn1 (the while loop) with parse_asn1_value inlined.  One unit of fuel per loop iteration and per
   nesting level; both consume at least two bytes, so fuel = length data always suffices
   (Proofs/Asn1.v: parse_asn1_fuel).  data[1] on a one-byte rest raises IndexError; value = data[2:2+length]
   is a SLICE, so a length octet that exceeds the available bytes silently truncates. *)
Fixpoint parse_asn1 (fuel : nat) (data : bytes) : result (list node) :=
  match data with
  | [] => Ok []
  | [_] => Err IndexE
  | tg :: ln :: rest =>
    match fuel with
    | O => Err FuelE
    | S f =>
      let t := tag_of_byte tg in
      let len := b2z ln in
      let val := firstn (Z.to_nat len) rest in
      v <- (if tnum t =? T_SEQUENCE then rmap VList (parse_asn1 f val)
            else if tnum t =? T_OID then rmap (fun l => VOid (name_oid l)) (parse_oid_nodes val)
            else if tcons t then rmap VList (parse_asn1 f val)
            else Ok (VBytes val)) ;;
      tl <- parse_asn1 f (skipn (Z.to_nat len) rest) ;;
      Ok (Node t len v :: tl)
    end
  end.

(* entry point used by the library: fuel derived from the input length *)
Definition parse_asn1_top (data : bytes) : result (list node) := parse_asn1 (length data) data.

(* ---------------- encode_parsed_asn1 ---------------- *)

Definition tag_int (t : tag) : Z :=
  Z.lor (Z.lor (tnum t) (if tcons t then 32 else 0)) (Z.shiftl (tcls t) 6).

(* encode_parsed_asn1 with encode_parsed_asn1_val inlined.  The dispatch is on tag_int & 0x1F:
     0x10, 0, 1  -> the value is iterated as a list of nodes
     2, 4, 3     -> the value is appended as bytes
     6           -> encode_oid
     anything else (NULL, SET, UTF8String, [2], [3], ...) -> NOTHING is written after the length octet.
   A value of the wrong Python type for its tag raises (TypeError / IndexError depending on the
   combination); those combinations are outside the modelled domain and are all mapped to Err TypeE. *)
Fixpoint encode_node (nd : node) : result bytes :=
  match nd with
  | Node t len v =>
    if negb ((0 <=? tcls t) && (tcls t <? 4)) then Err KeyE else        (* MAP_CLASS_TAG[tag_class] *)
    let ti := tag_int t in
    tb <- to_be_chk 1 ti ;;
    lb <- to_be_chk 1 len ;;
    let k := Z.land ti 31 in
    body <- (if (k =? T_SEQUENCE) || (k =? 0) || (k =? 1) then
               match v with
               | VList l =>
                 (fix enc_list (l : list node) : result bytes :=
                    match l with
                    | [] => Ok []
                    | x :: xs => h <- encode_node x ;; t <- enc_list xs ;; Ok (h ++ t)
                    end) l
               | VBytes [] => Ok []
               | _ => Err TypeE
               end
             else if (k =? T_INTEGER) || (k =? T_OCTETSTRING) || (k =? T_BITSTRING) then
               match v with VBytes b => Ok b | _ => Err TypeE end
             else if k =? T_OID then
               match v with VOid o => encode_oid (oid_nodes_of o) | _ => Err TypeE end
             else Ok []) ;;
    Ok (tb ++ lb ++ body)
  end.

Fixpoint encode_nodes (l : list node) : result bytes :=
  match l with
  | [] => Ok []
  | x :: xs => h <- encode_node x ;; t <- encode_nodes xs ;; Ok (h ++ t)
  end.

(* ---------------- builders for the shapes the library writes (utils.pem_encode_key, der_encode_sig) -------- *)
Definition mk_prim (tn : Z) (b : bytes) : node :=
  Node (Tag tn false 0) (Z.of_nat (length b)) (VBytes b).
Definition mk_seq (len : Z) (l : list node) : node := Node (Tag T_SEQUENCE true 0) len (VList l).
Definition mk_ctx (n len : Z) (l : list node) : node := Node (Tag n true 2) len (VList l).
Definition mk_oid (len : Z) (o : oidv) : node := Node (Tag T_OID false 0) len (VOid o).
