(* Model of decode_script(scriptbytes, witness=True, parse=True)  (/repo/src/bits/script/utils.py), as the code is NOW:
   the mode that splits the FIRST witness stack off a byte stream and returns its raw serialisation.

       n, bs = parse_compact_size_uint(bs)
       parsed_bytes = compact_size_uint(n)                   # the count is RE-ENCODED (canonical form)
       if not n: return parsed_bytes, bs
       while bs:
           push, item_bytes = parse_compact_size_uint(bs)
           parsed_bytes += bs[: len(bs) - len(item_bytes) + push]      # the item's length prefix as found + its data
           bs = item_bytes[push:];  n -= 1
           if not n: return parsed_bytes, bs
       return decoded            # buffer exhausted early: a bare LIST (callers unpack two values) -> Err ValueE,
                                 # the same convention as Model/Witness.v
   Definitions only; proofs in Proofs/ScriptWitnessParse.v. *)
From Coq Require Import ZArith List Lia Bool.
Require Import Bits.Lib.Result Bits.Lib.Bytes Bits.Model.CompactSize Bits.Model.Witness.
Import ListNotations.
Local Open Scope Z_scope.
Local Open Scope result_scope.

Fixpoint witness_parse_loop (fuel : nat) (n : Z) (parsed : bytes) (bs : bytes) : result (bytes * bytes) :=
  match bs with
  | [] => Err ValueE
  | _ :: _ =>
    match fuel with
    | O => Err FuelE
    | S fuel' =>
      '(push, item_bytes) <- parse_compact_size_uint bs ;;
      let consumed := takeZ (Z.of_nat (length bs) - Z.of_nat (length item_bytes) + push) bs in
      let parsed' := parsed ++ consumed in
      let bs' := dropZ push item_bytes in
      let n' := n - 1 in
      if n' =? 0 then Ok (parsed', bs')
      else witness_parse_loop fuel' n' parsed' bs'
    end
  end.

Definition witness_parse (bs : bytes) : result (bytes * bytes) :=
  '(n, bs1) <- parse_compact_size_uint bs ;;
  c <- compact_size_uint n ;;
  if n =? 0 then Ok (c, bs1)
  else witness_parse_loop (length bs1) n c bs1.
