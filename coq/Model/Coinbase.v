(* Executable model of bits.tx.coinbase_txin / coinbase_tx (/repo/src/bits/tx.py) AS THEY ARE NOW, with the
   helpers they call (outpoint, txin, txout, tx: Model/Tx.v) and the two uses of bits.script.script
   (`["OP_RETURN", <hex data>]` and `[<hex data>]` with witness=True).  Definitions only; proofs in
   Proofs/Coinbase.v and Proofs/ScriptNum.v.

     def coinbase_txin(coinbase_script, sequence=b"\xff\xff\xff\xff", block_height=None):
         if block_height is not None:
             if block_height <= 16:
                 op = getattr(bits.script.constants, f"OP_{block_height}")      # AttributeError for OP_-1, ...
                 coinbase_script = op.to_bytes(1, "big") + coinbase_script
             else:
                 number_of_bytes = (block_height.bit_length() + 8) // 8
                 coinbase_script = (number_of_bytes.to_bytes(1, "little")
                                    + block_height.to_bytes(number_of_bytes, "little") + coinbase_script)
         if len(coinbase_script) > 100:
             raise ValueError("script exceeds 100 bytes!")
         return txin(outpoint(b"\x00" * 32, UINT32_MAX), coinbase_script, sequence=sequence)

     def coinbase_tx(coinbase_script, script_pubkey, block_reward=None, block_height=None, regtest=False,
                     witness_merkle_root_hash=None):
         blocks_per_halving = 210000 if not regtest else 150
         if block_height is not None:
             max_reward = int(50e8)
             halvings = block_height // blocks_per_halving
             if halvings:
                 max_reward //= 2**halvings
             if block_reward is not None:
                 assert block_reward <= max_reward, "block reward too high"
             else:
                 block_reward = max_reward
         txins = [coinbase_txin(coinbase_script, block_height=block_height)]
         txouts = [txout(block_reward, script_pubkey)]                            # None.to_bytes: AttributeError
         if witness_merkle_root_hash:                                              # b"" is falsy
             commitment_header = b"\xAA\x21\xA9\xED"
             witness_commitment_scriptpubkey = bits.script.script(
                 ["OP_RETURN", (commitment_header + witness_merkle_root_hash).hex()])
             txouts.append(txout(0, witness_commitment_scriptpubkey))
         return tx(txins, txouts,
                   script_witnesses=[bits.script.script([bits.constants.WITNESS_RESERVED_VALUE.hex()], witness=True)]
                   if witness_merkle_root_hash else [])

   NEGATIVE HEIGHTS (outside C15's quantifier) always end in an exception in Python: `2**halvings` is then
   a float, and coinbase_txin finally fails with AttributeError (`OP_-5`) unless the float-valued reward
   assertion (AssertionError) or a ZeroDivisionError (|halvings| > 1074) comes first.  The model returns
   [Err AttributeE] for every negative height; only Ok/Err is compared there.

   Constants: the opcode values OP_0 = 0x00, OP_1..OP_16 = 0x51..0x60, OP_RETURN = 0x6a, OP_PUSHDATA1/2/4,
   UINT32_MAX and WITNESS_RESERVED_VALUE are the standard's (Spec); GenProps/CoinbaseGen.v re-checks on every
   run that the code's current values are the same. *)
From Coq Require Import ZArith List Bool.
Require Import Bits.Lib.Result Bits.Lib.Bytes Bits.Model.CompactSize Bits.Model.Witness Bits.Model.Tx.
Require Bits.Spec.Coinbase.
Import ListNotations.
Import Coq.Init.Byte.
Local Open Scope Z_scope.
Local Open Scope result_scope.

Definition zlen {A} (l : list A) : Z := Z.of_nat (length l).

(* int.bit_length() *)
Definition bit_length (n : Z) : Z := if n =? 0 then 0 else Z.log2 (Z.abs n) + 1.

Definition UINT32_MAX : Z := 4294967295.

(* outpoint, txin, txout and tx (= [tx_raw]) are the models of Model/Tx.v *)

(* getattr(bits.script.constants, f"OP_{h}").to_bytes(1, "big")   for h <= 16 *)
Definition op_n_byte (h : Z) : result byte :=
  if h <? 0 then Err AttributeE
  else if h =? 0 then Ok x00
  else Ok (z2b (80 + h)).

(* the height push prepended by coinbase_txin *)
Definition height_push (h : Z) : result bytes :=
  if h <=? 16 then op <- op_n_byte h ;; Ok [op]
  else
    let number_of_bytes := (bit_length h + 8) / 8 in
    l <- to_le_chk 1 number_of_bytes ;;
    Ok (l ++ to_le (Z.to_nat number_of_bytes) h).

(* the `if block_height is not None:` block of coinbase_txin *)
Definition prepend_height (coinbase_script : bytes) (block_height : option Z) : result bytes :=
  match block_height with
  | None => Ok coinbase_script
  | Some h => p <- height_push h ;; Ok (p ++ coinbase_script)
  end.

Definition coinbase_txin (coinbase_script sequence : bytes) (block_height : option Z) : result bytes :=
  script <- prepend_height coinbase_script block_height ;;
  if 100 <? zlen script then Err ValueE
  else
    o <- outpoint (repeat x00 32) UINT32_MAX ;;
    txin o script sequence.

(* one data argument of bits.script.script(..., witness=False) *)
Definition script_push (data : bytes) : result bytes :=
  let data_len := zlen data in
  if 75 <? data_len then
    let min_bytes := (bit_length data_len + 7) / 8 in
    if min_bytes =? 1 then Ok ([x4c] ++ to_le 1 data_len ++ data)
    else if min_bytes =? 2 then Ok ([x4d] ++ to_le 2 data_len ++ data)
    else if min_bytes <=? 4 then Ok ([x4e] ++ to_le 4 data_len ++ data)
    else Err ValueE
  else Ok (to_le 1 data_len ++ data).

Definition py_truthy_bytes (o : option bytes) : bool :=
  match o with Some (_ :: _) => true | _ => false end.

(* [floordiv_pow2 a k] is  a // 2**k ; the model is parametrised by it only so that the extracted program can use
   the provably equal [floordiv_pow2_fast] (Proofs/Coinbase.v: coinbase_tx_fast_eq) instead of building 2**k, which
   has millions of bits for heights near 2^31 (Python does build it: it is a single shift there) *)
Definition floordiv_pow2 (a k : Z) : Z := a / 2 ^ k.
Definition floordiv_pow2_fast (a k : Z) : Z := if Z.log2 a <? k then 0 else Z.shiftr a k.

Definition coinbase_tx_with (fdp : Z -> Z -> Z)
           (coinbase_script script_pubkey : bytes) (block_reward block_height : option Z)
           (regtest : bool) (witness_merkle_root_hash : option bytes) : result bytes :=
  let blocks_per_halving := if negb regtest then 210000 else 150 in
  block_reward' <-
    match block_height with
    | None => Ok block_reward
    | Some h =>
      if h <? 0 then Err AttributeE
      else
        let halvings := h / blocks_per_halving in
        let max_reward := if halvings =? 0 then 5000000000 else fdp 5000000000 halvings in
        match block_reward with
        | Some r => if r <=? max_reward then Ok (Some r) else Err AssertionE
        | None => Ok (Some max_reward)
        end
    end ;;
  txin_ <- coinbase_txin coinbase_script [xff; xff; xff; xff] block_height ;;
  txout_ <- match block_reward' with
            | None => Err AttributeE
            | Some v => txout v script_pubkey
            end ;;
  if py_truthy_bytes witness_merkle_root_hash then
    let root := match witness_merkle_root_hash with Some r => r | None => [] end in
    push <- script_push ([xaa; x21; xa9; xed] ++ root) ;;
    commit_out <- txout 0 ([x6a] ++ push) ;;
    wit <- witness_ser [Bits.Spec.Coinbase.witness_reserved_value] ;;
    tx_raw [txin_] [txout_; commit_out] 1 0 [wit]
  else
    tx_raw [txin_] [txout_] 1 0 [].

Definition coinbase_tx := coinbase_tx_with floordiv_pow2.
Definition coinbase_tx_fast := coinbase_tx_with floordiv_pow2_fast.

(* The lines of bits.integrations.mine_block that compute the argument passed as witness_merkle_root_hash:
       wtxids = [b"\x00" * 32] + [wtxid of every mempool tx]
       witness_merkle_root_hash = bits.blockchain.merkle_root(wtxids)
       witness_merkle_root_hash = bits.crypto.hash256(witness_merkle_root_hash + WITNESS_RESERVED_VALUE)   *)
Require Bits.Model.Merkle.
Definition mine_block_commitment (sha256 : bytes -> bytes) (wtxids_without_coinbase : list bytes) : result bytes :=
  root <- Bits.Model.Merkle.merkle_root sha256 (repeat x00 32 :: wtxids_without_coinbase) ;;
  Ok (Bits.Model.Merkle.hash256 sha256 (root ++ Bits.Spec.Coinbase.witness_reserved_value)).
