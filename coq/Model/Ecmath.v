(* Executable model of src/bits/ecmath.py, generic in the field prime p, the curve coefficients a b,
   the group order n and the generator G exactly as the Python is (its module constants / defaults).
   Definitions only; proofs are in Proofs/Ecmath.v, Lib/Group.v, Proofs/SmallCurves.v *)
From Coq Require Import ZArith List Bool Zpow_facts.
Require Import Bits.Lib.Result.
Import ListNotations.
Local Open Scope Z_scope.
Local Open Scope result_scope.

Definition point : Type := option (Z * Z).     (* None = point at infinity (Python None) *)

Definition point_eqb (P Q : point) : bool :=
  match P, Q with
  | None, None => true
  | Some (x1, y1), Some (x2, y2) => (x1 =? x2) && (y1 =? y2)
  | _, _ => false
  end.

(* ---- field helpers: the modulus is an explicit argument (Python: keyword p=..., default SECP256K1_P) ---- *)
Definition inF (m x : Z) : bool := (0 <=? x) && (x <? m).

Definition add_mod_p (m x y : Z) : result Z :=
  if negb (inF m x) then Err ValueE else if negb (inF m y) then Err ValueE else Ok ((x + y) mod m).
Definition sub_mod_p (m x y : Z) : result Z :=
  if negb (inF m x) then Err ValueE else if negb (inF m y) then Err ValueE else Ok ((x - y) mod m).
Definition mul_mod_p (m x y : Z) : result Z :=
  if negb (inF m x) then Err ValueE else if negb (inF m y) then Err ValueE else Ok ((x * y) mod m).
(* pow(x, y, p); only non-negative exponents occur in the library (negative: outside the model) *)
Definition pow_mod_p (m x e : Z) : result Z :=
  if negb (inF m x) then Err ValueE else if e <? 0 then Err OtherE else Ok (Zpow_mod x e m).
Definition div_mod_p (m x y : Z) : result Z :=
  if negb (inF m x) then Err ValueE else if negb (inF m y) then Err ValueE else
  yi <- pow_mod_p m y (m - 2) ;; mul_mod_p m x yi.

Section Curve.
  Variables p a b : Z.

  Definition sqrt_mod_p (x : Z) : result (Z * Z) :=
    x' <- add_mod_p p 0 x ;;
    if p mod 4 =? 3 then
      y <- pow_mod_p p x' ((p + 1) / 4) ;;
      ny <- sub_mod_p p 0 y ;;
      Ok (y, ny)
    else Err OtherE.   (* NotImplementedError *)

  Definition curve_rhs (x : Z) : result Z :=
    x3 <- pow_mod_p p x 3 ;;
    ax <- mul_mod_p p x a ;;
    t <- add_mod_p p x3 ax ;;
    add_mod_p p t b.

  (* y_from_x uses mul_mod_p(a, x); point_is_on_curve uses mul_mod_p(x, a): same value, same checks *)
  Definition y_from_x (x : Z) : result (Z * Z) :=
    y2 <- curve_rhs x ;; sqrt_mod_p y2.

  Definition point_is_on_curve (x y : Z) : result bool :=
    l <- pow_mod_p p y 2 ;;
    r <- curve_rhs x ;;
    Ok (l =? r).

  Definition point_negate (P : point) : result point :=
    match P with
    | None => Err TypeE          (* x, y = None *)
    | Some (x, y) => ny <- sub_mod_p p 0 y ;; Ok (Some (x, ny))
    end.

  Definition point_add (P1 P2 : point) : result point :=
    match P1, P2 with
    | None, _ => Ok P2
    | _, None => Ok P1
    | Some (x1, y1), Some (x2, y2) =>
      if point_eqb P1 P2 then
        (* s = (3 x^2 + a) / (2 y);  xr = s^2 - 2x;  yr = -s xr + s x - y *)
        xx <- pow_mod_p p x1 2 ;;
        t3 <- mul_mod_p p 3 xx ;;
        num <- add_mod_p p t3 a ;;
        den <- mul_mod_p p 2 y1 ;;
        s <- div_mod_p p num den ;;
        s2 <- pow_mod_p p s 2 ;;
        tx <- mul_mod_p p 2 x1 ;;
        xr <- sub_mod_p p s2 tx ;;
        ns <- sub_mod_p p 0 s ;;
        m1 <- mul_mod_p p ns xr ;;
        m2 <- mul_mod_p p s x1 ;;
        t <- add_mod_p p m1 m2 ;;
        yr <- sub_mod_p p t y1 ;;
        Ok (Some (xr, yr))
      else
        N2 <- point_negate P2 ;;
        if point_eqb P1 N2 then Ok None
        else
          dy <- sub_mod_p p y2 y1 ;;
          dx <- sub_mod_p p x2 x1 ;;
          s <- div_mod_p p dy dx ;;
          s2 <- pow_mod_p p s 2 ;;
          t1 <- sub_mod_p p s2 x1 ;;
          xr <- sub_mod_p p t1 x2 ;;
          ns <- sub_mod_p p 0 s ;;
          m1 <- mul_mod_p p ns xr ;;
          m2 <- mul_mod_p p s x1 ;;
          t <- add_mod_p p m1 m2 ;;
          yr <- sub_mod_p p t y1 ;;
          Ok (Some (xr, yr))
    end.

  (* MSB-first double-and-add; the recursion on the binary representation processes the
     bits of k>>1 (most significant first) before the last bit, as the Python for-loop does *)
  Fixpoint scalar_mul_pos (k : positive) (P : point) : result point :=
    match k with
    | xH => d <- point_add None None ;; point_add d P
    | xO k' => r <- scalar_mul_pos k' P ;; point_add r r
    | xI k' => r <- scalar_mul_pos k' P ;; d <- point_add r r ;; point_add d P
    end.

  Definition point_scalar_mul (k : Z) (P : point) : result point :=
    match k with
    | 0 => Ok None
    | Zpos q => scalar_mul_pos q P
    | Zneg _ => Err OtherE      (* negative scalars: outside the model *)
    end.

  (* ---- ECDSA ---- *)
  Variable n : Z.
  Variable G : point.

  (* sign: the random draws of secrets.randbelow(N) are an explicit list; returns the unused draws.
     FuelE = the supplied draws ran out before a signature was produced. *)
  Fixpoint sign_with (draws : list Z) (key digest : Z) : result (Z * Z * list Z) :=
    match draws with
    | [] => Err FuelE
    | k :: rest =>
      if k =? 0 then sign_with rest key digest       (* inner while not k *)
      else
        R <- point_scalar_mul k G ;;
        match R with
        | None => Err TypeE                            (* x, y = None *)
        | Some (x, _) =>
          let r := x mod n in
          if r =? 0 then sign_with rest key digest
          else
            rk <- mul_mod_p n r key ;;
            num <- add_mod_p n (digest mod n) rk ;;
            s <- div_mod_p n num k ;;
            s' <- (if (s >? n / 2) || (s <? 1) then sub_mod_p n 0 s else Ok s) ;;
            if s' =? 0 then sign_with rest key digest
            else Ok (r, s', rest)
        end
    end.

  Definition verify (r s : Z) (Q : point) (digest : Z) : result bool :=
    if negb ((1 <=? r) && (r <? n)) then Err AssertionE else
    if negb ((1 <=? s) && (s <? n)) then Err AssertionE else
    u1 <- div_mod_p n (digest mod n) s ;;
    u2 <- div_mod_p n r s ;;
    A <- point_scalar_mul u1 G ;;
    B <- point_scalar_mul u2 Q ;;
    R <- point_add A B ;;
    match R with
    | None => Err TypeE
    | Some (x, y) =>
      oc <- point_is_on_curve x y ;;
      if negb oc then Err AssertionE else
      if negb (r =? x mod n) then Err AssertionE else Ok true
    end.
End Curve.
