(* C20 -- executable model of the CLI conversion functions and of the configuration pipeline of /repo
   (definitions only, no proofs):

     src/bits/__init__.py   read_bytes, write_bytes
     src/bits/__main__.py   ExplicitOption.__call__, format_option, the first lines of main():
                              Config( **vars(args)) -> load_config(config_dir) -> update( **explicit_options)
                            and main()'s base command (read_bytes -> write_bytes)
     src/bits/config.py     Config.__init__, Config.load_config, Config.update

   Representation.
   * A Python `str` that is processed character by character (what `file_.read()` returns, what
     `file_.write()` receives) is the list of its CODE POINTS, `text = list Z`.
   * Option names, dict keys and string option VALUES are only ever compared for equality; they are the UTF-8
     bytes of the str (`key = bytes`, `PStr`).
   * Python values that travel through argparse / the config files are `pyval`.
   * CPython built-ins the code calls (str.strip, bytes.fromhex, int(s, 2), format(n, "0Nx"), int.to_bytes,
     dict.update / dict.get) are modelled here after CPython 3.12; they are not repo code.  The only table that
     is not written out is Py_UNICODE_TODECIMAL for NON-ASCII code points (int() accepts e.g. full-width
     digits): it is the Section variable [udec], answered by `unicodedata` at run time.
   * The parser tree built by setup_parser() is data: [cli_table], regenerated from /repo into Gen/CliTable.v.
     Tokenisation of argv by argparse is not modelled; the command line is the list of (dest, raw argument)
     pairs given AFTER the subcommand name, `None` = the flag without a value (nargs="?"). *)
From Coq Require Import ZArith List Bool.
Require Import Bits.Lib.Result Bits.Lib.Bytes Bits.Lib.Radix.
Import ListNotations.
Import Coq.Init.Byte.
Local Open Scope Z_scope.

Definition text := list Z.
Definition key := bytes.

Inductive pyval : Type :=
| PNone
| PStr (s : bytes)
| PInt (z : Z)
| PBool (b : bool)
| POther (truth : bool) (repr : bytes).   (* any other object: its truth value and repr() *)

Definition pyval_eqb (a b : pyval) : bool :=
  match a, b with
  | PNone, PNone => true
  | PStr x, PStr y => bytes_eqb x y
  | PInt x, PInt y => Z.eqb x y
  | PBool x, PBool y => Bool.eqb x y
  | POther t x, POther u y => Bool.eqb t u && bytes_eqb x y
  | _, _ => false
  end.

(* bool(v) *)
Definition truthy (v : pyval) : bool :=
  match v with
  | PNone => false
  | PStr s => negb (bytes_eqb s [])
  | PInt z => negb (z =? 0)
  | PBool b => b
  | POther t _ => t
  end.

(* string constants of the code *)
Definition s_raw : bytes := [x72; x61; x77].                                  (* "raw" *)
Definition s_hex : bytes := [x68; x65; x78].                                  (* "hex" *)
Definition s_bin : bytes := [x62; x69; x6e].                                  (* "bin" *)
Definition s_pem : bytes := [x70; x65; x6d].                                  (* "pem" *)
Definition s_b : bytes := [x62].                                              (* "b" *)
Definition s_x : bytes := [x78].                                              (* "x" *)
Definition s_self : bytes := [x73; x65; x6c; x66].                            (* "self" *)
Definition s_explicit : bytes := [x5f; x5f; x65; x78; x70; x6c; x69; x63; x69; x74].   (* "__explicit" *)
Definition s_format_option : bytes :=                                         (* "format_option" *)
  [x66; x6f; x72; x6d; x61; x74; x5f; x6f; x70; x74; x69; x6f; x6e].
Definition s_str : bytes := [x73; x74; x72].                                  (* "str" *)
Definition s_qmark : bytes := [x3f].                                          (* "?" *)

(* v == "<literal>" *)
Definition is_str (v : pyval) (s : bytes) : bool :=
  match v with PStr t => bytes_eqb t s | _ => false end.

(* ------------------------------------------------------------------------------------------ *)
(* str.strip()  (Py_UNICODE_ISSPACE: the code points c with chr(c).isspace())                   *)
(* ------------------------------------------------------------------------------------------ *)
Definition is_uspace (c : Z) : bool :=
  ((9 <=? c) && (c <=? 13)) || ((28 <=? c) && (c <=? 32)) || (c =? 133) || (c =? 160) || (c =? 5760)
  || ((8192 <=? c) && (c <=? 8202)) || (c =? 8232) || (c =? 8233) || (c =? 8239) || (c =? 8287)
  || (c =? 12288).

Fixpoint lstrip_ws (s : text) : text :=
  match s with
  | c :: r => if is_uspace c then lstrip_ws r else s
  | [] => []
  end.
Definition strip (s : text) : text := rev (lstrip_ws (rev (lstrip_ws s))).

(* ------------------------------------------------------------------------------------------ *)
(* bytes.fromhex(str)                                                                           *)
(* ------------------------------------------------------------------------------------------ *)
(* Py_ISSPACE: space \t \n \v \f \r *)
Definition is_cspace (c : Z) : bool := (c =? 32) || ((9 <=? c) && (c <=? 13)).

(* _PyLong_DigitValue restricted to < 16 *)
Definition hexval (c : Z) : option Z :=
  if (48 <=? c) && (c <=? 57) then Some (c - 48)
  else if (97 <=? c) && (c <=? 102) then Some (c - 87)
  else if (65 <=? c) && (c <=? 70) then Some (c - 55)
  else None.

(* white space is skipped BETWEEN byte pairs only; anything else that is not two hex digits (a non-ASCII
   character, NUL, a lone trailing digit) raises ValueError *)
Fixpoint fromhex (s : text) : result bytes :=
  match s with
  | [] => Ok []
  | c :: r =>
    if is_cspace c then fromhex r
    else match hexval c with
         | None => Err ValueE
         | Some h =>
           match r with
           | [] => Err ValueE
           | c2 :: r2 =>
             match hexval c2 with
             | None => Err ValueE
             | Some l => match fromhex r2 with
                         | Ok rest => Ok (z2b (16 * h + l) :: rest)
                         | Err e => Err e
                         end
             end
           end
         end
  end.

(* ------------------------------------------------------------------------------------------ *)
(* int(str, 2)   (PyLong_FromUnicodeObject -> PyLong_FromString, base 2)                        *)
(* ------------------------------------------------------------------------------------------ *)
Section Int2.
Variable udec : Z -> option Z.     (* Py_UNICODE_TODECIMAL on code points >= 127 *)

(* _PyUnicode_TransformDecimalAndSpaceToASCII, character-wise ('?' = 63 is invalid everywhere) *)
Definition to_ascii (c : Z) : Z :=
  if c <? 127 then c
  else if is_uspace c then 32
  else match udec c with Some d => 48 + d | None => 63 end.

Fixpoint drop_cspace (s : text) : text :=
  match s with
  | c :: r => if is_cspace c then drop_cspace r else s
  | [] => []
  end.

(* long_from_binary_base: consume [01_]*, no "__", no trailing "_";
   returns (value, number of characters consumed, rest) *)
Fixpoint scan_bin (s : text) (prev acc n : Z) : result (Z * Z * text) :=
  match s with
  | c :: r =>
    if c =? 95 then (if prev =? 95 then Err ValueE else scan_bin r c acc (n + 1))
    else if (c =? 48) || (c =? 49) then scan_bin r c (2 * acc + (c - 48)) (n + 1)
    else if prev =? 95 then Err ValueE else Ok (acc, n, s)
  | [] => if prev =? 95 then Err ValueE else Ok (acc, n, [])
  end.

(* optional sign *)
Definition split_sign (s : text) : bool * text :=
  match s with
  | c :: r => if c =? 43 then (false, r) else if c =? 45 then (true, r) else (false, s)
  | [] => (false, [])
  end.

(* optional "0b" / "0B" prefix, one "_" allowed after it *)
Definition skip_prefix (s : text) : text :=
  match s with
  | c0 :: c1 :: r =>
    if (c0 =? 48) && ((c1 =? 98) || (c1 =? 66))
    then match r with c2 :: r' => if c2 =? 95 then r' else r | [] => r end
    else s
  | _ => s
  end.

(* the digits: at least one, may not start with an underscore, only white space may follow *)
Definition parse_bin (s : text) : result Z :=
  match s with
  | c :: _ =>
    if c =? 95 then Err ValueE
    else
      match scan_bin s 0 0 0 with
      | Err e => Err e
      | Ok (v, n, rest) =>
        if n =? 0 then Err ValueE
        else match drop_cspace rest with
             | [] => Ok v
             | _ => Err ValueE
             end
      end
  | [] => Err ValueE
  end.

Definition int2 (s : text) : result Z :=
  let ns := split_sign (drop_cspace (map to_ascii s)) in
  match parse_bin (skip_prefix (snd ns)) with
  | Ok v => Ok (if fst ns then - v else v)
  | Err e => Err e
  end.

(* ------------------------------------------------------------------------------------------ *)
(* bits.read_bytes(file_, input_format)                                                         *)
(* ------------------------------------------------------------------------------------------ *)
(* the two views of the input file: file_.buffer.read() and file_.read() *)
Record infile := mkIn { in_raw : bytes; in_text : text }.

Definition read_bytes (fmt : pyval) (f : infile) : result bytes :=
  if is_str fmt s_raw then Ok (in_raw f)
  else if is_str fmt s_hex then
    let data := strip (in_text f) in
    let data := if Nat.odd (length data) then 48 :: data else data in
    fromhex data
  else if is_str fmt s_bin then
    let data := strip (in_text f) in
    let r := Z.of_nat (length data) mod 8 in
    let data := if r =? 0 then data else repeat 48 (Z.to_nat (8 - r)) ++ data in
    match data with
    | [] => Ok []
    | _ => match int2 data with
           | Err e => Err e
           | Ok n => to_be_chk (Nat.div (length data) 8) n
           end
    end
  else Err ValueE.
End Int2.

(* ------------------------------------------------------------------------------------------ *)
(* format(n, "0{w}x") / format(n, "0{w}b") for n >= 0, and bits.write_bytes                      *)
(* ------------------------------------------------------------------------------------------ *)
Definition digitchar (d : Z) : Z := if d <? 10 then 48 + d else 87 + d.

Definition pyformat (fuel : nat) (b : Z) (w : nat) (n : Z) : text :=
  let ds := if n =? 0 then [0] else digits fuel b n in
  map digitchar (repeat 0 (w - length ds) ++ ds).

(* what was written: (bytes through file_.buffer.write, str through file_.write) *)
Definition outfile := (bytes * text)%type.

Definition write_bytes (linesep : text) (fmt : pyval) (data : bytes) : result outfile :=
  if is_str fmt s_raw then Ok (data, [])
  else if is_str fmt s_bin || is_str fmt s_hex then
    let hex := is_str fmt s_hex in
    let w := if hex then (length data * 2)%nat else (length data * 8)%nat in
    let formatted :=
      match data with
      | [] => []                               (* empty data is written as the empty string *)
      | _ => pyformat w (if hex then 16 else 2) w (of_be data)
      end in
    Ok ([], formatted ++ linesep)
  else Err ValueE.

(* a file that was written is read back: what went through .buffer is what .buffer.read() returns, what went
   through .write() is what .read() returns *)
Definition as_input (o : outfile) : infile := mkIn (fst o) (snd o).

(* read g (write g (read f (write f data))) *)
Definition reconvert (udec : Z -> option Z) (linesep : text) (f g : pyval) (data : bytes) : result bytes :=
  match write_bytes linesep f data with
  | Err e => Err e
  | Ok o1 =>
    match read_bytes udec f (as_input o1) with
    | Err e => Err e
    | Ok d1 =>
      match write_bytes linesep g d1 with
      | Err e => Err e
      | Ok o2 => read_bytes udec g (as_input o2)
      end
    end
  end.

(* ------------------------------------------------------------------------------------------ *)
(* dicts (lookup semantics only): association lists, the first binding of a key counts           *)
(* ------------------------------------------------------------------------------------------ *)
Definition dict := list (key * pyval).

Fixpoint dget (k : key) (d : dict) : option pyval :=
  match d with
  | [] => None
  | (k', v) :: r => if bytes_eqb k' k then Some v else dget k r
  end.
Definition dgetd (k : key) (d : dict) (dflt : pyval) : pyval :=
  match dget k d with Some v => v | None => dflt end.
Definition dmem (k : key) (d : dict) : bool :=
  match dget k d with Some _ => true | None => false end.
(* d1.update(d2) *)
Definition dupdate (d1 d2 : dict) : dict := d2 ++ d1.
Definition dempty (d : dict) : bool := match d with [] => true | _ => false end.

(* ------------------------------------------------------------------------------------------ *)
(* the parser tree as data, argparse's namespace, ExplicitOption                                *)
(* ------------------------------------------------------------------------------------------ *)
Record action := mkAction {
  a_dest : key;
  a_flags : list bytes;            (* option strings; [] for a positional *)
  a_explicit : bool;               (* type(action) is ExplicitOption *)
  a_class : bytes;                 (* type(action).__name__ *)
  a_default : pyval;
  a_const : pyval;
  a_nargs : pyval;
  a_choices : option (list pyval);
  a_type : bytes                   (* getattr(action.type, "__name__", "") *)
}.
Definition parser := list action.
(* only actions that put their dest into the namespace are listed (dest and default not SUPPRESS);
   the sub-parsers action itself is the action of the base parser with dest [t_subdest] *)
Record cli_table := mkTable {
  t_base : parser;
  t_subdest : key;
  t_subs : list (bytes * parser)
}.

Fixpoint find_sub (name : bytes) (l : list (bytes * parser)) : option parser :=
  match l with
  | [] => None
  | (n, p) :: r => if bytes_eqb n name then Some p else find_sub name r
  end.

(* format_option(o): format_map[o] *)
Definition format_option (o : bytes) : result pyval :=
  if bytes_eqb o s_b then Ok (PStr s_bin)
  else if bytes_eqb o s_x then Ok (PStr s_hex)
  else if bytes_eqb o s_raw || bytes_eqb o s_bin || bytes_eqb o s_hex || bytes_eqb o s_pem then Ok (PStr o)
  else Err KeyE.

(* argparse's _get_value for the `type`s that configurable options use *)
Definition apply_type (a : action) (s : bytes) : result pyval :=
  if bytes_eqb (a_type a) s_format_option then format_option s
  else if bytes_eqb (a_type a) [] || bytes_eqb (a_type a) s_str then Ok (PStr s)
  else Err OtherE.                 (* int, fromhex, json.loads, ...: not modelled *)

Definition check_choices (a : action) (v : pyval) : result pyval :=
  match a_choices a with
  | None => Ok v
  | Some cs => if existsb (pyval_eqb v) cs then Ok v else Err OtherE    (* parser.error -> SystemExit *)
  end.

(* the value argparse hands to the action for one occurrence of the option *)
Definition arg_value (a : action) (arg : option bytes) : result pyval :=
  match arg with
  | Some s => match apply_type a s with Ok v => check_choices a v | Err e => Err e end
  | None =>
    if is_str (a_nargs a) s_qmark then
      match a_const a with
      | PStr s => match apply_type a s with Ok v => check_choices a v | Err e => Err e end
      | v => check_choices a v
      end
    else Err OtherE                (* "expected one argument" *)
  end.

Fixpoint find_action (d : key) (p : parser) : option action :=
  match p with
  | [] => None
  | a :: r => if bytes_eqb (a_dest a) d then Some a else find_action d r
  end.

(* the command line after type conversion: dest -> value; an option the parser does not declare is an
   argparse error (SystemExit) *)
Fixpoint convert_cli (p : parser) (cli : list (key * option bytes)) : result dict :=
  match cli with
  | [] => Ok []
  | (d, arg) :: r =>
    match find_action d p with
    | None => Err OtherE
    | Some a =>
      match arg_value a arg with
      | Err e => Err e
      | Ok v => match convert_cli p r with Ok rest => Ok ((d, v) :: rest) | Err e => Err e end
      end
    end
  end.

(* one action's contribution to vars(args):
   given on the command line -> Action.__call__:  ExplicitOption sets dest and dest + "__explicit",
                                                  a store action sets dest only;
   not given                -> the default *)
Definition ns_entry (cv : dict) (a : action) : dict :=
  match dget (a_dest a) cv with
  | Some v => (a_dest a, v) :: (if a_explicit a then [(a_dest a ++ s_explicit, PBool true)] else [])
  | None => [(a_dest a, a_default a)]
  end.
Definition ns_of_parser (p : parser) (cv : dict) : dict := flat_map (ns_entry cv) p.

(* vars(parser.parse_args()): base command (sub = "") or `bits <sub> <options...>`;
   the sub-parser's namespace (all of its dests) is copied over the base parser's *)
Definition namespace (t : cli_table) (sub : bytes) (cli : list (key * option bytes)) : result dict :=
  if bytes_eqb sub [] then
    match convert_cli (t_base t) cli with
    | Ok cv => Ok (ns_of_parser (t_base t) cv)
    | Err e => Err e
    end
  else
    match find_sub sub (t_subs t) with
    | None => Err OtherE
    | Some p =>
      match convert_cli p cli with
      | Ok cv => Ok (dupdate (ns_of_parser (t_base t) []) ((t_subdest t, PStr sub) :: ns_of_parser p cv))
      | Err e => Err e
      end
    end.

(* ------------------------------------------------------------------------------------------ *)
(* bits.config.Config                                                                           *)
(* ------------------------------------------------------------------------------------------ *)
Section Config.
Variable cfg_defaults : dict.      (* the kwargs.get(key, default) lines of Config.__init__, in order *)

(* Config.__init__(self, **kwargs): vars(self) afterwards; a kwarg called "self" is a TypeError (reachable only from
   vars(args) / explicit options, i.e. from a dest called "self": load_config filters the file's keys) *)
Definition cfg_init (kw : dict) : result dict :=
  if dmem s_self kw then Err TypeE
  else Ok (map (fun kd => (fst kd, dgetd (fst kd) kw (snd kd))) cfg_defaults).

(* the file load_config reads: config.toml if tomllib is importable and the file exists, else config.json if
   it exists, else nothing *)
Definition select_file (has_toml : bool) (ftoml fjson : option dict) : dict :=
  match (if has_toml then ftoml else None) with
  | Some d => d
  | None => match fjson with Some d => d | None => [] end
  end.

(* only keys that are attributes of the Config object are taken from the file:
   config_update.update({key: value for key, value in config_file_dict.items() if key in config_update}) *)
Definition load_config (has_toml : bool) (ftoml fjson : option dict) (c : dict) : result dict :=
  let d := select_file has_toml ftoml fjson in
  if dempty d then Ok c else cfg_init (dupdate c (filter (fun kv => dmem (fst kv) c) d)).

Definition cfg_update (c kw : dict) : result dict := cfg_init (dupdate c kw).

(* {option: value for option, value in vars(args).items() if getattr(args, option + "__explicit", False)} *)
Definition explicit_options (ns : dict) : dict :=
  filter (fun kv => truthy (dgetd (fst kv ++ s_explicit) ns (PBool false))) ns.

Definition config_of_ns (has_toml : bool) (ns : dict) (ftoml fjson : option dict) : result dict :=
  match cfg_init ns with
  | Err e => Err e
  | Ok c0 =>
    match load_config has_toml ftoml fjson c0 with
    | Err e => Err e
    | Ok c1 => cfg_update c1 (explicit_options ns)
    end
  end.

(* the Config object main() works with *)
Definition main_config (t : cli_table) (has_toml : bool) (sub : bytes) (cli : list (key * option bytes))
           (ftoml fjson : option dict) : result dict :=
  match namespace t sub cli with
  | Err e => Err e
  | Ok ns => config_of_ns has_toml ns ftoml fjson
  end.

(* the value in effect for one option *)
Definition effective (t : cli_table) (has_toml : bool) (sub : bytes) (cli : list (key * option bytes))
           (ftoml fjson : option dict) (opt : key) : result pyval :=
  match main_config t has_toml sub cli ftoml fjson with
  | Err e => Err e
  | Ok c => Ok (dgetd opt c PNone)
  end.

(* main() without a subcommand: (effective Config, what was written to out_file) *)
Definition k_input_format : key :=
  [x69; x6e; x70; x75; x74; x5f; x66; x6f; x72; x6d; x61; x74].             (* "input_format" *)
Definition k_output_format : key :=
  [x6f; x75; x74; x70; x75; x74; x5f; x66; x6f; x72; x6d; x61; x74].        (* "output_format" *)

Definition main_base (udec : Z -> option Z) (linesep : text) (t : cli_table) (has_toml : bool)
           (cli : list (key * option bytes)) (ftoml fjson : option dict) (stdin : infile)
  : result (dict * outfile) :=
  match main_config t has_toml [] cli ftoml fjson with
  | Err e => Err e
  | Ok c =>
    match read_bytes udec (dgetd k_input_format c PNone) stdin with
    | Err e => Err e
    | Ok data =>
      match write_bytes linesep (dgetd k_output_format c PNone) data with
      | Err e => Err e
      | Ok out => Ok (c, out)
      end
    end
  end.
End Config.
