(* C16: executable model of /repo/src/bits/tx.py send_tx AS THE CODE IS NOW, all three layers:
     (a) value layer     Model/SendValue.v  (binary64 amounts, selection loop, output values)
     (b) message layer   the byte strings handed to bits.sig for every input
     (c) assembly layer  scriptSig / witness per address type, final serialisation
   on top of the existing models of what send_tx calls: utils.wif_decode (Model/Wif.v), keys.pub (Model/Keys.v +
   Model/Sec1.v), script.script / decode_script / p2wpkh_script_pubkey / p2wsh_script_pubkey (Model/Script.v),
   tx.outpoint / txin / txout / tx / txin_deser (Model/Tx.v), bip143.witness_message (Model/Bip143.v), utils.sig
   (Model/Der.v over Model/Ecmath.v sign_with, the nonces secrets.randbelow returns are an explicit list).

   NOT modelled: the scantxoutset RPC (rpc.py) - its result is the argument [unspents]/[total_amount]; and
   bits.script.scriptpubkey (C08) - the Section variable [scriptpubkey] (the extraction driver instantiates it with
   the table the harness computes with its INDEPENDENT address decoder, so a wrong script is a disagreement).

   The known signing defects are modelled AS THEY ARE (Props/C16.v proves them as ..._refuted):
     * segwit kinds: witness_message(txins, utxo["vout"], ...) - the OUTPUT index of the spent utxo is used as the INPUT
       index; version / locktime are not passed (defaults 1 / 0); messages are built for ALL unspents;
     * legacy kinds: one message (the whole transaction, every scriptSig filled, flag not applied) signed once and
       the one signature list reused for every input;
     * p2wsh scriptCode: one length byte.
   Definitions only. *)
From Coq Require Import ZArith List Bool.
From Coq Require Import Floats.SpecFloat.
Require Import Bits.Lib.Result Bits.Lib.Bytes Bits.Lib.PyStr.
Require Import Bits.Model.SendValue.
Require Bits.Model.CompactSize Bits.Model.Script Bits.Model.Tx Bits.Model.Bip143 Bits.Model.Der
        Bits.Model.Ecmath Bits.Model.Keys Bits.Model.Sec1 Bits.Model.Wif Bits.Spec.Wif.
Import ListNotations.
Import Coq.Init.Byte.
Require Import Coq.Strings.String.
Local Open Scope Z_scope.
Local Open Scope result_scope.


(* one entry of sender_txoutset["unspents"] *)
Record utxo := mk_utxo {
  u_txid : bytes;          (* bytes.fromhex(utxo["txid"]): the id as the node prints it *)
  u_vout : Z;              (* utxo["vout"] *)
  u_amount : spec_float;   (* utxo["amount"], BTC *)
  u_spk : bytes            (* bytes.fromhex(utxo["scriptPubKey"]) *)
}.

(* addr_type strings *)
Definition k_p2pk := Bits.Spec.Wif.ascii "p2pk"%string.
Definition k_p2pkh := Bits.Spec.Wif.ascii "p2pkh"%string.
Definition k_multisig := Bits.Spec.Wif.ascii "multisig"%string.
Definition k_p2sh := Bits.Spec.Wif.ascii "p2sh"%string.
Definition k_p2wpkh := Bits.Spec.Wif.ascii "p2wpkh"%string.
Definition k_p2wsh := Bits.Spec.Wif.ascii "p2wsh"%string.
Definition k_p2sh_p2wpkh := Bits.Spec.Wif.ascii "p2sh-p2wpkh"%string.
Definition k_p2sh_p2wsh := Bits.Spec.Wif.ascii "p2sh-p2wsh"%string.
Definition is_kind (ty : bytes) (ks : list bytes) : bool := existsb (bytes_eqb ty) ks.      (* ty in [...] *)

(* what `if sender_keys:` leaves behind: addr_types[0], datums[0] (as bytes), keys, redeem_script *)
Record keyinfo := mk_keyinfo { ki_type : bytes; ki_data : bytes; ki_keys : list bytes; ki_redeem : bytes }.

(* script(args, witness=True) for ANY args (Model/Witness.v covers data items only): an "OP_x" argument is appended as
   its single opcode byte WITHOUT a length - "OP_0" is the byte 00, i.e. the empty stack item *)
Definition script_w_arg (arg : bytes) : result bytes :=
  if starts_with Bits.Model.Script.s_OP_ arg then
    op <- Bits.Model.Script.getattr_op arg ;; to_be_chk 1 op
  else
    data <- fromhex arg ;;
    l <- Bits.Model.CompactSize.compact_size_uint (lenZ data) ;;
    Ok (l ++ data).
Fixpoint script_w_args (args : list bytes) : result bytes :=
  match args with
  | [] => Ok []
  | x :: r => h <- script_w_arg x ;; t <- script_w_args r ;; Ok (h ++ t)
  end.
Definition script_w (args : list bytes) : result bytes :=
  c <- Bits.Model.CompactSize.compact_size_uint (lenZ args) ;;
  body <- script_w_args args ;;
  Ok (c ++ body).

(* l[i] for i in range(len(...)) *)
Definition nth_r {A} (l : list A) (i : nat) : result A := of_option IndexE (nth_error l i).
Definition hd_r {A} (l : list A) : result A := of_option IndexE (hd_error l).

Section Send.
  Variables p a n : Z.
  Variable G : Bits.Model.Ecmath.point.
  Variable sha256 ripemd160 : bytes -> bytes.
  Variable scriptpubkey : bytes -> result bytes.        (* bits.script.scriptpubkey (C08) *)

  Definition hash160 (m : bytes) : bytes := ripemd160 (sha256 m).        (* bits.crypto.hash160 *)

  (* bits.keys.pub(privkey, compressed) *)
  Definition pub (key : bytes) (compressed : bool) : result bytes :=
    P <- Bits.Model.Keys.compute_point p a n G key ;;
    match P with
    | None => Err TypeE                                   (* x, y = None *)
    | Some (x, y) => Bits.Model.Sec1.pubkey x y compressed
    end.

  (* ---- `if sender_keys:` validation and decoding ---- *)
  Definition decode_keys (sender_keys : list bytes) (flag : option Z) : result keyinfo :=
    match flag with
    | None => Err ValueE                                  (* sender_keys provided ... but sighash_flag not specified *)
    | Some _ =>
      ds <- mapM (Bits.Model.Wif.wif_decode_full sha256) sender_keys ;;
      match ds with
      | [] => Err IndexE                                  (* unreachable: sender_keys is non-empty *)
      | (_, _, ty0, _, d0) :: _ =>
        let keys := map (fun d => match d with (_, _, _, k, _) => k end) ds in
        assert_ (forallb (fun d => match d with (_, _, ty, _, _) => bytes_eqb ty ty0 end) ds) AssertionE ;;;
        assert_ (forallb (fun d => match d with (_, _, _, _, dd) => bytes_eqb dd d0 end) ds) AssertionE ;;;
        if is_kind ty0 [k_p2pk; k_p2pkh; k_p2wpkh; k_p2sh_p2wpkh] then
          if (1 <? lenZ sender_keys) then Err ValueE      (* more than 1 sender_key *)
          else Ok (mk_keyinfo ty0 d0 keys [])
        else Ok (mk_keyinfo ty0 d0 keys d0)               (* redeem_script = bytes.fromhex(datums[0]) *)
      end
    end.

  (* ---- the scriptSig placed in every txin by the selection loop ---- *)
  Definition loop_scriptsig (ki : option keyinfo) (u : utxo) : result bytes :=
    match ki with
    | None => Ok []
    | Some k =>
      let ty := ki_type k in
      if is_kind ty [k_p2pk; k_p2pkh; k_multisig] then Ok (u_spk u)
      else if is_kind ty [k_p2sh] then Ok (ki_redeem k)
      else if is_kind ty [k_p2sh_p2wpkh] then
        k0 <- hd_r (ki_keys k) ;;
        pk <- pub k0 true ;;
        spk <- Bits.Model.Script.p2wpkh_script_pubkey (hash160 pk) 0 ;;
        Bits.Model.Script.script [hex_of_bytes spk]
      else if is_kind ty [k_p2sh_p2wsh] then
        spk <- Bits.Model.Script.p2wsh_script_pubkey (sha256 (ki_redeem k)) 0 ;;
        Bits.Model.Script.script [hex_of_bytes spk]
      else Ok []
    end.

  (* txins.append(txin(outpoint(txid, vout), sender_scriptsig))   with txid = fromhex(utxo["txid"])[::-1] *)
  Definition mk_txin (ki : option keyinfo) (u : utxo) : result bytes :=
    ss <- loop_scriptsig ki u ;;
    op <- Bits.Model.Tx.outpoint (rev (u_txid u)) (u_vout u) ;;
    Bits.Model.Tx.txin op ss Bits.Model.Tx.default_sequence.

  (* ---- signing ---- *)
  (* [bits.sig(key, msg, sighash_flag=flag, msg_preimage=pre) for key in keys], threading the nonce draws *)
  Fixpoint sign_keys (draws : list Z) (keys : list bytes) (msg : bytes) (flag : option Z) (pre : bool)
    : result (list bytes * list Z) :=
    match keys with
    | [] => Ok ([], draws)
    | k :: r =>
      '(sg, d1) <- Bits.Model.Der.sig p a n G sha256 draws k msg flag pre ;;
      '(sgs, d2) <- sign_keys d1 r msg flag pre ;;
      Ok (sg :: sgs, d2)
    end.
  Fixpoint sign_msgs (draws : list Z) (keys : list bytes) (msgs : list bytes) (flag : option Z)
    : result (list (list bytes)) :=
    match msgs with
    | [] => Ok []
    | m :: r =>
      '(sgs, d1) <- sign_keys draws keys m flag true ;;
      rest <- sign_msgs d1 keys r flag ;;
      Ok (sgs :: rest)
    end.

  (* the scriptCode of the segwit kinds, as written *)
  Definition scriptcode_of (k : keyinfo) : result bytes :=
    if is_kind (ki_type k) [k_p2wpkh; k_p2sh_p2wpkh] then
      k0 <- hd_r (ki_keys k) ;;
      pk <- pub k0 true ;;
      inner <- Bits.Model.Script.script [Bits.Model.Script.s_DUP; Bits.Model.Script.s_HASH160; hex_of_bytes (hash160 pk); Bits.Model.Script.s_EQUALVERIFY; Bits.Model.Script.s_CHECKSIG] ;;
      Bits.Model.Script.script [hex_of_bytes inner]
    else
      l <- to_be_chk 1 (lenZ (ki_redeem k)) ;;           (* len(redeem_script).to_bytes(1, "big") *)
      Ok (l ++ ki_redeem k).

  (* msgs = [witness_message(txins, utxo["vout"], round(utxo["amount"] * 1e8), scriptcode, txouts, sighash_flag=flag)
             for utxo in sender_txoutset["unspents"]]           -- version and locktime take their defaults 1 and 0 *)
  Definition segwit_msgs (txins txouts : list bytes) (scriptcode : bytes) (flag : option Z) (unspents : list utxo)
    : result (list bytes) :=
    mapM (fun u =>
            amt <- sat_of_btc (u_amount u) ;;
            Bits.Model.Bip143.witness_message sha256 txins (u_vout u) amt scriptcode txouts 1 0 flag) unspents.

  (* ["OP_0"] if decode_script(redeem_script)[-1] == "OP_CHECKMULTISIG" else [] *)
  Definition multisig_dummy (redeem : bytes) : result (list bytes) :=
    decoded <- Bits.Model.Script.decode_script redeem ;;
    match rev decoded with
    | [] => Err IndexE
    | last :: _ => Ok (if bytes_eqb last Bits.Model.Script.s_CHECKMULTISIG then [Bits.Model.Script.s_OP_0] else [])
    end.

  (* sender_witnesses for range(len(txins)), f i = the script args of input i *)
  Fixpoint witnesses_for (nins : nat) (i : nat) (f : nat -> result (list bytes)) : result (list bytes) :=
    match nins with
    | O => Ok []
    | S k => args <- f i ;; w <- script_w args ;; rest <- witnesses_for k (S i) f ;; Ok (w :: rest)
    end.

  (* the final scriptSig and witnesses: (sender_scriptsig, sender_witnesses).
     [leftover] = the value the loop variable sender_scriptsig still has (None: the loop body never ran) *)
  Definition assemble (k : keyinfo) (leftover : option bytes) (nins : nat)
             (legacy_sigs : list bytes) (segwit_sigs : list (list bytes)) : result (bytes * list bytes) :=
    let ty := ki_type k in
    let left := of_option OtherE leftover in                            (* NameError *)
    if bytes_eqb ty k_p2pk then
      s0 <- hd_r legacy_sigs ;; ss <- Bits.Model.Script.script [hex_of_bytes s0] ;; Ok (ss, [])
    else if bytes_eqb ty k_multisig then
      ss <- Bits.Model.Script.script (Bits.Model.Script.s_OP_0 :: map hex_of_bytes legacy_sigs) ;; Ok (ss, [])
    else if bytes_eqb ty k_p2pkh then
      let compressed := negb (Nat.eqb (List.length (ki_data k)) 0) in       (* True if datums[0] else False *)
      s0 <- hd_r legacy_sigs ;;
      k0 <- hd_r (ki_keys k) ;;
      pk <- pub k0 compressed ;;
      ss <- Bits.Model.Script.script [hex_of_bytes s0; hex_of_bytes pk] ;; Ok (ss, [])
    else if is_kind ty [k_p2wpkh; k_p2sh_p2wpkh] then
      ws <- witnesses_for nins 0 (fun i =>
              sgs <- nth_r segwit_sigs i ;;
              s0 <- hd_r sgs ;;
              k0 <- hd_r (ki_keys k) ;;
              pk <- pub k0 true ;;
              Ok [hex_of_bytes s0; hex_of_bytes pk]) ;;
      ss <- left ;; Ok (ss, ws)
    else if is_kind ty [k_p2sh; k_p2wsh; k_p2sh_p2wsh] then
      dummy <- multisig_dummy (ki_redeem k) ;;
      if bytes_eqb ty k_p2sh then
        ss <- Bits.Model.Script.script (dummy ++ map hex_of_bytes legacy_sigs ++ [hex_of_bytes (ki_redeem k)]) ;;
        Ok (ss, [])
      else
        ws <- witnesses_for nins 0 (fun i =>
                sgs <- nth_r segwit_sigs i ;;
                Ok (dummy ++ map hex_of_bytes sgs ++ [hex_of_bytes (ki_redeem k)])) ;;
        ss <- left ;; Ok (ss, ws)
    else Err OtherE.            (* no other addr_type exists in WIF_TYPE_COMBINATIONS; sender_witnesses undefined *)

  (* txins_prime: every txin re-parsed with txin_deser and rebuilt with the final scriptSig *)
  Definition rebuild_txin (final_ss : bytes) (txi : bytes) : result bytes :=
    '(d, _) <- Bits.Model.Tx.txin_deser txi ;;
    op <- Bits.Model.Tx.outpoint (Bits.Model.Tx.ti_txid d) (Bits.Model.Tx.ti_vout d) ;;
    Bits.Model.Tx.txin op final_ss Bits.Model.Tx.default_sequence.

  (* ---- everything before signing: (amount_to_send, selected utxos with their txins, total_amount, txouts) ---- *)
  Record unsigned := mk_unsigned {
    us_to_send : Z; us_selected : list (utxo * bytes); us_total : Z; us_txouts : list bytes }.

  Definition build_unsigned (sender_addr recipient_addr : bytes) (change_addr : option bytes) (ki : option keyinfo)
             (send_fraction : spec_float) (miner_fee : Z) (total_amount : spec_float) (unspents : list utxo)
    : result unsigned :=
    total_available <- sat_of_btc total_amount ;;
    to_send <- amount_to_send send_fraction total_available ;;
    '(sel, total_sel) <- select (fun u => sat_of_btc (u_amount u)) (mk_txin ki) unspents to_send 0 ;;
    recipient_spk <- scriptpubkey recipient_addr ;;
    change_spk <- scriptpubkey (match change_addr with
                               | Some (c :: r) => c :: r           (* `if change_addr` *)
                               | _ => sender_addr
                               end) ;;
    o1 <- Bits.Model.Tx.txout (to_send - miner_fee) recipient_spk ;;
    outs <- (if total_sel - to_send >=? dust_limit
             then o2 <- Bits.Model.Tx.txout (total_sel - to_send) change_spk ;; Ok [o1; o2]
             else Ok [o1]) ;;
    Ok (mk_unsigned to_send sel total_sel outs).

  (* ---- bits.tx.send_tx ---- *)
  Definition send_tx (sender_addr recipient_addr : bytes) (change_addr : option bytes) (sender_keys : list bytes)
             (flag : option Z) (send_fraction : spec_float) (miner_fee version locktime : Z)
             (total_amount : spec_float) (unspents : list utxo) (draws : list Z) : result bytes :=
    ki <- (match sender_keys with
           | [] => Ok None
           | _ :: _ => k <- decode_keys sender_keys flag ;; Ok (Some k)
           end) ;;
    u <- build_unsigned sender_addr recipient_addr change_addr ki send_fraction miner_fee total_amount unspents ;;
    let txins := map snd (us_selected u) in
    let txouts := us_txouts u in
    tx_ <- Bits.Model.Tx.tx_raw txins txouts version locktime [] ;;
    match ki with
    | None => Ok tx_
    | Some k =>
      '(legacy_sigs, segwit_sigs) <-
        (if is_kind (ki_type k) [k_p2wpkh; k_p2wsh; k_p2sh_p2wpkh; k_p2sh_p2wsh] then
           sc <- scriptcode_of k ;;
           msgs <- segwit_msgs txins txouts sc flag unspents ;;
           sigs <- sign_msgs draws (ki_keys k) msgs flag ;;
           Ok ([], sigs)
         else
           '(sigs, _) <- sign_keys draws (ki_keys k) tx_ flag false ;;
           Ok (sigs, [])) ;;
      leftover <- (match rev (us_selected u) with
                   | [] => Ok None
                   | (ul, _) :: _ => ss <- loop_scriptsig ki ul ;; Ok (Some ss)
                   end) ;;
      '(final_ss, wits) <- assemble k leftover (List.length txins) legacy_sigs segwit_sigs ;;
      txins' <- mapM (rebuild_txin final_ss) txins ;;
      Bits.Model.Tx.tx_raw txins' txouts version locktime wits
    end.
End Send.
