(* C16: executable model of /repo/src/bits/tx.py send_tx AS THE CODE IS NOW, all three layers:
     (a) value layer     Model/SendValue.v  (binary64 amounts, selection loop, output values)
     (b) message layer   the byte strings handed to bits.sig for every input
     (c) assembly layer  scriptSig / witness per address type, final serialisation
   on top of the existing models of what send_tx calls: utils.wif_decode (Model/Wif.v), keys.pub (Model/Keys.v +
   Model/Sec1.v), script.script / decode_script / p2wpkh_script_pubkey / p2wsh_script_pubkey (Model/Script.v),
   tx.outpoint / txin / txout / tx / txin_deser (Model/Tx.v), bip143.witness_message (Model/Bip143.v), utils.sig
   (Model/Der.v over Model/Ecmath.v sign_with, the nonces secrets.randbelow returns are an explicit list).

   NOT modelled: the scantxoutset RPC (rpc.py) - its result is the argument [unspents]/[total_amount]; and
   bits.script.scriptpubkey (C08) - the Section variable [scriptpubkey] (the extraction driver instantiates it with
   the table the harness computes with its INDEPENDENT address decoder, so a wrong script is a disagreement).

   The code modelled is the REPAIRED send_tx (fix: commits a6453f8 6ab0af3 f63b97b d5fd479 99f7271 5c18f44 671eb14):
     * segwit kinds: one BIP143 message per SELECTED input, with the input's position as index and the transaction's
       version / locktime; the p2wsh scriptCode carries a CompactSize length;
     * legacy kinds: tx.legacy_sig_message per input (other scriptSigs blanked, flag semantics applied; the SIGHASH_SINGLE
       input-without-output case is refused with ValueError), one scriptSig per input;
     * the change of a raw-scriptPubKey sender goes to that script.
   Definitions only. *)
From Coq Require Import ZArith List Bool.
From Coq Require Import Floats.SpecFloat.
Require Import Bits.Lib.Result Bits.Lib.Bytes Bits.Lib.PyStr.
Require Import Bits.Model.SendValue.
Require Bits.Model.CompactSize Bits.Model.Script Bits.Model.Tx Bits.Model.Bip143 Bits.Model.Der
        Bits.Model.Ecmath Bits.Model.Keys Bits.Model.Sec1 Bits.Model.Wif Bits.Spec.Wif.
Import ListNotations.
Import Coq.Init.Byte.
Require Import Coq.Strings.String.
Local Open Scope Z_scope.
Local Open Scope result_scope.


(* one entry of sender_txoutset["unspents"] *)
Record utxo := mk_utxo {
  u_txid : bytes;          (* bytes.fromhex(utxo["txid"]): the id as the node prints it *)
  u_vout : Z;              (* utxo["vout"] *)
  u_amount : spec_float;   (* utxo["amount"], BTC *)
  u_spk : bytes            (* bytes.fromhex(utxo["scriptPubKey"]) *)
}.

(* addr_type strings *)
Definition k_p2pk := Bits.Spec.Wif.ascii "p2pk"%string.
Definition k_p2pkh := Bits.Spec.Wif.ascii "p2pkh"%string.
Definition k_multisig := Bits.Spec.Wif.ascii "multisig"%string.
Definition k_p2sh := Bits.Spec.Wif.ascii "p2sh"%string.
Definition k_p2wpkh := Bits.Spec.Wif.ascii "p2wpkh"%string.
Definition k_p2wsh := Bits.Spec.Wif.ascii "p2wsh"%string.
Definition k_p2sh_p2wpkh := Bits.Spec.Wif.ascii "p2sh-p2wpkh"%string.
Definition k_p2sh_p2wsh := Bits.Spec.Wif.ascii "p2sh-p2wsh"%string.
Definition is_kind (ty : bytes) (ks : list bytes) : bool := existsb (bytes_eqb ty) ks.      (* ty in [...] *)

(* what `if sender_keys:` leaves behind: addr_types[0], datums[0] (as bytes), keys, redeem_script *)
Record keyinfo := mk_keyinfo { ki_type : bytes; ki_data : bytes; ki_keys : list bytes; ki_redeem : bytes }.

(* script(args, witness=True) for ANY args (Model/Witness.v covers data items only): an "OP_x" argument is appended as
   its single opcode byte WITHOUT a length - "OP_0" is the byte 00, i.e. the empty stack item *)
Definition script_w_arg (arg : bytes) : result bytes :=
  if starts_with Bits.Model.Script.s_OP_ arg then
    op <- Bits.Model.Script.getattr_op arg ;; to_be_chk 1 op
  else
    data <- fromhex arg ;;
    l <- Bits.Model.CompactSize.compact_size_uint (lenZ data) ;;
    Ok (l ++ data).
Fixpoint script_w_args (args : list bytes) : result bytes :=
  match args with
  | [] => Ok []
  | x :: r => h <- script_w_arg x ;; t <- script_w_args r ;; Ok (h ++ t)
  end.
Definition script_w (args : list bytes) : result bytes :=
  c <- Bits.Model.CompactSize.compact_size_uint (lenZ args) ;;
  body <- script_w_args args ;;
  Ok (c ++ body).

(* l[i] for i in range(len(...)) *)
Definition nth_r {A} (l : list A) (i : nat) : result A := of_option IndexE (nth_error l i).
Definition hd_r {A} (l : list A) : result A := of_option IndexE (hd_error l).

Section Send.
  Variables p a n : Z.
  Variable G : Bits.Model.Ecmath.point.
  Variable sha256 ripemd160 : bytes -> bytes.
  Variable scriptpubkey : bytes -> result bytes.        (* bits.script.scriptpubkey (C08) *)
  Variable is_address : bytes -> bool.                  (* bits.is_point(x) or bits.is_addr(x): public key or address (C14/C07/C06) *)

  Definition hash160 (m : bytes) : bytes := ripemd160 (sha256 m).        (* bits.crypto.hash160 *)

  (* bits.keys.pub(privkey, compressed) *)
  Definition pub (key : bytes) (compressed : bool) : result bytes :=
    P <- Bits.Model.Keys.compute_point p a n G key ;;
    match P with
    | None => Err TypeE                                   (* x, y = None *)
    | Some (x, y) => Bits.Model.Sec1.pubkey x y compressed
    end.

  (* ---- `if sender_keys:` validation and decoding ---- *)
  Definition decode_keys (sender_keys : list bytes) (flag : option Z) : result keyinfo :=
    match flag with
    | None => Err ValueE                                  (* sender_keys provided ... but sighash_flag not specified *)
    | Some _ =>
      ds <- mapM (Bits.Model.Wif.wif_decode_full sha256) sender_keys ;;
      match ds with
      | [] => Err IndexE                                  (* unreachable: sender_keys is non-empty *)
      | (_, _, ty0, _, d0) :: _ =>
        let keys := map (fun d => match d with (_, _, _, k, _) => k end) ds in
        assert_ (forallb (fun d => match d with (_, _, ty, _, _) => bytes_eqb ty ty0 end) ds) AssertionE ;;;
        assert_ (forallb (fun d => match d with (_, _, _, _, dd) => bytes_eqb dd d0 end) ds) AssertionE ;;;
        if is_kind ty0 [k_p2pk; k_p2pkh; k_p2wpkh; k_p2sh_p2wpkh] then
          if (1 <? lenZ sender_keys) then Err ValueE      (* more than 1 sender_key *)
          else Ok (mk_keyinfo ty0 d0 keys [])
        else Ok (mk_keyinfo ty0 d0 keys d0)               (* redeem_script = bytes.fromhex(datums[0]) *)
      end
    end.

  (* ---- the scriptSig placed in every txin by the selection loop ---- *)
  Definition loop_scriptsig (ki : option keyinfo) (u : utxo) : result bytes :=
    match ki with
    | None => Ok []
    | Some k =>
      let ty := ki_type k in
      if is_kind ty [k_p2pk; k_p2pkh; k_multisig] then Ok (u_spk u)
      else if is_kind ty [k_p2sh] then Ok (ki_redeem k)
      else if is_kind ty [k_p2sh_p2wpkh] then
        k0 <- hd_r (ki_keys k) ;;
        pk <- pub k0 true ;;
        spk <- Bits.Model.Script.p2wpkh_script_pubkey (hash160 pk) 0 ;;
        Bits.Model.Script.script [hex_of_bytes spk]
      else if is_kind ty [k_p2sh_p2wsh] then
        spk <- Bits.Model.Script.p2wsh_script_pubkey (sha256 (ki_redeem k)) 0 ;;
        Bits.Model.Script.script [hex_of_bytes spk]
      else Ok []
    end.

  (* txins.append(txin(outpoint(txid, vout), sender_scriptsig))   with txid = fromhex(utxo["txid"])[::-1] *)
  Definition mk_txin (ki : option keyinfo) (u : utxo) : result bytes :=
    ss <- loop_scriptsig ki u ;;
    op <- Bits.Model.Tx.outpoint (rev (u_txid u)) (u_vout u) ;;
    Bits.Model.Tx.txin op ss Bits.Model.Tx.default_sequence.

  (* ---- signing ---- *)
  (* [bits.sig(key, msg, sighash_flag=flag, msg_preimage=pre) for key in keys], threading the nonce draws *)
  Fixpoint sign_keys (draws : list Z) (keys : list bytes) (msg : bytes) (flag : option Z) (pre : bool)
    : result (list bytes * list Z) :=
    match keys with
    | [] => Ok ([], draws)
    | k :: r =>
      '(sg, d1) <- Bits.Model.Der.sig p a n G sha256 draws k msg flag pre ;;
      '(sgs, d2) <- sign_keys d1 r msg flag pre ;;
      Ok (sg :: sgs, d2)
    end.
  (* [[bits.sig(key, msg, ...) for key in keys] for msg in msgs] *)
  Fixpoint sign_msgs (draws : list Z) (keys : list bytes) (msgs : list bytes) (flag : option Z) (pre : bool)
    : result (list (list bytes)) :=
    match msgs with
    | [] => Ok []
    | m :: r =>
      '(sgs, d1) <- sign_keys draws keys m flag pre ;;
      rest <- sign_msgs d1 keys r flag pre ;;
      Ok (sgs :: rest)
    end.

  (* the scriptCode of the segwit kinds, as written *)
  Definition scriptcode_of (k : keyinfo) : result bytes :=
    if is_kind (ki_type k) [k_p2wpkh; k_p2sh_p2wpkh] then
      k0 <- hd_r (ki_keys k) ;;
      pk <- pub k0 true ;;
      inner <- Bits.Model.Script.script [Bits.Model.Script.s_DUP; Bits.Model.Script.s_HASH160; hex_of_bytes (hash160 pk); Bits.Model.Script.s_EQUALVERIFY; Bits.Model.Script.s_CHECKSIG] ;;
      Bits.Model.Script.script [hex_of_bytes inner]
    else
      l <- Bits.Model.CompactSize.compact_size_uint (lenZ (ki_redeem k)) ;;    (* bits.compact_size_uint(len(redeem_script)) *)
      Ok (l ++ ki_redeem k).

  (* msgs = [witness_message(txins, txin_index, round(utxo["amount"] * 1e8), scriptcode, txouts, version=version,
                             locktime=locktime, sighash_flag=flag)
             for txin_index, utxo in enumerate(selected_utxos)]            ([j] = the index of the first element) *)
  Fixpoint segwit_msgs (txins txouts : list bytes) (scriptcode : bytes) (version locktime : Z) (flag : option Z)
           (j : Z) (selected : list utxo) : result (list bytes) :=
    match selected with
    | [] => Ok []
    | u :: r =>
      amt <- sat_of_btc (u_amount u) ;;
      m <- Bits.Model.Bip143.witness_message sha256 txins j amt scriptcode txouts version locktime flag ;;
      rest <- segwit_msgs txins txouts scriptcode version locktime flag (j + 1) r ;;
      Ok (m :: rest)
    end.

  (* ---- tx.legacy_sig_message(txins, txin_index, scriptcode, txouts, version, locktime, sighash_flag) ---- *)
  Definition zero_sequence : bytes := [x00; x00; x00; x00].
  (* the list comprehension over enumerate(txins); [i] = index of the first element *)
  Fixpoint legacy_ins (none_or_single : bool) (txin_index : Z) (scriptcode : bytes) (i : Z) (txins : list bytes)
    : result (list bytes) :=
    match txins with
    | [] => Ok []
    | t :: r =>
      x <- (if i =? txin_index then Bits.Model.Tx.txin (firstn 36 t) scriptcode (lastn 4 t)
            else Bits.Model.Tx.txin (firstn 36 t) [] (if none_or_single then zero_sequence else lastn 4 t)) ;;
      rest <- legacy_ins none_or_single txin_index scriptcode (i + 1) r ;;
      Ok (x :: rest)
    end.

  Definition legacy_sig_message (txins : list bytes) (txin_index : Z) (scriptcode : bytes) (txouts : list bytes)
             (version locktime sighash_flag : Z) : result bytes :=
    if negb ((0 <=? txin_index) && (txin_index <? lenZ txins)) then Err IndexE else    (* not in range(len(txins)) *)
    let sighash_base := Z.land sighash_flag 0x1F in
    let none_or_single := (sighash_base =? 2) || (sighash_base =? 3) in
    if (sighash_base =? 3) && (lenZ txouts <=? txin_index) then Err ValueE else        (* SIGHASH_SINGLE without output *)
    txins_ <- legacy_ins none_or_single txin_index scriptcode 0 txins ;;
    txins2 <- (if Z.land sighash_flag 0x80 =? 0 then Ok txins_
               else x <- Bits.Model.Bip143.py_index txins_ txin_index ;; Ok [x]) ;;
    txouts2 <- (if sighash_base =? 2 then Ok []
                else if sighash_base =? 3 then
                  blank <- Bits.Model.Tx.txout 0xFFFFFFFFFFFFFFFF [] ;;
                  o <- Bits.Model.Bip143.py_index txouts txin_index ;;
                  Ok (repeat blank (Z.to_nat txin_index) ++ [o])
                else Ok txouts) ;;
    Bits.Model.Tx.tx_raw txins2 txouts2 version locktime [].

  (* msgs = [legacy_sig_message(txins, txin_index, bytes.fromhex(txin_deser(txin_)[0]["scriptsig"]), txouts, version=,
                                locktime=, sighash_flag=) for txin_index, txin_ in enumerate(txins)]
     [all] = txins (the whole list), [j] / [rest] = the enumeration state *)
  Fixpoint legacy_msgs (all txouts : list bytes) (version locktime flag : Z) (j : Z) (rest : list bytes)
    : result (list bytes) :=
    match rest with
    | [] => Ok []
    | t :: r =>
      '(d, _) <- Bits.Model.Tx.txin_deser t ;;
      m <- legacy_sig_message all j (Bits.Model.Tx.ti_script d) txouts version locktime flag ;;
      ms <- legacy_msgs all txouts version locktime flag (j + 1) r ;;
      Ok (m :: ms)
    end.

  (* ["OP_0"] if decode_script(redeem_script)[-1] == "OP_CHECKMULTISIG" else [] *)
  Definition multisig_dummy (redeem : bytes) : result (list bytes) :=
    decoded <- Bits.Model.Script.decode_script redeem ;;
    match rev decoded with
    | [] => Err IndexE
    | last :: _ => Ok (if bytes_eqb last Bits.Model.Script.s_CHECKMULTISIG then [Bits.Model.Script.s_OP_0] else [])
    end.

  (* [f(i) for i in range(len(txins))] *)
  Fixpoint for_inputs (nins : nat) (i : nat) (f : nat -> result bytes) : result (list bytes) :=
    match nins with
    | O => Ok []
    | S k => x <- f i ;; rest <- for_inputs k (S i) f ;; Ok (x :: rest)
    end.

  (* the final scriptSigs (one per input) and witnesses: (sender_scriptsigs, sender_witnesses).
     [leftover] = the value the loop variable sender_scriptsig still has (None: the loop body never ran);
     [sigs] = signatures[i][k]: input i, key k *)
  Definition assemble (k : keyinfo) (leftover : option bytes) (nins : nat) (sigs : list (list bytes))
    : result (list bytes * list bytes) :=
    let ty := ki_type k in
    left <- of_option OtherE leftover ;;                               (* [sender_scriptsig] * len(txins): NameError *)
    let default_ss := repeat left nins in
    if bytes_eqb ty k_p2pk then
      ss <- for_inputs nins 0 (fun i =>
              sgs <- nth_r sigs i ;; s0 <- hd_r sgs ;; Bits.Model.Script.script [hex_of_bytes s0]) ;;
      Ok (ss, [])
    else if bytes_eqb ty k_multisig then
      ss <- for_inputs nins 0 (fun i =>
              sgs <- nth_r sigs i ;; Bits.Model.Script.script (Bits.Model.Script.s_OP_0 :: map hex_of_bytes sgs)) ;;
      Ok (ss, [])
    else if bytes_eqb ty k_p2pkh then
      let compressed := negb (Nat.eqb (List.length (ki_data k)) 0) in       (* True if datums[0] else False *)
      ss <- for_inputs nins 0 (fun i =>
              sgs <- nth_r sigs i ;; s0 <- hd_r sgs ;;
              k0 <- hd_r (ki_keys k) ;;
              pk <- pub k0 compressed ;;
              Bits.Model.Script.script [hex_of_bytes s0; hex_of_bytes pk]) ;;
      Ok (ss, [])
    else if is_kind ty [k_p2wpkh; k_p2sh_p2wpkh] then
      ws <- for_inputs nins 0 (fun i =>
              sgs <- nth_r sigs i ;;
              s0 <- hd_r sgs ;;
              k0 <- hd_r (ki_keys k) ;;
              pk <- pub k0 true ;;
              script_w [hex_of_bytes s0; hex_of_bytes pk]) ;;
      Ok (default_ss, ws)
    else if is_kind ty [k_p2sh; k_p2wsh; k_p2sh_p2wsh] then
      dummy <- multisig_dummy (ki_redeem k) ;;
      if bytes_eqb ty k_p2sh then
        ss <- for_inputs nins 0 (fun i =>
                sgs <- nth_r sigs i ;;
                Bits.Model.Script.script (dummy ++ map hex_of_bytes sgs ++ [hex_of_bytes (ki_redeem k)])) ;;
        Ok (ss, [])
      else
        ws <- for_inputs nins 0 (fun i =>
                sgs <- nth_r sigs i ;;
                script_w (dummy ++ map hex_of_bytes sgs ++ [hex_of_bytes (ki_redeem k)])) ;;
        Ok (default_ss, ws)
    else Err OtherE.            (* no other addr_type exists in WIF_TYPE_COMBINATIONS; sender_witnesses undefined *)

  (* txins_prime: every txin re-parsed with txin_deser and rebuilt with ITS final scriptSig *)
  Definition rebuild_txin (final_ss : bytes) (txi : bytes) : result bytes :=
    '(d, _) <- Bits.Model.Tx.txin_deser txi ;;
    op <- Bits.Model.Tx.outpoint (Bits.Model.Tx.ti_txid d) (Bits.Model.Tx.ti_vout d) ;;
    Bits.Model.Tx.txin op final_ss Bits.Model.Tx.default_sequence.
  (* for txi, sender_scriptsig in zip(txins, sender_scriptsigs) *)
  Fixpoint rebuild_txins (txins sss : list bytes) : result (list bytes) :=
    match txins, sss with
    | t :: tr, s :: sr => x <- rebuild_txin s t ;; rest <- rebuild_txins tr sr ;; Ok (x :: rest)
    | _, _ => Ok []
    end.

  (* ---- everything before signing: (amount_to_send, selected utxos with their txins, total_amount, txouts) ---- *)
  Record unsigned := mk_unsigned {
    us_to_send : Z; us_selected : list (utxo * bytes); us_total : Z; us_txouts : list bytes }.

  (* the change script: scriptpubkey(change_addr) if change_addr, else scriptpubkey(sender_addr) when the sender is a public
     key or an address, else the sender's raw scriptPubKey itself *)
  Definition change_script (sender_addr : bytes) (change_addr : option bytes) : result bytes :=
    match change_addr with
    | Some (c :: r) => scriptpubkey (c :: r)                          (* `if change_addr` *)
    | _ => if is_address sender_addr then scriptpubkey sender_addr else Ok sender_addr
    end.

  Definition build_unsigned (sender_addr recipient_addr : bytes) (change_addr : option bytes) (ki : option keyinfo)
             (send_fraction : spec_float) (miner_fee : Z) (total_amount : spec_float) (unspents : list utxo)
    : result unsigned :=
    total_available <- sat_of_btc total_amount ;;
    to_send <- amount_to_send send_fraction total_available ;;
    '(sel, total_sel) <- select (fun u => sat_of_btc (u_amount u)) (mk_txin ki) unspents to_send 0 ;;
    recipient_spk <- scriptpubkey recipient_addr ;;
    change_spk <- change_script sender_addr change_addr ;;
    o1 <- Bits.Model.Tx.txout (to_send - miner_fee) recipient_spk ;;
    outs <- (if total_sel - to_send >=? dust_limit
             then o2 <- Bits.Model.Tx.txout (total_sel - to_send) change_spk ;; Ok [o1; o2]
             else Ok [o1]) ;;
    Ok (mk_unsigned to_send sel total_sel outs).

  (* the signatures: signatures[i][k] for selected input i and key k *)
  Definition sign_inputs (k : keyinfo) (flag : option Z) (version locktime : Z) (u : unsigned) (draws : list Z)
    : result (list (list bytes)) :=
    let txins := map snd (us_selected u) in
    let txouts := us_txouts u in
    if is_kind (ki_type k) [k_p2wpkh; k_p2wsh; k_p2sh_p2wpkh; k_p2sh_p2wsh] then
      sc <- scriptcode_of k ;;
      msgs <- segwit_msgs txins txouts sc version locktime flag 0 (map fst (us_selected u)) ;;
      sign_msgs draws (ki_keys k) msgs flag true
    else
      f <- of_option TypeE flag ;;                                    (* unreachable: decode_keys demands a flag *)
      msgs <- legacy_msgs txins txouts version locktime f 0 txins ;;
      sign_msgs draws (ki_keys k) msgs flag false.

  (* ---- bits.tx.send_tx ---- *)
  Definition send_tx (sender_addr recipient_addr : bytes) (change_addr : option bytes) (sender_keys : list bytes)
             (flag : option Z) (send_fraction : spec_float) (miner_fee version locktime : Z)
             (total_amount : spec_float) (unspents : list utxo) (draws : list Z) : result bytes :=
    ki <- (match sender_keys with
           | [] => Ok None
           | _ :: _ => k <- decode_keys sender_keys flag ;; Ok (Some k)
           end) ;;
    u <- build_unsigned sender_addr recipient_addr change_addr ki send_fraction miner_fee total_amount unspents ;;
    let txins := map snd (us_selected u) in
    let txouts := us_txouts u in
    tx_ <- Bits.Model.Tx.tx_raw txins txouts version locktime [] ;;
    match ki with
    | None => Ok tx_
    | Some k =>
      sigs <- sign_inputs k flag version locktime u draws ;;
      leftover <- (match rev (us_selected u) with
                   | [] => Ok None
                   | (ul, _) :: _ => ss <- loop_scriptsig ki ul ;; Ok (Some ss)
                   end) ;;
      '(sss, wits) <- assemble k leftover (List.length txins) sigs ;;
      txins' <- rebuild_txins txins sss ;;
      Bits.Model.Tx.tx_raw txins' txouts version locktime wits
    end.
End Send.
