(* Model of /repo/src/bits/tx.py : outpoint, txin, txin_deser, txout, txout_deser, tx, txid, tx_deser
   as the code is NOW (after the fix: commits).  Definitions only; proofs in Proofs/Tx.v.

   Canonical structured form (the Python works with dicts of hex strings; the harness `canon()` maps
   them to exactly these tuples, field by field):
     txin  dict {"txid": hex, "vout": int, "scriptsig": hex, "sequence": hex}
           -> [ti_txid : bytes (fromhex); ti_vout : Z; ti_script : bytes (fromhex); ti_seq : bytes (fromhex)]
     txout dict {"value": int, "scriptpubkey": hex} -> [to_value : Z; to_script : bytes]
     tx    dict {"txid","wtxid","raw"(include_raw=True),"version","txins","txouts",["witnesses"],"locktime"}
           -> [p_txid; p_wtxid; p_raw : bytes (fromhex)]  and  p_tx = [tx_version; tx_ins; tx_outs;
              tx_wits = Some (list of stacks, each a list of items (fromhex)) iff the key "witnesses" is
              present (segwit), None otherwise; tx_locktime].
   [tx_deser] models the call with include_raw=True (without it the dict is the same minus "raw").
   Hashing is an oracle: [sha256] is a Section variable, hash256 = sha256 o sha256 (bits.crypto.hash256). *)
From Coq Require Import ZArith List Lia Bool.
Require Import Bits.Lib.Result Bits.Lib.Bytes Bits.Model.CompactSize Bits.Model.Witness.
Import ListNotations.
Import Coq.Init.Byte.
Local Open Scope Z_scope.
Local Open Scope result_scope.

Record txin_t := mk_txin { ti_txid : bytes; ti_vout : Z; ti_script : bytes; ti_seq : bytes }.
Record txout_t := mk_txout { to_value : Z; to_script : bytes }.
Record tx_t := mk_tx {
  tx_version : Z;
  tx_ins : list txin_t;
  tx_outs : list txout_t;
  tx_wits : option (list (list bytes));     (* one witness stack per input when present *)
  tx_locktime : Z }.

(* what tx_deser(..., include_raw=True)[0] carries *)
Record tx_parsed := mk_parsed { p_txid : bytes; p_wtxid : bytes; p_raw : bytes; p_tx : tx_t }.

(* ---------------- serialisers (byte level, exactly the Python signatures) ---------------- *)

(* outpoint(txid_, index) = txid_ + index.to_bytes(4, "little")      (no length check on txid_) *)
Definition outpoint (txid_ : bytes) (index : Z) : result bytes :=
  i <- to_le_chk 4 index ;; Ok (txid_ ++ i).

(* txin(prev_outpoint, script_sig, sequence) *)
Definition txin (prev_outpoint script_sig sequence : bytes) : result bytes :=
  l <- compact_size_uint (Z.of_nat (length script_sig)) ;;
  Ok (prev_outpoint ++ l ++ script_sig ++ sequence).

Definition default_sequence : bytes := [xff; xff; xff; xff].      (* txin()'s default argument *)

(* txout(value, script_pubkey) *)
Definition txout (value : Z) (script_pubkey : bytes) : result bytes :=
  v <- to_le_chk 8 value ;;
  l <- compact_size_uint (Z.of_nat (length script_pubkey)) ;;
  Ok (v ++ l ++ script_pubkey).

(* tx(txins, txouts, version, locktime, script_witnesses): `if script_witnesses:` = non-empty list *)
Definition tx_raw (txins txouts : list bytes) (version locktime : Z) (script_witnesses : list bytes)
  : result bytes :=
  match script_witnesses with
  | _ :: _ =>
    v <- to_le_chk 4 version ;;
    ci <- compact_size_uint (Z.of_nat (length txins)) ;;
    co <- compact_size_uint (Z.of_nat (length txouts)) ;;
    lt <- to_le_chk 4 locktime ;;
    Ok (v ++ [x00] ++ [x01] ++ ci ++ concat txins ++ co ++ concat txouts ++ concat script_witnesses ++ lt)
  | [] =>
    v <- to_le_chk 4 version ;;
    ci <- compact_size_uint (Z.of_nat (length txins)) ;;
    co <- compact_size_uint (Z.of_nat (length txouts)) ;;
    lt <- to_le_chk 4 locktime ;;
    Ok (v ++ ci ++ concat txins ++ co ++ concat txouts ++ lt)
  end.

(* the structured transaction through the public API, as a caller (and tx_deser itself) builds it:
     tx([txin(outpoint(txid, vout), scriptsig, sequence=seq) ...], [txout(value, spk) ...],
        version=, locktime=, script_witnesses=[script([item.hex() ...], witness=True) ...]) *)
Definition txin_ser (i : txin_t) : result bytes :=
  op <- outpoint (ti_txid i) (ti_vout i) ;; txin op (ti_script i) (ti_seq i).
Definition txout_ser (o : txout_t) : result bytes := txout (to_value o) (to_script o).

Definition tx_ser (t : tx_t) : result bytes :=
  ins <- mapM txin_ser (tx_ins t) ;;
  outs <- mapM txout_ser (tx_outs t) ;;
  wits <- match tx_wits t with None => Ok [] | Some ws => mapM witness_ser ws end ;;
  tx_raw ins outs (tx_version t) (tx_locktime t) wits.

(* the same transaction without marker, flag and witness data (BIP141 "txid serialisation") *)
Definition strip_wits (t : tx_t) : tx_t :=
  mk_tx (tx_version t) (tx_ins t) (tx_outs t) None (tx_locktime t).
Definition tx_ser_nowit (t : tx_t) : result bytes := tx_ser (strip_wits t).

(* ---------------- parsers ---------------- *)

(* txin_deser:  txid_ = b[:32]; vout = b[32:36]; len, b' = parse(b[36:]); scriptsig = b'[:len];
   sequence = b'[len:len+4]; rest = b'[len+4:]      (the last two written through b'[len:], which is the
   same for every len >= 0: Python clamps both slice ends) *)
Definition txin_deser (b : bytes) : result (txin_t * bytes) :=
  let txid_ := firstn 32 b in
  let vout := slice 32 36 b in
  '(len, b') <- parse_compact_size_uint (skipn 36 b) ;;
  let scriptsig := takeZ len b' in
  let after := dropZ len b' in
  Ok (mk_txin txid_ (of_le vout) scriptsig (firstn 4 after), skipn 4 after).

Definition txout_deser (b : bytes) : result (txout_t * bytes) :=
  let value := firstn 8 b in
  '(len, b') <- parse_compact_size_uint (skipn 8 b) ;;
  Ok (mk_txout (of_le value) (takeZ len b'), dropZ len b').

(* `for _ in range(n): x, buf = item(buf); acc.append(x)` for a parsed count n (any Z; range(n) is empty
   for n <= 0).  n may be as large as 2^64-1, so the recursion is on fuel; every successful [item] call
   consumes at least one byte, so fuel = S (length buf) is never exhausted (Proofs/Tx.v: parse_n_no_fuel). *)
Fixpoint parse_n {A} (item : bytes -> result (A * bytes)) (fuel : nat) (n : Z) (acc : list A) (b : bytes)
  : result (list A * bytes) :=
  if n <=? 0 then Ok (rev_append acc [], b)                (* = rev acc, in linear time *)
  else match fuel with
       | O => Err FuelE
       | S fuel' => '(x, b') <- item b ;; parse_n item fuel' (n - 1) (x :: acc) b'
       end.

(* `for i in range(len(txins)): w, buf = decode_script(buf, witness=True)` *)
Fixpoint parse_wits {I} (ins : list I) (acc : list (list bytes)) (b : bytes)
  : result (list (list bytes) * bytes) :=
  match ins with
  | [] => Ok (rev_append acc [], b)
  | _ :: ins' => '(w, b') <- witness_deser b ;; parse_wits ins' (w :: acc) b'
  end.

(* the BIP141 marker/flag test of tx_deser, after the first count n0 has been parsed, p0 = what follows:
     if number_of_inputs == 0 and tx_prime:
         assert tx_prime[0] == 1, "flag not 1"
         is_segwit = True
         number_of_inputs, tx_prime = parse_compact_size_uint(tx_prime[1:])
   returns (is_segwit, number_of_inputs, tx_prime) *)
Definition detect_segwit (n0 : Z) (p0 : bytes) : result (bool * Z * bytes) :=
  match p0 with
  | flag :: _ =>
    if n0 =? 0 then
      _ <- assert_ (b2z flag =? 1) AssertionE ;;
      '(n, p) <- parse_compact_size_uint (skipn 1 p0) ;;
      Ok (true, n, p)
    else Ok (false, n0, p0)
  | [] => Ok (false, n0, p0)
  end.

Section Hash.
  Variable sha256 : bytes -> bytes.
  Definition hash256 (m : bytes) : bytes := sha256 (sha256 m).      (* bits.crypto.hash256 *)
  Definition txid (tx_ : bytes) : bytes := hash256 tx_.             (* bits.tx.txid *)

  (* tx_deser(tx_, include_raw=True) *)
  Definition tx_deser (tx_ : bytes) : result (tx_parsed * bytes) :=
    let version := of_le (firstn 4 tx_) in
    '(n0, p0) <- parse_compact_size_uint (skipn 4 tx_) ;;
    '(is_segwit, n_in, p1) <- detect_segwit n0 p0 ;;
    '(txins, p2) <- parse_n txin_deser (S (length p1)) n_in [] p1 ;;
    '(n_out, p3) <- parse_compact_size_uint p2 ;;
    '(txouts, p4) <- parse_n txout_deser (S (length p3)) n_out [] p3 ;;
    '(wits, p5) <-
      (if is_segwit : bool then '(ws, p) <- parse_wits txins [] p4 ;; Ok (Some ws, p)
       else Ok (None, p4)) ;;
    let locktime := of_le (firstn 4 p5) in
    let rest := skipn 4 p5 in
    let raw := firstn (length tx_ - length rest) tx_ in     (* tx_[: len(tx_) - len(tx_prime)] *)
    let t := mk_tx version txins txouts wits locktime in
    id <- (if is_segwit then                                (* re-serialise without witness, and hash *)
             nowit <- tx_ser_nowit t ;; Ok (txid nowit)
           else Ok (hash256 raw)) ;;
    Ok (mk_parsed id (hash256 raw) raw t, rest).
End Hash.

(* ---------------- the domain of the round-trip theorems ---------------- *)
Definition wf_txin (i : txin_t) : Prop :=
  length (ti_txid i) = 32%nat /\ 0 <= ti_vout i < 2 ^ 32 /\
  Z.of_nat (length (ti_script i)) < 2 ^ 64 /\ length (ti_seq i) = 4%nat.
Definition wf_txout (o : txout_t) : Prop :=
  0 <= to_value o < 2 ^ 64 /\ Z.of_nat (length (to_script o)) < 2 ^ 64.
Definition wf_stack (w : list bytes) : Prop :=
  Z.of_nat (length w) < 2 ^ 64 /\ Forall (fun d => Z.of_nat (length d) < 2 ^ 64) w.

(* At least ONE input is required: with no inputs the legacy encoding is  version ++ 00 ++ ... , whose
   zero input count the parser reads as the BIP141 marker (segwit detection is "count 0 followed by
   anything"), so the round trip is false for 0-input legacy transactions (see Props/C05.v,
   C05_zero_inputs_not_roundtrip).  Zero outputs are fine. *)
Definition wf_tx (t : tx_t) : Prop :=
  0 <= tx_version t < 2 ^ 32 /\ 0 <= tx_locktime t < 2 ^ 32 /\
  tx_ins t <> [] /\ Z.of_nat (length (tx_ins t)) < 2 ^ 64 /\ Forall wf_txin (tx_ins t) /\
  Z.of_nat (length (tx_outs t)) < 2 ^ 64 /\ Forall wf_txout (tx_outs t) /\
  match tx_wits t with
  | None => True
  | Some ws => length ws = length (tx_ins t) /\ Forall wf_stack ws
  end.
