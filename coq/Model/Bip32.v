(* Executable model of src/bits/bips/bip32.py, the parts of src/bits/utils.py it calls (pubkey(compressed=True),
   point(), pubkey_hash) and src/bits/wallet/hd.py (get_xpub, derive_from_path), AS THE CODE IS NOW.
   Generic in the curve (p a b n G) exactly as the Python is through ecmath's module constants; key and
   coordinate widths are the code's fixed 32 / 33 bytes.  Definitions only; proofs in Proofs/Bip32*.v.

   Domain restriction (stated, not hidden): a path is the UTF-8 byte string of the Python [str]; [py_int]
   models int(str) for ASCII text only (Python additionally accepts non-ASCII Unicode digits / spaces). *)
From Coq Require Import ZArith List Bool.
Require Import Bits.Lib.Result Bits.Lib.Bytes Bits.Model.Ecmath Bits.Model.Keys Bits.Model.Base58 Bits.Model.Sec1.
Require Bits.Spec.Bip32 Bits.Spec.Secp256k1.
Import ListNotations.
Import Coq.Init.Byte.
Local Open Scope Z_scope.
Local Open Scope result_scope.

(* VERSION_* and HARDENED_OFFSET: Gen/Bip32Gen.v holds the code's current values, GenProps/Bip32Gen.v proves
   them equal to these *)
Definition VERSION_PUBLIC_MAINNET : bytes := Bits.Spec.Bip32.vbytes true false.
Definition VERSION_PRIVATE_MAINNET : bytes := Bits.Spec.Bip32.vbytes false false.
Definition VERSION_PUBLIC_TESTNET : bytes := Bits.Spec.Bip32.vbytes true true.
Definition VERSION_PRIVATE_TESTNET : bytes := Bits.Spec.Bip32.vbytes false true.
Definition HARDENED_OFFSET : Z := Bits.Spec.Bip32.hardened_offset.

Definition is_private_version (v : bytes) : bool :=
  bytes_eqb v VERSION_PRIVATE_MAINNET || bytes_eqb v VERSION_PRIVATE_TESTNET.
Definition is_public_version (v : bytes) : bool :=
  bytes_eqb v VERSION_PUBLIC_MAINNET || bytes_eqb v VERSION_PUBLIC_TESTNET.
Definition is_testnet_version (v : bytes) : bool :=
  bytes_eqb v VERSION_PRIVATE_TESTNET || bytes_eqb v VERSION_PUBLIC_TESTNET.
Definition known_version (v : bytes) : bool := is_private_version v || is_public_version v.

(* key: Union[int, Tuple[int, int]] (a point may also be None: the value point_add returns for infinity) *)
Inductive xk : Type := KPriv (k : Z) | KPub (P : point).
(* depth / child_no: Union[bytes, int] *)
Inductive bz : Type := AsBytes (b : bytes) | AsInt (z : Z).

Definition ser_32 (i : Z) : result bytes := to_be_chk 4 i.      (* i.to_bytes(4, "big") *)
Definition ser_256 (k : Z) : result bytes := to_be_chk 32 k.    (* p.to_bytes(32, "big") *)
Definition parse_256 (b : bytes) : Z := of_be b.

(* utils.pubkey(x, y, compressed=True) and utils.point() are modelled in Model/Sec1.v (pubkey, sec1_point) *)
Definition pubkey_compressed (x y : Z) : result bytes := pubkey x y true.

(* ser_p: x, y = P  (TypeError for None) *)
Definition ser_p (P : point) : result bytes :=
  match P with None => Err TypeE | Some (x, y) => pubkey_compressed x y end.

(* ---- Python int(str) on ASCII text: optional blanks, optional sign, digits with single '_' between
        digits, optional blanks; more than 4300 digits -> ValueError (sys.int_max_str_digits) ---- *)
Definition is_space (c : byte) : bool :=
  let v := b2z c in (v =? 32) || ((9 <=? v) && (v <=? 13)).
Definition is_digit (c : byte) : bool := let v := b2z c in (48 <=? v) && (v <=? 57).
Definition dval (c : byte) : Z := b2z c - 48.

Fixpoint skip_spaces (s : bytes) : bytes :=
  match s with c :: s' => if is_space c then skip_spaces s' else s | [] => [] end.

(* value so far, number of digits so far; returns the unread rest *)
Fixpoint digits_run (s : bytes) (acc cnt : Z) : result (Z * Z * bytes) :=
  match s with
  | [] => Ok (acc, cnt, [])
  | c :: s' =>
    if is_digit c then digits_run s' (acc * 10 + dval c) (cnt + 1)
    else if byte_eqb c x5f then      (* '_' must be followed by a digit *)
      match s' with
      | d :: s'' => if is_digit d then digits_run s'' (acc * 10 + dval d) (cnt + 1) else Err ValueE
      | [] => Err ValueE
      end
    else Ok (acc, cnt, s)
  end.

Definition py_int (t : bytes) : result Z :=
  let s := skip_spaces t in
  let '(neg, s1) := match s with
                    | c :: r => if byte_eqb c x2d then (true, r) else if byte_eqb c x2b then (false, r) else (false, s)
                    | [] => (false, s) end in
  match s1 with
  | c :: _ =>
    if is_digit c then
      '(v, cnt, rest) <- digits_run s1 0 0 ;;
      match skip_spaces rest with
      | [] => if cnt >? 4300 then Err ValueE else Ok (if neg then - v else v)
      | _ :: _ => Err ValueE
      end
    else Err ValueE
  | [] => Err ValueE
  end.

(* str.split(sep) *)
Fixpoint split_on (sep : byte) (s : bytes) : list bytes :=
  match s with
  | [] => [[]]
  | c :: s' =>
    if byte_eqb c sep then [] :: split_on sep s'
    else match split_on sep s' with h :: t => (c :: h) :: t | [] => [[c]] end
  end.

Fixpoint starts_with (pre s : bytes) : bool :=
  match pre, s with
  | [], _ => true
  | x :: pre', y :: s' => byte_eqb x y && starts_with pre' s'
  | _ :: _, [] => false
  end.
Definition ends_with_quote (t : bytes) : bool :=
  match rev t with c :: _ => byte_eqb c x27 | [] => false end.

(* int(t) if not t.endswith("'") else int(t[:-1]) + HARDENED_OFFSET *)
Definition parse_component (t : bytes) : result Z :=
  if ends_with_quote t then v <- py_int (droplast 1 t) ;; Ok (v + HARDENED_OFFSET) else py_int t.

(* the try/except ValueError around the validation loop re-raises ValueError *)
Definition path_tree (path : bytes) : result (list Z) :=
  match mapM parse_component (tl (split_on x2f path)) with Ok l => Ok l | Err _ => Err ValueE end.

(* to_master_key: n is the literal 0xFFFF...4141 inside the function, NOT ecmath.SECP256K1_N *)
Section Master.
  Variable hmac_sha512 : bytes -> bytes -> bytes.
  Definition to_master_key (seed : bytes) : result (Z * bytes) :=
    let I := hmac_sha512 Bits.Spec.Bip32.bitcoin_seed seed in
    let k := of_be (firstn 32 I) in
    if k =? 0 then Err AssertionE else
    if negb (k <? Bits.Spec.Secp256k1.n) then Err AssertionE else Ok (k, skipn 32 I).
End Master.

Section Bip32.
  Variables p a b n : Z.
  Variable G : point.
  Variable hmac_sha512 : bytes -> bytes -> bytes.     (* hmac.new(key, msg, sha512).digest() *)
  Variable sha256 ripemd160 : bytes -> bytes.

  (* point(p) = point_scalar_mul(p, G) *)
  Definition point_ (k : Z) : result point := point_scalar_mul p a k G.

  Definition hash160 (m : bytes) : bytes := ripemd160 (sha256 m).      (* utils.pubkey_hash *)

  Definition CKDpriv (k : Z) (c : bytes) (i : Z) : result (Z * bytes) :=
    msg <- (if i >=? HARDENED_OFFSET then
              kb <- ser_256 k ;; ib <- ser_32 i ;; Ok (x00 :: kb ++ ib)
            else
              P <- point_ k ;; pb <- ser_p P ;; ib <- ser_32 i ;; Ok (pb ++ ib)) ;;
    let I := hmac_sha512 c msg in
    let I_L := firstn 32 I in
    let I_R := skipn 32 I in
    key_i <- add_mod_p n (parse_256 I_L) k ;;          (* ValueError when I_L >= n (or k outside [0, n)) *)
    if negb (parse_256 I_L <? n) then Err AssertionE else
    if key_i =? 0 then Err AssertionE else Ok (key_i, I_R).

  Definition CKDpub (K : point) (c : bytes) (i : Z) : result (point * bytes) :=
    if i >=? HARDENED_OFFSET then Err ValueE else
    pb <- ser_p K ;; ib <- ser_32 i ;;
    let I := hmac_sha512 c (pb ++ ib) in
    let I_L := firstn 32 I in
    let I_R := skipn 32 I in
    T <- point_ (parse_256 I_L) ;;
    K_i <- point_add p a T K ;;
    if negb (parse_256 I_L <? n) then Err AssertionE else
    Ok (K_i, I_R).                                     (* no check that K_i is not the point at infinity *)

  Definition N_ (k : Z) (c : bytes) : result (point * bytes) := P <- point_ k ;; Ok (P, c).

  Definition serialized_extended_key (key : xk) (chaincode : bytes) (depth : bz) (fp : bytes)
             (child_no : bz) (testnet : bool) : result bytes :=
    vk <- match key with
          | KPriv k => kb <- ser_256 k ;;
                       Ok (if testnet then VERSION_PRIVATE_TESTNET else VERSION_PRIVATE_MAINNET, x00 :: kb)
          | KPub (Some (x, y)) => pb <- pubkey_compressed x y ;;
                       Ok (if testnet then VERSION_PUBLIC_TESTNET else VERSION_PUBLIC_MAINNET, pb)
          | KPub None => Err ValueE           (* neither int nor 2-tuple *)
          end ;;
    depth_b <- match depth with AsBytes d => Ok d | AsInt z => to_be_chk 1 z end ;;
    child_b <- match child_no with AsBytes c => Ok c | AsInt z => to_be_chk 4 z end ;;
    Ok (base58check sha256 (fst vk ++ depth_b ++ fp ++ child_b ++ chaincode ++ snd vk)).

  Definition root_serialized_extended_key (key : xk) (chaincode : bytes) (testnet : bool) : result bytes :=
    serialized_extended_key key chaincode (AsBytes [x00]) Bits.Spec.Bip32.zero4 (AsBytes Bits.Spec.Bip32.zero4) testnet.

  (* (version, depth, parent_key_fingerprint, child_no, chaincode, key) *)
  Definition fields : Type := (bytes * bytes * bytes * bytes * bytes * xk)%type.

  (* everything deserialized_extended_key does after base58check_decode *)
  Definition xkey_of_payload (decoded : bytes) : result fields :=
    if negb (Nat.eqb (length decoded) 78) then Err AssertionE else
    let version := firstn 4 decoded in
    if negb (known_version version) then Err ValueE else
    let depth := slice 4 5 decoded in
    let fp := slice 5 9 decoded in
    let child_no := slice 9 13 decoded in
    if bytes_eqb depth [x00] && negb (bytes_eqb fp Bits.Spec.Bip32.zero4) then Err ValueE else
    if bytes_eqb depth [x00] && negb (bytes_eqb child_no Bits.Spec.Bip32.zero4) then Err ValueE else
    let chaincode := slice 13 45 decoded in
    let ser_key := skipn 45 decoded in
    let prefix := firstn 1 ser_key in
    key <- (if is_public_version version then
              if bytes_eqb prefix [x00] then Err ValueE else
              if negb (bytes_eqb prefix [x02] || bytes_eqb prefix [x03]) then Err ValueE else
              xy <- sec1_point p a b ser_key ;; Ok (KPub (Some xy))
            else
              if bytes_eqb prefix [x02] || bytes_eqb prefix [x03] then Err ValueE else
              if negb (bytes_eqb prefix [x00]) then Err ValueE else
              k <- privkey_int n (skipn 1 ser_key) ;; Ok (KPriv k)) ;;
    Ok (version, depth, fp, child_no, chaincode, key).

  Definition deserialized_extended_key (xkey : bytes) : result fields :=
    decoded <- base58check_decode sha256 xkey ;; xkey_of_payload decoded.

  (* wallet/hd.py get_xpub *)
  Definition get_xpub (xkey : bytes) : result bytes :=
    f <- deserialized_extended_key xkey ;;
    let '(version, depth, fp, child_no, chaincode, key) := f in
    key' <- match key with KPriv k => P <- point_ k ;; Ok (KPub P) | KPub _ => Ok key end ;;
    serialized_extended_key key' chaincode (AsBytes depth) fp (AsBytes child_no) (is_testnet_version version).

  (* one iteration of the loop of derive_from_path ([public] selects CKDpub / the fingerprint branch:
     after the version checks `ckd is CKDpub` and `public` coincide) *)
  Definition derive_step (public testnet : bool) (parent : bytes) (child_no : Z) : result bytes :=
    f <- deserialized_extended_key parent ;;
    let '(_, parent_depth, _, _, parent_cc, parent_key) := f in
    let depth := of_be parent_depth + 1 in
    match public, parent_key with
    | false, KPriv k =>
      child <- CKDpriv k parent_cc child_no ;;
      P <- point_ k ;; pb <- ser_p P ;;
      db <- to_be_chk 1 depth ;; cb <- to_be_chk 4 child_no ;;
      serialized_extended_key (KPriv (fst child)) (snd child) (AsBytes db) (firstn 4 (hash160 pb)) (AsBytes cb) testnet
    | true, KPub K =>
      child <- CKDpub K parent_cc child_no ;;
      pb <- ser_p K ;;
      db <- to_be_chk 1 depth ;; cb <- to_be_chk 4 child_no ;;
      serialized_extended_key (KPub (fst child)) (snd child) (AsBytes db) (firstn 4 (hash160 pb)) (AsBytes cb) testnet
    | _, _ => Err TypeE      (* unreachable after the version checks (proved: Proofs/Bip32Path.v) *)
    end.

  Fixpoint derive_steps (public testnet : bool) (idxs : list Z) (xkey : bytes) : result bytes :=
    match idxs with
    | [] => Ok xkey
    | i :: rest => x' <- derive_step public testnet xkey i ;; derive_steps public testnet rest x'
    end.

  Definition path_m : bytes := [x6d].     (* "m" *)
  Definition path_M : bytes := [x4d].     (* "M" *)

  Definition derive_from_path (path xkey : bytes) : result bytes :=
    f <- deserialized_extended_key xkey ;;
    let '(version, _, _, _, _, _) := f in
    let testnet := is_testnet_version version in
    if bytes_eqb path path_m then (if is_private_version version then Ok xkey else Err ValueE) else
    if bytes_eqb path path_M then (if is_public_version version then Ok xkey else Err ValueE) else
    public <- (if starts_with (path_m ++ [x2f]) path then
                 (if is_private_version version then Ok false else Err ValueE)
               else if starts_with (path_M ++ [x2f]) path then
                 (if is_public_version version then Ok true else Err ValueE)
               else Err ValueE) ;;
    idxs <- path_tree path ;;
    derive_steps public testnet idxs xkey.

  (* __main__.py, subcommand `hd <path> [--xpub] [--dump] [-P]`: derive, then convert (--xpub), then describe the key
     that is emitted (--dump: the fields of deserialized_extended_key(derived_key, return_dict=True), to stderr),
     then append the newline (-P).  Result: (stdout bytes, dumped fields) *)
  Definition cli_hd (path xkey : bytes) (xpub dump print : bool) : result (bytes * option fields) :=
    y <- derive_from_path path xkey ;;
    y' <- (if xpub then get_xpub y else Ok y) ;;
    d <- (if dump then f <- deserialized_extended_key y' ;; Ok (Some f) else Ok None) ;;
    Ok (if print then y' ++ [x0a] else y', d).
End Bip32.
