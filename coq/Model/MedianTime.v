(* Executable model of bits.integrations.median_time (/repo/src/bits/integrations.py) AS IT IS NOW.
   Definitions only; proofs in Proofs/MedianTime.v.

     def median_time(rpc_url="", rpc_datadir="", rpc_user="", rpc_password="") -> int:
         block_count = bits.rpc.rpc_method("getblockcount", **rpc_kwargs)
         block_hash = bits.rpc.rpc_method("getblockhash", block_count, **rpc_kwargs)
         block = bits.rpc.rpc_method("getblock", block_hash, **rpc_kwargs)
         if block_count == 0:
             return block["time"]
         times = []
         for i in range(min(block_count, 11)):
             block_hash = bits.rpc.rpc_method("getblockhash", block_count - i, **rpc_kwargs)
             block = bits.rpc.rpc_method("getblock", block_hash, **rpc_kwargs)
             times.append(block["time"])
         times = sorted(times)
         if len(times) % 2:
             median = times[len(times) // 2]
         else:
             median = (times[len(times) // 2 - 1] + times[len(times) // 2]) // 2
         return median

   The node behind the RPC layer is the argument: [chain] = the block times by height (genesis first, tip last), so
   getblockcount = len(chain) - 1 and the block at height h has time chain[h].  An empty chain has no tip:
   getblockhash(-1) is refused by the node (the model answers Err; the harness stub raises).
   `sorted` on integers is determined by its specification (the sorted permutation); insertion sort computes it. *)
From Coq Require Import ZArith List Bool.
Require Import Bits.Lib.Result.
Import ListNotations.
Local Open Scope Z_scope.
Local Open Scope result_scope.

Fixpoint insert (x : Z) (l : list Z) : list Z :=
  match l with
  | [] => [x]
  | y :: r => if x <=? y then x :: l else y :: insert x r
  end.
Definition sort (l : list Z) : list Z := fold_right insert [] l.

(* the last five lines, on the sorted list; times[-1] of an empty list is an IndexError *)
Definition median_sorted (times : list Z) : result Z :=
  let n := length times in
  if Nat.odd n then of_option IndexE (nth_error times (Nat.div n 2))
  else
    match n with
    | O => Err IndexE
    | _ =>
      a <- of_option IndexE (nth_error times (Nat.div n 2 - 1)) ;;
      b <- of_option IndexE (nth_error times (Nat.div n 2)) ;;
      Ok ((a + b) / 2)                      (* Python // on ints is floor division = Z.div *)
    end.

Definition median_of (times : list Z) : result Z := median_sorted (sort times).

(* the times the loop collects: heights block_count, block_count-1, ..., block_count-min(block_count,11)+1 *)
Definition collected (chain : list Z) : list Z :=
  firstn (Nat.min (length chain - 1) 11) (rev chain).

Definition median_time (chain : list Z) : result Z :=
  match rev chain with
  | [] => Err OtherE
  | tip :: _ =>
    if (length chain - 1 =? 0)%nat then Ok tip
    else median_of (collected chain)
  end.
