(* Executable model of utils.to_bitcoin_address (src/bits/utils.py) and of the dispatcher script.utils.scriptpubkey
   (src/bits/script/utils.py) AS THEY ARE WRITTEN NOW, branch by branch.  Definitions only; proofs in Proofs/Address.v.
   Everything the two functions call is the already modelled code:
     bits.is_point / point                      Model/Sec1.v   (curve parameters p a b explicit, as there)
     bits.base58.is_base58check / base58check_decode / base58check        Model/Base58.v
     bits.is_segwit_addr / decode_segwit_addr / segwit_addr               Model/Bech32.v
     p2pk/p2pkh/p2sh/p2wpkh/p2wsh_script_pubkey, script                   Model/Script.v
   The version bytes are the constants of Spec/Templates.v; GenProps/AddressGen.v proves that the literals inside
   the two Python functions (read from their source by ast on every run) are these. *)
From Coq Require Import ZArith List Bool.
Require Coq.Strings.String.
Import Coq.Strings.String.StringSyntax.
Require Import Bits.Lib.Result Bits.Lib.Bytes Bits.Model.Base58 Bits.Model.Bech32 Bits.Model.Sec1.
Require Import Bits.Lib.PyStr Bits.Model.Script.
Require Bits.Spec.Templates.
Import ListNotations.
Import Coq.Init.Byte.
Local Open Scope Z_scope.
Local Open Scope result_scope.

(* (no module alias here: monolithic extraction cannot go through one) *)
Local Notation version_byte := Bits.Spec.Templates.version_byte.
Local Notation P2PKH := Bits.Spec.Templates.P2PKH.
Local Notation P2SH := Bits.Spec.Templates.P2SH.
Local Notation Mainnet := Bits.Spec.Templates.Mainnet.
Local Notation Testnet := Bits.Spec.Templates.Testnet.

Local Open Scope string_scope.
Definition s_p2pkh : bytes := str "p2pkh".
Definition s_p2sh : bytes := str "p2sh".
Local Close Scope string_scope.

(* the four literals  b"\x00"  b"\x6f"  b"\x05"  b"\xc4" *)
Definition ver_p2pkh_main : bytes := [version_byte P2PKH Mainnet].
Definition ver_p2pkh_test : bytes := [version_byte P2PKH Testnet].
Definition ver_p2sh_main : bytes := [version_byte P2SH Mainnet].
Definition ver_p2sh_test : bytes := [version_byte P2SH Testnet].

Section Address.
  Variable sha256 : bytes -> bytes.
  Variables p a b : Z.          (* the curve bits.is_point works on (module constants of ecmath.py) *)

  (* to_bitcoin_address(payload, addr_type, network, witness_version)   [witness_version: None | int] *)
  Definition to_bitcoin_address (payload addr_type network : bytes) (witness_version : option Z) : result bytes :=
    match witness_version with
    | Some v =>
      (* assert network in [...]; assert witness_version in range(17); return segwit_addr(...) *)
      to_bitcoin_address_witness payload network v
    | None =>
      assert_ (bytes_eqb network net_mainnet || bytes_eqb network net_testnet || bytes_eqb network net_regtest)
              AssertionE ;;;
      assert_ (bytes_eqb addr_type s_p2pkh || bytes_eqb addr_type s_p2sh) AssertionE ;;;
      let main := bytes_eqb network net_mainnet in
      let test := bytes_eqb network net_testnet || bytes_eqb network net_regtest in
      version <- (if main && bytes_eqb addr_type s_p2pkh then Ok ver_p2pkh_main
                  else if test && bytes_eqb addr_type s_p2pkh then Ok ver_p2pkh_test
                  else if main && bytes_eqb addr_type s_p2sh then Ok ver_p2sh_main
                  else if test && bytes_eqb addr_type s_p2sh then Ok ver_p2sh_test
                  else Err OtherE) ;;                  (* UnboundLocalError: excluded by the two asserts *)
      Ok (base58check sha256 (version ++ payload))
    end.

  (* scriptpubkey(data) *)
  Definition scriptpubkey (data : bytes) : result bytes :=
    ispt <- is_point p a b data ;;
    if ispt then p2pk_script_pubkey data
    else if is_base58check sha256 data then
      decoded <- base58check_decode sha256 data ;;
      let version := firstn 1 decoded in                 (* decoded[0:1] *)
      let payload := skipn 1 decoded in                  (* decoded[1:]  *)
      if negb (Z.of_nat (length payload) =? 20) then Err ValueE   (* invalid base58check address payload length *)
      else if bytes_eqb version ver_p2pkh_main || bytes_eqb version ver_p2pkh_test then
        p2pkh_script_pubkey payload
      else if bytes_eqb version ver_p2sh_main || bytes_eqb version ver_p2sh_test then
        p2sh_script_pubkey payload
      else Err ValueE                                    (* unrecognized base58check version byte *)
    else
      sw <- is_segwit_addr data ;;
      if sw then
        '(hrp, witness_version, witness_program) <- decode_segwit_addr data ;;
        assert_ (existsb (bytes_eqb hrp) [hrp_bc; hrp_tb; hrp_bcrt]) AssertionE ;;;
        if Z.of_nat (length witness_program) =? 20 then p2wpkh_script_pubkey witness_program witness_version
        else if Z.of_nat (length witness_program) =? 32 then p2wsh_script_pubkey witness_program witness_version
        else if witness_version >=? 1 then
          (* script([f"OP_{witness_version}", witness_program.hex()]) *)
          script [s_OP_ ++ dec_str witness_version; hex_of_bytes witness_program]
        else Err ValueE                                  (* bad witness program length *)
      else Err ValueE.                                   (* not identified as pubkey, base58check, nor segwit *)
End Address.
