(* Model of the `pubkey` branch of bits.__main__.main (and keys.pub): what the command line does with the bytes it
   read, before the output formatting of write_bytes.  Definitions only. *)
From Coq Require Import ZArith List Bool.
Require Import Bits.Lib.Result Bits.Lib.Bytes Bits.Model.Ecmath Bits.Model.Keys Bits.Model.Sec1 Bits.Model.Pem.
Import ListNotations.
Local Open Scope Z_scope.
Local Open Scope result_scope.

Section Cli.
  Variable b64enc : bytes -> bytes.
  Variables p a b n : Z.
  Variable G : Ecmath.point.

  (* keys.pub: x, y = compute_point(privkey); pubkey(x, y, compressed) *)
  Definition keys_pub (key : bytes) (compressed : bool) : result bytes :=
    P <- compute_point p a n G key ;;
    match P with
    | None => Err TypeE
    | Some (x, y) => pubkey x y compressed
    end.

  (* len 32: private key; len 33/65: x, y = point(data); pubkey(x, y, compressed=args.compressed); else ValueError.
     -0pem wraps the result with pem_encode_key *)
  Definition cli_pubkey (data : bytes) (compressed pem : bool) : result bytes :=
    pk <- (if Nat.eqb (length data) 32 then keys_pub data compressed
           else if Nat.eqb (length data) 33 || Nat.eqb (length data) 65 then
             '(x, y) <- sec1_point p a b data ;; pubkey x y compressed
           else Err ValueE) ;;
    if pem then pem_encode_key b64enc p a n G pk else Ok pk.
End Cli.
