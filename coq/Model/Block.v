(* Executable model of block_header / block_ser / block_header_deser / block_deser
   (/repo/src/bits/blockchain.py) AS THEY ARE NOW.  Definitions only; proofs in Proofs/Block.v.

     def block_header(version, prev_blockheaderhash, merkle_root_hash, ntime, nBits, nNonce):
         return (version.to_bytes(4, "little") + prev_blockheaderhash + merkle_root_hash
                 + ntime.to_bytes(4, "little") + nBits + nNonce.to_bytes(4, "little"))

     def block_ser(blk_hdr, txns):
         return blk_hdr + bits.compact_size_uint(len(txns)) + b"".join(txns)

     def block_header_deser(blk_hdr):
         assert len(blk_hdr) == 80, "block header not length 80"
         return {"version": int.from_bytes(blk_hdr[:4], "little"), "prev_blockheaderhash": blk_hdr[4:36].hex(),
                 "merkle_root_hash": blk_hdr[36:68].hex(), "nTime": int.from_bytes(blk_hdr[68:72], "little"),
                 "nBits": blk_hdr[72:76].hex(), "nNonce": int.from_bytes(blk_hdr[76:], "little")}

     def block_deser(block):
         header = block[:80]
         number_of_txns, block_prime = bits.parse_compact_size_uint(block[80:])
         txns = []
         while block_prime:
             deserialized_tx, block_prime = bits.tx.tx_deser(block_prime, include_raw=True)
             txns.append(deserialized_tx)
         assert len(txns) == number_of_txns, "error during parsing - number of txns does not match"
         return block_header_deser(header) | {"txns": txns}

   The hex strings of the dictionaries are represented by the bytes they spell (harness: bytes.fromhex).
   The transaction parser is a Section variable here (any type of parsed transaction, any parser); it is
   instantiated with Model/Tx.v's [tx_deser] (= tx_deser(., include_raw=True)) in Extract/EntryC15.v and in
   the theorems of Props/C15.v. *)
From Coq Require Import ZArith List Bool.
Require Import Bits.Lib.Result Bits.Lib.Bytes Bits.Model.CompactSize.
Import ListNotations.
Local Open Scope Z_scope.
Local Open Scope result_scope.

Record header := mk_header {
  h_version : Z;
  h_prev : bytes;
  h_merkle : bytes;
  h_time : Z;
  h_bits : bytes;
  h_nonce : Z
}.

Definition block_header (h : header) : result bytes :=
  v <- to_le_chk 4 (h_version h) ;;
  t <- to_le_chk 4 (h_time h) ;;
  n <- to_le_chk 4 (h_nonce h) ;;
  Ok (v ++ h_prev h ++ h_merkle h ++ t ++ h_bits h ++ n).

Definition block_ser (blk_hdr : bytes) (txns : list bytes) : result bytes :=
  c <- compact_size_uint (Z.of_nat (length txns)) ;;
  Ok (blk_hdr ++ c ++ concat txns).

Definition block_header_deser (blk_hdr : bytes) : result header :=
  if (length blk_hdr =? 80)%nat then
    Ok (mk_header (of_le (firstn 4 blk_hdr)) (slice 4 36 blk_hdr) (slice 36 68 blk_hdr)
                  (of_le (slice 68 72 blk_hdr)) (slice 72 76 blk_hdr) (of_le (skipn 76 blk_hdr)))
  else Err AssertionE.

Section WithTxParser.
  Variable T : Type.
  Variable tx_deser : bytes -> result (T * bytes).

  (* while block_prime: ...  -- one unit of fuel per iteration; [acc] is txns in reverse *)
  Fixpoint block_txs_loop (fuel : nat) (block_prime : bytes) (acc : list T) : result (list T) :=
    match block_prime with
    | [] => Ok (rev acc)
    | _ :: _ =>
      match fuel with
      | O => Err FuelE
      | S fuel' =>
        '(deserialized_tx, block_prime') <- tx_deser block_prime ;;
        block_txs_loop fuel' block_prime' (deserialized_tx :: acc)
      end
    end.

  (* fuel = number of bytes after the count: never exhausted when every successful parse consumes at least
     one byte (Proofs/Block.v, block_deser_no_fuel) *)
  Definition block_deser (block : bytes) : result (header * list T) :=
    let header_ := firstn 80 block in
    '(number_of_txns, block_prime) <- parse_compact_size_uint (skipn 80 block) ;;
    txns <- block_txs_loop (length block_prime) block_prime [] ;;
    if Z.of_nat (length txns) =? number_of_txns then
      hd <- block_header_deser header_ ;; Ok (hd, txns)
    else Err AssertionE.
End WithTxParser.
