(* Executable model of src/bits/bips/bip173.py, src/bits/bips/bip350.py and the segwit-address
   functions of src/bits/utils.py AS THEY ARE WRITTEN (definitions only; proofs in Proofs/Bech32*.v).
   Python exceptions are [Err kind]: is_segwit_addr catches only AssertionError, so every other kind
   that could escape is kept visible (dict lookup = KeyE, list index = IndexE, int.to_bytes = OverflowE).
   Constants come from Spec/Bip173.v; GenProps/Bech32Gen.v proves the code's values equal them. *)
From Coq Require Import ZArith List Bool.
Require Import Bits.Lib.Result Bits.Lib.Bytes Bits.Spec.Bip173 Bits.Model.Base58.
Import ListNotations.
Import Coq.Init.Byte.
Local Open Scope Z_scope.
Local Open Scope result_scope.

(* ---------------- bip173.py: module constants ---------------- *)
Definition bech32_max_len : Z := max_len.
Definition bech32_chars : bytes := charset.
Definition bech32_separator : byte := separator.

(* bech32_int_map = {b.to_bytes(1,"big"): bech32_chars.index(b) for b in bech32_chars}
   keys are 1-byte strings; [d[k]] raises KeyError when absent *)
Definition int_map_byte (c : byte) : result Z := of_option KeyE (index_of c bech32_chars 0).
Definition int_map_get (k : bytes) : result Z :=
  match k with [c] => int_map_byte c | _ => Err KeyE end.
Definition int_map_mem (k : bytes) : bool :=
  match k with [c] => existsb (byte_eqb c) bech32_chars | _ => false end.

(* [x in bech32_chars] for an int x (byte value) / for a 1-byte string: membership in the table *)
Definition in_chars (c : byte) : bool := existsb (byte_eqb c) bech32_chars.

(* bech32_chars[i : i + 1]  (a slice: never raises) *)
Definition chars_slice (i : Z) : bytes := firstn 1 (skipn (Z.to_nat i) bech32_chars).

(* ---------------- CPython bytes methods used by parse_bech32 ---------------- *)
Definition ascii_upper (c : byte) : bool := (65 <=? b2z c) && (b2z c <=? 90).
Definition ascii_lower (c : byte) : bool := (97 <=? b2z c) && (b2z c <=? 122).
(* bytes.isupper(): at least one uppercase ASCII letter and no lowercase ASCII letter *)
Definition py_isupper (s : bytes) : bool := existsb ascii_upper s && negb (existsb ascii_lower s).
Definition py_islower (s : bytes) : bool := existsb ascii_lower s && negb (existsb ascii_upper s).
Definition py_lower (s : bytes) : bytes :=
  map (fun c => if ascii_upper c then z2b (b2z c + 32) else c) s.
(* bytes.split(sep) for a 1-byte separator: always a non-empty list *)
Fixpoint py_split (sep : byte) (s : bytes) : list bytes :=
  match s with
  | [] => [[]]
  | c :: r => if byte_eqb c sep then [] :: py_split sep r
              else match py_split sep r with
                   | h :: t => (c :: h) :: t
                   | [] => [[c]]
                   end
  end.
(* sep.join(parts) *)
Definition py_join (sep : byte) (parts : list bytes) : bytes :=
  match parts with
  | [] => []
  | p :: ps => p ++ flat_map (fun q => sep :: q) ps
  end.

Definition nonempty {A} (l : list A) : bool := match l with [] => false | _ => true end.
Definition lenZ {A} (l : list A) : Z := Z.of_nat (length l).
(* x in range(lo, hi) for an int x *)
Definition in_range_Z (x lo hi : Z) : bool := (lo <=? x) && (x <? hi).

(* ---------------- the checksum (the BIP173 reference code as copied into bip173.py) ---------------- *)
Definition gen_at (i : Z) : Z := nth (Z.to_nat i) GEN 0.

Definition polymod_step (chk v : Z) : Z :=
  let b := Z.shiftr chk 25 in
  let chk := Z.lxor (Z.shiftl (Z.land chk 0x1FFFFFF) 5) v in
  (* for i in range(5): chk ^= GEN[i] if ((b >> i) & 1) else 0 *)
  fold_left (fun chk i => Z.lxor chk (if Z.land (Z.shiftr b i) 1 =? 0 then 0 else gen_at i))
            [0; 1; 2; 3; 4] chk.

Definition bech32_polymod (values : list Z) : Z := fold_left polymod_step values 1.

(* [ord(x) >> 5 for x in s] + [0] + [ord(x) & 31 for x in s]   (s: list of 1-byte strings) *)
Definition bech32_hrp_expand (s : bytes) : list Z :=
  map (fun x => Z.shiftr (b2z x) 5) s ++ [0] ++ map (fun x => Z.land (b2z x) 31) s.

Definition bech32_verify_checksum (hrp : bytes) (data : list Z) (constant : Z) : bool :=
  bech32_polymod (bech32_hrp_expand hrp ++ data) =? constant.

Definition bech32_create_checksum (hrp : bytes) (data : list Z) (constant : Z) : list Z :=
  let values := bech32_hrp_expand hrp ++ data in
  let polymod := Z.lxor (bech32_polymod (values ++ [0; 0; 0; 0; 0; 0])) constant in
  map (fun i => Z.land (Z.shiftr polymod (5 * (5 - i))) 31) [0; 1; 2; 3; 4; 5].

(* ---------------- parse_bech32 ---------------- *)
Definition parse_bech32 (bytestring : bytes) : result (bytes * bytes) :=
  assert_ (lenZ bytestring <=? bech32_max_len) AssertionE ;;;
  assert_ (py_isupper bytestring || py_islower bytestring) AssertionE ;;;
  let bytestring := py_lower bytestring in
  assert_ (existsb (byte_eqb bech32_separator) bytestring) AssertionE ;;;
  let string_split := py_split bech32_separator bytestring in
  let hrp := py_join bech32_separator (removelast string_split) in
  assert_ (nonempty hrp) AssertionE ;;;
  Ok (hrp, last string_split []).

(* ---------------- assert_valid_bech32 ---------------- *)
Definition assert_valid_bech32 (hrp data : bytes) (constant : Z) : result unit :=
  assert_ (forallb (fun c => in_range_Z (b2z c) 33 127) hrp) AssertionE ;;;
  assert_ (in_range_Z (lenZ hrp) 1 84) AssertionE ;;;
  let checksum := lastn 6 data in
  assert_ (lenZ checksum =? 6) AssertionE ;;;
  assert_ (forallb in_chars checksum) AssertionE ;;;
  assert_ (forallb in_chars data) AssertionE ;;;
  vals <- mapM int_map_byte data ;;
  assert_ (bech32_verify_checksum hrp vals constant) AssertionE.

(* ---------------- bech32_encode ---------------- *)
(* range(n) *)
Definition py_range (n : Z) : list Z := map Z.of_nat (seq 0 (Z.to_nat n)).

(* the 8-to-5 regrouping on the big integer: returns the characters of the data part *)
Definition regroup_8to5 (data : bytes) : bytes :=
  let data_int := of_be data in
  let data_len := lenZ data in
  let groups_of_5 := data_len * 8 / 5 in
  let modulo := (data_len * 8) mod 5 in
  let groups_of_5' := if modulo =? 0 then groups_of_5 else groups_of_5 + 1 in
  let data_int' := if modulo =? 0 then data_int else Z.shiftl data_int (5 - modulo) in
  flat_map (fun i => chars_slice (Z.land (Z.shiftr data_int' (5 * (groups_of_5' - i - 1))) 0x1F))
           (py_range groups_of_5').

Definition bech32_encode (hrp data witness_version : bytes) (constant : Z) : result bytes :=
  assert_ (in_range_Z (lenZ hrp) 1 84) AssertionE ;;;
  assert_ (forallb (fun c => in_range_Z (b2z c) 33 127) hrp) AssertionE ;;;
  assert_ (in_range_Z (lenZ data) 0 (bech32_max_len - lenZ hrp - 1 - lenZ witness_version + 1))
          AssertionE ;;;
  let encoded := regroup_8to5 data in
  let data_part := witness_version ++ encoded in
  vals <- mapM int_map_byte data_part ;;
  let checksum := bech32_create_checksum hrp vals constant in
  let checksum := flat_map chars_slice checksum in
  Ok (hrp ++ [bech32_separator] ++ witness_version ++ encoded ++ checksum).

(* ---------------- bech32_decode ---------------- *)
Definition bech32_decode (data : bytes) : result bytes :=
  integers <- mapM int_map_byte data ;;
  let decoded_bits := 5 * lenZ integers in
  match integers with
  | [] => Err IndexE                                   (* integers[0] *)
  | i0 :: rest =>
    let decoded := fold_left (fun decoded integer => Z.lor (Z.shiftl decoded 5) integer) rest i0 in
    let modulo := decoded_bits mod 8 in
    if modulo =? 0 then to_be_chk (Z.to_nat (decoded_bits / 8)) decoded
    else
      assert_ (Z.land decoded (Z.shiftl 1 modulo - 1) =? 0) AssertionE ;;;
      assert_ (modulo <=? 4) AssertionE ;;;
      let decoded := Z.shiftr decoded modulo in
      let decoded_bits := decoded_bits - modulo in
      to_be_chk (Z.to_nat (decoded_bits / 8)) decoded
  end.

(* decode_bech32_string (not used by the segwit functions; modelled for completeness) *)
Definition decode_bech32_string (bytestring : bytes) (constant : Z) : result (bytes * bytes) :=
  '(hrp, data) <- parse_bech32 bytestring ;;
  assert_valid_bech32 hrp data constant ;;;
  let data := droplast 6 data in
  assert_ (nonempty data) AssertionE ;;;
  payload <- bech32_decode data ;;
  Ok (hrp, payload).

(* ---------------- utils.py ---------------- *)
Definition hrp_bc : bytes := [x62; x63].
Definition hrp_tb : bytes := [x74; x62].
Definition hrp_bcrt : bytes := [x62; x63; x72; x74].
Definition net_mainnet : bytes := [x6d; x61; x69; x6e; x6e; x65; x74].   (* "mainnet" *)
Definition net_testnet : bytes := [x74; x65; x73; x74; x6e; x65; x74].   (* "testnet" *)
Definition net_regtest : bytes := [x72; x65; x67; x74; x65; x73; x74].   (* "regtest" *)

Definition segwit_addr (data : bytes) (witness_version : Z) (network : bytes) : result bytes :=
  hrp <- (if bytes_eqb network net_mainnet then Ok hrp_bc
          else if bytes_eqb network net_testnet then Ok hrp_tb
          else if bytes_eqb network net_regtest then Ok hrp_bcrt
          else Err ValueE) ;;
  assert_ (in_range_Z witness_version 0 17) AssertionE ;;;
  let bech32_constant := if witness_version =? 0 then 1 else BECH32M_CONST in
  bech32_encode hrp data (chars_slice witness_version) bech32_constant.

Definition decode_segwit_addr_ (addr : bytes) (support_bip350 : bool) : result (bytes * Z * bytes) :=
  '(hrp, data) <- parse_bech32 addr ;;
  assert_ (nonempty (droplast 6 data)) AssertionE ;;;
  assert_ (int_map_mem (firstn 1 data)) AssertionE ;;;
  v0 <- int_map_get (firstn 1 data) ;;
  let bech32_constant := if negb (v0 =? 0) && support_bip350 then BECH32M_CONST else 1 in
  assert_valid_bech32 hrp data bech32_constant ;;;
  witness_version <- int_map_get (firstn 1 data) ;;
  assert_ (in_range_Z witness_version 0 17) AssertionE ;;;
  let data := droplast 6 (skipn 1 data) in              (* data[1:-6] *)
  assert_ (nonempty data) AssertionE ;;;
  witness_program <- bech32_decode data ;;
  Ok (hrp, witness_version, witness_program).

Definition decode_segwit_addr (addr : bytes) := decode_segwit_addr_ addr true.

Definition assert_valid_segwit (hrp : bytes) (witness_version : Z) (witness_program : bytes) : result unit :=
  assert_ (existsb (bytes_eqb hrp) [hrp_bc; hrp_tb; hrp_bcrt]) AssertionE ;;;
  assert_ (in_range_Z (lenZ witness_program) 2 41) AssertionE ;;;
  if witness_version =? 0
  then assert_ ((lenZ witness_program =? 20) || (lenZ witness_program =? 32)) AssertionE
  else Ok tt.

(* the body of the try-blocks of is_segwit_addr / assert_addr *)
Definition decode_valid (addr : bytes) : result (bytes * Z * bytes) :=
  '(hrp, witness_version, witness_program) <- decode_segwit_addr addr ;;
  assert_valid_segwit hrp witness_version witness_program ;;;
  Ok (hrp, witness_version, witness_program).

(* try: ...; return True   except AssertionError: return False   (anything else propagates) *)
Definition is_segwit_addr (addr : bytes) : result bool :=
  match decode_valid addr with
  | Ok _ => Ok true
  | Err AssertionE => Ok false
  | Err e => Err e
  end.

(* to_bitcoin_address(payload, network=..., witness_version=v)  with v not None *)
Definition to_bitcoin_address_witness (payload network : bytes) (witness_version : Z) : result bytes :=
  assert_ (bytes_eqb network net_mainnet || bytes_eqb network net_testnet || bytes_eqb network net_regtest)
          AssertionE ;;;
  assert_ (in_range_Z witness_version 0 17) AssertionE ;;;
  segwit_addr payload witness_version network.

Section WithHash.
  Variable sha256 : bytes -> bytes.

  Definition is_addr (addr : bytes) : result bool :=
    if is_base58check sha256 addr then Ok true
    else b <- is_segwit_addr addr ;; if b then Ok true else Ok false.

  (* returns True or raises AssertionError (the final raise reads errors[i].args[0]: every assert on
     the segwit path carries a message and base58's errors carry an argument) *)
  Definition assert_addr (addr : bytes) : result bool :=
    match base58check_decode sha256 addr with
    | Ok _ => Ok true
    | Err _ =>
      match decode_valid addr with
      | Ok _ => Ok true
      | Err AssertionE => Err AssertionE
      | Err e => Err e
      end
    end.
End WithHash.

(* ---------------- __main__.py: the `bits bech32` subcommand ----------------
   --decode:  raw stdin -> if bits.is_segwit_addr(s): decode_segwit_addr, print network/witness_version/
              witness_program; else: bip173.decode_bech32_string(s) (constant 1), print hrp/payload.
   encode:    data = read_bytes(...);
              if args.witness_version is not None and args.witness_version not in range(17): raise ValueError
              bip173.bech32_encode(args.hrp, data, witness_version=bech32_chars[wv:wv+1] or b"",
                                   constant=BECH32M_CONST if args.witness_version else 1)          (commit 442ffd4) *)
Inductive cli_decoded : Type :=
| CliSegwit (hrp : bytes) (witness_version : Z) (witness_program : bytes)
| CliBech32 (hrp payload : bytes).

Definition cli_bech32_decode (s : bytes) : result cli_decoded :=
  b <- is_segwit_addr s ;;
  if b then
    '(hrp, witness_version, witness_program) <- decode_segwit_addr s ;;
    (* bip173.hrp_network_map[hrp]: KeyError for an hrp outside the map *)
    assert_ (existsb (bytes_eqb hrp) [hrp_bc; hrp_tb; hrp_bcrt]) KeyE ;;;
    Ok (CliSegwit hrp witness_version witness_program)
  else
    '(hrp, payload) <- decode_bech32_string s 1 ;;
    Ok (CliBech32 hrp payload).

(* witness_version: None | int *)
Definition cli_bech32_encode (hrp data : bytes) (witness_version : option Z) (print_newline : bool) : result bytes :=
  (match witness_version with
   | Some v => if in_range_Z v 0 17 then Ok tt else Err ValueE
   | None => Ok tt
   end) ;;;
  let witness_version_byte := match witness_version with Some v => chars_slice v | None => [] end in
  (* `BECH32M_CONST if args.witness_version else 1`: None and 0 are falsy *)
  let constant := match witness_version with
                  | Some v => if v =? 0 then 1 else BECH32M_CONST
                  | None => 1
                  end in
  encoded <- bech32_encode hrp data witness_version_byte constant ;;
  Ok (if print_newline then encoded ++ [x0a] else encoded).
