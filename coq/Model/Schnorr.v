(* Executable model of src/bits/bips/bip340.py AS IT IS NOW (after fix 49abc10: length asserts),
   generic in the module constants SECP256K1_P/A/B/N/Gx/Gy exactly as the Python is (the `7` of
   lift_x is a literal in the code and a literal here).  Definitions only; proofs: Proofs/Schnorr.v.

   Exceptions: assert -> AssertionE; `raise ValueError` and the range checks of ecmath's field helpers ->
   ValueE; `x, y = None` (tuple unpacking of the point at infinity: in sign after point_scalar_mul, in
   point_negate(None) inside verify) -> TypeE; int.to_bytes(32) of a value >= 2^256 -> OverflowE.
   sha256 is bits.crypto.sha256 = hashlib (a section variable).  secrets.token_bytes(32) (aux omitted)
   is the explicit argument [rnd]. *)
From Coq Require Import ZArith List Bool.
Require Import Bits.Lib.Result Bits.Lib.Bytes Bits.Model.Ecmath Bits.Model.Keys Bits.Spec.Bip340.
Import ListNotations.
Import Coq.Init.Byte.
Local Open Scope Z_scope.
Local Open Scope result_scope.

(* the str "OK" returned by verify *)
Definition ok_str : bytes := [x4f; x4b].

Section Schnorr.
  Variables p a b n : Z.
  Variable G : point.
  Variable sha256 : bytes -> bytes.

  (* sha256(sha256(tag) + sha256(tag) + x) with tag = "<name>".encode("utf8"); the three string literals of
     the code are tied to Spec.tag_* by GenProps/Bip340Gen.v *)
  Definition tagged (tag x : bytes) : bytes := sha256 (sha256 tag ++ sha256 tag ++ x).

  (* pubkey(point): x, y = point; assert point_is_on_curve(x, y); x.to_bytes(32, "big") *)
  Definition pubkey (P : point) : result bytes :=
    match P with
    | None => Err TypeE
    | Some (x, y) =>
      oc <- point_is_on_curve p a b x y ;;
      if negb oc then Err AssertionE else to_be_chk 32 x
    end.

  (* the x-only public key of a secret key, as the tests/CLI compute it: pubkey(compute_point(key)) *)
  Definition pubkey_of_key (key : bytes) : result bytes :=
    P <- compute_point p a n G key ;; pubkey P.

  Definition lift_x (xb : bytes) : result (Z * Z) :=
    let x := of_be xb in
    if negb (x <? p) then Err AssertionE else                  (* assert int.from_bytes(x) < P *)
    x3 <- pow_mod_p p x 3 ;;
    c <- add_mod_p p x3 7 ;;
    y <- pow_mod_p p c ((p + 1) / 4) ;;
    y2 <- pow_mod_p p y 2 ;;
    if negb (c =? y2) then Err AssertionE else                 (* assert c == pow_mod_p(y, 2) *)
    Ok (if y mod 2 =? 0 then (x, y) else (x, p - y)).

  Definition verify (pk m sig : bytes) : result bytes :=
    if negb (Nat.eqb (length pk) 32) then Err AssertionE else
    if negb (Nat.eqb (length sig) 64) then Err AssertionE else
    P <- lift_x pk ;;
    let '(x, y) := P in
    oc <- point_is_on_curve p a b x y ;;
    if negb oc then Err AssertionE else
    let r := of_be (firstn 32 sig) in
    if negb (r <? p) then Err AssertionE else
    let s := of_be (skipn 32 sig) in
    if negb (s <? n) then Err AssertionE else
    rb <- to_be_chk 32 r ;;
    xb <- to_be_chk 32 x ;;
    let e := of_be (tagged tag_challenge (rb ++ xb ++ m)) mod n in
    sG <- point_scalar_mul p a s G ;;
    eP <- point_scalar_mul p a e (Some (x, y)) ;;
    neP <- point_negate p eP ;;                                (* point_negate(None): TypeError *)
    R <- point_add p a sG neP ;;
    match R with
    | None => Err AssertionE                                   (* assert R is not None *)
    | Some (Rx, Ry) =>
      if negb (Ry mod 2 =? 0) then Err AssertionE else         (* assert R[1] % 2 == 0 *)
      if negb (Rx =? r) then Err AssertionE else               (* assert R[0] == r *)
      Ok ok_str
    end.

  Definition sign (rnd key digest : bytes) (aux : option bytes) : result bytes :=
    let aux := match aux with Some x => x | None => rnd end in
    if negb (Nat.eqb (length key) 32) then Err AssertionE else
    if negb (Nat.eqb (length aux) 32) then Err AssertionE else
    let k0 := of_be key in
    if (k0 =? 0) || (n <=? k0) then Err ValueE else
    P <- point_scalar_mul p a k0 G ;;
    match P with
    | None => Err TypeE                                        (* Px, Py = None *)
    | Some (Px, Py) =>
      let d := if Py mod 2 =? 0 then k0 else n - k0 in
      t <- to_be_chk 32 (Z.lxor d (of_be (tagged tag_aux aux))) ;;
      pxb <- to_be_chk 32 Px ;;
      let rand := tagged tag_nonce (t ++ pxb ++ digest) in
      let k' := of_be rand mod n in
      if k' =? 0 then Err AssertionE else
      R <- point_scalar_mul p a k' G ;;
      match R with
      | None => Err TypeE                                      (* Rx, Ry = None *)
      | Some (Rx, Ry) =>
        let k := if Ry mod 2 =? 0 then k' else n - k' in
        rxb <- to_be_chk 32 Rx ;;
        let e := of_be (tagged tag_challenge (rxb ++ pxb ++ digest)) mod n in
        sb <- to_be_chk 32 ((k + e * d) mod n) ;;
        let sig := rxb ++ sb in
        _ <- verify pxb digest sig ;;                          (* assert verify(...): "OK" is truthy *)
        Ok sig
      end
    end.
End Schnorr.
