(* Executable model of bits.blockchain.target_threshold (/repo/src/bits/blockchain.py) AS IT IS NOW.
   Definitions only; proofs in Proofs/Target.v.

     def target_threshold(nBits: bytes) -> int:          # nBits in "rpc byte order" = big-endian, exponent byte first
         mantissa = nBits[-3:]
         exponent = int.from_bytes(nBits[:-3], "big")
         target = int.from_bytes(mantissa, "big") * 256 ** (exponent - len(mantissa))
         return target

   Python's `256 ** k` is an int for k >= 0 and a FLOAT for k < 0 (256.0 ** k, an exact power of two), and
   int * float is a float: for exponent < len(mantissa) the function returns a float, not an int.  The mantissa is
   < 2^24 and the power of two is 256^-1 .. 256^-3, so the product is exact in binary64; the model carries it as
   the exact ratio in lowest terms with positive denominator (Python: float.as_integer_ratio()).
   Nothing is refused: every byte string of every length gets an answer (no sign bit, no overflow test). *)
From Coq Require Import ZArith List Bool.
Require Import Bits.Lib.Result Bits.Lib.Bytes.
Import ListNotations.
Local Open Scope Z_scope.

(* a Python number the function can return *)
Inductive pynum : Type :=
| PInt (z : Z)
| PFloat (num den : Z).      (* the float num/den, gcd num den = 1, den > 0 *)

Definition py_float_ratio (n d : Z) : pynum :=
  let g := Z.gcd n d in PFloat (n / g) (d / g).

Definition target_threshold (nBits : bytes) : pynum :=
  let mantissa := lastn 3 nBits in
  let exponent := of_be (droplast 3 nBits) in
  let k := exponent - Z.of_nat (length mantissa) in
  if 0 <=? k then PInt (of_be mantissa * 256 ^ k)
  else py_float_ratio (of_be mantissa) (256 ^ (- k)).

(* the 4-byte argument callers pass: exponent byte, three mantissa bytes *)
Definition nbits_bytes (exponent mantissa : Z) : bytes := to_be 1 exponent ++ to_be 3 mantissa.
