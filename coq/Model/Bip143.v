(* Executable model of src/bits/bips/bip143.py (witness_message, witness_digest) AS WRITTEN, and of the
   serialisers it is fed with: src/bits/tx.py (outpoint, txin, txout) and src/bits/utils.py
   (compact_size_uint).  Definitions only; proofs are in Proofs/Bip143.v. *)
From Coq Require Import ZArith List Bool.
Require Import Bits.Lib.Result Bits.Lib.Bytes Bits.Spec.Bip143.
Import ListNotations.
Import Coq.Init.Byte.
Local Open Scope Z_scope.
Local Open Scope result_scope.

(* ---- Python primitives ---- *)

(* l[i] for a Python list: negative indices count from the end, IndexError outside [-len, len) *)
Definition py_index {A} (l : list A) (i : Z) : result A :=
  let n := Z.of_nat (length l) in
  let j := if i <? 0 then i + n else i in
  if (0 <=? j) && (j <? n) then of_option IndexE (nth_error l (Z.to_nat j)) else Err IndexE.

(* x in [c1, c2, ...] for ints *)
Definition mem_z (x : Z) (l : list Z) : bool := existsb (Z.eqb x) l.

(* ---- utils.compact_size_uint: ValueError below 0 and above 2^64-1 ---- *)
Definition compact_size_uint (n : Z) : result bytes :=
  if n <? 0 then Err ValueE
  else if (0 <=? n) && (n <=? 252) then Ok (to_le 1 n)
  else if (253 <=? n) && (n <=? 0xFFFF) then Ok (xfd :: to_le 2 n)
  else if (0x10000 <=? n) && (n <=? 0xFFFFFFFF) then Ok (xfe :: to_le 4 n)
  else if (0x100000000 <=? n) && (n <=? 0xFFFFFFFFFFFFFFFF) then Ok (xff :: to_le 8 n)
  else Err ValueE.

(* ---- tx.outpoint / tx.txin / tx.txout ---- *)
(* txid_ + index.to_bytes(4, "little") *)
Definition outpoint (txid_ : bytes) (index : Z) : result bytes :=
  ib <- to_le_chk 4 index ;;
  Ok (txid_ ++ ib).

(* prev_outpoint + compact_size_uint(len(script_sig)) + script_sig + sequence   (sequence is BYTES, unchecked) *)
Definition txin (prev_outpoint script_sig sequence : bytes) : result bytes :=
  cs <- compact_size_uint (Z.of_nat (length script_sig)) ;;
  Ok (prev_outpoint ++ cs ++ script_sig ++ sequence).

Definition default_sequence : bytes := [xff; xff; xff; xff].

(* value.to_bytes(8, "little") + compact_size_uint(len(script_pubkey)) + script_pubkey *)
Definition txout (value : Z) (script_pubkey : bytes) : result bytes :=
  vb <- to_le_chk 8 value ;;
  cs <- compact_size_uint (Z.of_nat (length script_pubkey)) ;;
  Ok (vb ++ cs ++ script_pubkey).

Section Model.
  Variable sha256 : bytes -> bytes.
  Definition hash256 (m : bytes) : bytes := sha256 (sha256 m).     (* hashlib.sha256(hashlib.sha256(m).digest()).digest() *)

  Definition zeros32 : bytes := repeat x00 32.                     (* b"\x00" * 32 *)

  (* bip143.witness_message(txins, txin_index, txin_value, scriptcode, txouts, version, locktime, sighash_flag)
     txin_value is modelled for ints only (int(txin_value) is the identity on ints). *)
  Definition witness_message (txins : list bytes) (txin_index : Z) (txin_value : Z) (scriptcode : bytes)
             (txouts : list bytes) (version locktime : Z) (sighash_flag : option Z) : result bytes :=
    let outpoints := map (firstn 36) txins in                       (* [txin[:36] for txin in txins] *)
    match sighash_flag with
    | None => Err TypeE                                             (* None & 0x80 *)
    | Some flag =>
      let anyone_can_pay := Z.land flag 0x80 in
      let hash_prevouts :=
          if anyone_can_pay =? 0 then hash256 (concat outpoints) else zeros32 in
      let sequences := map (lastn 4) txins in                       (* [txin[-4:] for txin in txins] *)
      let hash_sequence :=
          if mem_z flag [0x02; 0x03; 0x81; 0x82; 0x83] then zeros32
          else hash256 (concat sequences) in
      outpoint_ <- py_index outpoints txin_index ;;
      sequence <- py_index sequences txin_index ;;
      hash_outputs <-
        (if negb (mem_z (Z.land flag 0x7F) [0x02; 0x03])
         then Ok (hash256 (concat txouts))
         else if (Z.land flag 0x7F =? 0x03) && (txin_index <? Z.of_nat (length txouts))
         then (o <- py_index txouts txin_index ;; Ok (hash256 o))
         else Ok zeros32) ;;
      vb <- to_le_chk 4 version ;;
      ab <- to_le_chk 8 txin_value ;;
      lb <- to_le_chk 4 locktime ;;
      let msg := vb ++ hash_prevouts ++ hash_sequence ++ outpoint_ ++ scriptcode ++ ab ++ sequence
                    ++ hash_outputs ++ lb in
      fb <- to_le_chk 4 flag ;;                                      (* if sighash_flag is not None: msg += ... *)
      Ok (msg ++ fb)
    end.

  (* argument defaults: version=1, locktime=0, sighash_flag=None; [None] = argument omitted *)
  Definition witness_message_py (txins : list bytes) (txin_index txin_value : Z) (scriptcode : bytes)
             (txouts : list bytes) (version locktime sighash_flag : option Z) : result bytes :=
    witness_message txins txin_index txin_value scriptcode txouts
                    (match version with Some v => v | None => 1 end)
                    (match locktime with Some l => l | None => 0 end)
                    sighash_flag.

  Definition witness_digest (witness_msg : bytes) : bytes := hash256 witness_msg.

  (* ---- how a caller (tests/unit/test_bip143.py, the harness) feeds a structured transaction ----
       txins  = [txin(outpoint(txid, vout), scriptsig, sequence=seq.to_bytes(4,"little")) ...]
       txouts = [txout(value, scriptpubkey) ...]
       scriptcode = compact_size_uint(len(script)) + script *)
  Definition ser_in (i : tx_input) : result bytes :=
    op <- outpoint (ti_txid i) (ti_vout i) ;;
    sq <- to_le_chk 4 (ti_seq i) ;;
    txin op (ti_script i) sq.

  Definition ser_out (o : tx_output) : result bytes := txout (to_value o) (to_script o).

  Definition ser_scriptcode (script : bytes) : result bytes :=
    cs <- compact_size_uint (Z.of_nat (length script)) ;;
    Ok (cs ++ script).

  Definition witness_message_tx (t : tx) (txin_index txin_value : Z) (script : bytes) (sighash_flag : option Z)
    : result bytes :=
    txins <- mapM ser_in (tx_ins t) ;;
    txouts <- mapM ser_out (tx_outs t) ;;
    sc <- ser_scriptcode script ;;
    witness_message txins txin_index txin_value sc txouts (tx_version t) (tx_locktime t) sighash_flag.
End Model.
