(* Executable model of the rest of src/bits/wallet/hd.py, AS THE CODE IS NOW: derive_child and the class HD
   (__init__, from_mnemonic, from_xkey, get_root_keys, get_xkeys_from_path).  get_xpub / derive_from_path are in
   Model/Bip32.v, to_seed in Model/Bip39.v.  Definitions only; proofs in Proofs/Hd.v.

   Python [str] arguments are their UTF-8 bytes here; where the code's behaviour depends on the Python TYPE of the
   argument (str or bytes) the type is an explicit argument of the model.

   What the code does today (theorems in Props/C09Ext.v):
   * derive_child(xkey, index) raises for EVERY argument: a str that passes the "xprv"/"xpub" prefix test reaches
     base58decode, whose  data.lstrip(b"1")  is a TypeError on a str; a bytes argument fails earlier, at
     xkey.startswith("xprv")  (TypeError).  [derive_child] below is that function.  [derive_child_body] is the same
     function body with the one call  base58check_decode(xkey)  given the ASCII encoding of xkey (the harness makes
     exactly this substitution inside the worker), so that the rest of the code is modelled, compared with the code
     and related to derive_from_path.
   * HD.get_xkeys_from_path(path) raises for every path: it hands the TUPLE (k, c) returned by to_master_key to
     derive_from_path, whose deserialized_extended_key -> base58decode calls .lstrip on it (AttributeError); were it
     given the serialised root key, unpacking the returned bytes into five names would be the next error.
   * HD.from_mnemonic stores the mnemonic in the CLASS attribute HD.mnemonic: every later HD(...) in the process
     silently reuses it instead of drawing fresh entropy ([hd_init] takes the class attribute as an argument).
   * HD.strength is 8 * (number of characters of the mnemonic), not the entropy size.
   * from_mnemonic does not validate the phrase (any text is stretched by PBKDF2, as BIP39 permits for to_seed). *)
From Coq Require Import ZArith List Bool.
Require Import Bits.Lib.Result Bits.Lib.Bytes Bits.Model.Ecmath Bits.Model.Keys Bits.Model.Base58 Bits.Model.Sec1
  Bits.Model.Bip32 Bits.Model.Bip39.
Import ListNotations.
Import Coq.Init.Byte.
Local Open Scope Z_scope.
Local Open Scope result_scope.

Definition txt_xprv : bytes := [x78; x70; x72; x76].     (* "xprv" *)
Definition txt_xpub : bytes := [x78; x70; x75; x62].     (* "xpub" *)

(* not xkey.startswith("xprv") and not xkey.startswith("xpub") *)
Definition bad_text_prefix (xkey : bytes) : bool :=
  negb (starts_with txt_xprv xkey) && negb (starts_with txt_xpub xkey).

(* derive_child as it is; [is_str]: the argument is a Python str (the annotated type), else bytes / bytearray *)
Definition derive_child (is_str : bool) (xkey : bytes) (index : Z) : result bytes :=
  if is_str then
    if bad_text_prefix xkey then Err ValueE       (* must be xprv or xpub *)
    else Err TypeE                                (* base58decode(str): str.lstrip(b"1") *)
  else Err TypeE.                                 (* bytes.startswith("xprv") *)

(* len(str): code points = UTF-8 bytes that are not continuation bytes *)
Definition str_len (s : bytes) : Z :=
  Z.of_nat (length (filter (fun c => negb ((128 <=? b2z c) && (b2z c <? 192))) s)).

Section Hd.
  Variables p a b n : Z.
  Variable G : point.
  Variable hmac_sha512 : bytes -> bytes -> bytes.
  Variable sha256 ripemd160 : bytes -> bytes.

  Notation CKDpriv := (CKDpriv p a n G hmac_sha512).
  Notation CKDpub := (CKDpub p a n G hmac_sha512).
  Notation point_ := (point_ p a G).
  Notation hash160 := (hash160 sha256 ripemd160).

  (* the body of derive_child, base58check_decode applied to the ASCII bytes of xkey *)
  Definition derive_child_body (xkey : bytes) (index : Z) : result bytes :=
    if bad_text_prefix xkey then Err ValueE else
    decoded <- base58check_decode sha256 xkey ;;
    let version := firstn 4 decoded in
    if negb (bytes_eqb version VERSION_PRIVATE_MAINNET || bytes_eqb version VERSION_PUBLIC_MAINNET) then Err ValueE else
    let chain_code_parent := slice 13 45 decoded in
    let key_parent := skipn 45 decoded in
    let depth_parent := of_be (slice 4 5 decoded) in
    r <- match key_parent with
         | c0 :: rest =>
           if byte_eqb c0 x00 then
             if negb (starts_with txt_xprv xkey) then Err ValueE else     (* decoded key is private, expected public *)
             let k_p := of_be rest in
             child <- CKDpriv k_p chain_code_parent index ;;
             kb <- ser_256 (fst child) ;;
             P <- point_ k_p ;; pb <- ser_p P ;;
             Ok (snd child, x00 :: kb, firstn 4 (hash160 pb))
           else if byte_eqb c0 x02 || byte_eqb c0 x03 then
             if negb (starts_with txt_xpub xkey) then Err ValueE else     (* decoded key is public, expected private *)
             xy <- sec1_point p a b key_parent ;;
             child <- CKDpub (Some xy) chain_code_parent index ;;
             kd <- ser_p (fst child) ;;
             Ok (snd child, kd, firstn 4 (hash160 key_parent))
           else Err OtherE             (* the message reads key[0]: `key` is not yet bound, UnboundLocalError *)
         | [] => Err OtherE
         end ;;
    let '(chain_code, key_data, fp) := r in
    depth <- to_be_chk 1 (depth_parent + 1) ;;
    child_no <- to_be_chk 4 index ;;
    Ok (base58check sha256 (version ++ depth ++ fp ++ child_no ++ chain_code ++ key_data)).

  (* ---- class HD ---- *)
  Variable pbkdf2_hmac_sha512 : bytes -> bytes -> Z -> Z -> bytes.
  Variable nfkd : bytes -> bytes.

  (* HD.get_root_keys on extended_master_key = (k, c): BIP43 = always the mainnet version bytes *)
  Definition get_root_keys (k : Z) (c : bytes) : result (bytes * bytes) :=
    xprv <- root_serialized_extended_key sha256 (KPriv k) c false ;;
    P <- point_ k ;;
    xpub <- root_serialized_extended_key sha256 (KPub P) c false ;;
    Ok (xprv, xpub).

  (* HD.__init__(passphrase) with the class attribute HD.mnemonic = cls_mnemonic.  [fresh]: the phrase
     bip39.calculate_mnemonic_phrase(secrets.token_bytes(strength // 8)) drawn when the class has none (the draw is an
     argument, as every randomness; that function is Model/Bip39.v, checked by C10).
     Result: (root_xprv, root_xpub, self.strength, self.seed, self.mnemonic) *)
  Definition hd_init (cls_mnemonic passphrase fresh : bytes) : result (bytes * bytes * Z * bytes * bytes) :=
    let mnemonic := match cls_mnemonic with [] => fresh | _ :: _ => cls_mnemonic end in
    let strength := str_len mnemonic * 8 in
    let seed := to_seed pbkdf2_hmac_sha512 nfkd mnemonic passphrase in
    kc <- to_master_key hmac_sha512 seed ;;
    keys <- get_root_keys (fst kc) (snd kc) ;;
    Ok (fst keys, snd keys, strength, seed, mnemonic).

  (* HD.from_mnemonic(mnemonic, passphrase): cls.mnemonic = mnemonic; return cls(passphrase=passphrase).
     Result: the object's fields and the NEW value of the class attribute *)
  Definition from_mnemonic (mnemonic passphrase fresh : bytes)
    : result (bytes * bytes * Z * bytes * bytes) * bytes :=
    (hd_init mnemonic passphrase fresh, mnemonic).

  (* from_mnemonic(m1, p1) followed by HD(passphrase=p2) in the same process *)
  Definition from_mnemonic_then_new (m1 p1 fresh1 p2 fresh2 : bytes) : result (bytes * bytes * Z * bytes * bytes) :=
    let '(r1, cls) := from_mnemonic m1 p1 fresh1 in
    _ <- r1 ;; hd_init cls p2 fresh2.

  (* HD.from_xkey: raise NotImplementedError *)
  Definition from_xkey (xkey : bytes) : result unit := Err OtherE.

  (* HD.get_xkeys_from_path(path) on an object whose extended_master_key is (k, c):
     derive_from_path(path, (k, c)) -> deserialized_extended_key((k, c)) -> base58decode: tuple.lstrip, AttributeError,
     before the path is looked at *)
  Definition get_xkeys_from_path (k : Z) (c : bytes) (path : bytes) : result (bytes * bytes) := Err AttributeE.
End Hd.
