(* Executable model of utils.wif_encode / wif_decode.  str arguments (network, addr_type) are their UTF-8 bytes.
   The dict tables are Spec/Wif.v's (GenProps/WifGen.v: the tables /repo defines NOW are equal to them).
   Definitions only; proofs in Proofs/Wif.v. *)
From Coq Require Import ZArith List Bool.
Require Import Bits.Lib.Result Bits.Lib.Bytes Bits.Model.Base58 Bits.Model.Keys Bits.Spec.Wif.
Import ListNotations.
Local Open Scope Z_scope.
Local Open Scope result_scope.

(* dict[key] with str keys; KeyError when absent *)
Fixpoint lookup_str {A} (k : bytes) (tbl : list (bytes * A)) : result A :=
  match tbl with
  | [] => Err KeyE
  | (k', v) :: rest => if bytes_eqb k' k then Ok v else lookup_str k rest
  end.
Fixpoint lookup_int {A} (k : Z) (tbl : list (Z * A)) : result A :=
  match tbl with
  | [] => Err KeyE
  | (k', v) :: rest => if k' =? k then Ok v else lookup_int k rest
  end.

Section Wif.
  Variable sha256 : bytes -> bytes.
  Variable n : Z.                       (* SECP256K1_N, read by privkey_int *)

  Definition wif_encode (key addr_type network data : bytes) : result bytes :=
    _ <- privkey_int n key ;;                                   (* key validation: AssertionError *)
    base <- lookup_str network network_base ;;
    off <- lookup_str addr_type script_offset ;;
    prefix <- to_be_chk 1 (base + off) ;;
    Ok (base58check sha256 (prefix ++ key ++ data)).            (* if data: wif += data *)

  (* return_dict=True carries everything (version, network, addr_type, key, data); the plain call returns
     (version, key, data).  No check of the key length or range is made by the decoder. *)
  Definition wif_decode_full (w : bytes) : result (bytes * bytes * bytes * bytes * bytes) :=
    decoded <- base58check_decode sha256 w ;;
    let version := firstn 1 decoded in
    let key := slice 1 33 decoded in
    let data := skipn 33 decoded in
    '(net, ty) <- lookup_int (of_be version) version_table ;;   (* WIF_TYPE_COMBINATIONS_MAP[...] *)
    Ok (version, net, ty, key, data).

  Definition wif_decode (w : bytes) : result (bytes * bytes * bytes) :=
    '(version, _, _, key, data) <- wif_decode_full w ;; Ok (version, key, data).
End Wif.
