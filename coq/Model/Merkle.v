(* Executable model of bits.blockchain.merkle_root (/repo/src/bits/blockchain.py) AS IT IS NOW
   (definitions only; proofs in Proofs/Merkle.v):

     def merkle_root(txns):
         row = copy.copy(txns)
         if len(row) == 1:
             return row[0]
         while len(row) >= 2:
             if len(row) % 2:
                 row += [row[-1]]
             branches = []
             for i in range(0, len(row), 2):
                 branches.append(bits.crypto.hash256(row[i] + row[i + 1]))      # IndexError if row[i+1] is absent
             row = branches
         return row[0]                                                          # IndexError on the empty list

   bits.crypto.hash256(m) = sha256(sha256(m)); sha256 (hashlib) is a Section variable. *)
From Coq Require Import ZArith List Bool.
Require Import Bits.Lib.Result Bits.Lib.Bytes.
Import ListNotations.
Local Open Scope result_scope.

Section WithHash.
  Variable sha256 : bytes -> bytes.
  Definition hash256 (m : bytes) : bytes := sha256 (sha256 m).

  (* for i in range(0, len(row), 2): branches.append(hash256(row[i] + row[i + 1])) *)
  Fixpoint hash_pairs (row : list bytes) : result (list bytes) :=
    match row with
    | [] => Ok []
    | [_] => Err IndexE
    | a :: b :: rest => branches <- hash_pairs rest ;; Ok (hash256 (a ++ b) :: branches)
    end.

  (* if len(row) % 2: row += [row[-1]] *)
  Definition dup_last_if_odd (row : list bytes) : list bytes :=
    if Nat.odd (length row) then row ++ [last row []] else row.

  (* the while loop; one unit of fuel per iteration *)
  Fixpoint merkle_loop (fuel : nat) (row : list bytes) : result bytes :=
    if (2 <=? length row)%nat then
      match fuel with
      | O => Err FuelE
      | S fuel' =>
        branches <- hash_pairs (dup_last_if_odd row) ;;
        merkle_loop fuel' branches
      end
    else of_option IndexE (hd_error row).

  Definition merkle_root_fuel (fuel : nat) (txns : list bytes) : result bytes :=
    if (length txns =? 1)%nat then of_option IndexE (hd_error txns)
    else merkle_loop fuel txns.

  (* fuel = number of txids: never exhausted (Proofs/Merkle.v, merkle_root_no_fuel) *)
  Definition merkle_root (txns : list bytes) : result bytes := merkle_root_fuel (length txns) txns.
End WithHash.
