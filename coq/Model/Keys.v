(* Model of utils.privkey_int / compute_point and keys.key / keys.pub (generic in the curve). *)
From Coq Require Import ZArith List Bool.
Require Import Bits.Lib.Result Bits.Lib.Bytes Bits.Model.Ecmath.
Import ListNotations.
Local Open Scope Z_scope.
Local Open Scope result_scope.

Section Keys.
  Variables p a n : Z.
  Variable G : point.

  (* assert len(privkey_) == 32; p = int.from_bytes(...); assert p > 0 and p < N *)
  Definition privkey_int (k : bytes) : result Z :=
    if negb (Nat.eqb (length k) 32) then Err AssertionE else
    let v := of_be k in
    if (0 <? v) && (v <? n) then Ok v else Err AssertionE.

  Definition compute_point (k : bytes) : result point :=
    v <- privkey_int k ;; point_scalar_mul p a v G.

  (* keys.key(): (secrets.randbelow(N - 1) + 1).to_bytes(32, "big"), the draw is an argument *)
  Definition key_of_draw (d : Z) : result bytes := to_be_chk 32 (d + 1).
End Keys.
