(* Executable model of the block-assembly lines of bits.integrations.mine_block (/repo/src/bits/integrations.py)
   AS THEY ARE NOW: from the mempool transactions to the coinbase transaction and the merkle root of the new
   block (the RPC calls, the clock and the nonce search are not modelled).  Definitions only.

       must_commit_wtxid = False
       wtxids = [b"\x00" * 32]                                   # coinbase tx wtxid assumed to be 0s
       for raw_tx in mempool_raw_txns:
           deserialized_tx, _ = bits.tx.tx_deser(bytes.fromhex(raw_tx))
           if txid_ != wtxid_: must_commit_wtxid = True
           wtxids.append(wtxid_)
       witness_merkle_root_hash = bits.blockchain.merkle_root(wtxids)
       witness_merkle_root_hash = bits.crypto.hash256(witness_merkle_root_hash + WITNESS_RESERVED_VALUE)
       txns = [bits.tx.coinbase_tx(b"bits", script_pubkey, block_height=current_block_height + 1,
                                   regtest=is_regtest,
                                   witness_merkle_root_hash=witness_merkle_root_hash if must_commit_wtxid else None)
              ] + mempool raw txns
       txids = [txid of tx_deser(tx_) for tx_ in txns]
       merkle_root_hash = bits.blockchain.merkle_root(txids)                                              *)
From Coq Require Import ZArith List Bool.
Require Import Bits.Lib.Result Bits.Lib.Bytes Bits.Model.CompactSize Bits.Model.Witness Bits.Model.Tx.
Require Import Bits.Model.Merkle Bits.Model.Coinbase.
Import ListNotations.
Import Coq.Init.Byte.
Local Open Scope Z_scope.
Local Open Scope result_scope.

Section WithHash.
  Variable sha256 : bytes -> bytes.

  Definition deser_ids (raw : bytes) : result (bytes * bytes) :=
    '(p, _) <- tx_deser sha256 raw ;; Ok (p_txid p, p_wtxid p).

  Definition mine_block_assemble (script_pubkey : bytes) (current_block_height : Z) (is_regtest : bool)
             (mempool_raw_txns : list bytes) : result (bytes * bytes) :=
    ids <- mapM deser_ids mempool_raw_txns ;;
    let must_commit_wtxid := existsb (fun i => negb (bytes_eqb (fst i) (snd i))) ids in
    commitment <- mine_block_commitment sha256 (map snd ids) ;;
    cb <- coinbase_tx [x62; x69; x74; x73] script_pubkey None (Some (current_block_height + 1)) is_regtest
                      (if must_commit_wtxid then Some commitment else None) ;;
    all_ids <- mapM deser_ids (cb :: mempool_raw_txns) ;;
    merkle_root_hash <- merkle_root sha256 (map fst all_ids) ;;
    Ok (cb, merkle_root_hash).
End WithHash.
