(* Executable model of two more payload builders of /repo/src/bits/p2p.py AS THEY ARE NOW (definitions only; proofs in
   Proofs/P2pCodecExt.v).  Neither has a parser of its own in the module (parse_payload(b"getblocks"/b"headers", .)
   finds no parse_<command>_payload and returns None); a getblocks payload has the layout parse_getheaders_payload reads.

     def getblocks_payload(block_header_hashes: List[bytes], protocol_version: int = 70015) -> bytes:
         stop_hash = b"\x00" * 32
         return (protocol_version.to_bytes(4, "little") + bits.compact_size_uint(len(block_header_hashes))
                 + b"".join(block_header_hashes) + stop_hash)

     def headers_payload(count: int, headers: List[bytes]) -> bytes:
         """... count: int, number of block headers - max of 2000 ..."""
         payload_ = bits.compact_size_uint(count) + b"".join([header + b"\x00" for header in headers])
         return payload_                                                                                        *)
From Coq Require Import ZArith List Bool.
Require Import Bits.Lib.Result Bits.Lib.Bytes Bits.Model.CompactSize Bits.Model.P2pCodec.
Import ListNotations.
Import Coq.Init.Byte.
Local Open Scope Z_scope.
Local Open Scope result_scope.

Definition getblocks_default_version : Z := 70015.

Definition getblocks_payload (block_header_hashes : list bytes) (protocol_version : Z) : result bytes :=
  let stop_hash := repeat x00 32 in
  pv <- to_le_chk 4 protocol_version ;;
  hc <- compact_size_uint (Z.of_nat (length block_header_hashes)) ;;
  Ok (pv ++ hc ++ concat block_header_hashes ++ stop_hash).

(* the call with / without the optional argument *)
Definition getblocks_payload_opt (block_header_hashes : list bytes) (protocol_version : option Z) : result bytes :=
  getblocks_payload block_header_hashes
    (match protocol_version with Some v => v | None => getblocks_default_version end).

Definition headers_payload (count : Z) (headers : list bytes) : result bytes :=
  c <- compact_size_uint count ;;
  Ok (c ++ concat (map (fun header => header ++ [x00]) headers)).
