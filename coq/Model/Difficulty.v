(* Executable model of bits.blockchain.difficulty (/repo/src/bits/blockchain.py) AS IT IS NOW, for an INTEGER target
   (what target_threshold returns for exponent >= 3).  Definitions only; proofs in Proofs/Difficulty.v.

     MAX_TARGET = 0x00000000FFFF0000000000000000000000000000000000000000000000000000
     MAX_TARGET_REGTEST = 0x7FFFFF0000000000000000000000000000000000000000000000000000000000

     def difficulty(target: int, network: str = "mainnet") -> float:
         if network == "mainnet" or network == "testnet":
             return MAX_TARGET / target
         elif network == "regtest":
             return MAX_TARGET_REGTEST / target
         else:
             raise ValueError("unrecognized network")

   `int / int` is CPython's long_true_divide: the binary64 number nearest to the exact quotient, ties to even,
   gradual underflow below 2^-1022 (unit 2^-1074), OverflowError at 2^1024, ZeroDivisionError for a zero divisor.
   The float is carried as its exact ratio (Model/Target.v [PFloat], Python: float.as_integer_ratio()).
   A float target (target_threshold with exponent < 3) is outside this model. *)
From Coq Require Import ZArith List Bool.
Require Import Bits.Lib.Result Bits.Lib.Bytes Bits.Model.Target.
Import ListNotations.
Import Coq.Init.Byte.
Local Open Scope Z_scope.

Definition MAX_TARGET : Z := 65535 * 2 ^ 208.
Definition MAX_TARGET_REGTEST : Z := 8388607 * 2 ^ 232.

(* nearest integer to n/d (d > 0), ties to even *)
Definition round_half_even (n d : Z) : Z :=
  let q := n / d in
  let r := n mod d in
  if 2 * r <? d then q else if d <? 2 * r then q + 1 else if Z.even q then q else q + 1.

Definition pow2_pos (k : Z) : Z := if 0 <=? k then 2 ^ k else 1.     (* 2^max(0,k) *)

(* a > 0, b > 0: (m, e) with m * 2^e the binary64 nearest to a/b *)
Definition true_div_me (a b : Z) : Z * Z :=
  let d := Z.log2 a - Z.log2 b in                                   (* 2^(d-1) < a/b < 2^(d+1) *)
  let fl := if b * pow2_pos d <=? a * pow2_pos (- d) then d else d - 1 in    (* floor(log2(a/b)) *)
  let e := Z.max (fl - 52) (-1074) in                                (* unit in the last place *)
  (round_half_even (a * pow2_pos (- e)) (b * pow2_pos e), e).

(* Python's a / b on ints, as a float *)
Definition true_div (a b : Z) : result pynum :=
  if b =? 0 then Err OtherE                                          (* ZeroDivisionError *)
  else if a =? 0 then Ok (PFloat 0 1)
  else
    let s := Z.sgn a * Z.sgn b in
    let '(m, e) := true_div_me (Z.abs a) (Z.abs b) in
    if 2 ^ 1024 <=? m * pow2_pos e then Err OverflowE
    else Ok (py_float_ratio (s * m * pow2_pos e) (pow2_pos (- e))).

Definition s_mainnet : bytes := [x6d; x61; x69; x6e; x6e; x65; x74].
Definition s_testnet : bytes := [x74; x65; x73; x74; x6e; x65; x74].
Definition s_regtest : bytes := [x72; x65; x67; x74; x65; x73; x74].

Definition difficulty (target : Z) (network : bytes) : result pynum :=
  if bytes_eqb network s_mainnet || bytes_eqb network s_testnet then true_div MAX_TARGET target
  else if bytes_eqb network s_regtest then true_div MAX_TARGET_REGTEST target
  else Err ValueE.
