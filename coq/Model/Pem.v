(* Executable model of pem.encode_pem / decode_base64_pem (armor) and utils.pem_encode_key / pem_decode_key /
   pubkey_from_pem.  base64 itself is NOT repo code: [b64enc] = base64.b64encode (one chunk, no newline) and
   [b64dec] = binascii.a2b_base64 (what base64.decodebytes calls; None = binascii.Error, a ValueError).
   base64.encodebytes is the stdlib loop over MAXBINSIZE-byte chunks; the repo patches MAXLINESIZE = 64, hence
   MAXBINSIZE = 48, at import of bits.pem -- that chunking is modelled here.  os.linesep is "\n" (POSIX).
   The two regular expressions of decode_base64_pem are modelled by [re_search] (leftmost match, greedy ".+",
   "." = any byte but "\n").  Definitions only; proofs in Proofs/Pem.v. *)
From Coq Require Import ZArith List Bool.
Require Import Bits.Lib.Result Bits.Lib.Bytes Bits.Model.Ecmath Bits.Model.Keys Bits.Model.Sec1 Bits.Model.Asn1.
Import ListNotations.
Import Coq.Init.Byte.
Local Open Scope Z_scope.
Local Open Scope result_scope.

Definition nl : byte := x0a.
Definition dashes : bytes := [x2d; x2d; x2d; x2d; x2d].
(* b"-----BEGIN "  /  b"-----END " *)
Definition begin_pre : bytes := dashes ++ [x42; x45; x47; x49; x4e; x20].
Definition end_pre : bytes := dashes ++ [x45; x4e; x44; x20].
(* b"EC PRIVATE KEY" / b"PUBLIC KEY" *)
Definition label_priv : bytes := [x45; x43; x20; x50; x52; x49; x56; x41; x54; x45; x20; x4b; x45; x59].
Definition label_pub : bytes := [x50; x55; x42; x4c; x49; x43; x20; x4b; x45; x59].

(* bytes.strip(): ASCII whitespace b" \t\n\r\x0b\x0c" *)
Definition is_ws (c : byte) : bool :=
  match c with x20 | x09 | x0a | x0d | x0b | x0c => true | _ => false end.
Fixpoint lstrip_ws (l : bytes) : bytes :=
  match l with
  | c :: tl => if is_ws c then lstrip_ws tl else l
  | [] => []
  end.
Definition strip (l : bytes) : bytes := rev (lstrip_ws (rev (lstrip_ws l))).

Fixpoint starts_with (pre s : bytes) : bool :=
  match pre, s with
  | [], _ => true
  | c :: pre', d :: s' => byte_eqb c d && starts_with pre' s'
  | _ :: _, [] => false
  end.

Fixpoint take_line (s : bytes) : bytes :=
  match s with
  | [] => []
  | c :: tl => if byte_eqb c nl then [] else c :: take_line tl
  end.

(* end offset (within the line) of the LAST "-----" that has at least one character before it:
   the greedy ".+-----" *)
Fixpoint last_dashes (line : bytes) (i : nat) (best : option nat) : option nat :=
  match line with
  | [] => best
  | _ :: tl =>
    last_dashes tl (S i) (if Nat.leb 1 i && starts_with dashes line then Some (i + 5)%nat else best)
  end.

(* length of the match of  pre ".+-----"  anchored at the start of s *)
Definition match_here (pre s : bytes) : option nat :=
  if starts_with pre s then
    match last_dashes (take_line (skipn (length pre) s)) 0 None with
    | Some e => Some (length pre + e)%nat
    | None => None
    end
  else None.

(* re.search: (start, end) of the leftmost match *)
Fixpoint re_search (pre s : bytes) (i : nat) : option (nat * nat) :=
  match match_here pre s with
  | Some len => Some (i, (i + len)%nat)
  | None => match s with [] => None | _ :: tl => re_search pre tl (S i) end
  end.

Section Pem.
  Variable b64enc : bytes -> bytes.
  Variable b64dec : bytes -> option bytes.

  (* base64.encodebytes with MAXBINSIZE = 48: b2a_base64(chunk) = b64encode(chunk) + b"\n" per chunk *)
  Fixpoint encodebytes_aux (fuel : nat) (s : bytes) : bytes :=
    match fuel with
    | O => []
    | S f => match s with
             | [] => []
             | _ => b64enc (firstn 48 s) ++ [nl] ++ encodebytes_aux f (skipn 48 s)
             end
    end.
  Definition encodebytes (s : bytes) : bytes := encodebytes_aux (length s) s.

  Definition encode_pem (der header footer : bytes) : bytes :=
    header ++ [nl] ++ encodebytes der ++ footer ++ [nl].

  Definition decode_base64_pem (pem : bytes) : result bytes :=
    let s := strip pem in
    match re_search begin_pre s 0 with
    | Some (O, he) =>
      match re_search end_pre s 0 with
      | Some (fs, fe) =>
        if Nat.eqb fe (length s) then of_option ValueE (b64dec (strip (slice he fs s)))
        else Err ValueE                                       (* must end with pem footer *)
      | None => Err ValueE
      end
    | _ => Err ValueE                                         (* must start with pem header *)
    end.

  (* ---- utils.pem_decode_key: indexing into the parsed tree ---- *)
  Definition node_value (nd : node) : value := match nd with Node _ _ v => v end.

  (* v[i][2] where v is a parsed value: a list of nodes, bytes (v[i] is an int: TypeError) or a str
     (v[i] is a 1-character str: [2] is out of range) *)
  Definition sub (v : value) (i : nat) : result value :=
    match v with
    | VList l => match nth_error l i with Some nd => Ok (node_value nd) | None => Err IndexE end
    | VBytes bs => if Nat.ltb i (length bs) then Err TypeE else Err IndexE
    | VOid _ => Err IndexE
    end.

  (* v[1:]; slicing the str of an OID is outside the modelled domain (Err OtherE) *)
  Definition tail_value (v : value) : result value :=
    match v with
    | VList l => Ok (VList (tl l))
    | VBytes bs => Ok (VBytes (tl bs))
    | VOid _ => Err OtherE
    end.

  Definition is_bytes_01 (v : value) : bool :=
    match v with VBytes [x01] => true | _ => false end.
  Definition is_ecPublicKey (v : value) : bool :=
    match v with VOid IdEcPublicKey => true | _ => false end.

  (* returns the tuple as a list: [privkey; pubkey] or [pubkey] *)
  Definition pem_decode_key (pem : bytes) : result (list value) :=
    der <- decode_base64_pem pem ;;
    parsed <- parse_asn1_top der ;;
    top <- sub (VList parsed) 0 ;;                 (* parsed[0][2] *)
    f0 <- sub top 0 ;;                             (* parsed[0][2][0][2] *)
    if is_bytes_01 f0 then
      k <- sub top 1 ;;                            (* parsed[0][2][1][2] *)
      c3 <- sub top 3 ;;
      bs <- sub c3 0 ;;                            (* parsed[0][2][3][2][0][2] *)
      pk <- tail_value bs ;;
      Ok [k; pk]
    else
      alg <- sub f0 0 ;;                           (* parsed[0][2][0][2][0][2] *)
      if is_ecPublicKey alg then
        bs <- sub top 1 ;; pk <- tail_value bs ;; Ok [pk]
      else Err ValueE.

  (* pubkey_from_pem: the public-key element for a private PEM, the 1-tuple ITSELF for a public PEM *)
  Definition pubkey_from_pem (pem : bytes) : result (value + list value) :=
    d <- pem_decode_key pem ;;
    match d with
    | [_; pk] => Ok (inl pk)
    | _ => Ok (inr d)
    end.

  (* ---- utils.pem_encode_key ---- *)
  Variables p a n : Z.
  Variable G : point.

  Definition priv_tree (key pub : bytes) : node :=
    Node (Tag T_SEQUENCE true 0) 116 (VList
      [ Node (Tag T_INTEGER false 0) 1 (VBytes [x01]);
        Node (Tag T_OCTETSTRING false 0) 32 (VBytes key);
        Node (Tag 0 true 2) 7 (VList [Node (Tag T_OID false 0) 5 (VOid IdAnsip256k1)]);
        Node (Tag 1 true 2) 68 (VList [Node (Tag T_BITSTRING false 0) 66 (VBytes (x00 :: pub))]) ]).

  Definition pub_tree (key : bytes) : node :=
    let long := Nat.eqb (length key) 65 in
    Node (Tag T_SEQUENCE true 0) (if long then 86 else 54) (VList
      [ Node (Tag T_SEQUENCE true 0) 16 (VList
          [ Node (Tag T_OID false 0) 7 (VOid IdEcPublicKey);
            Node (Tag T_OID false 0) 5 (VOid IdAnsip256k1) ]);
        Node (Tag T_BITSTRING false 0) (if long then 66 else 34) (VBytes (x00 :: key)) ]).

  Definition pem_header (label : bytes) : bytes := begin_pre ++ label ++ dashes.
  Definition pem_footer (label : bytes) : bytes := end_pre ++ label ++ dashes.

  (* the DER bytes handed to encode_pem *)
  Definition der_encode_key (key : bytes) : result bytes :=
    if Nat.eqb (length key) 32 then
      P <- compute_point p a n G key ;;
      match P with
      | None => Err TypeE                                    (* pubkey( *None ) *)
      | Some (x, y) => pub <- pubkey x y false ;; encode_node (priv_tree key pub)
      end
    else if Nat.eqb (length key) 33 || Nat.eqb (length key) 65 then encode_node (pub_tree key)
    else Err ValueE.

  Definition pem_encode_key (key : bytes) : result bytes :=
    der <- der_encode_key key ;;
    let label := if Nat.eqb (length key) 32 then label_priv else label_pub in
    Ok (encode_pem der (pem_header label) (pem_footer label)).
End Pem.
