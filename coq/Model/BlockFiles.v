(* Executable model of bits.p2p.write_blocks_to_disk (/repo/src/bits/p2p.py) AS IT IS NOW (definitions only;
   proofs in Proofs/BlockFiles.v, Proofs/BlockNames.v):

     def write_blocks_to_disk(blocks, datadir):
         if not os.path.exists(datadir): os.makedirs(datadir)
         dat_files = sorted([f for f in os.listdir(datadir) if f.endswith(".dat")])
         filepath = join(datadir, "blk00000.dat") if not dat_files else join(datadir, dat_files[-1])
         dat_file = open(filepath, "ab")
         for blk in blocks:
             blk_data = MAGIC_START_BYTES + len(blk).to_bytes(4, "little") + blk
             if len(blk_data) + dat_file.tell() > MAX_BLOCKFILE_SIZE:
                 dat_file.close()
                 new_blk_no = int(os.path.split(filepath)[-1].split(".dat")[0].split("blk")[-1]) + 1
                 filename = f"blk{str(new_blk_no).zfill(5)}.dat"
                 filepath = os.path.join(datadir, filename)
                 dat_file = open(filepath, "ab")
             dat_file.write(blk_data)
         dat_file.close()

   The directory is [files : list (N * bytes)]: file number n stands for the file named [blk_name n]
   (the directory is assumed to contain only such files, each number once).  The "current" file is chosen as
   the code does: the LEXICOGRAPHICALLY greatest name.  The function is modelled by the trace of primitive
   file operations it performs (Open n = open(blk_name n, "ab"), Write bs, Close); the resulting directory is
   that trace run on the initial directory.  tell() = size of the file opened for appending.
   Not modelled: torn writes inside one write(), buffering/fsync, directory-entry durability;
   len(blk).to_bytes(4) raising OverflowError for blocks of 4 GiB and more (excluded by hypothesis). *)
From Coq Require Import ZArith NArith List Bool.
Require Import Bits.Lib.Result Bits.Lib.Bytes Bits.Lib.Radix.
Import ListNotations.
Import Coq.Init.Byte.
Local Open Scope Z_scope.

Definition files : Type := list (N * bytes).

Inductive prim : Type :=
| Open (n : N)
| Write (bs : bytes)
| Close.

(* ------------------------------------------------------------------ file names *)
(* str(n) *)
Definition decimal (n : N) : list Z :=
  match digits (S (N.size_nat n)) 10 (Z.of_N n) with
  | [] => [0]
  | ds => ds
  end.
(* s.zfill(5) on a digit string *)
Definition zfill5 (ds : list Z) : list Z := repeat 0 (5 - length ds) ++ ds.
Definition digit_char (d : Z) : byte := z2b (48 + d).
(* f"blk{str(n).zfill(5)}.dat" *)
Definition blk_name (n : N) : bytes :=
  [x62; x6c; x6b] ++ map digit_char (zfill5 (decimal n)) ++ [x2e; x64; x61; x74].

(* a < b for Python str / bytes comparison *)
Fixpoint lex_ltb (a b : bytes) : bool :=
  match a, b with
  | _, [] => false
  | [], _ :: _ => true
  | x :: a', y :: b' => if b2z x <? b2z y then true else if b2z y <? b2z x then false else lex_ltb a' b'
  end.

(* sorted(names)[-1], as a file number; None for an empty directory *)
Fixpoint pick_last (ns : list N) : option N :=
  match ns with
  | [] => None
  | n :: rest =>
    match pick_last rest with
    | None => Some n
    | Some m => if lex_ltb (blk_name m) (blk_name n) then Some n else Some m
    end
  end.

(* ------------------------------------------------------------------ directory operations *)
Fixpoint lookup (n : N) (fs : files) : option bytes :=
  match fs with
  | [] => None
  | (m, c) :: rest => if N.eqb m n then Some c else lookup n rest
  end.
Definition content (n : N) (fs : files) : bytes := match lookup n fs with Some c => c | None => [] end.

(* open(name, "ab"): creates an empty file if absent *)
Definition open_file (n : N) (fs : files) : files :=
  match lookup n fs with Some _ => fs | None => fs ++ [(n, [])] end.

Fixpoint append_file (n : N) (bs : bytes) (fs : files) : files :=
  match fs with
  | [] => []
  | (m, c) :: rest => if N.eqb m n then (m, c ++ bs) :: rest else (m, c) :: append_file n bs rest
  end.

(* state: (directory, number of the file currently open) *)
Definition apply_prim (st : files * option N) (p : prim) : files * option N :=
  let '(fs, cur) := st in
  match p with
  | Open n => (open_file n fs, Some n)
  | Write bs => match cur with Some n => (append_file n bs fs, cur) | None => st end
  | Close => (fs, None)
  end.
Definition run_trace (fs : files) (tr : list prim) : files := fst (fold_left apply_prim tr (fs, None)).

(* ------------------------------------------------------------------ write_blocks_to_disk *)
Definition zlen {A} (l : list A) : Z := Z.of_nat (length l).
Definition record (magic blk : bytes) : bytes := magic ++ to_le 4 (zlen blk) ++ blk.

(* the for loop; [fs0] = directory at the time of the call (consulted when a further file is opened for
   appending: it normally does not exist yet), [cur] = number of the open file, [size] = its tell() *)
Fixpoint write_loop (max : Z) (magic : bytes) (fs0 : files) (cur : N) (size : Z) (blocks : list bytes)
  : list prim :=
  match blocks with
  | [] => [Close]
  | blk :: rest =>
    let blk_data := record magic blk in
    if zlen blk_data + size >? max then
      let nxt := N.succ cur in
      Close :: Open nxt :: Write blk_data
        :: write_loop max magic fs0 nxt (zlen (content nxt fs0) + zlen blk_data) rest
    else
      Write blk_data :: write_loop max magic fs0 cur (size + zlen blk_data) rest
  end.

Definition current_file (fs : files) : N :=
  match pick_last (map fst fs) with Some n => n | None => 0%N end.

Definition write_trace (max : Z) (magic : bytes) (fs : files) (blocks : list bytes) : list prim :=
  let cur := current_file fs in
  Open cur :: write_loop max magic fs cur (zlen (content cur fs)) blocks.

Definition write_blocks (max : Z) (magic : bytes) (fs : files) (blocks : list bytes) : list prim * files :=
  let tr := write_trace max magic fs blocks in (tr, run_trace fs tr).

(* a sequence of calls (the process may be restarted between any two: nothing but the directory is kept) *)
Definition history (max : Z) (magic : bytes) (fs : files) (batches : list (list bytes)) : files :=
  fold_left (fun fs b => snd (write_blocks max magic fs b)) batches fs.

(* the same with a crash after [k] primitive operations (counted over the whole history): the operations
   before it have been carried out, nothing afterwards; returns (directory, crashed?) *)
Fixpoint history_crash (max : Z) (magic : bytes) (fs : files) (batches : list (list bytes)) (k : nat)
  : files * bool :=
  match batches with
  | [] => (fs, false)
  | b :: rest =>
    let tr := write_trace max magic fs b in
    if (k <? length tr)%nat then (run_trace fs (firstn k tr), true)
    else history_crash max magic (run_trace fs tr) rest (k - length tr)
  end.

(* directory listing with names, for the correspondence check *)
Definition listing (fs : files) : list (bytes * bytes) := map (fun f => (blk_name (fst f), snd f)) fs.
