(* Executable model of utils.pubkey / point / is_point / compressed_pubkey (SEC1 public-key octets), generic in
   the field prime p and the curve coefficients a b exactly as Model/Ecmath.v is; the 32-byte coordinate width is
   fixed by the code.  Definitions only; proofs in Proofs/Sec1.v. *)
From Coq Require Import ZArith List Bool.
Require Import Bits.Lib.Result Bits.Lib.Bytes Bits.Model.Ecmath.
Import ListNotations.
Import Coq.Init.Byte.
Local Open Scope Z_scope.
Local Open Scope result_scope.

Section Sec1.
  Variables p a b : Z.

  (* pubkey(x, y, compressed): x.to_bytes(32, "big") raises OverflowError for x < 0 or x >= 2^256 *)
  Definition pubkey (x y : Z) (compressed : bool) : result bytes :=
    if compressed then
      let prefix := if y mod 2 =? 0 then x02 else x03 in
      xb <- to_be_chk 32 x ;; Ok (prefix :: xb)
    else
      xb <- to_be_chk 32 x ;; yb <- to_be_chk 32 y ;; Ok (x04 :: xb ++ yb).

  (* utils.point is called [sec1_point] here ([point] is the type of curve points in Model/Ecmath.v).
     [i for i in y_from_x(x) if <parity>][0]   (IndexError when the filtered list is empty) *)
  Definition pick_parity (odd : bool) (ys : Z * Z) : result Z :=
    match filter (fun i => if odd then negb (i mod 2 =? 0) else (i mod 2 =? 0)) [fst ys; snd ys] with
    | y :: _ => Ok y
    | [] => Err IndexE
    end.

  Definition sec1_point (pk : bytes) : result (Z * Z) :=
    let n := length pk in
    if negb (Nat.eqb n 33 || Nat.eqb n 65) then Err AssertionE else      (* invalid pubkey length *)
    match pk with
    | [] => Err IndexE                                                    (* pubkey_[0]; unreachable *)
    | v :: payload =>
      let x := of_be (firstn 32 payload) in
      y <- (if b2z v =? 2 then
              if negb (Nat.eqb n 33) then Err AssertionE else
              ys <- y_from_x p a b x ;; pick_parity false ys
            else if b2z v =? 3 then
              if negb (Nat.eqb n 33) then Err AssertionE else
              ys <- y_from_x p a b x ;; pick_parity true ys
            else if b2z v =? 4 then
              if negb (Nat.eqb n 65) then Err AssertionE else Ok (of_be (skipn 32 payload))
            else Err ValueE) ;;                                           (* unrecognized version *)
      ok <- point_is_on_curve p a b x y ;;
      if ok then Ok (x, y) else Err AssertionE                            (* invalid pubkey *)
    end.

  (* try: point(..); return True   except (AssertionError, ValueError): return False
     -- every other exception class propagates *)
  Definition is_point (pk : bytes) : result bool :=
    match sec1_point pk with
    | Ok _ => Ok true
    | Err AssertionE => Ok false
    | Err ValueE => Ok false
    | Err e => Err e
    end.

  (* compressed_pubkey: a 02/03 prefix is returned AS IS (no validation, any of the two lengths) *)
  Definition compressed_pubkey (pk : bytes) : result bytes :=
    let n := length pk in
    if negb (Nat.eqb n 33 || Nat.eqb n 65) then Err AssertionE else
    match pk with
    | [] => Err ValueE
    | v :: _ =>
      if (b2z v =? 2) || (b2z v =? 3) then Ok pk
      else if b2z v =? 4 then '(x, y) <- sec1_point pk ;; pubkey x y true
      else Err ValueE
    end.
End Sec1.
