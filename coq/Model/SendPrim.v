(* C16: the value layer of send_tx over the KERNEL's primitive binary64 floats (PrimFloat), next to the SpecFloat
   model of Model/SendValue.v.  Only [PrimFloat.mul] differs: everything else (conversion of the harness' exact
   (m, e) pairs, float -> integer) goes through Prim2SF / SF2Prim.  The two are compared by vm_compute: in Props/C16.v
   on the boundary amounts and in every check run on that run's cases (harness/c16.py coq_equation).
   [Floats] (FloatAxioms) is deliberately NOT imported.  This file is not extracted. *)
From Coq Require Import ZArith List Bool.
From Coq Require Import Floats.PrimFloat Floats.SpecFloat Floats.FloatOps.
Require Import Bits.Lib.Result Bits.Model.SendValue.
Import ListNotations.
Local Open Scope Z_scope.
Local Open Scope result_scope.

Definition prim_of_me (m e : Z) : float := SF2Prim (sf_of_me m e).
Definition p1e8 : float := SF2Prim f1e8.

(* round(a * 1e8) *)
Definition sat_of_btc_prim (a : float) : result Z := sf_round (Prim2SF (PrimFloat.mul a p1e8)).

(* int(send_fraction * total_available) *)
Definition amount_to_send_prim (send_fraction : float) (total_available : Z) : result Z :=
  t <- float_of_int total_available ;;
  sf_trunc (Prim2SF (PrimFloat.mul send_fraction (SF2Prim t))).

Definition send_values_prim (send_fraction total_amount : float) (amounts : list float) (fee : Z)
  : result (Z * list Z) :=
  total_available <- sat_of_btc_prim total_amount ;;
  to_send <- amount_to_send_prim send_fraction total_available ;;
  '(sel, total_sel) <- select sat_of_btc_prim (fun _ => Ok tt) amounts to_send 0 ;;
  let vs := output_values to_send fee total_sel in
  if forallb value_ok vs then Ok (Z.of_nat (length sel), vs) else Err OverflowE.
