(* Executable model of /repo/src/bits/script/utils.py as it is NOW: script() and decode_script() in
   NON-witness mode and every template builder.  Definitions only; proofs in Proofs/Script*.v.
   (The witness-stack mode `witness=True` is Model/Witness.v.)

   Python passes the items of a script as STRINGS: an opcode name ("OP_DUP") or hex data ("02ab..").
   Strings are their UTF-8 bytes here.  The opcode tables are the generated ones (Gen/Opcodes.v):
     getattr(constants, name)  = assoc_b name op_int_map      (AttributeError when absent)
     INT_OP_MAP[byte]          = assoc_z byte int_op_map      (KeyError when absent)               *)
From Coq Require Import ZArith List Bool.
Require Coq.Strings.String.
Import Coq.Strings.String.StringSyntax.
Require Import Bits.Lib.Result Bits.Lib.Bytes Bits.Lib.PyStr Bits.Spec.Script.
Require Bits.Gen.Opcodes.
Import ListNotations.
Import Coq.Init.Byte.
Local Open Scope Z_scope.
Local Open Scope result_scope.

(* ---------- the way callers write a script: opcode names and data ---------- *)
(* [item] (Spec/Script.v) = Op name | Data bytes *)
(* the string passed to script(): the name itself / data.hex() *)
Definition render (it : item) : bytes :=
  match it with Op name => name | Data d => hex_of_bytes d end.

(* ---------- table access ---------- *)
Definition getattr_op (name : bytes) : result Z :=
  of_option AttributeE (assoc_b name Bits.Gen.Opcodes.op_int_map).
Definition int_op (v : Z) : result bytes :=
  of_option KeyE (assoc_z v Bits.Gen.Opcodes.int_op_map).

Local Open Scope string_scope.
(* the alias decode_script prints for the byte of an opcode name (INT_OP_MAP[getattr(constants, name)]) *)
Definition rep_of (name : bytes) : bytes :=
  match assoc_b name Bits.Gen.Opcodes.op_int_map with
  | Some v => match assoc_z v Bits.Gen.Opcodes.int_op_map with Some r => r | None => name end
  | None => name
  end.
Definition canon (it : item) : item :=
  match it with Op name => Op (rep_of name) | Data d => Data d end.

Definition s_OP_ : bytes := str "OP_".
Definition s_PUSHDATA1 : bytes := str "OP_PUSHDATA1".
Definition s_PUSHDATA2 : bytes := str "OP_PUSHDATA2".
Definition s_PUSHDATA4 : bytes := str "OP_PUSHDATA4".
Local Close Scope string_scope.

(* constants.<NAME>.to_bytes(1, ...) *)
Definition op_byte (name : bytes) : result bytes := v <- getattr_op name ;; to_le_chk 1 v.
(* len(x).to_bytes(1, ...) : OverflowError from 256 bytes on *)
Definition len1 (x : bytes) : result bytes := to_le_chk 1 (lenZ x).

(* ---------- script(args)  (witness=False) ---------- *)
(* the bytes in front of a data item of data_len bytes *)
Definition push_op (data_len : Z) : result bytes :=
  if 75 <? data_len then
    let data_len_min_bytes := (Z.log2 data_len + 1 + 7) / 8 in        (* (bit_length + 7) // 8 *)
    '(no_bytes, opname) <-
        (if data_len_min_bytes =? 1 then Ok (1%nat, s_PUSHDATA1)
         else if data_len_min_bytes =? 2 then Ok (2%nat, s_PUSHDATA2)
         else if data_len_min_bytes <=? 4 then Ok (4%nat, s_PUSHDATA4)
         else Err ValueE) ;;                                          (* "too much data to push!" *)
    op_push <- op_byte opname ;;
    len_bytes <- to_le_chk no_bytes data_len ;;
    Ok (op_push ++ len_bytes)
  else to_le_chk 1 data_len.                                          (* 0 .. 75: one length byte; 0 gives 0x00 *)

Definition script_arg (arg : bytes) : result bytes :=
  if starts_with s_OP_ arg then
    op <- getattr_op arg ;; to_be_chk 1 op
  else
    data <- fromhex arg ;;
    op_push <- push_op (lenZ data) ;;
    Ok (op_push ++ data).

Fixpoint script (args : list bytes) : result bytes :=
  match args with
  | [] => Ok []
  | arg :: rest => a <- script_arg arg ;; b <- script rest ;; Ok (a ++ b)
  end.

(* ---------- decode_script(scriptbytes)  (witness=False) ---------- *)
(* `while scriptbytes:`; every iteration removes at least one byte, fuel = len(scriptbytes) suffices
   (Proofs/Script.v: decode_script_no_fuel).  [acc] = decoded, reversed. *)
Fixpoint decode_loop (fuel : nat) (sb : bytes) (acc : list bytes) : result (list bytes) :=
  match sb with
  | [] => Ok (rev acc)
  | b0 :: rest =>
    match fuel with
    | O => Err FuelE
    | S fuel' =>
      let v := b2z b0 in
      if (1 <=? v) && (v <? 76) then                       (* scriptbytes[0] in range(1, 0x4C) *)
        decode_loop fuel' (zdrop v rest) (hex_of_bytes (ztake v rest) :: acc)
      else
        match int_op v with
        | Err e => Err e                                   (* KeyError: undefined byte *)
        | Ok op =>
          if bytes_eqb op s_PUSHDATA1 then
            match rest with
            | [] => Err IndexE                             (* scriptbytes[0] on b"" *)
            | l :: r =>
              let push := b2z l in
              decode_loop fuel' (zdrop push r) (hex_of_bytes (ztake push r) :: acc)
            end
          else if bytes_eqb op s_PUSHDATA2 then
            let push := of_le (firstn 2 rest) in           (* lenient: fewer than 2 bytes are read as they are *)
            let r := skipn 2 rest in
            decode_loop fuel' (zdrop push r) (hex_of_bytes (ztake push r) :: acc)
          else if bytes_eqb op s_PUSHDATA4 then
            let push := of_le (firstn 4 rest) in
            let r := skipn 4 rest in
            decode_loop fuel' (zdrop push r) (hex_of_bytes (ztake push r) :: acc)
          else decode_loop fuel' rest (op :: acc)
        end
    end
  end.

Definition decode_script (sb : bytes) : result (list bytes) := decode_loop (length sb) sb [].

(* ---------- template builders, as written ---------- *)
Local Open Scope string_scope.
Definition s_DUP := str "OP_DUP".
Definition s_HASH160 := str "OP_HASH160".
Definition s_EQUALVERIFY := str "OP_EQUALVERIFY".
Definition s_EQUAL := str "OP_EQUAL".
Definition s_CHECKSIG := str "OP_CHECKSIG".
Definition s_CHECKMULTISIG := str "OP_CHECKMULTISIG".
Definition s_RETURN := str "OP_RETURN".
Definition s_OP_0 := str "OP_0".
Local Close Scope string_scope.

(* [len(x).to_bytes(1, ..) + x for x in xs], joined *)
Fixpoint len_prefixed (xs : list bytes) : result bytes :=
  match xs with
  | [] => Ok []
  | x :: r => l <- len1 x ;; rest <- len_prefixed r ;; Ok (l ++ x ++ rest)
  end.

Definition p2pkh_script_pubkey (pk_hash : bytes) : result bytes :=
  a <- op_byte s_DUP ;; b <- op_byte s_HASH160 ;; l <- len1 pk_hash ;;
  c <- op_byte s_EQUALVERIFY ;; d <- op_byte s_CHECKSIG ;;
  Ok (a ++ b ++ l ++ pk_hash ++ c ++ d).

Definition p2pkh_script_sig (sig pk : bytes) : result bytes :=
  a <- len1 sig ;; b <- len1 pk ;; Ok (a ++ sig ++ b ++ pk).

Definition p2pk_script_pubkey (pk : bytes) : result bytes :=
  l <- len1 pk ;; c <- op_byte s_CHECKSIG ;; Ok (l ++ pk ++ c).

Definition p2pk_script_sig (sig : bytes) : result bytes :=
  l <- len1 sig ;; Ok (l ++ sig).

Definition p2sh_script_pubkey (script_hash : bytes) : result bytes :=
  a <- op_byte s_HASH160 ;; l <- len1 script_hash ;; c <- op_byte s_EQUAL ;;
  Ok (a ++ l ++ script_hash ++ c).

(* one length byte per signature, then script([redeem_script.hex()]) *)
Definition p2sh_script_sig (sigs : list bytes) (redeem_script : bytes) : result bytes :=
  s <- len_prefixed sigs ;;
  r <- script [hex_of_bytes redeem_script] ;;
  Ok (s ++ r).

Definition multisig_script_pubkey (m : Z) (pubkeys : list bytes) : result bytes :=
  assert_ ((1 <=? m) && (m <? 17)) AssertionE ;;;
  let n := lenZ pubkeys in
  assert_ ((1 <=? n) && (n <? 17)) AssertionE ;;;
  assert_ (m <=? n) AssertionE ;;;
  op_m <- getattr_op (s_OP_ ++ dec_str m) ;;
  op_n <- getattr_op (s_OP_ ++ dec_str n) ;;
  keys <- len_prefixed pubkeys ;;
  a <- to_be_chk 1 op_m ;; b <- to_be_chk 1 op_n ;; c <- op_byte s_CHECKMULTISIG ;;
  Ok (a ++ keys ++ b ++ c).

Definition multisig_script_sig (sigs : list bytes) : result bytes :=
  s <- len_prefixed sigs ;; z <- op_byte s_OP_0 ;; Ok (z ++ s).

Definition null_data_script_pubkey (data : bytes) : result bytes :=
  a <- op_byte s_RETURN ;; p <- script [hex_of_bytes data] ;; Ok (a ++ p).

Definition p2sh_multisig_script_sig (sigs : list bytes) (redeem_script : bytes) : result bytes :=
  script ([s_OP_0] ++ map hex_of_bytes sigs ++ [hex_of_bytes redeem_script]).

Definition p2wpkh_script_pubkey (pk_hash : bytes) (witness_version : Z) : result bytes :=
  op <- getattr_op (s_OP_ ++ dec_str witness_version) ;;
  a <- to_be_chk 1 op ;; l <- len1 pk_hash ;; Ok (a ++ l ++ pk_hash).

Definition p2wpkh_script_sig : result bytes := Ok [].

Definition p2wsh_script_pubkey (witness_scripthash : bytes) (witness_version : Z) : result bytes :=
  p2wpkh_script_pubkey witness_scripthash witness_version.

Definition p2wsh_script_sig : result bytes := Ok [].

Definition p2sh_p2wpkh_script_sig (redeem_script : bytes) : result bytes :=
  p2sh_script_sig [] redeem_script.

Section WithHash.
  Variable sha256 : bytes -> bytes.
  Variable ripemd160 : bytes -> bytes.

  Definition script_hash (redeem_script : bytes) : bytes := ripemd160 (sha256 redeem_script).
  Definition witness_script_hash (witness_script : bytes) : bytes := sha256 witness_script.

  Definition p2sh_multisig_script_pubkey (m : Z) (pubkeys : list bytes) : result bytes :=
    r <- multisig_script_pubkey m pubkeys ;; p2sh_script_pubkey (script_hash r).

  Definition p2sh_p2wpkh_script_pubkey (pk_hash : bytes) (witness_version : Z) : result bytes :=
    r <- p2wpkh_script_pubkey pk_hash witness_version ;; p2sh_script_pubkey (script_hash r).

  Definition p2sh_p2wsh_script_pubkey (witness_script : bytes) (witness_version : Z) : result bytes :=
    r <- p2wsh_script_pubkey (witness_script_hash witness_script) witness_version ;;
    p2sh_script_pubkey (script_hash r).

  Definition p2sh_p2wsh_script_sig (witness_script : bytes) : result bytes :=
    redeem_script <- p2wsh_script_pubkey (witness_script_hash witness_script) 0 ;;
    p2sh_script_sig [] redeem_script.
End WithHash.
