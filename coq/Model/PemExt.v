(* pem.decode_pem and the default arguments of pem.encode_pem (the rest of the armor layer is Model/Pem.v:
   encode_pem, decode_base64_pem, base64.encodebytes with MAXBINSIZE = 48).  Definitions only. *)
From Coq Require Import ZArith List Bool.
Require Import Bits.Lib.Result Bits.Lib.Bytes Bits.Model.Pem.
Import ListNotations.
Import Coq.Init.Byte.

(* b"CERTIFICATE": encode_pem's default header / footer are -----BEGIN CERTIFICATE----- / -----END CERTIFICATE----- *)
Definition label_cert : bytes := [x43; x45; x52; x54; x49; x46; x49; x43; x41; x54; x45].

Section PemExt.
  Variable b64enc : bytes -> bytes.
  Variable b64dec : bytes -> option bytes.

  (* def decode_pem(pem_): der = decode_base64_pem(pem_); return der      (the docstring's "and parse ASN.1" is not done) *)
  Definition decode_pem (pem : bytes) : result bytes := decode_base64_pem b64dec pem.

  (* encode_pem(der_) with the default header and footer *)
  Definition encode_pem_default (der : bytes) : bytes :=
    encode_pem b64enc der (pem_header label_cert) (pem_footer label_cert).
End PemExt.
