(* Executable model of the one piece of module state of the P2P layer, the global MAGIC_START_BYTES, and of
   sequences of calls that read or set it (/repo/src/bits/p2p.py AS IT IS NOW; definitions only):

     def set_magic_start_bytes(network="mainnet"):
         global MAGIC_START_BYTES
         if network.lower() == "mainnet":   MAGIC_START_BYTES = MAINNET_START
         elif network.lower() == "testnet": MAGIC_START_BYTES = TESTNET_START
         elif network.lower() == "regtest": MAGIC_START_BYTES = REGTEST_START
         else: raise ValueError(f"network not recognized: {network}")
         return True

   A call that raises assigns nothing: the global keeps its value.  An argument without .lower() (None, int, ...)
   raises AttributeError before anything is assigned; a bytes argument compares unequal to every str: ValueError.
   recv_msg() compares against the global at the time of the call; Node frames its replies with it. *)
From Coq Require Import ZArith List Bool.
Require Import Bits.Lib.Result Bits.Lib.Bytes Bits.Spec.P2p Bits.Spec.P2pNet Bits.Model.P2pFrame.
Import ListNotations.
Local Open Scope Z_scope.

(* str.lower() on ASCII *)
Definition ascii_lower (b : byte) : byte :=
  if (65 <=? b2z b) && (b2z b <=? 90) then z2b (b2z b + 32) else b.

Fixpoint assoc_bytes (k : bytes) (t : list (bytes * bytes)) : option bytes :=
  match t with
  | [] => None
  | (k', v) :: t' => if bytes_eqb k' k then Some v else assoc_bytes k t'
  end.

Definition network_magic (network : bytes) : option bytes :=
  assoc_bytes (map ascii_lower network) network_magics.

(* (result of the call, value of the global afterwards) *)
Definition set_magic_start_bytes (network : bytes) (cur : bytes) : result bool * bytes :=
  match network_magic network with
  | Some m => (Ok true, m)
  | None => (Err ValueE, cur)
  end.

Inductive step : Type :=
| SSelect (network : bytes)                                   (* set_magic_start_bytes(<str>) *)
| SSelectBadType                                              (* set_magic_start_bytes(<not a str>) *)
| SRecv (fuel : nat) (stream : bytes) (sched : list Z)        (* recv_msg on a fresh scripted socket *)
| SSer (command payload : bytes).                             (* msg_ser(MAGIC_START_BYTES, command, payload) *)

Inductive outcome : Type :=
| OSelect (r : result bool)
| ORecv (r : result (bytes * bytes * bytes * bytes))           (* (start, command, payload, bytes left) *)
| OSer (r : result bytes).

Section WithHash.
  Variable sha256 : bytes -> bytes.

  Definition run_step (cur : bytes) (s : step) : outcome * bytes :=
    match s with
    | SSelect n => let '(r, cur') := set_magic_start_bytes n cur in (OSelect r, cur')
    | SSelectBadType => (OSelect (Err AttributeE), cur)
    | SRecv fuel stream sched =>
      (ORecv (match recv_msg sha256 fuel cur (stream, sched) with
              | Ok ((m, c, p), (rest, _), _) => Ok (m, c, p, rest)
              | Err e => Err e
              end), cur)
    | SSer c p => (OSer (msg_ser sha256 cur c p), cur)
    end.

  Fixpoint session (cur : bytes) (steps : list step) : list outcome * bytes :=
    match steps with
    | [] => ([], cur)
    | s :: rest =>
      let '(o, cur1) := run_step cur s in
      let '(os, cur2) := session cur1 rest in
      (o :: os, cur2)
    end.
End WithHash.
