(* Model of utils.der_encode_sig / der_decode_sig / sig / sig_verify / ensure_sig_low_s (definitions only). *)
From Coq Require Import ZArith List Bool.
Require Import Bits.Lib.Result Bits.Lib.Bytes Bits.Model.Asn1 Bits.Model.Ecmath Bits.Model.Keys Bits.Model.Sec1.
Import ListNotations.
Local Open Scope Z_scope.
Local Open Scope result_scope.

(* v.to_bytes((v.bit_length() + 7) // 8, "big"), then a 00 byte in front when the top bit is set;
   bytes[0] of the empty string (v = 0) raises IndexError, negative v OverflowError *)
Definition int_min_bytes (v : Z) : result bytes :=
  if v <? 0 then Err OverflowE else
  let nb := (bit_length v + 7) / 8 in
  let bs := to_be (Z.to_nat nb) v in
  match bs with
  | [] => Err IndexE
  | b0 :: _ => Ok (if 128 <=? b2z b0 then Coq.Init.Byte.x00 :: bs else bs)
  end.

Definition der_encode_sig (r s : Z) : result bytes :=
  rb <- int_min_bytes r ;;
  sb <- int_min_bytes s ;;
  encode_node (mk_seq (Z.of_nat (length rb) + Z.of_nat (length sb) + 4)
                      [mk_prim T_INTEGER rb; mk_prim T_INTEGER sb]).

Definition node_val (nd : node) : value := match nd with Node _ _ v => v end.

(* int.from_bytes(v, "big") for the Python value of a parsed node: bytes -> the number; the EMPTY list of a
   constructed node without children -> 0 (int.from_bytes([]) == 0); a non-empty list of nodes / an OID -> TypeError *)
Definition int_of_value (v : value) : result Z :=
  match v with
  | VBytes b => Ok (of_be b)
  | VList [] => Ok 0
  | _ => Err TypeE
  end.

(* parsed[0][2][0][2] and parsed[0][2][1][2] fed to int.from_bytes *)
Definition der_decode_sig (der : bytes) : result (Z * Z) :=
  l <- parse_asn1_top der ;;
  match l with
  | [] => Err IndexE
  | top :: _ =>
    match node_val top with
    | VList (n0 :: n1 :: _) =>
      r <- int_of_value (node_val n0) ;;
      s <- int_of_value (node_val n1) ;;
      Ok (r, s)
    | VList _ => Err IndexE
    | VBytes [] => Err IndexE
    | VBytes _ => Err TypeE
    | VOid _ => Err IndexE
    end
  end.

Section Sig.
  Variables p a b n : Z.
  Variable G : point.
  Variable sha256 : bytes -> bytes.
  Definition hash256 (m : bytes) : bytes := sha256 (sha256 m).

  (* utils.sig(key, msg, sighash_flag, msg_preimage) with the random draws explicit; returns unused draws *)
  Definition sig (draws : list Z) (key msg : bytes) (flag : option Z) (preimage : bool)
    : result (bytes * list Z) :=
    pre <- (match flag, preimage with
            | Some f, false => f4 <- to_le_chk 4 f ;; Ok (msg ++ f4, None)
            | Some f, true =>
              let sh := of_le (lastn 4 msg) in
              if sh =? f then Ok (msg, Some sh) else Err AssertionE
            | None, true => Ok (msg, Some (of_le (lastn 4 msg)))
            | None, false => Ok (msg, None)
            end) ;;
    let '(m, sh) := pre in
    let digest := hash256 m in
    d <- privkey_int n key ;;
    rs <- sign_with p a n G draws d (of_be digest) ;;
    let '(r, s, rest) := rs in
    der <- der_encode_sig r s ;;
    suffix <- (match flag, sh with
               | Some f, _ => to_le_chk 1 f
               | None, Some h => to_le_chk 1 h
               | None, None => Ok []
               end) ;;
    Ok (der ++ suffix, rest).

  (* utils.sig_verify: Ok true = "OK"; Ok false = an AssertionError message was returned; Err = raised *)
  Definition sig_verify (sg pk msg : bytes) (preimage : bool) : result bool :=
    match rev sg with
    | [] => Err IndexE                                       (* sig_[-1] *)
    | fl :: body_rev =>
      rs <- der_decode_sig (rev body_rev) ;;
      let '(r, s) := rs in
      let m := if preimage then msg else msg ++ to_le 4 (b2z fl) in
      let digest := hash256 m in
      match sec1_point p a b pk with
      | Err AssertionE => Ok false
      | Err e => Err e
      | Ok Q =>
        match verify p a b n G r s (Some Q) (of_be digest) with
        | Ok _ => Ok true
        | Err AssertionE => Ok false
        | Err e => Err e
        end
      end
    end.

  (* utils.ensure_sig_low_s *)
  Definition ensure_sig_low_s (sg : bytes) : result bytes :=
    rs <- der_decode_sig sg ;;
    let '(r, s) := rs in
    if (s >? n / 2) || (s <? 1) then
      s' <- sub_mod_p n 0 s ;; der_encode_sig r s'
    else Ok sg.
End Sig.
