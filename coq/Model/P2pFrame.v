(* Executable model of the framing layer of /repo/src/bits/p2p.py AS IT IS NOW (definitions only;
   proofs in Proofs/P2pFrame.v):

     def recv_msg(sock):
         msg = b""
         while len(msg) != MSG_HEADER_LEN:
             data = sock.recv(MSG_HEADER_LEN - len(msg))
             if not data: raise ConnectionError("connection closed by peer")
             msg += data
         start_bytes = msg[:4]; command = msg[4:16].rstrip(b"\x00")
         payload_size = int.from_bytes(msg[16:20], "little"); checksum = msg[20:24]; payload = msg[24:]
         if payload_size:
             while len(payload) != payload_size:
                 data = sock.recv(payload_size - len(payload))
                 if not data: raise ConnectionError(...)
                 payload += data
         if len(payload) != payload_size: raise ValueError
         if checksum != hash256(payload)[:4]: raise ValueError
         if start_bytes != MAGIC_START_BYTES: raise ValueError
         return start_bytes, command, payload

     def msg_ser(start_bytes, command, payload=b""):
         if command not in COMMANDS: raise ValueError
         if len(payload) > MAX_SIZE: raise ValueError
         while len(command) < 12: command += b"\x00"
         return start_bytes + command + len(payload).to_bytes(4, "little") + hash256(payload)[:4] + payload

   A socket is (remaining stream, chunk schedule): [recv n] hands out min(n, next scheduled chunk, remaining)
   bytes ([] at end of stream, and also for a non-positive request/chunk); once the schedule is used up a
   recv is limited by n only.  Blocking and timeouts of real sockets are not modelled.
   [fuel] = number of recv calls the caller is prepared to make: each recv call costs one unit, the remaining
   fuel is returned, [Err FuelE] = "still looping after that many calls". *)
From Coq Require Import ZArith List Bool.
Require Import Bits.Lib.Result Bits.Lib.Bytes Bits.Spec.P2p.
Import ListNotations.
Import Coq.Init.Byte.
Local Open Scope Z_scope.
Local Open Scope result_scope.

Definition zlen {A} (l : list A) : Z := Z.of_nat (length l).

Definition sock : Type := (bytes * list Z)%type.

Definition recv (n : Z) (s : sock) : bytes * sock :=
  let '(st, sch) := s in
  let lim := match sch with [] => n | c :: _ => Z.min n c end in
  let k := Z.to_nat (Z.min lim (zlen st)) in
  (firstn k st, (skipn k st, tl sch)).

(* while len(acc) != want: data = recv(want - len(acc)); if not data: raise ConnectionError; acc += data *)
Fixpoint recv_exact (fuel : nat) (want : Z) (acc : bytes) (s : sock) {struct fuel}
  : result (bytes * sock * nat) :=
  if zlen acc =? want then Ok (acc, s, fuel)
  else match fuel with
       | O => Err FuelE
       | S f =>
         let '(data, s') := recv (want - zlen acc) s in
         match data with
         | [] => Err ConnE
         | _ :: _ => recv_exact f want (acc ++ data) s'
         end
       end.

(* bytes.rstrip(b"\x00") *)
Definition rstrip0 (l : bytes) : bytes := rev (lstrip x00 (rev l)).

Section WithHash.
  Variable sha256 : bytes -> bytes.
  Definition hash256 (m : bytes) : bytes := sha256 (sha256 m).
  Definition checksum4 (payload : bytes) : bytes := firstn 4 (hash256 payload).

  (* [magic] = the module global MAGIC_START_BYTES at the time of the call *)
  Definition recv_msg (fuel : nat) (magic : bytes) (s : sock)
    : result ((bytes * bytes * bytes) * sock * nat) :=
    '(msg, s1, f1) <- recv_exact fuel msg_header_len [] s ;;
    let start_bytes := firstn 4 msg in
    let command := rstrip0 (slice 4 16 msg) in
    let payload_size := of_le (slice 16 20 msg) in
    let checksum := slice 20 24 msg in
    let payload0 := skipn 24 msg in
    '(payload, s2, f2) <- (if payload_size =? 0 then Ok (payload0, s1, f1)
                           else recv_exact f1 payload_size payload0 s1) ;;
    if negb (zlen payload =? payload_size) then Err ValueE
    else if negb (bytes_eqb checksum (checksum4 payload)) then Err ValueE
    else if negb (bytes_eqb start_bytes magic) then Err ValueE
    else Ok ((start_bytes, command, payload), s2, f2).

  Definition msg_ser (start_bytes command payload : bytes) : result bytes :=
    if negb (existsb (bytes_eqb command) commands) then Err ValueE
    else if zlen payload >? max_size then Err ValueE
    else
      let command' := command ++ repeat x00 (12 - length command) in
      payload_size <- to_le_chk 4 (zlen payload) ;;
      Ok (start_bytes ++ command' ++ payload_size ++ checksum4 payload ++ payload).

  (* k consecutive recv_msg calls on the same socket, each with its own budget of [fuel] recv calls *)
  Fixpoint recv_msgs (k : nat) (fuel : nat) (magic : bytes) (s : sock)
    : result (list (bytes * bytes * bytes) * sock) :=
    match k with
    | O => Ok ([], s)
    | S k' =>
      '(m, s1, _) <- recv_msg fuel magic s ;;
      '(ms, s2) <- recv_msgs k' fuel magic s1 ;;
      Ok (m :: ms, s2)
    end.
End WithHash.
