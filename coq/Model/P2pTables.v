(* The codecs of /repo/src/bits/p2p.py read the module-level tables INVENTORY_TYPE_ID and COMMANDS AT CALL TIME
   (inventory(): INVENTORY_TYPE_ID[type_id.upper()]; parse_inventory(): filter over INVENTORY_TYPE_ID.items();
   msg_ser(): `command not in COMMANDS`), so an application may register further entries after import.
   These are the same functions as in Model/P2pCodec.v / Model/P2pFrame.v with the table as a parameter
   ([tbl] = list(INVENTORY_TYPE_ID.items()) in dict order, [cmds] = COMMANDS); definitions only. *)
From Coq Require Import ZArith List Bool.
Require Import Bits.Lib.Result Bits.Lib.Bytes Bits.Spec.P2p Bits.Model.CompactSize Bits.Model.P2pFrame Bits.Model.P2pCodec.
Import ListNotations.
Import Coq.Init.Byte.
Local Open Scope Z_scope.
Local Open Scope result_scope.

Definition inv_table : Type := list (bytes * Z).

Definition inventory_in (tbl : inv_table) (type_id hash : bytes) : result bytes :=
  tid <- of_option KeyE (assoc_key (map ascii_upper type_id) tbl) ;;
  t <- to_le_chk 4 tid ;;
  Ok (t ++ hash).

Definition parse_inventory_in (tbl : inv_table) (inventory_ : bytes) : result (bytes * bytes) :=
  if negb (length inventory_ =? 36)%nat then Err AssertionE
  else
    name <- of_option IndexE (assoc_val (of_le (firstn 4 inventory_)) tbl) ;;
    Ok (name, skipn 4 inventory_).

Fixpoint parse_inv_items_in (tbl : inv_table) (fuel : nat) (count : Z) (rest : bytes)
  : result (list (bytes * bytes)) :=
  if count <=? 0 then Ok []
  else match fuel with
       | O => Err FuelE
       | S f =>
         item <- parse_inventory_in tbl (firstn 36 rest) ;;
         items <- parse_inv_items_in tbl f (count - 1) (skipn 36 rest) ;;
         Ok (item :: items)
       end.

Definition parse_inv_payload_in (tbl : inv_table) (payload : bytes) : result (Z * list (bytes * bytes)) :=
  b0 <- zindex payload 0 ;;
  let '(count, start) :=
    if b2z b0 =? 253 then (of_le (slice 1 3 payload), 3%nat)
    else if b2z b0 =? 254 then (of_le (slice 1 5 payload), 5%nat)
    else if b2z b0 =? 255 then (of_le (slice 1 9 payload), 9%nat)
    else (b2z b0, 1%nat) in
  items <- parse_inv_items_in tbl (S (length payload)) count (skipn start payload) ;;
  Ok (count, items).

(* a table is usable when every name is its own upper case, looks itself up, has a 32-bit value, and that value
   looks the name up again (no two names share a value before it) *)
Definition table_okb (tbl : inv_table) : bool :=
  forallb (fun kv : bytes * Z =>
             match assoc_key (map ascii_upper (fst kv)) tbl with
             | Some v => (v =? snd kv) && (0 <=? v) && (v <? 2 ^ 32) &&
                         match assoc_val v tbl with
                         | Some k => bytes_eqb k (fst kv)
                         | None => false
                         end
             | None => false
             end) tbl.

Section WithHash.
  Variable sha256 : bytes -> bytes.
  Definition msg_ser_in (cmds : list bytes) (start_bytes command payload : bytes) : result bytes :=
    if negb (existsb (bytes_eqb command) cmds) then Err ValueE
    else if zlen payload >? max_size then Err ValueE
    else
      let command' := command ++ repeat x00 (12 - length command) in
      payload_size <- to_le_chk 4 (zlen payload) ;;
      Ok (start_bytes ++ command' ++ payload_size ++ checksum4 sha256 payload ++ payload).
End WithHash.
