(* Executable model of the receive threads of bits.p2p.Node (src/bits/p2p.py: Node.recv_loop,
   handle_command, handle_version_command, handle_ping_command, handle_verack_command) as an
   interleaving semantics.  Definitions only; proofs in Proofs/NodeQueue.v.

   One thread per peer runs

       while not exit_event.is_set():
           start_bytes, command, payload = recv_msg(self._peer_sockets[peer_no])     (R)
           payload = parse_payload(command, payload)
           if command in self._registered_commands_to_handle:                        (T)
               self.handle_command(peer_no, command, payload)                        (H)
           else:
               self._msg_queue.append((peer_no, command, payload))                   (A)

   [step s t] performs the next atomic action of thread [t]: (R) take the next message of t's
   program, (T) the membership test, then (H) the handler's action on shared state (sendall on the
   peer's socket, store the version payload in _peer_data[peer_no]) or (A) the append.  A handler
   that does nothing but log (handle_verack_command) has no step of its own: it is part of (T).
   Atomicity of each of these actions is the GIL hypothesis of the property (see harness/c18.py
   ASSUMPTIONS).  Thread start/stop, socket timeouts and exit_event are not modelled: a thread whose
   program is exhausted only makes idle steps.

   [step_old] is the loop body as it was before the repair (commit 0edbdc3):

           self._msg_queue.append((peer_no, command, payload))                       (A)
           if command in self._registered_commands_to_handle:                        (T)
               self._msg_queue.pop()                                                 (P)
               self.handle_command(peer_no, command, payload)                        (H)
*)
From Coq Require Import ZArith List Bool Arith.
Require Import Bits.Lib.Bytes.
Import ListNotations.
Import Coq.Init.Byte.

Definition tid := nat.

(* what a peer sends (after recv_msg + parse_payload) *)
Inductive msg : Type :=
| Ping (nonce : Z)                 (* b"ping", parse_ping_payload -> {"nonce": nonce} *)
| Version (v : bytes)              (* b"version" with raw payload v *)
| Verack                           (* b"verack" *)
| Other (name payload : bytes).    (* any other command *)

(* what the node sends back on the peer's socket *)
Inductive reply : Type :=
| Pong (nonce : Z)                 (* msg_ser(MAGIC, b"pong", ping_payload(nonce)) *)
| VerackR.                         (* msg_ser(MAGIC, b"verack", b"") *)

Definition cmd_version : bytes := [x76;x65;x72;x73;x69;x6f;x6e].
Definition cmd_verack  : bytes := [x76;x65;x72;x61;x63;x6b].
Definition cmd_ping    : bytes := [x70;x69;x6e;x67].
Definition cmd_pong    : bytes := [x70;x6f;x6e;x67].

(* Node.__init__: self._registered_commands_to_handle = [b"version", b"verack", b"ping"] *)
Definition registered : list bytes := [cmd_version; cmd_verack; cmd_ping].

Definition command (m : msg) : bytes :=
  match m with
  | Ping _ => cmd_ping
  | Version _ => cmd_version
  | Verack => cmd_verack
  | Other name _ => name
  end.

(* `command in self._registered_commands_to_handle` *)
Definition mem (c : bytes) (l : list bytes) : bool := existsb (bytes_eqb c) l.
Definition handled (m : msg) : bool := mem (command m) registered.

(* [Other name _] stands for the commands that are not registered; the three registered ones have
   their own constructors ([classify] below never produces anything else) *)
Definition wf_msg (m : msg) : bool :=
  match m with Other name _ => negb (mem name registered) | _ => true end.

(* ---------------------------------------------------------------------------------------- *)
(* state                                                                                      *)
(* ---------------------------------------------------------------------------------------- *)
Inductive phase : Type :=
| Idle                (* at the top of the loop *)
| Got (m : msg)       (* received and parsed m *)
| Hdl (m : msg)       (* tested: registered; about to run the handler's action *)
| Enq (m : msg)       (* tested: not registered; about to append       (repaired body only) *)
| App (m : msg)       (* appended, about to test                       (old body only) *)
| Pop (m : msg).      (* tested: registered; about to pop              (old body only) *)

Record thread : Type := mkThread { todo : list msg; cur : phase }.

Record state : Type := mkState {
  threads : tid -> thread;
  queue   : list (tid * msg);          (* Node._msg_queue, appended at the right *)
  sent    : tid -> list reply;         (* what was written to _peer_sockets[p], in order *)
  stored  : tid -> option bytes        (* _peer_data[p].get(b"version") *)
}.

Definition upd {A} (f : tid -> A) (t : tid) (a : A) : tid -> A :=
  fun x => if Nat.eqb x t then a else f x.

Definition set_thread (s : state) (t : tid) (th : thread) : state :=
  mkState (upd (threads s) t th) (queue s) (sent s) (stored s).

Definition enqueue (s : state) (t : tid) (m : msg) : state :=
  mkState (threads s) (queue s ++ [(t, m)]) (sent s) (stored s).

(* deque.pop(): removes the RIGHTMOST element, whatever it is *)
Definition pop_right (s : state) : state :=
  mkState (threads s) (removelast (queue s)) (sent s) (stored s).

(* handle_command(peer_no, command, payload): dispatch on the command name.
   version -> sendall(verack) on the peer's own socket, then _peer_data[peer_no][command] = payload
   ping    -> sendall(pong with the same nonce) on the peer's own socket
   verack  -> log only *)
Definition run_handler (s : state) (t : tid) (m : msg) : state :=
  match m with
  | Version v => mkState (threads s) (queue s) (upd (sent s) t (sent s t ++ [VerackR]))
                         (upd (stored s) t (Some v))
  | Ping n => mkState (threads s) (queue s) (upd (sent s) t (sent s t ++ [Pong n])) (stored s)
  | Verack => s
  | Other _ _ => s
  end.

(* does the handler touch shared state at all? *)
Definition has_action (m : msg) : bool :=
  match m with Version _ | Ping _ => true | Verack | Other _ _ => false end.

(* ---------------------------------------------------------------------------------------- *)
(* the loop body as it is NOW                                                                 *)
(* ---------------------------------------------------------------------------------------- *)
Definition step (s : state) (t : tid) : state :=
  let th := threads s t in
  match cur th with
  | Idle =>
      match todo th with
      | [] => s                                                    (* finished: idle step *)
      | m :: rest => set_thread s t (mkThread rest (Got m))        (* (R) *)
      end
  | Got m =>                                                       (* (T) *)
      if handled m
      then if has_action m
           then set_thread s t (mkThread (todo th) (Hdl m))
           else set_thread s t (mkThread (todo th) Idle)
      else set_thread s t (mkThread (todo th) (Enq m))
  | Hdl m => set_thread (run_handler s t m) t (mkThread (todo th) Idle)      (* (H) *)
  | Enq m => set_thread (enqueue s t m) t (mkThread (todo th) Idle)          (* (A) *)
  | App _ | Pop _ => s                                             (* not phases of this body *)
  end.

(* ---------------------------------------------------------------------------------------- *)
(* the loop body BEFORE the repair                                                            *)
(* ---------------------------------------------------------------------------------------- *)
Definition step_old (s : state) (t : tid) : state :=
  let th := threads s t in
  match cur th with
  | Idle =>
      match todo th with
      | [] => s
      | m :: rest => set_thread s t (mkThread rest (Got m))        (* (R) *)
      end
  | Got m => set_thread (enqueue s t m) t (mkThread (todo th) (App m))       (* (A) *)
  | App m =>                                                       (* (T) *)
      if handled m
      then set_thread s t (mkThread (todo th) (Pop m))
      else set_thread s t (mkThread (todo th) Idle)
  | Pop m =>                                                       (* (P) *)
      if has_action m
      then set_thread (pop_right s) t (mkThread (todo th) (Hdl m))
      else set_thread (pop_right s) t (mkThread (todo th) Idle)
  | Hdl m => set_thread (run_handler s t m) t (mkThread (todo th) Idle)      (* (H) *)
  | Enq _ => s                                                     (* not a phase of this body *)
  end.

(* ---------------------------------------------------------------------------------------- *)
(* runs                                                                                       *)
(* ---------------------------------------------------------------------------------------- *)
Definition prog_of (progs : list (list msg)) (p : tid) : list msg := nth p progs [].

(* thread p (p < length progs) is about to receive progs[p]; every other thread id is finished *)
Definition init (progs : list (list msg)) : state :=
  mkState (fun p => mkThread (prog_of progs p) Idle) [] (fun _ => []) (fun _ => None).

(* a schedule names the thread that makes the next step; steps of finished threads (and of thread
   ids that do not exist) are idle *)
Definition run_with (stp : state -> tid -> state) (s : state) (sched : list tid) : state :=
  fold_left stp sched s.
Definition run := run_with step.
Definition run_old := run_with step_old.

Definition thread_finished (th : thread) : bool :=
  match cur th, todo th with Idle, [] => true | _, _ => false end.

(* a decidable test of completeness for concrete runs with n threads *)
Definition finishedb (n : nat) (s : state) : bool :=
  forallb (fun p => thread_finished (threads s p)) (seq 0 n).

(* every thread has consumed its whole program and is back at the top of the loop *)
Definition finished (s : state) : Prop := forall p, thread_finished (threads s p) = true.
Definition complete (progs : list (list msg)) (sched : list tid) : Prop :=
  finished (run (init progs) sched).
Definition complete_old (progs : list (list msg)) (sched : list tid) : Prop :=
  finished (run_old (init progs) sched).

(* A coarser scheduler used by the harness when the sockets' recv is not a scheduling point:
   receiving is thread-local, so a thread that is back at the top of the loop receives its next
   message in the same grant.  Every run of it is a run of the fine-grained semantics
   (Proofs/NodeQueue.v, eager_is_schedule). *)
Definition eager (stp : state -> tid -> state) (s : state) (t : tid) : state :=
  let s' := stp s t in
  match cur (threads s' t), todo (threads s' t) with
  | Idle, _ :: _ => stp s' t
  | _, _ => s'
  end.
(* all n threads have received their first message *)
Definition start_eager (stp : state -> tid -> state) (n : nat) (s : state) : state :=
  fold_left stp (seq 0 n) s.

(* ---------------------------------------------------------------------------------------- *)
(* wire view (used by the extracted entry points and by GenProps/NodeGen.v)                   *)
(* ---------------------------------------------------------------------------------------- *)
(* recv_msg + parse_payload: which message a frame (command, payload) is *)
Definition classify (cmd payload : bytes) : msg :=
  if bytes_eqb cmd cmd_ping then Ping (of_le payload)       (* int.from_bytes(payload, "little") *)
  else if bytes_eqb cmd cmd_version then Version payload
  else if bytes_eqb cmd cmd_verack then Verack
  else Other cmd payload.

(* the (command, payload) of a frame the node sends; ping_payload(n) = n.to_bytes(8, "little") *)
Definition frame_of_reply (r : reply) : bytes * bytes :=
  match r with
  | Pong n => (cmd_pong, to_le 8 n)
  | VerackR => (cmd_verack, [])
  end.

(* (command, payload) of a message; the inverse of classify on what it produces *)
Definition frame_of_msg (m : msg) : bytes * bytes :=
  match m with
  | Ping n => (cmd_ping, to_le 8 n)
  | Version v => (cmd_version, v)
  | Verack => (cmd_verack, [])
  | Other name payload => (name, payload)
  end.
