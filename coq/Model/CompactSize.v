(* Model of the repo functions bits.utils.compact_size_uint / parse_compact_size_uint
   (/repo/src/bits/utils.py), as they are NOW.  Definitions only; proofs in Proofs/CompactSize.v.

     def compact_size_uint(integer):
         if integer < 0: raise ValueError
         elif integer <= 252:                return integer.to_bytes(1, "little")
         elif 253 <= integer <= 0xFFFF:      return b"\xfd" + integer.to_bytes(2, "little")
         elif 0x10000 <= integer <= 0xFFFFFFFF: return b"\xfe" + integer.to_bytes(4, "little")
         elif 0x100000000 <= integer <= 0xFFFFFFFFFFFFFFFF: return b"\xff" + integer.to_bytes(8, "little")
         else: raise ValueError

     def parse_compact_size_uint(payload):
         first_byte = payload[0]                      # IndexError on b""
         if   first_byte == 255: integer = int.from_bytes(payload[1:9], "little"); payload = payload[9:]
         elif first_byte == 254: integer = int.from_bytes(payload[1:5], "little"); payload = payload[5:]
         elif first_byte == 253: integer = int.from_bytes(payload[1:3], "little"); payload = payload[3:]
         else: integer = first_byte; payload = payload[1:]
         return integer, payload

   NOTE (modelled exactly): the parser does NOT reject non-canonical encodings (fd 01 00 -> 1) and does NOT
   check that enough bytes follow the prefix (b"\xfd\x01" -> (1, b"")): Python slices never fail. *)
From Coq Require Import ZArith List Lia Bool.
Require Import Bits.Lib.Result Bits.Lib.Bytes.
Import ListNotations.
Import Coq.Init.Byte.
Local Open Scope Z_scope.

Definition compact_size_uint (n : Z) : result bytes :=
  if n <? 0 then Err ValueE
  else if n <=? 252 then Ok (to_le 1 n)
  else if (253 <=? n) && (n <=? 65535) then Ok (xfd :: to_le 2 n)
  else if (65536 <=? n) && (n <=? 4294967295) then Ok (xfe :: to_le 4 n)
  else if (4294967296 <=? n) && (n <=? 18446744073709551615) then Ok (xff :: to_le 8 n)
  else Err ValueE.

Definition parse_compact_size_uint (payload : bytes) : result (Z * bytes) :=
  match payload with
  | [] => Err IndexE
  | first_byte :: _ =>
    if b2z first_byte =? 255 then Ok (of_le (slice 1 9 payload), skipn 9 payload)
    else if b2z first_byte =? 254 then Ok (of_le (slice 1 5 payload), skipn 5 payload)
    else if b2z first_byte =? 253 then Ok (of_le (slice 1 3 payload), skipn 3 payload)
    else Ok (b2z first_byte, skipn 1 payload)
  end.

(* Python slices  l[:z]  and  l[z:]  for an integer z >= 0 that may be far larger than len(l)
   (a parsed length is < 2^64): structural recursion on the list with a Z counter, so that no data-sized
   [nat] is ever built and the cost is min(z, len l) like Python's.  (For z < 0 these return [] / l;
   negative z never reaches them: parsed integers are >= 0.) *)
Fixpoint takeZ {A} (z : Z) (l : list A) : list A :=
  match l with
  | [] => []
  | x :: xs => if z <=? 0 then [] else x :: takeZ (z - 1) xs
  end.
Fixpoint dropZ {A} (z : Z) (l : list A) : list A :=
  match l with
  | [] => []
  | x :: xs => if z <=? 0 then l else dropZ (z - 1) xs
  end.
