(* Model of the WITNESS-STACK mode of bits.script.utils.script / decode_script
   (/repo/src/bits/script/utils.py, `witness=True`), as the code is NOW.  Definitions only;
   proofs (witness_stack_roundtrip) are in Proofs/Witness.v.

   script(args, witness=True):
       scriptbytes = compact_size_uint(len(args))
       for arg in args:
           if arg.startswith("OP_"):  scriptbytes += <one opcode byte>           (* NOT modelled, see below *)
           else: data = bytes.fromhex(arg)
                 scriptbytes += compact_size_uint(len(data)) + data

   RESTRICTION: [witness_ser] models the call for DATA items only (every arg a hex string).  An argument
   "OP_x" is appended as its single opcode byte WITHOUT a length prefix, i.e. "OP_0" yields the same byte
   00 as the empty data item "" and any other opcode yields a byte that the parser reads as a length:
   witness stacks containing "OP_..." arguments are outside this model (and outside the round trip).
   The EMPTY item "" is an ordinary data item: length prefix 00 and no bytes.

   decode_script(bs, witness=True)   (parse=False):
       n, bs = parse_compact_size_uint(bs)                 # IndexError on b""
       parsed_bytes = compact_size_uint(n)                 # cannot fail: n < 2^64
       if not n: return [], bs                             # the empty stack `00`
       while bs:
           push, item_bytes = parse_compact_size_uint(bs)
           data = item_bytes[:push]; decoded.append(data.hex()); bs = item_bytes[push:]
           n -= 1
           if not n: return decoded, bs
       return decoded                # <- buffer exhausted before n items were read: a BARE LIST, no tuple

   The last line returns a value of a different shape (a list instead of a (list, bytes) tuple); every
   caller unpacks two values (`witness_script, tx_prime = decode_script(...)` in tx_deser), which raises
   ValueError (or, for exactly two decoded items, binds two hex STRINGS and fails with TypeError on the
   next use).  The model returns [Err ValueE] for that path; the harness wrapper does the same unpacking
   and checks that the second component is bytes.
   Items are returned as hex strings by Python; the model returns the bytes (harness: bytes.fromhex). *)
From Coq Require Import ZArith List Lia Bool.
Require Import Bits.Lib.Result Bits.Lib.Bytes Bits.Model.CompactSize.
Import ListNotations.
Local Open Scope Z_scope.
Local Open Scope result_scope.

(* one data item: CompactSize length, then the bytes *)
Definition witness_item_ser (d : bytes) : result bytes :=
  p <- compact_size_uint (Z.of_nat (length d)) ;; Ok (p ++ d).

Fixpoint witness_items_ser (items : list bytes) : result bytes :=
  match items with
  | [] => Ok []
  | d :: ds => a <- witness_item_ser d ;; b <- witness_items_ser ds ;; Ok (a ++ b)
  end.

(* script([d.hex() for d in items], witness=True) *)
Definition witness_ser (items : list bytes) : result bytes :=
  c <- compact_size_uint (Z.of_nat (length items)) ;;
  b <- witness_items_ser items ;;
  Ok (c ++ b).

(* the `while scriptbytes:` loop; [n] = witness_stack_len still to read (> 0 on entry), [acc] = decoded
   items in reverse.  Every iteration consumes at least one byte, so fuel = length of the buffer suffices
   ([Err FuelE] is unreachable from [witness_deser], see Proofs/Witness.v: witness_deser_no_fuel). *)
Fixpoint witness_loop (fuel : nat) (n : Z) (acc : list bytes) (bs : bytes) : result (list bytes * bytes) :=
  match bs with
  | [] => Err ValueE                                   (* `return decoded`: bare list, see header *)
  | _ :: _ =>
    match fuel with
    | O => Err FuelE
    | S fuel' =>
      '(push, item_bytes) <- parse_compact_size_uint bs ;;
      let data := takeZ push item_bytes in
      let bs' := dropZ push item_bytes in
      let n' := n - 1 in
      if n' =? 0 then Ok (rev_append (data :: acc) [], bs')    (* = rev, in linear time *)
      else witness_loop fuel' n' (data :: acc) bs'
    end
  end.

(* decode_script(bs, witness=True) *)
Definition witness_deser (bs : bytes) : result (list bytes * bytes) :=
  '(n, bs1) <- parse_compact_size_uint bs ;;
  _ <- compact_size_uint n ;;
  if n =? 0 then Ok ([], bs1)
  else witness_loop (length bs1) n [] bs1.
