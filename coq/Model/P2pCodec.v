(* Executable model of the payload builders / parsers of /repo/src/bits/p2p.py AS THEY ARE NOW
   (definitions only; proofs in Proofs/P2pCodec.v):
     version_payload / parse_version_payload, ping_payload / parse_ping_payload,
     getheaders_payload / parse_getheaders_payload, inventory / inv_payload / parse_inventory / parse_inv_payload,
     network_ip_addr / addr_payload / parse_network_ip_addr / parse_addr_payload,
     parse_feefilter_payload, parse_sendcmpct_payload, parse_payload (dispatch by command name).
   Conventions: dict results are records / tuples with [option] for keys that may be absent; hex strings
   returned by the parsers are modelled as the bytes they denote; str arguments as their ASCII bytes;
   int(time.time()) is an argument ([timestamp]).  Python slices with computed bounds are [zslice]
   (clamped first, so no data-sized nat is built from a parsed 64-bit length). *)
From Coq Require Import ZArith List Bool.
Require Import Bits.Lib.Result Bits.Lib.Bytes Bits.Spec.P2p Bits.Model.CompactSize.
Import ListNotations.
Import Coq.Init.Byte.
Local Open Scope Z_scope.
Local Open Scope result_scope.

(* l[i:j] for integers 0 <= i, 0 <= j *)
Definition zclamp {A} (z : Z) (l : list A) : nat := Z.to_nat (Z.min z (Z.of_nat (length l))).
Definition zslice {A} (i j : Z) (l : list A) : list A :=
  firstn (zclamp j l - zclamp i l) (skipn (zclamp i l) l).
Definition zdrop {A} (i : Z) (l : list A) : list A := skipn (zclamp i l) l.
(* l[i] for an integer 0 <= i: IndexError beyond the end *)
Definition zindex (l : bytes) (i : Z) : result byte :=
  if i <? Z.of_nat (length l) then of_option IndexE (nth_error l (Z.to_nat i)) else Err IndexE.
Definition nonempty {A} (l : list A) : bool := match l with [] => false | _ => true end.
(* bytes.decode("ascii") succeeds *)
Definition is_ascii (l : bytes) : bool := forallb (fun b => b2z b <? 128) l.

(* ------------------------------------------------------------------ version *)
Definition ip_local : bytes :=       (* "::ffff:127.0.0.1".encode("ascii"): 16 characters *)
  [x3a;x3a;x66;x66;x66;x66;x3a;x31;x32;x37;x2e;x30;x2e;x30;x2e;x31].
Definition user_agent_const : bytes := (* b"/bits:0.1.0/" *)
  [x2f;x62;x69;x74;x73;x3a;x30;x2e;x31;x2e;x30;x2f].

Definition version_payload (timestamp start_height addr_recv_port addr_trans_port
                            protocol_version services : Z) (relay : bool) : result bytes :=
  pv <- to_le_chk 4 protocol_version ;;
  sv <- to_le_chk 8 services ;;
  ts <- to_le_chk 8 timestamp ;;
  rs <- to_le_chk 8 0 ;;
  rp <- to_be_chk 2 addr_recv_port ;;
  tp <- to_be_chk 2 addr_trans_port ;;
  nn <- to_le_chk 8 0 ;;
  ual <- compact_size_uint (Z.of_nat (length user_agent_const)) ;;
  sh <- to_le_chk 4 start_height ;;
  Ok (pv ++ sv ++ ts ++ rs ++ ip_local ++ rp ++ sv ++ ip_local ++ tp ++ nn ++ ual ++ user_agent_const
      ++ sh ++ [if relay then x01 else x00]).

Record version_fields : Type := {
  v_protocol_version : Z; v_services : Z; v_timestamp : Z;
  v_recv_services : Z; v_recv_ip : bytes; v_recv_port : Z;
  v_trans_services : Z; v_trans_ip : bytes; v_trans_port : Z;
  v_nonce : Z;
  v_user_agent_bytes : Z;            (* the parsed length *)
  v_user_agent : option bytes;       (* key absent when the length is 0 *)
  v_start_height : Z;
  v_relay : option bool              (* key absent when the byte is neither 0 nor 1 *)
}.

Definition relay_of (b : byte) : option bool :=
  if b2z b =? 1 then Some true else if b2z b =? 0 then Some false else None.

Definition parse_version_payload (v : bytes) : result version_fields :=
  let recv_ip := slice 28 44 v in
  let trans_ip := slice 54 70 v in
  if negb (is_ascii recv_ip) then Err ValueE
  else if negb (is_ascii trans_ip) then Err ValueE
  else
    b80 <- zindex v 80 ;;
    let uab := b2z b80 in
    let ua_len :=
      if uab <? 253 then uab
      else if uab =? 253 then of_le (slice 81 83 v)
      else if uab =? 254 then of_le (slice 81 85 v)
      else of_le (slice 81 89 v) in
    let mk ua sh relay :=
      {| v_protocol_version := of_le (slice 0 4 v); v_services := of_le (slice 4 12 v);
         v_timestamp := of_le (slice 12 20 v); v_recv_services := of_le (slice 20 28 v);
         v_recv_ip := recv_ip; v_recv_port := of_be (slice 44 46 v);
         v_trans_services := of_le (slice 46 54 v); v_trans_ip := trans_ip;
         v_trans_port := of_be (slice 70 72 v); v_nonce := of_le (slice 72 80 v);
         v_user_agent_bytes := ua_len; v_user_agent := ua; v_start_height := sh; v_relay := relay |} in
    if ua_len =? 0 then
      br <- zindex v 85 ;;
      if nonempty (skipn 86 v) then Err ValueE
      else Ok (mk None (of_le (slice 81 85 v)) (relay_of br))
    else
      br <- zindex v (81 + ua_len + 4) ;;
      if nonempty (zdrop (81 + ua_len + 4 + 1) v) then Err ValueE
      else Ok (mk (Some (zslice 81 (81 + ua_len) v))
                  (of_le (zslice (81 + ua_len) (81 + ua_len + 4) v)) (relay_of br)).

(* ------------------------------------------------------------------ ping *)
Definition ping_payload (nonce : Z) : result bytes := to_le_chk 8 nonce.
Definition parse_ping_payload (payload : bytes) : Z := of_le payload.

(* ------------------------------------------------------------------ getheaders *)
Definition getheaders_payload (protocol_version hash_count : Z) (block_header_hashes : list bytes)
                              (stop_hash : bytes) : result bytes :=
  pv <- to_le_chk 4 protocol_version ;;
  hc <- compact_size_uint hash_count ;;
  Ok (pv ++ hc ++ concat block_header_hashes ++ stop_hash).

(* [l[32*i : 32*(i+1)] for i in range(n)] *)
Fixpoint chunks (k n : nat) (l : bytes) : list bytes :=
  match n with
  | O => []
  | S n' => firstn k l :: chunks k n' (skipn k l)
  end.

(* (protocol_version, hash_count, block_header_hashes (key absent when hash_count = 0), stop_hash) *)
Definition parse_getheaders_payload (payload : bytes) : result (Z * Z * option (list bytes) * bytes) :=
  let pv := of_le (slice 0 4 payload) in
  '(hash_count, payload') <- parse_compact_size_uint (skipn 4 payload) ;;
  let index := Z.of_nat (length payload) - Z.of_nat (length payload') in
  if 0 <? hash_count then
    let bhh := zslice index (index + hash_count * 32) payload in
    let hashes := chunks 32 (Nat.div (length bhh) 32) bhh in
    let stop := zslice (index + hash_count * 32) (index + hash_count * 32 + 32) payload in
    if nonempty (zdrop (index + hash_count * 32 + 32) payload) then Err ValueE
    else Ok (pv, hash_count, Some hashes, stop)
  else
    let stop := zslice index (index + 32) payload in
    if nonempty (zdrop (index + 32) payload) then Err ValueE
    else Ok (pv, hash_count, None, stop).

(* ------------------------------------------------------------------ feefilter / sendcmpct *)
Definition parse_feefilter_payload (payload : bytes) : result Z :=
  if (length payload =? 8)%nat then Ok (of_le payload) else Err AssertionE.
Definition parse_sendcmpct_payload (payload : bytes) : result (Z * Z) :=
  if (length payload =? 9)%nat
  then Ok (match payload with b :: _ => b2z b | [] => 0 end, of_le (skipn 1 payload))
  else Err AssertionE.

(* ------------------------------------------------------------------ inv *)
(* str.upper() on ASCII *)
Definition ascii_upper (b : byte) : byte :=
  if (97 <=? b2z b) && (b2z b <=? 122) then z2b (b2z b - 32) else b.

Fixpoint assoc_key (k : bytes) (t : list (bytes * Z)) : option Z :=
  match t with
  | [] => None
  | (k', v) :: t' => if bytes_eqb k' k then Some v else assoc_key k t'
  end.
Fixpoint assoc_val (v : Z) (t : list (bytes * Z)) : option bytes :=
  match t with
  | [] => None
  | (k, v') :: t' => if v' =? v then Some k else assoc_val v t'
  end.

(* int.to_bytes(INVENTORY_TYPE_ID[type_id.upper()], 4, "little") + hash *)
Definition inventory (type_id hash : bytes) : result bytes :=
  tid <- of_option KeyE (assoc_key (map ascii_upper type_id) inventory_type_id) ;;
  t <- to_le_chk 4 tid ;;
  Ok (t ++ hash).

Definition inv_payload (count : Z) (inventories : list bytes) : result bytes :=
  c <- compact_size_uint count ;;
  Ok (c ++ concat inventories).

(* (type_id name, hash) *)
Definition parse_inventory (inventory_ : bytes) : result (bytes * bytes) :=
  if negb (length inventory_ =? 36)%nat then Err AssertionE
  else
    name <- of_option IndexE (assoc_val (of_le (firstn 4 inventory_)) inventory_type_id) ;;
    Ok (name, skipn 4 inventory_).

(* for _ in range(count): parse_inventory(payload[start:start+36]); start += 36   ([rest] = payload[start:]) *)
Fixpoint parse_inv_items (fuel : nat) (count : Z) (rest : bytes) : result (list (bytes * bytes)) :=
  if count <=? 0 then Ok []
  else match fuel with
       | O => Err FuelE
       | S f =>
         item <- parse_inventory (firstn 36 rest) ;;
         items <- parse_inv_items f (count - 1) (skipn 36 rest) ;;
         Ok (item :: items)
       end.

(* (count, inventory) *)
Definition parse_inv_payload (payload : bytes) : result (Z * list (bytes * bytes)) :=
  b0 <- zindex payload 0 ;;
  let '(count, start) :=
    if b2z b0 =? 253 then (of_le (slice 1 3 payload), 3%nat)
    else if b2z b0 =? 254 then (of_le (slice 1 5 payload), 5%nat)
    else if b2z b0 =? 255 then (of_le (slice 1 9 payload), 9%nat)
    else (b2z b0, 1%nat) in
  items <- parse_inv_items (S (length payload)) count (skipn start payload) ;;
  Ok (count, items).

(* ------------------------------------------------------------------ addr *)
Definition network_ip_addr (time : Z) (services ip_addr : bytes) (port : Z) : result bytes :=
  t <- to_le_chk 4 time ;;
  p <- to_be_chk 2 port ;;
  Ok (t ++ services ++ ip_addr ++ p).

(* (time, services, ip_addr, port) *)
Definition parse_network_ip_addr (payload : bytes) : Z * bytes * bytes * Z :=
  (of_le (slice 0 4 payload), slice 4 12 payload, slice 12 28 payload, of_be (skipn 28 payload)).

Definition addr_payload (count : Z) (addrs : list bytes) : result bytes :=
  c <- compact_size_uint count ;;
  Ok (c ++ concat addrs).

(* [parse_network_ip_addr(payload[30*i : 30*(i+1)]) for i in range(count)] *)
Fixpoint parse_addrs (n : nat) (rest : bytes) : list (Z * bytes * bytes * Z) :=
  match n with
  | O => []
  | S n' => parse_network_ip_addr (firstn 30 rest) :: parse_addrs n' (skipn 30 rest)
  end.

Definition parse_addr_payload (payload : bytes) : result (list (Z * bytes * bytes * Z)) :=
  '(count, rest) <- parse_compact_size_uint payload ;;
  Ok (parse_addrs (Z.to_nat count) rest).

(* ------------------------------------------------------------------ parse_payload *)
Inductive parsed : Type :=
| PVersion (v : version_fields)
| PPing (nonce : Z)
| PGetheaders (r : Z * Z * option (list bytes) * bytes)
| PFeefilter (feerate : Z)
| PSendcmpct (r : Z * Z)
| PInv (r : Z * list (bytes * bytes))
| PAddr (r : list (Z * bytes * bytes * Z))
| PNoParser.                          (* no parse_<command>_payload in the module: returns None *)

Definition cmd_is (command : bytes) (i : nat) : bool := bytes_eqb command (nth i parser_commands []).

(* parse_fn = globals().get(f"parse_{command.decode('ascii')}_payload") *)
Definition parse_payload (command payload : bytes) : result parsed :=
  if negb (is_ascii command) then Err ValueE
  else if cmd_is command 0 then rmap PAddr (parse_addr_payload payload)
  else if cmd_is command 1 then rmap PFeefilter (parse_feefilter_payload payload)
  else if cmd_is command 2 then rmap PGetheaders (parse_getheaders_payload payload)
  else if cmd_is command 3 then rmap PInv (parse_inv_payload payload)
  else if cmd_is command 4 then Ok (PPing (parse_ping_payload payload))
  else if cmd_is command 5 then rmap PSendcmpct (parse_sendcmpct_payload payload)
  else if cmd_is command 6 then rmap PVersion (parse_version_payload payload)
  else Ok PNoParser.
