(* Executable model of src/bits/bips/bip39/__init__.py (definitions only; proofs in Proofs/Bip39.v).
   Strings are their UTF-8 bytes.  [wordlist] is what load_wordlist() returns (Gen/Wordlist.v at the
   entry points); sha256 / pbkdf2_hmac / unicodedata.normalize are library calls = Section variables. *)
From Coq Require Import ZArith List Bool.
Require Import Bits.Lib.Result Bits.Lib.Bytes.
Import ListNotations.
Import Coq.Init.Byte.
Local Open Scope Z_scope.
Local Open Scope result_scope.

(* ---------- str.split() / " ".join on UTF-8 ---------- *)
(* str.isspace() code points: 9-13, 28-32, 85, A0, 1680, 2000-200A, 2028, 2029, 202F, 205F, 3000 *)
Definition is_ascii_ws (a : Z) : bool := (9 <=? a) && (a <=? 13) || (28 <=? a) && (a <=? 32).

(* number of bytes of the white-space character at the head of s; 0 when there is none *)
Definition ws_len (s : bytes) : nat :=
  match s with
  | [] => O
  | b :: r =>
    let a := b2z b in
    if is_ascii_ws a then 1%nat
    else if a <? 128 then O
    else match r with
         | [] => O
         | c' :: r' =>
           let c := b2z c' in
           if (a =? 194) && ((c =? 133) || (c =? 160)) then 2%nat                       (* U+0085 U+00A0 *)
           else match r' with
                | [] => O
                | d' :: _ =>
                  let d := b2z d' in
                  if (a =? 225) && (c =? 154) && (d =? 128) then 3%nat                  (* U+1680 *)
                  else if (a =? 226) && (c =? 128)
                          && ((128 <=? d) && (d <=? 138) || (d =? 168) || (d =? 169) || (d =? 175))
                       then 3%nat                                     (* U+2000-200A U+2028 U+2029 U+202F *)
                  else if (a =? 226) && (c =? 129) && (d =? 159) then 3%nat             (* U+205F *)
                  else if (a =? 227) && (c =? 128) && (d =? 128) then 3%nat             (* U+3000 *)
                  else O
                end
         end
  end.

Definition flush (cur_rev : bytes) : list bytes :=
  match cur_rev with [] => [] | _ => [rev cur_rev] end.

(* mnemonic.split(): maximal runs of non-white-space characters *)
Fixpoint split_go (s : bytes) (skip : nat) (cur_rev : bytes) : list bytes :=
  match s with
  | [] => flush cur_rev
  | b :: r =>
    match skip with
    | S k => split_go r k cur_rev                 (* remaining bytes of a white-space character *)
    | O => match ws_len s with
           | O => split_go r O (b :: cur_rev)
           | S k => flush cur_rev ++ split_go r k []
           end
    end
  end.
Definition split_ws (s : bytes) : list bytes := split_go s O [].

(* " ".join(ws) *)
Definition join_sp (ws : list bytes) : bytes :=
  match ws with
  | [] => []
  | w :: r => w ++ flat_map (fun x => x20 :: x) r
  end.

(* ---------- list primitives with Python's exceptions ---------- *)
(* digest()[0] *)
Definition byte0 (bs : bytes) : result Z :=
  match bs with [] => Err IndexE | b :: _ => Ok (b2z b) end.
(* bs[-1] *)
Definition byte_last (bs : bytes) : result Z :=
  match rev bs with [] => Err IndexE | b :: _ => Ok (b2z b) end.

(* words[i] (i >= 0 here; negative i counts from the end as in Python) *)
Definition list_get (l : list bytes) (i : Z) : result bytes :=
  let j := if i <? 0 then i + Z.of_nat (length l) else i in
  if j <? 0 then Err IndexE else of_option IndexE (nth_error l (Z.to_nat j)).

(* wordlist.index(word): first position, ValueError when absent *)
Fixpoint index_from (w : bytes) (l : list bytes) (i : Z) : option Z :=
  match l with
  | [] => None
  | x :: r => if bytes_eqb x w then Some i else index_from w r (i + 1)
  end.
Definition list_index (l : list bytes) (w : bytes) : result Z := of_option ValueE (index_from w l 0).

Definition z_in (x : Z) (l : list Z) : bool := existsb (Z.eqb x) l.

Section Bip39.
  Variable sha256 : bytes -> bytes.
  Variable wordlist : list bytes.

  (* while idx < count: bit_groups.append((entropy >> idx * 11) & 0x7FF); idx += 1 *)
  Definition bit_groups (entropy : Z) (count : Z) : list Z :=
    map (fun idx => Z.land (Z.shiftr entropy (Z.of_nat idx * 11)) 2047) (seq 0 (Z.to_nat count)).

  (* the list of words that calculate_mnemonic_phrase joins *)
  Definition mnemonic_words (entropy : bytes) : result (list bytes) :=
    let strength := Z.of_nat (length entropy) * 8 in
    if negb (z_in strength [128; 160; 192; 224; 256]) then Err ValueE else
    let ENT := strength / 32 in
    h0 <- byte0 (sha256 entropy) ;;
    (* hashlib.sha256(entropy).digest()[0] & (2**ENT - 1) << (8 - ENT)   [<< binds tighter than &] *)
    let checksum := Z.land h0 (Z.shiftl (2 ^ ENT - 1) (8 - ENT)) in
    let e1 := Z.shiftl (of_be entropy) ENT in
    (* entropy |= checksum >> 8 - ENT *)
    let e2 := Z.lor e1 (Z.shiftr checksum (8 - ENT)) in
    let groups := bit_groups e2 ((strength + ENT) / 11) in
    mapM (list_get wordlist) (rev groups).

  Definition calculate_mnemonic_phrase (entropy : bytes) : result bytes :=
    rmap join_sp (mnemonic_words entropy).

  (* for idx, word in enumerate(reversed(words)): data |= wordlist.index(word) << (idx * 11) *)
  Fixpoint fold_data (rev_words : list bytes) (idx : Z) (data : Z) : result Z :=
    match rev_words with
    | [] => Ok data
    | w :: r =>
      g <- list_index wordlist w ;;
      fold_data r (idx + 1) (Z.lor data (Z.shiftl g (idx * 11)))
    end.

  Definition to_entropy_words (words : list bytes) : result bytes :=
    let n := Z.of_nat (length words) in
    if negb (z_in n [12; 15; 18; 21; 24]) then Err ValueE else
    let ewc_bitlen := n * 11 in
    let ewc_len := (ewc_bitlen + 7) / 8 in
    let checksum_bitlen := n / 3 in
    let entropy_bitlen := ewc_bitlen - checksum_bitlen in
    let entropy_len := (entropy_bitlen + 7) / 8 in
    data <- fold_data (rev words) 0 0 ;;
    ewc <- to_be_chk (Z.to_nat ewc_len) data ;;
    last <- byte_last ewc ;;
    (* data.to_bytes(...)[-1] & 2**checksum_bitlen - 1 *)
    let checksum := Z.land last (2 ^ checksum_bitlen - 1) in
    let entropy := Z.shiftr data checksum_bitlen in
    ent <- to_be_chk (Z.to_nat entropy_len) entropy ;;
    h0 <- byte0 (sha256 ent) ;;
    let checksum_check := Z.shiftr h0 (8 - checksum_bitlen) in
    if checksum_check =? checksum then Ok ent else Err AssertionE.

  Definition to_entropy (mnemonic : bytes) : result bytes := to_entropy_words (split_ws mnemonic).
End Bip39.

Section Seed.
  Variable pbkdf2_hmac_sha512 : bytes -> bytes -> Z -> Z -> bytes.   (* password salt iterations dklen *)
  Variable nfkd : bytes -> bytes.                                    (* unicodedata.normalize("NFKD", s) *)
  Definition mnemonic_str : bytes := [x6d; x6e; x65; x6d; x6f; x6e; x69; x63].   (* "mnemonic" *)
  (* hashlib.pbkdf2_hmac("sha512", NFKD(mnemonic), NFKD("mnemonic" + passphrase), 2048)   [dklen None = 64] *)
  Definition to_seed (mnemonic passphrase : bytes) : bytes :=
    pbkdf2_hmac_sha512 (nfkd mnemonic) (nfkd (mnemonic_str ++ passphrase)) 2048 64.
End Seed.
