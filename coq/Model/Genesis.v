(* Executable model of bits.blockchain.genesis_coinbase_tx / genesis_block (/repo/src/bits/blockchain.py) AS THEY ARE
   NOW, built from the models of the functions they call (Model/Coinbase.v coinbase_txin, Model/Script.v
   p2pk_script_pubkey, Model/Tx.v txout / tx, Model/Merkle.v, Model/Block.v).  Definitions only.

     def genesis_coinbase_tx():
         satoshis_pk = bytes.fromhex("04678afd...1d5f")
         psz_timestamp = b"The Times 03/Jan/2009 Chancellor on brink of second bailout for banks"
         coinbase_script = (b"\x04" + (486604799).to_bytes(4, "little") + b"\x01" + (4).to_bytes(1, "little")
                            + len(psz_timestamp).to_bytes(1, "little") + psz_timestamp)
         coinbase_tx = bits.tx.tx([bits.tx.coinbase_txin(coinbase_script)],
                                  [bits.tx.txout(50 * COIN, bits.script.p2pk_script_pubkey(satoshis_pk))])
         return coinbase_tx

     def genesis_block():
         version: int = 1; nTime = 1231006505; nBits = 0x1D00FFFF; nNonce = 2083236893
         coinbase_tx = genesis_coinbase_tx()
         merkle_ = merkle_root([bits.tx.txid(coinbase_tx)])
         return block_ser(block_header(1, NULL_32, merkle_, nTime, nBits.to_bytes(4, "little"), nNonce), [coinbase_tx]) *)
From Coq Require Import ZArith List Bool.
Require Import Bits.Lib.Result Bits.Lib.Bytes Bits.Model.CompactSize Bits.Model.Tx.
Require Bits.Model.Coinbase Bits.Model.Script Bits.Model.Merkle Bits.Model.Block.
Import ListNotations.
Import Coq.Init.Byte.
Local Open Scope Z_scope.
Local Open Scope result_scope.

Definition satoshis_pk : bytes :=
  [x04; x67; x8a; xfd; xb0; xfe; x55; x48; x27; x19; x67; xf1; xa6; x71; x30; xb7; x10; x5c; xd6; xa8; x28; xe0; x39; x09;
   xa6; x79; x62; xe0; xea; x1f; x61; xde; xb6; x49; xf6; xbc; x3f; x4c; xef; x38; xc4; xf3; x55; x04; xe5; x1e; xc1; x12;
   xde; x5c; x38; x4d; xf7; xba; x0b; x8d; x57; x8a; x4c; x70; x2b; x6b; xf1; x1d; x5f].

(* b"The Times 03/Jan/2009 Chancellor on brink of second bailout for banks" *)
Definition psz_timestamp : bytes :=
  [x54; x68; x65; x20; x54; x69; x6d; x65; x73; x20; x30; x33; x2f; x4a; x61; x6e; x2f; x32; x30; x30; x39; x20; x43; x68;
   x61; x6e; x63; x65; x6c; x6c; x6f; x72; x20; x6f; x6e; x20; x62; x72; x69; x6e; x6b; x20; x6f; x66; x20; x73; x65; x63;
   x6f; x6e; x64; x20; x62; x61; x69; x6c; x6f; x75; x74; x20; x66; x6f; x72; x20; x62; x61; x6e; x6b; x73].

Definition COIN : Z := 100000000.
Definition NULL_32 : bytes := repeat x00 32.

Definition genesis_coinbase_script : result bytes :=
  nb <- to_le_chk 4 486604799 ;;
  four <- to_le_chk 1 4 ;;
  l <- to_le_chk 1 (Z.of_nat (length psz_timestamp)) ;;
  Ok ([x04] ++ nb ++ [x01] ++ four ++ l ++ psz_timestamp).

Definition genesis_coinbase_tx : result bytes :=
  coinbase_script <- genesis_coinbase_script ;;
  txin_ <- Bits.Model.Coinbase.coinbase_txin coinbase_script [xff; xff; xff; xff] None ;;
  spk <- Bits.Model.Script.p2pk_script_pubkey satoshis_pk ;;
  txout_ <- txout (50 * COIN) spk ;;
  tx_raw [txin_] [txout_] 1 0 [].

Section WithHash.
  Variable sha256 : bytes -> bytes.

  Definition genesis_block : result bytes :=
    coinbase_tx <- genesis_coinbase_tx ;;
    merkle_ <- Bits.Model.Merkle.merkle_root sha256 [txid sha256 coinbase_tx] ;;
    nbits <- to_le_chk 4 486604799 ;;                                      (* 0x1D00FFFF *)
    hdr <- Bits.Model.Block.block_header
             (Bits.Model.Block.mk_header 1 NULL_32 merkle_ 1231006505 nbits 2083236893) ;;
    Bits.Model.Block.block_ser hdr [coinbase_tx].
End WithHash.
