(* Executable model of src/bits/base58.py (definitions only; proofs in Proofs/Base58.v) *)
From Coq Require Import ZArith List Bool.
Require Import Bits.Lib.Result Bits.Lib.Bytes Bits.Lib.Radix Bits.Spec.Base58.
Import ListNotations.
Local Open Scope Z_scope.
Local Open Scope result_scope.

(* BITCOIN_ALPHABET[idx : idx + 1] *)
Definition alpha_at (i : Z) : byte := nth (Z.to_nat i) alphabet Coq.Init.Byte.x00.

(* BITCOIN_ALPHABET_MAP[byte]  (KeyError when absent) *)
Fixpoint index_of (c : byte) (l : bytes) (i : Z) : option Z :=
  match l with
  | [] => None
  | x :: xs => if byte_eqb x c then Some i else index_of c xs (i + 1)
  end.
Definition alpha_idx (c : byte) : result Z := of_option KeyE (index_of c alphabet 0).

Definition zero_char : byte := alpha_at 0.   (* b"1" *)

Definition base58encode (data : bytes) : bytes :=
  let stripped := lstrip Coq.Init.Byte.x00 data in
  let zeros := (length data - length stripped)%nat in
  let integer := of_be stripped in
  (* while integer: integer, idx = divmod(integer, 58); encoded = ALPHABET[idx] + encoded *)
  let ds := digits (2 * length stripped) 58 integer in
  repeat zero_char zeros ++ map alpha_at ds.

(* result += MAP[byte] * 58**idx  over enumerate(reversed(data)) *)
Fixpoint sum_rev (idxs_rev : list Z) (i : Z) : Z :=
  match idxs_rev with
  | [] => 0
  | d :: rest => d * 58 ^ i + sum_rev rest (i + 1)
  end.

Definition base58decode (data : bytes) : result bytes :=
  let stripped := lstrip zero_char data in
  let ones := (length data - length stripped)%nat in
  idxs_rev <- mapM alpha_idx (rev stripped) ;;
  let result_ := sum_rev idxs_rev 0 in
  (* while result: result, byte = divmod(result, 256); decoded = bytes([byte]) + decoded *)
  let decoded := map z2b (digits (length stripped) 256 result_) in
  Ok (repeat Coq.Init.Byte.x00 ones ++ decoded).

Section WithHash.
  Variable sha256 : bytes -> bytes.
  Definition hash256 (m : bytes) : bytes := sha256 (sha256 m).

  Definition base58check (data : bytes) : bytes :=
    base58encode (data ++ firstn 4 (hash256 data)).

  Definition base58check_decode (addr : bytes) : result bytes :=
    decoded <- base58decode addr ;;
    let payload := droplast 4 decoded in
    let checksum := lastn 4 decoded in
    if bytes_eqb checksum (firstn 4 (hash256 payload)) then Ok payload else Err ValueE.

  Definition is_base58check (data : bytes) : bool := is_ok (base58check_decode data).
End WithHash.
