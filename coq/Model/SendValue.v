(* C16, value layer of /repo/src/bits/tx.py send_tx AS THE CODE IS NOW (after fe4be0c "round (not truncate)"):

       total_available = round(sender_txoutset["total_amount"] * 1e8)
       amount_to_send  = int(send_fraction * total_available)
       total_amount = 0
       for utxo in sender_txoutset["unspents"]:
           amount = round(utxo["amount"] * 1e8)
           ... build the txin ...
           total_amount += amount
           if total_amount >= amount_to_send: break
       txouts = [txout(int(amount_to_send - miner_fee), recipient_scriptpubkey)]
       if int(total_amount - amount_to_send) >= 1000:
           txouts.append(txout(int(total_amount - amount_to_send), change_scriptpubkey))

   Floats are IEEE 754 binary64, modelled by Coq's [SpecFloat] (prec = 53, emax = 1024): the specification the
   kernel's primitive floats ([PrimFloat]) are axiomatised against.  Model/SendPrim.v gives the PrimFloat twins of
   [sat_of_btc] and [amount_to_send]; Props/C16.v and every check run (vm_compute cross-check) compare the two.
   A float arrives from the harness as an exact pair (m, e) meaning m * 2^e (taken from float.hex / as_integer_ratio).

   Definitions only; proofs in Proofs/SendValue.v. *)
From Coq Require Import ZArith List Bool.
From Coq Require Import Floats.SpecFloat.
Require Import Bits.Lib.Result.
Import ListNotations.
Local Open Scope Z_scope.
Local Open Scope result_scope.

Definition prec : Z := 53.
Definition emax : Z := 1024.

(* the binary64 nearest (ties to even) to m * 2^e; exact whenever m * 2^e is representable *)
Definition sf_of_me (m e : Z) : spec_float := binary_normalize prec emax m e false.

(* Python int -> float (PyLong_AsDouble): correctly rounded, OverflowError beyond the largest double *)
Definition float_of_int (z : Z) : result spec_float :=
  match sf_of_me z 0 with
  | S754_infinity _ => Err OverflowE
  | x => Ok x
  end.

(* int(x): truncation toward zero; ValueError for NaN, OverflowError for an infinity *)
Definition sf_trunc (x : spec_float) : result Z :=
  match x with
  | S754_zero _ => Ok 0
  | S754_infinity _ => Err OverflowE
  | S754_nan => Err ValueE
  | S754_finite s m e =>
    let v := if 0 <=? e then Z.pos m * 2 ^ e else Z.pos m / 2 ^ (- e) in
    Ok (if s then - v else v)
  end.

(* round(x) with no ndigits (float.__round__): nearest integer, ties to EVEN *)
Definition sf_round (x : spec_float) : result Z :=
  match x with
  | S754_zero _ => Ok 0
  | S754_infinity _ => Err OverflowE
  | S754_nan => Err ValueE
  | S754_finite s m e =>
    let v :=
        if 0 <=? e then Z.pos m * 2 ^ e
        else
          let d := 2 ^ (- e) in
          let q := Z.pos m / d in
          let r := Z.pos m mod d in
          match 2 * r ?= d with
          | Lt => q
          | Gt => q + 1
          | Eq => if Z.even q then q else q + 1
          end in
    Ok (if s then - v else v)
  end.

Definition f1e8 : spec_float := sf_of_me 100000000 0.          (* the literal 1e8: exactly representable *)

(* round(a * 1e8) *)
Definition sat_of_btc (a : spec_float) : result Z := sf_round (SFmul prec emax a f1e8).

(* int(send_fraction * total_available)      (float * int: the int is converted first) *)
Definition amount_to_send (send_fraction : spec_float) (total_available : Z) : result Z :=
  t <- float_of_int total_available ;;
  sf_trunc (SFmul prec emax send_fraction t).

(* the selection loop; [mk u] is whatever else the body computes for the utxo (the serialised txin), evaluated
   AFTER the amount and BEFORE the accumulation, as in the code.  Returns the selected utxos with their [mk]
   values and total_amount. *)
Section Loop.
  Context {U T : Type}.
  Variable sat_of : U -> result Z.        (* round(utxo["amount"] * 1e8) *)
  Variable mk : U -> result T.

  Fixpoint select (us : list U) (target acc : Z) : result (list (U * T) * Z) :=
    match us with
    | [] => Ok ([], acc)
    | u :: rest =>
      s <- sat_of u ;;
      t <- mk u ;;
      let acc' := acc + s in
      if acc' >=? target then Ok ([(u, t)], acc')
      else '(sel, tot) <- select rest target acc' ;; Ok ((u, t) :: sel, tot)
    end.
End Loop.

(* the output VALUES: recipient first, change second iff it reaches the hard-coded dust limit 1000 *)
Definition dust_limit : Z := 1000.
Definition output_values (to_send fee total_sel : Z) : list Z :=
  (to_send - fee) :: (if total_sel - to_send >=? dust_limit then [total_sel - to_send] else []).

(* value.to_bytes(8, "little") of txout: OverflowError outside [0, 2^64) *)
Definition value_ok (v : Z) : bool := (0 <=? v) && (v <? 2 ^ 64).

(* the whole value layer: (number of inputs, output values) of the transaction send_tx builds *)
Definition send_values (send_fraction total_amount : spec_float) (amounts : list spec_float) (fee : Z)
  : result (Z * list Z) :=
  total_available <- sat_of_btc total_amount ;;
  to_send <- amount_to_send send_fraction total_available ;;
  '(sel, total_sel) <- select sat_of_btc (fun _ => Ok tt) amounts to_send 0 ;;
  let vs := output_values to_send fee total_sel in
  if forallb value_ok vs then Ok (Z.of_nat (length sel), vs) else Err OverflowE.
