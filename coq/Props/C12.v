(* C12 - BIP340 Schnorr signatures are the specified ones; only valid ones accepted.
   Model: Model/Schnorr.v (bits/bips/bip340.py as it is now).  Spec: Spec/Bip340.v (from the BIP text).
   Only the property theorems (closed by [exact]) and their assumptions.

   Explicit premises (not axioms):
     curve_facts p 0 7 n G   chord-and-tangent addition on y^2 = x^3 + 7 over F_p is a group, G has order n (Proofs/Ecdsa.v)
     lift_facts p            p odd, c^((p+1)/4) is a square root of every square, a square has only the roots y, p - y
     cofactor_one p 0 7 n    n.P = infinity for every curve point (only for public keys not known to be multiples of G)
     p, n <= 2^256           32-byte encodings
     sha256 has 32-byte output (otherwise arbitrary)
   all proved outright for (p, n) = (43, 31) (Examples at the end) and (79, 67), (67, 79) (Proofs/SchnorrSmallBig.v).

   Known hypothesis H (DESIGN 8 C12): on the one path where the challenge e = 0 (mod n) the code evaluates
   point_negate(None) -> TypeError while the BIP computes.  It is the premise [challenge_of ... <> 0] of
   C12_sign_is_spec / C12_verify_iff_spec, it is NOT needed for soundness (C12_verify_sound, C12_sign_verifies), and the
   behaviour on that path is proved exactly (C12_verify_e0_typeerror, C12_sign_e0_typeerror). *)
From Coq Require Import ZArith List Bool.
Require Import Bits.Lib.Result Bits.Lib.Bytes Bits.Model.Ecmath Bits.Model.Keys Bits.Model.Schnorr.
Require Import Bits.Proofs.Ecmath Bits.Proofs.Ecdsa Bits.Proofs.Schnorr Bits.Proofs.SchnorrSign.
Require Import Bits.Proofs.SmallCurves Bits.Proofs.SchnorrSmall.
Require Bits.Proofs.Sec1 Bits.Proofs.SchnorrSec1.
Require Bits.Spec.Bip340.
Import ListNotations.
Local Open Scope Z_scope.

Module B := Bits.Spec.Bip340.

(* ---------------------------------------------------------------- lift_x *)
Theorem C12_lift_x_is_spec : forall p, 7 < p -> forall xb,
  lift_x p xb = match B.lift_x p (of_be xb) with Some P => Ok P | None => Err AssertionE end.
Proof. exact lift_x_is_spec. Qed.
Print Assumptions C12_lift_x_is_spec.

(* "returns the point P for which x(P) = x and has_even_y(P), or fails if ... no such point exists" *)
Theorem C12_lift_x_char : forall p, 7 < p -> lift_facts p -> forall x x' y, 0 <= x ->
  (B.lift_x p x = Some (x', y) <-> x' = x /\ oncurve p 0 7 (Some (x, y)) /\ y mod 2 = 0).
Proof. exact lift_x_char. Qed.
Print Assumptions C12_lift_x_char.

Theorem C12_lift_x_fails_iff : forall p, 7 < p -> lift_facts p -> forall x, 0 <= x ->
  (B.lift_x p x = None <-> forall y, ~ oncurve p 0 7 (Some (x, y))).
Proof. exact lift_x_fails_iff. Qed.
Print Assumptions C12_lift_x_fails_iff.

(* the premise lift_facts follows from C14's record sqrt_facts (Proofs/Sec1.v): one hypothesis about square roots mod p
   serves both properties on secp256k1 *)
Theorem C12_lift_facts_from_sqrt_facts : forall p, Bits.Proofs.Sec1.sqrt_facts p -> lift_facts p.
Proof. exact Bits.Proofs.SchnorrSec1.lift_facts_of_sqrt_facts. Qed.
Print Assumptions C12_lift_facts_from_sqrt_facts.

(* ---------------------------------------------------------------- verification *)
(* accepted by the code => accepted by the BIP: for ALL byte strings pk, m, sig, no further premise *)
Theorem C12_verify_sound :
  forall p n G sha256, curve_facts p 0 7 n G -> p <= 2 ^ 256 ->
  forall pk m sig v, verify p 0 7 n G sha256 pk m sig = Ok v ->
    v = ok_str /\ B.verify p n G (padd p 0) sha256 pk m sig = true.
Proof. exact verify_sound. Qed.
Print Assumptions C12_verify_sound.

(* verify = "OK"  <->  the BIP's Verify succeeds, for ALL byte strings pk, m, sig (any lengths) *)
Theorem C12_verify_iff_spec :
  forall p n G sha256, curve_facts p 0 7 n G -> p <= 2 ^ 256 ->
  forall pk m sig, cofactor_one p 0 7 n ->
    (length pk = 32%nat -> length sig = 64%nat -> challenge_of n sha256 pk m sig <> 0) ->
    (verify p 0 7 n G sha256 pk m sig = Ok ok_str <-> B.verify p n G (padd p 0) sha256 pk m sig = true).
Proof. exact verify_iff_spec. Qed.
Print Assumptions C12_verify_iff_spec.

(* every rejection is an exception: AssertionError, or TypeError on the e.P = infinity path *)
Theorem C12_verify_err_kinds :
  forall p n G sha256, curve_facts p 0 7 n G -> p <= 2 ^ 256 ->
  forall pk m sig k, verify p 0 7 n G sha256 pk m sig = Err k -> k = AssertionE \/ k = TypeE.
Proof. exact verify_err_kinds. Qed.
Print Assumptions C12_verify_err_kinds.

(* the deviation, exactly: all checks on the encodings pass and e = 0 (mod n): TypeError, whatever the BIP says *)
Theorem C12_verify_e0_typeerror :
  forall p n G sha256, curve_facts p 0 7 n G -> p <= 2 ^ 256 ->
  forall pk m sig x y, length pk = 32%nat -> length sig = 64%nat ->
    B.lift_x p (of_be pk) = Some (x, y) -> of_be (firstn 32 sig) < p -> of_be (skipn 32 sig) < n ->
    challenge_of n sha256 pk m sig = 0 -> verify p 0 7 n G sha256 pk m sig = Err TypeE.
Proof. exact verify_e0_typeerror. Qed.
Print Assumptions C12_verify_e0_typeerror.

(* ---------------------------------------------------------------- signing *)
(* 32-byte key in [1, n-1], any message, 32-byte aux: the code's signature IS the BIP's (AssertionError where the BIP fails) *)
Theorem C12_sign_is_spec :
  forall p n G sha256, curve_facts p 0 7 n G -> lift_facts p -> p <= 2 ^ 256 -> n <= 2 ^ 256 ->
  (forall x, length (sha256 x) = 32%nat) ->
  forall rnd key m aux, length key = 32%nat -> 1 <= of_be key < n -> length aux = 32%nat ->
  (forall sig pk, B.sign p n G (padd p 0) sha256 key m aux = Some sig -> B.pubkey_gen n G (padd p 0) key = Some pk ->
     challenge_of n sha256 pk m sig <> 0) ->
  sign p 0 7 n G sha256 rnd key m (Some aux) = of_option AssertionE (B.sign p n G (padd p 0) sha256 key m aux).
Proof. exact sign_is_spec. Qed.
Print Assumptions C12_sign_is_spec.

(* aux omitted: the 32 bytes drawn from secrets.token_bytes are the aux *)
Theorem C12_sign_aux_omitted : forall p n G sha256 rnd key m,
  sign p 0 7 n G sha256 rnd key m None = sign p 0 7 n G sha256 [] key m (Some rnd).
Proof. exact sign_aux_omitted. Qed.
Print Assumptions C12_sign_aux_omitted.

(* the BIP's algorithm returns only 64-byte signatures that its Verify accepts under PubKey(sk) *)
Theorem C12_spec_sign_some :
  forall p n G sha256, curve_facts p 0 7 n G -> lift_facts p -> p <= 2 ^ 256 -> n <= 2 ^ 256 ->
  (forall x, length (sha256 x) = 32%nat) ->
  forall key m aux, length key = 32%nat -> 1 <= of_be key < n -> length aux = 32%nat ->
  forall sig, B.sign p n G (padd p 0) sha256 key m aux = Some sig ->
  length sig = 64%nat /\ exists pk, B.pubkey_gen n G (padd p 0) key = Some pk /\ B.verify p n G (padd p 0) sha256 pk m sig = true.
Proof. exact spec_sign_some. Qed.
Print Assumptions C12_spec_sign_some.

(* whatever sign returns (aux given or omitted) is 64 bytes and is accepted - by the code's verify and by the BIP's -
   under the x-only public key of the secret key *)
Theorem C12_sign_verifies :
  forall p n G sha256, curve_facts p 0 7 n G -> lift_facts p -> p <= 2 ^ 256 -> n <= 2 ^ 256 ->
  (forall x, length (sha256 x) = 32%nat) ->
  forall rnd key m aux sig, sign p 0 7 n G sha256 rnd key m aux = Ok sig ->
  length sig = 64%nat /\
  exists pk, pubkey_of_key p 0 7 n G key = Ok pk /\ B.pubkey_gen n G (padd p 0) key = Some pk /\
             verify p 0 7 n G sha256 pk m sig = Ok ok_str /\ B.verify p n G (padd p 0) sha256 pk m sig = true.
Proof. exact sign_verifies. Qed.
Print Assumptions C12_sign_verifies.

(* secret keys 0 and >= n are refused (ValueError); wrong key / aux lengths are refused (AssertionError) *)
Theorem C12_sign_refuses_range : forall p n G sha256 rnd key m aux, length key = 32%nat ->
  length (match aux with Some x => x | None => rnd end) = 32%nat ->
  of_be key = 0 \/ n <= of_be key -> sign p 0 7 n G sha256 rnd key m aux = Err ValueE.
Proof. exact sign_refuses_range. Qed.
Print Assumptions C12_sign_refuses_range.

Theorem C12_sign_refuses_length : forall p n G sha256 rnd key m aux,
  length key <> 32%nat \/ length (match aux with Some x => x | None => rnd end) <> 32%nat ->
  sign p 0 7 n G sha256 rnd key m aux = Err AssertionE.
Proof. exact sign_refuses_length. Qed.
Print Assumptions C12_sign_refuses_length.

(* the deviation on the signing side *)
Theorem C12_sign_e0_typeerror :
  forall p n G sha256, curve_facts p 0 7 n G -> lift_facts p -> p <= 2 ^ 256 -> n <= 2 ^ 256 ->
  (forall x, length (sha256 x) = 32%nat) ->
  forall rnd key m aux sig pk, length key = 32%nat -> 1 <= of_be key < n -> length aux = 32%nat ->
  B.sign p n G (padd p 0) sha256 key m aux = Some sig -> B.pubkey_gen n G (padd p 0) key = Some pk ->
  challenge_of n sha256 pk m sig = 0 -> sign p 0 7 n G sha256 rnd key m (Some aux) = Err TypeE.
Proof. exact sign_e0_typeerror. Qed.
Print Assumptions C12_sign_e0_typeerror.

(* x-only public key = PubKey(sk) of the BIP *)
Theorem C12_pubkey_is_spec :
  forall p n G, curve_facts p 0 7 n G -> p <= 2 ^ 256 ->
  forall key, length key = 32%nat ->
  pubkey_of_key p 0 7 n G key = of_option AssertionE (B.pubkey_gen n G (padd p 0) key).
Proof. exact pubkey_is_spec. Qed.
Print Assumptions C12_pubkey_is_spec.

(* ---------------------------------------------------------------- non-vacuity: the premises hold on the small curves *)
Example C12_premises_43 : curve_facts 43 0 7 31 G43 /\ lift_facts 43 /\ cofactor_one 43 0 7 31 /\ 43 <= 2 ^ 256 /\ 31 <= 2 ^ 256
  /\ (forall x, length (toy_hash x) = 32%nat).
Proof.
  split; [exact facts_43|]. split; [exact lift_43|]. split; [exact cofactor_43|].
  split; [intro H; discriminate H|]. split; [intro H; discriminate H|]. exact toy_hash_length.
Qed.
(* the same for (79, 67) and (67, 79): Proofs/SchnorrSmallBig.v (C12_premises_79, C12_premises_67), kept out of this file's
   import closure so that coqchk of Props/C12 stays cheap *)

Import Coq.Init.Byte.
Definition ex_key : bytes := to_be 32 5.
Definition ex_aux : bytes := to_be 32 0.
Definition ex_pk : bytes := to_be 32 12.                                 (* x(5.G43) = 12 *)
Definition ex_sig : bytes := to_be 32 32 ++ to_be 32 3.                   (* r = 32, s = 3 *)

(* a concrete run on (43, 31): code = BIP, the signature verifies, premises of C12_sign_is_spec hold *)
Example C12_ex_sign :
  sign 43 0 7 31 G43 toy_hash [] ex_key [x61] (Some ex_aux) = Ok ex_sig /\
  B.sign 43 31 G43 (padd 43 0) toy_hash ex_key [x61] ex_aux = Some ex_sig /\
  pubkey_of_key 43 0 7 31 G43 ex_key = Ok ex_pk /\ B.pubkey_gen 31 G43 (padd 43 0) ex_key = Some ex_pk /\
  challenge_of 31 toy_hash ex_pk [x61] ex_sig <> 0 /\
  verify 43 0 7 31 G43 toy_hash ex_pk [x61] ex_sig = Ok ok_str /\
  B.verify 43 31 G43 (padd 43 0) toy_hash ex_pk [x61] ex_sig = true.
Proof. vm_compute. repeat split; try reflexivity. discriminate. Qed.

(* alterations are rejected by both: other message, s + 1, r + 1, a byte appended, leading zero byte removed *)
Example C12_ex_reject :
  verify 43 0 7 31 G43 toy_hash ex_pk [x62] ex_sig = Err AssertionE /\
  B.verify 43 31 G43 (padd 43 0) toy_hash ex_pk [x62] ex_sig = false /\
  verify 43 0 7 31 G43 toy_hash ex_pk [x61] (to_be 32 32 ++ to_be 32 4) = Err AssertionE /\
  verify 43 0 7 31 G43 toy_hash ex_pk [x61] (to_be 32 33 ++ to_be 32 3) = Err AssertionE /\
  verify 43 0 7 31 G43 toy_hash ex_pk [x61] (ex_sig ++ [x00]) = Err AssertionE /\
  B.verify 43 31 G43 (padd 43 0) toy_hash ex_pk [x61] (ex_sig ++ [x00]) = false /\
  verify 43 0 7 31 G43 toy_hash (tl ex_pk) [x61] ex_sig = Err AssertionE /\
  B.verify 43 31 G43 (padd 43 0) toy_hash (tl ex_pk) [x61] ex_sig = false /\
  verify 43 0 7 31 G43 toy_hash ex_pk [x61] (to_be 32 43 ++ to_be 32 3) = Err AssertionE /\      (* r = p *)
  verify 43 0 7 31 G43 toy_hash ex_pk [x61] (to_be 32 32 ++ to_be 32 31) = Err AssertionE.       (* s = n *)
Proof. vm_compute. repeat split; reflexivity. Qed.

(* keys 0 and n refused; the BIP fails too *)
Example C12_ex_refuse :
  sign 43 0 7 31 G43 toy_hash [] (to_be 32 0) [x61] (Some ex_aux) = Err ValueE /\
  sign 43 0 7 31 G43 toy_hash [] (to_be 32 31) [x61] (Some ex_aux) = Err ValueE /\
  sign 43 0 7 31 G43 toy_hash [] (tl ex_key) [x61] (Some ex_aux) = Err AssertionE /\
  sign 43 0 7 31 G43 toy_hash [] ex_key [x61] (Some (tl ex_aux)) = Err AssertionE /\
  B.sign 43 31 G43 (padd 43 0) toy_hash (to_be 32 0) [x61] ex_aux = None /\
  B.sign 43 31 G43 (padd 43 0) toy_hash (to_be 32 31) [x61] ex_aux = None.
Proof. vm_compute. repeat split; reflexivity. Qed.

(* the zero-nonce path (k' = 0): both fail; reachable on the small curve (message 0x15) *)
Example C12_ex_zero_nonce :
  sign 43 0 7 31 G43 toy_hash [] ex_key [x15] (Some ex_aux) = Err AssertionE /\
  B.sign 43 31 G43 (padd 43 0) toy_hash ex_key [x15] ex_aux = None.
Proof. vm_compute. split; reflexivity. Qed.

(* the UNREACHABLE-AT-SCALE deviation (hypothesis H) IS reached on the small curve: for message 0x0b the challenge is 0 mod 31;
   the BIP returns a signature (and its Verify accepts it), the code raises TypeError in sign and in verify.
   On secp256k1 reaching this path needs a SHA-256 output that is 0 mod n. *)
Example C12_ex_e0_deviation :
  exists sig,
    B.sign 43 31 G43 (padd 43 0) toy_hash ex_key [x0b] ex_aux = Some sig /\
    challenge_of 31 toy_hash ex_pk [x0b] sig = 0 /\
    B.verify 43 31 G43 (padd 43 0) toy_hash ex_pk [x0b] sig = true /\
    verify 43 0 7 31 G43 toy_hash ex_pk [x0b] sig = Err TypeE /\
    sign 43 0 7 31 G43 toy_hash [] ex_key [x0b] (Some ex_aux) = Err TypeE.
Proof.
  destruct (B.sign 43 31 G43 (padd 43 0) toy_hash ex_key [x0b] ex_aux) as [sig|] eqn:E; [|vm_compute in E; discriminate].
  exists sig. vm_compute in E. injection E as <-. vm_compute. repeat split; reflexivity.
Qed.

(* lift_x on the small curve: x = 12 lifts to the even-y point; x = 1 is not an x coordinate; x = p is out of range *)
Example C12_ex_lift :
  lift_x 43 (to_be 32 12) = Ok (12, 12) /\ B.lift_x 43 12 = Some (12, 12) /\
  lift_x 43 (to_be 32 1) = Err AssertionE /\ B.lift_x 43 1 = None /\
  lift_x 43 (to_be 32 43) = Err AssertionE /\ B.lift_x 43 43 = None.
Proof. vm_compute. repeat split; reflexivity. Qed.
