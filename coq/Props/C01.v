(* C01 - ECDSA signing: signatures verify, are canonical (low-S, strict DER), no nonce reuse.
   [curve_facts] / [curve_facts_x] are explicit premises for secp256k1 (classical facts: group law, prime
   order, x determines the point up to sign, G generates); they are PROVED for the small curves. *)
From Coq Require Import ZArith List Bool Lia.
Require Import Bits.Lib.Result Bits.Lib.Bytes Bits.Model.Ecmath Bits.Model.Keys Bits.Model.Der
  Bits.Proofs.Ecmath Bits.Proofs.Ecdsa Bits.Proofs.EcdsaMore Bits.Proofs.EcdsaNonce
  Bits.Proofs.SmallCurves Bits.Spec.Bip66 Bits.Proofs.Der
  Bits.Model.Sec1 Bits.Proofs.Sec1 Bits.Proofs.Sec1Small Bits.Proofs.SigRoundtrip.
Import ListNotations.
Import Coq.Init.Byte.
Local Open Scope Z_scope.

(* For EVERY list of random draws (0, 1, n-1, repeated, out of range ... included), every key in [1,n-1]
   and every digest z (any integer: 0, >= n, 2^256-1 ...): whatever sign returns
   (1) has r in [1,n-1] and s in [1, n/2]                                  (range, BIP62 low-S)
   (2) verifies under the public key key*G with the library's verifier      (for the unreduced z)
   (3) has r = x(k G) mod n for a non-zero draw k taken from the random source *)
Theorem C01_sign_sound : forall p a b n G, curve_facts p a b n G ->
  forall draws d z r s rest, 1 <= d < n ->
  sign_with p a n G draws d z = Ok (r, s, rest) ->
  (1 <= r < n /\ 1 <= s <= n / 2) /\
  verify p a b n G r s (smul p a d G) z = Ok true /\
  (exists k, In k draws /\ 0 < k < n /\ exists x y, smul p a k G = Some (x, y) /\ r = x mod n).
Proof. exact sign_sound. Qed.
Print Assumptions C01_sign_sound.

(* "any standard ECDSA verifier": the library verifier accepts exactly the textbook equation *)
Theorem C01_verifier_is_standard : forall p a b n G, curve_facts p a b n G ->
  forall r s Q z, oncurve p a b Q ->
  (verify p a b n G r s Q z = Ok true <-> spec_verify p a n G r s Q z = true).
Proof. exact verify_iff. Qed.
Print Assumptions C01_verifier_is_standard.

Corollary C01_signature_passes_standard_verifier : forall p a b n G, curve_facts p a b n G ->
  forall draws d z r s rest, 1 <= d < n ->
  sign_with p a n G draws d z = Ok (r, s, rest) ->
  spec_verify p a n G r s (smul p a d G) z = true.
Proof.
  intros p a b n G CF draws d z r s rest Hd H.
  destruct (sign_sound p a b n G CF draws d z r s rest Hd H) as (_ & V & _).
  apply (verify_iff p a b n G CF); [|exact V].
  apply (smul_oncurve p a b (cf_group _ _ _ _ _ CF)); [apply CF|lia].
Qed.
Print Assumptions C01_signature_passes_standard_verifier.

(* no nonce reuse: two signatures with equal r - whatever the keys and messages - come from draws whose
   points agree in x (mod n), and when the x coordinates are equal the draws are equal up to sign:
   r is a function of the random draw only *)
Theorem C01_r_collision_needs_repeat : forall p a b n G, curve_facts p a b n G -> curve_facts_x p a b n G ->
  forall draws1 draws2 d1 d2 z1 z2 r s1 s2 rest1 rest2,
  1 <= d1 < n -> 1 <= d2 < n ->
  sign_with p a n G draws1 d1 z1 = Ok (r, s1, rest1) ->
  sign_with p a n G draws2 d2 z2 = Ok (r, s2, rest2) ->
  exists k1 k2 x1 y1 x2 y2, In k1 draws1 /\ In k2 draws2 /\ 0 < k1 < n /\ 0 < k2 < n /\
    smul p a k1 G = Some (x1, y1) /\ smul p a k2 G = Some (x2, y2) /\
    x1 mod n = r /\ x2 mod n = r /\ (x1 = x2 -> k2 = k1 \/ k2 = n - k1).
Proof. exact r_collision_needs_repeat. Qed.
Print Assumptions C01_r_collision_needs_repeat.

(* ---- DER: strict (BIP66), minimal, positive, and decodes back to the same (r, s) ---- *)
Theorem C01_der_roundtrip : forall r s, 1 <= r < 2^256 -> 1 <= s < 2^256 ->
  exists der, der_encode_sig r s = Ok der /\ der_decode_sig der = Ok (r, s).
Proof. exact der_roundtrip. Qed.
Print Assumptions C01_der_roundtrip.

Theorem C01_der_strict : forall r s flag, 1 <= r < 2^256 -> 1 <= s < 2^256 ->
  exists der, der_encode_sig r s = Ok der /\ bip66_valid (der ++ [flag]) = true.
Proof. exact der_strict. Qed.
Print Assumptions C01_der_strict.

(* the integers are minimal and positive: no leading 00 unless the next byte has its top bit set *)
Theorem C01_der_integer_minimal : forall v, 1 <= v ->
  exists bs, int_min_bytes v = Ok bs /\ of_be bs = v /\ (1 <= length bs)%nat /\
    (forall k, v < 256 ^ Z.of_nat k -> (length bs <= k + 1)%nat) /\
    (forall b0 rest, bs = b0 :: rest ->
       b2z b0 < 128 /\ (b2z b0 = 0 -> exists b1 rest', rest = b1 :: rest' /\ 128 <= b2z b1)).
Proof. exact int_min_bytes_spec. Qed.
Print Assumptions C01_der_integer_minimal.

(* the appended sighash byte equals the requested flag, in plain-message and in preimage mode,
   for any hash function *)
Theorem C01_sig_flag_suffix : forall p a n G sha256 draws key msg f pre sg rest,
  sig p a n G sha256 draws key msg (Some f) pre = Ok (sg, rest) -> 0 <= f < 256 ->
  exists der, sg = der ++ [z2b f].
Proof. exact sig_flag_suffix. Qed.
Print Assumptions C01_sig_flag_suffix.

Theorem C01_sig_preimage_flag_suffix : forall p a n G sha256 draws key msg sg rest,
  sig p a n G sha256 draws key msg None true = Ok (sg, rest) ->
  of_le (lastn 4 msg) < 256 /\ exists der, sg = der ++ [z2b (of_le (lastn 4 msg))].
Proof. exact sig_preimage_flag_suffix. Qed.
Print Assumptions C01_sig_preimage_flag_suffix.

(* wrapper level: what utils.sig returns is accepted ("OK") by utils.sig_verify under the signer's public key in
   compressed (c = true) AND uncompressed (c = false) SEC1 form, in plain-message (pre = false) and preimage
   (pre = true) mode, for every flag byte and ANY hash function; sec1_facts = square roots mod p (C14) *)
Theorem C01_sig_then_sig_verify : forall p a b n G sha256,
  curve_facts p a b n G -> sec1_facts p a b -> n <= 2 ^ 256 ->
  forall draws key msg f pre sg rest c,
  sig p a n G sha256 draws key msg (Some f) pre = Ok (sg, rest) -> 0 <= f < 256 ->
  exists d x y pk,
    privkey_int n key = Ok d /\ smul p a d G = Some (x, y) /\ pubkey x y c = Ok pk /\
    sig_verify p a b n G sha256 sg pk msg pre = Ok true.
Proof. exact sig_then_sig_verify. Qed.
Print Assumptions C01_sig_then_sig_verify.

(* the premises hold on the small curves: there the theorems above are unconditional *)
Theorem C01_premises_hold_on_small_curves :
  curve_facts 43 0 7 31 G43 /\ curve_facts_x 43 0 7 31 G43.
Proof. exact (conj facts_43 facts_x_43). Qed.
(* the same for (p, n) = (79, 67) and (67, 79): Props/SmallCurvesAll.v (minutes of kernel computation) *)
Print Assumptions C01_premises_hold_on_small_curves.

(* concrete runs: retry on the zero draw; digest >= n; the negation branch *)
Example C01_ex_sign_43 :
  sign_with 43 0 31 G43 [0; 5; 7] 3 100 = Ok (12, 10, [7]) /\
  verify 43 0 7 31 G43 12 10 (smul 43 0 3 G43) 100 = Ok true /\
  sign_with 43 0 31 G43 [0; 0] 3 100 = Err FuelE.
Proof. vm_compute. auto. Qed.
