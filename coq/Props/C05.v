(* C05 - Transaction (de)serialisation is a lossless round trip, legacy and segwit; CompactSize.
   Only the property theorems (closed by [exact]) with their assumptions, and examples.
   Models: Model/CompactSize.v, Model/Witness.v, Model/Tx.v (hand-written from /repo/src/bits/utils.py,
   script/utils.py, tx.py); standards: Lib/CompactSize.v (developer reference), Spec/Tx.v (BIP141/144). *)
From Coq Require Import ZArith List Lia.
Require Import Bits.Lib.Result Bits.Lib.Bytes Bits.Lib.CompactSize Bits.Spec.Tx.
Require Import Bits.Model.CompactSize Bits.Model.Witness Bits.Model.Tx.
Require Import Bits.Proofs.CompactSize Bits.Proofs.Witness Bits.Proofs.Tx Bits.Proofs.TxSpec Bits.Proofs.TxTotal.
Import ListNotations.
Import Coq.Init.Byte.
Local Open Scope Z_scope.

(* ---------------- CompactSize ---------------- *)
(* every integer in [0, 2^64-1] is encoded, in the standard's form ... *)
Theorem C05_cs_is_spec : forall n, 0 <= n < 2 ^ 64 -> compact_size_uint n = Ok (cs_enc n).
Proof. exact compact_size_uint_spec. Qed.
Print Assumptions C05_cs_is_spec.

(* ... and parses back to itself whatever follows *)
Theorem C05_cs_roundtrip : forall n bs, compact_size_uint n = Ok bs ->
  forall rest, parse_compact_size_uint (bs ++ rest) = Ok (n, rest).
Proof. exact cs_roundtrip. Qed.
Print Assumptions C05_cs_roundtrip.

(* 1/3/5/9 bytes exactly at the thresholds 253, 2^16, 2^32, and no encoding of the same integer that the
   reference decoder accepts is shorter *)
Theorem C05_cs_shortest : forall n bs, compact_size_uint n = Ok bs ->
  length bs = (if n <? 253 then 1%nat else if n <? 2 ^ 16 then 3%nat else if n <? 2 ^ 32 then 5%nat else 9%nat) /\
  forall bs' rest', cs_dec bs' = Some (n, rest') -> (length bs <= length bs' - length rest')%nat.
Proof. exact cs_shortest. Qed.
Print Assumptions C05_cs_shortest.

(* integers outside [0, 2^64-1] are refused with ValueError, never encoded *)
Theorem C05_cs_refuses : forall n, n < 0 \/ 2 ^ 64 <= n -> compact_size_uint n = Err ValueE.
Proof. exact cs_refuses. Qed.
Print Assumptions C05_cs_refuses.

Theorem C05_cs_accepts_iff : forall n, (exists bs, compact_size_uint n = Ok bs) <-> 0 <= n < 2 ^ 64.
Proof. exact compact_size_uint_ok_iff. Qed.
Print Assumptions C05_cs_accepts_iff.

(* the parser agrees with the reference decoder wherever that one accepts (it is more liberal: it also
   accepts truncated encodings, which no theorem below relies on) *)
Theorem C05_cs_parser_refines_spec : forall bs r, cs_dec bs = Some r -> parse_compact_size_uint bs = Ok r.
Proof. exact parse_of_cs_dec. Qed.
Print Assumptions C05_cs_parser_refines_spec.

(* ---------------- witness stacks ---------------- *)
Theorem C05_witness_stack_roundtrip : forall items ser, witness_ser items = Ok ser ->
  forall rest, witness_deser (ser ++ rest) = Ok (items, rest).
Proof. exact witness_stack_roundtrip. Qed.
Print Assumptions C05_witness_stack_roundtrip.

(* the encoder accepts exactly the stacks whose count and item lengths fit 64 bits (in particular the empty
   stack, empty items, items of 253 and 65536 bytes), and produces the BIP141/144 form *)
Theorem C05_witness_ser_accepts_iff : forall items, (exists ser, witness_ser items = Ok ser) <->
  Z.of_nat (length items) < 2 ^ 64 /\ Forall (fun d => Z.of_nat (length d) < 2 ^ 64) items.
Proof. exact witness_ser_ok_iff. Qed.
Print Assumptions C05_witness_ser_accepts_iff.

Theorem C05_witness_ser_is_spec : forall items ser, witness_ser items = Ok ser -> ser = spec_witness_stack items.
Proof. exact witness_ser_spec. Qed.
Print Assumptions C05_witness_ser_is_spec.

(* ---------------- transactions ---------------- *)
(* every well-formed transaction is serialised, and to the standard's format *)
Theorem C05_tx_ser_is_spec : forall t, wf_tx t ->
  tx_ser t = Ok (spec_ser t) /\ tx_ser_nowit t = Ok (spec_ser_original t).
Proof. exact tx_ser_is_spec. Qed.
Print Assumptions C05_tx_ser_is_spec.

(* deserialising the serialisation returns exactly the fields and exactly the bytes that follow *)
Theorem C05_tx_roundtrip : forall (sha256 : bytes -> bytes) t bs, wf_tx t -> tx_ser t = Ok bs ->
  forall rest, exists d, tx_deser sha256 (bs ++ rest) = Ok (d, rest) /\ p_tx d = t.
Proof. exact tx_roundtrip_fields. Qed.
Print Assumptions C05_tx_roundtrip.

(* serialising the parsed fields again reproduces the original bytes *)
Theorem C05_tx_reserialise : forall (sha256 : bytes -> bytes) t bs, wf_tx t -> tx_ser t = Ok bs ->
  forall rest d rest', tx_deser sha256 (bs ++ rest) = Ok (d, rest') -> tx_ser (p_tx d) = Ok bs /\ rest' = rest.
Proof. exact tx_reserialise. Qed.
Print Assumptions C05_tx_reserialise.

(* the fuel of the model's loops is never exhausted, on any input *)
Theorem C05_tx_deser_fuel_suffices : forall (sha256 : bytes -> bytes) bs, tx_deser sha256 bs <> Err FuelE.
Proof. exact tx_deser_no_fuel. Qed.
Print Assumptions C05_tx_deser_fuel_suffices.
Theorem C05_witness_deser_fuel_suffices : forall bs, witness_deser bs <> Err FuelE.
Proof. exact witness_deser_no_fuel. Qed.
Print Assumptions C05_witness_deser_fuel_suffices.

(* ---------------- non-vacuity and concrete vectors ---------------- *)
Definition ex_txid : bytes := map (fun n => z2b (Z.of_nat n)) (seq 0 32).
Definition ex_in (seqno : bytes) : txin_t := mk_txin ex_txid 1 [x51; x52] seqno.
Definition ex_out : txout_t := mk_txout 5000000000 [x76; xa9; x14].
Definition ex_legacy : tx_t := mk_tx 1 [ex_in [xfe; xff; xff; xff]] [ex_out] None 17.
Definition ex_segwit : tx_t :=
  mk_tx 2 [ex_in [xfe; xff; xff; xff]; ex_in [x00; x00; x00; x00]] [ex_out; ex_out]
        (Some [[]; [[x01; x02; x03]; []]]) 500000.

Example C05_ex_wf_legacy : wf_tx ex_legacy.
Proof. unfold wf_tx, ex_legacy; cbn. repeat split; try lia; try discriminate;
  repeat constructor; cbn; lia. Qed.
Example C05_ex_wf_segwit : wf_tx ex_segwit.
Proof. unfold wf_tx, ex_segwit; cbn. repeat split; try lia; try discriminate;
  repeat constructor; cbn; lia. Qed.

(* concrete vector: BIP141 layout, empty stack = 00, empty item = 00 (toy hash: identity) *)
Example C05_ex_segwit_bytes : tx_ser ex_segwit = Ok (
  [x02;x00;x00;x00; x00; x01; x02] ++ (ex_txid ++ [x01;x00;x00;x00; x02; x51;x52; xfe;xff;xff;xff])
  ++ (ex_txid ++ [x01;x00;x00;x00; x02; x51;x52; x00;x00;x00;x00])
  ++ [x02; x00;xf2;x05;x2a;x01;x00;x00;x00; x03; x76;xa9;x14; x00;xf2;x05;x2a;x01;x00;x00;x00; x03; x76;xa9;x14]
  ++ [x00] ++ [x02; x03; x01;x02;x03; x00] ++ [x20;xa1;x07;x00]).
Proof. vm_compute. reflexivity. Qed.
Example C05_ex_segwit_roundtrip :
  match tx_ser ex_segwit with
  | Ok bs => match tx_deser (fun m => m) (bs ++ [xaa; x00]) with
             | Ok (d, rest) => p_tx d = ex_segwit /\ rest = [xaa; x00]
             | Err _ => False end
  | Err _ => False end.
Proof. vm_compute. split; reflexivity. Qed.

(* CompactSize boundaries *)
Example C05_ex_cs_252 : compact_size_uint 252 = Ok [xfc]. Proof. reflexivity. Qed.
Example C05_ex_cs_253 : compact_size_uint 253 = Ok [xfd; xfd; x00]. Proof. reflexivity. Qed.
Example C05_ex_cs_65535 : compact_size_uint 65535 = Ok [xfd; xff; xff]. Proof. reflexivity. Qed.
Example C05_ex_cs_65536 : compact_size_uint 65536 = Ok [xfe; x00; x00; x01; x00]. Proof. reflexivity. Qed.
Example C05_ex_cs_2_32 : compact_size_uint (2 ^ 32) = Ok [xff; x00;x00;x00;x00;x01;x00;x00;x00]. Proof. reflexivity. Qed.
Example C05_ex_cs_max : compact_size_uint (2 ^ 64 - 1) = Ok [xff; xff;xff;xff;xff;xff;xff;xff;xff]. Proof. reflexivity. Qed.
Example C05_ex_cs_2_64 : compact_size_uint (2 ^ 64) = Err ValueE. Proof. reflexivity. Qed.
Example C05_ex_cs_neg : compact_size_uint (-1) = Err ValueE. Proof. reflexivity. Qed.
(* the parser is liberal: non-canonical and truncated encodings are accepted (modelled as the code is) *)
Example C05_ex_parse_noncanonical : parse_compact_size_uint [xfd; x01; x00] = Ok (1, []). Proof. reflexivity. Qed.
Example C05_ex_parse_truncated : parse_compact_size_uint [xfd; x01] = Ok (1, []). Proof. reflexivity. Qed.

(* a LARGE instance of the hypotheses: 300 inputs, one witness item of 70 000 bytes, a 65 536-byte script
   (sizes through Z.to_nat: no data-sized nat literal) *)
Definition big_item : bytes := repeat xab (Z.to_nat 70000).
Definition big_script : bytes := repeat x6a (Z.to_nat 65536).
Definition big_tx : tx_t :=
  mk_tx 2 (repeat (mk_txin (repeat x11 32) 4294967295 big_script [x00; x00; x00; x00]) (Z.to_nat 300))
        [mk_txout 0 big_script]
        (Some (repeat [big_item; []] (Z.to_nat 300))) 4294967295.
Example C05_ex_wf_big : wf_tx big_tx.
Proof.
  assert (L1 : length big_item = Z.to_nat 70000) by apply repeat_length.
  assert (L2 : length big_script = Z.to_nat 65536) by apply repeat_length.
  unfold wf_tx, big_tx. cbn [tx_version tx_locktime tx_ins tx_outs tx_wits].
  rewrite !repeat_length. repeat split; try lia.
  - intro E. apply (f_equal (@length _)) in E. rewrite repeat_length in E. cbn [length] in E. lia.
  - apply Forall_forall. intros i Hi. apply repeat_spec in Hi. subst i.
    unfold wf_txin; cbn [ti_txid ti_vout ti_script ti_seq]. rewrite L2, repeat_length. repeat split; lia.
  - constructor; [|constructor]. unfold wf_txout; cbn [to_value to_script]. rewrite L2. lia.
  - apply Forall_forall. intros w Hw. apply repeat_spec in Hw. subst w.
    split; [cbn [length]; lia|]. constructor; [rewrite L1; lia|]. constructor; [cbn [length]; lia|constructor].
Qed.

(* why wf_tx demands at least one input: a legacy transaction WITHOUT inputs starts with the count 00,
   which the parser takes for the BIP141 marker; it does not come back *)
Example C05_zero_inputs_not_roundtrip : forall sha256 : bytes -> bytes,
  let t0 := mk_tx 1 [] [mk_txout 1 []] None 0 in
  exists bs, tx_ser t0 = Ok bs /\ forall d rest, tx_deser sha256 bs = Ok (d, rest) -> p_tx d <> t0.
Proof.
  intros sha256 t0. eexists. split; [vm_compute; reflexivity|]. intros d rest H.
  vm_compute in H. discriminate.
Qed.
