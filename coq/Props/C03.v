(* C03 - group law, public-key derivation and key generation.
   Generic theorems are stated for ANY curve parameters satisfying [curve_facts] (an explicit premise,
   not an axiom); for secp256k1 that premise is the classical fact that chord-and-tangent addition on
   the curve is a group of prime order n.  On the small curves the premise is PROVED by computation
   (Proofs/SmallCurves*.v), so the corollaries at the end are unconditional. *)
From Coq Require Import ZArith List Bool Lia.
Require Import Bits.Lib.Result Bits.Lib.Bytes Bits.Lib.Group Bits.Model.Ecmath Bits.Model.Keys
  Bits.Proofs.Ecmath Bits.Proofs.Ecdsa Bits.Proofs.Keys Bits.Proofs.SmallCurves.
Require Bits.Spec.Secp256k1.
Import ListNotations.
Local Open Scope Z_scope.
Local Open Scope result_scope.

(* every addition of curve points (identity included) succeeds and yields a curve point or the identity *)
Theorem C03_point_add_closed : forall p a b n G, curve_facts p a b n G ->
  forall P Q, oncurve p a b P -> oncurve p a b Q ->
  exists R, point_add p a P Q = Ok R /\ oncurve p a b R /\ R = padd p a P Q.
Proof.
  intros p a b n G CF P Q HP HQ. exists (padd p a P Q).
  split; [apply (point_add_ok p a b); auto; apply CF|]. split; [|reflexivity].
  apply (cf_group _ _ _ _ _ CF); auto.
Qed.
Print Assumptions C03_point_add_closed.

(* double-and-add computes k-fold addition for EVERY scalar k >= 0 (0 gives the identity) *)
Theorem C03_scalar_mul_spec : forall p a b n G, curve_facts p a b n G ->
  forall k P, oncurve p a b P -> 0 <= k ->
  point_scalar_mul p a k P = Ok (nmul point (padd p a) None (Z.to_nat k) P).
Proof. intros p a b n G CF k P HP Hk. apply (scalar_mul_ok p a b); auto; apply CF. Qed.
Print Assumptions C03_scalar_mul_spec.

(* (j + k) P = j P + k P, through the checked functions *)
Theorem C03_distrib : forall p a b n G, curve_facts p a b n G ->
  forall j k P, oncurve p a b P -> 0 <= j -> 0 <= k ->
  point_scalar_mul p a (j + k) P =
  (A <- point_scalar_mul p a j P ;; B <- point_scalar_mul p a k P ;; point_add p a A B).
Proof.
  intros p a b n G CF j k P HP Hj Hk.
  pose proof (cf_p _ _ _ _ _ CF) as Hp. pose proof (cf_a _ _ _ _ _ CF) as Ha. pose proof (cf_group _ _ _ _ _ CF) as CG.
  rewrite !(scalar_mul_smul p a b Hp Ha CG) by (auto; lia). cbn [bind].
  rewrite (point_add_ok p a b Hp Ha) by (apply (smul_oncurve p a b CG); auto).
  now rewrite (smul_add p a b CG).
Qed.
Print Assumptions C03_distrib.

(* j (k P) = (j k) P *)
Theorem C03_scalar_assoc : forall p a b n G, curve_facts p a b n G ->
  forall j k P, oncurve p a b P -> 0 <= j -> 0 <= k ->
  (Q <- point_scalar_mul p a k P ;; point_scalar_mul p a j Q) = point_scalar_mul p a (j * k) P.
Proof.
  intros p a b n G CF j k P HP Hj Hk.
  pose proof (cf_p _ _ _ _ _ CF) as Hp. pose proof (cf_a _ _ _ _ _ CF) as Ha. pose proof (cf_group _ _ _ _ _ CF) as CG.
  rewrite (scalar_mul_smul p a b Hp Ha CG k) by auto. cbn [bind].
  rewrite !(scalar_mul_smul p a b Hp Ha CG) by (auto; try nia; apply (smul_oncurve p a b CG); auto).
  now rewrite (smul_mul p a b CG).
Qed.
Print Assumptions C03_scalar_assoc.

(* scalars act modulo the group order: n G = identity and k G = (k mod n) G, incl. k = n, n+1, k > n *)
Theorem C03_scalar_mod_n : forall p a b n G, curve_facts p a b n G ->
  forall k, 0 <= k -> point_scalar_mul p a k G = point_scalar_mul p a (k mod n) G
                      /\ point_scalar_mul p a n G = Ok None.
Proof.
  intros p a b n G CF k Hk.
  pose proof (cf_p _ _ _ _ _ CF) as Hp. pose proof (cf_a _ _ _ _ _ CF) as Ha. pose proof (cf_group _ _ _ _ _ CF) as CG.
  pose proof (cf_n _ _ _ _ _ CF) as Hn. pose proof (cf_G _ _ _ _ _ CF) as HG.
  assert (0 <= k mod n) by (apply Z.mod_pos_bound; lia).
  rewrite !(scalar_mul_smul p a b Hp Ha CG) by (auto; lia).
  rewrite (smul_mod p a b n G CF) by auto. split; [reflexivity|]. f_equal. apply CF.
Qed.
Print Assumptions C03_scalar_mod_n.

(* private keys: exactly the 32-byte strings encoding an integer in [1, n-1]; everything else is refused *)
Theorem C03_privkey_refuses : forall n k v,
  privkey_int n k = Ok v <-> length k = 32%nat /\ 1 <= of_be k < n /\ v = of_be k.
Proof. exact privkey_int_iff. Qed.
Print Assumptions C03_privkey_refuses.

Theorem C03_privkey_error_kind : forall n k e, privkey_int n k = Err e -> e = AssertionE.
Proof. exact privkey_int_err. Qed.

(* the public key of k is k G *)
Theorem C03_pub_is_kG : forall p a n G k v, privkey_int n k = Ok v ->
  compute_point p a n G k = point_scalar_mul p a v G.
Proof. exact compute_point_is_kG. Qed.
Print Assumptions C03_pub_is_kG.

(* key generation: whatever randbelow(n-1) returns (0 .. n-2), the key is valid *)
Theorem C03_keygen_in_range : forall n d, 1 < n <= 2 ^ 256 -> 0 <= d < n - 1 ->
  exists kb, key_of_draw d = Ok kb /\ privkey_int n kb = Ok (d + 1).
Proof. exact keygen_in_range. Qed.
Print Assumptions C03_keygen_in_range.

(* ---- the premise is satisfiable, and on these curves everything above is unconditional ---- *)
Theorem C03_small_curves_are_groups : curve_facts 43 0 7 31 G43.
Proof. exact facts_43. Qed.
(* the same for (p, n) = (79, 67) and (67, 79): Props/SmallCurvesAll.v (minutes of kernel computation) *)
Print Assumptions C03_small_curves_are_groups.

Example C03_ex_43_order : point_scalar_mul 43 0 31 G43 = Ok None
  /\ point_scalar_mul 43 0 32 G43 = Ok G43 /\ point_scalar_mul 43 0 0 G43 = Ok None.
Proof. vm_compute. auto. Qed.

(* secp256k1: n fits the key-generation premise; G is on the curve (by computation) *)
Example C03_secp256k1_params :
  1 < Bits.Spec.Secp256k1.n <= 2 ^ 256 /\
  oncurveb Bits.Spec.Secp256k1.p 0 7 Bits.Spec.Secp256k1.G = true.
Proof. split; [vm_compute; split; [reflexivity|discriminate]|vm_compute; reflexivity]. Qed.
