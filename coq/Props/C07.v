(* C07 - Base58 / Base58Check are exact inverses; only checksum-valid strings accepted.
   This file contains only the property theorems (closed by [exact]) and their assumptions. *)
From Coq Require Import ZArith List.
Require Import Bits.Lib.Result Bits.Lib.Bytes Bits.Spec.Base58 Bits.Model.Base58 Bits.Proofs.Base58.
Import ListNotations.

(* decode . encode = id on every byte string (empty, leading zeros included) *)
Theorem C07_decode_encode : forall data : bytes, base58decode (base58encode data) = Ok data.
Proof. exact b58_decode_encode. Qed.
Print Assumptions C07_decode_encode.

(* re-encoding any accepted string returns that string *)
Theorem C07_encode_decode : forall s b, base58decode s = Ok b -> base58encode b = s.
Proof. exact b58_encode_decode. Qed.
Print Assumptions C07_encode_decode.

(* base58decode accepts exactly the strings over the alphabet; every rejection is a KeyError *)
Theorem C07_decode_accepts_alphabet :
  forall s, (exists b, base58decode s = Ok b) <-> Forall (fun c => In c alphabet) s.
Proof. exact b58_decode_ok_iff. Qed.
Print Assumptions C07_decode_accepts_alphabet.

Theorem C07_decode_rejects : forall s e, base58decode s = Err e ->
  e = KeyE /\ exists c, In c s /\ ~ In c alphabet.
Proof. exact b58_decode_err. Qed.
Print Assumptions C07_decode_rejects.

(* Base58Check: round trip and exact acceptance, for EVERY 32-byte-output hash function *)
Theorem C07_check_roundtrip :
  forall sha256 : bytes -> bytes, (forall m, length (sha256 m) = 32%nat) ->
  forall p, base58check_decode sha256 (base58check sha256 p) = Ok p.
Proof. exact b58check_roundtrip. Qed.
Print Assumptions C07_check_roundtrip.

Theorem C07_check_accept_iff :
  forall sha256 : bytes -> bytes, (forall m, length (sha256 m) = 32%nat) ->
  forall s p,
    base58check_decode sha256 s = Ok p <->
    exists d, base58decode s = Ok d /\ (4 <= length d)%nat /\ p = droplast 4 d
              /\ lastn 4 d = firstn 4 (hash256 sha256 p).
Proof. exact b58check_accept_iff. Qed.
Print Assumptions C07_check_accept_iff.

Theorem C07_check_rejects_with_error :
  forall (sha256 : bytes -> bytes) s e, base58check_decode sha256 s = Err e -> e = KeyE \/ e = ValueE.
Proof. exact b58check_reject_kinds. Qed.
Print Assumptions C07_check_rejects_with_error.

(* the classifier is total and says true exactly on accepted strings *)
Theorem C07_classifier :
  forall (sha256 : bytes -> bytes) s, is_base58check sha256 s = true <-> exists p, base58check_decode sha256 s = Ok p.
Proof. exact is_base58check_iff. Qed.
Print Assumptions C07_classifier.

(* non-vacuity: concrete instances *)
Import Coq.Init.Byte.
Example C07_ex_hello : base58encode [x68;x65;x6c;x6c;x6f;x20;x77;x6f;x72;x6c;x64]
  = [x53;x74;x56;x31;x44;x4c;x36;x43;x77;x54;x72;x79;x4b;x79;x56].   (* b"StV1DL6CwTryKyV" *)
Proof. vm_compute. reflexivity. Qed.
Example C07_ex_zeros : base58decode (base58encode [x00;x00;x00]) = Ok [x00;x00;x00]
  /\ base58encode [] = [] /\ base58decode [] = Ok [].
Proof. vm_compute. auto. Qed.
Example C07_ex_reject : base58decode [x30] = Err KeyE.   (* b"0" is not in the alphabet *)
Proof. vm_compute. reflexivity. Qed.
