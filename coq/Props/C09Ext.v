(* C09 (extension) - the rest of src/bits/wallet/hd.py inside the model: derive_child and the class HD (__init__,
   from_mnemonic, from_xkey, get_root_keys, get_xkeys_from_path).  Model: Model/Hd.v (on top of Model/Bip32.v and
   Model/Bip39.v); proofs: Proofs/Hd.v.  Only restatements here.

   WHAT THE CODE DOES TODAY (documented by the theorems; none of the listed properties names these functions):
   * derive_child raises for every argument (str: TypeError inside base58decode, str.lstrip(b"1"); bytes: TypeError at
     xkey.startswith("xprv"); a str without the xprv/xpub prefix: ValueError)            C09_ext_derive_child_always_refuses
   * its body - with base58check_decode given the ASCII bytes of xkey - is exactly one iteration of derive_from_path's
     loop (derive_step) on every mainnet key that deserialises and carries the matching text prefix
                                                                                          C09_ext_derive_child_body_is_step
     (outside that domain it is laxer than derive_from_path: no 78-byte / depth-0 / key-range checks; testnet refused)
   * HD.get_xkeys_from_path raises AttributeError for every path (hands the tuple (k, c) to derive_from_path)
   * HD.from_xkey raises NotImplementedError
   * HD.from_mnemonic stores the phrase in the class attribute: later HD(...) objects are the same wallet again
                                                                                          C09_ext_from_mnemonic_sticks *)
From Coq Require Import ZArith List Bool.
Require Import Bits.Lib.Result Bits.Lib.Bytes Bits.Model.Ecmath Bits.Proofs.Ecmath Bits.Proofs.Ecdsa Bits.Proofs.Sec1
  Bits.Model.Bip32 Bits.Model.Bip39 Bits.Proofs.Bip32Ser Bits.Proofs.Bip32Text Bits.Proofs.Bip32Path Bits.Model.Hd Bits.Proofs.Hd.
Require Bits.Spec.Bip32 Bits.Spec.Secp256k1.
Import ListNotations.
Import Coq.Init.Byte.
Local Open Scope Z_scope.

(* derive_child(xkey, index) as it is: no argument is accepted *)
Theorem C09_ext_derive_child_always_refuses : forall (is_str : bool) (xkey : bytes) (i : Z),
  derive_child is_str xkey i = Err (if is_str && bad_text_prefix xkey then ValueE else TypeE).
Proof. exact derive_child_always_refuses. Qed.
Print Assumptions C09_ext_derive_child_always_refuses.

(* the body of derive_child = one step of derive_from_path (private and public parents, hardened and normal indices,
   every refusal of the step included: index outside [0, 2^32), hardened index on a public parent, depth 255,
   I_L >= n, k_i = 0, K_i = infinity) *)
Theorem C09_ext_derive_child_body_is_step :
  forall p a b n G, sqrt_facts p -> inF p a = true -> inF p b = true -> p <= 2 ^ 256 ->
  forall (hmac : bytes -> bytes -> bytes) (sha256 ripemd160 : bytes -> bytes),
  forall xkey i v d fp ch cc key,
    deserialized_extended_key p a b n sha256 xkey = Ok (v, d, fp, ch, cc, key) ->
    is_testnet_version v = false ->
    starts_with txt_xprv xkey = is_private_version v ->
    starts_with txt_xpub xkey = is_public_version v ->
    forall y, derive_child_body p a b n G hmac sha256 ripemd160 xkey i = Ok y
              <-> derive_step p a b n G hmac sha256 ripemd160 (is_public_version v) false xkey i = Ok y.
Proof. exact derive_child_body_is_step. Qed.
Print Assumptions C09_ext_derive_child_body_is_step.

(* the same as a statement about the public function: derive_child(xkey, i) [body] = derive_from_path("m/<i>", xkey) for
   a private parent, derive_from_path("M/<i>", xkey) for a public parent (i written in decimal, with ' from 2^31 on) *)
Theorem C09_ext_derive_child_body_is_path :
  forall p a b n G, sqrt_facts p -> inF p a = true -> inF p b = true -> p <= 2 ^ 256 ->
  forall (hmac : bytes -> bytes -> bytes) (sha256 ripemd160 : bytes -> bytes),
  forall xkey i v d fp ch cc key,
    deserialized_extended_key p a b n sha256 xkey = Ok (v, d, fp, ch, cc, key) ->
    is_testnet_version v = false ->
    starts_with txt_xprv xkey = is_private_version v ->
    starts_with txt_xpub xkey = is_public_version v ->
    0 <= i < 2 ^ 32 ->
    forall y, derive_child_body p a b n G hmac sha256 ripemd160 xkey i = Ok y
              <-> derive_from_path p a b n G hmac sha256 ripemd160
                    (Bits.Proofs.Bip32Text.join (Bits.Proofs.Bip32Text.pfx (is_public_version v)) [Bits.Proofs.Bip32Text.render i])
                    xkey = Ok y.
Proof. exact derive_child_body_is_path. Qed.
Print Assumptions C09_ext_derive_child_body_is_path.

(* get_root_keys: the BIP's serialisation of the master key and of its neutered key; get_xpub maps one to the other *)
Theorem C09_ext_get_root_keys :
  forall p a b n G, curve_facts p a b n G -> sqrt_facts p -> p <= 2 ^ 256 -> n <= 2 ^ 256 ->
  forall sha256 : bytes -> bytes, (forall m, length (sha256 m) = 32%nat) ->
  forall k c, 1 <= k < n -> length c = 32%nat ->
    get_root_keys p a G sha256 k c
      = Ok (enc sha256 (root_of k c), enc sha256 (S.neuter_xkey (fun k => smul p a k G) (root_of k c))) /\
    get_xpub p a b n G sha256 (enc sha256 (root_of k c))
      = Ok (enc sha256 (S.neuter_xkey (fun k => smul p a k G) (root_of k c))).
Proof.
  intros p a b n G CF SQ Hp Hn sha L.
  exact (get_root_keys_spec p a b n G CF SQ Hp Hn (fun _ _ => repeat x00 64) (fun _ _ => repeat_length x00 64)
           sha sha L (fun _ _ _ _ => []) (fun x => x)).
Qed.
Print Assumptions C09_ext_get_root_keys.

(* HD(...) / HD.from_mnemonic(m, p): seed = to_seed(m, p); root keys = serialised to_master_key(seed) and its neutered
   key; get_xpub(root_xprv) = root_xpub; strength = 8 * number of characters *)
Theorem C09_ext_hd_init :
  forall p a b n G, curve_facts p a b n G -> sqrt_facts p -> p <= 2 ^ 256 -> n <= 2 ^ 256 ->
  Bits.Spec.Secp256k1.n <= n ->
  forall hmac : bytes -> bytes -> bytes, (forall k m, length (hmac k m) = 64%nat) ->
  forall sha256 : bytes -> bytes, (forall m, length (sha256 m) = 32%nat) ->
  forall (pbkdf2 : bytes -> bytes -> Z -> Z -> bytes) (nfkd : bytes -> bytes),
  forall cls pass fresh xprv xpub st seed mn,
    hd_init p a G hmac sha256 pbkdf2 nfkd cls pass fresh = Ok (xprv, xpub, st, seed, mn) ->
    mn = (match cls with [] => fresh | _ :: _ => cls end) /\
    seed = to_seed pbkdf2 nfkd mn pass /\ st = 8 * str_len mn /\
    exists k c, to_master_key hmac seed = Ok (k, c) /\
      xprv = enc sha256 (root_of k c) /\
      xpub = enc sha256 (S.neuter_xkey (fun k => smul p a k G) (root_of k c)) /\
      get_xpub p a b n G sha256 xprv = Ok xpub.
Proof.
  intros p a b n G CF SQ Hp Hn HN hmac HL sha L pbkdf2 nfkd.
  exact (hd_init_spec p a b n G CF SQ Hp Hn HN hmac HL sha sha L pbkdf2 nfkd).
Qed.
Print Assumptions C09_ext_hd_init.

(* the class attribute survives: from_mnemonic(m1, p1) then HD(passphrase = p2) is from_mnemonic(m1, p2) *)
Theorem C09_ext_from_mnemonic_sticks :
  forall p a (G : point) (hmac : bytes -> bytes -> bytes) (sha256 : bytes -> bytes)
         (pbkdf2 : bytes -> bytes -> Z -> Z -> bytes) (nfkd : bytes -> bytes) m1 p1 f1 p2 f2 r,
    m1 <> [] ->
    from_mnemonic_then_new p a G hmac sha256 pbkdf2 nfkd m1 p1 f1 p2 f2 = Ok r ->
    hd_init p a G hmac sha256 pbkdf2 nfkd m1 p2 f2 = Ok r /\
    fst (from_mnemonic p a G hmac sha256 pbkdf2 nfkd m1 p2 f1) = Ok r.
Proof. exact from_mnemonic_sticks. Qed.
Print Assumptions C09_ext_from_mnemonic_sticks.

Theorem C09_ext_get_xkeys_from_path_always_refuses : forall k c path, get_xkeys_from_path k c path = Err AttributeE.
Proof. exact get_xkeys_from_path_always_refuses. Qed.
Print Assumptions C09_ext_get_xkeys_from_path_always_refuses.

Theorem C09_ext_from_xkey_refuses : forall x, from_xkey x = Err OtherE.
Proof. exact from_xkey_refuses. Qed.
Print Assumptions C09_ext_from_xkey_refuses.

(* the hypotheses of C09_ext_hd_init / get_root_keys are satisfiable: the proved small curve (43, 31) *)
Example C09_ext_ex_strlen : str_len [x61; xc3; xa9; x62] = 3 /\ bad_text_prefix txt_xprv = false
  /\ derive_child true (txt_xprv ++ [x39]) 0 = Err TypeE /\ derive_child true [x74; x70; x72; x76] 0 = Err ValueE
  /\ derive_child false txt_xpub 0 = Err TypeE.
Proof. vm_compute. repeat split; reflexivity. Qed.
