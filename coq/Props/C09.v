(* C09 - BIP32: public/private derivation commute, paths compose, extended keys serialise and invalid payloads are
   rejected.

   Model: Model/Bip32.v (bips/bip32.py, wallet/hd.py get_xpub / derive_from_path, the utils helpers they call).
   Spec:  Spec/Bip32.v, transcribed from the BIP text (CKDpriv, CKDpub, N, master key, fingerprint, the 78-byte
          serialisation format, the validity rules of test vector 5).
   Every theorem is generic in the curve (p a b n G).  [curve_facts] (chord-and-tangent addition is a commutative
   group, G has prime order n) and [sqrt_facts] (p = 3 mod 4, candidate square roots) are EXPLICIT PREMISES, proved
   outright for the small curves (Proofs/SmallCurves*.v, Proofs/Sec1Small.v) -- see the corollaries at the end --
   and classical facts for secp256k1.  HMAC-SHA512, SHA256, RIPEMD160 are arbitrary functions of the right
   output length.  This file contains only statements closed by [exact] and their assumptions. *)
From Coq Require Import ZArith List Bool Lia.
Require Import Bits.Lib.Result Bits.Lib.Bytes Bits.Model.Ecmath Bits.Proofs.Ecmath Bits.Proofs.Ecdsa
  Bits.Model.Base58 Bits.Model.Sec1 Bits.Proofs.Sec1 Bits.Proofs.Sec1Small Bits.Proofs.SmallCurves
  Bits.Model.Bip32 Bits.Proofs.Bip32 Bits.Proofs.Bip32Ser Bits.Proofs.Bip32Text Bits.Proofs.Bip32Path.
Require Bits.Spec.Bip32 Bits.Spec.Secp256k1.
Import ListNotations.
Import Coq.Init.Byte.
Local Open Scope Z_scope.

Module S := Bits.Spec.Bip32.

(* ------------------------------------------------------------------------------------------------------------
   ckd_commute: for every valid parent key k (1 <= k < n), chain code c and NON-hardened index i:
   when CKDpriv succeeds, CKDpub applied to the neutered parent N(k, c) returns exactly N(CKDpriv(k, c, i)), a
   finite point;  when CKDpriv fails (I_L >= n: ValueError from add_mod_p; k_i = 0: AssertionError), CKDpub fails
   as well (AssertionError) or -- in the k_i = 0 case -- returns the point at infinity as None, because the code
   has no check for K_i = infinity (the BIP declares that child invalid; derive_from_path then fails in
   serialized_extended_key).  Algebra: (I_L + k mod n) G = I_L G + k G.
   ------------------------------------------------------------------------------------------------------------ *)
Theorem C09_ckd_commute :
  forall p a b n G, curve_facts p a b n G -> p <= 2 ^ 256 ->
  forall (hmac : bytes -> bytes -> bytes) k c i, 1 <= k < n -> 0 <= i < 2 ^ 31 ->
    let pub_side := bind (N_ p a G k c) (fun Kc => CKDpub p a n G hmac (fst Kc) (snd Kc) i) in
    match CKDpriv p a n G hmac k c i with
    | Ok (k', c') =>
        1 <= k' < n /\ pub_side = N_ p a G k' c' /\ exists x y, N_ p a G k' c' = Ok (Some (x, y), c')
    | Err e =>
        (e = ValueE /\ pub_side = Err AssertionE) \/
        (e = AssertionE /\ exists c', pub_side = Ok (None, c'))
    end.
Proof. exact ckd_commute. Qed.
Print Assumptions C09_ckd_commute.

(* conversely: whenever the public side yields a finite point, the private side succeeds with the same child *)
Theorem C09_ckd_commute_conv :
  forall p a b n G, curve_facts p a b n G -> p <= 2 ^ 256 ->
  forall (hmac : bytes -> bytes -> bytes) k c i P c', 1 <= k < n -> 0 <= i < 2 ^ 31 -> P <> None ->
    bind (N_ p a G k c) (fun Kc => CKDpub p a n G hmac (fst Kc) (snd Kc) i) = Ok (P, c') ->
    exists k', CKDpriv p a n G hmac k c i = Ok (k', c') /\ N_ p a G k' c' = Ok (P, c').
Proof. exact ckd_commute_conv. Qed.
Print Assumptions C09_ckd_commute_conv.

(* ckd_pub_hardened: no hardened child from a public key -- for EVERY key, chain code, curve: ValueError *)
Theorem C09_ckd_pub_hardened :
  forall p a n G (hmac : bytes -> bytes -> bytes) K c i, 2 ^ 31 <= i -> CKDpub p a n G hmac K c i = Err ValueE.
Proof. exact ckd_pub_hardened. Qed.
Print Assumptions C09_ckd_pub_hardened.

(* CKDpriv / CKDpub are the BIP's functions on every index 0 <= i < 2^32 (hardened and not) *)
Theorem C09_ckdpriv_is_spec :
  forall p a b n G, curve_facts p a b n G -> p <= 2 ^ 256 -> n <= 2 ^ 256 ->
  forall (hmac : bytes -> bytes -> bytes) k c i, 1 <= k < n -> 0 <= i < 2 ^ 32 ->
    match S.ckd_priv n (fun k => smul p a k G) hmac k c i with
    | Some (ki, ci) => CKDpriv p a n G hmac k c i = Ok (ki, ci) /\ 1 <= ki < n
    | None => exists e, CKDpriv p a n G hmac k c i = Err e /\ (e = ValueE \/ e = AssertionE)
    end.
Proof. exact CKDpriv_spec. Qed.
Print Assumptions C09_ckdpriv_is_spec.

Theorem C09_ckdpub_is_spec :
  forall p a b n G, curve_facts p a b n G -> p <= 2 ^ 256 ->
  forall (hmac : bytes -> bytes -> bytes) K c i, oncurve p a b K -> K <> None -> 0 <= i < 2 ^ 32 ->
    match S.ckd_pub n (fun k => smul p a k G) (padd p a) hmac K c i with
    | Some (Ki, ci) => CKDpub p a n G hmac K c i = Ok (Ki, ci) /\ oncurve p a b Ki /\ Ki <> None
    | None => (exists e, CKDpub p a n G hmac K c i = Err e /\ (e = ValueE \/ e = AssertionE))
              \/ (exists ci, CKDpub p a n G hmac K c i = Ok (None, ci))
    end.
Proof. exact CKDpub_spec. Qed.
Print Assumptions C09_ckdpub_is_spec.

(* master key generation is the BIP's (the code's literal n is secp256k1's: GenProps/Bip32Gen.v) *)
Theorem C09_master_is_spec :
  forall (hmac : bytes -> bytes -> bytes) seed,
    to_master_key hmac seed =
    match S.master Bits.Spec.Secp256k1.n hmac seed with Some kc => Ok kc | None => Err AssertionE end.
Proof. exact master_spec. Qed.
Print Assumptions C09_master_is_spec.

(* ------------------------------------------------------------------------------------------------------------
   xkey_accept_iff: deserialized_extended_key accepts a string iff it is checksum-valid Base58Check whose payload
   is a valid serialised extended key in the sense of the BIP -- [S.decodes d X] = "d = serialize X /\ wf X":
   78 bytes in the layout 4|1|4|4|32|33, known version, key type matching the version (0x00 || ser256(k) with
   1 <= k < n for xprv/tprv, compressed on-curve point for xpub/tpub), zero fingerprint and child number at depth 0
   -- and then returns exactly that key's fields.
   ------------------------------------------------------------------------------------------------------------ *)
Theorem C09_xkey_accept_iff :
  forall p a b n, sqrt_facts p -> inF p a = true -> inF p b = true -> p <= 2 ^ 256 -> n <= 2 ^ 256 ->
  forall sha256 : bytes -> bytes, (forall m, length (sha256 m) = 32%nat) ->
  forall s f,
    deserialized_extended_key p a b n sha256 s = Ok f <->
    exists d X, base58check_decode sha256 s = Ok d /\ S.decodes p a b n d X /\ f = fields_of X.
Proof. exact xkey_accept_iff. Qed.
Print Assumptions C09_xkey_accept_iff.

(* rejections raise KeyError (alphabet), ValueError or AssertionError (on curves without 2-torsion) *)
Theorem C09_xkey_reject_kinds :
  forall p a b n, sqrt_facts p -> inF p a = true -> inF p b = true ->
  forall (sha256 : bytes -> bytes) s e,
    (forall x, 0 <= x < p -> fpow p (rhs p a b x) ((p + 1) / 4) <> 0) ->
    deserialized_extended_key p a b n sha256 s = Err e -> e = KeyE \/ e = ValueE \/ e = AssertionE.
Proof. exact xkey_reject_kinds. Qed.
Print Assumptions C09_xkey_reject_kinds.

(* xkey_roundtrip: for every VALID field tuple (depth / child number given as bytes or as ints) the serialisation is
   Base58Check of the BIP's 78-byte format and deserialising it returns the same fields *)
Theorem C09_xkey_roundtrip :
  forall p a b n, sqrt_facts p -> inF p a = true -> inF p b = true -> p <= 2 ^ 256 -> n <= 2 ^ 256 ->
  forall sha256 : bytes -> bytes, (forall m, length (sha256 m) = 32%nat) ->
  forall X, S.wf p a b n X -> forall dep chn,
    dep = AsBytes [z2b (S.xk_depth X)] \/ dep = AsInt (S.xk_depth X) ->
    chn = AsBytes (S.ser32 (S.xk_child X)) \/ chn = AsInt (S.xk_child X) ->
    bind (serialized_extended_key sha256 (key_of (S.xk_key X)) (S.xk_cc X) dep (S.xk_fp X) chn (S.xk_testnet X))
         (deserialized_extended_key p a b n sha256) = Ok (fields_of X).
Proof. exact xkey_roundtrip. Qed.
Print Assumptions C09_xkey_roundtrip.

Theorem C09_serialization_format :
  forall p a b n, sqrt_facts p -> inF p a = true -> inF p b = true -> p <= 2 ^ 256 -> n <= 2 ^ 256 ->
  forall sha256 : bytes -> bytes, (forall m, length (sha256 m) = 32%nat) ->
  forall X, S.wf p a b n X -> forall dep chn,
    dep = AsBytes [z2b (S.xk_depth X)] \/ dep = AsInt (S.xk_depth X) ->
    chn = AsBytes (S.ser32 (S.xk_child X)) \/ chn = AsInt (S.xk_child X) ->
    serialized_extended_key sha256 (key_of (S.xk_key X)) (S.xk_cc X) dep (S.xk_fp X) chn (S.xk_testnet X)
      = Ok (base58check sha256 (S.serialize X)).
Proof. exact ser_enc. Qed.
Print Assumptions C09_serialization_format.

(* ------------------------------------------------------------------------------------------------------------
   derive_matches_spec: from ANY valid extended key X (private or public, mainnet or testnet, any depth) and the
   canonical text "m/i1/i2'/..." ("M/..." for public keys) of ANY index list, derive_from_path returns the
   serialisation of the BIP's derived extended key -- version, depth, parent fingerprint, child number, chain
   code and key all equal to Spec -- and fails exactly when the BIP yields no key (invalid child, hardened from a
   public key) or the depth byte overflows.
   ------------------------------------------------------------------------------------------------------------ *)
Theorem C09_derive_matches_spec :
  forall p a b n G, curve_facts p a b n G -> sqrt_facts p -> p <= 2 ^ 256 -> n <= 2 ^ 256 ->
  forall hmac : bytes -> bytes -> bytes, (forall k m, length (hmac k m) = 64%nat) ->
  forall sha256 ripemd160 : bytes -> bytes,
    (forall m, length (sha256 m) = 32%nat) -> (forall m, length (ripemd160 m) = 20%nat) ->
  forall X l, S.wf p a b n X -> Forall (fun i => 0 <= i < 2 ^ 32) l ->
    let path := join (pfx (S.is_pub (S.xk_key X))) (map render l) in
    let xkey := base58check sha256 (S.serialize X) in
    match S.derive n (fun k => smul p a k G) (padd p a) hmac sha256 ripemd160 X l with
    | Some X' =>
        if S.xk_depth X' <=? 255
        then derive_from_path p a b n G hmac sha256 ripemd160 path xkey = Ok (base58check sha256 (S.serialize X'))
             /\ S.wf p a b n X'
        else exists e, derive_from_path p a b n G hmac sha256 ripemd160 path xkey = Err e
    | None => exists e, derive_from_path p a b n G hmac sha256 ripemd160 path xkey = Err e
    end.
Proof. exact derive_matches_spec. Qed.
Print Assumptions C09_derive_matches_spec.

(* the text -> index list reading used above: the canonical text of an index parses back to it *)
Theorem C09_path_text :
  forall i, 0 <= i < 2 ^ 32 -> parse_component (render i) = Ok i.
Proof. exact parse_component_render. Qed.
Print Assumptions C09_path_text.

(* ------------------------------------------------------------------------------------------------------------
   path_compose: derive (p ++ q) x = derive p x >>= derive q, for arbitrary component texts (also malformed ones in
   p), including every failure with its exception class; premise: the components of q are well-formed numbers.
   ------------------------------------------------------------------------------------------------------------ *)
Theorem C09_path_compose :
  forall p a b n G, curve_facts p a b n G -> sqrt_facts p -> p <= 2 ^ 256 -> n <= 2 ^ 256 ->
  forall hmac : bytes -> bytes -> bytes, (forall k m, length (hmac k m) = 64%nat) ->
  forall sha256 ripemd160 : bytes -> bytes,
    (forall m, length (sha256 m) = 32%nat) -> (forall m, length (ripemd160 m) = 20%nat) ->
  forall (pub : bool) (l1 l2 : list bytes) (x : bytes),
    Forall no_slash (l1 ++ l2) -> (exists i2, ptree l2 = Ok i2) ->
    derive_from_path p a b n G hmac sha256 ripemd160 (join (pfx pub) (l1 ++ l2)) x =
    bind (derive_from_path p a b n G hmac sha256 ripemd160 (join (pfx pub) l1) x)
         (fun y => derive_from_path p a b n G hmac sha256 ripemd160 (join (pfx pub) l2) y).
Proof. exact path_compose. Qed.
Print Assumptions C09_path_compose.

(* m/... from an xpub and M/... from an xprv are refused *)
Theorem C09_path_kind_mismatch :
  forall p a b n G, curve_facts p a b n G -> sqrt_facts p -> p <= 2 ^ 256 -> n <= 2 ^ 256 ->
  forall (hmac : bytes -> bytes -> bytes) (sha256 ripemd160 : bytes -> bytes), (forall m, length (sha256 m) = 32%nat) ->
  forall X l, S.wf p a b n X -> Forall no_slash l ->
    derive_from_path p a b n G hmac sha256 ripemd160 (join (pfx (negb (S.is_pub (S.xk_key X)))) l)
      (base58check sha256 (S.serialize X)) = Err ValueE.
Proof. exact path_kind_mismatch. Qed.
Print Assumptions C09_path_kind_mismatch.

(* get_xpub returns the neutered key at the same position in the tree *)
Theorem C09_get_xpub :
  forall p a b n G, curve_facts p a b n G -> sqrt_facts p -> p <= 2 ^ 256 -> n <= 2 ^ 256 ->
  forall sha256 : bytes -> bytes, (forall m, length (sha256 m) = 32%nat) ->
  forall X, S.wf p a b n X ->
    get_xpub p a b n G sha256 (base58check sha256 (S.serialize X))
      = Ok (base58check sha256 (S.serialize (S.neuter_xkey (fun k => smul p a k G) X)))
    /\ S.wf p a b n (S.neuter_xkey (fun k => smul p a k G) X).
Proof. exact get_xpub_spec. Qed.
Print Assumptions C09_get_xpub.

(* the `bits hd <path> [--xpub] [--dump] [-P]` subcommand of the CLI: stdout is the derived (and, with --xpub,
   neutered) key; the --dump fields are exactly those of the key that is emitted; refusals propagate *)
Theorem C09_cli_hd :
  forall p a b n G (hm : bytes -> bytes -> bytes) (sha rip : bytes -> bytes) path x xp du pr out d,
    cli_hd p a b n G hm sha rip path x xp du pr = Ok (out, d) ->
    exists y, bind (derive_from_path p a b n G hm sha rip path x)
                   (fun y0 : bytes => if xp then get_xpub p a b n G sha y0 else Ok y0) = Ok y /\
              out = (if pr then y ++ [x0a] else y) /\
              (if du then exists f, d = Some f /\ deserialized_extended_key p a b n sha y = Ok f else d = None).
Proof. exact cli_hd_spec. Qed.
Print Assumptions C09_cli_hd.

Theorem C09_cli_hd_refuses :
  forall p a b n G (hm : bytes -> bytes -> bytes) (sha rip : bytes -> bytes) path x (xp du pr : bool) e,
    bind (derive_from_path p a b n G hm sha rip path x)
         (fun y0 : bytes => if xp then get_xpub p a b n G sha y0 else Ok y0) = Err e ->
    cli_hd p a b n G hm sha rip path x xp du pr = Err e.
Proof. exact cli_hd_refuses. Qed.
Print Assumptions C09_cli_hd_refuses.

(* ============================================================================================================
   Non-vacuity: the premises hold on the small curve (p, n) = (43, 31) with G43, so the theorems above are
   unconditional there; toy hash functions of the right lengths make every branch reachable.
   ============================================================================================================ *)
Definition toy_hmac (il : Z) : bytes -> bytes -> bytes := fun _ _ => to_be 32 il ++ repeat x07 32.
Definition toy_sha256 : bytes -> bytes := fun m => repeat (z2b (Z.of_nat (length m))) 32.
Definition toy_ripemd160 : bytes -> bytes := fun m => firstn 20 m.
Lemma toy_hmac_len il k m : length (toy_hmac il k m) = 64%nat.
Proof. unfold toy_hmac. rewrite app_length, to_be_length, repeat_length. reflexivity. Qed.
Lemma toy_sha256_len m : length (toy_sha256 m) = 32%nat.
Proof. apply repeat_length. Qed.
Lemma toy_ripemd160_len m : length (toy_ripemd160 (toy_sha256 m)) = 20%nat.
Proof. unfold toy_ripemd160. rewrite firstn_length, toy_sha256_len. reflexivity. Qed.

Example C09_ex_premises_43 :
  curve_facts 43 0 7 31 G43 /\ sqrt_facts 43 /\ inF 43 0 = true /\ inF 43 7 = true /\ 43 <= 2 ^ 256 /\ 31 <= 2 ^ 256.
Proof.
  split; [exact facts_43|]. split; [exact sqrt_facts_43|]. split; [reflexivity|]. split; [reflexivity|].
  split; vm_compute; discriminate.
Qed.
(* (facts_79 / sqrt_facts_79 and facts_67 / sqrt_facts_67 in Proofs/SmallCurves79.v, SmallCurves67.v, Sec1Small.v give the
   same premises on the two larger small curves; they are not imported here to keep coqchk of this file short) *)
Lemma w43 : 43 <= 2 ^ 256. Proof. vm_compute. discriminate. Qed.

(* the commutation theorem, unconditional on the small curve *)
Example C09_ex_commute_43 :
  forall (hmac : bytes -> bytes -> bytes) k c i, 1 <= k < 31 -> 0 <= i < 2 ^ 31 ->
    forall k' c', CKDpriv 43 0 31 G43 hmac k c i = Ok (k', c') ->
    bind (N_ 43 0 G43 k c) (fun Kc => CKDpub 43 0 31 G43 hmac (fst Kc) (snd Kc) i) = N_ 43 0 G43 k' c'.
Proof.
  intros hmac k c i Hk Hi k' c' E.
  pose proof (C09_ckd_commute 43 0 7 31 G43 facts_43 w43 hmac k c i Hk Hi) as C. cbv zeta in C.
  rewrite E in C. now destruct C as (_ & C & _).
Qed.

(* all three outcomes of a non-hardened derivation occur: valid child, I_L >= n, k_i = 0 (K_i = infinity) *)
Example C09_ex_ckd_ok :
  CKDpriv 43 0 31 G43 (toy_hmac 5) 3 [] 1 = Ok (8, repeat x07 32) /\
  bind (N_ 43 0 G43 3 []) (fun Kc => CKDpub 43 0 31 G43 (toy_hmac 5) (fst Kc) (snd Kc) 1) = N_ 43 0 G43 8 (repeat x07 32).
Proof. vm_compute. split; reflexivity. Qed.
Example C09_ex_ckd_IL_ge_n :
  CKDpriv 43 0 31 G43 (toy_hmac 31) 3 [] 1 = Err ValueE /\
  bind (N_ 43 0 G43 3 []) (fun Kc => CKDpub 43 0 31 G43 (toy_hmac 31) (fst Kc) (snd Kc) 1) = Err AssertionE.
Proof. vm_compute. split; reflexivity. Qed.
Example C09_ex_ckd_zero_key :
  CKDpriv 43 0 31 G43 (toy_hmac 28) 3 [] 1 = Err AssertionE /\
  bind (N_ 43 0 G43 3 []) (fun Kc => CKDpub 43 0 31 G43 (toy_hmac 28) (fst Kc) (snd Kc) 1) = Ok (None, repeat x07 32).
Proof. vm_compute. split; reflexivity. Qed.
Example C09_ex_hardened :
  CKDpub 43 0 31 G43 (toy_hmac 5) G43 [] (2 ^ 31) = Err ValueE /\
  exists kc, CKDpriv 43 0 31 G43 (toy_hmac 5) 3 [] (2 ^ 31) = Ok kc.
Proof. split; [reflexivity|]. eexists. vm_compute. reflexivity. Qed.

(* a concrete valid extended private key on the small curve, its serialisation round trip, a derivation along
   m/1/2' and the same derivation step by step, and the M/1 derivation from its neutered key *)
Definition ex_X : S.xkey :=
  {| S.xk_testnet := false; S.xk_depth := 0; S.xk_fp := S.zero4; S.xk_child := 0; S.xk_cc := repeat x01 32;
     S.xk_key := S.Prv 3 |}.
Definition ex_sha (m : bytes) := toy_sha256 m.
Definition ex_xprv : bytes := base58check ex_sha (S.serialize ex_X).
Definition ex_derive := derive_from_path 43 0 7 31 G43 (toy_hmac 5) ex_sha toy_ripemd160.

Example C09_ex_wf : S.wf 43 0 7 31 ex_X.
Proof. unfold S.wf, ex_X; cbn. repeat split; try lia; reflexivity. Qed.

Example C09_ex_roundtrip :
  deserialized_extended_key 43 0 7 31 ex_sha ex_xprv = Ok (fields_of ex_X) /\ length (S.serialize ex_X) = 78%nat.
Proof. vm_compute. split; reflexivity. Qed.

Example C09_ex_derive :
  (* "m/1/2'" *)
  exists y, ex_derive [x6d; x2f; x31; x2f; x32; x27] ex_xprv = Ok y /\
    (* = "m/1" then "m/2'" *)
    bind (ex_derive [x6d; x2f; x31] ex_xprv) (ex_derive [x6d; x2f; x32; x27]) = Ok y /\
    (* the result is a depth-2 key with child number 2^31 + 2 *)
    exists v fp cc k, deserialized_extended_key 43 0 7 31 ex_sha y = Ok (v, [x02], fp, S.ser32 (2 ^ 31 + 2), cc, KPriv k).
Proof. eexists. split; [vm_compute; reflexivity|]. split; [vm_compute; reflexivity|]. do 4 eexists. vm_compute. reflexivity. Qed.

Definition ex_xpub :=
  Eval vm_compute in match get_xpub 43 0 7 31 G43 ex_sha ex_xprv with Ok x => x | _ => [] end.
Example C09_ex_derive_pub :
  get_xpub 43 0 7 31 G43 ex_sha ex_xprv = Ok ex_xpub /\
  (* "M/1" from the xpub equals the neutered "m/1" from the xprv *)
  ex_derive [x4d; x2f; x31] ex_xpub = bind (ex_derive [x6d; x2f; x31] ex_xprv) (get_xpub 43 0 7 31 G43 ex_sha) /\
  is_ok (ex_derive [x4d; x2f; x31] ex_xpub) = true /\
  (* hardened from public: refused;  m/.. from an xpub, M/.. from an xprv: refused *)
  ex_derive [x4d; x2f; x31; x27] ex_xpub = Err ValueE /\
  ex_derive [x6d; x2f; x31] ex_xpub = Err ValueE /\
  ex_derive [x4d; x2f; x31] ex_xprv = Err ValueE.
Proof. vm_compute. repeat split; reflexivity. Qed.

(* rejected payloads: a valid key with one field mutated each *)
Definition ex_mut (f : bytes -> bytes) : result fields :=
  deserialized_extended_key 43 0 7 31 ex_sha (base58check ex_sha (f (S.serialize ex_X))).
Example C09_ex_rejects :
  ex_mut (fun d => x05 :: skipn 1 d) = Err ValueE                                        (* unknown version *)
  /\ ex_mut (fun d => S.vbytes true false ++ skipn 4 d) = Err ValueE                       (* xpub version, private key data *)
  /\ ex_mut (fun d => firstn 5 d ++ [x00; x00; x00; x01] ++ skipn 9 d) = Err ValueE        (* depth 0, fingerprint != 0 *)
  /\ ex_mut (fun d => firstn 9 d ++ [x00; x00; x00; x01] ++ skipn 13 d) = Err ValueE       (* depth 0, index != 0 *)
  /\ ex_mut (fun d => firstn 45 d ++ [x01] ++ skipn 46 d) = Err ValueE                     (* bad key prefix *)
  /\ ex_mut (fun d => firstn 46 d ++ to_be 32 0) = Err AssertionE                          (* k = 0 *)
  /\ ex_mut (fun d => firstn 46 d ++ to_be 32 31) = Err AssertionE                         (* k = n *)
  /\ ex_mut (fun d => firstn 77 d) = Err AssertionE                                        (* 77 bytes *)
  /\ ex_mut (fun d => d ++ [x00]) = Err AssertionE                                         (* 79 bytes *)
  /\ ex_mut (fun d => S.vbytes true false ++ firstn 41 (skipn 4 d) ++ x02 :: to_be 32 1) = Err AssertionE  (* x = 1 off curve *)
  /\ deserialized_extended_key 43 0 7 31 ex_sha (ex_xprv ++ [x31]) = Err ValueE.            (* checksum *)
Proof. vm_compute. repeat split; reflexivity. Qed.
