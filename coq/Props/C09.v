(* C09 placeholder while the proofs are being written *)
Require Import Bits.Model.Bip32.
