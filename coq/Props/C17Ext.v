(* C17 (extension) - two payload builders of bits/p2p.py that the codec theorems of Props/C17.v did not cover:
   getblocks_payload and headers_payload.  Specification: Spec/P2pHeaders.v (developer reference, P2P network,
   "getblocks" / "headers").  Model: Model/P2pCodecExt.v.  Only restatements here; proofs in Proofs/P2pCodecExt.v.

   The module has no parser for either message (parse_payload returns None for both commands).  A getblocks payload has
   the getheaders layout, so its round trip is through the repo's parse_getheaders_payload; the headers round trip is
   through the reference receiver of Spec/P2pHeaders.v.
   FINDING (documentation, the model is the code as it is): headers_payload's [count] is an independent argument - it is
   neither compared with the number of headers nor with the documented maximum of 2000 (the two _refuted theorems). *)
From Coq Require Import ZArith List Lia Bool.
Require Import Bits.Lib.Result Bits.Lib.Bytes Bits.Lib.CompactSize Bits.Spec.P2pHeaders.
Require Import Bits.Model.P2pCodec Bits.Model.P2pCodecExt Bits.Proofs.P2pCodec2 Bits.Proofs.P2pCodecExt.
Import ListNotations.
Import Coq.Init.Byte.
Local Open Scope Z_scope.

(* ================================================================== getblocks *)
Theorem C17_ext_getblocks_is_getheaders : forall hs pv,
  getblocks_payload hs pv = getheaders_payload pv (Z.of_nat (length hs)) hs (repeat x00 32).
Proof. exact getblocks_is_getheaders. Qed.
Print Assumptions C17_ext_getblocks_is_getheaders.

(* the reference layout: version, CompactSize count, the hashes, an all-zero stop hash *)
Theorem C17_ext_getblocks_layout : forall hs pv, 0 <= pv < 2 ^ 32 -> Z.of_nat (length hs) < 2 ^ 64 ->
  getblocks_payload hs pv = Ok (spec_getblocks_payload pv hs stop_hash_all).
Proof. exact getblocks_layout. Qed.
Print Assumptions C17_ext_getblocks_layout.

(* parse (build x) = x: every version, any number of 32-byte hashes (count crossing 252/253, 2^16, 2^32) *)
Theorem C17_ext_getblocks_roundtrip : forall hs pv,
  0 <= pv < 2 ^ 32 -> hashes_ok hs -> Z.of_nat (length hs) < 2 ^ 64 ->
  exists p, getblocks_payload hs pv = Ok p
    /\ p = spec_getblocks_payload pv hs stop_hash_all
    /\ parse_getheaders_payload p
       = Ok (pv, Z.of_nat (length hs), match hs with [] => None | _ => Some hs end, stop_hash_all).
Proof. exact getblocks_roundtrip. Qed.
Print Assumptions C17_ext_getblocks_roundtrip.

Theorem C17_ext_getblocks_refuses_version : forall hs pv, ~ (0 <= pv < 2 ^ 32) -> getblocks_payload hs pv = Err OverflowE.
Proof. exact getblocks_refuses_version. Qed.
Print Assumptions C17_ext_getblocks_refuses_version.

Theorem C17_ext_getblocks_default : forall hs, getblocks_payload_opt hs None = getblocks_payload hs 70015.
Proof. exact getblocks_default. Qed.
Print Assumptions C17_ext_getblocks_default.

(* hypotheses satisfiable; 253 hashes: the count takes three bytes *)
Example C17_ext_getblocks_253 :
  let hs := map (fun i => repeat (z2b (Z.of_nat i)) 32) (seq 0 253) in
  hashes_ok hs /\
  match getblocks_payload_opt hs None with
  | Ok p => parse_getheaders_payload p = Ok (70015, 253, Some hs, repeat x00 32) /\ length p = (4 + 3 + 253 * 32 + 32)%nat
  | Err _ => False
  end.
Proof.
  split.
  - apply Forall_forall. intros h Hh. apply in_map_iff in Hh. destruct Hh as (i & <- & _). apply repeat_length.
  - vm_compute. split; reflexivity.
Qed.

(* ================================================================== headers *)
Theorem C17_ext_headers_layout : forall count hs, 0 <= count < 2 ^ 64 ->
  headers_payload count hs = Ok (cs_enc count ++ concat (map header_entry hs)).
Proof. exact headers_layout. Qed.
Print Assumptions C17_ext_headers_layout.

Theorem C17_ext_headers_refuses_count : forall count hs, ~ (0 <= count < 2 ^ 64) -> headers_payload count hs = Err ValueE.
Proof. exact headers_refuses_count. Qed.
Print Assumptions C17_ext_headers_refuses_count.

(* the reference receiver reads back exactly the headers given: count = their number, at most 2000, 80 bytes each *)
Theorem C17_ext_headers_roundtrip : forall hs, headers_ok hs -> (length hs <= 2000)%nat ->
  exists p, headers_payload (Z.of_nat (length hs)) hs = Ok p
    /\ p = spec_headers_payload hs
    /\ length p = (cs_len (Z.of_nat (length hs)) + 81 * length hs)%nat
    /\ spec_parse_headers p = Some hs.
Proof. exact headers_roundtrip. Qed.
Print Assumptions C17_ext_headers_roundtrip.

Example C17_ext_headers_253 :
  let hs := map (fun i => repeat (z2b (Z.of_nat i)) 80) (seq 0 253) in
  headers_ok hs /\ (length hs <= 2000)%nat /\
  match headers_payload 253 hs with
  | Ok p => spec_parse_headers p = Some hs /\ length p = (3 + 253 * 81)%nat
  | Err _ => False
  end.
Proof.
  split; [|split].
  - apply Forall_forall. intros h Hh. apply in_map_iff in Hh. destruct Hh as (i & <- & _). apply repeat_length.
  - vm_compute. lia.
  - vm_compute. split; reflexivity.
Qed.

Theorem C17_ext_headers_count_unchecked_refuted :
  exists count hs p, headers_ok hs /\ headers_payload count hs = Ok p /\ spec_parse_headers p = None.
Proof. exact headers_count_unchecked_refuted. Qed.
Print Assumptions C17_ext_headers_count_unchecked_refuted.

Theorem C17_ext_headers_limit_unchecked_refuted :
  exists count hs p, max_headers < count /\ headers_payload count hs = Ok p.
Proof. exact headers_limit_unchecked_refuted. Qed.
Print Assumptions C17_ext_headers_limit_unchecked_refuted.
