(* C13 - script assembly/disassembly are inverse with minimal, well-formed pushes; every standard-template
   builder emits the intended script.
   Only the property theorems (closed by [exact]) and their assumptions.  Vocabulary:
     item = Op name | Data bytes, render = the string passed to script() (Spec/Script.v, Model/Script.v)
     valid_item: a name of the REFERENCE table other than OP_PUSHDATA1/2/4 | 1 <= len(data) < 2^32
     spec_asm: the reference serialisation (reference opcode values, minimal pushes)      (Spec/Script.v)
     canon: an opcode name is printed as the alias INT_OP_MAP holds for its byte         (Model/Script.v)
     emits r items := r = Ok (spec_asm items) /\ decode_script (spec_asm items) = Ok (map render (map canon items))
     tpl_*: the standard templates as item lists                                (Spec/ScriptTemplates.v)
   script / decode_script / the builders are the models of bits.script.utils over the opcode tables the code
   defines NOW (Gen/Opcodes.v, tied to the reference by GenProps/Opcodes.v). *)
From Coq Require Import ZArith List.
Require Import Bits.Lib.Result Bits.Lib.Bytes Bits.Lib.PyStr Bits.Lib.CompactSize.
Require Import Bits.Spec.Opcodes Bits.Spec.Script Bits.Spec.ScriptTemplates Bits.Model.Script Bits.Model.Witness.
Require Import Bits.Model.ScriptWitnessParse.
Require Import Bits.Proofs.Script Bits.Proofs.ScriptBuilders Bits.Proofs.ScriptWitness Bits.Proofs.ScriptWitnessParse.
Import ListNotations.
Local Open Scope Z_scope.

(* ---- assembly then disassembly ---- *)
Theorem C13_asm_disasm : forall items, Forall valid_item items ->
  script (map render items) = Ok (spec_asm items)
  /\ decode_script (spec_asm items) = Ok (map render (map canon items)).
Proof. exact asm_disasm. Qed.
Print Assumptions C13_asm_disasm.

(* "up to opcode aliases that share a byte": the printed alias is a reference name of the same byte *)
Theorem C13_alias_shares_byte : forall n, spec_nonpush_name n = true ->
  spec_nonpush_name (rep_of n) = true /\ spec_value (rep_of n) = spec_value n.
Proof. exact canon_same_byte. Qed.
Print Assumptions C13_alias_shares_byte.

(* ---- every data item is pushed with the shortest valid push operation, exact little-endian length ---- *)
Theorem C13_push_minimal : forall d, 1 <= lenZ d < 2 ^ 32 ->
  let len := lenZ d in let f := minimal_form len in
  script [hex_of_bytes d] = Ok (form_prefix f len ++ d)
  /\ form_valid f len = true
  /\ (forall g, form_valid g len = true -> form_overhead f <= form_overhead g)
  /\ of_le (length_field f (form_prefix f len)) = len.
Proof. exact push_minimal. Qed.
Print Assumptions C13_push_minimal.

(* 2^32 bytes or more: "too much data to push!" *)
Theorem C13_push_too_big : forall d rest, 2 ^ 32 <= lenZ d -> script (hex_of_bytes d :: rest) = Err ValueE.
Proof. exact push_too_big. Qed.
Print Assumptions C13_push_too_big.

(* ---- disassembly then assembly, on canonically encoded scripts ([canonical]: Spec/Script.v) ---- *)
Theorem C13_disasm_asm : forall bs, canonical bs = true ->
  exists strs, decode_script bs = Ok strs /\ script strs = Ok bs.
Proof. exact disasm_asm. Qed.
Print Assumptions C13_disasm_asm.

(* the `while` loop of decode_script terminates within its input length *)
Theorem C13_decode_terminates : forall bs, decode_script bs <> Err FuelE.
Proof. exact decode_script_no_fuel. Qed.
Print Assumptions C13_decode_terminates.

(* ---- witness stacks: CompactSize item count and item lengths (shared with C05) ---- *)
Theorem C13_witness_stack_codec : forall items ser, witness_ser items = Ok ser ->
  ser = cs_enc (Z.of_nat (length items)) ++ concat (map (fun d => cs_enc (Z.of_nat (length d)) ++ d) items)
  /\ forall rest, witness_deser (ser ++ rest) = Ok (items, rest).
Proof. exact witness_stack_codec. Qed.
Print Assumptions C13_witness_stack_codec.

Theorem C13_witness_ser_ok_iff : forall items, (exists ser, witness_ser items = Ok ser) <->
  Z.of_nat (length items) < 2 ^ 64 /\ Forall (fun d => Z.of_nat (length d) < 2 ^ 64) items.
Proof. exact Bits.Proofs.Witness.witness_ser_ok_iff. Qed.
Print Assumptions C13_witness_ser_ok_iff.

(* decode_script(witness=True, parse=True): the raw stack split off a byte stream is exactly the CompactSize
   serialisation of the stack, and the rest of the stream is returned untouched - every stack the encoder accepts
   (any item count, item lengths below 2^64), every trailing byte string *)
Theorem C13_witness_parse_raw : forall items ser, witness_ser items = Ok ser ->
  forall rest, witness_parse (ser ++ rest) = Ok (ser, rest).
Proof. exact witness_parse_roundtrip. Qed.
Print Assumptions C13_witness_parse_raw.

(* on EVERY input the parse mode refuses exactly when the decoding mode refuses and leaves the same remaining bytes *)
Theorem C13_witness_parse_agrees_with_decode : forall bs, same_outcome (witness_parse bs) (witness_deser bs).
Proof. exact witness_parse_agrees_with_deser. Qed.
Print Assumptions C13_witness_parse_agrees_with_decode.

Theorem C13_witness_parse_terminates : forall bs, witness_parse bs <> Err FuelE.
Proof. exact witness_parse_no_fuel. Qed.
Print Assumptions C13_witness_parse_terminates.

(* ---- template builders: scriptPubKeys ---- *)
(* hand-written one-byte lengths: correct for every argument of 1..75 bytes (keys 33/65, hashes 20/32) *)
Theorem C13_p2pk_script_pubkey : forall pk, 1 <= lenZ pk <= 75 -> emits (p2pk_script_pubkey pk) (tpl_p2pk pk).
Proof. exact p2pk_script_pubkey_emits. Qed.
Print Assumptions C13_p2pk_script_pubkey.

Theorem C13_p2pkh_script_pubkey : forall h, 1 <= lenZ h <= 75 -> emits (p2pkh_script_pubkey h) (tpl_p2pkh h).
Proof. exact p2pkh_script_pubkey_emits. Qed.
Print Assumptions C13_p2pkh_script_pubkey.

Theorem C13_p2sh_script_pubkey : forall sh, 1 <= lenZ sh <= 75 -> emits (p2sh_script_pubkey sh) (tpl_p2sh sh).
Proof. exact p2sh_script_pubkey_emits. Qed.
Print Assumptions C13_p2sh_script_pubkey.

Theorem C13_multisig_script_pubkey : forall m (pks : list bytes),
  1 <= m <= lenZ pks -> lenZ pks <= 16 -> Forall (fun k => 1 <= lenZ k <= 75) pks ->
  emits (multisig_script_pubkey m pks) (tpl_multisig m pks).
Proof. exact multisig_script_pubkey_emits. Qed.
Print Assumptions C13_multisig_script_pubkey.

Theorem C13_multisig_script_pubkey_refuses : forall m (pks : list bytes),
  ~ (1 <= m <= lenZ pks /\ lenZ pks <= 16) -> multisig_script_pubkey m pks = Err AssertionE.
Proof. exact multisig_script_pubkey_refuses. Qed.
Print Assumptions C13_multisig_script_pubkey_refuses.

(* null data: any payload of 1 .. 2^32-1 bytes (in particular 1..80) through script(); the empty payload is
   OP_RETURN followed by the empty push, i.e. the opcode OP_0 (printed under its alias) *)
Theorem C13_null_data_script_pubkey : forall d, 1 <= lenZ d < 2 ^ 32 ->
  emits (null_data_script_pubkey d) (tpl_null_data d).
Proof. exact null_data_script_pubkey_emits. Qed.
Print Assumptions C13_null_data_script_pubkey.

Theorem C13_null_data_script_pubkey_empty :
  null_data_script_pubkey [] = Ok [Coq.Init.Byte.x6a; Coq.Init.Byte.x00]
  /\ decode_script [Coq.Init.Byte.x6a; Coq.Init.Byte.x00] = Ok [render (canon (Op n_RETURN)); render (canon (Op n_0))].
Proof. exact null_data_script_pubkey_empty. Qed.
Print Assumptions C13_null_data_script_pubkey_empty.

(* native segwit: p2wpkh_script_pubkey and p2wsh_script_pubkey are the same function; versions 0..16 *)
Theorem C13_p2wpkh_script_pubkey : forall prog v, 0 <= v <= 16 -> 1 <= lenZ prog <= 75 ->
  emits (p2wpkh_script_pubkey prog v) (tpl_witness_program v prog).
Proof. exact witness_program_emits. Qed.
Print Assumptions C13_p2wpkh_script_pubkey.

Theorem C13_p2wsh_script_pubkey : forall prog v, 0 <= v <= 16 -> 1 <= lenZ prog <= 75 ->
  emits (p2wsh_script_pubkey prog v) (tpl_witness_program v prog).
Proof. exact witness_program_emits. Qed.
Print Assumptions C13_p2wsh_script_pubkey.

(* P2SH-wrapped forms, for EVERY pair of hash functions with 32 / 20 byte outputs *)
Theorem C13_p2sh_multisig_script_pubkey : forall (sha256 ripemd160 : bytes -> bytes) m (pks : list bytes),
  (forall x, length (ripemd160 x) = 20%nat) ->
  1 <= m <= lenZ pks -> lenZ pks <= 16 -> Forall (fun k => 1 <= lenZ k <= 75) pks ->
  emits (p2sh_multisig_script_pubkey sha256 ripemd160 m pks)
        (tpl_p2sh (ripemd160 (sha256 (spec_asm (tpl_multisig m pks))))).
Proof. exact p2sh_multisig_script_pubkey_emits. Qed.
Print Assumptions C13_p2sh_multisig_script_pubkey.

Theorem C13_p2sh_p2wpkh_script_pubkey : forall (sha256 ripemd160 : bytes -> bytes) h v,
  (forall x, length (ripemd160 x) = 20%nat) -> 0 <= v <= 16 -> 1 <= lenZ h <= 75 ->
  emits (p2sh_p2wpkh_script_pubkey sha256 ripemd160 h v)
        (tpl_p2sh (ripemd160 (sha256 (spec_asm (tpl_witness_program v h))))).
Proof. exact p2sh_p2wpkh_script_pubkey_emits. Qed.
Print Assumptions C13_p2sh_p2wpkh_script_pubkey.

Theorem C13_p2sh_p2wsh_script_pubkey : forall (sha256 ripemd160 : bytes -> bytes) ws v,
  (forall x, length (ripemd160 x) = 20%nat) -> (forall x, length (sha256 x) = 32%nat) -> 0 <= v <= 16 ->
  emits (p2sh_p2wsh_script_pubkey sha256 ripemd160 ws v)
        (tpl_p2sh (ripemd160 (sha256 (spec_asm (tpl_witness_program v (sha256 ws)))))).
Proof. exact p2sh_p2wsh_script_pubkey_emits. Qed.
Print Assumptions C13_p2sh_p2wsh_script_pubkey.

(* ---- template builders: scriptSigs ---- *)
Theorem C13_p2pk_script_sig : forall sig, 1 <= lenZ sig <= 75 -> emits (p2pk_script_sig sig) (tpl_p2pk_sig sig).
Proof. exact p2pk_script_sig_emits. Qed.
Print Assumptions C13_p2pk_script_sig.

Theorem C13_p2pkh_script_sig : forall sig pk, 1 <= lenZ sig <= 75 -> 1 <= lenZ pk <= 75 ->
  emits (p2pkh_script_sig sig pk) (tpl_p2pkh_sig sig pk).
Proof. exact p2pkh_script_sig_emits. Qed.
Print Assumptions C13_p2pkh_script_sig.

(* signatures of 1..75 bytes (hand-written length byte); redeem script of ANY length 1 .. 2^32-1 *)
Theorem C13_p2sh_script_sig : forall (sigs : list bytes) rs,
  Forall (fun s => 1 <= lenZ s <= 75) sigs -> 1 <= lenZ rs < 2 ^ 32 ->
  emits (p2sh_script_sig sigs rs) (tpl_p2sh_sig sigs rs).
Proof. exact p2sh_script_sig_emits. Qed.
Print Assumptions C13_p2sh_script_sig.

Theorem C13_multisig_script_sig : forall (sigs : list bytes), Forall (fun s => 1 <= lenZ s <= 75) sigs ->
  emits (multisig_script_sig sigs) (tpl_multisig_sig sigs).
Proof. exact multisig_script_sig_emits. Qed.
Print Assumptions C13_multisig_script_sig.

Theorem C13_p2sh_multisig_script_sig : forall (sigs : list bytes) rs,
  Forall (fun s => 1 <= lenZ s < 2 ^ 32) sigs -> 1 <= lenZ rs < 2 ^ 32 ->
  emits (p2sh_multisig_script_sig sigs rs) (tpl_p2sh_multisig_sig sigs rs).
Proof. exact p2sh_multisig_script_sig_emits. Qed.
Print Assumptions C13_p2sh_multisig_script_sig.

Theorem C13_p2sh_p2wpkh_script_sig : forall rs, 1 <= lenZ rs < 2 ^ 32 ->
  emits (p2sh_p2wpkh_script_sig rs) (tpl_p2sh_sig [] rs).
Proof. exact p2sh_p2wpkh_script_sig_emits. Qed.
Print Assumptions C13_p2sh_p2wpkh_script_sig.

(* BIP141: the P2SH-P2WSH scriptSig is the single push of the redeem script `0 <sha256(witness script)>` *)
Theorem C13_p2sh_p2wsh_script_sig : forall (sha256 : bytes -> bytes) ws,
  (forall x, length (sha256 x) = 32%nat) ->
  emits (p2sh_p2wsh_script_sig sha256 ws) (tpl_p2sh_sig [] (spec_asm (tpl_witness_program 0 (sha256 ws)))).
Proof. exact p2sh_p2wsh_script_sig_emits. Qed.
Print Assumptions C13_p2sh_p2wsh_script_sig.

Theorem C13_empty_script_sigs : emits p2wpkh_script_sig [] /\ emits p2wsh_script_sig [].
Proof. exact empty_script_sigs. Qed.
Print Assumptions C13_empty_script_sigs.

(* ---- non-vacuity: concrete instances (vm_compute) ---- *)
Import Coq.Init.Byte.
Require Coq.Strings.String.
Import Coq.Strings.String.StringSyntax.
Local Open Scope string_scope.
Definition x_OP_0 : bytes := str "OP_0".
Definition x_OP_1 : bytes := str "OP_1".
Definition x_OP_2 : bytes := str "OP_2".
Definition x_OP_3 : bytes := str "OP_3".
Definition x_OP_CHECKLOCKTIMEVERIFY : bytes := str "OP_CHECKLOCKTIMEVERIFY".
Definition x_OP_CHECKMULTISIG : bytes := str "OP_CHECKMULTISIG".
Definition x_OP_CHECKSIG : bytes := str "OP_CHECKSIG".
Definition x_OP_DUP : bytes := str "OP_DUP".
Definition x_OP_EQUALVERIFY : bytes := str "OP_EQUALVERIFY".
Definition x_OP_FALSE : bytes := str "OP_FALSE".
Definition x_OP_FOO : bytes := str "OP_FOO".
Definition x_OP_HASH160 : bytes := str "OP_HASH160".
Definition x_OP_NOP2 : bytes := str "OP_NOP2".
Definition x_OP_TRUE : bytes := str "OP_TRUE".
Definition x_zz : bytes := str "zz".
Local Close Scope string_scope.
Definition ex_key : bytes := x02 :: repeat xab 32.
Definition ex_hash20 : bytes := repeat x11 20.

(* the hypotheses are satisfiable and the statements say something concrete *)
Example C13_ex_valid_items :
  Forall valid_item [Op n_DUP; Data ex_hash20; Op (x_OP_TRUE); Op (x_OP_CHECKLOCKTIMEVERIFY); Data (repeat x00 300)].
Proof. repeat constructor; vm_compute; intuition discriminate. Qed.

Example C13_ex_alias :
  decode_script [x51; x00; xb1] = Ok [x_OP_TRUE; x_OP_FALSE; x_OP_NOP2]
  /\ script [x_OP_1; x_OP_0; x_OP_CHECKLOCKTIMEVERIFY] = Ok [x51; x00; xb1].
Proof. vm_compute. repeat split. Qed.

Example C13_ex_p2pkh :
  p2pkh_script_pubkey ex_hash20 = Ok ([x76; xa9; x14] ++ ex_hash20 ++ [x88; xac])
  /\ decode_script ([x76; xa9; x14] ++ ex_hash20 ++ [x88; xac])
     = Ok [x_OP_DUP; x_OP_HASH160; hex_of_bytes ex_hash20; x_OP_EQUALVERIFY; x_OP_CHECKSIG].
Proof. vm_compute. repeat split. Qed.

Example C13_ex_multisig_2_of_3 :
  match multisig_script_pubkey 2 [ex_key; ex_key; ex_key] with
  | Ok bs => decode_script bs = Ok [x_OP_2; hex_of_bytes ex_key; hex_of_bytes ex_key; hex_of_bytes ex_key; x_OP_3; x_OP_CHECKMULTISIG]
             /\ length bs = 105%nat
  | Err _ => False
  end.
Proof. vm_compute. repeat split. Qed.

(* a 105-byte redeem script in a P2SH scriptSig is pushed with OP_PUSHDATA1 (0x4c 0x69) *)
Example C13_ex_p2sh_sig_pushdata1 :
  p2sh_script_sig [] (repeat x51 105) = Ok (x4c :: x69 :: repeat x51 105)
  /\ decode_script (x4c :: x69 :: repeat x51 105) = Ok [hex_of_bytes (repeat x51 105)].
Proof. vm_compute. repeat split. Qed.

Example C13_ex_pushdata2 :
  script [hex_of_bytes (repeat xaa 256)] = Ok (x4d :: x00 :: x01 :: repeat xaa 256)
  /\ canonical (x4d :: x00 :: x01 :: repeat xaa 256) = true
  /\ canonical (x4c :: x05 :: repeat xaa 5) = false            (* non-minimal push *)
  /\ canonical [x05; xaa] = false                               (* truncated push *)
  /\ canonical [xbb] = false.                                   (* undefined opcode byte *)
Proof. vm_compute. repeat split. Qed.

(* what decode_script does outside the canonical scripts (model of the code as it is) *)
Example C13_ex_lenient :
  decode_script [x05; xaa] = Ok [hex_of_bytes [xaa]]            (* truncated push: Python slice leniency *)
  /\ decode_script [x4c] = Err IndexE
  /\ decode_script [x4d; x05] = Ok [[]]
  /\ decode_script [xbb] = Err KeyE
  /\ script [[]] = Ok [x00]                                     (* empty data = OP_0 *)
  /\ script [x_OP_FOO] = Err AttributeE
  /\ script [x_zz] = Err ValueE.
Proof. vm_compute. repeat split. Qed.

Example C13_ex_witness :
  witness_ser [[]; [xaa; xbb]] = Ok [x02; x00; x02; xaa; xbb]
  /\ witness_deser [x02; x00; x02; xaa; xbb; xff] = Ok ([[]; [xaa; xbb]], [xff])
  /\ witness_ser [] = Ok [x00].
Proof. vm_compute. repeat split. Qed.

Example C13_ex_witness_parse :
  witness_parse [x02; x00; x02; xaa; xbb; xff; xee] = Ok ([x02; x00; x02; xaa; xbb], [xff; xee])
  /\ witness_parse [x00; x07] = Ok ([x00], [x07])
  /\ witness_parse [xfd; x01; x00; xfd; x01; x00; xaa] = Ok ([x01; xfd; x01; x00; xaa], [])   (* count re-encoded, item prefix kept *)
  /\ witness_parse [x02; x01; xaa] = Err ValueE                                               (* stack cut short *)
  /\ witness_parse [] = Err IndexE.
Proof. vm_compute. repeat split. Qed.
