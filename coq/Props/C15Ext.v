(* C15 (extension) - repo functions next to the block functions that the property statement does not name but callers
   rely on, now inside the model: blockchain.target_threshold, integrations.median_time, blockchain.genesis_coinbase_tx /
   genesis_block.  Specifications: Spec/Target.v (developer reference "Target nBits" + Bitcoin Core SetCompact),
   Spec/MedianTime.v (Bitcoin Core GetMedianTimePast), Spec/Genesis.v (the published block).  Models: Model/Target.v,
   Model/MedianTime.v, Model/Genesis.v.  Only restatements here; proofs in Proofs/{Target,MedianTime,Genesis}.v.

   FINDINGS (documented by the _refuted theorems below; the model is the code as it is, so the correspondence agrees):
   * target_threshold ignores the sign bit 0x00800000 (takes it as magnitude), never reports overflow (> 256 bits),
     and returns a FLOAT for exponent < 3 (Core: integer right shift) - it is SetCompact exactly on
     3 <= exponent, mantissa < 2^23, value < 2^256 (C15_ext_target_agrees_iff);
   * difficulty divides by the target without a check: ZeroDivisionError for a zero mantissa (any exponent);
   * median_time is Core's median time past only for chains of >= 12 blocks (and for the genesis block alone): below
     that the genesis block is never collected, and for an even number of collected times the answer is the floor of
     the mean of the two middle times - in general not the time of any block. *)
From Coq Require Import ZArith List Lia Bool Sorting.Sorted Sorting.Permutation.
Require Import Bits.Lib.Result Bits.Lib.Bytes Bits.Model.Tx.
Require Import Bits.Spec.Target Bits.Spec.MedianTime Bits.Spec.Genesis.
Require Import Bits.Model.Target Bits.Model.MedianTime Bits.Model.Genesis Bits.Model.Difficulty.
Require Import Bits.Proofs.Target Bits.Proofs.MedianTime Bits.Proofs.Genesis Bits.Proofs.Difficulty.
Require Bits.Model.Block.
Import ListNotations.
Import Coq.Init.Byte.
Local Open Scope Z_scope.

(* ================================================================== A. target_threshold *)
(* the argument callers pass is int.to_bytes(4, "big") of the compact number *)
Theorem C15_ext_nbits_is_to_be : forall e m, 0 <= e < 256 -> 0 <= m < 2 ^ 24 ->
  nbits_bytes e m = to_be 4 (compact e m).
Proof. exact nbits_is_to_be. Qed.
Print Assumptions C15_ext_nbits_is_to_be.

(* what the code computes for EVERY 4-byte nBits *)
Theorem C15_ext_target_nbits : forall e m, 0 <= e < 256 -> 0 <= m < 2 ^ 24 ->
  target_threshold (nbits_bytes e m)
  = if 3 <=? e then PInt (m * 256 ^ (e - 3)) else py_float_ratio m (256 ^ (3 - e)).
Proof. exact target_threshold_nbits. Qed.
Print Assumptions C15_ext_target_nbits.

(* developer reference: target = mantissa * 256^(exponent-3), on the well-formed range *)
Theorem C15_ext_target_wellformed : forall e m, 3 <= e < 256 -> 0 <= m < 2 ^ 24 ->
  target_threshold (nbits_bytes e m) = PInt (ref_target e m).
Proof. exact target_threshold_wellformed. Qed.
Print Assumptions C15_ext_target_wellformed.

(* Bitcoin Core SetCompact on everything Core accepts *)
Theorem C15_ext_target_is_setcompact : forall e m,
  3 <= e < 256 -> 0 <= m < 2 ^ 23 -> sc_overflow (compact e m) = false ->
  target_threshold (nbits_bytes e m) = PInt (sc_value (compact e m))
  /\ sc_negative (compact e m) = false
  /\ sc_value (compact e m) = ref_target e m
  /\ 0 <= sc_value (compact e m) < 2 ^ 256.
Proof. exact target_threshold_is_setcompact. Qed.
Print Assumptions C15_ext_target_is_setcompact.

Example C15_ext_setcompact_hyp_mainnet :
  3 <= 29 < 256 /\ 0 <= 65535 < 2 ^ 23 /\ sc_overflow (compact 29 65535) = false
  /\ compact 29 65535 = nbits_main /\ nbits_bytes 29 65535 = [x1d; x00; xff; xff].
Proof. vm_compute. repeat split; congruence. Qed.

(* exactly where the code's answer is the consensus value *)
Theorem C15_ext_target_agrees_iff : forall e m, 0 <= e < 256 -> 0 <= m < 2 ^ 24 ->
  (target_threshold (nbits_bytes e m) = PInt (sc_value (compact e m))
   <-> 3 <= e /\ m < 2 ^ 23 /\ m * 256 ^ (e - 3) < 2 ^ 256).
Proof. exact target_threshold_agrees_iff. Qed.
Print Assumptions C15_ext_target_agrees_iff.

(* any length of argument: a float comes back exactly when the exponent is below the number of mantissa bytes *)
Theorem C15_ext_target_float_iff : forall nBits,
  (exists n d, target_threshold nBits = PFloat n d)
  <-> of_be (droplast 3 nBits) < Z.of_nat (length (lastn 3 nBits)).
Proof. exact target_threshold_float_iff. Qed.
Print Assumptions C15_ext_target_float_iff.

(* the docstring's vector, the two module constants, Core's arith_uint256_tests vectors with exponent >= 3 *)
Example C15_ext_target_vectors :
  target_threshold [x20; x7f; xff; xff] = PInt (8388607 * 2 ^ 232)
  /\ target_threshold [x1d; x00; xff; xff] = PInt (65535 * 2 ^ 208)
  /\ target_threshold [x03; x12; x34; x56] = PInt 1193046          (* 0x123456 *)
  /\ target_threshold [x04; x12; x34; x56] = PInt 305419776        (* 0x12345600 *)
  /\ target_threshold [x05; x00; x92; x34] = PInt 2452881408       (* 0x92340000 *)
  /\ target_threshold [x20; x12; x34; x56] = PInt (1193046 * 2 ^ 232)
  /\ sc_value (compact 32 1193046) = 1193046 * 2 ^ 232.
Proof. vm_compute. repeat split; reflexivity. Qed.

(* Core: 0x04923456 is NEGATIVE (-0x12345600); the code answers the positive 0x92345600 *)
Example C15_ext_target_sign_bit_refuted :
  sc_negative (compact 4 9581654) = true /\ sc_value (compact 4 9581654) = 305419776
  /\ target_threshold (nbits_bytes 4 9581654) = PInt 2452903424
  /\ nbits_bytes 4 9581654 = [x04; x92; x34; x56].
Proof. vm_compute. repeat split; reflexivity. Qed.

(* Core: 0x02008000 is 0x80 and 0x01003456 is 0; the code answers the floats 128.0 and 0.204437255859375 = 6699/32768 *)
Example C15_ext_target_small_exponent_refuted :
  sc_value (compact 2 32768) = 128 /\ target_threshold [x02; x00; x80; x00] = PFloat 128 1
  /\ sc_value (compact 1 13398) = 0 /\ target_threshold [x01; x00; x34; x56] = PFloat 6699 32768
  /\ target_threshold [x00; x00; x00; x00] = PFloat 0 1 /\ target_threshold [] = PInt 0
  /\ target_threshold [x01] = PFloat 1 256.
Proof. vm_compute. repeat split; reflexivity. Qed.

(* Core: 0xff123456 overflows 256 bits (refused); the code answers a 2037-bit integer *)
Example C15_ext_target_overflow_refuted :
  sc_overflow (compact 255 1193046) = true
  /\ exists t, target_threshold [xff; x12; x34; x56] = PInt t /\ 2 ^ 256 <= t.
Proof. split; [vm_compute; reflexivity|]. eexists. split; [vm_compute; reflexivity|]. vm_compute. congruence. Qed.

(* ------------------------------------------------------------------ difficulty (int / int true division) *)
(* the float m * 2^e that `a / b` returns is within half a unit 2^e of the exact quotient (no fractions: multiplied out),
   the unit never below binary64's smallest 2^-1074 *)
Theorem C15_ext_true_div_half_ulp : forall a b, 0 < a -> 0 < b ->
  let '(m, e) := true_div_me a b in
  -1074 <= e /\
  2 * Z.abs (m * (b * pow2_pos e) - a * pow2_pos (- e)) <= b * pow2_pos e.
Proof. exact true_div_half_ulp. Qed.
Print Assumptions C15_ext_true_div_half_ulp.

(* nearest integer, and on a tie the even one *)
Theorem C15_ext_round_half_even : forall n d, 0 < d ->
  2 * Z.abs (round_half_even n d * d - n) <= d /\ (2 * (n mod d) = d -> Z.even (round_half_even n d) = true).
Proof. intros n d H. split; [now apply round_half_even_spec | now apply round_half_even_tie]. Qed.
Print Assumptions C15_ext_round_half_even.

Theorem C15_ext_difficulty_unknown_network : forall target network,
  bytes_eqb network s_mainnet = false -> bytes_eqb network s_testnet = false -> bytes_eqb network s_regtest = false ->
  difficulty target network = Err ValueE.
Proof. exact difficulty_unknown_network. Qed.
Print Assumptions C15_ext_difficulty_unknown_network.

(* ZeroDivisionError: target_threshold answers 0 for every nBits with a zero mantissa *)
Theorem C15_ext_difficulty_zero_target : forall network,
  bytes_eqb network s_mainnet || bytes_eqb network s_testnet || bytes_eqb network s_regtest = true ->
  difficulty 0 network = Err OtherE.
Proof. exact difficulty_zero_target. Qed.
Print Assumptions C15_ext_difficulty_zero_target.

(* difficulty 1 at each network's maximum target; the Bitcoin wiki's worked example 0x1b0404cb -> 16307.420938523983 *)
Theorem C15_ext_difficulty_vectors :
  difficulty MAX_TARGET s_mainnet = Ok (PFloat 1 1) /\ difficulty MAX_TARGET s_testnet = Ok (PFloat 1 1)
  /\ difficulty MAX_TARGET_REGTEST s_regtest = Ok (PFloat 1 1)
  /\ target_threshold [x1b; x04; x04; xcb] = PInt (263371 * 256 ^ 24)
  /\ difficulty (263371 * 256 ^ 24) s_mainnet = Ok (PFloat 8965099470472465 549755813888).
Proof. exact difficulty_vectors. Qed.
Print Assumptions C15_ext_difficulty_vectors.

Example C15_ext_true_div_hyp : 0 < MAX_TARGET /\ 0 < 263371 * 256 ^ 24 /\ true_div_me MAX_TARGET (263371 * 256 ^ 24) = (8965099470472465, -39).
Proof. vm_compute. repeat split; reflexivity. Qed.

(* ================================================================== B. median_time *)
(* the model's sort IS Python's sorted(): the unique sorted permutation *)
Theorem C15_ext_sort_is_sorted : forall l, is_sort_of (sort l) l.
Proof. exact sort_is_sort_of. Qed.
Print Assumptions C15_ext_sort_is_sorted.

Theorem C15_ext_sorted_unique : forall s l, is_sort_of s l -> s = sort l.
Proof. exact is_sort_of_unique. Qed.
Print Assumptions C15_ext_sorted_unique.

(* the order in which the times are collected does not matter *)
Theorem C15_ext_median_perm : forall a b, Permutation a b -> median_of a = median_of b.
Proof. exact median_of_perm. Qed.
Print Assumptions C15_ext_median_perm.

(* odd count (11 in particular): element count/2 of the sorted list, one of the block times *)
Theorem C15_ext_median_odd : forall ts, Nat.odd (length ts) = true ->
  exists m, median_of ts = Ok m /\ nth_error (sort ts) (Nat.div (length ts) 2) = Some m /\ In m ts.
Proof. exact median_of_odd. Qed.
Print Assumptions C15_ext_median_odd.

(* even count: floor of the mean of the two middle elements *)
Theorem C15_ext_median_even : forall ts, Nat.odd (length ts) = false -> ts <> [] ->
  exists a b, nth_error (sort ts) (Nat.div (length ts) 2 - 1) = Some a
           /\ nth_error (sort ts) (Nat.div (length ts) 2) = Some b
           /\ In a ts /\ In b ts /\ median_of ts = Ok ((a + b) / 2).
Proof. exact median_of_even. Qed.
Print Assumptions C15_ext_median_even.

(* between the smallest and the largest input, for every non-empty list *)
Theorem C15_ext_median_bounds : forall ts lo hi, ts <> [] -> Forall (fun t => lo <= t <= hi) ts ->
  exists m, median_of ts = Ok m /\ lo <= m <= hi.
Proof. exact median_of_bounds. Qed.
Print Assumptions C15_ext_median_bounds.

(* chain = block times by height.  At least 12 blocks: Bitcoin Core's median time past, the time of one of the blocks *)
Theorem C15_ext_median_time_full_window : forall chain, (12 <= length chain)%nat ->
  exists m, median_time chain = Ok m /\ is_median_time_past chain m /\ In m chain.
Proof. exact median_time_full_window. Qed.
Print Assumptions C15_ext_median_time_full_window.

Theorem C15_ext_median_time_genesis : forall t, median_time [t] = Ok t /\ is_median_time_past [t] t.
Proof. exact median_time_genesis. Qed.
Print Assumptions C15_ext_median_time_genesis.

Theorem C15_ext_median_time_bounds : forall chain lo hi, chain <> [] -> Forall (fun t => lo <= t <= hi) chain ->
  exists m, median_time chain = Ok m /\ lo <= m <= hi.
Proof. exact median_time_bounds. Qed.
Print Assumptions C15_ext_median_time_bounds.

(* height 2: the answer 15 is the time of no block and not Core's median time past (10) *)
Theorem C15_ext_median_time_short_chain_refuted :
  exists chain m, (2 <= length chain <= 11)%nat /\ median_time chain = Ok m
                  /\ ~ is_median_time_past chain m /\ ~ In m chain /\ is_median_time_past chain 10.
Proof. exact median_time_short_chain_refuted. Qed.
Print Assumptions C15_ext_median_time_short_chain_refuted.

(* height 1, genesis later than its successor: the genesis block is not collected (code 1, Core 5) *)
Theorem C15_ext_median_time_skips_genesis_refuted :
  exists chain m, median_time chain = Ok m /\ ~ is_median_time_past chain m /\ is_median_time_past chain 5.
Proof. exact median_time_skips_genesis_refuted. Qed.
Print Assumptions C15_ext_median_time_skips_genesis_refuted.

Example C15_ext_median_time_vectors :
  median_time [100; 7; 9; 8; 3; 3; 12; 1; 15; 2; 30; 4; 6] = Ok 6        (* 13 blocks: last 11 = 9 8 3 3 12 1 15 2 30 4 6 *)
  /\ median_time [1; 2; 3; 4; 5; 6; 7; 8; 9; 10; 11; 12] = Ok 7           (* 12 blocks: heights 11..1 *)
  /\ median_time [1; 2; 3; 4; 5; 6; 7; 8; 9; 10; 11] = Ok 6               (* 11 blocks: TEN times 2..11, (6+7)//2 *)
  /\ median_time [0; -3; -4] = Ok (-4)                                    (* floor division: (-4 + -3) // 2 *)
  /\ median_time [42] = Ok 42 /\ median_time [] = Err OtherE /\ median_of [] = Err IndexE.
Proof. vm_compute. repeat split; reflexivity. Qed.

(* ================================================================== C. genesis_coinbase_tx / genesis_block *)
Theorem C15_ext_genesis_coinbase_tx : genesis_coinbase_tx = Ok Bits.Spec.Genesis.genesis_coinbase.
Proof. exact genesis_coinbase_tx_is_published. Qed.
Print Assumptions C15_ext_genesis_coinbase_tx.

(* every hash function: published header fields around hash256(coinbase), count 1, the published coinbase *)
Theorem C15_ext_genesis_block_layout : forall sha256 : bytes -> bytes,
  genesis_block sha256
  = Ok (genesis_header_prefix ++ sha256 (sha256 Bits.Spec.Genesis.genesis_coinbase) ++ genesis_header_suffix
        ++ [x01] ++ Bits.Spec.Genesis.genesis_coinbase).
Proof. exact genesis_block_layout. Qed.
Print Assumptions C15_ext_genesis_block_layout.

Theorem C15_ext_genesis_block : forall sha256 : bytes -> bytes,
  sha256 (sha256 Bits.Spec.Genesis.genesis_coinbase) = genesis_merkle_root ->
  genesis_block sha256 = Ok Bits.Spec.Genesis.genesis_block.
Proof. exact genesis_block_is_published. Qed.
Print Assumptions C15_ext_genesis_block.

(* the hypothesis is satisfiable (SHA-256 satisfies it: checked by the harness with hashlib on every run) *)
Example C15_ext_genesis_block_hyp :
  let sha256 := fun _ : bytes => genesis_merkle_root in
  sha256 (sha256 Bits.Spec.Genesis.genesis_coinbase) = genesis_merkle_root
  /\ length Bits.Spec.Genesis.genesis_block = 285%nat /\ length Bits.Spec.Genesis.genesis_coinbase = 204%nat.
Proof. vm_compute. repeat split; reflexivity. Qed.

Theorem C15_ext_genesis_header_fields :
  Bits.Model.Block.block_header_deser Bits.Spec.Genesis.genesis_header
  = Ok (Bits.Model.Block.mk_header genesis_version (repeat x00 32) genesis_merkle_root genesis_time
          (to_le 4 genesis_nbits) genesis_nonce).
Proof. exact genesis_header_fields. Qed.
Print Assumptions C15_ext_genesis_header_fields.

(* the genesis nBits decodes to the difficulty-1 target, with the code and with SetCompact *)
Theorem C15_ext_genesis_target :
  target_threshold (rev (to_le 4 genesis_nbits)) = PInt (65535 * 256 ^ 26)
  /\ sc_value genesis_nbits = 65535 * 256 ^ 26 /\ sc_negative genesis_nbits = false /\ sc_overflow genesis_nbits = false.
Proof. exact genesis_target. Qed.
Print Assumptions C15_ext_genesis_target.
