(* C19 - Block file store keeps every block, in order, in bounded append-only files; a crash leaves a prefix.
   Only the property theorems (closed by [exact]), their assumptions, and non-vacuity examples.
   Model: Model/BlockFiles.v.  A directory is [files = list (N * bytes)] (file number n = blk_name n = "blkNNNNN.dat");
   [read_all] concatenates the files in numeric order; [record magic b] = magic ++ le32 |b| ++ b;
   [write_blocks max magic fs blocks] = (trace of primitive Open/Write/Close operations, directory afterwards);
   [history] = successive calls (the process may restart in between: only the directory is carried over).
   [room fs k]: with k further blocks no file number can reach 100000 (the numbering premise, see C19_name_order).
   Blocks are assumed shorter than 4 GiB (len(blk).to_bytes(4) does not overflow). *)
From Coq Require Import ZArith NArith List Bool.
Require Import Bits.Lib.Result Bits.Lib.Bytes Bits.Model.BlockFiles.
Require Import Bits.Proofs.BlockFiles Bits.Proofs.BlockNames Bits.Proofs.BlockStore.
Import ListNotations.
Local Open Scope Z_scope.

Definition blocks_ok (blocks : list bytes) : Prop := Forall (fun b => zlen b < 2 ^ 32) blocks.

(* after any history of batches, the files read in numeric order = what was there before, followed by exactly one
   record per block, in writing order, and nothing else *)
Theorem C19_stream_preserved :
  forall max magic batches fs, blocks_ok (concat batches) -> room fs (total batches) ->
    read_all (history max magic fs batches) = read_all fs ++ records magic (concat batches).
Proof. intros max magic batches fs _. apply stream_preserved. Qed.
Print Assumptions C19_stream_preserved.

(* no file exceeds the limit - provided none did before and every single record fits into an empty file *)
Theorem C19_size_bound :
  forall max magic batches fs, blocks_ok (concat batches) -> room fs (total batches) ->
    (forall n, zlen (content n fs) <= max) ->
    Forall (fun b => zlen (record magic b) <= max) (concat batches) ->
    forall n, zlen (content n (history max magic fs batches)) <= max.
Proof. intros max magic batches fs _. apply size_bound. Qed.
Print Assumptions C19_size_bound.

(* after ANY prefix [pre] of a batch the open file is the highest-numbered file of the directory as it then is, and
   the next block opens the consecutively numbered file exactly when len(record) + (real size of that file) > max;
   otherwise its record is appended to that file *)
Theorem C19_rollover_iff :
  forall max magic fs pre b post, blocks_ok (pre ++ b :: post) -> small_dir fs ->
    let cur0 := current_file fs in
    let tr_pre := Open cur0 :: write_body max magic fs cur0 (zlen (content cur0 fs)) pre in
    let fs1 := run_trace fs tr_pre in
    let cur1 := fst (loop_state max magic fs cur0 (zlen (content cur0 fs)) pre) in
    cur1 = top fs1 /\ In cur1 (keys fs1) /\
    exists tail,
      write_trace max magic fs (pre ++ b :: post) =
      tr_pre ++ (if zlen (record magic b) + zlen (content cur1 fs1) >? max
                 then [Close; Open (N.succ cur1); Write (record magic b)]
                 else [Write (record magic b)]) ++ tail.
Proof. intros max magic fs pre b post _. apply rollover_iff. Qed.
Print Assumptions C19_rollover_iff.

(* bytes already written are never modified and files never disappear (no premise at all) *)
Theorem C19_append_only :
  forall max magic batches fs n,
    exists more, content n (history max magic fs batches) = content n fs ++ more /\
                 (In n (keys fs) -> In n (keys (history max magic fs batches))).
Proof. exact append_only. Qed.
Print Assumptions C19_append_only.

(* a crash after k primitive operations of a call (any k): what is on disk is the previous stream followed by a
   byte-prefix of the batch's record stream, every file still begins with its previous content, and the operations
   that were cut off would only have appended the rest *)
Theorem C19_crash_prefix :
  forall max magic fs blocks k, blocks_ok blocks -> small_dir fs ->
    let tr := write_trace max magic fs blocks in
    let crashed := run_trace fs (firstn k tr) in
    exists pre suf, records magic blocks = pre ++ suf /\ read_all crashed = read_all fs ++ pre /\
      read_all (run_trace fs tr) = read_all crashed ++ suf /\
      forall n, exists more, content n crashed = content n fs ++ more.
Proof. intros max magic fs blocks k _. apply call_crash_prefix. Qed.
Print Assumptions C19_crash_prefix.

(* a restart between any two blocks of a batch changes nothing: the function reads only the directory *)
Theorem C19_restart_irrelevant :
  forall max magic fs b1 b2, blocks_ok (b1 ++ b2) -> room fs (length b1 + length b2) ->
    forall n, content n (snd (write_blocks max magic fs (b1 ++ b2))) = content n (history max magic fs [b1; b2])
              /\ (In n (keys (snd (write_blocks max magic fs (b1 ++ b2))))
                  <-> In n (keys (history max magic fs [b1; b2]))).
Proof. intros max magic fs b1 b2 _. apply restart_irrelevant. Qed.
Print Assumptions C19_restart_irrelevant.

(* lexicographic order of the names = numeric order below 100000 files, so that the code's
   "last name of the sorted listing" is the highest-numbered file ... *)
Theorem C19_name_order :
  forall a b, (a < 100000)%N -> (b < 100000)%N ->
    (lex_ltb (blk_name a) (blk_name b) = true <-> (a < b)%N).
Proof. exact name_order. Qed.
Print Assumptions C19_name_order.

Theorem C19_current_file_is_top : forall fs, small_dir fs -> current_file fs = top fs.
Proof. exact current_file_top. Qed.
Print Assumptions C19_current_file_is_top.

(* ... and NOT from 100000 on ("blk100000.dat" < "blk99999.dat"): with files 99999 and 100000 present the next
   small block is appended to blk99999.dat, i.e. in front of what blk100000.dat already holds *)
Import Coq.Init.Byte.
Definition ex_magic : bytes := [xfa; xbf; xb5; xda].
Theorem C19_stream_preserved_beyond_100000_refuted :
  let fs := [(99999%N, repeat x01 50); (100000%N, repeat x02 50)] in
  let blocks := [[xaa]] in
  Forall (fun n => (n <= 100000)%N) (keys fs) /\ lex_ltb (blk_name 100000) (blk_name 99999) = true /\
  current_file fs = 99999%N /\
  read_all (snd (write_blocks 100 ex_magic fs blocks)) <> read_all fs ++ records ex_magic blocks.
Proof. exact beyond_100000_refuted. Qed.
Print Assumptions C19_stream_preserved_beyond_100000_refuted.

(* the premise of C19_size_bound is necessary: a record longer than the limit is written to a fresh file whole
   (and leaves the previous file as it was, here empty) *)
Theorem C19_size_bound_needs_fitting_records :
  exists blocks, blocks_ok blocks /\
    listing (snd (write_blocks 10 ex_magic [] blocks))
    = [(blk_name 0, []); (blk_name 1, ex_magic ++ [x05; x00; x00; x00] ++ repeat xaa 5)].
Proof. exists [repeat xaa 5]. split; [repeat constructor|]. vm_compute. reflexivity. Qed.
Print Assumptions C19_size_bound_needs_fitting_records.

(* ---------------------------------------------------------------------------------- examples *)
Example C19_ex_names :
  blk_name 0 = [x62;x6c;x6b;x30;x30;x30;x30;x30;x2e;x64;x61;x74]          (* blk00000.dat *)
  /\ blk_name 12 = [x62;x6c;x6b;x30;x30;x30;x31;x32;x2e;x64;x61;x74]      (* blk00012.dat *)
  /\ blk_name 100000 = [x62;x6c;x6b;x31;x30;x30;x30;x30;x30;x2e;x64;x61;x74].   (* blk100000.dat *)
Proof. vm_compute. auto. Qed.

(* limit 30, 4-byte magic: records of 8+4 = 12 bytes; two fit (24), the third opens blk00001.dat; a record that
   fills a file exactly (12 + 18 = 30) does not roll over; 12 files are handled like 2 *)
Example C19_ex_history :
  let b4 := repeat xaa 4 in let b10 := repeat xbb 10 in
  listing (history 30 ex_magic [] [[b4; b4; b4]; []; [b10]; [b4]])
  = [ (blk_name 0, record ex_magic b4 ++ record ex_magic b4)
    ; (blk_name 1, record ex_magic b4 ++ record ex_magic b10)
    ; (blk_name 2, record ex_magic b4) ]
  /\ room (history 30 ex_magic [] [[b4; b4; b4]; []; [b10]; [b4]]) 1000
  /\ current_file (map (fun i => (N.of_nat i, [x00])) (seq 0 12)) = 11%N.
Proof.
  cbv zeta. split; [vm_compute; reflexivity|]. split; [|vm_compute; reflexivity].
  split; [vm_compute; reflexivity|]. intros n Hn. vm_compute in Hn.
  repeat (destruct Hn as [<-|Hn]; [vm_compute; reflexivity|]). destruct Hn.
Qed.

(* crash after 4 operations of the first batch above (Open 0; Write; Write; Close | Open 1 ...): two records on disk *)
Example C19_ex_crash :
  let b4 := repeat xaa 4 in
  history_crash 30 ex_magic [] [[b4; b4; b4]] 4
  = ([(0%N, record ex_magic b4 ++ record ex_magic b4)], true)
  /\ history_crash 30 ex_magic [] [[b4; b4; b4]] 5
  = ([(0%N, record ex_magic b4 ++ record ex_magic b4); (1%N, [])], true)
  /\ snd (history_crash 30 ex_magic [] [[b4; b4; b4]] 7) = false.
Proof. vm_compute. auto. Qed.
