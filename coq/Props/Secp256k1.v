(* The curve hypotheses of C01/C02/C03/C08/C09/C12/C14/C16 hold OUTRIGHT for secp256k1 itself - no premise left:
     - chord-and-tangent addition over F_p is a commutative group for EVERY prime p > 3 and every curve y^2 = x^3 + ax + b
       without a point of order two (GL/GroupLawBasic.v, GL/GroupLawAssoc.v: associativity by the classical case analysis,
       the generic cases by `field` over Z/pZ);
     - p and n of secp256k1 are prime (GL/Pocklington.v: Pocklington's criterion with a checked certificate chain);
     - n*G = infinity (GL/Secp256k1Order.v, by a slope certificate checked by vm_compute), hence every 0 < k < n has
       k*G <> infinity; Fermat inverses mod n; p = 3 mod 4 square roots (GL/SqrtFacts.v).
   Kept in its own file (like SmallCurvesAll.v): compiling the GL files takes ~2.5 min and coqchk ~30 min, so the
   per-property files keep the facts as explicit premises; Props/Secp256k1Inst.v instantiates the property theorems.
   Still premises for secp256k1: `cx_gen` of curve_facts_x (G generates every curve point) and `cofactor_one`, i.e. the
   number of points of the curve is n (point counting). *)
From Coq Require Import ZArith Znumtheory.
Require Import Bits.Lib.Result Bits.Lib.Bytes Bits.Model.Ecmath Bits.Proofs.Ecmath Bits.Proofs.Ecdsa Bits.Spec.Secp256k1.
Require Import Bits.GL.Secp256k1Primes Bits.GL.SqrtFacts Bits.GL.GroupLawAssoc Bits.GL.Secp256k1FactsX.
Local Open Scope Z_scope.

Theorem secp256k1_p_prime : prime Secp256k1.p.
Proof. exact prime_P. Qed.
Print Assumptions secp256k1_p_prime.

Theorem secp256k1_n_prime : prime Secp256k1.n.
Proof. exact prime_N. Qed.
Print Assumptions secp256k1_n_prime.

(* every short Weierstrass curve over a prime field without 2-torsion is a commutative group under the library's formulas *)
Theorem weierstrass_group_law : forall p a b, prime p -> 3 < p -> inF p a = true -> inF p b = true ->
  (forall x, inF p x = true -> rhs p a b x <> 0) -> curve_group p a b.
Proof. exact curve_group_of_prime. Qed.
Print Assumptions weierstrass_group_law.

Theorem secp256k1_facts :
  curve_facts Secp256k1.p 0 7 Secp256k1.n (Some (Gx, Gy)) /\
  Bits.Proofs.Sec1.sqrt_facts Secp256k1.p /\ Bits.Proofs.SchnorrSign.lift_facts Secp256k1.p /\
  Bits.Proofs.Sec1.sec1_facts Secp256k1.p 0 7.
Proof. exact (conj secp256k1_curve_facts_closed (conj secp256k1_sqrt_facts (conj secp256k1_lift_facts secp256k1_sec1_facts))). Qed.
Print Assumptions secp256k1_facts.

Theorem secp256k1_same_x : forall x y1 y2,
  oncurve Secp256k1.p 0 7 (Some (x, y1)) -> oncurve Secp256k1.p 0 7 (Some (x, y2)) ->
  y2 = y1 \/ y2 = fsub Secp256k1.p 0 y1.
Proof.
  intros x y1 y2. apply (same_x_prime Secp256k1.p 0 7 prime_P); reflexivity.
Qed.
Print Assumptions secp256k1_same_x.

