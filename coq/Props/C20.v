(* C20 -- CLI conversion is lossless; precedence: explicit flag > config file > default.
   Model: Model/Cli.v (read_bytes, write_bytes, ExplicitOption / argparse namespace, Config pipeline of main()).
   Spec : Spec/Cli.v  (standard hex / binary representation, zero left-padding, precedence, documented defaults).
   The parser table is regenerated from /repo on every run (Gen/CliTable.v); the theorems about it are in
   GenProps/CliTable.v and re-exported here. *)
From Coq Require Import ZArith List Bool.
Require Import Bits.Lib.Result Bits.Lib.Bytes Bits.Lib.Radix.
Require Import Bits.Spec.Cli Bits.Model.Cli Bits.Proofs.CliConv Bits.Proofs.CliConfig.
Require Bits.Gen.CliTable Bits.GenProps.CliTable.
Import ListNotations.
Import Coq.Init.Byte.
Local Open Scope Z_scope.
Module G := Bits.Gen.CliTable.

(* ------------------------------------------------------------------------------------------------ *)
(* conversion                                                                                        *)
(* ------------------------------------------------------------------------------------------------ *)

(* for every byte string (incl. [] and leading zero bytes), every pair of formats and every line separator made of
   white space ("\n", "\r\n"):  read g (write g (read f (write f data))) = data *)
Theorem C20_convert_lossless : forall udec linesep f g data,
  all_ws linesep -> fmt3 f -> fmt3 g -> reconvert udec linesep f g data = Ok data.
Proof. exact convert_lossless. Qed.
Print Assumptions C20_convert_lossless.

(* one format: what write_bytes wrote reads back as the data *)
Theorem C20_roundtrip : forall udec linesep f data, all_ws linesep -> fmt3 f ->
  exists o, write_bytes linesep f data = Ok o /\ read_bytes udec f (as_input o) = Ok data.
Proof. exact roundtrip. Qed.
Print Assumptions C20_roundtrip.

(* hex input: any number of hex digits (upper or lower case), surrounded by any white space that str.strip() removes,
   denotes the number written in ceil(n/2) bytes = the digit string left-padded with a zero nibble when n is odd *)
Theorem C20_pad_hex : forall udec pre s post raw,
  all_ws pre -> all_ws post -> Forall is_hex s ->
  read_bytes udec (PStr s_hex) (mkIn raw (pre ++ s ++ post)) = Ok (spec_padded 16 2 (map hv s)).
Proof. exact pad_hex. Qed.
Print Assumptions C20_pad_hex.

(* bin input: any number of '0'/'1', surrounding white space ignored, left-padded with zero bits to whole bytes *)
Theorem C20_pad_bin : forall udec pre s post raw,
  all_ws pre -> all_ws post -> Forall is_bit s ->
  read_bytes udec (PStr s_bin) (mkIn raw (pre ++ s ++ post)) = Ok (spec_padded 2 8 (map bv s)).
Proof. exact pad_bin. Qed.
Print Assumptions C20_pad_bin.

(* what is written is the standard representation followed by the line separator; raw is verbatim *)
Theorem C20_write_is_spec : forall linesep data,
  write_bytes linesep (PStr s_raw) data = Ok (data, [])
  /\ write_bytes linesep (PStr s_hex) data = Ok ([], spec_hex data ++ linesep)
  /\ write_bytes linesep (PStr s_bin) data = Ok ([], spec_bin data ++ linesep).
Proof. exact write_is_spec. Qed.
Print Assumptions C20_write_is_spec.

(* ------------------------------------------------------------------------------------------------ *)
(* precedence                                                                                        *)
(* ------------------------------------------------------------------------------------------------ *)

(* for ANY parser table t and Config defaults cfgd: for every (sub)command `sub` with parser p, every command line
   the parser accepts (converted values cv) and every configurable option opt whose action -- if the option is given
   -- is marked explicit:   effective = CLI value, else value in THE config file (config.toml if TOML is supported
   and the file exists, else config.json), else the built-in default.
   wf_namesb: no dest of the NAMESPACE (vars(args)) is opt's "__explicit" mark, has opt as its own mark, or is called
   "self" (Config( **vars(args)) would be a TypeError; a fact about the parser table, proved for the generated one).
   Nothing is assumed about the keys of the config FILES. *)
Theorem C20_precedence : forall cfgd t has_toml sub p cli cv ftoml fjson opt,
  parser_of t sub = Some p ->
  convert_cli p cli = Ok cv ->
  wf_namesb t p opt = true -> dmem s_self cfgd = false ->
  dmem opt cfgd = true ->
  (dget opt cv <> None -> marks_explicit p opt) ->
  effective cfgd t has_toml sub cli ftoml fjson opt =
    Ok (spec_effective (dget opt cv) (file_value has_toml ftoml fjson opt) (builtin_default cfgd t sub opt)).
Proof. exact precedence. Qed.
Print Assumptions C20_precedence.

(* the marks_explicit hypothesis is necessary: an accepted option whose action is NOT an ExplicitOption loses
   against the config file (this was the defect of `key` / `pubkey` -0 in the pinned snapshot) *)
Theorem C20_unmarked_loses_to_file : forall cfgd t has_toml sub p cli cv ftoml fjson opt v fv,
  parser_of t sub = Some p ->
  convert_cli p cli = Ok cv ->
  wf_namesb t p opt = true -> dmem s_self cfgd = false ->
  dmem opt cfgd = true ->
  (forall a, In a p -> a_dest a = opt -> a_explicit a = false) ->
  dget opt cv = Some v -> file_value has_toml ftoml fjson opt = Some fv ->
  effective cfgd t has_toml sub cli ftoml fjson opt = Ok fv.
Proof. exact unmarked_loses_to_file. Qed.
Print Assumptions C20_unmarked_loses_to_file.

(* the generated table satisfies the hypothesis: every action of every (sub)parser whose dest is a Config key is an
   ExplicitOption (by computation over the table, re-checked whenever /repo changes) *)
Theorem C20_table_marks_explicit : forall sub p opt,
  parser_of G.table sub = Some p -> dmem opt G.config_defaults = true -> marks_explicit p opt.
Proof. exact Bits.GenProps.CliTable.table_marks_explicit. Qed.
Print Assumptions C20_table_marks_explicit.

(* ... hence, for the parser setup_parser() builds now and the defaults Config() has now, without hypotheses on the
   table: *)
Theorem C20_precedence_cli : forall has_toml sub p cli cv ftoml fjson opt,
  parser_of G.table sub = Some p ->
  convert_cli p cli = Ok cv ->
  dmem opt G.config_defaults = true ->
  effective G.config_defaults G.table has_toml sub cli ftoml fjson opt =
    Ok (spec_effective (dget opt cv) (file_value has_toml ftoml fjson opt)
                       (builtin_default G.config_defaults G.table sub opt)).
Proof. exact Bits.GenProps.CliTable.precedence_cli. Qed.
Print Assumptions C20_precedence_cli.

(* and the built-in default is the documented one, for every subcommand and option (None for "" where `bits rpc`
   declares the rpc_* options without a default) *)
Theorem C20_builtin_defaults_are_spec : forall sub p opt doc,
  parser_of G.table sub = Some p -> In (opt, doc) Bits.GenProps.CliTable.spec_dict ->
  Bits.GenProps.CliTable.same_default (builtin_default G.config_defaults G.table sub opt) doc = true.
Proof. exact Bits.GenProps.CliTable.builtin_defaults_are_spec. Qed.
Print Assumptions C20_builtin_defaults_are_spec.

(* the Config object is the ONLY way main() learns a configurable option: bits/__main__.py contains no direct read of
   one from the argparse namespace, and every read_bytes / write_bytes call of main() is given config.input_format /
   config.output_format (or the constant "raw").  Facts about the source text, extracted by `ast` into
   Gen/CliTable.v on every run; the behaviour of each such branch is compared with its explicit-flag run by the
   harness (classes io-...). *)
Theorem C20_no_direct_args_reads : G.args_config_reads = [].
Proof. exact Bits.GenProps.CliTable.no_direct_args_reads. Qed.
Print Assumptions C20_no_direct_args_reads.

Theorem C20_io_calls_use_config : forallb Bits.GenProps.CliTable.io_call_ok G.io_calls = true.
Proof. exact Bits.GenProps.CliTable.io_calls_use_config. Qed.
Print Assumptions C20_io_calls_use_config.

(* ------------------------------------------------------------------------------------------------ *)
(* unknown keys                                                                                      *)
(* ------------------------------------------------------------------------------------------------ *)

(* the Config depends on the selected file only through the keys Config defines: any other key of the file -- "foo",
   "config_dir", "self", ... -- is ignored.  No premise on the file's keys.  (dmem s_self cfgd = false / NoDup: Config's
   OWN attribute names, proved for the generated defaults in GenProps.config_keys_ok; a namespace containing a dest
   called "self" makes both sides the same TypeError, excluded for the generated table by table_names_ok.) *)
Theorem C20_unknown_keys_ignored : forall cfgd has_toml ns ft fj ft' fj',
  NoDup (map fst cfgd) -> dmem s_self cfgd = false ->
  (forall k, dmem k cfgd = true -> dget k (select_file has_toml ft fj) = dget k (select_file has_toml ft' fj')) ->
  config_of_ns cfgd has_toml ns ft fj = config_of_ns cfgd has_toml ns ft' fj'.
Proof. exact unknown_keys_ignored. Qed.
Print Assumptions C20_unknown_keys_ignored.

(* ... in particular dropping every unknown key from the files changes nothing *)
Theorem C20_unknown_keys_dropped : forall cfgd has_toml ns ft fj,
  NoDup (map fst cfgd) -> dmem s_self cfgd = false ->
  config_of_ns cfgd has_toml ns ft fj
  = config_of_ns cfgd has_toml ns (option_map (known_only cfgd) ft) (option_map (known_only cfgd) fj).
Proof. exact unknown_keys_dropped. Qed.
Print Assumptions C20_unknown_keys_dropped.

(* ... and no file content makes the pipeline fail: the result is a Config with exactly Config's keys *)
Theorem C20_config_total : forall cfgd has_toml ns ft fj,
  dmem s_self cfgd = false -> dmem s_self ns = false ->
  exists c, config_of_ns cfgd has_toml ns ft fj = Ok c /\ map fst c = map fst cfgd.
Proof. exact config_total. Qed.
Print Assumptions C20_config_total.

(* ------------------------------------------------------------------------------------------------ *)
(* the hypotheses are satisfiable / concrete vectors                                                 *)
(* ------------------------------------------------------------------------------------------------ *)
Definition nodec (_ : Z) : option Z := None.

(* "\n" and "\r\n" are all-white-space line separators; the three formats are formats *)
Example ex_linesep : all_ws [10] /\ all_ws [13; 10] /\ fmt3 (PStr s_hex).
Proof. repeat split; try reflexivity. right. now left. Qed.

(* "\nabc\n" (odd nibble count, surrounding newlines) reads as 0a bc;  " 101 " as 05;  "" as b"" *)
Example ex_pad_hex : read_bytes nodec (PStr s_hex) (mkIn [] [10; 97; 98; 99; 10]) = Ok [x0a; xbc].
Proof. vm_compute. reflexivity. Qed.
Example ex_pad_hex_hyp : all_ws [10] /\ Forall is_hex [97; 98; 99] /\ spec_padded 16 2 (map hv [97; 98; 99]) = [x0a; xbc].
Proof. split; [reflexivity|]. split; [repeat constructor; unfold is_hex; cbn; discriminate|vm_compute; reflexivity]. Qed.
Example ex_pad_bin : read_bytes nodec (PStr s_bin) (mkIn [] [32; 49; 48; 49; 32]) = Ok [x05].
Proof. vm_compute. reflexivity. Qed.
Example ex_pad_bin_hyp : Forall is_bit [49; 48; 49] /\ spec_padded 2 8 (map bv [49; 48; 49]) = [x05].
Proof. split; [repeat constructor; (now left) || (now right)|vm_compute; reflexivity]. Qed.
Example ex_empty : write_bytes [10] (PStr s_hex) [] = Ok ([], [10])
  /\ read_bytes nodec (PStr s_hex) (mkIn [] [10]) = Ok [] /\ read_bytes nodec (PStr s_bin) (mkIn [] [10]) = Ok [].
Proof. vm_compute. repeat split; reflexivity. Qed.
Example ex_lead0 : reconvert nodec [10] (PStr s_bin) (PStr s_hex) [x00; x00; x01; xff] = Ok [x00; x00; x01; xff].
Proof. vm_compute. reflexivity. Qed.
(* int(s, 2) peculiarities that the model follows: sign, prefix, underscores *)
Example ex_bin_syntax :
  read_bytes nodec (PStr s_bin) (mkIn [] [48; 98; 49; 48; 49; 48; 49; 48]) = Ok [x2a]              (* "0b101010" *)
  /\ read_bytes nodec (PStr s_bin) (mkIn [] [45; 48; 48; 48; 48; 48; 48; 49]) = Err OverflowE       (* "-0000001" *)
  /\ read_bytes nodec (PStr s_bin) (mkIn [] [49; 32; 49]) = Err ValueE.                             (* "1 1" *)
Proof. vm_compute. repeat split; reflexivity. Qed.

(* `bits key -0x` with output_format="bin" in config.json and "raw" in config.toml: the flag wins; without the flag
   the TOML value wins when TOML is supported, the JSON value otherwise; with no file the default *)
Definition k_of := k_output_format.
Definition s_key : bytes := [x6b; x65; x79].
Example ex_precedence :
  let fj := Some [(k_of, PStr s_bin)] in let ft := Some [(k_of, PStr s_raw)] in
  effective G.config_defaults G.table true s_key [(k_of, Some s_x)] ft fj k_of = Ok (PStr s_hex)
  /\ effective G.config_defaults G.table true s_key [] ft fj k_of = Ok (PStr s_raw)
  /\ effective G.config_defaults G.table false s_key [] ft fj k_of = Ok (PStr s_bin)
  /\ effective G.config_defaults G.table true s_key [] (Some []) fj k_of = Ok (PStr s_hex)
  /\ effective G.config_defaults G.table true s_key [] None None k_of = Ok (PStr s_hex).
Proof. vm_compute. repeat split; reflexivity. Qed.
Example ex_precedence_hyp :
  parser_of G.table s_key <> None /\ dmem k_of G.config_defaults = true
  /\ (exists p cv, parser_of G.table s_key = Some p /\ convert_cli p [(k_of, Some s_x)] = Ok cv /\ dget k_of cv = Some (PStr s_hex)).
Proof.
  split; [vm_compute; discriminate|]. split; [reflexivity|].
  eexists. eexists. split; [vm_compute; reflexivity|]. split; vm_compute; reflexivity.
Qed.

(* unknown keys: {"foo": ..} and {"self": ..} change nothing *)
Example ex_unknown_keys :
  main_config G.config_defaults G.table true [] [] None (Some [([x66; x6f; x6f], PStr s_x)])
  = main_config G.config_defaults G.table true [] [] None None
  /\ main_config G.config_defaults G.table true [] [] None (Some [(s_self, PStr s_x); (k_of, PStr s_bin)])
     = main_config G.config_defaults G.table true [] [] None (Some [(k_of, PStr s_bin)]).
Proof. vm_compute. split; reflexivity. Qed.
