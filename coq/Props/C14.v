(* C14 - key containers (SEC1, WIF, PEM) round-trip; only well-formed input accepted.
   SEC1: generic in the curve (p, a, b); the number theory of square roots mod p is the explicit premise
   [sec1_facts] / [sqrt_facts] (Proofs/Sec1.v) -- PROVED by computation for y^2 = x^3 + 7 over F_43, F_79, F_67
   (corollaries at the end are unconditional) and a premise, never an axiom, for secp256k1.
   WIF: for every 32-byte-output hash function.  PEM: base64 is an oracle with two stated hypotheses; private
   keys under [curve_facts].  OpenSSL interoperability is NOT a theorem (correspondence check only). *)
From Coq Require Import ZArith List Bool Lia.
Require Import Bits.Lib.Result Bits.Lib.Bytes Bits.Model.Ecmath Bits.Proofs.Ecmath Bits.Proofs.Ecdsa
  Bits.Model.Base58 Bits.Model.Keys Bits.Model.Sec1 Bits.Model.Wif Bits.Model.Asn1 Bits.Model.Pem
  Bits.Proofs.Sec1 Bits.Proofs.Sec1Small Bits.Proofs.Wif Bits.Proofs.Asn1 Bits.Proofs.PemArmor Bits.Proofs.Pem
  Bits.Proofs.SmallCurves Bits.Model.CliKeys Bits.Proofs.CliKeys.
Require Bits.Spec.Sec1 Bits.Spec.Wif Bits.Spec.Rfc5915 Bits.Spec.Secp256k1.
Import ListNotations.
Import Coq.Init.Byte.
Local Open Scope Z_scope.

(* ------------------------------- SEC1 ------------------------------- *)

(* every curve point: both encodings are produced, are the SEC1 2.3.3 octets, and decode to that point *)
Theorem C14_sec1_roundtrip : forall p a b, sec1_facts p a b ->
  forall x y c, oncurve p a b (Some (x, y)) ->
    pubkey x y c = Ok (Spec.Sec1.encode c x y) /\
    sec1_point p a b (Spec.Sec1.encode c x y) = Ok (x, y).
Proof. intros p a b [SQ Ha Hb Hw _]. exact (sec1_roundtrip p a b SQ Ha Hb Hw). Qed.
Print Assumptions C14_sec1_roundtrip.

(* ... and re-encoding ANY accepted string gives the same bytes *)
Theorem C14_sec1_reencode : forall p a b, sec1_facts p a b ->
  forall pk x y, sec1_point p a b pk = Ok (x, y) -> exists c, pubkey x y c = Ok pk.
Proof. intros p a b [SQ Ha Hb Hw _]. exact (sec1_reencode p a b SQ Ha Hb Hw). Qed.
Print Assumptions C14_sec1_reencode.

(* utils.point accepts exactly: 33 bytes, prefix 02/03, x < p, y the root of x^3+ax+b of that parity;
   or 65 bytes, prefix 04, x, y < p, on the curve  (Spec.Sec1.valid_encoding, from SEC 1 section 2.3.4) *)
Theorem C14_sec1_accept_iff : forall p a b, sec1_facts p a b ->
  forall bs x y, sec1_point p a b bs = Ok (x, y) <-> Spec.Sec1.valid_encoding p a b bs x y.
Proof. intros p a b [SQ Ha Hb Hw _]. exact (sec1_accept_iff p a b SQ Ha Hb Hw). Qed.
Print Assumptions C14_sec1_accept_iff.

(* everything else is rejected with AssertionError or ValueError -- exactly what is_point catches -- so
   is_point is total and decides validity *)
Theorem C14_sec1_rejects : forall p a b, sec1_facts p a b ->
  forall bs e, sec1_point p a b bs = Err e -> e = AssertionE \/ e = ValueE.
Proof. intros p a b [SQ Ha Hb Hw N2]. exact (sec1_reject_class p a b SQ Ha Hb N2). Qed.
Print Assumptions C14_sec1_rejects.

Theorem C14_is_point_total : forall p a b, sec1_facts p a b ->
  forall bs, exists r, is_point p a b bs = Ok r /\
                       (r = true <-> exists x y, Spec.Sec1.valid_encoding p a b bs x y).
Proof. intros p a b [SQ Ha Hb Hw N2]. exact (is_point_total p a b SQ Ha Hb Hw N2). Qed.
Print Assumptions C14_is_point_total.

(* an in-range x whose right-hand side is a non-residue: the candidate is not a root and the final
   on-curve assert rejects *)
Theorem C14_sec1_nonresidue_rejected : forall p a b, sec1_facts p a b ->
  forall v X, length X = 32%nat -> v = x02 \/ v = x03 -> 0 <= of_be X < p ->
    (forall y, 0 <= y < p -> fpow p y 2 <> rhs p a b (of_be X)) ->
    sec1_point p a b (v :: X) = Err AssertionE.
Proof.
  intros p a b [SQ Ha Hb Hw N2] v X LX Hv Rx NR.
  exact (sec1_nonresidue_rejected p a b SQ Ha Hb Hw v X (N2 _ Rx) LX Hv Rx NR).
Qed.
Print Assumptions C14_sec1_nonresidue_rejected.

Theorem C14_compressed_pubkey : forall p a b, sec1_facts p a b ->
  forall X Y, Spec.Sec1.valid_encoding p a b (x04 :: X ++ Y) (of_be X) (of_be Y) ->
    length X = 32%nat -> length Y = 32%nat ->
    compressed_pubkey p a b (x04 :: X ++ Y) = Ok (Spec.Sec1.encode true (of_be X) (of_be Y)).
Proof. intros p a b [SQ Ha Hb Hw _]. exact (compressed_pubkey_04 p a b SQ Ha Hb Hw). Qed.
Print Assumptions C14_compressed_pubkey.

(* the command line `bits pubkey` (model of that branch of __main__.main) on 33/65-byte input: accepts exactly the
   valid encodings, answers pubkey(x, y, compressed) of the decoded point, refuses the rest in every flag combination *)
Theorem C14_cli_pubkey_iff : forall b64enc p a b n G, sec1_facts p a b ->
  forall data c out, length data = 33%nat \/ length data = 65%nat ->
  (cli_pubkey b64enc p a b n G data c false = Ok out <->
   exists x y, Spec.Sec1.valid_encoding p a b data x y /\ out = Spec.Sec1.encode c x y).
Proof. exact cli_pubkey_sec1_iff. Qed.
Print Assumptions C14_cli_pubkey_iff.

Theorem C14_cli_pubkey_refuses : forall b64enc p a b n G data c pem e,
  length data = 33%nat \/ length data = 65%nat ->
  sec1_point p a b data = Err e -> cli_pubkey b64enc p a b n G data c pem = Err e.
Proof. exact cli_pubkey_refuses. Qed.
Print Assumptions C14_cli_pubkey_refuses.

(* the premise holds outright on the three small curves *)
Theorem C14_facts_43 : sec1_facts 43 0 7. Proof. exact sec1_facts_43. Qed.
Theorem C14_facts_79 : sec1_facts 79 0 7. Proof. exact sec1_facts_79. Qed.
Theorem C14_facts_67 : sec1_facts 67 0 7. Proof. exact sec1_facts_67. Qed.
Print Assumptions C14_facts_67.

Corollary C14_sec1_accept_iff_43 : forall bs x y,
  sec1_point 43 0 7 bs = Ok (x, y) <-> Spec.Sec1.valid_encoding 43 0 7 bs x y.
Proof. exact (C14_sec1_accept_iff 43 0 7 sec1_facts_43). Qed.
Print Assumptions C14_sec1_accept_iff_43.
Corollary C14_is_point_total_79 : forall bs, exists r, is_point 79 0 7 bs = Ok r /\
  (r = true <-> exists x y, Spec.Sec1.valid_encoding 79 0 7 bs x y).
Proof. exact (C14_is_point_total 79 0 7 sec1_facts_79). Qed.
Print Assumptions C14_is_point_total_79.

(* ------------------------------- WIF ------------------------------- *)

(* 3 networks x 8 address types x any suffix: decoding the encoding returns the version byte, the key, the
   suffix, the address type and the network CLASS (regtest shares testnet's version bytes) *)
Theorem C14_wif_roundtrip : forall (sha256 : bytes -> bytes), (forall m, length (sha256 m) = 32%nat) ->
  forall n k ty net data base off,
    length k = 32%nat -> 1 <= of_be k < n ->
    lookup_str net Spec.Wif.network_base = Ok base -> lookup_str ty Spec.Wif.script_offset = Ok off ->
    exists w, wif_encode sha256 n k ty net data = Ok w /\
      wif_decode_full sha256 w = Ok ([z2b (base + off)], Spec.Wif.network_class net, ty, k, data) /\
      wif_decode sha256 w = Ok ([z2b (base + off)], k, data).
Proof. exact wif_roundtrip. Qed.
Print Assumptions C14_wif_roundtrip.

(* the encoder refuses invalid private keys (0, n, >= n, wrong length) and unknown names *)
Theorem C14_wif_encoder_refuses : forall (sha256 : bytes -> bytes) n k ty net data,
  (~ (length k = 32%nat /\ 1 <= of_be k < n) -> wif_encode sha256 n k ty net data = Err AssertionE) /\
  (length k = 32%nat -> 1 <= of_be k < n ->
   (forall v, lookup_str net Spec.Wif.network_base <> Ok v) \/ (forall v, lookup_str ty Spec.Wif.script_offset <> Ok v) ->
   wif_encode sha256 n k ty net data = Err KeyE).
Proof. intros. split; [apply wif_encode_bad_key | apply wif_encode_unknown_name]. Qed.
Print Assumptions C14_wif_encoder_refuses.

(* the decoder accepts exactly the checksum-valid Base58Check strings with a known version byte ... *)
Theorem C14_wif_accept_iff : forall (sha256 : bytes -> bytes) w ver net ty key data,
  wif_decode_full sha256 w = Ok (ver, net, ty, key, data) <->
  exists payload, base58check_decode sha256 w = Ok payload /\
    ver = firstn 1 payload /\ lookup_int (of_be ver) Spec.Wif.version_table = Ok (net, ty) /\
    key = slice 1 33 payload /\ data = skipn 33 payload.
Proof. exact wif_accept_iff. Qed.
Print Assumptions C14_wif_accept_iff.

(* ... everything else raises: the Base58Check error (KeyError: bad character; ValueError: checksum) or
   KeyError for a version byte outside 0x80..0x87, 0xEF..0xF6 *)
Theorem C14_wif_refuses : forall (sha256 : bytes -> bytes) w e, wif_decode_full sha256 w = Err e ->
  base58check_decode sha256 w = Err e /\ (e = KeyE \/ e = ValueE)
  \/ (exists payload, base58check_decode sha256 w = Ok payload /\ e = KeyE /\
        ~ (128 <= of_be (firstn 1 payload) <= 135 \/ 239 <= of_be (firstn 1 payload) <= 246)).
Proof. exact wif_refuses. Qed.
Print Assumptions C14_wif_refuses.

Theorem C14_wif_known_versions : forall v,
  (exists r, lookup_int v Spec.Wif.version_table = Ok r) <-> (128 <= v <= 135 \/ 239 <= v <= 246).
Proof. exact version_known_iff. Qed.
Print Assumptions C14_wif_known_versions.

(* ------------------------------- ASN.1 / PEM ------------------------------- *)

Theorem C14_asn1_roundtrip : forall ts bs fuel,
  Forall wf_node ts -> encode_nodes ts = Ok bs -> (length bs <= fuel)%nat -> parse_asn1 fuel bs = Ok ts.
Proof. exact asn1_roundtrip. Qed.
Print Assumptions C14_asn1_roundtrip.

Theorem C14_asn1_only_index_errors : forall data e, parse_asn1_top data = Err e -> e = IndexE.
Proof. exact parse_asn1_top_err. Qed.
Print Assumptions C14_asn1_only_index_errors.

(* the two trees pem_encode_key builds are in the round-trip domain *)
Theorem C14_asn1_key_trees : forall key pub,
  (length key = 32%nat -> length pub = 65%nat -> wf_node (priv_tree key pub)) /\
  (length pub = 33%nat \/ length pub = 65%nat -> wf_node (pub_tree pub)).
Proof.
  intros key pub. split; [intros Lk Lp; apply (priv_tree_ok key pub Lk Lp) | intros L; apply (pub_tree_ok pub L)].
Qed.
Print Assumptions C14_asn1_key_trees.

Section PemProps.
  Variable b64enc : bytes -> bytes.
  Variable b64dec : bytes -> option bytes.
  Hypothesis b64_roundtrip : forall x, b64dec (strip (encodebytes b64enc x)) = Some x.
  Hypothesis b64_clean : forall x c, In c (b64enc x) -> c <> x2d.

  (* public keys, both forms: PEM = BEGIN/END PUBLIC KEY around RFC 5480 SubjectPublicKeyInfo; decodes back *)
  Theorem C14_pem_roundtrip_pub : forall p a n G key, length key = 33%nat \/ length key = 65%nat ->
    exists pem,
      pem_encode_key b64enc p a n G key = Ok pem /\
      der_encode_key p a n G key = Ok (Spec.Rfc5915.subject_public_key_info key) /\
      pem = encode_pem b64enc (Spec.Rfc5915.subject_public_key_info key)
              (Spec.Rfc5915.pem_begin Spec.Rfc5915.label_public) (Spec.Rfc5915.pem_end Spec.Rfc5915.label_public) /\
      pem_decode_key b64dec pem = Ok [VBytes key] /\
      pubkey_from_pem b64dec pem = Ok (inr [VBytes key]).
  Proof. exact (pem_roundtrip_pub b64enc b64dec b64_roundtrip b64_clean). Qed.

  (* private keys incl. leading zero bytes: PEM = BEGIN/END EC PRIVATE KEY around RFC 5915 ECPrivateKey
     (version 1, 32-byte OCTET STRING, [0] secp256k1, [1] BIT STRING 00 || 04 || X || Y of k.G); decodes back *)
  Theorem C14_pem_roundtrip_priv : forall p a b n G, curve_facts p a b n G -> p <= 2 ^ 256 ->
    forall key, length key = 32%nat -> 1 <= of_be key < n ->
    exists pem x y,
      smul p a (of_be key) G = Some (x, y) /\
      let pub := Spec.Sec1.encode false x y in
      pem_encode_key b64enc p a n G key = Ok pem /\
      der_encode_key p a n G key = Ok (Spec.Rfc5915.ec_private_key key pub) /\
      pem = encode_pem b64enc (Spec.Rfc5915.ec_private_key key pub)
              (Spec.Rfc5915.pem_begin Spec.Rfc5915.label_private) (Spec.Rfc5915.pem_end Spec.Rfc5915.label_private) /\
      pem_decode_key b64dec pem = Ok [VBytes key; VBytes pub] /\
      pubkey_from_pem b64dec pem = Ok (inl (VBytes pub)).
  Proof. exact (pem_roundtrip_priv b64enc b64dec b64_roundtrip b64_clean). Qed.

  Theorem C14_pem_encoder_refuses : forall p a n G key,
    (length key = 32%nat -> ~ (1 <= of_be key < n) -> pem_encode_key b64enc p a n G key = Err AssertionE) /\
    (length key <> 32%nat -> length key <> 33%nat -> length key <> 65%nat ->
     pem_encode_key b64enc p a n G key = Err ValueE).
  Proof. exact (pem_encode_refuses b64enc). Qed.
End PemProps.
Print Assumptions C14_pem_roundtrip_pub.
Print Assumptions C14_pem_roundtrip_priv.
Print Assumptions C14_pem_encoder_refuses.

(* pem_is_rfc5915: the DER bytes are the RFC structures (part of the two theorems above; stated alone) *)
Theorem C14_pem_is_rfc5915 : forall p a b n G, curve_facts p a b n G -> p <= 2 ^ 256 ->
  forall key, length key = 32%nat -> 1 <= of_be key < n ->
  exists x y, smul p a (of_be key) G = Some (x, y) /\
    der_encode_key p a n G key = Ok (Spec.Rfc5915.ec_private_key key (Spec.Sec1.encode false x y)).
Proof.
  intros p a b n G CF Hw key Lk Rk.
  destruct (compute_point_ok p a b n G CF key Lk Rk) as (x & y & CP & ES & Rx & Ry).
  exists x, y. split; [exact ES|].
  assert (PK : pubkey x y false = Ok (Spec.Sec1.encode false x y)).
  { unfold pubkey, to_be_chk. change (256 ^ Z.of_nat 32) with (2 ^ 256).
    destruct (Z.leb_spec 0 x); [|lia]. destruct (Z.ltb_spec x (2 ^ 256)); [|lia].
    destruct (Z.leb_spec 0 y); [|lia]. destruct (Z.ltb_spec y (2 ^ 256)); [|lia]. reflexivity. }
  assert (Lp : length (Spec.Sec1.encode false x y) = 65%nat).
  { unfold Spec.Sec1.encode. cbn [length]. rewrite app_length, !to_be_length. reflexivity. }
  unfold der_encode_key. rewrite Lk. cbn [Nat.eqb]. rewrite CP. cbn [bind]. rewrite PK. cbn [bind].
  rewrite (proj2 (priv_tree_ok key _ Lk Lp)). now rewrite (priv_is_rfc5915 key _ Lk Lp).
Qed.
Print Assumptions C14_pem_is_rfc5915.

Theorem C14_pem_is_rfc5480 : forall p a n G key, length key = 33%nat \/ length key = 65%nat ->
  der_encode_key p a n G key = Ok (Spec.Rfc5915.subject_public_key_info key).
Proof.
  intros p a n G key L. destruct (pub_tree_ok key L) as [_ E].
  transitivity (encode_node (pub_tree key)).
  - unfold der_encode_key. destruct L as [L|L]; rewrite L; reflexivity.
  - rewrite E. f_equal. exact (pub_is_rfc5480 key L).
Qed.
Print Assumptions C14_pem_is_rfc5480.

(* ------------------------------- non-vacuity / vectors ------------------------------- *)
(* the curve premises are satisfiable: facts_43 (Proofs/SmallCurves.v), sec1_facts_43 above *)
Example C14_ex_curve_facts : curve_facts 43 0 7 31 G43 /\ 43 <= 2 ^ 256.
Proof. split; [exact facts_43 | vm_compute; discriminate]. Qed.

(* the doctest vector of utils.point / utils.pubkey on secp256k1 (computed through the model) *)
Definition ex_x : Z := 88828742484815144809405969644853584197652586004550817561544596238129398385750.
Definition ex_y : Z := 53299775652378523772666068229018059902560429447534834823349875811815397393717.
Example C14_ex_doctest :
  pubkey ex_x ex_y true = Ok (x03 :: to_be 32 ex_x) /\
  sec1_point Spec.Secp256k1.p Spec.Secp256k1.a Spec.Secp256k1.b (x03 :: to_be 32 ex_x) = Ok (ex_x, ex_y).
Proof. split; vm_compute; reflexivity. Qed.

(* the repaired defect: 65 bytes with prefix 02 (and 33 bytes with prefix 04) are rejected *)
Example C14_ex_length_prefix_coupled :
  sec1_point 43 0 7 (x02 :: to_be 32 2 ++ to_be 32 12) = Err AssertionE /\
  sec1_point 43 0 7 (x04 :: to_be 32 2) = Err AssertionE /\
  sec1_point 43 0 7 (x04 :: to_be 32 2 ++ to_be 32 12) = Ok (2, 12) /\
  sec1_point 43 0 7 (x02 :: to_be 32 2) = Ok (2, 12) /\
  sec1_point 43 0 7 (x03 :: to_be 32 2) = Ok (2, 31) /\
  sec1_point 43 0 7 (x02 :: to_be 32 43) = Err ValueE /\           (* x >= p *)
  sec1_point 43 0 7 (x02 :: to_be 32 1) = Err AssertionE /\        (* 1 + 7 = 8: non-residue mod 43 *)
  sec1_point 43 0 7 (Coq.Init.Byte.x06 :: to_be 32 2 ++ to_be 32 12) = Err ValueE.   (* hybrid form *)
Proof. vm_compute. repeat split; reflexivity. Qed.

(* WIF: all 3 networks and 8 types satisfy the lookup premises *)
Example C14_ex_wif_names :
  map fst Spec.Wif.network_base = [Spec.Wif.mainnet; Spec.Wif.testnet; Spec.Wif.regtest] /\
  length Spec.Wif.script_offset = 8%nat /\ length Spec.Wif.version_table = 16%nat /\
  Spec.Wif.network_class Spec.Wif.regtest = Spec.Wif.testnet /\
  Spec.Wif.network_class Spec.Wif.mainnet = Spec.Wif.mainnet.
Proof. vm_compute. repeat split; reflexivity. Qed.

(* FINDING (outside the OIDs the library writes): encode_oid sizes the base-128 form as (bit_length + 8) // 8 groups,
   one too few for bit lengths 15, 22, 23, 29..31, ...: the low bits are dropped and the OID does not round-trip *)
Example C14_ex_oid_roundtrip_refuted :
  encode_oid [1; 2; 16384] = Ok [x2a; xc0; x00] /\ parse_oid_nodes [x2a; xc0; x00] = Ok [1; 2; 8192] /\
  encode_oid [1; 2; 16383] = Ok [x2a; xff; x7f] /\ parse_oid_nodes [x2a; xff; x7f] = Ok [1; 2; 16383].
Proof. vm_compute. repeat split; reflexivity. Qed.

(* ASN.1: a DER signature shaped tree is in the domain; lengths >= 128 are read literally *)
Example C14_ex_asn1 :
  parse_asn1_top [x30; x06; x02; x01; x05; x02; x01; x07]
  = Ok [Node (Tag 16 true 0) 6 (VList [Node (Tag 2 false 0) 1 (VBytes [x05]); Node (Tag 2 false 0) 1 (VBytes [x07])])] /\
  parse_asn1_top [x04; x81; x01] = Ok [Node (Tag 4 false 0) 129 (VBytes [x01])].
Proof. vm_compute. split; reflexivity. Qed.
