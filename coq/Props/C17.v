(* C17 - P2P wire: framing survives fragmentation, detects corruption, terminates at EOF; payload codecs invert.
   Only the property theorems (closed by [exact]), their assumptions, and non-vacuity examples.
   Models: Model/P2pFrame.v (recv_msg, msg_ser over a scripted socket), Model/P2pCodec.v (payload codecs).
   [sha256] is an arbitrary function with 32-byte output; [fuel] = number of recv calls allowed (Err FuelE = still
   looping after that many calls); a schedule is a list of chunk sizes, [pos_sched] = all positive. *)
From Coq Require Import ZArith List Bool.
Require Import Bits.Lib.Result Bits.Lib.Bytes Bits.Lib.CompactSize Bits.Spec.P2p.
Require Import Bits.Model.CompactSize Bits.Model.P2pFrame Bits.Model.P2pCodec.
Require Import Bits.Proofs.P2pFrame Bits.Proofs.P2pCodec Bits.Proofs.P2pCodec2.
Require Import Bits.Spec.P2pNet Bits.Model.P2pSession Bits.Proofs.P2pSession.
Require Import Bits.Model.P2pTables Bits.Proofs.P2pTables.
Import ListNotations.
Local Open Scope Z_scope.

(* ---------------------------------------------------------------------------------- framing *)

(* A serialised message followed by ANY bytes, delivered in ANY fragmentation (positive chunks), is received as
   exactly (magic, command, payload); the socket is left at exactly [rest] (no over-read: messages do not bleed);
   at most 24 + |payload| recv calls are made. *)
Theorem C17_frame_any_fragmentation :
  forall (sha256 : bytes -> bytes), (forall m, length (sha256 m) = 32%nat) ->
  forall magic c p rest sch fuel,
    length magic = 4%nat -> In c commands -> zlen p <= max_size ->
    pos_sched sch -> (24 + length p <= fuel)%nat ->
    exists fr sch' f',
      msg_ser sha256 magic c p = Ok fr /\
      recv_msg sha256 fuel magic (fr ++ rest, sch) = Ok ((magic, c, p), (rest, sch'), f') /\
      (fuel <= f' + 24 + length p)%nat /\ pos_sched sch' /\ exists j, sch' = skipn j sch.
Proof. exact frame_any_fragmentation. Qed.
Print Assumptions C17_frame_any_fragmentation.

(* any number of back-to-back messages, any fragmentation: received one by one, in order, nothing else consumed *)
Theorem C17_back_to_back :
  forall (sha256 : bytes -> bytes), (forall m, length (sha256 m) = 32%nat) ->
  forall magic (msgs : list (bytes * bytes)) frames rest sch fuel,
    length magic = 4%nat -> pos_sched sch ->
    mapM (fun cp => msg_ser sha256 magic (fst cp) (snd cp)) msgs = Ok frames ->
    Forall (fun cp : bytes * bytes => (24 + length (snd cp) <= fuel)%nat) msgs ->
    exists sch', pos_sched sch' /\
      recv_msgs sha256 (length msgs) fuel magic (concat frames ++ rest, sch)
      = Ok (map (fun cp => (magic, fst cp, snd cp)) msgs, (rest, sch')).
Proof. exact back_to_back. Qed.
Print Assumptions C17_back_to_back.

(* msg_ser accepts exactly the commands of the table with payloads up to MAX_SIZE *)
Theorem C17_msg_ser_domain :
  forall (sha256 : bytes -> bytes) m c p,
    (In c commands /\ zlen p <= max_size ->
       msg_ser sha256 m c p = Ok (frame m (pad12 c) (to_le 4 (zlen p)) (checksum4 sha256 p) p)) /\
    (~ (In c commands /\ zlen p <= max_size) -> msg_ser sha256 m c p = Err ValueE).
Proof. intros sha256 m c p. split; [intros [H1 H2]; now apply msg_ser_ok | apply msg_ser_rejects]. Qed.
Print Assumptions C17_msg_ser_domain.

(* whatever recv_msg accepts (any stream, any schedule, any fuel) is a frame at the head of the stream whose start
   string is the expected magic, whose checksum field is hash256(payload)[:4] and whose length field is |payload|;
   the socket has advanced by exactly that frame *)
Theorem C17_accepted_is_consistent :
  forall (sha256 : bytes -> bytes) fuel magic st sch m c p st' sch' f',
    recv_msg sha256 fuel magic (st, sch) = Ok ((m, c, p), (st', sch'), f') ->
    exists hdr, st = hdr ++ p ++ st' /\ length hdr = 24%nat /\ m = magic /\ firstn 4 hdr = magic
      /\ c = rstrip0 (slice 4 16 hdr) /\ of_le (slice 16 20 hdr) = zlen p
      /\ slice 20 24 hdr = checksum4 sha256 p /\ (fuel <= f' + 24 + length p)%nat.
Proof. exact recv_msg_ok_inv. Qed.
Print Assumptions C17_accepted_is_consistent.

(* corruption of one header field / of the payload of an otherwise well-formed frame (this covers every single-bit
   flip inside that region): rejected with ValueError.  [frame m cmd lenb chk body] = m ++ cmd ++ lenb ++ chk ++ body *)
Theorem C17_flip_magic_rejected :
  forall (sha256 : bytes -> bytes), (forall m, length (sha256 m) = 32%nat) ->
  forall magic magic' c p rest sch fuel,
    length magic' = 4%nat -> magic' <> magic -> In c commands -> zlen p <= max_size ->
    pos_sched sch -> (24 + length p <= fuel)%nat ->
    recv_msg sha256 fuel magic
      (frame magic' (pad12 c) (to_le 4 (zlen p)) (checksum4 sha256 p) p ++ rest, sch) = Err ValueE.
Proof. exact flip_magic_rejected. Qed.
Print Assumptions C17_flip_magic_rejected.

Theorem C17_flip_checksum_rejected :
  forall (sha256 : bytes -> bytes) magic c p chk' rest sch fuel,
    length magic = 4%nat -> length chk' = 4%nat -> chk' <> checksum4 sha256 p -> In c commands ->
    zlen p <= max_size -> pos_sched sch -> (24 + length p <= fuel)%nat ->
    recv_msg sha256 fuel magic (frame magic (pad12 c) (to_le 4 (zlen p)) chk' p ++ rest, sch) = Err ValueE.
Proof. exact flip_checksum_rejected. Qed.
Print Assumptions C17_flip_checksum_rejected.

(* explicit hypothesis: no 32-bit checksum collision between the sent and the received payload bytes *)
Theorem C17_flip_payload_rejected :
  forall (sha256 : bytes -> bytes), (forall m, length (sha256 m) = 32%nat) ->
  forall magic c p p' rest sch fuel,
    length magic = 4%nat -> length p' = length p -> checksum4 sha256 p' <> checksum4 sha256 p ->
    In c commands -> zlen p <= max_size -> pos_sched sch -> (24 + length p <= fuel)%nat ->
    recv_msg sha256 fuel magic
      (frame magic (pad12 c) (to_le 4 (zlen p)) (checksum4 sha256 p) p' ++ rest, sch) = Err ValueE.
Proof. exact flip_payload_rejected. Qed.
Print Assumptions C17_flip_payload_rejected.

(* a changed length field makes the receiver take L' bytes of whatever follows as the payload (or hit the end of the
   stream): rejected with ValueError or ConnectionError, under the same no-collision hypothesis for those L' bytes *)
Theorem C17_flip_length_rejected :
  forall (sha256 : bytes -> bytes), (forall m, length (sha256 m) = 32%nat) ->
  forall magic c p lenb' rest sch fuel,
    length magic = 4%nat -> length lenb' = 4%nat -> of_le lenb' <> zlen p ->
    In c commands -> zlen p <= max_size -> pos_sched sch ->
    (24 + length p + length rest < fuel)%nat ->
    checksum4 sha256 (firstn (Z.to_nat (of_le lenb')) (p ++ rest)) <> checksum4 sha256 p ->
    let r := recv_msg sha256 fuel magic (frame magic (pad12 c) lenb' (checksum4 sha256 p) p ++ rest, sch) in
    r = Err ValueE \/ r = Err ConnE.
Proof. exact flip_length_rejected. Qed.
Print Assumptions C17_flip_length_rejected.

(* the 12-byte command field is outside the checksum by protocol design: any other field value is accepted and
   yields that other command (NUL-stripped) with the unchanged payload *)
Theorem C17_flip_command_passes :
  forall (sha256 : bytes -> bytes), (forall m, length (sha256 m) = 32%nat) ->
  forall magic cmd' p rest sch fuel,
    length magic = 4%nat -> length cmd' = 12%nat -> zlen p <= max_size ->
    pos_sched sch -> (24 + length p <= fuel)%nat ->
    exists sch' f',
      recv_msg sha256 fuel magic (frame magic cmd' (to_le 4 (zlen p)) (checksum4 sha256 p) p ++ rest, sch)
      = Ok ((magic, rstrip0 cmd', p), (rest, sch'), f').
Proof. exact flip_command_passes. Qed.
Print Assumptions C17_flip_command_passes.

(* termination: for EVERY stream and EVERY schedule recv_msg makes at most |stream| + 1 recv calls *)
Theorem C17_recv_msg_terminates :
  forall (sha256 : bytes -> bytes) fuel magic st sch,
    (length st < fuel)%nat -> recv_msg sha256 fuel magic (st, sch) <> Err FuelE.
Proof. exact recv_msg_terminates. Qed.
Print Assumptions C17_recv_msg_terminates.

(* the peer closes the connection before a message is complete (fewer than 24 bytes, or fewer payload bytes than
   declared): ConnectionError within |stream| + 1 recv calls *)
Theorem C17_eof_terminates :
  forall (sha256 : bytes -> bytes) fuel magic st sch,
    pos_sched sch -> truncated st -> (length st < fuel)%nat ->
    recv_msg sha256 fuel magic (st, sch) = Err ConnE.
Proof. exact recv_msg_short. Qed.
Print Assumptions C17_eof_terminates.

(* ... in particular at every byte offset k inside a serialised message *)
Theorem C17_eof_every_offset :
  forall (sha256 : bytes -> bytes), (forall m, length (sha256 m) = 32%nat) ->
  forall magic c p fr k sch fuel,
    length magic = 4%nat -> msg_ser sha256 magic c p = Ok fr -> (k < length fr)%nat ->
    pos_sched sch -> (k < fuel)%nat ->
    recv_msg sha256 fuel magic (firstn k fr, sch) = Err ConnE.
Proof. exact eof_every_offset. Qed.
Print Assumptions C17_eof_every_offset.

(* ---------------------------------------------------------------------------------- module state *)
(* set_magic_start_bytes either selects the start string of the (case-insensitively) named network ... *)
Theorem C17_set_magic_accepts :
  forall network cur m, network_magic network = Some m ->
    set_magic_start_bytes network cur = (Ok true, m) /\ In (map ascii_lower network, m) network_magics.
Proof. exact set_magic_accepts. Qed.
Print Assumptions C17_set_magic_accepts.

(* ... or is refused, and a refused call leaves the global exactly as it was *)
Theorem C17_set_magic_refused_no_trace :
  forall network cur e cur', set_magic_start_bytes network cur = (Err e, cur') ->
    cur' = cur /\ network_magic network = None.
Proof. exact set_magic_refused_no_trace. Qed.
Print Assumptions C17_set_magic_refused_no_trace.

(* sessions of select / receive / serialise calls: inserting a REFUSED call (unknown network, non-string argument,
   msg_ser that raises) anywhere changes neither the outcome of any other call nor the final state *)
Theorem C17_refused_call_transparent :
  forall (sha256 : bytes -> bytes) cur a s b, refused sha256 (snd (session sha256 cur a)) s ->
    session sha256 cur (a ++ s :: b) =
    (fst (session sha256 cur a) ++ fst (run_step sha256 (snd (session sha256 cur a)) s)
       :: fst (session sha256 (snd (session sha256 cur a)) b),
     snd (session sha256 cur (a ++ b))).
Proof. exact refused_call_transparent. Qed.
Print Assumptions C17_refused_call_transparent.

(* select a network, any number of refused calls, then a message framed for that network in any fragmentation: received *)
Theorem C17_select_refuse_receive :
  forall (sha256 : bytes -> bytes), (forall m, length (sha256 m) = 32%nat) ->
  forall cur network m junk c p rest sch fuel,
    network_magic network = Some m -> Forall (fun s => forall cur', refused sha256 cur' s) junk ->
    In c commands -> zlen p <= max_size -> pos_sched sch -> (24 + length p <= fuel)%nat ->
    exists fr os, msg_ser sha256 m c p = Ok fr /\
      session sha256 cur (SSelect network :: junk ++ [SRecv fuel (fr ++ rest) sch])
      = (OSelect (Ok true) :: os ++ [ORecv (Ok (m, c, p, rest))], m).
Proof. exact select_refuse_receive. Qed.
Print Assumptions C17_select_refuse_receive.

(* ---------------------------------------------------------------------------------- codecs *)

(* version: the builder succeeds exactly on in-range arguments (OverflowError otherwise) and the parser returns the
   values it was built from (fixed user agent b"/bits:0.1.0/", nonce 0, both addresses "::ffff:127.0.0.1") *)
Theorem C17_codec_roundtrip_version :
  forall ts sh rp tp pv sv relay, version_args_ok ts sh rp tp pv sv ->
  exists payload, version_payload ts sh rp tp pv sv relay = Ok payload /\
    parse_version_payload payload = Ok (parsed_of_msg (built_msg ts sh rp tp pv sv relay) relay).
Proof. exact codec_roundtrip_version. Qed.
Print Assumptions C17_codec_roundtrip_version.

Theorem C17_version_payload_domain :
  forall ts sh rp tp pv sv relay, ~ version_args_ok ts sh rp tp pv sv ->
    version_payload ts sh rp tp pv sv relay = Err OverflowE.
Proof. exact version_payload_overflow. Qed.
Print Assumptions C17_version_payload_domain.

(* the parser against the REFERENCE encoding of a version message with any field values, empty or non-empty user
   agent: inverts it whenever both address fields are ASCII-decodable, |user agent| < 253, relay byte present *)
Theorem C17_parse_version_spec :
  forall m r, version_msg_wf m -> is_ascii (m_recv_ip m) = true -> is_ascii (m_trans_ip m) = true ->
    (length (m_user_agent m) < 253)%nat -> m_relay m = Some r ->
    parse_version_payload (spec_version_payload m) = Ok (parsed_of_msg m r).
Proof. exact parse_version_spec. Qed.
Print Assumptions C17_parse_version_spec.

(* ... and NOT beyond those premises (findings; each premise is necessary) *)
Theorem C17_parse_version_long_user_agent_refuted :
  exists m r, version_msg_wf m /\ is_ascii (m_recv_ip m) = true /\ is_ascii (m_trans_ip m) = true /\
    length (m_user_agent m) = 253%nat /\ m_relay m = Some r /\
    parse_version_payload (spec_version_payload m) = Err ValueE.
Proof. exact parse_version_long_user_agent_refuted. Qed.
Print Assumptions C17_parse_version_long_user_agent_refuted.

Theorem C17_parse_version_without_relay_refuted :
  exists m, version_msg_wf m /\ is_ascii (m_recv_ip m) = true /\ is_ascii (m_trans_ip m) = true /\
    (length (m_user_agent m) < 253)%nat /\ m_relay m = None /\
    parse_version_payload (spec_version_payload m) = Err IndexE.
Proof. exact parse_version_without_relay_refuted. Qed.
Print Assumptions C17_parse_version_without_relay_refuted.

Theorem C17_parse_version_binary_ip_refuted :
  exists m r, version_msg_wf m /\ (length (m_user_agent m) < 253)%nat /\ m_relay m = Some r /\
    parse_version_payload (spec_version_payload m) = Err ValueE.
Proof. exact parse_version_binary_ip_refuted. Qed.
Print Assumptions C17_parse_version_binary_ip_refuted.

Theorem C17_codec_roundtrip_ping :
  forall nonce, 0 <= nonce < 2 ^ 64 ->
  exists p, ping_payload nonce = Ok p /\ length p = 8%nat /\ parse_ping_payload p = nonce.
Proof. exact codec_roundtrip_ping. Qed.
Print Assumptions C17_codec_roundtrip_ping.

(* getheaders: any number of 32-byte hashes (count crossing 252/253, 2^16, ...), hash_count = their number *)
Theorem C17_codec_roundtrip_getheaders :
  forall pv hs stop,
    0 <= pv < 2 ^ 32 -> hashes_ok hs -> length stop = 32%nat -> Z.of_nat (length hs) < 2 ^ 64 ->
  exists p, getheaders_payload pv (Z.of_nat (length hs)) hs stop = Ok p /\
    parse_getheaders_payload p
    = Ok (pv, Z.of_nat (length hs), match hs with [] => None | _ => Some hs end, stop).
Proof. exact codec_roundtrip_getheaders. Qed.
Print Assumptions C17_codec_roundtrip_getheaders.

(* inv: every inventory type of the table, 32-byte hashes, count = number of entries *)
Theorem C17_codec_roundtrip_inv :
  forall items, Forall inv_item_ok items -> Z.of_nat (length items) < 2 ^ 64 ->
  exists sers p, mapM inv_ser items = Ok sers /\ inv_payload (Z.of_nat (length items)) sers = Ok p /\
    parse_inv_payload p = Ok (Z.of_nat (length items), items).
Proof. exact codec_roundtrip_inv. Qed.
Print Assumptions C17_codec_roundtrip_inv.

(* addr: entries (time, 8-byte services, 16-byte address, port), count = number of entries *)
Theorem C17_codec_roundtrip_addr :
  forall addrs, Forall addr_ok addrs -> Z.of_nat (length addrs) < 2 ^ 64 ->
  exists sers p, mapM addr_ser addrs = Ok sers /\ addr_payload (Z.of_nat (length addrs)) sers = Ok p /\
    parse_addr_payload p = Ok addrs.
Proof. exact codec_roundtrip_addr. Qed.
Print Assumptions C17_codec_roundtrip_addr.

(* ---------------------------------------------------------------------------------- tables read at call time *)
(* INVENTORY_TYPE_ID and COMMANDS are read when the codecs are CALLED, so entries registered after import take part.
   The table-parametrised functions are the fixed-table ones at the reference tables ... *)
Theorem C17_tables_reference :
  (forall t h, inventory_in inventory_type_id t h = inventory t h) /\
  (forall b, parse_inventory_in inventory_type_id b = parse_inventory b) /\
  (forall p, parse_inv_payload_in inventory_type_id p = parse_inv_payload p) /\
  (forall sha m c p, msg_ser_in sha commands m c p = msg_ser sha m c p) /\
  table_okb inventory_type_id = true.
Proof.
  exact (conj inventory_in_ref (conj parse_inventory_in_ref (conj parse_inv_payload_in_ref
        (conj msg_ser_in_ref reference_table_ok)))).
Qed.
Print Assumptions C17_tables_reference.

(* ... and for EVERY usable inventory table (upper-case names, 32-bit values, no value shared by two names) every
   type the table lets one build is parsed back to the values it was built from *)
Theorem C17_codec_roundtrip_inv_any_table :
  forall tbl, table_okb tbl = true ->
  forall items, Forall (inv_item_ok_in tbl) items -> Z.of_nat (length items) < 2 ^ 64 ->
  exists sers p, mapM (inv_ser_in tbl) items = Ok sers /\ inv_payload (Z.of_nat (length items)) sers = Ok p /\
    parse_inv_payload_in tbl p = Ok (Z.of_nat (length items), items).
Proof. exact codec_roundtrip_inv_in. Qed.
Print Assumptions C17_codec_roundtrip_inv_any_table.

(* every command present in COMMANDS at the time of the call that fits the 12-byte field is framed and received *)
Theorem C17_frame_any_command_table :
  forall (sha256 : bytes -> bytes), (forall m, length (sha256 m) = 32%nat) ->
  forall cmds magic c p rest sch fuel,
    length magic = 4%nat -> In c cmds -> cmd_ok c -> zlen p <= max_size ->
    pos_sched sch -> (24 + length p <= fuel)%nat ->
    exists fr sch' f', msg_ser_in sha256 cmds magic c p = Ok fr /\
      recv_msg sha256 fuel magic (fr ++ rest, sch) = Ok ((magic, c, p), (rest, sch'), f').
Proof. exact frame_any_fragmentation_in. Qed.
Print Assumptions C17_frame_any_command_table.

(* ---------------------------------------------------------------------------------- non-vacuity / vectors *)
Import Coq.Init.Byte.

(* a toy "hash" with 32-byte output, only to run the model inside Coq *)
Definition toy_hash (m : bytes) : bytes :=
  to_le 32 (fold_left (fun acc b => (acc * 1000003 + b2z b + 1) mod 2 ^ 256) m 12345).
Example C17_ex_toy_hash_len : forall m, length (toy_hash m) = 32%nat.
Proof. intros m. apply to_le_length. Qed.

Definition ex_ping : bytes := [x70;x69;x6e;x67].
Definition ex_payload : bytes := [x01;x02;x03;x04;x05;x06;x07;x08].

(* a ping message followed by one stray byte, cut into chunks 1,2,3,1,5,7,2,... : received intact, the stray byte
   is left in the socket, 11 recv calls used out of 32 *)
Example C17_ex_fragmented :
  match msg_ser toy_hash mainnet_start ex_ping ex_payload with
  | Ok fr => recv_msg toy_hash 32 mainnet_start (fr ++ [xaa], [1;2;3;1;5;7;2;100;3;3;3])
             = Ok ((mainnet_start, ex_ping, ex_payload), ([xaa], []), 21%nat)
  | Err _ => False
  end.
Proof. vm_compute. reflexivity. Qed.

(* the hypotheses of the rejection theorems are satisfiable: wrong network, flipped payload bit, flipped length *)
Example C17_ex_rejections :
  match msg_ser toy_hash testnet_start ex_ping ex_payload with
  | Ok fr => recv_msg toy_hash 64 mainnet_start (fr, []) = Err ValueE
  | Err _ => False
  end
  /\ checksum4 toy_hash [x01;x02;x03;x04;x05;x06;x07;x09] <> checksum4 toy_hash ex_payload
  /\ recv_msg toy_hash 64 mainnet_start
       (frame mainnet_start (pad12 ex_ping) (to_le 4 8) (checksum4 toy_hash ex_payload)
              [x01;x02;x03;x04;x05;x06;x07;x09], []) = Err ValueE
  /\ recv_msg toy_hash 64 mainnet_start
       (frame mainnet_start (pad12 ex_ping) (to_le 4 9) (checksum4 toy_hash ex_payload) ex_payload, [2;2]) = Err ConnE.
Proof. vm_compute. repeat split; try reflexivity; try (intros H; discriminate H). Qed.

(* EOF after 30 of 32 bytes: ConnectionError on the 4th recv call (fuel 31 suffices; 3 calls do not) *)
Example C17_ex_eof :
  match msg_ser toy_hash mainnet_start ex_ping ex_payload with
  | Ok fr => recv_msg toy_hash 31 mainnet_start (firstn 30 fr, [24; 3; 100]) = Err ConnE
             /\ recv_msg toy_hash 3 mainnet_start (firstn 30 fr, [24; 3; 100]) = Err FuelE
  | Err _ => False
  end.
Proof. vm_compute. split; reflexivity. Qed.

(* codecs on concrete values: hash count 253 crosses the CompactSize boundary *)
Example C17_ex_getheaders_253 :
  let hs := map (fun i => repeat (z2b (Z.of_nat i)) 32) (seq 0 253) in
  match getheaders_payload 70015 253 hs (repeat x00 32) with
  | Ok p => parse_getheaders_payload p = Ok (70015, 253, Some hs, repeat x00 32) /\ length p = (4 + 3 + 253 * 32 + 32)%nat
  | Err _ => False
  end.
Proof. vm_compute. split; reflexivity. Qed.

Example C17_ex_version :
  match version_payload 1700000000 5 8333 18444 70015 1 true with
  | Ok p => length p = 98%nat /\
            rmap (fun v => (v_user_agent v, v_start_height v, v_relay v, v_trans_port v)) (parse_version_payload p)
            = Ok (Some user_agent_const, 5, Some true, 18444)
  | Err _ => False
  end.
Proof. vm_compute. split; reflexivity. Qed.

Example C17_ex_inv_addr :
  (exists a b, inventory [x6d;x73;x67;x5f;x74;x78] (repeat x11 32) = Ok a                  (* "msg_tx" *)
     /\ inventory (fst (nth 5 inventory_type_id ([], 0))) (repeat x22 32) = Ok b            (* MSG_WITNESS_BLOCK *)
     /\ rmap fst (bind (inv_payload 2 [a; b]) parse_inv_payload) = Ok 2)
  /\ bind (network_ip_addr 5 (repeat x01 8) ipv4_mapped_localhost 8333)
          (fun a => bind (addr_payload 1 [a]) parse_addr_payload)
     = Ok [(5, repeat x01 8, ipv4_mapped_localhost, 8333)].
Proof. split; [eexists; eexists; repeat split; vm_compute; reflexivity | vm_compute; reflexivity]. Qed.

(* "MainNet" selects mainnet; "main" / "" are refused and leave regtest selected; a regtest ping is then still received *)
Example C17_ex_session :
  match msg_ser toy_hash regtest_start ex_ping ex_payload with
  | Ok fr =>
    session toy_hash testnet_start
      [SSelect [x52;x65;x67;x54;x65;x73;x74]; SSelect [x6d;x61;x69;x6e]; SSelectBadType; SSelect []; SRecv 40 fr [3;30]]
    = ([OSelect (Ok true); OSelect (Err ValueE); OSelect (Err AttributeE); OSelect (Err ValueE);
        ORecv (Ok (regtest_start, ex_ping, ex_payload, []))], regtest_start)
  | Err _ => False
  end.
Proof. vm_compute. reflexivity. Qed.

(* BIP339's MSG_WTX = 5 registered after import: usable table, built and parsed back *)
Example C17_ex_registered_type :
  let tbl := inventory_type_id ++ [([x4d;x53;x47;x5f;x57;x54;x58], 5)] in
  table_okb tbl = true /\
  bind (inventory_in tbl [x6d;x73;x67;x5f;x77;x74;x78] (repeat x33 32)) (parse_inventory_in tbl)
  = Ok ([x4d;x53;x47;x5f;x57;x54;x58], repeat x33 32).
Proof. vm_compute. split; reflexivity. Qed.
