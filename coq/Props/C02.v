(* C02 - ECDSA verification accepts exactly what the verification equation accepts.
   [curve_facts] (and [curve_facts_x] for the malleability corollary) are explicit premises for secp256k1,
   proved by computation for the small curves. *)
From Coq Require Import ZArith List Bool Lia.
Require Import Bits.Lib.Result Bits.Lib.Bytes Bits.Model.Ecmath Bits.Model.Sec1 Bits.Model.Der
  Bits.Proofs.Ecmath Bits.Proofs.Ecdsa Bits.Proofs.EcdsaMore Bits.Proofs.EcdsaNonce Bits.Proofs.SigVerify
  Bits.Spec.Bip66 Bits.Proofs.Der Bits.Proofs.SmallCurves.
Import ListNotations.
Local Open Scope Z_scope.

(* valid exactly when r, s in [1, n-1] and x(z/s G + r/s Q) mod n = r (for a curve point Q) *)
Theorem C02_verify_iff : forall p a b n G, curve_facts p a b n G ->
  forall r s Q z, oncurve p a b Q ->
  (verify p a b n G r s Q z = Ok true <-> spec_verify p a n G r s Q z = true).
Proof. exact verify_iff. Qed.
Print Assumptions C02_verify_iff.

(* ... and in every other case it raises: it never reports success, for ANY inputs at all *)
Theorem C02_verify_never_false : forall p a b n G r s Q z, verify p a b n G r s Q z <> Ok false.
Proof. exact verify_never_false. Qed.
Print Assumptions C02_verify_never_false.

Theorem C02_verify_rejects : forall p a b n G, curve_facts p a b n G ->
  forall r s Q z, oncurve p a b Q -> spec_verify p a n G r s Q z = false ->
  exists e, verify p a b n G r s Q z = Err e.
Proof. exact verify_rejects. Qed.
Print Assumptions C02_verify_rejects.

Theorem C02_verify_range : forall p a b n G r s Q z,
  ~ (1 <= r < n /\ 1 <= s < n) -> verify p a b n G r s Q z = Err AssertionE.
Proof. exact verify_range. Qed.
Print Assumptions C02_verify_range.

(* the wrapper: "OK" exactly when the DER part decodes to (r, s), the key is a valid SEC1 point and the equation
   holds for z = HASH256(msg || flag) - so any change of message, flag byte, key or signature is accepted only
   if the changed tuple itself satisfies the equation; sha256 is arbitrary *)
Theorem C02_sig_verify_iff : forall p a b n G sha256, curve_facts p a b n G ->
  forall sg pk msg pre,
  sig_verify p a b n G sha256 sg pk msg pre = Ok true <->
  exists body fl r s x y,
    sg = body ++ [fl] /\ der_decode_sig body = Ok (r, s) /\ sec1_point p a b pk = Ok (x, y) /\
    spec_verify p a n G r s (Some (x, y))
      (of_be (hash256 sha256 (if pre then msg else msg ++ to_le 4 (b2z fl)))) = true.
Proof. intros p a b n G sha256 CF. exact (sig_verify_iff p a b n G sha256 CF). Qed.
Print Assumptions C02_sig_verify_iff.

(* s -> n - s is the one systematic alteration that stays valid *)
Theorem C02_malleated_s : forall p a b n G, curve_facts p a b n G -> curve_facts_x p a b n G ->
  forall r s Q z, oncurve p a b Q -> 1 <= s < n ->
  spec_verify p a n G r (n - s) Q z = spec_verify p a n G r s Q z.
Proof. exact malleated_s. Qed.
Print Assumptions C02_malleated_s.

(* the low-S helper returns strict DER with the same r and the low representative of s (hence, by
   C02_malleated_s, a signature valid for the same data) *)
Theorem C02_low_s_helper : forall n r s sg, 2 < n <= 2 ^ 256 ->
  1 <= r < 2^256 -> 1 <= s < n -> der_encode_sig r s = Ok sg ->
  exists out, ensure_sig_low_s n sg = Ok out /\
    exists s', (s' = s \/ s' = n - s) /\ 1 <= s' <= n / 2 /\ der_decode_sig out = Ok (r, s') /\
               (forall flag, bip66_valid (out ++ [flag]) = true).
Proof. exact ensure_low_s_spec. Qed.
Print Assumptions C02_low_s_helper.

Theorem C02_premises_hold_on_small_curves :
  curve_facts 43 0 7 31 G43 /\ curve_facts_x 43 0 7 31 G43.
Proof. exact (conj facts_43 facts_x_43). Qed.
(* the same for (p, n) = (79, 67) and (67, 79): Props/SmallCurvesAll.v (minutes of kernel computation) *)

(* the infinity case: u1 G + u2 Q = infinity is an error (TypeError in the code), not a success *)
Example C02_ex_infinity_43 :
  exists r s z, verify 43 0 7 31 G43 r s (smul 43 0 3 G43) z = Err TypeE.
Proof. exists 12, 10, (31 - (12 * 3) mod 31). vm_compute. reflexivity. Qed.
