(* C04 - Reported txid and wtxid are the consensus transaction identifiers, independent of trailing bytes.
   Only the property theorems (closed by [exact]) with their assumptions, and examples.
   [sha256] is an ARBITRARY function (hashlib answers it at run time); hash256 m = sha256 (sha256 m).
   spec_ser_original / spec_ser are the BIP141 original / complete serialisations (Spec/Tx.v via
   Proofs/TxSpec.v); the sequence numbers in them are the transaction's own (ti_seq). *)
From Coq Require Import ZArith List Lia.
Require Import Bits.Lib.Result Bits.Lib.Bytes Bits.Lib.CompactSize Bits.Spec.Tx.
Require Import Bits.Model.CompactSize Bits.Model.Witness Bits.Model.Tx.
Require Import Bits.Proofs.Tx Bits.Proofs.TxSpec Bits.Proofs.TxTotal.
Import ListNotations.
Import Coq.Init.Byte.
Local Open Scope Z_scope.

(* for every well-formed transaction followed by ANY bytes, tx_deser reports
   txid = HASH256(original format), wtxid = HASH256(complete serialisation), raw = the transaction's own
   bytes, and leaves exactly the trailing bytes *)
Theorem C04_txid_consensus : forall (sha256 : bytes -> bytes) t, wf_tx t -> forall rest,
  exists d, tx_deser sha256 (spec_ser t ++ rest) = Ok (d, rest) /\
    p_txid d = hash256 sha256 (spec_ser_original t) /\
    p_wtxid d = hash256 sha256 (spec_ser t) /\
    p_raw d = spec_ser t /\ p_tx d = t.
Proof. exact txid_consensus. Qed.
Print Assumptions C04_txid_consensus.

(* the code's own serialiser produces these formats (so the statement above is about tx_ser t too) *)
Theorem C04_serialiser_is_spec : forall t, wf_tx t ->
  tx_ser t = Ok (spec_ser t) /\ tx_ser_nowit t = Ok (spec_ser_original t).
Proof. exact tx_ser_is_spec. Qed.
Print Assumptions C04_serialiser_is_spec.

Theorem C04_legacy_ids_equal : forall (sha256 : bytes -> bytes) t, wf_tx t -> tx_wits t = None ->
  forall rest d rest', tx_deser sha256 (spec_ser t ++ rest) = Ok (d, rest') -> p_txid d = p_wtxid d.
Proof. exact legacy_ids_equal. Qed.
Print Assumptions C04_legacy_ids_equal.

Theorem C04_ids_independent_of_trailing : forall (sha256 : bytes -> bytes) t, wf_tx t ->
  forall rest1 rest2 d1 d2 r1 r2,
    tx_deser sha256 (spec_ser t ++ rest1) = Ok (d1, r1) ->
    tx_deser sha256 (spec_ser t ++ rest2) = Ok (d2, r2) ->
    d1 = d2 /\ r1 = rest1 /\ r2 = rest2.
Proof. exact ids_independent_of_trailing. Qed.
Print Assumptions C04_ids_independent_of_trailing.

(* every successful parse consumes at least one byte (what block_deser's loop relies on) *)
Theorem C04_tx_deser_consumes : forall (sha256 : bytes -> bytes) bs p rest,
  tx_deser sha256 bs = Ok (p, rest) -> (length rest < length bs)%nat.
Proof. exact tx_deser_consumes. Qed.
Print Assumptions C04_tx_deser_consumes.

(* ---------------- non-vacuity: a segwit transaction with non-final sequence numbers, followed by a copy
   of its own last four bytes; toy hash = reverse (so that the ids are visible) ---------------- *)
Definition ex_t : tx_t :=
  mk_tx 2 [mk_txin (repeat x22 32) 0 [x51] [xfe; xff; xff; xff]; mk_txin (repeat x33 32) 7 [] [x00; x00; x00; x00]]
        [mk_txout 1000 [x00; x14]] (Some [[[x30; x44]; [x02]]; []]) 3.
Example C04_ex_wf : wf_tx ex_t.
Proof. unfold wf_tx, ex_t; cbn. repeat split; try lia; try discriminate; repeat constructor; cbn; lia. Qed.
Example C04_ex_ids :
  match tx_deser (@rev byte) (spec_ser ex_t ++ [x03; x00; x00; x00]) with
  | Ok (d, rest) => p_txid d = spec_ser_original ex_t /\ p_wtxid d = spec_ser ex_t /\ p_raw d = spec_ser ex_t
                    /\ rest = [x03; x00; x00; x00] /\ p_txid d <> p_wtxid d
  | Err _ => False end.
Proof. vm_compute. repeat split; discriminate. Qed.
