(* The property theorems of C01/C02/C03/C08/C14/C16 with their curve premise DISCHARGED for secp256k1 (Props/Secp256k1.v).
   Statements: `Check <name>`.  Not in any property's MAKE_TARGETS (it imports several Props files); built by `make setup`. *)
From Coq Require Import ZArith.
Require Import Bits.Lib.Result Bits.Lib.Bytes Bits.Model.Ecmath Bits.Proofs.Ecmath Bits.Proofs.Ecdsa Bits.Spec.Secp256k1.
Require Import Bits.GL.Secp256k1Primes Bits.GL.SqrtFacts Bits.GL.Secp256k1Count.
Require Bits.Props.C01 Bits.Props.C02 Bits.Props.C03 Bits.Props.C08 Bits.Props.C12 Bits.Props.C14 Bits.Props.C16.
Local Open Scope Z_scope.

(* ---- the property theorems with the premise discharged (their statements: Check <name>) ---- *)
Notation CF := secp256k1_curve_facts_closed.
Notation S1 := secp256k1_sec1_facts.
Notation LF := secp256k1_lift_facts.

Definition C01_sign_sound_secp256k1 := C01.C01_sign_sound _ _ _ _ _ CF.
Definition C01_verifier_is_standard_secp256k1 := C01.C01_verifier_is_standard _ _ _ _ _ CF.
Definition C02_verify_iff_secp256k1 := C02.C02_verify_iff _ _ _ _ _ CF.
Definition C02_verify_rejects_secp256k1 := C02.C02_verify_rejects _ _ _ _ _ CF.
Definition C02_sig_verify_iff_secp256k1 := fun sha256 => C02.C02_sig_verify_iff _ _ _ _ _ sha256 CF.
Definition C03_point_add_closed_secp256k1 := C03.C03_point_add_closed _ _ _ _ _ CF.
Definition C03_scalar_mul_spec_secp256k1 := C03.C03_scalar_mul_spec _ _ _ _ _ CF.
Definition C03_distrib_secp256k1 := C03.C03_distrib _ _ _ _ _ CF.
Definition C03_scalar_assoc_secp256k1 := C03.C03_scalar_assoc _ _ _ _ _ CF.
Definition C03_scalar_mod_n_secp256k1 := C03.C03_scalar_mod_n _ _ _ _ _ CF.
Definition C08_p2pk_script_valid_key_secp256k1 := fun sha256 => C08.C08_p2pk_script_valid_key sha256 _ _ _ S1.
Definition C08_p2pk_script_both_secp256k1 := fun sha256 => C08.C08_p2pk_script_both sha256 _ _ _ S1.
Definition C14_sec1_roundtrip_secp256k1 := C14.C14_sec1_roundtrip _ _ _ S1.
Definition C14_sec1_reencode_secp256k1 := C14.C14_sec1_reencode _ _ _ S1.
Definition C14_sec1_accept_iff_secp256k1 := C14.C14_sec1_accept_iff _ _ _ S1.
Definition C14_sec1_rejects_secp256k1 := C14.C14_sec1_rejects _ _ _ S1.
Definition C14_is_point_total_secp256k1 := C14.C14_is_point_total _ _ _ S1.
Definition C14_sec1_nonresidue_rejected_secp256k1 := C14.C14_sec1_nonresidue_rejected _ _ _ S1.
Definition C14_compressed_pubkey_secp256k1 := C14.C14_compressed_pubkey _ _ _ S1.

(* C16: every input of the transaction send_tx returns is unlocked (full template form), on secp256k1 itself *)
Lemma secp256k1_p_le : Secp256k1.p <= 2 ^ 256.  Proof. vm_compute. discriminate. Qed.
Lemma secp256k1_n_le : Secp256k1.n <= 2 ^ 256.  Proof. vm_compute. discriminate. Qed.
Definition C16_send_unlocks_secp256k1 :=
  fun sha256 ripemd160 scriptpubkey is_address =>
    C16.C16_send_unlocks _ _ _ _ _ sha256 ripemd160 scriptpubkey is_address CF secp256k1_sqrt_facts secp256k1_p_le secp256k1_n_le.
Definition C16_sign_inputs_valid_secp256k1 :=
  fun sha256 ripemd160 scriptpubkey is_address =>
    C16.C16_sign_inputs_valid _ _ _ _ _ sha256 ripemd160 scriptpubkey is_address CF.

(* the theorems that needed "the curve has exactly n points" (GL/Secp256k1Count.v) *)
Notation CX := secp256k1_curve_facts_x_closed.
Definition C01_r_collision_needs_repeat_secp256k1 := C01.C01_r_collision_needs_repeat _ _ _ _ _ CF CX.
Definition C02_malleated_s_secp256k1 := C02.C02_malleated_s _ _ _ _ _ CF CX.
Definition C12_verify_iff_spec_secp256k1 :=
  fun sha256 pk m sig => C12.C12_verify_iff_spec _ _ _ sha256 CF secp256k1_p_le pk m sig secp256k1_cofactor_one.

Check C01_sign_sound_secp256k1.
Check C02_malleated_s_secp256k1.
Check C12_verify_iff_spec_secp256k1.
Check C16_send_unlocks_secp256k1.
Check C02_verify_iff_secp256k1.
Check C03_scalar_mul_spec_secp256k1.
Check C14_sec1_accept_iff_secp256k1.
Print Assumptions C01_sign_sound_secp256k1.
Print Assumptions C02_verify_iff_secp256k1.
Print Assumptions C03_scalar_mul_spec_secp256k1.
Print Assumptions C14_sec1_accept_iff_secp256k1.
Print Assumptions C16_send_unlocks_secp256k1.
Print Assumptions C01_r_collision_needs_repeat_secp256k1.
Print Assumptions C02_malleated_s_secp256k1.
Print Assumptions C12_verify_iff_spec_secp256k1.
