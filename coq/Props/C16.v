(* C16 - the send utility conserves value and produces validly signed transactions (bits.tx.send_tx).

   Model: Model/SendValue.v (binary64 value layer), Model/Send.v (selection, outputs, messages, assembly: byte-exact against
   the implementation incl. the signatures, by the correspondence run of every check) of the REPAIRED send_tx (fix: commits
   a6453f8 6ab0af3 f63b97b d5fd479 99f7271 5c18f44 671eb14).  Specs: Spec/Sighash.v (legacy signature hash, template-level
   [unlocks]), Spec/Bip143.v.

   PROVED (for the model, for all inputs):
     value / structure   C16_inputs_reported, C16_inputs_distinct, C16_outputs_shape, C16_conservation (given sat_exact and
                         request_covered), C16_send_unsigned_bytes, C16_unsigned_structured
     message_is_sighash  C16_segwit_messages        every selected input j (any number, any output indices, any version /
                                                    locktime, six flags): message j = Bip143.preimage t j amount_j scriptCode flag
                         C16_legacy_sig_message_spec, C16_legacy_messages
                                                    tx.legacy_sig_message(.., j, scriptcode, ..) ++ flag = Sighash.legacy_preimage t j
                                                    scriptcode flag, every flag, any number of inputs
                         C16_legacy_sig_message_single_quirk
                                                    SIGHASH_SINGLE input without output (consensus digest = the constant 1, not the
                                                    hash of any message, valid for ANY transaction): refused with ValueError, and
                                                    C16_legacy_messages shows this is the ONLY refusal
                         C16_scriptcode_wsh         the p2wsh scriptCode is the CompactSize-prefixed witness script, every length
     send_valid          C16_segwit_signatures_valid, C16_legacy_signatures_valid, C16_sign_inputs_valid
                                                    (signature level, from curve_facts = C01): every signature send_tx places for
                                                    selected input j is DER||hashtype and ECDSA-valid for the CONSENSUS sighash of
                                                    input j under the public key of its signing key - all eight kinds, any number of
                                                    inputs, any version / locktime, all six flags
     send_valid, FULL [Spec.Sighash.unlocks] form
                         C16_send_unlocks           all eight kinds (p2pk, p2pkh, multisig, p2sh, p2wpkh, p2wsh, p2sh-p2wpkh,
                                                    p2sh-p2wsh), any number of inputs, any version / locktime, all six flags: the bytes
                                                    send_tx returns are the (BIP144) serialisation of a well-formed transaction t'
                                                    with the selected outpoints, and for EVERY selected input j the items pushed by
                                                    its scriptSig (Spec push-only parser [push_items]) and its witness stack satisfy
                                                      unlocks sha256 ripemd160 ecdsa_ok bip66_valid decode_inner t' j (sats u_j) l items_j wit_j
                                                    for the lock l = lock_of (scriptPubKey of u_j), with
                                                      ecdsa_ok pk der d  = ecmath.verify accepts the DER-decoded (r, s) under the SEC1-decoded
                                                                           key pk on the digest d,
                                                      bip66_valid        = BIP66 IsValidSignatureEncoding (Spec/Bip66.v),
                                                      decode_inner / lock_of / push_items = Spec/ScriptTemplatesDecode.v (byte layouts),
                                                    t' = the SIGNED transaction (both signature hashes are shown invariant under the
                                                    replacement of the scriptSigs).  Hypotheses: curve_facts (C01), sqrt_facts (C14),
                                                    p, n <= 2^256, |ripemd160| = 20, |sha256| = 32, the reported amounts / txids well
                                                    formed, a standard flag, and [pays_to]: every reported scriptPubKey is the standard
                                                    script of the sender's decoded keys (p2pk: the key's point in either SEC1 form;
                                                    p2pkh: HASH160 of the encoding the code pushes; multisig / script-hash kinds: the
                                                    m-of-n script with EXACTLY m sender keys matching its keys in order, or behind a
                                                    script hash the pubkey script with the one sender key).
                         C16_scriptcode_wpkh        the p2wpkh / p2sh-p2wpkh scriptCode is 19 76 a9 14 HASH160(pubkey) 88 ac
                                                    (discharges the scriptCode hypothesis of C16_sign_inputs_valid for these kinds).
                         C16_send_unlocks_nonvacuous   the hypotheses hold in a concrete p2wpkh run (F_43 curve, kernel-computed).
   The former known findings (segwit: output index used as input index, messages for unselected unspents, version / locktime
   defaults; legacy: one signature for all inputs, flag not applied; raw sender without change address) are REPAIRED in /repo;
   their ..._refuted theorems are gone with the code they described (regression inputs: corpus/c16 and the seeded/revert-COMMIT directories).
   FINDING (new, proved): send_tx signs with ALL the keys it is given.  For an m-of-n script with more than m keys supplied
     (e.g. both keys of a 1-of-2) it returns a transaction whose scriptSig / witness carries more than m signatures, which does
     NOT satisfy the script: C16_multisig_surplus_keys_refuted (every kind with a multisig script) and the concrete run
     C16_multisig_surplus_keys_example_refuted.  The code has no check `len(sender_keys) == m`.

   STILL NOT THEOREMS (kept visible):
     send_valid: [pays_to] is a hypothesis - that the scantxoutset result pays to the sender's keys is outside send_tx; a
       redeem / witness script that is NOT the standard multisig or pubkey script (e.g. P2PKH behind a script hash: the code
       places no public key) is not covered.  curve_facts / sqrt_facts are theorems for secp256k1 itself (Props/Secp256k1.v;
       instance C16_send_unlocks_secp256k1 in Props/Secp256k1Inst.v).
     sat_exact is NO LONGER a premise for the amounts a node reports: Props/C16Sat.v (C16_sat_exact_all, C16_sat_exact_of_json; proof
       Proofs/SatExact.v through Flocq's Bdiv / Bmult correctness and the relative error of round-to-nearest) shows
       sat_of_btc (correctly rounded k / 10^8) = Ok k for EVERY 0 <= k <= 21*10^14.  That file depends on the standard library's
       axioms of the classical reals (named there); the theorems of THIS file keep sat_exact as an explicit hypothesis and stay
       closed under the global context.  The kernel-computed instances below are kept as examples. *)
From Coq Require Import ZArith List Lia Bool.
From Coq Require Import Floats.SpecFloat.
From Coq Require Floats.PrimFloat.
Require Import Bits.Lib.Result Bits.Lib.Bytes Bits.Lib.CompactSize.
Require Import Bits.Spec.Bip143 Bits.Spec.Sighash.
Require Import Bits.Model.Ecmath Bits.Model.Keys Bits.Model.Der Bits.Model.SendValue Bits.Model.Send Bits.Model.SendPrim.
Require Import Bits.Proofs.Ecmath Bits.Proofs.Ecdsa.
Require Import Bits.Proofs.SendValue Bits.Proofs.Send Bits.Proofs.SendSign Bits.Proofs.SendValid Bits.Proofs.SendExamples.
Require Import Bits.Spec.Bip66 Bits.Spec.ScriptTemplatesDecode Bits.Proofs.Sec1 Bits.Proofs.ScriptWitness.
Require Import Bits.Proofs.SendUnlocks Bits.Proofs.SendUnlocks2 Bits.Proofs.SendUnlocks3 Bits.Proofs.SendUnlocks5 Bits.Proofs.SendUnlocks8
        Bits.Proofs.SendUnlocksExamples.
Require Bits.Model.Tx Bits.Proofs.Tx Bits.Proofs.SmallCurves.
Import ListNotations.
Import Coq.Init.Byte.
Local Open Scope Z_scope.

Module MT := Bits.Model.Tx.
Module PT := Bits.Proofs.Tx.

(* ------------------------------------------------------------------------------------------------ value / structure *)
Theorem C16_inputs_reported :
  forall (p a n : Z) (G : point) (sha256 ripemd160 : bytes -> bytes) (scriptpubkey : bytes -> result bytes)
         (is_address : bytes -> bool) (sats : utxo -> Z) sender recipient change ki frac fee total unspents u,
    sat_exact sats unspents ->
    build_unsigned p a n G sha256 ripemd160 scriptpubkey is_address sender recipient change ki frac fee total unspents = Ok u ->
    let k := length (us_selected u) in
    map fst (us_selected u) = firstn k unspents /\                               (* a prefix of the reported outputs *)
    (unspents <> [] -> (1 <= k)%nat) /\
    Forall (reported_input p a n G sha256 ripemd160 ki) (us_selected u) /\       (* outpoint = (reversed txid, vout) *)
    us_total u = sumZ (map sats (firstn k unspents)) /\                          (* exact satoshi values *)
    (forall j, (0 < j < k)%nat -> sumZ (map sats (firstn j unspents)) < us_to_send u) /\   (* stops as soon as covered *)
    (us_to_send u <= us_total u \/ k = length unspents).
Proof. exact inputs_reported. Qed.
Print Assumptions C16_inputs_reported.

Theorem C16_inputs_distinct :
  forall (p a n : Z) (G : point) (sha256 ripemd160 : bytes -> bytes) (scriptpubkey : bytes -> result bytes)
         (is_address : bytes -> bool) (sats : utxo -> Z) sender recipient change ki frac fee total unspents u,
    sat_exact sats unspents ->
    NoDup (map (fun x => (u_txid x, u_vout x)) unspents) ->
    build_unsigned p a n G sha256 ripemd160 scriptpubkey is_address sender recipient change ki frac fee total unspents = Ok u ->
    NoDup (map (fun x => (u_txid x, u_vout x)) (map fst (us_selected u))).
Proof. exact inputs_distinct. Qed.
Print Assumptions C16_inputs_distinct.

(* change goes to scriptpubkey(change_addr) if given, else to scriptpubkey(sender) for a key / address sender, else to the
   sender's raw scriptPubKey itself ([change_script]) *)
Theorem C16_outputs_shape :
  forall (p a n : Z) (G : point) (sha256 ripemd160 : bytes -> bytes) (scriptpubkey : bytes -> result bytes)
         (is_address : bytes -> bool) sender recipient change ki frac fee total unspents u,
    build_unsigned p a n G sha256 ripemd160 scriptpubkey is_address sender recipient change ki frac fee total unspents = Ok u ->
    exists rs chs,
      scriptpubkey recipient = Ok rs /\ change_script scriptpubkey is_address sender change = Ok chs /\
      0 <= us_to_send u - fee < 2 ^ 64 /\
      let change_v := us_total u - us_to_send u in
      us_txouts u =
        PT.txout_bytes (MT.mk_txout (us_to_send u - fee) rs) ::
        (if change_v >=? 1000 then [PT.txout_bytes (MT.mk_txout change_v chs)] else []).
Proof. exact outputs_shape. Qed.
Print Assumptions C16_outputs_shape.

Example C16_change_script_cases :
  change_script spk_of no_addresses [x51; xae] None = Ok [x51; xae] /\
  change_script spk_of no_addresses [x51; xae] (Some []) = Ok [x51; xae] /\
  change_script spk_of all_addresses [x51; xae] None = Ok [x52] /\
  change_script spk_of no_addresses [x51; xae] (Some [x31]) = Ok [x52].
Proof. exact change_script_cases. Qed.
Print Assumptions C16_change_script_cases.

Theorem C16_conservation :
  forall (p a n : Z) (G : point) (sha256 ripemd160 : bytes -> bytes) (scriptpubkey : bytes -> result bytes)
         (is_address : bytes -> bool) (sats : utxo -> Z) sender recipient change ki frac fee total unspents u,
    sat_exact sats unspents ->
    build_unsigned p a n G sha256 ripemd160 scriptpubkey is_address sender recipient change ki frac fee total unspents = Ok u ->
    us_to_send u <= sumZ (map sats unspents) ->                                   (* request_covered *)
    let inputs := sumZ (map sats (map fst (us_selected u))) in
    let change_v := inputs - us_to_send u in
    us_total u = inputs /\
    sumZ (output_values (us_to_send u) fee (us_total u)) + fee + (if change_v >=? 1000 then 0 else change_v) = inputs.
Proof. exact conservation. Qed.
Print Assumptions C16_conservation.

(* request_covered is necessary: without it value would be created *)
Theorem C16_conservation_needs_cover :
  forall to_send fee total_sel, total_sel < to_send -> sumZ (output_values to_send fee total_sel) + fee > total_sel.
Proof. exact conservation_needs_cover. Qed.
Print Assumptions C16_conservation_needs_cover.

Theorem C16_send_unsigned_bytes :
  forall (p a n : Z) (G : point) (sha256 ripemd160 : bytes -> bytes) (scriptpubkey : bytes -> result bytes)
         (is_address : bytes -> bool) sender recipient change flag frac fee version locktime total unspents draws raw,
    send_tx p a n G sha256 ripemd160 scriptpubkey is_address sender recipient change [] flag frac fee version locktime total
            unspents draws = Ok raw ->
    exists u, build_unsigned p a n G sha256 ripemd160 scriptpubkey is_address sender recipient change None frac fee total unspents
              = Ok u /\
              raw = PT.tx_bytes false version (map snd (us_selected u)) (us_txouts u) [] locktime.
Proof. exact send_unsigned_bytes. Qed.
Print Assumptions C16_send_unsigned_bytes.

(* the transaction send_tx builds, as a structured (Spec) transaction: the bridge to the signature-hash specifications *)
Theorem C16_unsigned_structured :
  forall (p a n : Z) (G : point) (sha256 ripemd160 : bytes -> bytes) (scriptpubkey : bytes -> result bytes)
         (is_address : bytes -> bool) sender recipient change ki frac fee total unspents u version locktime,
    build_unsigned p a n G sha256 ripemd160 scriptpubkey is_address sender recipient change ki frac fee total unspents = Ok u ->
    (forall x, In x unspents -> length (u_txid x) = 32%nat) ->
    0 <= version < 2 ^ 32 -> 0 <= locktime < 2 ^ 32 ->
    exists t,
      wf_tx t /\ tx_version t = version /\ tx_locktime t = locktime /\
      map snd (us_selected u) = map ser_txin (tx_ins t) /\
      us_txouts u = map ser_txout (tx_outs t) /\
      Forall2 (selected_input p a n G sha256 ripemd160 ki) (us_selected u) (tx_ins t) /\
      length (tx_outs t) = length (us_txouts u).
Proof. exact unsigned_structured. Qed.
Print Assumptions C16_unsigned_structured.

(* ------------------------------------------------------------------------------------------------ message_is_sighash *)
Theorem C16_segwit_messages :
  forall (sha256 : bytes -> bytes) (sats : utxo -> Z) (t : tx) (script : bytes) (f : Z) (selected : list utxo) (k : nat)
         (msgs : list bytes),
    wf_tx t -> standard_flag f ->
    Z.of_nat (length script) < 2 ^ 64 ->
    (k + length selected <= length (tx_ins t))%nat ->
    (forall x, In x selected -> sat_of_btc (u_amount x) = Ok (sats x) /\ 0 <= sats x < 2 ^ 64) ->
    segwit_msgs sha256 (map ser_txin (tx_ins t)) (map ser_txout (tx_outs t)) (ser_script script)
                (tx_version t) (tx_locktime t) (Some f) (Z.of_nat k) selected = Ok msgs ->
    forall i x, nth_error selected i = Some x ->
      exists m, nth_error msgs i = Some m /\ preimage sha256 t (k + i) (sats x) script f = Some m.
Proof. exact segwit_messages. Qed.
Print Assumptions C16_segwit_messages.

Theorem C16_scriptcode_wsh :
  forall (p a n : Z) (G : point) (sha256 ripemd160 : bytes -> bytes) (k : keyinfo),
    is_kind (ki_type k) [k_p2wpkh; k_p2sh_p2wpkh] = false ->
    Z.of_nat (length (ki_redeem k)) < 2 ^ 64 ->
    scriptcode_of p a n G sha256 ripemd160 k = Ok (ser_script (ki_redeem k)).
Proof. exact scriptcode_wsh. Qed.
Print Assumptions C16_scriptcode_wsh.

Theorem C16_legacy_sig_message_spec :
  forall t : tx,
    wf_tx t -> Z.of_nat (length (tx_ins t)) < 2 ^ 64 -> Z.of_nat (length (tx_outs t)) < 2 ^ 64 ->
    forall (idx : nat) (sc : bytes) (f : Z),
      (idx < length (tx_ins t))%nat -> Z.of_nat (length sc) < 2 ^ 64 ->
      (is_single f && (length (tx_outs t) <=? idx)%nat) = false ->
      exists m,
        legacy_sig_message (map ser_txin (tx_ins t)) (Z.of_nat idx) sc (map ser_txout (tx_outs t))
                           (tx_version t) (tx_locktime t) f = Ok m /\
        legacy_preimage t idx sc f = Some (m ++ u32le f).
Proof. exact legacy_sig_message_spec. Qed.
Print Assumptions C16_legacy_sig_message_spec.

Theorem C16_legacy_sig_message_single_quirk :
  forall (t : tx) (idx : nat) (sc : bytes) (f : Z) (sha256 : bytes -> bytes),
    (idx < length (tx_ins t))%nat ->
    (is_single f && (length (tx_outs t) <=? idx)%nat) = true ->
    legacy_sig_message (map ser_txin (tx_ins t)) (Z.of_nat idx) sc (map ser_txout (tx_outs t))
                       (tx_version t) (tx_locktime t) f = Err ValueE /\
    legacy_sighash sha256 t idx sc f = Some uint256_one.
Proof. exact legacy_sig_message_single_quirk. Qed.
Print Assumptions C16_legacy_sig_message_single_quirk.

Theorem C16_legacy_messages :
  forall t : tx,
    wf_tx t -> Z.of_nat (length (tx_ins t)) < 2 ^ 64 -> Z.of_nat (length (tx_outs t)) < 2 ^ 64 ->
    forall (f : Z) (rest : list tx_input) (k : nat) (msgs : list bytes),
      (forall j i, nth_error rest j = Some i -> nth_error (tx_ins t) (k + j) = Some i) ->
      legacy_msgs (map ser_txin (tx_ins t)) (map ser_txout (tx_outs t)) (tx_version t) (tx_locktime t) f
                  (Z.of_nat k) (map ser_txin rest) = Ok msgs ->
      forall j i, nth_error rest j = Some i ->
        (is_single f && (length (tx_outs t) <=? k + j)%nat) = false /\
        exists m, nth_error msgs j = Some m /\ legacy_preimage t (k + j) (ti_script i) f = Some (m ++ u32le f).
Proof. exact legacy_messages. Qed.
Print Assumptions C16_legacy_messages.

(* ------------------------------------------------------------------------------------------------ send_valid (signature level) *)
Theorem C16_segwit_signatures_valid :
  forall (p a b n : Z) (G : point) (sha256 : bytes -> bytes),
    curve_facts p a b n G ->
    forall (sats : utxo -> Z) (t : tx) script f (selected : list utxo) keys draws msgs sigss,
    wf_tx t -> standard_flag f ->
    Z.of_nat (length script) < 2 ^ 64 ->
    (length selected <= length (tx_ins t))%nat ->
    (forall x, In x selected -> sat_of_btc (u_amount x) = Ok (sats x) /\ 0 <= sats x < 2 ^ 64) ->
    segwit_msgs sha256 (map ser_txin (tx_ins t)) (map ser_txout (tx_outs t)) (ser_script script)
                (tx_version t) (tx_locktime t) (Some f) 0 selected = Ok msgs ->
    sign_msgs p a n G sha256 draws keys msgs (Some f) true = Ok sigss ->
    forall j x, nth_error selected j = Some x ->
      exists digest sgs,
        sighash sha256 t j (sats x) script f = Some digest /\ nth_error sigss j = Some sgs /\
        Forall2 (valid_sig p a b n G digest f) keys sgs.
Proof. exact segwit_signatures_valid. Qed.
Print Assumptions C16_segwit_signatures_valid.

Theorem C16_legacy_signatures_valid :
  forall (p a b n : Z) (G : point) (sha256 : bytes -> bytes),
    curve_facts p a b n G ->
    forall (t : tx) f keys draws msgs sigss,
    wf_tx t -> standard_flag f ->
    Z.of_nat (length (tx_ins t)) < 2 ^ 64 -> Z.of_nat (length (tx_outs t)) < 2 ^ 64 ->
    legacy_msgs (map ser_txin (tx_ins t)) (map ser_txout (tx_outs t)) (tx_version t) (tx_locktime t) f
                0 (map ser_txin (tx_ins t)) = Ok msgs ->
    sign_msgs p a n G sha256 draws keys msgs (Some f) false = Ok sigss ->
    forall j i, nth_error (tx_ins t) j = Some i ->
      exists pre sgs,
        legacy_preimage t j (ti_script i) f = Some pre /\
        legacy_sighash sha256 t j (ti_script i) f = Some (h256 sha256 pre) /\
        nth_error sigss j = Some sgs /\
        Forall2 (valid_sig p a b n G (h256 sha256 pre) f) keys sgs.
Proof. exact legacy_signatures_valid. Qed.
Print Assumptions C16_legacy_signatures_valid.

(* send_tx itself: the signatures it computes for the transaction it builds, every kind, every selected input *)
Theorem C16_sign_inputs_valid :
  forall (p a b n : Z) (G : point) (sha256 ripemd160 : bytes -> bytes) (scriptpubkey : bytes -> result bytes)
         (is_address : bytes -> bool),
    curve_facts p a b n G ->
    forall (sats : utxo -> Z) sender recipient change k frac fee version locktime total unspents u f script draws sigs,
    build_unsigned p a n G sha256 ripemd160 scriptpubkey is_address sender recipient change (Some k) frac fee total unspents = Ok u ->
    (forall x, In x unspents -> length (u_txid x) = 32%nat /\ sat_of_btc (u_amount x) = Ok (sats x) /\ 0 <= sats x < 2 ^ 64) ->
    0 <= version < 2 ^ 32 -> 0 <= locktime < 2 ^ 32 -> standard_flag f ->
    Z.of_nat (length (us_selected u)) < 2 ^ 64 ->
    (segwit_kind k = true ->
     scriptcode_of p a n G sha256 ripemd160 k = Ok (ser_script script) /\ Z.of_nat (length script) < 2 ^ 64) ->
    sign_inputs p a n G sha256 ripemd160 k (Some f) version locktime u draws = Ok sigs ->
    exists t,
      wf_tx t /\ tx_version t = version /\ tx_locktime t = locktime /\
      map snd (us_selected u) = map ser_txin (tx_ins t) /\ us_txouts u = map ser_txout (tx_outs t) /\
      Forall2 (selected_input p a n G sha256 ripemd160 (Some k)) (us_selected u) (tx_ins t) /\
      forall j xt i, nth_error (us_selected u) j = Some xt -> nth_error (tx_ins t) j = Some i ->
        exists digest sgs,
          nth_error sigs j = Some sgs /\
          (if segwit_kind k then sighash sha256 t j (sats (fst xt)) script f = Some digest
           else legacy_sighash sha256 t j (ti_script i) f = Some digest) /\
          Forall2 (valid_sig p a b n G digest f) (ki_keys k) sgs.
Proof. exact sign_inputs_valid. Qed.
Print Assumptions C16_sign_inputs_valid.

(* the hypothesis curve_facts is satisfiable (C01: proved by computation for y^2 = x^3 + 7 over F_43, order 31) *)
Example C16_curve_facts_nonvacuous : curve_facts 43 0 7 31 Bits.Proofs.SmallCurves.G43.
Proof. exact Bits.Proofs.SmallCurves.facts_43. Qed.
Print Assumptions C16_curve_facts_nonvacuous.

(* ------------------------------------------------------------------------------------------------ concrete runs (kernel computation) *)
(* legacy, two inputs spending output indices 4 and 0, two outputs, version 2, locktime 7, flags SINGLE, NONE|ANYONECANPAY, ALL *)
Example C16_legacy_two_inputs :
  forall (p a n : Z) (G : point) (sha256 ripemd160 : bytes -> bytes),
    exists u m0 m1 n0 n1 a0 a1,
      build_unsigned p a n G sha256 ripemd160 spk_of all_addresses [] [] None (Some ki_p2pk) (sf_of_me 3 (-2)) 1000 (sf_of_me 2 0)
                     [ux x11 4; ux x22 0] = Ok u /\
      length (us_selected u) = 2%nat /\ length (us_txouts u) = 2%nat /\
      let t := mk_tx 2 [sin x11 4 spk0; sin x22 0 spk0] [sout 149999000; sout 50000000] 7 in
      txins_of u = map ser_txin (tx_ins t) /\ us_txouts u = map ser_txout (tx_outs t) /\
      legacy_msgs (txins_of u) (us_txouts u) 2 7 3 0 (txins_of u) = Ok [m0; m1] /\
      legacy_preimage t 0 spk0 3 = Some (m0 ++ u32le 3) /\ legacy_preimage t 1 spk0 3 = Some (m1 ++ u32le 3) /\
      m0 <> m1 /\
      legacy_msgs (txins_of u) (us_txouts u) 2 7 0x82 0 (txins_of u) = Ok [n0; n1] /\
      legacy_preimage t 0 spk0 0x82 = Some (n0 ++ u32le 0x82) /\ legacy_preimage t 1 spk0 0x82 = Some (n1 ++ u32le 0x82) /\
      legacy_msgs (txins_of u) (us_txouts u) 2 7 1 0 (txins_of u) = Ok [a0; a1] /\
      legacy_preimage t 0 spk0 1 = Some (a0 ++ u32le 1) /\ legacy_preimage t 1 spk0 1 = Some (a1 ++ u32le 1).
Proof. exact legacy_two_inputs. Qed.
Print Assumptions C16_legacy_two_inputs.

Example C16_legacy_single_quirk_refused :
  forall (p a n : Z) (G : point) (sha256 ripemd160 : bytes -> bytes),
    exists u,
      build_unsigned p a n G sha256 ripemd160 spk_of all_addresses [] [] None (Some ki_p2pk) (sf_of_me 1 0) 1000 (sf_of_me 2 0)
                     [ux x11 0; ux x22 1] = Ok u /\
      length (us_selected u) = 2%nat /\ length (us_txouts u) = 1%nat /\
      legacy_msgs (txins_of u) (us_txouts u) 1 0 3 0 (txins_of u) = Err ValueE /\
      let t := mk_tx 1 [sin x11 0 spk0; sin x22 1 spk0] [sout 199999000] 0 in
      legacy_sighash sha256 t 1 spk0 3 = Some uint256_one /\
      exists m, legacy_msgs (txins_of u) (us_txouts u) 1 0 1 0 (txins_of u) = Ok m.
Proof. exact legacy_single_quirk_refused. Qed.
Print Assumptions C16_legacy_single_quirk_refused.

(* segwit (p2wsh): two selected inputs spending output indices 1 and 0, a third unspent not selected, version 2, locktime 7,
   SINGLE|ANYONECANPAY; stand-in hash *)
Example C16_segwit_two_inputs :
  forall (p a n : Z) (G : point) (ripemd160 : bytes -> bytes),
  exists u sc m0 m1,
    build_unsigned p a n G toy_hash ripemd160 spk_of all_addresses [] [] None (Some ki_p2wsh) (sf_of_me 1 (-1)) 1000 (sf_of_me 3 0)
                   [ux x11 1; ux x22 0; ux x33 5] = Ok u /\
    map fst (us_selected u) = [ux x11 1; ux x22 0] /\
    scriptcode_of p a n G toy_hash ripemd160 ki_p2wsh = Ok sc /\ sc = ser_script spk0 /\
    let t := mk_tx 2 [sin x11 1 []; sin x22 0 []] [sout 149999000; sout 50000000] 7 in
    txins_of u = map ser_txin (tx_ins t) /\ us_txouts u = map ser_txout (tx_outs t) /\
    segwit_msgs toy_hash (txins_of u) (us_txouts u) sc 2 7 (Some 0x83) 0 (map fst (us_selected u)) = Ok [m0; m1] /\
    preimage toy_hash t 0 100000000 spk0 0x83 = Some m0 /\ preimage toy_hash t 1 100000000 spk0 0x83 = Some m1.
Proof. exact segwit_two_inputs. Qed.
Print Assumptions C16_segwit_two_inputs.

(* ------------------------------------------------------------------------------------------------ sat_exact: instances *)
(* the binary64 a JSON parser produces for the 8-decimal string of k satoshis: the correctly rounded quotient k / 10^8 *)
Definition btc_of_sat (k : Z) : spec_float := SFdiv prec emax (sf_of_me k 0) f1e8.
Definition exact_at (k : Z) : bool := match sat_of_btc (btc_of_sat k) with Ok v => v =? k | Err _ => false end.
Definition exact_at_prim (k : Z) : bool :=
  match sat_of_btc_prim (PrimFloat.div (Bits.Model.SendPrim.prim_of_me k 0) Bits.Model.SendPrim.p1e8) with Ok v => v =? k | Err _ => false end.
Definition boundary_sats : list Z :=
  [0; 1; 2; 999; 1000; 1001; 29000000; 57000000; 58000000; 113000000; 115000000; 33333333; 99999999; 100000000; 100000001;
   4999999999; 5000000000; 123456789012; 999999999999999; 2099999997690000; 2099999999999999; 2100000000000000].

(* 0.29 BTC: the value the truncating conversion got wrong (28999999) *)
Example C16_sat_029 : sat_of_btc (sf_of_me 0x128f5c28f5c28f (-54)) = Ok 29000000 /\ btc_of_sat 29000000 = sf_of_me 0x128f5c28f5c28f (-54).
Proof. vm_compute. split; reflexivity. Qed.
Print Assumptions C16_sat_029.

Example C16_sat_exact_boundary : forallb exact_at boundary_sats = true.
Proof. vm_compute. reflexivity. Qed.
Print Assumptions C16_sat_exact_boundary.

Example C16_sat_exact_small : forallb exact_at (map Z.of_nat (seq 0 4001)) = true.
Proof. vm_compute. reflexivity. Qed.
Print Assumptions C16_sat_exact_small.

(* the same through the kernel's primitive floats: SpecFloat and PrimFloat agree on these inputs (multiplication AND division) *)
Example C16_sat_exact_boundary_primfloat :
  forallb exact_at_prim boundary_sats = true /\
  forallb (fun k => match sat_of_btc (btc_of_sat k), sat_of_btc_prim (PrimFloat.div (Bits.Model.SendPrim.prim_of_me k 0) Bits.Model.SendPrim.p1e8) with
                    | Ok x, Ok y => x =? y | _, _ => false end) boundary_sats = true.
Proof. vm_compute. split; reflexivity. Qed.
Print Assumptions C16_sat_exact_boundary_primfloat.

(* int(send_fraction * total): 0.7 * 10 rounds UP to 7.0 (the exact product is 6.99999999999999955...) *)
Example C16_amount_to_send_rounding :
  amount_to_send (sf_of_me 0x16666666666666 (-53)) 10 = Ok 7 /\
  amount_to_send_prim (Bits.Model.SendPrim.prim_of_me 0x16666666666666 (-53)) 10 = Ok 7 /\
  amount_to_send (sf_of_me 1 (-1)) 300000000 = Ok 150000000.
Proof. vm_compute. repeat split; reflexivity. Qed.
Print Assumptions C16_amount_to_send_rounding.

(* a whole value-layer run: 3 utxos of 1, 2, 3 BTC, half of the total requested, fee 500: two inputs, change 0 -> no change output;
   and with 0.4: two inputs, change 0.6 BTC *)
Example C16_send_values_example :
  send_values (sf_of_me 1 (-1)) (sf_of_me 6 0) [sf_of_me 1 0; sf_of_me 2 0; sf_of_me 3 0] 500 = Ok (2, [299999500]) /\
  send_values (btc_of_sat 40000000) (sf_of_me 6 0) [sf_of_me 1 0; sf_of_me 2 0; sf_of_me 3 0] 500 = Ok (2, [239999500; 60000000]) /\
  send_values_prim (Bits.Model.SendPrim.prim_of_me 1 (-1)) (Bits.Model.SendPrim.prim_of_me 6 0)
                   [Bits.Model.SendPrim.prim_of_me 1 0; Bits.Model.SendPrim.prim_of_me 2 0; Bits.Model.SendPrim.prim_of_me 3 0] 500
    = Ok (2, [299999500]).
Proof. vm_compute. repeat split; reflexivity. Qed.
Print Assumptions C16_send_values_example.

(* hypotheses of the structure theorems are satisfiable: a concrete scenario through build_unsigned (sat_exact and
   request_covered hold, two of three reported outputs are selected) *)
Example C16_build_example :
  forall (p a n : Z) (G : point) (sha256 ripemd160 : bytes -> bytes),
    exists u,
      build_unsigned p a n G sha256 ripemd160 spk_of all_addresses [] [] None None (sf_of_me 1 (-1)) 1000 (sf_of_me 3 0)
                     [ux x11 0; ux x22 5; ux x33 2] = Ok u /\
      us_to_send u = 150000000 /\ us_total u = 200000000 /\ length (us_selected u) = 2%nat /\ length (us_txouts u) = 2%nat /\
      sat_exact (fun _ => 100000000) [ux x11 0; ux x22 5; ux x33 2] /\
      us_to_send u <= sumZ (map (fun _ => 100000000) [ux x11 0; ux x22 5; ux x33 2]).
Proof.
  intros. eexists. split; [vm_compute; reflexivity|]. repeat split; try reflexivity.
  - intros x [<-|[<-|[<-|[]]]]; vm_compute; reflexivity.
  - vm_compute. discriminate.
Qed.
Print Assumptions C16_build_example.

(* ------------------------------------------------------------------------------------------------ send_valid (template level) *)
(* the scriptCode of the p2wpkh kinds *)
Theorem C16_scriptcode_wpkh :
  forall (p a n : Z) (G : point) (sha256 ripemd160 : bytes -> bytes),
    (forall m, length (ripemd160 m) = 20%nat) ->
    forall (k : keyinfo) sc,
    is_kind (ki_type k) [k_p2wpkh; k_p2sh_p2wpkh] = true ->
    scriptcode_of p a n G sha256 ripemd160 k = Ok sc ->
    exists k0 pk, hd_error (ki_keys k) = Some k0 /\ pub p a n G k0 true = Ok pk /\
                  sc = ser_script (p2pkh_code (hash160 sha256 ripemd160 pk)) /\
                  Z.of_nat (length (p2pkh_code (hash160 sha256 ripemd160 pk))) < 2 ^ 64.
Proof. exact scriptcode_wpkh. Qed.
Print Assumptions C16_scriptcode_wpkh.

(* send_tx produces validly signed transactions: every selected input of the transaction it returns is unlocked *)
Theorem C16_send_unlocks :
  forall (p a b n : Z) (G : point) (sha256 ripemd160 : bytes -> bytes) (scriptpubkey : bytes -> result bytes)
         (is_address : bytes -> bool),
    curve_facts p a b n G -> sqrt_facts p -> p <= 2 ^ 256 -> n <= 2 ^ 256 ->
    (forall m, length (ripemd160 m) = 20%nat) -> (forall m, length (sha256 m) = 32%nat) ->
    forall (sats : utxo -> Z) sender recipient change sk sks f frac fee version locktime total unspents draws raw,
    send_tx p a n G sha256 ripemd160 scriptpubkey is_address sender recipient change (sk :: sks) (Some f) frac fee version locktime
            total unspents draws = Ok raw ->
    (forall x, In x unspents -> length (u_txid x) = 32%nat /\ sat_of_btc (u_amount x) = Ok (sats x) /\ 0 <= sats x < 2 ^ 64) ->
    standard_flag f ->
    (forall k, decode_keys sha256 (sk :: sks) (Some f) = Ok k ->
               forall x, In x unspents -> pays_to p a b n G sha256 ripemd160 k (u_spk x)) ->
    exists k u,
      decode_keys sha256 (sk :: sks) (Some f) = Ok k /\
      build_unsigned p a n G sha256 ripemd160 scriptpubkey is_address sender recipient change (Some k) frac fee total unspents = Ok u /\
      exists t' wstacks,
        wf_tx t' /\ tx_version t' = version /\ tx_locktime t' = locktime /\
        us_txouts u = map ser_txout (tx_outs t') /\
        raw = PT.tx_bytes (segwit_kind k) version (map ser_txin (tx_ins t')) (map ser_txout (tx_outs t'))
                          (map spec_witness wstacks) locktime /\
        length (tx_ins t') = length (us_selected u) /\ length wstacks = length (us_selected u) /\
        forall j xt, nth_error (us_selected u) j = Some xt ->
          exists i' items wit l,
            nth_error (tx_ins t') j = Some i' /\ ti_txid i' = rev (u_txid (fst xt)) /\ ti_vout i' = u_vout (fst xt) /\
            push_items (ti_script i') = Some items /\ nth_error wstacks j = Some wit /\
            lock_of (u_spk (fst xt)) = Some l /\
            unlocks sha256 ripemd160 (ecdsa_ok p a b n G) bip66_valid decode_inner t' j (sats (fst xt)) l items wit.
Proof. exact send_unlocks. Qed.
Print Assumptions C16_send_unlocks.

(* the hypotheses of C16_send_unlocks are satisfiable: a p2wpkh run on the F_43 curve, two of three outputs selected and signed *)
Example C16_send_unlocks_nonvacuous :
  (exists raw, ex_run = Ok raw) /\
  curve_facts 43 0 7 31 Bits.Proofs.SmallCurves.G43 /\ sqrt_facts 43 /\ 43 <= 2 ^ 256 /\ 31 <= 2 ^ 256 /\
  (forall m, length (toy_rmd m) = 20%nat) /\ (forall m, length (toy_hash m) = 32%nat) /\
  (forall x, In x ex_unspents ->
     length (u_txid x) = 32%nat /\ sat_of_btc (u_amount x) = Ok 100000000 /\ 0 <= 100000000 < 2 ^ 64) /\
  standard_flag 1 /\
  (forall k, decode_keys toy_hash [ex_wif] (Some 1) = Ok k ->
             forall x, In x ex_unspents -> pays_to 43 0 7 31 Bits.Proofs.SmallCurves.G43 toy_hash toy_rmd k (u_spk x)).
Proof. exact send_unlocks_example. Qed.
Print Assumptions C16_send_unlocks_nonvacuous.

(* FINDING: more sender keys than the script's m -> more than m signatures are placed -> the input is NOT unlocked *)
Theorem C16_multisig_surplus_keys_refuted :
  forall sha256 ripemd160 ecdsa strict_der (dg : Z -> option bytes) m pks sgs,
    length sgs <> m -> ~ inner_unlocks sha256 ripemd160 ecdsa strict_der dg (I_multisig m pks) ([] :: sgs).
Proof. exact multisig_surplus_keys_refuted. Qed.
Print Assumptions C16_multisig_surplus_keys_refuted.

Example C16_multisig_surplus_keys_example_refuted :
  (exists raw, send_tx 43 0 31 Bits.Proofs.SmallCurves.G43 toy_hash toy_rmd spk_of all_addresses [] [] None ms_wifs (Some 1)
                       (sf_of_me 1 0) 1000 2 0 one_btc ms_unspents ms_draws = Ok raw) /\
  exists k u sigs ss items,
    decode_keys toy_hash ms_wifs (Some 1) = Ok k /\
    build_unsigned 43 0 31 Bits.Proofs.SmallCurves.G43 toy_hash toy_rmd spk_of all_addresses [] [] None (Some k) (sf_of_me 1 0) 1000
                   one_btc ms_unspents = Ok u /\
    sign_inputs 43 0 31 Bits.Proofs.SmallCurves.G43 toy_hash toy_rmd k (Some 1) 2 0 u ms_draws = Ok sigs /\
    assemble 43 0 31 Bits.Proofs.SmallCurves.G43 k (Some ms_spk) 1 sigs = Ok ([ss], []) /\
    push_items ss = Some items /\ length items = 3%nat /\
    lock_of ms_spk = Some (L_bare (I_multisig 1 [ex_pk; ex_pk7]) ms_spk) /\
    forall t' j amt,
      ~ unlocks toy_hash toy_rmd (ecdsa_ok 43 0 7 31 Bits.Proofs.SmallCurves.G43) bip66_valid decode_inner t' j amt
                (L_bare (I_multisig 1 [ex_pk; ex_pk7]) ms_spk) items [].
Proof. exact multisig_surplus_keys_example_refuted. Qed.
Print Assumptions C16_multisig_surplus_keys_example_refuted.
