(* C16 - placeholder while the proofs are being built *)
Require Import Bits.Model.Send.
