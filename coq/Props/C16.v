(* C16 - the send utility conserves value and produces validly signed transactions (bits.tx.send_tx).

   Model: Model/SendValue.v (binary64 value layer), Model/Send.v (selection, outputs, messages, assembly: byte-exact against
   the implementation incl. the signatures, by the correspondence run of every check).  Specs: Spec/Sighash.v (legacy
   signature hash, template-level [unlocks]), Spec/Bip143.v.

   WHAT HOLDS (proved for the model, for all inputs):
     C16_inputs_reported, C16_inputs_distinct, C16_outputs_shape, C16_conservation     given sat_exact / request_covered
     C16_send_unsigned_bytes                         the returned bytes of an unsigned send
     C16_segwit_messages_partial                     message_is_sighash, segwit kinds, sub-domain (version 1, locktime 0, every
                                                     reported unspent is an input and spends output index = its position)
     C16_legacy_message_partial                      message_is_sighash, legacy kinds, sub-domain (ONE selected input; hash type
                                                     ALL, ALL|ANYONECANPAY, or SINGLE(|ANYONECANPAY) with a single output)
     C16_legacy_signatures_valid_partial,            send_valid at the signature level on those sub-domains, from
     C16_segwit_signatures_valid_partial             curve_facts (C01): every signature is DER||hashtype and ECDSA-valid for the
                                                     consensus sighash (legacy / BIP143) of its input under its key
   WHAT DOES NOT HOLD (the known findings; KNOWN_FINDINGS.txt) - for the whole class and with kernel-checked witnesses:
     C16_segwit_message_actual                       what is signed instead: the pre-image of input number utxo.vout of the
                                                     transaction with version 1 / locktime 0, for EVERY reported unspent
     C16_segwit_version_wrong, C16_segwit_locktime_wrong, C16_segwit_vout_index_wrong
     C16_segwit_version_refuted, C16_segwit_vout_index_refuted, C16_segwit_unselected_refuted
     C16_legacy_multi_input_refuted, C16_legacy_flag_refuted, C16_legacy_single_with_change_refuted

   FULL-STRENGTH STATEMENTS THAT ARE NOT THEOREMS (kept visible):
     message_is_sighash :  for every scenario and every selected input j, the byte string handed to bits.sig for input j is the
                           consensus pre-image of input j (legacy_preimage t j subscript ht ++ nothing / Bip143.preimage t j amount
                           scriptCode ht) of the transaction t that is returned.           REFUTED by the six theorems above.
     send_valid         :  forall scenario with keys, forall selected input j,
                           Spec.Sighash.unlocks sha256 ripemd160 ecdsa strict_der decode_inner t j (sats u_j) (lock_of kind) items_j wit_j
                           REFUTED outside the sub-domains; on the sub-domains proved at the signature level
                           (C16_legacy_signatures_valid_partial, C16_segwit_signatures_valid_partial).  MISSING for the full `unlocks` statement on the sub-domains: the
                           assembly-layer lemmas (script() push encodings of the items, decode of the multisig redeem script, SEC1
                           round trip of keys.pub, BIP66 strictness of every signature); the correspondence (independent checker harness/c16ref.py: unlocks + OpenSSL ECDSA)
                           checks exactly these on every scenario of every run.
     sat_exact          :  forall k, 0 <= k <= 21*10^14 -> sat_of_btc (nearest_double (k / 10^8)) = Ok k.   Not proved (needs an
                           error analysis of two roundings: |err| <= k * 2^-52 < 1/2); kernel-computed below for the boundary
                           amounts and 1..4000, and checked by every correspondence run. *)
From Coq Require Import ZArith List Lia Bool.
From Coq Require Import Floats.SpecFloat.
From Coq Require Floats.PrimFloat.
Require Import Bits.Lib.Result Bits.Lib.Bytes Bits.Lib.CompactSize.
Require Import Bits.Spec.Bip143 Bits.Spec.Sighash.
Require Import Bits.Model.Ecmath Bits.Model.Keys Bits.Model.Der Bits.Model.SendValue Bits.Model.Send Bits.Model.SendPrim.
Require Import Bits.Proofs.Ecmath Bits.Proofs.Ecdsa.
Require Import Bits.Proofs.SendValue Bits.Proofs.Send Bits.Proofs.SendSign Bits.Proofs.SendRefuted Bits.Proofs.SendValid.
Require Bits.Model.Tx Bits.Proofs.Tx Bits.Proofs.SmallCurves.
Import ListNotations.
Import Coq.Init.Byte.
Local Open Scope Z_scope.

Module MT := Bits.Model.Tx.
Module PT := Bits.Proofs.Tx.

(* ------------------------------------------------------------------------------------------------ value / structure *)
Theorem C16_inputs_reported :
  forall (p a n : Z) (G : point) (sha256 ripemd160 : bytes -> bytes) (scriptpubkey : bytes -> result bytes)
         (sats : utxo -> Z) sender recipient change ki frac fee total unspents u,
    sat_exact sats unspents ->
    build_unsigned p a n G sha256 ripemd160 scriptpubkey sender recipient change ki frac fee total unspents = Ok u ->
    let k := length (us_selected u) in
    map fst (us_selected u) = firstn k unspents /\                               (* a prefix of the reported outputs *)
    (unspents <> [] -> (1 <= k)%nat) /\
    Forall (reported_input p a n G sha256 ripemd160 ki) (us_selected u) /\       (* outpoint = (reversed txid, vout) *)
    us_total u = sumZ (map sats (firstn k unspents)) /\                          (* exact satoshi values *)
    (forall j, (0 < j < k)%nat -> sumZ (map sats (firstn j unspents)) < us_to_send u) /\   (* stops as soon as covered *)
    (us_to_send u <= us_total u \/ k = length unspents).
Proof. exact inputs_reported. Qed.
Print Assumptions C16_inputs_reported.

Theorem C16_inputs_distinct :
  forall (p a n : Z) (G : point) (sha256 ripemd160 : bytes -> bytes) (scriptpubkey : bytes -> result bytes)
         (sats : utxo -> Z) sender recipient change ki frac fee total unspents u,
    sat_exact sats unspents ->
    NoDup (map (fun x => (u_txid x, u_vout x)) unspents) ->
    build_unsigned p a n G sha256 ripemd160 scriptpubkey sender recipient change ki frac fee total unspents = Ok u ->
    NoDup (map (fun x => (u_txid x, u_vout x)) (map fst (us_selected u))).
Proof. exact inputs_distinct. Qed.
Print Assumptions C16_inputs_distinct.

Theorem C16_outputs_shape :
  forall (p a n : Z) (G : point) (sha256 ripemd160 : bytes -> bytes) (scriptpubkey : bytes -> result bytes)
         sender recipient change ki frac fee total unspents u,
    build_unsigned p a n G sha256 ripemd160 scriptpubkey sender recipient change ki frac fee total unspents = Ok u ->
    exists rs chs,
      scriptpubkey recipient = Ok rs /\ scriptpubkey (change_target sender change) = Ok chs /\
      0 <= us_to_send u - fee < 2 ^ 64 /\
      let change_v := us_total u - us_to_send u in
      us_txouts u =
        PT.txout_bytes (MT.mk_txout (us_to_send u - fee) rs) ::
        (if change_v >=? 1000 then [PT.txout_bytes (MT.mk_txout change_v chs)] else []).
Proof. exact outputs_shape. Qed.
Print Assumptions C16_outputs_shape.

Theorem C16_conservation :
  forall (p a n : Z) (G : point) (sha256 ripemd160 : bytes -> bytes) (scriptpubkey : bytes -> result bytes)
         (sats : utxo -> Z) sender recipient change ki frac fee total unspents u,
    sat_exact sats unspents ->
    build_unsigned p a n G sha256 ripemd160 scriptpubkey sender recipient change ki frac fee total unspents = Ok u ->
    us_to_send u <= sumZ (map sats unspents) ->                                   (* request_covered *)
    let inputs := sumZ (map sats (map fst (us_selected u))) in
    let change_v := inputs - us_to_send u in
    us_total u = inputs /\
    sumZ (output_values (us_to_send u) fee (us_total u)) + fee + (if change_v >=? 1000 then 0 else change_v) = inputs.
Proof. exact conservation. Qed.
Print Assumptions C16_conservation.

(* request_covered is necessary: without it value would be created *)
Theorem C16_conservation_needs_cover :
  forall to_send fee total_sel, total_sel < to_send -> sumZ (output_values to_send fee total_sel) + fee > total_sel.
Proof. exact conservation_needs_cover. Qed.
Print Assumptions C16_conservation_needs_cover.

Theorem C16_send_unsigned_bytes :
  forall (p a n : Z) (G : point) (sha256 ripemd160 : bytes -> bytes) (scriptpubkey : bytes -> result bytes)
         sender recipient change flag frac fee version locktime total unspents draws raw,
    send_tx p a n G sha256 ripemd160 scriptpubkey sender recipient change [] flag frac fee version locktime total unspents draws
      = Ok raw ->
    exists u, build_unsigned p a n G sha256 ripemd160 scriptpubkey sender recipient change None frac fee total unspents = Ok u /\
              raw = PT.tx_bytes false version (map snd (us_selected u)) (us_txouts u) [] locktime.
Proof. exact send_unsigned_bytes. Qed.
Print Assumptions C16_send_unsigned_bytes.

(* ------------------------------------------------------------------------------------------------ message layer *)
Theorem C16_segwit_messages_partial :
  forall (sha256 : bytes -> bytes) (sats : utxo -> Z) (t : tx) (script : bytes) (f : Z) (unspents : list utxo) (msgs : list bytes),
    wf_tx t -> tx_version t = 1 -> tx_locktime t = 0 -> standard_flag f ->
    Z.of_nat (length script) < 2 ^ 64 ->
    length unspents = length (tx_ins t) ->
    (forall j x, nth_error unspents j = Some x ->
                 u_vout x = Z.of_nat j /\ sat_of_btc (u_amount x) = Ok (sats x) /\ 0 <= sats x < 2 ^ 64) ->
    segwit_msgs sha256 (map ser_txin (tx_ins t)) (map ser_txout (tx_outs t)) (ser_script script) (Some f) unspents = Ok msgs ->
    forall j x, nth_error unspents j = Some x ->
      exists m, nth_error msgs j = Some m /\ preimage sha256 t j (sats x) script f = Some m.
Proof. exact segwit_messages_partial. Qed.
Print Assumptions C16_segwit_messages_partial.

(* what IS signed, in general *)
Theorem C16_segwit_message_actual :
  forall (sha256 : bytes -> bytes) (sats : utxo -> Z) (t : tx) (script : bytes) (f : Z) (unspents : list utxo) (msgs : list bytes),
    wf_tx t -> tx_version t = 1 -> tx_locktime t = 0 -> standard_flag f ->
    Z.of_nat (length script) < 2 ^ 64 ->
    (forall x, In x unspents ->
               0 <= u_vout x < Z.of_nat (length (tx_ins t)) /\ sat_of_btc (u_amount x) = Ok (sats x) /\ 0 <= sats x < 2 ^ 64) ->
    segwit_msgs sha256 (map ser_txin (tx_ins t)) (map ser_txout (tx_outs t)) (ser_script script) (Some f) unspents = Ok msgs ->
    forall i x, nth_error unspents i = Some x ->
      exists m, nth_error msgs i = Some m /\ preimage sha256 t (Z.to_nat (u_vout x)) (sats x) script f = Some m.
Proof. exact segwit_message_actual. Qed.
Print Assumptions C16_segwit_message_actual.

(* the one-byte p2wsh scriptCode length is the CompactSize prefix below 253 bytes (every m-of-n <= 3 multisig: <= 201 bytes) *)
Theorem C16_one_byte_scriptcode :
  forall redeem : bytes, Z.of_nat (length redeem) < 253 ->
    to_be_chk 1 (Z.of_nat (length redeem)) = Ok (cs_enc (Z.of_nat (length redeem))).
Proof. exact one_byte_scriptcode. Qed.
Print Assumptions C16_one_byte_scriptcode.

Theorem C16_legacy_preimage_one_input :
  forall (v lt : Z) (i0 : tx_input) (outs : list tx_output) (ht : Z),
    ht = 1 \/ ht = 0x81 \/ ((ht = 3 \/ ht = 0x83) /\ length outs = 1%nat) ->
    let t := mk_tx v [i0] outs lt in
    legacy_preimage t 0 (ti_script i0) ht = Some (ser_legacy t ++ u32le ht).
Proof. exact legacy_preimage_one_input. Qed.
Print Assumptions C16_legacy_preimage_one_input.

Theorem C16_legacy_message_partial :
  forall (p a n : Z) (G : point) (sha256 ripemd160 : bytes -> bytes) (scriptpubkey : bytes -> result bytes)
         sender recipient change k frac fee version locktime total unspents u x txi tx_ ht,
    build_unsigned p a n G sha256 ripemd160 scriptpubkey sender recipient change (Some k) frac fee total unspents = Ok u ->
    us_selected u = [(x, txi)] ->
    is_kind (ki_type k) [k_p2pk; k_p2pkh; k_multisig; k_p2sh] = true ->
    MT.tx_raw (map snd (us_selected u)) (us_txouts u) version locktime [] = Ok tx_ ->
    ht = 1 \/ ht = 0x81 \/ ((ht = 3 \/ ht = 0x83) /\ length (us_txouts u) = 1%nat) ->
    exists sc t,
      sc = (if is_kind (ki_type k) [k_p2pk; k_p2pkh; k_multisig] then u_spk x else ki_redeem k) /\
      tx_ins t = [Bits.Spec.Bip143.mk_txin (rev (u_txid x)) (u_vout x) sc 0xffffffff] /\
      tx_version t = version /\ tx_locktime t = locktime /\
      ser_legacy t = tx_ /\
      legacy_preimage t 0 sc ht = Some (tx_ ++ to_le 4 ht).
Proof. exact legacy_message_partial. Qed.
Print Assumptions C16_legacy_message_partial.

(* ------------------------------------------------------------------------------------------------ send_valid, partial *)
Theorem C16_legacy_signatures_valid_partial :
  forall (p a b n : Z) (G : point) (sha256 ripemd160 : bytes -> bytes) (scriptpubkey : bytes -> result bytes),
    curve_facts p a b n G ->
    forall sender recipient change k frac fee version locktime total unspents u x txi tx_ ht draws sigs rest,
    build_unsigned p a n G sha256 ripemd160 scriptpubkey sender recipient change (Some k) frac fee total unspents = Ok u ->
    us_selected u = [(x, txi)] ->
    is_kind (ki_type k) [k_p2pk; k_p2pkh; k_multisig; k_p2sh] = true ->
    MT.tx_raw (map snd (us_selected u)) (us_txouts u) version locktime [] = Ok tx_ ->
    ht = 1 \/ ht = 0x81 \/ ((ht = 3 \/ ht = 0x83) /\ length (us_txouts u) = 1%nat) ->
    sign_keys p a n G sha256 draws (ki_keys k) tx_ (Some ht) false = Ok (sigs, rest) ->
    exists sc t pre,
      sc = (if is_kind (ki_type k) [k_p2pk; k_p2pkh; k_multisig] then u_spk x else ki_redeem k) /\
      ser_legacy t = tx_ /\ tx_version t = version /\ tx_locktime t = locktime /\
      legacy_preimage t 0 sc ht = Some pre /\
      legacy_sighash sha256 t 0 sc ht = Some (h256 sha256 pre) /\
      Forall2 (fun key sg => exists d r s der,
                 privkey_int n key = Ok d /\ der_encode_sig r s = Ok der /\ sg = der ++ [z2b ht] /\
                 verify p a b n G r s (smul p a d G) (of_be (h256 sha256 pre)) = Ok true)
              (ki_keys k) sigs.
Proof. exact legacy_signatures_valid_partial. Qed.
Print Assumptions C16_legacy_signatures_valid_partial.

Theorem C16_segwit_signatures_valid_partial :
  forall (p a b n : Z) (G : point) (sha256 : bytes -> bytes),
    curve_facts p a b n G ->
    forall (sats : utxo -> Z) (t : tx) script f (unspents : list utxo) keys draws msgs sigss,
    wf_tx t -> tx_version t = 1 -> tx_locktime t = 0 -> standard_flag f ->
    Z.of_nat (length script) < 2 ^ 64 ->
    length unspents = length (tx_ins t) ->
    (forall j x, nth_error unspents j = Some x ->
                 u_vout x = Z.of_nat j /\ sat_of_btc (u_amount x) = Ok (sats x) /\ 0 <= sats x < 2 ^ 64) ->
    segwit_msgs sha256 (map ser_txin (tx_ins t)) (map ser_txout (tx_outs t)) (ser_script script) (Some f) unspents = Ok msgs ->
    sign_msgs p a n G sha256 draws keys msgs (Some f) = Ok sigss ->
    forall j x, nth_error unspents j = Some x ->
      exists digest sgs,
        sighash sha256 t j (sats x) script f = Some digest /\ nth_error sigss j = Some sgs /\
        Forall2 (fun key sg => exists d r s der,
                   privkey_int n key = Ok d /\ der_encode_sig r s = Ok der /\ sg = der ++ [z2b f] /\
                   verify p a b n G r s (smul p a d G) (of_be digest) = Ok true)
                keys sgs.
Proof. exact segwit_signatures_valid_partial. Qed.
Print Assumptions C16_segwit_signatures_valid_partial.

(* the hypothesis curve_facts is satisfiable (C01: proved by computation for y^2 = x^3 + 7 over F_43, order 31) *)
Example C16_curve_facts_nonvacuous : curve_facts 43 0 7 31 Bits.Proofs.SmallCurves.G43.
Proof. exact Bits.Proofs.SmallCurves.facts_43. Qed.
Print Assumptions C16_curve_facts_nonvacuous.

(* ------------------------------------------------------------------------------------------------ the known findings *)
(* segwit kinds, for EVERY transaction t returned (structured form), script code, flag and reported unspents *)
Theorem C16_segwit_version_wrong :
  forall (sha256 : bytes -> bytes) (sats : utxo -> Z) (t : tx) (script : bytes) (f : Z) (unspents : list utxo) (msgs : list bytes),
    wf_tx t -> standard_flag f -> Z.of_nat (length script) < 2 ^ 64 ->
    (forall x, In x unspents ->
               0 <= u_vout x < Z.of_nat (length (tx_ins t)) /\ sat_of_btc (u_amount x) = Ok (sats x) /\ 0 <= sats x < 2 ^ 64) ->
    segwit_msgs sha256 (map ser_txin (tx_ins t)) (map ser_txout (tx_outs t)) (ser_script script) (Some f) unspents = Ok msgs ->
    forall i x m,
      u32le (tx_version t) <> u32le 1 ->
      nth_error unspents i = Some x -> nth_error msgs i = Some m ->
      forall j amount pre, preimage sha256 t j amount script f = Some pre -> m <> pre.
Proof. exact segwit_version_wrong. Qed.
Print Assumptions C16_segwit_version_wrong.

Theorem C16_segwit_locktime_wrong :
  forall (sha256 : bytes -> bytes) (sats : utxo -> Z) (t : tx) (script : bytes) (f : Z) (unspents : list utxo) (msgs : list bytes),
    wf_tx t -> standard_flag f -> Z.of_nat (length script) < 2 ^ 64 ->
    (forall x, In x unspents ->
               0 <= u_vout x < Z.of_nat (length (tx_ins t)) /\ sat_of_btc (u_amount x) = Ok (sats x) /\ 0 <= sats x < 2 ^ 64) ->
    segwit_msgs sha256 (map ser_txin (tx_ins t)) (map ser_txout (tx_outs t)) (ser_script script) (Some f) unspents = Ok msgs ->
    forall i x m,
      tx_version t = 1 -> u32le (tx_locktime t) <> u32le 0 ->
      nth_error unspents i = Some x -> nth_error msgs i = Some m ->
      forall pre, preimage sha256 t (Z.to_nat (u_vout x)) (sats x) script f = Some pre -> m <> pre.
Proof. exact segwit_locktime_wrong. Qed.
Print Assumptions C16_segwit_locktime_wrong.

Theorem C16_segwit_vout_index_wrong :
  forall (sha256 : bytes -> bytes) (sats : utxo -> Z) (t : tx) (script : bytes) (f : Z) (unspents : list utxo) (msgs : list bytes),
    wf_tx t -> standard_flag f -> Z.of_nat (length script) < 2 ^ 64 ->
    (forall x, In x unspents ->
               0 <= u_vout x < Z.of_nat (length (tx_ins t)) /\ sat_of_btc (u_amount x) = Ok (sats x) /\ 0 <= sats x < 2 ^ 64) ->
    segwit_msgs sha256 (map ser_txin (tx_ins t)) (map ser_txout (tx_outs t)) (ser_script script) (Some f) unspents = Ok msgs ->
    forall i x m a b,
      nth_error unspents i = Some x -> nth_error msgs i = Some m ->
      nth_error (tx_ins t) i = Some a -> nth_error (tx_ins t) (Z.to_nat (u_vout x)) = Some b ->
      ser_outpoint a <> ser_outpoint b ->
      forall amount pre, preimage sha256 (with_defaults t) i amount script f = Some pre -> m <> pre.
Proof. exact segwit_vout_index_wrong. Qed.
Print Assumptions C16_segwit_vout_index_wrong.

(* witnesses, by kernel computation on the faithful model; for every curve and every hash function *)
Theorem C16_legacy_multi_input_refuted :
  forall (p a n : Z) (G : point) (sha256 ripemd160 : bytes -> bytes),
    exists u tx_ pre,
      build_unsigned p a n G sha256 ripemd160 spk_of [] [] None (Some ki_p2pk) (sf_of_me 1 0) 1000 (sf_of_me 2 0)
                     [ux x11 0; ux x22 1] = Ok u /\
      length (us_selected u) = 2%nat /\
      Bits.Model.Tx.tx_raw (map snd (us_selected u)) (us_txouts u) 1 0 [] = Ok tx_ /\
      let t := mk_tx 1 [sin x11 0 spk0; sin x22 1 spk0] [sout 199999000] 0 in
      ser_legacy t = tx_ /\ legacy_preimage t 0 spk0 1 = Some pre /\ pre <> tx_ ++ to_le 4 1.
Proof. exact legacy_multi_input_refuted. Qed.
Print Assumptions C16_legacy_multi_input_refuted.

Theorem C16_legacy_flag_refuted :
  forall (p a n : Z) (G : point) (sha256 ripemd160 : bytes -> bytes),
    exists u tx_ pre,
      build_unsigned p a n G sha256 ripemd160 spk_of [] [] None (Some ki_p2pk) (sf_of_me 1 0) 1000 (sf_of_me 1 0) [ux x11 0] = Ok u /\
      length (us_selected u) = 1%nat /\
      Bits.Model.Tx.tx_raw (map snd (us_selected u)) (us_txouts u) 1 0 [] = Ok tx_ /\
      let t := mk_tx 1 [sin x11 0 spk0] [sout 99999000] 0 in
      ser_legacy t = tx_ /\ legacy_preimage t 0 spk0 2 = Some pre /\ pre <> tx_ ++ to_le 4 2.
Proof. exact legacy_flag_refuted. Qed.
Print Assumptions C16_legacy_flag_refuted.

Theorem C16_legacy_single_with_change_refuted :
  forall (p a n : Z) (G : point) (sha256 ripemd160 : bytes -> bytes),
    exists u tx_ pre,
      build_unsigned p a n G sha256 ripemd160 spk_of [] [] None (Some ki_p2pk) (sf_of_me 1 (-1)) 1000 (sf_of_me 1 0) [ux x11 0] = Ok u /\
      length (us_txouts u) = 2%nat /\
      Bits.Model.Tx.tx_raw (map snd (us_selected u)) (us_txouts u) 1 0 [] = Ok tx_ /\
      let t := mk_tx 1 [sin x11 0 spk0] [sout 49999000; sout 50000000] 0 in
      ser_legacy t = tx_ /\ legacy_preimage t 0 spk0 3 = Some pre /\ pre <> tx_ ++ to_le 4 3.
Proof. exact legacy_single_with_change_refuted. Qed.
Print Assumptions C16_legacy_single_with_change_refuted.

Theorem C16_segwit_version_refuted :
  forall (p a n : Z) (G : point) (sha256 ripemd160 : bytes -> bytes),
    exists u sc m pre,
      build_unsigned p a n G sha256 ripemd160 spk_of [] [] None (Some ki_p2wsh) (sf_of_me 1 0) 1000 (sf_of_me 1 0) [ux x11 0] = Ok u /\
      scriptcode_of p a n G sha256 ripemd160 ki_p2wsh = Ok sc /\
      segwit_msgs sha256 (txins_of u) (us_txouts u) sc (Some 1) [ux x11 0] = Ok [m] /\
      let t := mk_tx 2 [sin x11 0 []] [sout 99999000] 0 in
      preimage sha256 t 0 100000000 spk0 1 = Some pre /\ m <> pre.
Proof. exact segwit_version_refuted. Qed.
Print Assumptions C16_segwit_version_refuted.

Theorem C16_segwit_vout_index_refuted :
  forall (p a n : Z) (G : point) (sha256 ripemd160 : bytes -> bytes),
    exists u sc,
      build_unsigned p a n G sha256 ripemd160 spk_of [] [] None (Some ki_p2wsh) (sf_of_me 1 0) 1000 (sf_of_me 1 0) [ux x11 1] = Ok u /\
      scriptcode_of p a n G sha256 ripemd160 ki_p2wsh = Ok sc /\
      segwit_msgs sha256 (txins_of u) (us_txouts u) sc (Some 1) [ux x11 1] = Err IndexE /\
      let t := mk_tx 1 [sin x11 1 []] [sout 99999000] 0 in
      exists pre, preimage sha256 t 0 100000000 spk0 1 = Some pre.
Proof. exact segwit_vout_index_refuted. Qed.
Print Assumptions C16_segwit_vout_index_refuted.

Theorem C16_segwit_unselected_refuted :
  forall (p a n : Z) (G : point) (sha256 ripemd160 : bytes -> bytes),
    exists u sc,
      build_unsigned p a n G sha256 ripemd160 spk_of [] [] None (Some ki_p2wsh) (sf_of_me 1 (-2)) 1000 (sf_of_me 2 0)
                     [ux x11 0; ux x22 1] = Ok u /\
      length (us_selected u) = 1%nat /\
      scriptcode_of p a n G sha256 ripemd160 ki_p2wsh = Ok sc /\
      segwit_msgs sha256 (txins_of u) (us_txouts u) sc (Some 1) [ux x11 0; ux x22 1] = Err IndexE /\
      exists m, segwit_msgs sha256 (txins_of u) (us_txouts u) sc (Some 1) [ux x11 0] = Ok [m].
Proof. exact segwit_unselected_refuted. Qed.
Print Assumptions C16_segwit_unselected_refuted.

(* ------------------------------------------------------------------------------------------------ sat_exact: instances *)
(* the binary64 a JSON parser produces for the 8-decimal string of k satoshis: the correctly rounded quotient k / 10^8 *)
Definition btc_of_sat (k : Z) : spec_float := SFdiv prec emax (sf_of_me k 0) f1e8.
Definition exact_at (k : Z) : bool := match sat_of_btc (btc_of_sat k) with Ok v => v =? k | Err _ => false end.
Definition exact_at_prim (k : Z) : bool :=
  match sat_of_btc_prim (PrimFloat.div (Bits.Model.SendPrim.prim_of_me k 0) Bits.Model.SendPrim.p1e8) with Ok v => v =? k | Err _ => false end.
Definition boundary_sats : list Z :=
  [0; 1; 2; 999; 1000; 1001; 29000000; 57000000; 58000000; 113000000; 115000000; 33333333; 99999999; 100000000; 100000001;
   4999999999; 5000000000; 123456789012; 999999999999999; 2099999997690000; 2099999999999999; 2100000000000000].

(* 0.29 BTC: the value the truncating conversion got wrong (28999999) *)
Example C16_sat_029 : sat_of_btc (sf_of_me 0x128f5c28f5c28f (-54)) = Ok 29000000 /\ btc_of_sat 29000000 = sf_of_me 0x128f5c28f5c28f (-54).
Proof. vm_compute. split; reflexivity. Qed.
Print Assumptions C16_sat_029.

Example C16_sat_exact_boundary : forallb exact_at boundary_sats = true.
Proof. vm_compute. reflexivity. Qed.
Print Assumptions C16_sat_exact_boundary.

Example C16_sat_exact_small : forallb exact_at (map Z.of_nat (seq 0 4001)) = true.
Proof. vm_compute. reflexivity. Qed.
Print Assumptions C16_sat_exact_small.

(* the same through the kernel's primitive floats: SpecFloat and PrimFloat agree on these inputs (multiplication AND division) *)
Example C16_sat_exact_boundary_primfloat :
  forallb exact_at_prim boundary_sats = true /\
  forallb (fun k => match sat_of_btc (btc_of_sat k), sat_of_btc_prim (PrimFloat.div (Bits.Model.SendPrim.prim_of_me k 0) Bits.Model.SendPrim.p1e8) with
                    | Ok x, Ok y => x =? y | _, _ => false end) boundary_sats = true.
Proof. vm_compute. split; reflexivity. Qed.
Print Assumptions C16_sat_exact_boundary_primfloat.

(* int(send_fraction * total): 0.7 * 10 rounds UP to 7.0 (the exact product is 6.99999999999999955...) *)
Example C16_amount_to_send_rounding :
  amount_to_send (sf_of_me 0x16666666666666 (-53)) 10 = Ok 7 /\
  amount_to_send_prim (Bits.Model.SendPrim.prim_of_me 0x16666666666666 (-53)) 10 = Ok 7 /\
  amount_to_send (sf_of_me 1 (-1)) 300000000 = Ok 150000000.
Proof. vm_compute. repeat split; reflexivity. Qed.
Print Assumptions C16_amount_to_send_rounding.

(* a whole value-layer run: 3 utxos of 1, 2, 3 BTC, half of the total requested, fee 500: two inputs, change 0 -> no change output;
   and with 0.4: two inputs, change 0.6 BTC *)
Example C16_send_values_example :
  send_values (sf_of_me 1 (-1)) (sf_of_me 6 0) [sf_of_me 1 0; sf_of_me 2 0; sf_of_me 3 0] 500 = Ok (2, [299999500]) /\
  send_values (btc_of_sat 40000000) (sf_of_me 6 0) [sf_of_me 1 0; sf_of_me 2 0; sf_of_me 3 0] 500 = Ok (2, [239999500; 60000000]) /\
  send_values_prim (Bits.Model.SendPrim.prim_of_me 1 (-1)) (Bits.Model.SendPrim.prim_of_me 6 0)
                   [Bits.Model.SendPrim.prim_of_me 1 0; Bits.Model.SendPrim.prim_of_me 2 0; Bits.Model.SendPrim.prim_of_me 3 0] 500
    = Ok (2, [299999500]).
Proof. vm_compute. repeat split; reflexivity. Qed.
Print Assumptions C16_send_values_example.

(* hypotheses of the structure theorems are satisfiable: a concrete scenario through build_unsigned (sat_exact and
   request_covered hold, two of three reported outputs are selected) *)
Example C16_build_example :
  forall (p a n : Z) (G : point) (sha256 ripemd160 : bytes -> bytes),
    exists u,
      build_unsigned p a n G sha256 ripemd160 spk_of [] [] None None (sf_of_me 1 (-1)) 1000 (sf_of_me 3 0)
                     [ux x11 0; ux x22 5; ux x33 2] = Ok u /\
      us_to_send u = 150000000 /\ us_total u = 200000000 /\ length (us_selected u) = 2%nat /\ length (us_txouts u) = 2%nat /\
      sat_exact (fun _ => 100000000) [ux x11 0; ux x22 5; ux x33 2] /\
      us_to_send u <= sumZ (map (fun _ => 100000000) [ux x11 0; ux x22 5; ux x33 2]).
Proof.
  intros. eexists. split; [vm_compute; reflexivity|]. repeat split; try reflexivity.
  - intros x [<-|[<-|[<-|[]]]]; vm_compute; reflexivity.
  - vm_compute. discriminate.
Qed.
Print Assumptions C16_build_example.
