(* C14 (extension) - the PEM armor layer of src/bits/pem.py for ANY label: decode_pem, encode_pem (also with its default
   CERTIFICATE header / footer).  Models: Model/Pem.v (encode_pem, decode_base64_pem, base64.encodebytes at 48-byte
   chunks, the two regular expressions), Model/PemExt.v (decode_pem, the defaults); proofs: Proofs/PemArmor.v,
   Proofs/PemExt.v.  base64 is an oracle with the two hypotheses of Props/C14.v.  Only restatements here.

   Documentation (no listed property names these functions): decode_pem returns the DER bytes - its docstring's
   "and parse ASN.1" is not done; encode_pem does not check that header and footer carry the same label, nor that they
   are armor lines at all (decode_pem then refuses the text). *)
From Coq Require Import ZArith List Bool.
Require Import Bits.Lib.Result Bits.Lib.Bytes Bits.Model.Pem Bits.Proofs.PemArmor Bits.Model.PemExt Bits.Proofs.PemExt.
Import ListNotations.
Import Coq.Init.Byte.

(* decode_pem is decode_base64_pem *)
Theorem C14_ext_decode_pem_is_armor : forall b64dec pem, decode_pem b64dec pem = decode_base64_pem b64dec pem.
Proof. reflexivity. Qed.
Print Assumptions C14_ext_decode_pem_is_armor.

(* every label that is not empty and has no newline and no "-" passes the computable side condition of the armor
   round trip (Proofs/PemArmor.v hdr_ok) *)
Theorem C14_ext_hdr_ok_clean : forall label,
  label <> [] /\ (forall c, In c label -> c <> nl /\ c <> x2d) -> hdr_ok label = true.
Proof. exact hdr_ok_clean. Qed.
Print Assumptions C14_ext_hdr_ok_clean.

Section PemExtProps.
  Variable b64enc : bytes -> bytes.
  Variable b64dec : bytes -> option bytes.
  Hypothesis b64_roundtrip : forall x, b64dec (strip (encodebytes b64enc x)) = Some x.
  Hypothesis b64_clean : forall x c, In c (b64enc x) -> c <> x2d.

  (* decode_pem (encode_pem der "-----BEGIN L-----" "-----END L-----") = der, for EVERY der and every such label L *)
  Theorem C14_ext_pem_roundtrip : forall label der,
    label <> [] /\ (forall c, In c label -> c <> nl /\ c <> x2d) ->
    decode_pem b64dec (encode_pem b64enc der (pem_header label) (pem_footer label)) = Ok der.
  Proof. exact (decode_pem_roundtrip b64enc b64dec b64_roundtrip b64_clean). Qed.

  (* encode_pem(der) with the default arguments *)
  Theorem C14_ext_pem_roundtrip_default : forall der,
    decode_pem b64dec (encode_pem_default b64enc der) = Ok der.
  Proof. exact (decode_pem_roundtrip_default b64enc b64dec b64_roundtrip b64_clean). Qed.
End PemExtProps.
Print Assumptions C14_ext_pem_roundtrip.
Print Assumptions C14_ext_pem_roundtrip_default.

(* what decode_pem accepts has the armor shape: after stripping white space it begins with a BEGIN line matched at
   offset 0, an END line is matched up to the very end, and the text in between is what base64 decodes *)
Theorem C14_ext_decode_pem_ok_inv : forall b64dec pem der, decode_pem b64dec pem = Ok der ->
  let s := strip pem in
  exists he fs, re_search begin_pre s 0 = Some (0, he) /\ re_search end_pre s 0 = Some (fs, length s) /\
                b64dec (strip (slice he fs s)) = Some der /\ starts_with begin_pre s = true.
Proof. exact decode_pem_ok_inv. Qed.
Print Assumptions C14_ext_decode_pem_ok_inv.

(* malformed armor is refused, always with ValueError *)
Theorem C14_ext_decode_pem_refuses : forall b64dec pem,
  (forall e, decode_pem b64dec pem = Err e -> e = ValueE) /\
  (starts_with begin_pre (strip pem) = false -> decode_pem b64dec pem = Err ValueE) /\
  (re_search end_pre (strip pem) 0 = None -> decode_pem b64dec pem = Err ValueE).
Proof.
  intros b64dec pem. split; [|split].
  - exact (decode_pem_err_kind b64dec pem).
  - exact (decode_pem_no_header b64dec pem).
  - exact (decode_pem_no_footer b64dec pem).
Qed.
Print Assumptions C14_ext_decode_pem_refuses.

(* the hypotheses are satisfiable / concrete labels; a toy "base64" (identity) shows the refusals on concrete text *)
Example C14_ext_ex_labels :
  hdr_ok label_cert = true /\ hdr_ok label_priv = true /\ hdr_ok label_pub = true /\
  hdr_ok [] = false /\ hdr_ok [x41; x2d; x2d; x2d; x2d; x2d; x45; x4e; x44; x20; x42] = false.
Proof. vm_compute. repeat split; reflexivity. Qed.

Example C14_ext_ex_refusals :
  let dec := fun x : bytes => Some x in
  decode_pem dec [] = Err ValueE /\
  decode_pem dec (pem_header label_cert ++ [nl]) = Err ValueE /\                       (* no END line *)
  decode_pem dec (x41 :: encode_pem (fun x => x) [x41] (pem_header label_cert) (pem_footer label_cert)) = Err ValueE /\
  decode_pem dec (encode_pem (fun x => x) [x41] (pem_header label_cert) (pem_footer label_cert) ++ [x41]) = Err ValueE /\
  decode_pem dec (encode_pem (fun x => x) [x41] (pem_header label_cert) (pem_footer label_pub)) = Ok [x41] /\
  decode_pem (fun _ => None) (encode_pem (fun x => x) [x41] (pem_header label_cert) (pem_footer label_cert)) = Err ValueE.
Proof. vm_compute. repeat split; reflexivity. Qed.
