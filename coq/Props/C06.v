(* C06 - segwit addresses (stub while the proofs are being written) *)
From Coq Require Import ZArith List.
Require Import Bits.Lib.Result Bits.Lib.Bytes Bits.Spec.Bip173 Bits.Model.Bech32.
Import ListNotations.
