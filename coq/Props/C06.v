(* C06 - segwit addresses round-trip and are accepted exactly per BIP173/BIP350; classifiers are total.
   Only the property theorems (closed by [exact]), their assumptions, and concrete instances.
   Model: Model/Bech32.v (bip173.py, bip350.py, utils.py as written); Spec: Spec/Bip173.v (from the BIP text). *)
From Coq Require Import ZArith List Bool.
Require Import Bits.Lib.Result Bits.Lib.Bytes Bits.Lib.Radix.
Require Import Bits.Spec.Bip173 Bits.Model.Base58 Bits.Model.Bech32.
Require Import Bits.Proofs.Bech32Checksum Bits.Proofs.Bech32Regroup Bits.Proofs.Bech32Parse
               Bits.Proofs.Bech32 Bits.Proofs.Bech32Roundtrip.
Import ListNotations.
Local Open Scope Z_scope.

(* ---- checksum_sound: verify accepts what create produced, for every 30-bit constant ---- *)
Theorem C06_checksum_sound : forall (hrp : bytes) (d : list Z) (c : Z),
  in_range 32 d -> 0 <= c < 2 ^ 30 ->
  bech32_verify_checksum hrp (d ++ bech32_create_checksum hrp d c) c = true.
Proof. exact checksum_sound. Qed.
Print Assumptions C06_checksum_sound.

(* ... in particular for the Bech32 constant 1 and the Bech32m constant 0x2bc830a3 *)
Theorem C06_checksum_sound_both : forall (hrp : bytes) (d : list Z), in_range 32 d ->
  bech32_verify_checksum hrp (d ++ bech32_create_checksum hrp d 1) 1 = true /\
  bech32_verify_checksum hrp (d ++ bech32_create_checksum hrp d 0x2bc830a3) 0x2bc830a3 = true.
Proof. exact checksum_sound_both. Qed.
Print Assumptions C06_checksum_sound_both.

(* the code's polymod / hrp expansion are the BIP's *)
Theorem C06_polymod_is_spec : forall vs, bech32_polymod vs = polymod vs.
Proof. exact polymod_spec. Qed.
Print Assumptions C06_polymod_is_spec.

(* ---- regroup_roundtrip: 8->5 on the big integer, then 5->8, is the identity (any non-empty data) ---- *)
Theorem C06_regroup_roundtrip : forall data : bytes, data <> [] -> bech32_decode (regroup_8to5 data) = Ok data.
Proof. exact regroup_roundtrip. Qed.
Print Assumptions C06_regroup_roundtrip.

(* bech32_decode's integer arithmetic is BIP173's bit regrouping with its two padding conditions *)
Theorem C06_decode_is_bip173_regrouping : forall (data : bytes) (vs : list Z),
  values_of data = Some vs -> vs <> [] ->
  bech32_decode data = match convert_5to8 vs with Some p => Ok p | None => Err AssertionE end.
Proof. exact decode_is_bip173_regrouping. Qed.
Print Assumptions C06_decode_is_bip173_regrouping.

(* ---- segwit_roundtrip: three networks, version 0..16, every program length allowed for the version ---- *)
Theorem C06_segwit_roundtrip : forall (net hrp : bytes) (v : Z) (prog : bytes),
  In (net, hrp) [(net_mainnet, hrp_bc); (net_testnet, hrp_tb); (net_regtest, hrp_bcrt)] ->
  0 <= v <= 16 ->
  program_length_ok v (length prog) = true ->       (* 2..40 bytes; 20 or 32 for version 0 *)
  exists addr,
    segwit_addr prog v net = Ok addr
    /\ decode_segwit_addr addr = Ok (hrp, v, prog)
    /\ assert_valid_segwit hrp v prog = Ok tt
    /\ lenZ addr <= 90
    /\ spec_decode addr = Some (hrp, v, prog)
    /\ is_segwit_addr addr = Ok true
    /\ to_bitcoin_address_witness prog net v = Ok addr.
Proof. exact segwit_roundtrip. Qed.
Print Assumptions C06_segwit_roundtrip.

(* ---- accept_iff_spec: decoder + validity check accept exactly the BIP173/BIP350-valid strings,
        and return the hrp / version / program the BIPs define; FOR EVERY BYTE STRING ---- *)
Theorem C06_accept_iff_spec : forall (s : bytes) (r : bytes * Z * bytes),
  decode_valid s = Ok r <-> spec_decode s = Some r.
Proof. exact accept_iff_spec. Qed.
Print Assumptions C06_accept_iff_spec.

Theorem C06_accept_iff_spec_parts : forall (s hrp : bytes) (v : Z) (prog : bytes),
  (decode_segwit_addr s = Ok (hrp, v, prog) /\ assert_valid_segwit hrp v prog = Ok tt)
  <-> spec_decode s = Some (hrp, v, prog).
Proof. exact accept_iff_spec_parts. Qed.
Print Assumptions C06_accept_iff_spec_parts.

Theorem C06_accept_iff_valid : forall s : bytes,
  (exists r, decode_valid s = Ok r) <-> valid_segwit s = true.
Proof. exact accept_iff_valid. Qed.
Print Assumptions C06_accept_iff_valid.

(* the functional form: one equation that also fixes the exception class of every rejection *)
Theorem C06_decode_valid_equation : forall s : bytes,
  decode_valid s = match spec_decode s with Some r => Ok r | None => Err AssertionE end.
Proof. exact decode_valid_spec. Qed.
Print Assumptions C06_decode_valid_equation.

(* ---- classifiers_total: only AssertionError can occur inside, so the classifiers return a bool ---- *)
Theorem C06_only_assertion_errors : forall (s : bytes) (e : err),
  (decode_valid s = Err e -> e = AssertionE) /\ (decode_segwit_addr s = Err e -> e = AssertionE).
Proof. exact only_assertion_errors. Qed.
Print Assumptions C06_only_assertion_errors.

Theorem C06_classifiers_total : forall (sha256 : bytes -> bytes) (s : bytes),
  (exists b, is_segwit_addr s = Ok b) /\ (exists b, is_addr sha256 s = Ok b).
Proof. exact classifiers_total. Qed.
Print Assumptions C06_classifiers_total.

(* ... and the bool is the right one *)
Theorem C06_classifiers_exact : forall (sha256 : bytes -> bytes) (s : bytes),
  is_segwit_addr s = Ok (valid_segwit s)
  /\ is_addr sha256 s = Ok (is_base58check sha256 s || valid_segwit s)
  /\ assert_addr sha256 s = (if is_base58check sha256 s || valid_segwit s then Ok true else Err AssertionE).
Proof. exact classifiers_exact. Qed.
Print Assumptions C06_classifiers_exact.

(* ---- a deviation of the generic Bech32 layer (NOT of segwit addresses): parse_bech32 demands a letter.
        b"21798023604" is a valid Bech32 string (hrp "2", data [30;5;7]) that bip173.parse_bech32 rejects with
        "mixed case string", because bytes.isupper() and bytes.islower() are both False without letters.
        Segwit addresses are unaffected (their hrp contains letters): C06_accept_iff_spec holds. ---- *)
Import Coq.Init.Byte.
Theorem C06_bech32_without_letters_refuted :
  exists s, spec_bech32_decode s 1 = Some ([x32], [30; 5; 7])
            /\ parse_bech32 s = Err AssertionE /\ decode_bech32_string s 1 = Err AssertionE.
Proof. exact bech32_without_letters_refuted. Qed.
Print Assumptions C06_bech32_without_letters_refuted.

(* ---- concrete instances (non-vacuity of the hypotheses, BIP vectors) ---- *)
Definition prog20 : bytes :=    (* 751e76e8199196d454941c45d1b3a323f1433bd6 *)
  [x75; x1e; x76; xe8; x19; x91; x96; xd4; x54; x94; x1c; x45; xd1; xb3; xa3; x23; xf1; x43; x3b; xd6].
(* b"bc1qw508d6qejxtdg4y5r3zarvary0c5xw7kv8f3t4": BIP173's first example *)
Definition addr_bip173 : bytes :=
  [x62; x63; x31; x71; x77; x35; x30; x38; x64; x36; x71; x65; x6a; x78; x74; x64; x67; x34; x79; x35; x72;
   x33; x7a; x61; x72; x76; x61; x72; x79; x30; x63; x35; x78; x77; x37; x6b; x76; x38; x66; x33; x74; x34].
Example C06_ex_encode : segwit_addr prog20 0 net_mainnet = Ok addr_bip173
  /\ program_length_ok 0 (length prog20) = true /\ In (net_mainnet, hrp_bc) networks.
Proof. vm_compute. auto. Qed.
Example C06_ex_decode : decode_valid addr_bip173 = Ok (hrp_bc, 0, prog20)
  /\ spec_decode addr_bip173 = Some (hrp_bc, 0, prog20) /\ is_segwit_addr addr_bip173 = Ok true.
Proof. vm_compute. auto. Qed.
(* b"BC1SW50QGDZ25J": BIP350, version 16, 2-byte program, all upper case *)
Example C06_ex_upper : decode_valid [x42; x43; x31; x53; x57; x35; x30; x51; x47; x44; x5a; x32; x35; x4a]
  = Ok (hrp_bc, 16, [x75; x1e]).
Proof. vm_compute. reflexivity. Qed.
(* b"bc1b9zpgru" (non-table character in the version position) and b"bc1q9zpgru" (version + checksum
   only) made the pinned code raise KeyError / IndexError out of is_segwit_addr: now a plain False *)
Example C06_ex_total : is_segwit_addr [x62; x63; x31; x62; x39; x7a; x70; x67; x72; x75] = Ok false
  /\ is_segwit_addr [x62; x63; x31; x71; x39; x7a; x70; x67; x72; x75] = Ok false
  /\ is_segwit_addr [] = Ok false /\ is_segwit_addr [xff] = Ok false.
Proof. vm_compute. auto. Qed.
(* all-zero 32-byte program, version 0 (rejected by the pinned code), and a 2-byte version-1 program *)
Example C06_ex_zero_program :
  match segwit_addr (repeat x00 32) 0 net_testnet with
  | Ok a => decode_valid a = Ok (hrp_tb, 0, repeat x00 32) | Err _ => False end
  /\ match segwit_addr [x00; x01] 1 net_regtest with
     | Ok a => decode_valid a = Ok (hrp_bcrt, 1, [x00; x01]) | Err _ => False end.
Proof. vm_compute. auto. Qed.
Example C06_ex_checksum_hyp : in_range 32 [0; 14; 20; 15; 7; 13; 26; 0; 25; 18] /\ 0 <= BECH32M_CONST < 2 ^ 30.
Proof. split; [repeat constructor; vm_compute; congruence|vm_compute; split; congruence]. Qed.

(* ---- the command line entry point `bits bech32` (model of its branch of __main__.main) ---- *)
Theorem C06_cli_decode_segwit_iff : forall (s h : bytes) (v : Z) (p : bytes),
  cli_bech32_decode s = Ok (CliSegwit h v p) <-> spec_decode s = Some (h, v, p).
Proof. exact cli_decode_segwit_iff. Qed.
Print Assumptions C06_cli_decode_segwit_iff.

(* the encoder `bits bech32 --hrp H --witness-version V` (repaired by 442ffd4) is segwit_addr for every version *)
Theorem C06_cli_encode_is_segwit_addr : forall net hrp v data,
  In (net, hrp) [(net_mainnet, hrp_bc); (net_testnet, hrp_tb); (net_regtest, hrp_bcrt)] -> 0 <= v <= 16 ->
  cli_bech32_encode hrp data (Some v) false = segwit_addr data v net.
Proof. exact cli_encode_is_segwit_addr. Qed.
Print Assumptions C06_cli_encode_is_segwit_addr.

Theorem C06_cli_encode_refuses_version : forall hrp data v pr, v < 0 \/ 16 < v ->
  cli_bech32_encode hrp data (Some v) pr = Err ValueE.
Proof. exact cli_encode_refuses_version. Qed.
Print Assumptions C06_cli_encode_refuses_version.

Theorem C06_cli_encode_roundtrip : forall net hrp v prog,
  In (net, hrp) [(net_mainnet, hrp_bc); (net_testnet, hrp_tb); (net_regtest, hrp_bcrt)] -> 0 <= v <= 16 ->
  program_length_ok v (length prog) = true ->
  exists addr, cli_bech32_encode hrp prog (Some v) false = Ok addr
               /\ spec_decode addr = Some (hrp, v, prog)
               /\ cli_bech32_decode addr = Ok (CliSegwit hrp v prog).
Proof. exact cli_encode_roundtrip. Qed.
Print Assumptions C06_cli_encode_roundtrip.

(* regression vector of 442ffd4: `printf 751e | bits bech32 --hrp bc --wv 1` must give b"bc1pw50q7ulhnr" *)
Example C06_ex_cli_encode_v1 :
  cli_bech32_encode hrp_bc [x75; x1e] (Some 1) false = segwit_addr [x75; x1e] 1 net_mainnet
  /\ cli_bech32_encode hrp_bc [x75; x1e] (Some 1) false
     = Ok [x62; x63; x31; x70; x77; x35; x30; x71; x37; x75; x6c; x68; x6e; x72]
  /\ cli_bech32_encode hrp_bc [x75; x1e] (Some 17) false = Err ValueE.
Proof. vm_compute. auto. Qed.
