(* C11 - BIP143 signature message is correct for every input and sighash type.
   This file contains only the property theorems (closed by [exact]), their assumptions and Examples.

   Reading guide.  [witness_message] is the model of bits.bips.bip143.witness_message AS WRITTEN: it receives
   the inputs and outputs as already serialised byte strings and slices them (txin[:36], txin[-4:]), and it
   receives the scriptCode as the already serialised field (CompactSize prefix included - the function itself
   adds no prefix).  [witness_message_tx] is that function fed through the models of tx.outpoint / tx.txin /
   tx.txout / utils.compact_size_uint from a structured transaction.  [preimage] is BIP143's text
   (Spec/Bip143.v).  [sha256] is universally quantified: the theorems hold for every hash function. *)
From Coq Require Import ZArith List Bool Lia.
Require Import Bits.Lib.Result Bits.Lib.Bytes Bits.Lib.CompactSize.
Require Import Bits.Spec.Bip143 Bits.Model.Bip143 Bits.Proofs.Bip143.
Import ListNotations.
Local Open Scope Z_scope.

(* For every well-formed transaction, every input index, every amount < 2^64, every scriptCode and each of
   the six standard sighash types, the message built by the library is byte-for-byte the BIP143 preimage -
   both through the serialisers of tx.py and directly on the wire-format byte strings. *)
Theorem C11_bip143_exact :
  forall (sha256 : bytes -> bytes) (t : tx) (i : nat) (amount : Z) (script : bytes) (f : Z),
    wf_tx t -> (i < length (tx_ins t))%nat -> 0 <= amount < 2 ^ 64 ->
    Z.of_nat (length script) < 2 ^ 64 -> standard_flag f ->
    exists p, preimage sha256 t i amount script f = Some p
      /\ witness_message_tx sha256 t (Z.of_nat i) amount script (Some f) = Ok p
      /\ mapM ser_in (tx_ins t) = Ok (map ser_txin (tx_ins t))
      /\ mapM ser_out (tx_outs t) = Ok (map ser_txout (tx_outs t))
      /\ ser_scriptcode script = Ok (ser_script script)
      /\ witness_message sha256 (map ser_txin (tx_ins t)) (Z.of_nat i) amount (ser_script script)
                         (map ser_txout (tx_outs t)) (tx_version t) (tx_locktime t) (Some f) = Ok p.
Proof. exact bip143_exact. Qed.
Print Assumptions C11_bip143_exact.

(* the same for every hash type on which the code's three flag tests coincide with BIP143's
   ([flag_ok], decidable: 125 of the 256 one-byte values, among them the six standard ones) *)
Theorem C11_bip143_exact_flag_ok :
  forall (sha256 : bytes -> bytes) (t : tx) (i : nat) (amount : Z) (script : bytes) (f : Z),
    wf_tx t -> (i < length (tx_ins t))%nat -> 0 <= amount < 2 ^ 64 ->
    Z.of_nat (length script) < 2 ^ 64 -> flag_ok f = true ->
    exists p, preimage sha256 t i amount script f = Some p
      /\ witness_message_tx sha256 t (Z.of_nat i) amount script (Some f) = Ok p
      /\ mapM ser_in (tx_ins t) = Ok (map ser_txin (tx_ins t))
      /\ mapM ser_out (tx_outs t) = Ok (map ser_txout (tx_outs t))
      /\ ser_scriptcode script = Ok (ser_script script)
      /\ witness_message sha256 (map ser_txin (tx_ins t)) (Z.of_nat i) amount (ser_script script)
                         (map ser_txout (tx_outs t)) (tx_version t) (tx_locktime t) (Some f) = Ok p.
Proof. exact bip143_exact_gen. Qed.
Print Assumptions C11_bip143_exact_flag_ok.

Theorem C11_flag_census :
  length (filter flag_ok byte_flags) = 125%nat
  /\ forallb flag_ok standard_flags = true
  /\ flag_ok 0x80 = false /\ flag_ok 0x84 = false /\ flag_ok 0x22 = false /\ flag_ok 0x00 = true.
Proof. exact flag_ok_census. Qed.
Print Assumptions C11_flag_census.

(* the signed outpoint, scriptCode, amount and sequence are those of the selected input [i] *)
Theorem C11_selected_fields :
  forall (sha256 : bytes -> bytes) (t : tx) (i : nat) (inp : tx_input) (amount : Z) (script : bytes) (f : Z),
    wf_tx t -> nth_error (tx_ins t) i = Some inp -> 0 <= amount < 2 ^ 64 ->
    Z.of_nat (length script) < 2 ^ 64 -> standard_flag f ->
    witness_message_tx sha256 t (Z.of_nat i) amount script (Some f)
    = Ok (u32le (tx_version t) ++ hash_prevouts sha256 t f ++ hash_sequence sha256 t f
          ++ (ti_txid inp ++ u32le (ti_vout inp))
          ++ (cs_enc (Z.of_nat (length script)) ++ script)
          ++ u64le amount
          ++ u32le (ti_seq inp)
          ++ hash_outputs sha256 t i f
          ++ u32le (tx_locktime t) ++ u32le f).
Proof. exact selected_fields. Qed.
Print Assumptions C11_selected_fields.

(* SINGLE (with or without ANYONECANPAY) and no output of the same index: hashOutputs (and hashSequence)
   are 32 zero bytes *)
Theorem C11_single_out_of_range :
  forall (sha256 : bytes -> bytes) (t : tx) (i : nat) (inp : tx_input) (amount : Z) (script : bytes) (f : Z),
    wf_tx t -> nth_error (tx_ins t) i = Some inp -> 0 <= amount < 2 ^ 64 ->
    Z.of_nat (length script) < 2 ^ 64 ->
    (f = 0x03 \/ f = 0x83) -> (length (tx_outs t) <= i)%nat ->
    witness_message_tx sha256 t (Z.of_nat i) amount script (Some f)
    = Ok (u32le (tx_version t) ++ hash_prevouts sha256 t f ++ zero32
          ++ ser_outpoint inp ++ ser_script script ++ u64le amount ++ u32le (ti_seq inp)
          ++ zero32
          ++ u32le (tx_locktime t) ++ u32le f).
Proof. exact single_out_of_range. Qed.
Print Assumptions C11_single_out_of_range.

(* SINGLE with a matching output commits to exactly that output *)
Theorem C11_single_in_range :
  forall (sha256 : bytes -> bytes) (t : tx) (i : nat) (o : tx_output) (f : Z),
    (f = 0x03 \/ f = 0x83) -> nth_error (tx_outs t) i = Some o ->
    hash_outputs sha256 t i f = Spec.Bip143.hash256 sha256 (ser_txout o).
Proof. exact single_in_range. Qed.
Print Assumptions C11_single_in_range.

(* the serialisers used to feed the function produce the wire format *)
Theorem C11_compact_size_uint : forall n, 0 <= n < 2 ^ 64 -> compact_size_uint n = Ok (cs_enc n).
Proof. exact compact_size_uint_spec. Qed.
Print Assumptions C11_compact_size_uint.

(* ---- outside the property's domain: stated, not hidden ---- *)
(* the default sighash_flag=None is unusable (None & 0x80 -> TypeError) although the function's last lines
   test `if sighash_flag is not None` *)
Theorem C11_default_flag_raises :
  forall (sha256 : bytes -> bytes) txins i v sc txouts ver lt,
    witness_message_py sha256 txins i v sc txouts ver lt None = Err TypeE.
Proof. exact default_flag_raises. Qed.
Print Assumptions C11_default_flag_raises.

Theorem C11_index_out_of_range :
  forall (sha256 : bytes -> bytes) txins i v sc txouts ver lt f,
    Z.of_nat (length txins) <= i -> witness_message sha256 txins i v sc txouts ver lt (Some f) = Err IndexE.
Proof. exact index_out_of_range. Qed.
Print Assumptions C11_index_out_of_range.

(* ---------------- Examples (non-vacuity, concrete vectors) ---------------- *)
Import Coq.Init.Byte.

(* a toy "hash" so that both sides can be evaluated inside Coq *)
Definition toy_hash (m : bytes) : bytes := firstn 32 (m ++ repeat x00 32).

Definition ex_tx : tx := mk_tx 2
  [mk_txin (repeat x11 32) 0 [x51] 0xfffffffe;
   mk_txin (repeat x22 32) 4294967295 [] 0xffffffff;
   mk_txin (repeat x33 32) 7 (repeat xaa 253) 0]
  [mk_txout 0 [x6a];
   mk_txout 2100000000000000 (repeat x00 22)]
  0xffffffff.

Example C11_ex_wf : wf_tx ex_tx.
Proof.
  unfold wf_tx, ex_tx; cbn [tx_version tx_locktime tx_ins tx_outs].
  repeat split; try lia; repeat constructor; cbn; lia.
Qed.

Definition res_eqb (a b : result bytes) : bool :=
  match a, b with Ok x, Ok y => bytes_eqb x y | _, _ => false end.

(* code = spec on the 3-input 2-output transaction: every index (so i <, = n_out - 1, and i = n_out for SINGLE),
   all six flags *)
Example C11_ex_all_flags :
  forallb (fun f => forallb (fun i =>
      res_eqb (witness_message_tx toy_hash ex_tx (Z.of_nat i) 600000000 [x76; xa9; x88; xac] (Some f))
              (of_option IndexE (preimage toy_hash ex_tx i 600000000 [x76; xa9; x88; xac] f)))
    [0; 1; 2]%nat) standard_flags = true.
Proof. vm_compute. reflexivity. Qed.

(* SINGLE, input 2 of a transaction with 2 outputs: literal message with the two zero hashes *)
Example C11_ex_single_oob :
  witness_message_tx toy_hash ex_tx 2 1 [x51] (Some 0x03)
  = Ok ([x02; x00; x00; x00]
        ++ (repeat x11 32)                                   (* toy hash of the outpoints *)
        ++ repeat x00 32                                     (* hashSequence *)
        ++ repeat x33 32 ++ [x07; x00; x00; x00]             (* outpoint of input 2 *)
        ++ [x01; x51]                                        (* scriptCode *)
        ++ [x01; x00; x00; x00; x00; x00; x00; x00]          (* amount *)
        ++ [x00; x00; x00; x00]                              (* sequence of input 2 *)
        ++ repeat x00 32                                     (* hashOutputs *)
        ++ [xff; xff; xff; xff] ++ [x03; x00; x00; x00]).
Proof. vm_compute. reflexivity. Qed.

(* outside the six standard types the code does NOT follow BIP143: e.g. 0x80 (ANYONECANPAY alone) -
   BIP143 zeroes hashSequence, the code hashes the sequences.  Not part of C11's domain. *)
Example C11_ex_nonstandard_flag_deviates :
  exists (h : bytes -> bytes) t i amount script f,
    wf_tx t /\ (i < length (tx_ins t))%nat /\ 0 <= f < 256 /\ ~ standard_flag f
    /\ witness_message_tx h t (Z.of_nat i) amount script (Some f)
       <> of_option IndexE (preimage h t i amount script f).
Proof.
  exists toy_hash, ex_tx, 0%nat, 1, [x51], 0x80.
  split; [exact C11_ex_wf|]. split; [cbn; lia|]. split; [lia|]. split.
  - unfold standard_flag, standard_flags. cbn [In]. intros H.
    repeat (destruct H as [H|H]; [discriminate H|]). exact H.
  - vm_compute. discriminate.
Qed.

(* BIP143 "Native P2WPKH" example (second input, SIGHASH_ALL), with SHA-256 given as the finite table of
   the six digests involved; the published preimage contains hashPrevouts / hashSequence / hashOutputs, so the
   table is cross-checked by the vector itself. *)
Definition bip_tbl : list (bytes * bytes) :=
  [([xff; xf7; xf7; x88; x1a; x80; x99; xaf; xa6; x94; x0d; x42; xd1; xe7; xf6; x36; x2b; xec; x38; x17; x1e; xa3; xed; xf4; x33; x54; x1d; xb4; xe4; xad; x96; x9f; x00; x00; x00; x00; xef; x51; xe1; xb8; x04; xcc; x89; xd1; x82; xd2; x79; x65; x5c; x3a; xa8; x9e; x81; x5b; x1b; x30; x9f; xe2; x87; xd9; xb2; xb5; x5d; x57; xb9; x0e; xc6; x8a; x01; x00; x00; x00],
    [xc7; x71; xf7; xed; x8e; xe6; x22; x4d; x08; x70; x08; x33; xd1; xc6; xd3; x1e; x7a; x1f; x6b; x7a; x38; x40; xc4; xe1; x86; xc2; x21; x36; xe8; xc9; xa6; xed]);
   ([xc7; x71; xf7; xed; x8e; xe6; x22; x4d; x08; x70; x08; x33; xd1; xc6; xd3; x1e; x7a; x1f; x6b; x7a; x38; x40; xc4; xe1; x86; xc2; x21; x36; xe8; xc9; xa6; xed],
    [x96; xb8; x27; xc8; x48; x3d; x4e; x9b; x96; x71; x2b; x67; x13; xa7; xb6; x8d; x6e; x80; x03; xa7; x81; xfe; xba; x36; xc3; x11; x43; x47; x0b; x4e; xfd; x37]);
   ([xee; xff; xff; xff; xff; xff; xff; xff],
    [xb2; x58; xc7; xef; x98; xe1; x77; x04; x84; xc8; x6e; x40; x23; xc5; xb7; x36; x1e; xb8; xe0; x2e; x56; xb6; xfb; x72; x33; xaf; x17; xeb; xe9; xeb; x01; x7e]);
   ([xb2; x58; xc7; xef; x98; xe1; x77; x04; x84; xc8; x6e; x40; x23; xc5; xb7; x36; x1e; xb8; xe0; x2e; x56; xb6; xfb; x72; x33; xaf; x17; xeb; xe9; xeb; x01; x7e],
    [x52; xb0; xa6; x42; xee; xa2; xfb; x7a; xe6; x38; xc3; x6f; x62; x52; xb6; x75; x02; x93; xdb; xe5; x74; xa8; x06; x98; x4b; x8e; x4d; x85; x48; x33; x9a; x3b]);
   ([x20; x2c; xb2; x06; x00; x00; x00; x00; x19; x76; xa9; x14; x82; x80; xb3; x7d; xf3; x78; xdb; x99; xf6; x6f; x85; xc9; x5a; x78; x3a; x76; xac; x7a; x6d; x59; x88; xac; x90; x93; x51; x0d; x00; x00; x00; x00; x19; x76; xa9; x14; x3b; xde; x42; xdb; xee; x7e; x4d; xbe; x6a; x21; xb2; xd5; x0c; xe2; xf0; x16; x7f; xaa; x81; x59; x88; xac],
    [x48; xf8; x8a; xf7; x2c; xd8; xcc; x9a; xf8; xcb; xeb; x53; xb6; xc6; x0b; x20; xb4; xa0; x74; xdc; xd5; xbe; x57; x8c; xbc; x27; x93; x11; xc7; xd7; x2e; xa9]);
   ([x48; xf8; x8a; xf7; x2c; xd8; xcc; x9a; xf8; xcb; xeb; x53; xb6; xc6; x0b; x20; xb4; xa0; x74; xdc; xd5; xbe; x57; x8c; xbc; x27; x93; x11; xc7; xd7; x2e; xa9],
    [x86; x3e; xf3; xe1; xa9; x2a; xfb; xfd; xb9; x7f; x31; xad; x0f; xc7; x68; x3e; xe9; x43; xe9; xab; xcf; x25; x01; x59; x0f; xf8; xf6; x55; x1f; x47; xe5; xe5])].
Definition bip_tx : tx := mk_tx 1
  [mk_txin [xff; xf7; xf7; x88; x1a; x80; x99; xaf; xa6; x94; x0d; x42; xd1; xe7; xf6; x36; x2b; xec; x38; x17; x1e; xa3; xed; xf4; x33; x54; x1d; xb4; xe4; xad; x96; x9f] 0 [] 4294967278;
   mk_txin [xef; x51; xe1; xb8; x04; xcc; x89; xd1; x82; xd2; x79; x65; x5c; x3a; xa8; x9e; x81; x5b; x1b; x30; x9f; xe2; x87; xd9; xb2; xb5; x5d; x57; xb9; x0e; xc6; x8a] 1 [] 4294967295]
  [mk_txout 112340000 [x76; xa9; x14; x82; x80; xb3; x7d; xf3; x78; xdb; x99; xf6; x6f; x85; xc9; x5a; x78; x3a; x76; xac; x7a; x6d; x59; x88; xac];
   mk_txout 223450000 [x76; xa9; x14; x3b; xde; x42; xdb; xee; x7e; x4d; xbe; x6a; x21; xb2; xd5; x0c; xe2; xf0; x16; x7f; xaa; x81; x59; x88; xac]]
  17.
Definition bip_scriptcode : bytes := [x76; xa9; x14; x1d; x0f; x17; x2a; x0e; xcb; x48; xae; xe1; xbe; x1f; x26; x87; xd2; x96; x3a; xe3; x3f; x71; xa1; x88; xac].
Definition bip_preimage : bytes :=
  [x01; x00; x00; x00; x96; xb8; x27; xc8; x48; x3d; x4e; x9b; x96; x71; x2b; x67; x13; xa7; xb6; x8d; x6e; x80; x03; xa7; x81; xfe; xba; x36; xc3; x11; x43; x47; x0b; x4e; xfd; x37; x52; xb0; xa6; x42; xee; xa2; xfb; x7a; xe6; x38; xc3; x6f; x62; x52; xb6; x75; x02; x93; xdb; xe5; x74; xa8; x06; x98; x4b; x8e; x4d; x85; x48; x33; x9a; x3b; xef; x51; xe1; xb8; x04; xcc; x89; xd1; x82; xd2; x79; x65; x5c; x3a; xa8; x9e; x81; x5b; x1b; x30; x9f; xe2; x87; xd9; xb2; xb5; x5d; x57; xb9; x0e; xc6; x8a; x01; x00; x00; x00; x19; x76; xa9; x14; x1d; x0f; x17; x2a; x0e; xcb; x48; xae; xe1; xbe; x1f; x26; x87; xd2; x96; x3a; xe3; x3f; x71; xa1; x88; xac; x00; x46; xc3; x23; x00; x00; x00; x00; xff; xff; xff; xff; x86; x3e; xf3; xe1; xa9; x2a; xfb; xfd; xb9; x7f; x31; xad; x0f; xc7; x68; x3e; xe9; x43; xe9; xab; xcf; x25; x01; x59; x0f; xf8; xf6; x55; x1f; x47; xe5; xe5; x11; x00; x00; x00; x01; x00; x00; x00].

Definition tbl_hash (m : bytes) : bytes :=
  match find (fun p => bytes_eqb (fst p) m) bip_tbl with Some p => snd p | None => [] end.

Example C11_ex_bip143_p2wpkh :
  witness_message_tx tbl_hash bip_tx 1 600000000 bip_scriptcode (Some SIGHASH_ALL) = Ok bip_preimage
  /\ preimage tbl_hash bip_tx 1 600000000 bip_scriptcode SIGHASH_ALL = Some bip_preimage.
Proof. vm_compute. split; reflexivity. Qed.
