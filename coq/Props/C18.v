(* C18 - the node's message queue loses / duplicates / misattributes no message under any
   interleaving of the per-peer receive threads.
   This file contains only the property theorems (closed by [exact]) and their assumptions.
   Model: Model/NodeQueue.v ([step] = the loop body of Node.recv_loop as it is now, [step_old] =
   the body before the repair); statement: Spec/NodeQueue.v ([exactly_once]). *)
From Coq Require Import ZArith List Bool Arith Permutation.
Require Import Bits.Lib.Bytes Bits.Model.NodeQueue Bits.Spec.NodeQueue Bits.Proofs.NodeQueue.
Import ListNotations.
Import Coq.Init.Byte.

(* For every number of threads (length progs), every family of programs and every schedule that
   runs every thread to completion (idle steps of finished threads allowed anywhere):
   - the final queue restricted to peer p is exactly p's unhandled messages, in sending order, tagged p;
   - what was sent to p is a verack for each of its versions and a pong with the same nonce for
     each of its pings, in order, and nothing else;
   - the queue is a permutation of all unhandled messages (no loss, no duplication);
   - nothing handled stays queued, no element carries the id of a thread that does not exist;
   - the version payload stored for p is the last one p sent. *)
Theorem C18_queue_exactly_once : forall (progs : list (list msg)) (sched : list tid),
  complete progs sched ->
  let s := run (init progs) sched in
  (forall p, qproj p (queue s) = tag p (unhandled (prog_of progs p))) /\
  (forall p, sent s p = expected_sent (prog_of progs p)) /\
  Permutation (queue s) (all_unhandled progs) /\
  Forall (fun x => handled (snd x) = false /\ fst x < length progs) (queue s) /\
  (forall p, stored s p = expected_stored (prog_of progs p)).
Proof. exact queue_exactly_once. Qed.
Print Assumptions C18_queue_exactly_once.

(* the hypothesis is satisfiable for EVERY family of programs (one peer after the other), and a
   complete schedule stays complete whatever steps are appended *)
Theorem C18_complete_schedule_exists : forall progs, complete progs (sequential progs).
Proof. exact sequential_complete. Qed.
Print Assumptions C18_complete_schedule_exists.

Theorem C18_complete_extends : forall progs a b, complete progs a -> complete progs (a ++ b).
Proof. exact complete_app. Qed.
Print Assumptions C18_complete_extends.

(* the coarser scheduler of the harness (recv is not a scheduling point) only produces runs of the
   fine-grained semantics, so the statement holds for its complete runs too *)
Theorem C18_eager_is_schedule : forall stp sched s,
  exists sched', run_with (eager stp) s sched = run_with stp s sched'.
Proof. exact eager_is_schedule. Qed.
Print Assumptions C18_eager_is_schedule.

Theorem C18_queue_exactly_once_eager : forall progs sched,
  let s := run_with (eager step) (start_eager step (length progs) (init progs)) sched in
  finished s -> exactly_once progs s.
Proof. exact queue_exactly_once_eager. Qed.
Print Assumptions C18_queue_exactly_once_eager.

(* what is observable at the end does not depend on the interleaving *)
Theorem C18_schedule_independent : forall progs sched1 sched2,
  complete progs sched1 -> complete progs sched2 ->
  let s1 := run (init progs) sched1 in
  let s2 := run (init progs) sched2 in
  (forall p, qproj p (queue s1) = qproj p (queue s2)) /\
  (forall p, sent s1 p = sent s2 p) /\
  (forall p, stored s1 p = stored s2 p) /\
  Permutation (queue s1) (queue s2).
Proof. exact schedule_independent. Qed.
Print Assumptions C18_schedule_independent.

(* for the messages a frame can be ([classify]), "not handled" means exactly "not one of
   version / verack / ping" *)
Theorem C18_unhandled_is_other : forall m, wf_msg m = true ->
  (handled m = false <-> exists name payload, m = Other name payload).
Proof. exact unhandled_iff_other. Qed.
Print Assumptions C18_unhandled_is_other.

Theorem C18_classify_wf : forall cmd payload,
  wf_msg (classify cmd payload) = true /\ command (classify cmd payload) = cmd.
Proof. intros cmd payload. split; [apply classify_wf | apply classify_command]. Qed.
Print Assumptions C18_classify_wf.

(* The loop body BEFORE the repair (append; test; pop-right; handler) violates the very same
   statement: two threads, peer 0 sends a ping, peer 1 an inv, schedule
   0:recv 1:recv 0:append 1:append 0:test 0:pop 0:send 1:test.  Peer 0 pops peer 1's inv: the
   inv is lost and the (answered) ping stays queued. *)
Theorem C18_queue_old_refuted : exists progs sched,
  complete_old progs sched /\ ~ exactly_once progs (run_old (init progs) sched).
Proof. exact queue_old_refuted. Qed.
Print Assumptions C18_queue_old_refuted.

Theorem C18_queue_old_loses_and_keeps :
  let s := run_old (init race_progs) race_sched in
  complete_old race_progs race_sched /\
  qproj 1 (queue s) = [] /\ tag 1 (unhandled (prog_of race_progs 1)) = [(1, Other cmd_inv [x00])] /\
  qproj 0 (queue s) = [(0, Ping 7)] /\ handled (Ping 7) = true /\ sent s 0 = [Pong 7].
Proof. exact queue_old_loses_and_keeps. Qed.
Print Assumptions C18_queue_old_loses_and_keeps.

(* the same programs under the same schedule with the repaired body (one more step: peer 1's append) *)
Example C18_ex_race_repaired :
  let s := run (init race_progs) (race_sched ++ [1]) in
  queue s = [(1, Other cmd_inv [x00])] /\ sent s 0 = [Pong 7] /\ sent s 1 = [].
Proof. exact race_repaired. Qed.

(* three peers, three messages each, an interleaved schedule: the hypothesis holds and the final
   state is the one the theorem predicts *)
Example C18_ex3_complete : complete ex3_progs ex3_sched.
Proof. exact ex3_complete. Qed.

Example C18_ex3_final :
  let s := run (init ex3_progs) ex3_sched in
  queue s = [(2, Other cmd_inv [x0c]); (0, Other cmd_inv [x0a]); (1, Other cmd_addr [x0b])] /\
  map (sent s) [0; 1; 2] = [[VerackR; Pong 5]; [Pong 9]; [VerackR; VerackR]] /\
  map (stored s) [0; 1; 2] = [Some [x01]; None; Some [x03]].
Proof. exact ex3_final. Qed.

Example C18_ex3_instance : exactly_once ex3_progs (run (init ex3_progs) ex3_sched).
Proof. exact (queue_exactly_once ex3_progs ex3_sched ex3_complete). Qed.
