(* C10 - BIP39: the mnemonic is a checksummed bijection of the entropy; the seed is the PBKDF2.
   Only the property theorems (closed by [exact]), their assumptions, and non-vacuity examples.
   All theorems hold for EVERY function sha256 with 32-byte output and EVERY duplicate-free list of
   2048 words; the last corollary instantiates them with the list the code loads now (Gen/Wordlist.v).
   Model: Model/Bip39.v;  standard: Spec/Bip39.v (bit strings, most significant bit first). *)
From Coq Require Import ZArith List.
Require Import Bits.Lib.Result Bits.Lib.Bytes Bits.Lib.RadixW.
Require Import Bits.Spec.Bip39 Bits.Model.Bip39 Bits.Proofs.Bip39 Bits.Proofs.Bip39Spec.
Require Bits.Gen.Wordlist Bits.GenProps.Wordlist.
Import ListNotations.

(* 16/20/24/28/32 bytes of entropy give 12/15/18/21/24 words, all from the list (and the phrase is
   these words joined by single spaces); every other length is refused with ValueError *)
Theorem C10_mnemonic_length :
  forall (sha256 : bytes -> bytes) (wl : list bytes),
  (forall m, length (sha256 m) = 32%nat) -> length wl = 2048%nat ->
  forall e : bytes,
    (In (length e) [16; 20; 24; 28; 32]%nat ->
       exists ws, mnemonic_words sha256 wl e = Ok ws
                  /\ calculate_mnemonic_phrase sha256 wl e = Ok (join_sp ws)
                  /\ In (length e, length ws) [(16, 12); (20, 15); (24, 18); (28, 21); (32, 24)]%nat
                  /\ Forall (fun w => In w wl) ws)
    /\ (~ In (length e) [16; 20; 24; 28; 32]%nat ->
        mnemonic_words sha256 wl e = Err ValueE /\ calculate_mnemonic_phrase sha256 wl e = Err ValueE).
Proof. exact mnemonic_length. Qed.
Print Assumptions C10_mnemonic_length.

(* the words are the ones the standard prescribes: entropy bits followed by the first ENT/32 bits of
   SHA-256(entropy), cut into groups of 11 bits, each group the index of a word [spec_mnemonic] *)
Theorem C10_mnemonic_is_spec :
  forall (sha256 : bytes -> bytes) (wl : list bytes),
  (forall m, length (sha256 m) = 32%nat) -> length wl = 2048%nat ->
  forall e : bytes, In (length e) [16; 20; 24; 28; 32]%nat ->
    mnemonic_words sha256 wl e = Ok (spec_mnemonic sha256 wl e).
Proof. exact mnemonic_is_spec. Qed.
Print Assumptions C10_mnemonic_is_spec.

(* the mnemonic converts back to exactly the entropy it was made from *)
Theorem C10_entropy_roundtrip :
  forall (sha256 : bytes -> bytes) (wl : list bytes),
  (forall m, length (sha256 m) = 32%nat) -> length wl = 2048%nat -> NoDup wl ->
  forall e : bytes, In (length e) [16; 20; 24; 28; 32]%nat ->
    exists ws, mnemonic_words sha256 wl e = Ok ws /\ to_entropy_words sha256 wl ws = Ok e.
Proof. exact entropy_roundtrip. Qed.
Print Assumptions C10_entropy_roundtrip.

(* ... also on the string level: to_entropy(calculate_mnemonic_phrase(e)) = e, given that the words
   are non-empty lower-case ASCII (str.split() undoes " ".join) *)
Theorem C10_phrase_roundtrip :
  forall (sha256 : bytes -> bytes) (wl : list bytes),
  (forall m, length (sha256 m) = 32%nat) -> length wl = 2048%nat -> NoDup wl ->
  Forall (fun w => word_ok w = true) wl ->
  forall e : bytes, In (length e) [16; 20; 24; 28; 32]%nat ->
    exists m, calculate_mnemonic_phrase sha256 wl e = Ok m /\ to_entropy sha256 wl m = Ok e.
Proof. exact phrase_roundtrip. Qed.
Print Assumptions C10_phrase_roundtrip.

(* a sentence of a valid length is accepted, with result e, exactly when every word is in the list,
   its first ENT bits are the bits of e and its trailing CS bits are the leading CS bits of sha256(e)
   [spec_accepts, Spec/Bip39.v] *)
Theorem C10_accept_iff :
  forall (sha256 : bytes -> bytes) (wl : list bytes),
  (forall m, length (sha256 m) = 32%nat) -> length wl = 2048%nat ->
  forall (ws : list bytes) (e : bytes), In (length ws) [12; 15; 18; 21; 24]%nat ->
    (to_entropy_words sha256 wl ws = Ok e
     <-> Forall (fun w => In w wl) ws
         /\ bits_of_bytes e = entropy_bits wl ws
         /\ checksum_bits wl ws = firstn (length ws / 3) (bits_of_bytes (sha256 e))).
Proof. exact accept_iff. Qed.
Print Assumptions C10_accept_iff.

(* of all sentences sharing the same entropy bits at most one is accepted ... *)
Theorem C10_unique_checksum :
  forall (sha256 : bytes -> bytes) (wl : list bytes),
  (forall m, length (sha256 m) = 32%nat) -> length wl = 2048%nat ->
  forall ws1 ws2 e1 e2,
    to_entropy_words sha256 wl ws1 = Ok e1 -> to_entropy_words sha256 wl ws2 = Ok e2 ->
    entropy_bits wl ws1 = entropy_bits wl ws2 -> ws1 = ws2 /\ e1 = e2.
Proof. exact unique_checksum. Qed.
Print Assumptions C10_unique_checksum.

(* ... and one is: for every sentence of list words of a valid length there is an accepted sentence
   with the same entropy bits *)
Theorem C10_unique_checksum_exists :
  forall (sha256 : bytes -> bytes) (wl : list bytes),
  (forall m, length (sha256 m) = 32%nat) -> length wl = 2048%nat -> NoDup wl ->
  forall ws, In (length ws) [12; 15; 18; 21; 24]%nat -> Forall (fun w => In w wl) ws ->
    exists ws' e, length ws' = length ws /\ entropy_bits wl ws' = entropy_bits wl ws
                  /\ to_entropy_words sha256 wl ws' = Ok e.
Proof. exact unique_checksum_exists. Qed.
Print Assumptions C10_unique_checksum_exists.

(* bijection: the accepted sentences are exactly the mnemonics of the valid entropies *)
Theorem C10_accepted_is_mnemonic :
  forall (sha256 : bytes -> bytes) (wl : list bytes),
  (forall m, length (sha256 m) = 32%nat) -> length wl = 2048%nat ->
  forall ws e, to_entropy_words sha256 wl ws = Ok e ->
    In (length e) [16; 20; 24; 28; 32]%nat /\ mnemonic_words sha256 wl e = Ok ws.
Proof. exact accepted_is_mnemonic. Qed.
Print Assumptions C10_accepted_is_mnemonic.

(* every sentence that is not accepted raises: ValueError for a wrong number of words or a word that
   is not in the list, AssertionError for a wrong checksum; nothing else, never a wrong value *)
Theorem C10_rejects_with_error :
  forall (sha256 : bytes -> bytes) (wl : list bytes),
  (forall m, length (sha256 m) = 32%nat) -> length wl = 2048%nat ->
  forall ws : list bytes,
    (~ In (length ws) [12; 15; 18; 21; 24]%nat -> to_entropy_words sha256 wl ws = Err ValueE)
    /\ (In (length ws) [12; 15; 18; 21; 24]%nat -> ~ Forall (fun w => In w wl) ws ->
        to_entropy_words sha256 wl ws = Err ValueE)
    /\ (In (length ws) [12; 15; 18; 21; 24]%nat -> Forall (fun w => In w wl) ws ->
        (forall e, ~ spec_accepts sha256 wl ws e) -> to_entropy_words sha256 wl ws = Err AssertionE).
Proof. exact rejects_with_error. Qed.
Print Assumptions C10_rejects_with_error.

Theorem C10_never_wrong :
  forall (sha256 : bytes -> bytes) (wl : list bytes),
  (forall m, length (sha256 m) = 32%nat) -> length wl = 2048%nat ->
  forall ws r, to_entropy_words sha256 wl ws = r ->
    match r with
    | Ok e => In (length ws) [12; 15; 18; 21; 24]%nat /\ spec_accepts sha256 wl ws e
    | Err k => k = ValueE \/ k = AssertionE
    end.
Proof. exact never_wrong. Qed.
Print Assumptions C10_never_wrong.

(* the seed is the PBKDF2 call of the standard *)
Theorem C10_seed_def :
  forall (pbkdf2_hmac_sha512 : bytes -> bytes -> Z -> Z -> bytes) (nfkd : bytes -> bytes) m p,
    to_seed pbkdf2_hmac_sha512 nfkd m p = pbkdf2_hmac_sha512 (nfkd m) (nfkd (mnemonic_str ++ p)) 2048%Z 64%Z.
Proof. exact seed_def. Qed.
Print Assumptions C10_seed_def.

(* the code normalises "mnemonic" + passphrase as a whole; that is the standard's
   "mnemonic" + NFKD(passphrase) because NFKD never changes the ASCII prefix ending in the starter "c"
   (this fact about Unicode is the hypothesis; the harness checks it on every case) *)
Theorem C10_seed_spec :
  forall (pbkdf2_hmac_sha512 : bytes -> bytes -> Z -> Z -> bytes) (nfkd : bytes -> bytes),
  (forall p, nfkd (salt_prefix ++ p) = salt_prefix ++ nfkd p) ->
  forall m p, to_seed pbkdf2_hmac_sha512 nfkd m p = spec_seed pbkdf2_hmac_sha512 nfkd m p.
Proof. exact seed_spec. Qed.
Print Assumptions C10_seed_spec.

(* ---- instantiated with the word list the code loads NOW ---- *)
Corollary C10_repo_wordlist :
  forall sha256 : bytes -> bytes, (forall m, length (sha256 m) = 32%nat) ->
  let wl := Bits.Gen.Wordlist.wordlist in
  (forall e, In (length e) [16; 20; 24; 28; 32]%nat ->
     exists m, calculate_mnemonic_phrase sha256 wl e = Ok m /\ to_entropy sha256 wl m = Ok e)
  /\ (forall ws e, In (length ws) [12; 15; 18; 21; 24]%nat ->
        (to_entropy_words sha256 wl ws = Ok e <-> spec_accepts sha256 wl ws e))
  /\ (forall ws e, to_entropy_words sha256 wl ws = Ok e -> mnemonic_words sha256 wl e = Ok ws)
  /\ (forall ws, Forall (fun w => word_ok w = true) ws ->
        to_entropy sha256 wl (join_sp ws) = to_entropy_words sha256 wl ws).
Proof.
  intros sha256 Hs wl.
  pose proof Bits.GenProps.Wordlist.gen_wordlist_length as L.
  pose proof Bits.GenProps.Wordlist.gen_wordlist_nodup as N.
  pose proof Bits.GenProps.Wordlist.gen_wordlist_words_ok as K.
  split; [exact (phrase_roundtrip sha256 wl Hs L N K)|].
  split; [exact (accept_iff sha256 wl Hs L)|].
  split; [intros ws e H; exact (proj2 (accepted_is_mnemonic sha256 wl Hs L ws e H))|].
  intros ws H. exact (to_entropy_join sha256 wl ws H).
Qed.
Print Assumptions C10_repo_wordlist.

(* ---- non-vacuity: the hypotheses are satisfiable, concrete instances ---- *)
Import Coq.Init.Byte.
(* an arbitrary "hash" with 32-byte output: 32 copies of the first byte of the message *)
Definition toy_hash (m : bytes) : bytes := repeat (match m with b :: _ => b | [] => x5a end) 32.
Example C10_ex_hyps : (forall m, length (toy_hash m) = 32%nat)
  /\ length Bits.Gen.Wordlist.wordlist = 2048%nat /\ NoDup Bits.Gen.Wordlist.wordlist.
Proof.
  split; [intros m; apply repeat_length|].
  split; [exact Bits.GenProps.Wordlist.gen_wordlist_length|exact Bits.GenProps.Wordlist.gen_wordlist_nodup].
Qed.

Definition w_abandon : bytes := [x61; x62; x61; x6e; x64; x6f; x6e].
Definition w_about : bytes := [x61; x62; x6f; x75; x74].
Definition w_zoo : bytes := [x7a; x6f; x6f].
(* with the toy hash the checksum nibble of 00..00 is 0000 and that of ff..ff is 1111 *)
Example C10_ex_zero :
  mnemonic_words toy_hash Bits.Gen.Wordlist.wordlist (repeat x00 16) = Ok (repeat w_abandon 12)
  /\ to_entropy toy_hash Bits.Gen.Wordlist.wordlist (join_sp (repeat w_abandon 12)) = Ok (repeat x00 16).
Proof. vm_compute. auto. Qed.
Example C10_ex_ones :
  mnemonic_words toy_hash Bits.Gen.Wordlist.wordlist (repeat xff 32) = Ok (repeat w_zoo 24)
  /\ to_entropy_words toy_hash Bits.Gen.Wordlist.wordlist (repeat w_zoo 24) = Ok (repeat xff 32).
Proof. vm_compute. auto. Qed.
(* wrong checksum -> AssertionError; unknown word, wrong count, wrong entropy size -> ValueError *)
Example C10_ex_reject :
  to_entropy_words toy_hash Bits.Gen.Wordlist.wordlist (repeat w_abandon 11 ++ [w_about]) = Err AssertionE
  /\ to_entropy_words toy_hash Bits.Gen.Wordlist.wordlist (repeat w_abandon 11 ++ [[x7a; x7a]]) = Err ValueE
  /\ to_entropy_words toy_hash Bits.Gen.Wordlist.wordlist (repeat w_abandon 13) = Err ValueE
  /\ mnemonic_words toy_hash Bits.Gen.Wordlist.wordlist (repeat x00 17) = Err ValueE.
Proof. vm_compute. auto. Qed.
(* the hypothesis of C10_seed_spec holds e.g. for the identity (NFKD on ASCII) *)
Example C10_ex_seed :
  (forall p, (fun s : bytes => s) (salt_prefix ++ p) = salt_prefix ++ (fun s : bytes => s) p)
  /\ to_seed (fun pw salt it dk => pw ++ salt) (fun s => s) [x61] [x62]
     = [x61; x6d; x6e; x65; x6d; x6f; x6e; x69; x63; x62].
Proof. split; [reflexivity|vm_compute; reflexivity]. Qed.
