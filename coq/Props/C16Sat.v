(* C16 - the numeric premise [sat_exact] of the value layer, closed (proof: Proofs/SatExact.v, via Flocq 4.1.0).

   The node reports every amount as a decimal string with 8 fractional digits; Python's json module turns the string of k
   satoshis into the binary64 nearest to k / 10^8 ([btc_of_sat k]: the correctly rounded quotient), and send_tx computes
   round(amount * 1e8) ([sat_of_btc], Model/SendValue.v).  For EVERY amount that can exist (0 .. 21 000 000 BTC) the two
   roundings cancel: the satoshi value is recovered exactly.  This discharges the hypothesis [sat_exact] of
   C16_inputs_reported / C16_inputs_distinct / C16_conservation / C16_sign_inputs_valid (Props/C16.v) for every
   scantxoutset reply whose amounts are such doubles.

   Trusted base of THIS file: besides the kernel, the standard library's axioms of the classical real numbers that Flocq
   depends on (printed below): ClassicalDedekindReals.sig_not_dec, ClassicalDedekindReals.sig_forall_dec,
   FunctionalExtensionality.functional_extensionality_dep, Classical_Prop.classic.  No axiom is declared by the development.
   The theorems of Props/C16.v do not depend on this file (they keep sat_exact as an explicit hypothesis and stay closed). *)
From Coq Require Import ZArith List.
From Coq Require Import Floats.SpecFloat.
Require Import Bits.Lib.Result Bits.Model.SendValue.
Require Bits.Model.Send Bits.Proofs.Send.
Require Import Bits.Proofs.SatExact.
Import ListNotations.
Local Open Scope Z_scope.

Theorem C16_sat_exact_all :
  forall k : Z, 0 <= k <= 2100000000000000 -> sat_of_btc (btc_of_sat k) = Ok k.
Proof. exact sat_exact_all. Qed.
Print Assumptions C16_sat_exact_all.

(* in the shape the C16 theorems consume *)
Theorem C16_sat_exact_of_json :
  forall (sats : Bits.Model.Send.utxo -> Z) (unspents : list Bits.Model.Send.utxo),
    (forall x, In x unspents -> Bits.Model.Send.u_amount x = btc_of_sat (sats x) /\ 0 <= sats x <= 2100000000000000) ->
    Bits.Proofs.Send.sat_exact sats unspents.
Proof. exact sat_exact_of_json. Qed.
Print Assumptions C16_sat_exact_of_json.

(* the definition used here is the correctly rounded quotient, and the range bound is the money supply *)
Example C16_btc_of_sat_is_division : forall k, btc_of_sat k = SFdiv prec emax (sf_of_me k 0) f1e8.
Proof. reflexivity. Qed.
Print Assumptions C16_btc_of_sat_is_division.

(* the bound cannot simply be dropped: beyond 2^53 satoshi the integer itself is no longer a double *)
Example C16_sat_exact_fails_far_out : sat_of_btc (btc_of_sat (2 ^ 53 + 1)) <> Ok (2 ^ 53 + 1).
Proof. vm_compute. discriminate. Qed.
Print Assumptions C16_sat_exact_fails_far_out.
