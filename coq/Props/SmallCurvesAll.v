(* The curve hypotheses of C01/C02/C03/C09/C12/C14/C16 hold OUTRIGHT on all three small curves.  Kept in its own file:
   the sweeps over (79,67) and (67,79) take minutes of kernel computation (and ~1.5 h for coqchk), so the per-property
   files depend only on the (43,31) instance. *)
From Coq Require Import ZArith.
Require Import Bits.Model.Ecmath Bits.Proofs.Ecmath Bits.Proofs.Ecdsa Bits.Proofs.SmallCurves Bits.Proofs.SmallCurvesBig
  Bits.Proofs.EcdsaNonce Bits.Proofs.EcdsaNonceBig.

Theorem small_curves_all :
  (curve_facts 43 0 7 31 G43 /\ curve_facts_x 43 0 7 31 G43) /\
  (curve_facts 79 0 7 67 G79 /\ curve_facts_x 79 0 7 67 G79) /\
  (curve_facts 67 0 7 79 G67 /\ curve_facts_x 67 0 7 79 G67).
Proof. exact (conj (conj facts_43 facts_x_43) (conj (conj facts_79 facts_x_79) (conj facts_67 facts_x_67))). Qed.
Print Assumptions small_curves_all.
