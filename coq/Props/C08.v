(* C08 - an address or public key maps to exactly its standard scriptPubKey; everything else is refused.
   Only the property theorems (closed by [exact]), their assumptions, and concrete instances.
   Model: Model/Address.v (utils.to_bitcoin_address, script.utils.scriptpubkey as written) on top of the models of
   C07 (Base58Check), C06 (segwit addresses), C14 (SEC1 keys), C13 (script builders).
   Spec: Spec/Templates.v (raw script bytes and version bytes from the developer reference / BIP16 / BIP141).

   Generality: sha256 is ANY function with 32-byte output; the curve parameters p a b are ANY integers in the
   address theorems (an address is recognised as "not a key" by its first byte alone) and satisfy C14's premise
   [sec1_facts] (proved outright for the three small curves) where "valid SEC1 key" is meant.

   HYPOTHESIS of the segwit theorems (DESIGN section 8, C08 H): the encoded address is not ALSO a checksum-valid
   Base58Check string -- the dispatcher tests Base58Check first.  It cannot be discharged for an arbitrary hash
   function: a segwit address without the characters '0' and 'l' consists of Base58 characters only (the hrp, the
   separator '1' and 30 of the 32 data characters are in the Base58 alphabet), so only the 4-byte checksum
   stands in the way.  [C08_segwit_premise_by_char] discharges it for every address that contains '0' or 'l'.

   The suspected collision "33-character address taken for a compressed key" does NOT exist: utils.point compares
   the first byte AS AN INTEGER with 2, 3, 4, and every character of an address is an ASCII letter or digit (>= 0x31):
   [C08_dispatch_disjoint] holds without any premise.

   REPAIRED DEFECT (found by this model, fix: commit in /repo): the Base58Check branch did not check the length of
   the payload; a checksum-valid string with version byte 00/6f/05/c4 and a hash of any length 0..255 other than 20
   was mapped to a non-standard script (b"1DbnRLUXAkXz4" -> 76 a9 05 <5 bytes> 88 ac).  The code now raises
   ValueError; [C08_refuses_others] is stated at full strength and [C08_scriptpubkey_standard] holds. *)
From Coq Require Import ZArith List Bool Lia.
Require Import Bits.Lib.Result Bits.Lib.Bytes Bits.Lib.PyStr.
Require Import Bits.Spec.Base58 Bits.Spec.Bip173 Bits.Spec.Script Bits.Spec.ScriptTemplates.
Require Import Bits.Model.Base58 Bits.Model.Bech32 Bits.Model.Ecmath Bits.Model.Sec1 Bits.Model.Script Bits.Model.Address.
Require Import Bits.Proofs.Sec1 Bits.Proofs.Sec1Small Bits.Proofs.Address.
Require Bits.Spec.Sec1 Bits.Spec.Secp256k1 Bits.Spec.Templates Bits.Proofs.Ecmath.
Import ListNotations.
Import Coq.Init.Byte.
Local Open Scope Z_scope.

Section C08.
  Variable sha256 : bytes -> bytes.
  Hypothesis sha256_len : forall m, length (sha256 m) = 32%nat.
  Variables p a b : Z.

  (* ---- p2pkh_script / p2sh_script: every 20-byte hash, three networks (version bytes 00/6f/6f and 05/c4/c4) ---- *)
  Theorem C08_p2pkh_script : forall (net : T.network) (h : bytes), length h = 20%nat ->
    let addr := base58check sha256 (T.version_byte T.P2PKH net :: h) in
    to_bitcoin_address sha256 h s_p2pkh (net_name net) None = Ok addr
    /\ is_point p a b addr = Ok false
    /\ scriptpubkey sha256 p a b addr = Ok (T.tpl_p2pkh h).
  Proof. exact (b58_address_script sha256 sha256_len p a b T.P2PKH). Qed.

  Theorem C08_p2sh_script : forall (net : T.network) (h : bytes), length h = 20%nat ->
    let addr := base58check sha256 (T.version_byte T.P2SH net :: h) in
    to_bitcoin_address sha256 h s_p2sh (net_name net) None = Ok addr
    /\ is_point p a b addr = Ok false
    /\ scriptpubkey sha256 p a b addr = Ok (T.tpl_p2sh h).
  Proof. exact (b58_address_script sha256 sha256_len p a b T.P2SH). Qed.

  (* ... and every ACCEPTED Base58Check string (not only the encoder's output): known version byte + 20-byte hash *)
  Theorem C08_b58_accepted : forall data v h,
    base58check_decode sha256 data = Ok (v :: h) -> length h = 20%nat ->
    (In v T.p2pkh_versions -> scriptpubkey sha256 p a b data = Ok (T.tpl_p2pkh h))
    /\ (In v T.p2sh_versions -> scriptpubkey sha256 p a b data = Ok (T.tpl_p2sh h)).
  Proof. exact (b58_accepted sha256 sha256_len p a b). Qed.

  (* ---- witness_vn_script: three networks, version 0..16, every program length allowed for the version ---- *)
  Theorem C08_witness_vn_script : forall (net : T.network) (v : Z) (prog : bytes),
    0 <= v <= 16 -> program_length_ok v (length prog) = true ->     (* 2..40 bytes; 20 or 32 for version 0 *)
    exists addr,
      segwit_addr prog v (net_name net) = Ok addr
      /\ (forall ty, to_bitcoin_address sha256 prog ty (net_name net) (Some v) = Ok addr)
      /\ spec_decode addr = Some (net_hrp net, v, prog)
      /\ is_point p a b addr = Ok false
      /\ (is_base58check sha256 addr = false ->
          scriptpubkey sha256 p a b addr = Ok (T.tpl_witness v prog)).         (* OP_v || push prog *)
  Proof. exact (witness_vn_script sha256 sha256_len p a b). Qed.

  Theorem C08_p2wpkh_script : forall (net : T.network) (h : bytes), length h = 20%nat ->
    exists addr, (forall ty, to_bitcoin_address sha256 h ty (net_name net) (Some 0) = Ok addr)
      /\ (is_base58check sha256 addr = false -> scriptpubkey sha256 p a b addr = Ok (T.tpl_p2wpkh h)).
  Proof. exact (p2wpkh_script sha256 sha256_len p a b). Qed.

  Theorem C08_p2wsh_script : forall (net : T.network) (h : bytes), length h = 32%nat ->
    exists addr, (forall ty, to_bitcoin_address sha256 h ty (net_name net) (Some 0) = Ok addr)
      /\ (is_base58check sha256 addr = false -> scriptpubkey sha256 p a b addr = Ok (T.tpl_p2wsh h)).
  Proof. exact (p2wsh_script sha256 sha256_len p a b). Qed.

  (* ... for EVERY string the BIPs accept (upper case, any producer), not only the encoder's output *)
  Theorem C08_segwit_accepted : forall data hrp v prog, spec_decode data = Some (hrp, v, prog) ->
    is_base58check sha256 data = false -> scriptpubkey sha256 p a b data = Ok (T.tpl_witness v prog).
  Proof. exact (scriptpubkey_segwit sha256 sha256_len p a b). Qed.

  (* the hypothesis holds whenever the address contains a character outside the Base58 alphabet ('0', 'l') *)
  Theorem C08_segwit_premise_by_char : forall s c, In c s -> ~ In c alphabet -> is_base58check sha256 s = false.
  Proof. exact (not_b58check_bad_char sha256 sha256_len). Qed.

  (* ---- p2pk_script: whatever is_point accepts (33 or 65 bytes) becomes push key || OP_CHECKSIG ---- *)
  Theorem C08_p2pk_script : forall pk, is_point p a b pk = Ok true ->
    scriptpubkey sha256 p a b pk = Ok (T.tpl_p2pk pk) /\ (length pk = 33%nat \/ length pk = 65%nat).
  Proof. exact (p2pk_script sha256 p a b). Qed.

  (* ---- dispatch_disjoint: an address is never taken for a point and a point never for an address ---- *)
  Theorem C08_dispatch_disjoint : forall data,
    (is_base58check sha256 data = true -> is_point p a b data = Ok false)
    /\ (valid_segwit data = true -> is_point p a b data = Ok false)
    /\ (is_point p a b data = Ok true -> is_base58check sha256 data = false /\ valid_segwit data = false).
  Proof. exact (dispatch_disjoint sha256 sha256_len p a b). Qed.

  (* the reason: a key starts with byte 2, 3 or 4; Base58 characters are >= 0x31, a segwit address starts with a letter *)
  Theorem C08_point_first_byte : forall data, is_point p a b data = Ok true ->
    exists v rest, data = v :: rest /\ (b2z v = 2 \/ b2z v = 3 \/ b2z v = 4)
                   /\ (length data = 33%nat \/ length data = 65%nat).
  Proof. exact (is_point_true_inv p a b). Qed.

  (* ---- the dispatcher as one equation over the three decoders, for every byte string ---- *)
  Theorem C08_scriptpubkey_equation : forall data,
    scriptpubkey sha256 p a b data =
    match is_point p a b data with
    | Err e => Err e
    | Ok true => Ok (T.tpl_p2pk data)
    | Ok false =>
      match base58check_decode sha256 data with
      | Ok pl => b58_branch pl
      | Err _ => match spec_decode data with
                 | Some (_, v, prog) => Ok (T.tpl_witness v prog)
                 | None => Err ValueE
                 end
      end
    end.
  Proof. exact (scriptpubkey_equation sha256 sha256_len p a b). Qed.

  (* ---- refuses_others (full strength): not a key (is_point = False), not a checksum-valid Base58Check string whose
          payload is one of the four version bytes + a 20-byte hash, not a valid segwit address  ==>  ValueError ---- *)
  Theorem C08_refuses_others : forall data,
    is_point p a b data = Ok false ->
    (forall pl, base58check_decode sha256 data = Ok pl -> ~ b58_address_payload pl) ->
    valid_segwit data = false ->
    scriptpubkey sha256 p a b data = Err ValueE.
  Proof. exact (refuses_others sha256 sha256_len p a b). Qed.

  (* in particular: a checksum-valid Base58Check string with one of the 252 other version bytes, no version byte at
     all, or a payload that is not 20 bytes long *)
  Theorem C08_b58_non_address_refused : forall data pl,
    base58check_decode sha256 data = Ok pl -> ~ b58_address_payload pl -> scriptpubkey sha256 p a b data = Err ValueE.
  Proof. exact (b58_non_address_refused sha256 sha256_len p a b). Qed.

  (* never a script unless: a key / an accepted Base58Check address / a valid segwit address -- and then its template *)
  Theorem C08_scriptpubkey_ok_inv : forall data s, scriptpubkey sha256 p a b data = Ok s ->
    (is_point p a b data = Ok true /\ s = T.tpl_p2pk data /\ (length data = 33%nat \/ length data = 65%nat))
    \/ (exists v h, base58check_decode sha256 data = Ok (v :: h) /\ length h = 20%nat /\
          ((In v T.p2pkh_versions /\ s = T.tpl_p2pkh h) \/ (In v T.p2sh_versions /\ s = T.tpl_p2sh h)))
    \/ (exists hrp v prog, spec_decode data = Some (hrp, v, prog) /\ is_base58check sha256 data = false
          /\ s = T.tpl_witness v prog).
  Proof. exact (scriptpubkey_ok_inv sha256 sha256_len p a b). Qed.

  (* every script the dispatcher returns is one of the standard forms of Spec/Templates.v *)
  Theorem C08_scriptpubkey_standard : forall data s, scriptpubkey sha256 p a b data = Ok s -> T.standard_script s.
  Proof. exact (scriptpubkey_standard sha256 sha256_len p a b). Qed.
End C08.
Print Assumptions C08_p2pkh_script.
Print Assumptions C08_p2sh_script.
Print Assumptions C08_b58_accepted.
Print Assumptions C08_witness_vn_script.
Print Assumptions C08_p2wpkh_script.
Print Assumptions C08_p2wsh_script.
Print Assumptions C08_segwit_accepted.
Print Assumptions C08_segwit_premise_by_char.
Print Assumptions C08_p2pk_script.
Print Assumptions C08_dispatch_disjoint.
Print Assumptions C08_point_first_byte.
Print Assumptions C08_scriptpubkey_equation.
Print Assumptions C08_refuses_others.
Print Assumptions C08_scriptpubkey_ok_inv.
Print Assumptions C08_b58_non_address_refused.
Print Assumptions C08_scriptpubkey_standard.

(* ---- with C14's premise about the curve: "valid SEC1 public key" (Spec/Sec1.v) ---- *)
Theorem C08_p2pk_script_valid_key : forall (sha256 : bytes -> bytes) p a b, sec1_facts p a b ->
  forall pk x y, Spec.Sec1.valid_encoding p a b pk x y ->
    scriptpubkey sha256 p a b pk = Ok (T.tpl_p2pk pk).
Proof. exact p2pk_script_valid_key. Qed.
Print Assumptions C08_p2pk_script_valid_key.

(* both forms of every curve point: 21 <33 bytes> ac / 41 <65 bytes> ac *)
Theorem C08_p2pk_script_both : forall (sha256 : bytes -> bytes) p a b, sec1_facts p a b ->
  forall x y c, Bits.Proofs.Ecmath.oncurve p a b (Some (x, y)) ->
    scriptpubkey sha256 p a b (Spec.Sec1.encode c x y)
    = Ok ((if c then x21 else x41) :: Spec.Sec1.encode c x y ++ [xac]).
Proof. exact p2pk_script_both. Qed.
Print Assumptions C08_p2pk_script_both.

Theorem C08_refuses_others_total : forall (sha256 : bytes -> bytes), (forall m, length (sha256 m) = 32%nat) ->
  forall p a b, sec1_facts p a b -> forall data,
    (forall x y, ~ Spec.Sec1.valid_encoding p a b data x y) ->                       (* not a valid key *)
    (forall pl, base58check_decode sha256 data = Ok pl -> ~ b58_address_payload pl) -> (* not a Base58Check address *)
    valid_segwit data = false ->                                                      (* not a valid segwit address *)
    scriptpubkey sha256 p a b data = Err ValueE.
Proof. exact refuses_others_total. Qed.
Print Assumptions C08_refuses_others_total.

(* total: a standard script or ValueError, never another exception *)
Theorem C08_scriptpubkey_total : forall (sha256 : bytes -> bytes), (forall m, length (sha256 m) = 32%nat) ->
  forall p a b, sec1_facts p a b -> forall data,
    (exists s, scriptpubkey sha256 p a b data = Ok s /\ T.standard_script s) \/ scriptpubkey sha256 p a b data = Err ValueE.
Proof. exact scriptpubkey_total. Qed.
Print Assumptions C08_scriptpubkey_total.

(* the raw templates are the reference assembly (C13's Spec/Script.v) of the item-list templates *)
Theorem C08_templates_are_assembly : forall h, length h = 20%nat ->
  spec_asm (tpl_p2pkh h) = T.tpl_p2pkh h /\ spec_asm (tpl_p2sh h) = T.tpl_p2sh h
  /\ spec_asm (tpl_witness_program 0 h) = T.tpl_p2wpkh h.
Proof. exact templates_are_assembly. Qed.
Theorem C08_witness_template_is_assembly : forall v prog, 0 <= v <= 16 -> 1 <= lenZ prog <= 75 ->
  spec_asm (tpl_witness_program v prog) = T.tpl_witness v prog.
Proof. exact witness_template_is_assembly. Qed.
Print Assumptions C08_witness_template_is_assembly.

(* the unconditional forms on a small curve *)
Corollary C08_p2pk_script_both_43 : forall (sha256 : bytes -> bytes) x y c,
  Bits.Proofs.Ecmath.oncurve 43 0 7 (Some (x, y)) ->
  scriptpubkey sha256 43 0 7 (Spec.Sec1.encode c x y) = Ok ((if c then x21 else x41) :: Spec.Sec1.encode c x y ++ [xac]).
Proof. intros sha256. exact (C08_p2pk_script_both sha256 43 0 7 sec1_facts_43). Qed.
Print Assumptions C08_p2pk_script_both_43.

(* ------------------------------- non-vacuity / vectors ------------------------------- *)
(* a hash function with the length property, and one that answers the two queries of the doctest address
   b"1A4wionHnAtthCbCb9CTmDJaKuEPNXZp8R" as SHA-256 does *)
Definition ex_sha0 (m : bytes) : bytes := repeat x00 32.
Example C08_ex_sha_hyp : forall m, length (ex_sha0 m) = 32%nat.
Proof. reflexivity. Qed.

Definition ex_pl : bytes :=
  [x00; x63; x78; x0e; xfe; x21; xb5; x4d; x46; x2d; x39; x9b; x4c; x5b; x99; x02; x23; x5a; xa5; x70; xec].
Definition ex_h1 : bytes :=
  [x0b; xf8; x23; x49; x28; x63; x33; x06; xf7; x63; x5e; xbe; x26; x2a; x24; xbf; x40; x27; x7d; x9c; xcd; xf8; x4b;
   xfe; x8b; x13; xbc; x37; x0e; x0d; x47; xd5].
Definition ex_h2 : bytes :=
  [x0d; xf2; xa4; x4a; xf3; xdf; x79; x59; x31; x3f; xae; x25; xc7; xfb; xc7; x92; xf4; xe4; x1e; x88; xc9; x96; x42;
   x3e; xac; x1b; x57; x99; xbc; xe8; x6b; xec].
Definition ex_sha (m : bytes) : bytes :=
  if bytes_eqb m ex_pl then ex_h1 else if bytes_eqb m ex_h1 then ex_h2 else repeat x00 32.
Example C08_ex_sha_hyp2 : forall m, length (ex_sha m) = 32%nat.
Proof. intros m. unfold ex_sha. destruct (bytes_eqb m ex_pl); [reflexivity|]. destruct (bytes_eqb m ex_h1); reflexivity. Qed.

Definition secp_p := Spec.Secp256k1.p.
Definition secp_a := Spec.Secp256k1.a.
Definition secp_b := Spec.Secp256k1.b.

(* the four doctest vectors of scriptpubkey's docstring, on secp256k1 *)
Definition ex_addr_p2pkh : bytes :=      (* b"1A4wionHnAtthCbCb9CTmDJaKuEPNXZp8R" *)
  [x31; x41; x34; x77; x69; x6f; x6e; x48; x6e; x41; x74; x74; x68; x43; x62; x43; x62; x39; x43; x54; x6d; x44; x4a;
   x61; x4b; x75; x45; x50; x4e; x58; x5a; x70; x38; x52].
Definition ex_hash : bytes := skipn 1 ex_pl.
Example C08_ex_p2pkh :
  to_bitcoin_address ex_sha ex_hash s_p2pkh net_mainnet None = Ok ex_addr_p2pkh
  /\ scriptpubkey ex_sha secp_p secp_a secp_b ex_addr_p2pkh = Ok ([x76; xa9; x14] ++ ex_hash ++ [x88; xac])
  /\ T.tpl_p2pkh ex_hash = [x76; xa9; x14] ++ ex_hash ++ [x88; xac] /\ length ex_hash = 20%nat.
Proof. vm_compute. repeat split; reflexivity. Qed.

Definition ex_addr_p2wpkh : bytes :=     (* b"bc1qvduqal3pk4x5vtfendx9hxgzydd22u8v0pzd7h" *)
  [x62; x63; x31; x71; x76; x64; x75; x71; x61; x6c; x33; x70; x6b; x34; x78; x35; x76; x74; x66; x65; x6e; x64; x78;
   x39; x68; x78; x67; x7a; x79; x64; x64; x32; x32; x75; x38; x76; x30; x70; x7a; x64; x37; x68].
Example C08_ex_p2wpkh :
  to_bitcoin_address ex_sha0 ex_hash s_p2pkh net_mainnet (Some 0) = Ok ex_addr_p2wpkh
  /\ is_base58check ex_sha0 ex_addr_p2wpkh = false                            (* the hypothesis H is satisfiable *)
  /\ scriptpubkey ex_sha0 secp_p secp_a secp_b ex_addr_p2wpkh = Ok ([x00; x14] ++ ex_hash)
  /\ program_length_ok 0 (length ex_hash) = true.
Proof. vm_compute. repeat split; reflexivity. Qed.

(* a 2-byte version-16 program and a 40-byte version-1 program on regtest / testnet: the generic branch *)
Example C08_ex_witness_generic :
  match segwit_addr [x75; x1e] 16 net_regtest with
  | Ok addr => scriptpubkey ex_sha0 secp_p secp_a secp_b addr = Ok [x60; x02; x75; x1e] | Err _ => False end
  /\ match segwit_addr (repeat xff 40) 1 net_testnet with
     | Ok addr => scriptpubkey ex_sha0 secp_p secp_a secp_b addr = Ok (x51 :: x28 :: repeat xff 40) | Err _ => False end.
Proof. vm_compute. split; reflexivity. Qed.

(* a compressed key on secp256k1 (the doctest vector): 21 <key> ac *)
Definition ex_key : bytes :=
  [x02; x5a; x05; x8e; xc9; xfb; x35; x84; x5c; xe0; x7b; x6e; xc4; x92; x9b; x44; x31; x32; xb2; xfc; xe2; xbb; x15;
   x4e; x3a; xa6; x6c; x19; xb8; x51; xb0; xc4; x49].
Example C08_ex_p2pk : scriptpubkey ex_sha0 secp_p secp_a secp_b ex_key = Ok (x21 :: ex_key ++ [xac]).
Proof. vm_compute. reflexivity. Qed.

(* small curve: both key forms; a hybrid / off-curve / wrong-length buffer is refused *)
Example C08_ex_p2pk_small :
  scriptpubkey ex_sha0 43 0 7 (x02 :: to_be 32 2) = Ok (x21 :: (x02 :: to_be 32 2) ++ [xac])
  /\ scriptpubkey ex_sha0 43 0 7 (x04 :: to_be 32 2 ++ to_be 32 12) = Ok (x41 :: (x04 :: to_be 32 2 ++ to_be 32 12) ++ [xac])
  /\ scriptpubkey ex_sha0 43 0 7 (x06 :: to_be 32 2 ++ to_be 32 12) = Err ValueE
  /\ scriptpubkey ex_sha0 43 0 7 (x02 :: to_be 32 1) = Err ValueE
  /\ scriptpubkey ex_sha0 43 0 7 (x02 :: to_be 32 2 ++ to_be 32 12) = Err ValueE
  /\ scriptpubkey ex_sha0 43 0 7 [] = Err ValueE.
Proof. vm_compute. repeat split; reflexivity. Qed.

(* the repaired defect on a concrete string: b"1DbnRLUXAkXz4" = base58check(00 || 11 11 11 11 11) is refused now
   (the pinned code returned 76 a9 05 11 11 11 11 11 88 ac) *)
Definition short_payload : bytes := [x11; x11; x11; x11; x11].
Definition ex_short_h1 : bytes :=
  [x67; xe9; x63; x9a; x2b; x27; xa9; x8e; x00; xb6; x73; x66; x84; x48; x89; x2a; x92; x70; x34; x93; x3f; xb8; x26;
   x39; xa9; x8f; xec; xd6; x69; x27; x24; x39].
Definition ex_short_h2 : bytes :=
  [x7f; xbc; xdc; x6d; xa9; x17; xfc; xb9; x3b; xfe; x76; x4f; x25; x42; x5e; xa7; xc3; xba; x17; xb2; xaa; xc2; xc4;
   xc6; x75; xdf; x29; x2e; xde; x3e; x1d; xa9].
Definition ex_sha_short (m : bytes) : bytes :=
  if bytes_eqb m (x00 :: short_payload) then ex_short_h1 else if bytes_eqb m ex_short_h1 then ex_short_h2
  else repeat x00 32.
Example C08_ex_short_payload :
  base58check_decode ex_sha_short [x31; x44; x62; x6e; x52; x4c; x55; x58; x41; x6b; x58; x7a; x34] = Ok (x00 :: short_payload)
  /\ scriptpubkey ex_sha_short secp_p secp_a secp_b [x31; x44; x62; x6e; x52; x4c; x55; x58; x41; x6b; x58; x7a; x34]
     = Err ValueE.
Proof. vm_compute. split; reflexivity. Qed.

(* the premise of refuses_others about Base58Check payloads: a 5-byte hash and the version byte 0x01 are not address
   payloads; the doctest address's payload is *)
Example C08_ex_b58_address_payload :
  ~ b58_address_payload (x00 :: short_payload) /\ ~ b58_address_payload (x01 :: ex_hash) /\ ~ b58_address_payload []
  /\ b58_address_payload ex_pl.
Proof.
  repeat split.
  - intros (v & h & E & L & _). injection E as <- <-. discriminate L.
  - intros (v & h & E & _ & [I|I]); injection E as <- <-; cbn in I; intuition discriminate.
  - intros (v & h & E & _). discriminate E.
  - exists x00, ex_hash. repeat split. left. cbn. auto.
Qed.

(* unknown version byte 0x01, an all-Base58 string with a bad checksum, the empty string *)
Example C08_ex_refused :
  scriptpubkey ex_sha0 secp_p secp_a secp_b (base58check ex_sha0 [x01; x02; x03]) = Err ValueE
  /\ scriptpubkey ex_sha0 secp_p secp_a secp_b [x31; x41; x34] = Err ValueE
  /\ scriptpubkey ex_sha0 secp_p secp_a secp_b [] = Err ValueE.
Proof. vm_compute. repeat split; reflexivity. Qed.

(* the curve premise is satisfiable *)
Example C08_ex_curve : sec1_facts 43 0 7 /\ Bits.Proofs.Ecmath.oncurve 43 0 7 (Some (2, 12)).
Proof. split; [exact sec1_facts_43 | vm_compute; auto]. Qed.
