(* C15 - Blocks are well-formed: merkle root, coinbase rules, block round trip.
   Only the property theorems (closed by [exact]) with their assumptions, and concrete instances.
   Models: Model/Merkle.v (merkle_root), Model/Coinbase.v (coinbase_txin, coinbase_tx, the commitment lines of
   mine_block), Model/Block.v (block_header, block_ser, block_header_deser, block_deser), Model/Tx.v (tx_deser).
   Specifications: Spec/Merkle.v, Spec/Subsidy.v, Spec/ScriptNum.v, Spec/Coinbase.v (from the developer
   reference, Bitcoin Core and BIP34/BIP141/BIP144).  sha256 is an arbitrary function everywhere. *)
From Coq Require Import ZArith List Bool.
Require Import Bits.Lib.Result Bits.Lib.Bytes.
Require Import Bits.Spec.Merkle Bits.Spec.Subsidy Bits.Spec.ScriptNum Bits.Spec.Coinbase.
Require Import Bits.Model.CompactSize Bits.Model.Witness Bits.Model.Tx.
Require Import Bits.Model.Merkle Bits.Model.Coinbase Bits.Model.Block.
Require Import Bits.Proofs.Merkle Bits.Proofs.ScriptNum Bits.Proofs.Coinbase Bits.Proofs.Block Bits.Proofs.BlockTx.
Require Import Bits.Proofs.Tx Bits.Proofs.CoinbaseTx.
Require Import Bits.Model.MineBlock Bits.Proofs.MineBlock.
Import ListNotations.
Import Coq.Init.Byte.
Local Open Scope Z_scope.

(* ------------------------------------------------------------------------------------------------ *)
(* merkle root                                                                                      *)
(* ------------------------------------------------------------------------------------------------ *)
(* for every non-empty list of ids (every length), the code's loop returns the specification's root *)
Theorem C15_merkle_is_spec : forall (sha256 : bytes -> bytes) (l : list bytes),
  l <> [] -> Model.Merkle.merkle_root sha256 l = Ok (Spec.Merkle.merkle sha256 l).
Proof. exact merkle_is_spec. Qed.
Print Assumptions C15_merkle_is_spec.

(* the while loop never runs out of the fuel the model gives it (= number of ids), on ANY input;
   ceil(log2 n) iterations are enough *)
Theorem C15_merkle_no_fuel : forall (sha256 : bytes -> bytes) (l : list bytes),
  Model.Merkle.merkle_root sha256 l <> Err FuelE.
Proof. exact merkle_root_no_fuel. Qed.
Print Assumptions C15_merkle_no_fuel.

Theorem C15_merkle_levels : forall (sha256 : bytes -> bytes) (l : list bytes), l <> [] ->
  Model.Merkle.merkle_root_fuel sha256 (Nat.log2_up (length l)) l = Ok (Spec.Merkle.merkle sha256 l).
Proof. exact merkle_root_levels. Qed.
Print Assumptions C15_merkle_levels.

(* the specification itself, without its level bound: a single id is its own root; otherwise pair the row
   (last node of an odd row with itself) and continue *)
Theorem C15_spec_merkle_unfold : forall (sha256 : bytes -> bytes),
  (forall a, Spec.Merkle.merkle sha256 [a] = a) /\
  (forall row, (2 <= length row)%nat ->
     Spec.Merkle.merkle sha256 row = Spec.Merkle.merkle sha256 (Spec.Merkle.next_level sha256 row)).
Proof. intros sha256. split; [exact (merkle_single sha256) | exact (merkle_unfold sha256)]. Qed.
Print Assumptions C15_spec_merkle_unfold.

Theorem C15_merkle_empty : forall sha256, Model.Merkle.merkle_root sha256 [] = Err IndexE.
Proof. exact merkle_root_empty. Qed.

(* ------------------------------------------------------------------------------------------------ *)
(* BIP34                                                                                            *)
(* ------------------------------------------------------------------------------------------------ *)
(* for every height 0 <= h < 2^599 (in particular < 2^31) the bytes coinbase_txin prepends are exactly
   CScript() << h, the prefix Bitcoin Core's ContextualCheckBlock demands *)
Theorem C15_bip34_push : forall h, 0 <= h < 2 ^ 599 -> height_push h = Ok (push_int h).
Proof. exact height_push_is_spec. Qed.
Print Assumptions C15_bip34_push.

(* ... that push reads back as h whatever follows (OP_0 / OP_1..OP_16 below 17, else a minimally encoded
   script number in a direct push), *)
Theorem C15_bip34_decodes : forall h rest, 0 <= h < 2 ^ 599 ->
  read_push_int (push_int h ++ rest) = Some (h, rest).
Proof. exact read_push_int_push_int. Qed.
Print Assumptions C15_bip34_decodes.

(* ... and the script number is minimal: accepted by Core's minimality rule, decodes to h, and no byte string
   that decodes to h is shorter *)
Theorem C15_bip34_minimal : forall h, 0 <= h ->
  scriptnum_dec (scriptnum_enc h) = h /\ scriptnum_minimal (scriptnum_enc h) = true /\
  (forall bs, scriptnum_dec bs = h -> (length (scriptnum_enc h) <= length bs)%nat).
Proof.
  intros h H. split; [exact (scriptnum_dec_enc h H)|]. split; [exact (scriptnum_enc_minimal h H)|].
  intros bs D. exact (scriptnum_enc_shortest h bs H D).
Qed.
Print Assumptions C15_bip34_minimal.

(* ------------------------------------------------------------------------------------------------ *)
(* coinbase shape, subsidy, commitment                                                              *)
(* ------------------------------------------------------------------------------------------------ *)
(* coinbase_txin: one null-outpoint input whose script is (height push ++) coinbase_script, <= 100 bytes;
   a longer script is a ValueError *)
Theorem C15_coinbase_txin_shape : forall cs seq bh t, coinbase_txin cs seq bh = Ok t ->
  exists script, prepend_height cs bh = Ok script /\ (length script <= 100)%nat /\
                 t = null_outpoint ++ len_cs script ++ script ++ seq.
Proof. exact coinbase_txin_inv. Qed.
Print Assumptions C15_coinbase_txin_shape.

Theorem C15_coinbase_txin_limit : forall cs seq bh script,
  prepend_height cs bh = Ok script -> (100 < length script)%nat -> coinbase_txin cs seq bh = Err ValueE.
Proof. exact coinbase_txin_too_long. Qed.
Print Assumptions C15_coinbase_txin_limit.

(* coinbase_shape + subsidy_exact + commitment: every coinbase the code builds is, byte for byte, the
   serialisation the standards prescribe of: version 1, ONE input (null outpoint, script = height push ++
   coinbase_script of at most 100 bytes, sequence ffffffff), first output (value, script_pubkey) where value is
   the explicit reward or, by default, EXACTLY the subsidy of the height, and in both cases never more than the
   subsidy when a height is given; second output (0, commitment script) and the reserved-value witness exactly
   when a (non-empty) witness root argument is supplied; lock_time 0 *)
Theorem C15_coinbase_shape : forall cs spk reward height regtest wroot t,
  coinbase_tx cs spk reward height regtest wroot = Ok t ->
  exists script value commit,
    prepend_height cs height = Ok script /\ (length script <= 100)%nat /\
    claimed reward height regtest = Some value /\ 0 <= value < 2 ^ 64 /\ zlen spk < 2 ^ 64 /\
    (forall h, height = Some h -> 0 <= h /\ value <= subsidy h (interval_of regtest)) /\
    commit_spk wroot = Ok commit /\
    t = coinbase_expected script value spk commit.
Proof. exact coinbase_tx_inv. Qed.
Print Assumptions C15_coinbase_shape.

(* ... and it IS built whenever the pieces are in range (the theorem above is not vacuous) *)
Theorem C15_coinbase_built : forall cs spk reward height regtest wroot script value commit,
  prepend_height cs height = Ok script -> (length script <= 100)%nat ->
  (forall h, height = Some h -> 0 <= h) ->
  claimed reward height regtest = Some value -> 0 <= value < 2 ^ 64 ->
  (forall h r, height = Some h -> reward = Some r -> r <= subsidy h (interval_of regtest)) ->
  zlen spk < 2 ^ 64 ->
  commit_spk wroot = Ok commit -> (forall c, commit = Some c -> zlen c < 2 ^ 64) ->
  coinbase_tx cs spk reward height regtest wroot = Ok (coinbase_expected script value spk commit).
Proof. exact coinbase_tx_ok. Qed.
Print Assumptions C15_coinbase_built.

Theorem C15_coinbase_script_limit : forall cs spk reward height regtest wroot script,
  prepend_height cs height = Ok script -> (100 < length script)%nat ->
  exists e, coinbase_tx cs spk reward height regtest wroot = Err e.
Proof. exact coinbase_tx_script_limit. Qed.
Print Assumptions C15_coinbase_script_limit.

(* subsidy_exact, spelled out: default claim = Spec.subsidy h 210000 (150 on regtest) *)
Theorem C15_subsidy_default : forall h regtest, 0 <= h ->
  claimed None (Some h) regtest = Some (subsidy h (if regtest then 150 else 210000)).
Proof. intros h [|] _; reflexivity. Qed.
Print Assumptions C15_subsidy_default.

Theorem C15_subsidy_refuses_more : forall cs spk r h regtest wroot,
  0 <= h -> subsidy h (interval_of regtest) < r ->
  coinbase_tx cs spk (Some r) (Some h) regtest wroot = Err AssertionE.
Proof. exact coinbase_tx_reward_too_high. Qed.
Print Assumptions C15_subsidy_refuses_more.

(* commitment_iff: the second output + witness are present iff a non-empty root argument is supplied; for a
   32-byte argument the output script is 6a 24 aa21a9ed ++ argument (BIP141 layout) *)
Theorem C15_commitment_iff : forall wroot c, commit_spk wroot = Ok c ->
  (c <> None <-> exists b r, wroot = Some (b :: r)).
Proof. exact commit_spk_none_iff. Qed.
Print Assumptions C15_commitment_iff.

Theorem C15_commitment_script : forall root, length root = 32%nat ->
  commit_spk (Some root) = Ok (Some (commitment_script root)).
Proof. exact commit_spk_32. Qed.
Print Assumptions C15_commitment_script.

(* FINDING (API/documentation, not reached by mine_block): the parameter is called witness_merkle_root_hash and
   documented as "witness merkle root", but the bytes are written verbatim: passing the bare witness root yields the
   BIP141 commitment of that root only for a fixed point of r |-> hash256(r ++ reserved) *)
Theorem C15_commitment_arg_is_hash_not_root : forall (sha256 : bytes -> bytes) root, length root = 32%nat ->
  (commit_spk (Some root) = Ok (Some (commitment_script (commitment_hash sha256 root witness_reserved_value)))
   <-> commitment_hash sha256 root witness_reserved_value = root).
Proof. exact commitment_arg_is_the_hash. Qed.
Print Assumptions C15_commitment_arg_is_hash_not_root.

(* the argument mine_block passes is Double-SHA256(witness root | witness reserved value), the witness root being
   the merkle root over [00..00 (coinbase)] ++ wtxids: with C15_commitment_script this is BIP141's structure *)
Theorem C15_commitment_bip141 : forall (sha256 : bytes -> bytes) wtxids,
  mine_block_commitment sha256 wtxids
  = Ok (commitment_hash sha256 (witness_root sha256 wtxids) witness_reserved_value).
Proof. exact mine_block_commitment_is_bip141. Qed.
Print Assumptions C15_commitment_bip141.

(* mine_block's assembly, end to end, for well-formed mempool transactions [ts] (serialised as [raws], ids
   [ids] = (txid, wtxid) per transaction) and any hash with 32-byte output: the coinbase starts with the BIP34 push
   of the new height, claims exactly the subsidy, carries the BIP141 commitment
   6a24aa21a9ed ++ hash256(witness root ++ reserved) iff some transaction has txid <> wtxid, and the merkle root
   put into the header is Bitcoin's merkle root of [coinbase txid] ++ txids *)
Theorem C15_mine_block_assembly : forall (sha256 : bytes -> bytes), (forall m, length (sha256 m) = 32%nat) ->
  forall spk h rt ts raws ids,
  0 <= h + 1 < 2 ^ 31 -> zlen spk < 2 ^ 64 ->
  Forall wf_tx ts -> mapM tx_ser ts = Ok raws -> mapM (tx_ids sha256) ts = Ok ids ->
  let must_commit := existsb (fun i => negb (bytes_eqb (fst i) (snd i))) ids in
  let commit := if must_commit
                then Some (commitment_script
                             (commitment_hash sha256 (witness_root sha256 (map snd ids)) witness_reserved_value))
                else None in
  let script := push_int (h + 1) ++ [x62; x69; x74; x73] in
  let value := subsidy (h + 1) (interval_of rt) in
  exists cb_txid cb_wtxid,
    tx_ids sha256 (coinbase_struct script value spk commit) = Ok (cb_txid, cb_wtxid) /\
    mine_block_assemble sha256 spk h rt raws
    = Ok (coinbase_expected script value spk commit, Spec.Merkle.merkle sha256 (cb_txid :: map fst ids)).
Proof. exact mine_block_assemble_spec. Qed.
Print Assumptions C15_mine_block_assembly.

(* ------------------------------------------------------------------------------------------------ *)
(* header and block round trip                                                                      *)
(* ------------------------------------------------------------------------------------------------ *)
Theorem C15_header_roundtrip : forall h, wf_header h ->
  block_header h = Ok (header_bytes h) /\ length (header_bytes h) = 80%nat /\
  block_header_deser (header_bytes h) = Ok h.
Proof.
  intros h W. destruct (header_roundtrip h W) as [A B].
  split; [exact A|]. split; [exact (header_bytes_length h W) | exact B].
Qed.
Print Assumptions C15_header_roundtrip.

Theorem C15_header_deser_ser : forall bs h, block_header_deser bs = Ok h ->
  length bs = 80%nat /\ wf_header h /\ block_header h = Ok bs.
Proof. exact header_deser_ser. Qed.
Print Assumptions C15_header_deser_ser.

Theorem C15_header_deser_accepts : forall bs, (exists h, block_header_deser bs = Ok h) <-> length bs = 80%nat.
Proof. exact header_deser_ok_iff. Qed.
Print Assumptions C15_header_deser_accepts.

(* block_roundtrip: serialise header + transactions, deserialise: same header fields, the same transactions
   in order, each with raw = its serialisation, wtxid = hash256(raw), txid = hash256(serialisation without
   witness)  -- with the transaction codec of C05/C04 (Model/Tx.v, Proofs/Tx.v: tx_roundtrip) *)
Theorem C15_block_roundtrip : forall (sha256 : bytes -> bytes) h ts raws,
  wf_header h -> Forall wf_tx ts -> mapM tx_ser ts = Ok raws -> Z.of_nat (length ts) < 2 ^ 64 ->
  exists hdr blk ps, block_header h = Ok hdr /\ length hdr = 80%nat /\ block_ser hdr raws = Ok blk /\
    block_deser tx_parsed (tx_deser sha256) blk = Ok (h, ps) /\
    Forall2 (parsed_ok sha256) ts ps /\ map p_raw ps = raws.
Proof. exact block_roundtrip_header. Qed.
Print Assumptions C15_block_roundtrip.

(* the same for ANY transaction parser that satisfies the codec law on the given serialised transactions *)
Theorem C15_block_roundtrip_any_codec : forall (T : Type) (tx_deser : bytes -> result (T * bytes)) hdr h txns ps,
  block_header_deser hdr = Ok h -> Forall2 (parses_as T tx_deser) txns ps -> Z.of_nat (length txns) < 2 ^ 64 ->
  exists blk, block_ser hdr txns = Ok blk /\ block_deser T tx_deser blk = Ok (h, ps).
Proof. exact block_roundtrip_gen. Qed.
Print Assumptions C15_block_roundtrip_any_codec.

(* the while loop of block_deser never exhausts its fuel (= bytes after the count) when every successful
   transaction parse consumes at least one byte and the parser itself never reports FuelE *)
Theorem C15_block_deser_no_fuel : forall (T : Type) (tx_deser : bytes -> result (T * bytes)),
  (forall bs p rest, tx_deser bs = Ok (p, rest) -> (length rest < length bs)%nat) ->
  forall block, (forall bs, tx_deser bs <> Err FuelE) -> block_deser T tx_deser block <> Err FuelE.
Proof. exact block_deser_no_fuel. Qed.
Print Assumptions C15_block_deser_no_fuel.

(* ... instantiated with the transaction parser of Model/Tx.v (Proofs/TxTotal.v): no hypothesis left *)
Theorem C15_block_deser_tx_no_fuel : forall (sha256 : bytes -> bytes) block,
  block_deser tx_parsed (tx_deser sha256) block <> Err FuelE.
Proof. exact block_deser_tx_no_fuel. Qed.
Print Assumptions C15_block_deser_tx_no_fuel.

(* the coinbase through the library's own parser: exactly one input, null outpoint, the script, sequence
   ffffffff; payout output (+ commitment output and reserved-value witness iff supplied); raw = the coinbase *)
Theorem C15_coinbase_parses : forall (sha256 : bytes -> bytes) cs spk reward height regtest wroot t,
  coinbase_tx cs spk reward height regtest wroot = Ok t ->
  exists script value commit,
    prepend_height cs height = Ok script /\ claimed reward height regtest = Some value /\
    commit_spk wroot = Ok commit /\
    forall rest, exists txid_,
      tx_deser sha256 (t ++ rest)
      = Ok (mk_parsed txid_ (Model.Tx.hash256 sha256 t) t
              (mk_tx 1 [mk_txin null_txid 4294967295 script [xff; xff; xff; xff]]
                     (mk_txout value spk :: match commit with Some c => [mk_txout 0 c] | None => [] end)
                     (match commit with Some _ => Some [[witness_reserved_value]] | None => None end) 0), rest).
Proof. exact coinbase_tx_parses. Qed.
Print Assumptions C15_coinbase_parses.

(* the program that is extracted for the correspondence run (it avoids building 2**halvings) is the same function *)
Theorem C15_extracted_coinbase_tx_is_model : forall cs spk reward height regtest wroot,
  coinbase_tx_fast cs spk reward height regtest wroot = coinbase_tx cs spk reward height regtest wroot.
Proof. exact coinbase_tx_fast_eq. Qed.
Print Assumptions C15_extracted_coinbase_tx_is_model.

(* ------------------------------------------------------------------------------------------------ *)
(* concrete instances (hypotheses are satisfiable; vectors)                                         *)
(* ------------------------------------------------------------------------------------------------ *)
(* the length hypothesis on the hash is satisfiable *)
Example C15_ex_hash_len : forall m : bytes, length ((fun _ : bytes => repeat x00 32) m) = 32%nat.
Proof. reflexivity. Qed.

(* a toy "hash" to evaluate shapes inside Coq: keeps the first 4 bytes *)
Definition toy (m : bytes) : bytes := firstn 4 m.

Example C15_ex_merkle_5 :
  Model.Merkle.merkle_root toy [[x01]; [x02]; [x03]; [x04]; [x05]] = Ok [x01; x02; x03; x04]
  /\ Spec.Merkle.merkle toy [[x01]; [x02]; [x03]; [x04]; [x05]] = [x01; x02; x03; x04]
  /\ Spec.Merkle.next_level toy [[x01]; [x02]; [x03]; [x04]; [x05]] = [[x01; x02]; [x03; x04]; [x05; x05]].
Proof. vm_compute. auto. Qed.

(* BIP34 vectors: boundaries 0, 1, 16, 17, 127, 128, 255, 256, 32767, 32768, 2^23-1, 2^23, 2^31-1 *)
Example C15_ex_bip34 :
  map height_push [0; 1; 16; 17; 127; 128; 255; 256; 32767; 32768; 8388607; 8388608; 2147483647]
  = [Ok [x00]; Ok [x51]; Ok [x60]; Ok [x01; x11]; Ok [x01; x7f]; Ok [x02; x80; x00]; Ok [x02; xff; x00];
     Ok [x02; x00; x01]; Ok [x02; xff; x7f]; Ok [x03; x00; x80; x00]; Ok [x03; xff; xff; x7f];
     Ok [x04; x00; x00; x80; x00]; Ok [x04; xff; xff; xff; x7f]].
Proof. vm_compute. reflexivity. Qed.

Example C15_ex_bip34_block_227836 :   (* the first BIP34 block of mainnet starts its script with 03 fc 79 03 *)
  height_push 227836 = Ok [x03; xfc; x79; x03] /\ push_int 227836 = [x03; xfc; x79; x03].
Proof. vm_compute. auto. Qed.

Example C15_ex_subsidy :
  map (fun h => subsidy h 210000) [0; 209999; 210000; 419999; 420000; 6929999; 6930000; 13439999; 13440000; 2147483647]
  = [5000000000; 5000000000; 2500000000; 2500000000; 1250000000; 1; 0; 0; 0; 0]
  /\ map (fun h => subsidy h 150) [0; 149; 150; 299; 300; 4949; 4950; 9599; 9600] = [5000000000; 5000000000; 2500000000; 2500000000; 1250000000; 1; 0; 0; 0].
Proof. vm_compute. auto. Qed.

(* a coinbase with height 840000, default reward (4th halving: 3.125 BTC), no commitment *)
Example C15_ex_coinbase :
  coinbase_tx [x62; x69; x74; x73] [x51] None (Some 840000) false None
  = Ok (coinbase_expected ([x03; x40; xd1; x0c] ++ [x62; x69; x74; x73]) 312500000 [x51] None)
  /\ prepend_height [x62; x69; x74; x73] (Some 840000) = Ok [x03; x40; xd1; x0c; x62; x69; x74; x73].
Proof. vm_compute. auto. Qed.

Example C15_ex_coinbase_commit :
  coinbase_tx [] [x51] None (Some 101) true (Some (repeat xab 32))
  = Ok (coinbase_expected [x01; x65] 5000000000 [x51] (Some (commitment_script (repeat xab 32))))
  /\ commit_spk (Some (repeat xab 32)) = Ok (Some (commitment_script (repeat xab 32)))
  /\ coinbase_tx [] [x51] None (Some 150) true None = Ok (coinbase_expected [x02; x96; x00] 2500000000 [x51] None).
Proof. vm_compute. auto. Qed.

Example C15_ex_coinbase_errors :
  coinbase_tx (repeat x00 100) [x51] None (Some 0) false None = Err ValueE          (* 101-byte script *)
  /\ coinbase_tx (repeat x00 100) [x51] (Some 1) None false None
     = Ok (coinbase_expected (repeat x00 100) 1 [x51] None)                           (* exactly 100 is fine *)
  /\ coinbase_tx [] [x51] (Some 5000000001) (Some 0) false None = Err AssertionE     (* more than the subsidy *)
  /\ coinbase_tx [] [x51] (Some 2500000001) (Some 210000) false None = Err AssertionE
  /\ coinbase_tx [] [x51] (Some 2500000001) (Some 150) false None
     = Ok (coinbase_expected [x02; x96; x00] 2500000001 [x51] None)                   (* mainnet: still 50 BTC at 150 *)
  /\ coinbase_tx [] [x51] None None false None = Err AttributeE.                      (* neither height nor reward *)
Proof. vm_compute. repeat split. Qed.

(* the genesis header: 80 bytes, round trip *)
Definition genesis_header : header :=
  mk_header 1 (repeat x00 32)
    [x3b; xa3; xed; xfd; x7a; x7b; x12; xb2; x7a; xc7; x2c; x3e; x67; x76; x8f; x61; x7f; xc8; x1b; xc3; x88; x8a;
     x51; x32; x3a; x9f; xb8; xaa; x4b; x1e; x5e; x4a]
    1231006505 [xff; xff; x00; x1d] 2083236893.
Example C15_ex_genesis_header : wf_header genesis_header
  /\ (exists bs, block_header genesis_header = Ok bs /\ length bs = 80%nat /\ block_header_deser bs = Ok genesis_header).
Proof.
  split; [unfold wf_header; vm_compute; intuition congruence|].
  eexists. split; [vm_compute; reflexivity|]. vm_compute. auto.
Qed.

(* a block of two transactions (one legacy, one segwit) satisfies the hypotheses of C15_block_roundtrip *)
Definition ex_tx_legacy : tx_t :=
  mk_tx 1 [mk_txin (repeat x11 32) 0 [x51] [xff; xff; xff; xff]] [mk_txout 5000 [x51]] None 0.
Definition ex_tx_segwit : tx_t :=
  mk_tx 2 [mk_txin (repeat x22 32) 1 [] [xfe; xff; xff; xff]] [mk_txout 7 [x00; x14]] (Some [[[x01]; []]]) 9.
Example C15_ex_block_hyps : Forall wf_tx [ex_tx_legacy; ex_tx_segwit]
  /\ exists raws, mapM tx_ser [ex_tx_legacy; ex_tx_segwit] = Ok raws.
Proof.
  split.
  - repeat constructor; vm_compute; try congruence; repeat constructor; vm_compute; congruence.
  - eexists. vm_compute. reflexivity.
Qed.
