(* Abstract commutative group on a carrier with a validity predicate (the curve points), and
   scalar multiplication: n-fold addition vs MSB-first double-and-add. *)
From Coq Require Import ZArith Lia PArith.
Local Open Scope Z_scope.

Section Group.
  Variable T : Type.
  Variable V : T -> Prop.            (* "is a point of the curve" *)
  Variable op : T -> T -> T.
  Variable e : T.
  Variable inv : T -> T.

  Record group_laws : Prop := {
    g_e : V e;
    g_closed : forall x y, V x -> V y -> V (op x y);
    g_inv_closed : forall x, V x -> V (inv x);
    g_assoc : forall x y z, V x -> V y -> V z -> op (op x y) z = op x (op y z);
    g_comm : forall x y, V x -> V y -> op x y = op y x;
    g_id_l : forall x, op e x = x;
    g_id_r : forall x, op x e = x;
    g_inv_r : forall x, V x -> op x (inv x) = e;
  }.

  Hypothesis GL : group_laws.

  (* n-fold addition: the specification of scalar multiplication *)
  Fixpoint nmul (k : nat) (x : T) : T :=
    match k with O => e | S k' => op x (nmul k' x) end.

  Lemma nmul_V k x : V x -> V (nmul k x).
  Proof. intros Hx. induction k; simpl; [apply GL | apply GL; auto]. Qed.

  Lemma nmul_add j k x : V x -> nmul (j + k) x = op (nmul j x) (nmul k x).
  Proof.
    intros Hx. induction j as [|j IH]; simpl.
    - now rewrite (g_id_l GL).
    - rewrite IH. rewrite (g_assoc GL); auto using nmul_V.
  Qed.

  Lemma nmul_1 x : nmul 1 x = x.
  Proof. simpl. apply GL. Qed.

  Lemma nmul_mul j k x : V x -> nmul j (nmul k x) = nmul (j * k) x.
  Proof.
    intros Hx. induction j as [|j IH]; simpl; [reflexivity|].
    rewrite IH. now rewrite nmul_add.
  Qed.

  Lemma nmul_e k : nmul k e = e.
  Proof. induction k; simpl; [reflexivity|]. rewrite IHk. apply GL. Qed.

  Lemma nmul_op k x y : V x -> V y -> nmul k (op x y) = op (nmul k x) (nmul k y).
  Proof.
    intros Hx Hy. induction k as [|k IH]; simpl; [now rewrite (g_id_l GL)|].
    rewrite IH.
    assert (Vx := nmul_V k x Hx). assert (Vy := nmul_V k y Hy).
    rewrite (g_assoc GL x y) by (auto; apply GL; auto).
    rewrite <- (g_assoc GL y (nmul k x)) by auto.
    rewrite (g_comm GL y (nmul k x)) by auto.
    rewrite (g_assoc GL (nmul k x) y) by auto.
    rewrite <- (g_assoc GL x (nmul k x)) by (auto; apply GL; auto).
    reflexivity.
  Qed.

  Lemma op_cancel_l x y z : V x -> V y -> V z -> op x y = op x z -> y = z.
  Proof.
    intros Hx Hy Hz H.
    assert (E : op (inv x) (op x y) = op (inv x) (op x z)) by now rewrite H.
    assert (Vi := g_inv_closed GL x Hx).
    rewrite <- !(g_assoc GL) in E by auto.
    rewrite (g_comm GL (inv x) x) in E by auto.
    rewrite (g_inv_r GL x Hx) in E. now rewrite !(g_id_l GL) in E.
  Qed.

  Lemma inv_unique x y : V x -> V y -> op x y = e -> y = inv x.
  Proof.
    intros Hx Hy H. apply (op_cancel_l x); auto. apply GL; auto.
    now rewrite (g_inv_r GL x Hx).
  Qed.

  Lemma inv_op x y : V x -> V y -> inv (op x y) = op (inv x) (inv y).
  Proof.
    intros Hx Hy. symmetry. apply inv_unique; try (apply GL; auto; apply GL; auto).
    assert (Vix := g_inv_closed GL x Hx). assert (Viy := g_inv_closed GL y Hy).
    rewrite (g_assoc GL x y) by (auto; apply GL; auto).
    rewrite <- (g_assoc GL y (inv x)) by auto.
    rewrite (g_comm GL y (inv x)) by auto.
    rewrite (g_assoc GL (inv x) y) by auto.
    rewrite (g_inv_r GL y Hy), (g_id_r GL). apply GL; auto.
  Qed.

  Lemma inv_inv x : V x -> inv (inv x) = x.
  Proof.
    intros Hx. symmetry. apply inv_unique; auto. apply GL; auto.
    rewrite (g_comm GL); auto; apply GL; auto.
  Qed.

  Lemma inv_e : inv e = e.
  Proof. symmetry. apply inv_unique; try apply GL. Qed.

  Lemma nmul_inv k x : V x -> nmul k (inv x) = inv (nmul k x).
  Proof.
    intros Hx. induction k as [|k IH]; simpl; [now rewrite inv_e|].
    rewrite IH. rewrite inv_op; auto using nmul_V.
  Qed.

  (* ---- MSB-first double-and-add, as the code computes it ---- *)
  Fixpoint dbl_add_pos (k : positive) (x : T) : T :=
    match k with
    | xH => op (op e e) x
    | xO k' => let r := dbl_add_pos k' x in op r r
    | xI k' => let r := dbl_add_pos k' x in op (op r r) x
    end.

  Definition dbl_add (k : Z) (x : T) : T :=
    match k with Z0 => e | Zpos q => dbl_add_pos q x | Zneg _ => e end.

  Lemma dbl_add_pos_spec k x : V x -> dbl_add_pos k x = nmul (Pos.to_nat k) x.
  Proof.
    intros Hx. induction k as [k IH|k IH|]; cbn [dbl_add_pos].
    - rewrite IH. rewrite Pos2Nat.inj_xI.
      rewrite <- nmul_add by auto.
      replace (S (2 * Pos.to_nat k)) with ((Pos.to_nat k + Pos.to_nat k) + 1)%nat by lia.
      rewrite (nmul_add _ 1) by auto. now rewrite nmul_1.
    - rewrite IH. rewrite Pos2Nat.inj_xO. rewrite <- nmul_add by auto. f_equal. lia.
    - rewrite (g_id_l GL), (g_id_l GL). simpl. now rewrite (g_id_r GL).
  Qed.

  Theorem dbl_add_spec k x : V x -> 0 <= k -> dbl_add k x = nmul (Z.to_nat k) x.
  Proof.
    intros Hx Hk. destruct k as [|q|q]; simpl; [reflexivity| |lia].
    now apply dbl_add_pos_spec.
  Qed.

  Lemma dbl_add_V k x : V x -> 0 <= k -> V (dbl_add k x).
  Proof. intros. rewrite dbl_add_spec by auto. now apply nmul_V. Qed.

  Theorem dbl_add_add j k x : V x -> 0 <= j -> 0 <= k ->
    dbl_add (j + k) x = op (dbl_add j x) (dbl_add k x).
  Proof.
    intros Hx Hj Hk. rewrite !dbl_add_spec by (auto; lia).
    rewrite Z2Nat.inj_add by lia. now apply nmul_add.
  Qed.

  Theorem dbl_add_mul j k x : V x -> 0 <= j -> 0 <= k ->
    dbl_add j (dbl_add k x) = dbl_add (j * k) x.
  Proof.
    intros Hx Hj Hk. rewrite (dbl_add_spec k) by auto.
    rewrite !dbl_add_spec by (auto using nmul_V; nia).
    rewrite Z2Nat.inj_mul by lia. now apply nmul_mul.
  Qed.

  (* ---- an element of order n ---- *)
  Section Order.
    Variable n : Z.
    Variable g : T.
    Hypothesis Hn : 0 < n.
    Hypothesis Vg : V g.
    Hypothesis order : dbl_add n g = e.

    Lemma dbl_add_mod k : 0 <= k -> dbl_add (k mod n) g = dbl_add k g.
    Proof.
      intros Hk. rewrite (Z.div_mod k n) at 2 by lia.
      assert (0 <= k / n) by (apply Z.div_pos; lia).
      assert (0 <= k mod n < n) by (apply Z.mod_pos_bound; lia).
      rewrite dbl_add_add by (auto; nia).
      rewrite Z.mul_comm, <- dbl_add_mul by (auto; lia).
      rewrite order. rewrite (dbl_add_spec _ e) by (try apply GL; lia).
      rewrite nmul_e. now rewrite (g_id_l GL).
    Qed.

    Lemma dbl_add_congr j k : 0 <= j -> 0 <= k -> j mod n = k mod n -> dbl_add j g = dbl_add k g.
    Proof. intros Hj Hk E. rewrite <- (dbl_add_mod j), <- (dbl_add_mod k) by auto. now rewrite E. Qed.

    (* (-k) g = inv (k g) *)
    Lemma dbl_add_neg k : 0 <= k -> dbl_add ((- k) mod n) g = inv (dbl_add k g).
    Proof.
      intros Hk.
      assert (Vk := dbl_add_V k g Vg Hk).
      assert (R : 0 <= (- k) mod n < n) by (apply Z.mod_pos_bound; lia).
      apply inv_unique; auto. { apply dbl_add_V; auto; lia. }
      rewrite <- dbl_add_add by (auto; lia).
      rewrite <- (dbl_add_mod (k + (- k) mod n)) by lia.
      rewrite Zplus_mod_idemp_r. replace (k + - k) with 0 by lia.
      rewrite Z.mod_0_l by lia. reflexivity.
    Qed.
  End Order.
End Group.
