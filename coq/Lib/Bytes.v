(* Byte strings: [list Init.Byte.byte]; integer <-> byte-string conversions as
   Python's int.to_bytes / int.from_bytes, with their lemmas. *)
From Coq Require Import ZArith List Lia Bool.
Require Coq.Strings.Byte.
Require Import Bits.Lib.Result.
Import ListNotations.
Local Open Scope Z_scope.

Notation byte := Coq.Init.Byte.byte.
Definition bytes := list byte.

Definition b2n (b : byte) : N := Coq.Strings.Byte.to_N b.
Definition b2z (b : byte) : Z := Z.of_N (b2n b).
(* total: reduces modulo 256 *)
Definition z2b (z : Z) : byte :=
  match Coq.Strings.Byte.of_N (Z.to_N (z mod 256)) with
  | Some b => b
  | None => Coq.Init.Byte.x00
  end.

Definition byte_eqb (a b : byte) : bool := Coq.Strings.Byte.eqb a b.
Definition byte_eq_dec : forall a b : byte, {a = b} + {a <> b} := Coq.Strings.Byte.byte_eq_dec.

Fixpoint bytes_eqb (a b : bytes) : bool :=
  match a, b with
  | [], [] => true
  | x :: a', y :: b' => byte_eqb x y && bytes_eqb a' b'
  | _, _ => false
  end.

Lemma b2z_range b : 0 <= b2z b < 256.
Proof.
  unfold b2z, b2n. pose proof (Coq.Strings.Byte.to_N_bounded b). lia.
Qed.

Lemma z2b_b2z b : z2b (b2z b) = b.
Proof.
  unfold z2b. pose proof (b2z_range b) as H.
  rewrite Z.mod_small by lia. unfold b2z, b2n. rewrite N2Z.id.
  now rewrite Coq.Strings.Byte.of_to_N.
Qed.

Lemma b2z_z2b z : 0 <= z < 256 -> b2z (z2b z) = z.
Proof.
  intros H. unfold z2b. rewrite Z.mod_small by lia.
  destruct (Coq.Strings.Byte.of_N (Z.to_N z)) as [b|] eqn:E.
  - apply Coq.Strings.Byte.to_of_N in E. unfold b2z, b2n. rewrite E. lia.
  - apply Coq.Strings.Byte.of_N_None_iff in E. lia.
Qed.

Lemma b2z_z2b_mod z : b2z (z2b z) = z mod 256.
Proof.
  assert (z2b z = z2b (z mod 256)) as ->.
  { unfold z2b. now rewrite Z.mod_mod by lia. }
  apply b2z_z2b. apply Z.mod_pos_bound. lia.
Qed.

Lemma b2z_inj a b : b2z a = b2z b -> a = b.
Proof. intros H. rewrite <- (z2b_b2z a), <- (z2b_b2z b). now rewrite H. Qed.

Lemma byte_eqb_eq a b : byte_eqb a b = true <-> a = b.
Proof. unfold byte_eqb. apply Coq.Strings.Byte.byte_dec_bl || (split; [apply Coq.Strings.Byte.byte_dec_bl | apply Coq.Strings.Byte.byte_dec_lb]). Qed.

Lemma bytes_eqb_eq a b : bytes_eqb a b = true <-> a = b.
Proof.
  revert b; induction a as [|x a IH]; intros [|y b]; simpl; try (split; congruence).
  rewrite andb_true_iff, byte_eqb_eq, IH. split; [intros [-> ->]; auto | intros H; inversion H; auto].
Qed.

(* ---- big-endian / little-endian, as int.from_bytes ---- *)
Definition of_be (bs : bytes) : Z := fold_left (fun acc b => acc * 256 + b2z b) bs 0.
Definition of_le (bs : bytes) : Z := of_be (rev bs).

(* int.to_bytes(k, "big") for 0 <= n < 256^k (callers check the range) *)
Fixpoint to_le (k : nat) (n : Z) : bytes :=
  match k with
  | O => []
  | S k' => z2b n :: to_le k' (n / 256)
  end.
Definition to_be (k : nat) (n : Z) : bytes := rev (to_le k n).

(* checked variants: OverflowError outside the range, as Python *)
Definition to_le_chk (k : nat) (n : Z) : result bytes :=
  if (0 <=? n) && (n <? 256 ^ Z.of_nat k) then Ok (to_le k n) else Err OverflowE.
Definition to_be_chk (k : nat) (n : Z) : result bytes :=
  if (0 <=? n) && (n <? 256 ^ Z.of_nat k) then Ok (to_be k n) else Err OverflowE.

Lemma to_le_length k n : length (to_le k n) = k.
Proof. revert n; induction k; simpl; auto. Qed.
Lemma to_be_length k n : length (to_be k n) = k.
Proof. unfold to_be. now rewrite rev_length, to_le_length. Qed.

Lemma of_be_acc bs acc :
  fold_left (fun acc b => acc * 256 + b2z b) bs acc
  = acc * 256 ^ Z.of_nat (length bs) + of_be bs.
Proof.
  unfold of_be. revert acc. induction bs as [|b bs IH]; intros acc.
  - simpl. lia.
  - cbn [fold_left length]. rewrite IH. rewrite (IH (0 * 256 + b2z b)).
    rewrite Nat2Z.inj_succ, Z.pow_succ_r by lia. ring.
Qed.

Lemma of_be_app a b : of_be (a ++ b) = of_be a * 256 ^ Z.of_nat (length b) + of_be b.
Proof. unfold of_be at 1. rewrite fold_left_app. fold (of_be a). apply of_be_acc. Qed.

Lemma of_be_nonneg bs : 0 <= of_be bs.
Proof.
  unfold of_be. induction bs as [|b bs IH] using rev_ind; simpl; [lia|].
  rewrite fold_left_app. simpl. pose proof (b2z_range b). lia.
Qed.

Lemma of_be_bound bs : of_be bs < 256 ^ Z.of_nat (length bs).
Proof.
  induction bs as [|b bs IH] using rev_ind; [unfold of_be; simpl; lia|].
  rewrite of_be_app, app_length. simpl length.
  rewrite Nat2Z.inj_add, Z.pow_add_r by lia. change (Z.of_nat 1) with 1.
  rewrite Z.pow_1_r. unfold of_be at 2. simpl. pose proof (b2z_range b).
  pose proof (of_be_nonneg bs). nia.
Qed.

Lemma of_le_to_le k n : 0 <= n < 256 ^ Z.of_nat k -> of_le (to_le k n) = n.
Proof.
  revert n. induction k as [|k IH]; intros n H.
  - simpl in *. unfold of_le, of_be. simpl. lia.
  - cbn [to_le]. unfold of_le. cbn [rev]. rewrite of_be_app.
    fold (of_le (to_le k (n / 256))). rewrite IH.
    + unfold of_be. simpl. rewrite b2z_z2b_mod.
      pose proof (Z.div_mod n 256). lia.
    + rewrite Nat2Z.inj_succ, Z.pow_succ_r in H by lia.
      split; [apply Z.div_pos; lia | apply Z.div_lt_upper_bound; lia].
Qed.

Lemma of_be_to_be k n : 0 <= n < 256 ^ Z.of_nat k -> of_be (to_be k n) = n.
Proof.
  intros H. unfold to_be. rewrite <- (of_le_to_le k n H) at 2. unfold of_le. reflexivity.
Qed.

Lemma z2b_mod z : z2b (z mod 256) = z2b z.
Proof. unfold z2b. now rewrite Z.mod_mod by lia. Qed.

Lemma to_le_of_le bs : to_le (length bs) (of_le bs) = bs.
Proof.
  induction bs as [|b bs IH]; [reflexivity|].
  unfold of_le. cbn [rev length to_le]. rewrite of_be_app. cbn [length].
  change (Z.of_nat 1) with 1. rewrite Z.pow_1_r.
  assert (Hb: of_be [b] = b2z b) by (unfold of_be; simpl; lia). rewrite Hb.
  pose proof (b2z_range b) as R.
  f_equal.
  - rewrite <- z2b_mod. rewrite Z.add_comm, Z.mod_add by lia.
    rewrite Z.mod_small by lia. apply z2b_b2z.
  - replace ((of_be (rev bs) * 256 + b2z b) / 256) with (of_le bs); [exact IH|].
    unfold of_le. rewrite Z.add_comm, Z.div_add by lia. rewrite Z.div_small by lia. lia.
Qed.

Lemma to_be_of_be bs : to_be (length bs) (of_be bs) = bs.
Proof.
  unfold to_be. rewrite <- (rev_involutive bs) at 3. f_equal.
  rewrite <- (rev_length bs). replace (of_be bs) with (of_le (rev bs)).
  - apply to_le_of_le.
  - unfold of_le. now rewrite rev_involutive.
Qed.

(* Python slicing never fails *)
Definition slice {A} (i j : nat) (l : list A) : list A := firstn (j - i) (skipn i l).
Definition lastn {A} (n : nat) (l : list A) : list A := skipn (length l - n) l.
Definition droplast {A} (n : nat) (l : list A) : list A := firstn (length l - n) l.

(* strip leading occurrences of a byte: bytes.lstrip(b"\x00") *)
Fixpoint lstrip (c : byte) (l : bytes) : bytes :=
  match l with
  | [] => []
  | x :: xs => if byte_eqb x c then lstrip c xs else l
  end.

Lemma lstrip_length c l : (length (lstrip c l) <= length l)%nat.
Proof.
  induction l as [|x xs IH]; simpl; [lia|].
  destruct (byte_eqb x c); simpl; lia.
Qed.

Lemma lstrip_spec c l :
  l = repeat c (length l - length (lstrip c l)) ++ lstrip c l
  /\ (forall x xs, lstrip c l = x :: xs -> x <> c).
Proof.
  induction l as [|x xs IH].
  - split; auto. discriminate.
  - cbn [lstrip]. destruct (byte_eqb x c) eqn:E.
    + apply byte_eqb_eq in E. subst x. destruct IH as (H1 & H3).
      pose proof (lstrip_length c xs) as HL. cbn [length].
      replace (S (length xs) - length (lstrip c xs))%nat
        with (S (length xs - length (lstrip c xs))) by lia.
      cbn [repeat app]. split; [f_equal; exact H1|auto].
    + rewrite Nat.sub_diag. cbn [repeat app]. split; auto.
      intros y ys H. inversion H; subst. intros ->.
      assert (byte_eqb c c = true) by now apply byte_eqb_eq. congruence.
Qed.
