(* Python built-ins used by the script code (NOT repo code), with their lemmas:
     l[:z] / l[z:] for an integer z (clamped, never a data-sized nat), bytes.hex(), bytes.fromhex(),
     str.startswith(), f"{int}", association-list lookup (dict / module attribute tables).
   Strings are their UTF-8 bytes. *)
From Coq Require Import ZArith List Lia Bool.
Require Coq.Strings.String.
Require Import Bits.Lib.Result Bits.Lib.Bytes Bits.Lib.Radix.
Import ListNotations.
Import Coq.Init.Byte.
Local Open Scope Z_scope.

(* a Coq string literal as a byte string *)
Definition str (s : Coq.Strings.String.string) : bytes := Coq.Strings.String.list_byte_of_string s.

(* ---------- slices with integer bounds ---------- *)
Definition lenZ {A} (l : list A) : Z := Z.of_nat (length l).
Definition clampz {A} (z : Z) (l : list A) : nat := Z.to_nat (Z.min z (lenZ l)).
Definition ztake {A} (z : Z) (l : list A) : list A := firstn (clampz z l) l.   (* l[:z], z >= 0 *)
Definition zdrop {A} (z : Z) (l : list A) : list A := skipn (clampz z l) l.    (* l[z:], z >= 0 *)

Lemma lenZ_nonneg {A} (l : list A) : 0 <= lenZ l.
Proof. unfold lenZ. lia. Qed.

Lemma lenZ_app {A} (a b : list A) : lenZ (a ++ b) = lenZ a + lenZ b.
Proof. unfold lenZ. rewrite app_length. lia. Qed.

Lemma lenZ_cons {A} (x : A) l : lenZ (x :: l) = 1 + lenZ l.
Proof. unfold lenZ. cbn [length]. lia. Qed.

Lemma ztake_zdrop {A} z (l : list A) : ztake z l ++ zdrop z l = l.
Proof. apply firstn_skipn. Qed.

Lemma clampz_app_exact {A} (a r : list A) : clampz (lenZ a) (a ++ r) = length a.
Proof. unfold clampz. rewrite lenZ_app. pose proof (lenZ_nonneg r). rewrite Z.min_l by lia. unfold lenZ. lia. Qed.

Lemma ztake_app_exact {A} (a r : list A) : ztake (lenZ a) (a ++ r) = a.
Proof.
  unfold ztake. rewrite clampz_app_exact, firstn_app, Nat.sub_diag, firstn_all. simpl. apply app_nil_r.
Qed.

Lemma zdrop_app_exact {A} (a r : list A) : zdrop (lenZ a) (a ++ r) = r.
Proof.
  unfold zdrop. rewrite clampz_app_exact, skipn_app, Nat.sub_diag, skipn_all. reflexivity.
Qed.

Lemma zdrop_length_le {A} z (l : list A) : (length (zdrop z l) <= length l)%nat.
Proof. unfold zdrop. rewrite skipn_length. lia. Qed.

Lemma ztake_lenZ {A} z (l : list A) : 0 <= z <= lenZ l -> lenZ (ztake z l) = z.
Proof.
  intros H. unfold ztake, clampz, lenZ in *. rewrite firstn_length. lia.
Qed.

Lemma skipn_length_le {A} n (l : list A) : (length (skipn n l) <= length l)%nat.
Proof. rewrite skipn_length. lia. Qed.

(* ---------- bytes.hex() / bytes.fromhex() ---------- *)
Definition hexdigit (n : Z) : byte := if n <? 10 then z2b (48 + n) else z2b (87 + n).

Fixpoint hex_of_bytes (d : bytes) : bytes :=
  match d with
  | [] => []
  | b :: r => hexdigit (b2z b / 16) :: hexdigit (b2z b mod 16) :: hex_of_bytes r
  end.

(* _PyLong_DigitValue restricted to < 16 *)
Definition hexval (c : byte) : option Z :=
  let a := b2z c in
  if (48 <=? a) && (a <=? 57) then Some (a - 48)
  else if (97 <=? a) && (a <=? 102) then Some (a - 87)
  else if (65 <=? a) && (a <=? 70) then Some (a - 55)
  else None.

(* Py_ISSPACE: space \t \n \v \f \r *)
Definition isspace (c : byte) : bool :=
  let a := b2z c in (a =? 32) || ((9 <=? a) && (a <=? 13)).

(* bytes.fromhex(s) (CPython 3.7+): white space is skipped BETWEEN byte pairs only; anything else that is
   not two hex digits (a non-ASCII byte, a lone trailing digit) raises ValueError *)
Fixpoint fromhex (s : bytes) : result bytes :=
  match s with
  | [] => Ok []
  | c :: r =>
    if isspace c then fromhex r
    else match hexval c with
         | None => Err ValueE
         | Some h =>
           match r with
           | [] => Err ValueE
           | c2 :: r2 =>
             match hexval c2 with
             | None => Err ValueE
             | Some l => match fromhex r2 with
                         | Ok rest => Ok (z2b (16 * h + l) :: rest)
                         | Err e => Err e
                         end
             end
           end
         end
  end.

Lemma hex_byte_facts (b : byte) :
  isspace (hexdigit (b2z b / 16)) = false
  /\ hexval (hexdigit (b2z b / 16)) = Some (b2z b / 16)
  /\ hexval (hexdigit (b2z b mod 16)) = Some (b2z b mod 16)
  /\ z2b (16 * (b2z b / 16) + b2z b mod 16) = b.
Proof. destruct b; vm_compute; repeat split; reflexivity. Qed.

Lemma fromhex_hex d : fromhex (hex_of_bytes d) = Ok d.
Proof.
  induction d as [|b r IH]; [reflexivity|].
  destruct (hex_byte_facts b) as (H1 & H2 & H3 & H4).
  cbn [hex_of_bytes fromhex]. rewrite H1, H2, H3, IH, H4. reflexivity.
Qed.

Lemma hex_of_bytes_length d : length (hex_of_bytes d) = (2 * length d)%nat.
Proof. induction d as [|b r IH]; cbn [hex_of_bytes length]; lia. Qed.

Lemma hex_of_bytes_inj a b : hex_of_bytes a = hex_of_bytes b -> a = b.
Proof.
  intros H. pose proof (fromhex_hex a) as Ha. rewrite H, fromhex_hex in Ha. now injection Ha.
Qed.

(* ---------- str.startswith ---------- *)
Fixpoint starts_with (p s : bytes) : bool :=
  match p, s with
  | [], _ => true
  | x :: p', y :: s' => byte_eqb x y && starts_with p' s'
  | _ :: _, [] => false
  end.

Lemma starts_with_app p s : starts_with p (p ++ s) = true.
Proof.
  induction p as [|x p IH]; [reflexivity|]. cbn [app starts_with]. rewrite IH.
  assert (byte_eqb x x = true) as -> by now apply byte_eqb_eq. reflexivity.
Qed.

Lemma hexdigit_hi_not_O (b : byte) : byte_eqb x4f (hexdigit (b2z b / 16)) = false.
Proof. destruct b; vm_compute; reflexivity. Qed.

(* a hex string never starts with "OP_" *)
Lemma hex_not_OP d : starts_with [x4f; x50; x5f] (hex_of_bytes d) = false.
Proof.
  destruct d as [|b r]; [reflexivity|].
  cbn [hex_of_bytes starts_with]. now rewrite hexdigit_hi_not_O.
Qed.

(* ---------- f"{z}" for an int ---------- *)
Definition dec_digits (n : Z) : bytes :=
  map (fun d => z2b (48 + d)) (digits (S (Z.to_nat (Z.log2 n))) 10 n).
Definition dec_str (z : Z) : bytes :=
  if z =? 0 then [x30] else if z <? 0 then x2d :: dec_digits (- z) else dec_digits z.

(* the fuel of [dec_digits] suffices: the digit list denotes n *)
Lemma dec_digits_value n : 0 < n ->
  undigits 10 (digits (S (Z.to_nat (Z.log2 n))) 10 n) = n.
Proof.
  intros Hn. apply digits_undigits; [lia|]. split; [lia|].
  pose proof (Z.log2_nonneg n) as L0.
  destruct (Z.log2_spec n Hn) as [_ Hlt].
  rewrite Nat2Z.inj_succ, Z2Nat.id by lia.
  eapply Z.lt_le_trans; [exact Hlt|].
  apply Z.pow_le_mono_l. lia.
Qed.

(* ---------- association lists (dict / attribute tables) ---------- *)
Fixpoint assoc_b {V} (k : bytes) (l : list (bytes * V)) : option V :=
  match l with
  | [] => None
  | (k', v) :: r => if bytes_eqb k' k then Some v else assoc_b k r
  end.

Fixpoint assoc_z {V} (k : Z) (l : list (Z * V)) : option V :=
  match l with
  | [] => None
  | (k', v) :: r => if k' =? k then Some v else assoc_z k r
  end.

Lemma assoc_b_in {V} k (l : list (bytes * V)) v : assoc_b k l = Some v -> In (k, v) l.
Proof.
  induction l as [|[k' v'] r IH]; cbn [assoc_b]; [discriminate|].
  destruct (bytes_eqb k' k) eqn:E.
  - intros H. injection H as <-. apply bytes_eqb_eq in E. subst. now left.
  - intros H. right. auto.
Qed.

Lemma assoc_z_in {V} k (l : list (Z * V)) v : assoc_z k l = Some v -> In (k, v) l.
Proof.
  induction l as [|[k' v'] r IH]; cbn [assoc_z]; [discriminate|].
  destruct (Z.eqb_spec k' k) as [->|N].
  - intros H. injection H as <-. now left.
  - intros H. right. auto.
Qed.
