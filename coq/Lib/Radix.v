(* Positional notation: digit lists (most significant first) <-> integers.
   [digits_aux] mirrors the Python idiom
       while n: n, d = divmod(n, b); out = [d] + out
   with explicit fuel; the theorems state when the fuel suffices. *)
From Coq Require Import ZArith List Lia Bool.
Require Import Bits.Lib.Result Bits.Lib.Bytes.
Import ListNotations.
Local Open Scope Z_scope.

Fixpoint digits_aux (fuel : nat) (b n : Z) (acc : list Z) : list Z :=
  match fuel with
  | O => acc
  | S f => if n =? 0 then acc else digits_aux f b (n / b) (n mod b :: acc)
  end.
Definition digits (fuel : nat) (b n : Z) : list Z := digits_aux fuel b n [].

Definition undigits (b : Z) (ds : list Z) : Z := fold_left (fun acc d => acc * b + d) ds 0.

Definition in_range (b : Z) (ds : list Z) : Prop := Forall (fun d => 0 <= d < b) ds.
Definition no_lead0 (ds : list Z) : Prop := match ds with [] => True | d :: _ => d <> 0 end.

Lemma undigits_acc b ds acc :
  fold_left (fun acc d => acc * b + d) ds acc = acc * b ^ Z.of_nat (length ds) + undigits b ds.
Proof.
  unfold undigits. revert acc. induction ds as [|d ds IH]; intros acc.
  - simpl. lia.
  - cbn [fold_left length]. rewrite IH, (IH (0 * b + d)).
    rewrite Nat2Z.inj_succ, Z.pow_succ_r by lia. ring.
Qed.

Lemma undigits_app b xs ys :
  undigits b (xs ++ ys) = undigits b xs * b ^ Z.of_nat (length ys) + undigits b ys.
Proof. unfold undigits at 1. rewrite fold_left_app. apply undigits_acc. Qed.

Lemma undigits_cons b d ds :
  undigits b (d :: ds) = d * b ^ Z.of_nat (length ds) + undigits b ds.
Proof. change (d :: ds) with ([d] ++ ds). rewrite undigits_app. unfold undigits at 1. simpl. lia. Qed.

Lemma undigits_snoc b ds d : undigits b (ds ++ [d]) = undigits b ds * b + d.
Proof. rewrite undigits_app. simpl. unfold undigits at 2. simpl. lia. Qed.

Lemma undigits_nonneg b ds : 0 < b -> in_range b ds -> 0 <= undigits b ds.
Proof.
  intros Hb H. induction ds as [|d ds IH] using rev_ind; [unfold undigits; simpl; lia|].
  apply Forall_app in H as [H1 H2]. inversion H2; subst.
  rewrite undigits_snoc. specialize (IH H1). nia.
Qed.

Lemma undigits_bound b ds : 0 < b -> in_range b ds -> undigits b ds < b ^ Z.of_nat (length ds).
Proof.
  intros Hb H. induction ds as [|d ds IH] using rev_ind; [unfold undigits; simpl; lia|].
  apply Forall_app in H as [H1 H2]. inversion H2; subst.
  rewrite undigits_snoc, app_length. simpl length.
  rewrite Nat2Z.inj_add, Z.pow_add_r by lia. change (Z.of_nat 1) with 1. rewrite Z.pow_1_r.
  specialize (IH H1). pose proof (undigits_nonneg b ds Hb H1). nia.
Qed.

Lemma undigits_pos b ds :
  1 < b -> in_range b ds -> ds <> [] -> no_lead0 ds -> 0 < undigits b ds.
Proof.
  intros Hb H Hne Hl. destruct ds as [|d ds]; [congruence|].
  rewrite undigits_cons. inversion H; subst. simpl in Hl.
  assert (0 < b ^ Z.of_nat (length ds)) by (apply Z.pow_pos_nonneg; lia).
  pose proof (undigits_nonneg b ds ltac:(lia) H3). nia.
Qed.

(* soundness of the loop: with enough fuel the digits denote n *)
Lemma digits_aux_undigits fuel b n acc :
  1 < b -> 0 <= n < b ^ Z.of_nat fuel ->
  undigits b (digits_aux fuel b n acc) = n * b ^ Z.of_nat (length acc) + undigits b acc.
Proof.
  intros Hb. revert n acc. induction fuel as [|f IH]; intros n acc Hn.
  - simpl in *. assert (n = 0) by lia. subst. lia.
  - cbn [digits_aux]. destruct (Z.eqb_spec n 0) as [->|Hnz]; [lia|].
    rewrite IH.
    + cbn [length]. rewrite undigits_cons, Nat2Z.inj_succ, Z.pow_succ_r by lia.
      pose proof (Z.div_mod n b ltac:(lia)). nia.
    + rewrite Nat2Z.inj_succ, Z.pow_succ_r in Hn by lia.
      split; [apply Z.div_pos; lia | apply Z.div_lt_upper_bound; lia].
Qed.

Lemma digits_undigits fuel b n : 1 < b -> 0 <= n < b ^ Z.of_nat fuel -> undigits b (digits fuel b n) = n.
Proof.
  intros Hb Hn. unfold digits. rewrite digits_aux_undigits by assumption.
  unfold undigits. simpl. lia.
Qed.

Lemma digits_aux_in_range fuel b n acc :
  1 < b -> in_range b acc -> in_range b (digits_aux fuel b n acc).
Proof.
  intros Hb. revert n acc. induction fuel as [|f IH]; intros n acc Ha; cbn [digits_aux]; auto.
  destruct (n =? 0); auto. apply IH. constructor; auto. apply Z.mod_pos_bound. lia.
Qed.

Lemma digits_in_range fuel b n : 1 < b -> in_range b (digits fuel b n).
Proof. intros. apply digits_aux_in_range; [assumption|constructor]. Qed.

(* the loop inverts [undigits] on canonical digit lists *)
Lemma digits_aux_of_undigits b ds : 1 < b -> in_range b ds -> no_lead0 ds ->
  forall fuel acc, (length ds <= fuel)%nat -> digits_aux fuel b (undigits b ds) acc = ds ++ acc.
Proof.
  intros Hb. induction ds as [|d ds IH] using rev_ind; intros Hr Hl fuel acc Hf.
  - unfold undigits. simpl. destruct fuel; reflexivity.
  - apply Forall_app in Hr as [Hr1 Hr2]. inversion Hr2 as [|? ? Hd _]; subst.
    rewrite app_length in Hf. simpl in Hf. destruct fuel as [|f]; [lia|].
    cbn [digits_aux].
    assert (Hl' : no_lead0 ds) by (destruct ds; simpl in *; auto).
    assert (Hpos : 0 < undigits b (ds ++ [d])).
    { apply undigits_pos; auto.
      - apply Forall_app; auto.
      - destruct ds; discriminate. }
    destruct (Z.eqb_spec (undigits b (ds ++ [d])) 0) as [E|_]; [lia|].
    rewrite undigits_snoc.
    replace ((undigits b ds * b + d) / b) with (undigits b ds).
    2:{ rewrite Z.add_comm, Z.div_add by lia. rewrite Z.div_small by lia. lia. }
    replace ((undigits b ds * b + d) mod b) with d.
    2:{ rewrite Z.add_comm, Z.mod_add by lia. rewrite Z.mod_small by lia. lia. }
    rewrite IH by (auto; lia). now rewrite <- app_assoc.
Qed.

Lemma digits_of_undigits b ds fuel : 1 < b -> in_range b ds -> no_lead0 ds ->
  (length ds <= fuel)%nat -> digits fuel b (undigits b ds) = ds.
Proof.
  intros. unfold digits. rewrite digits_aux_of_undigits by assumption. apply app_nil_r.
Qed.

(* with enough fuel the result does not depend on the fuel *)
Lemma digits_aux_fuel_indep b : 1 < b -> forall f1 f2 n acc,
  0 <= n < b ^ Z.of_nat f1 -> 0 <= n < b ^ Z.of_nat f2 ->
  digits_aux f1 b n acc = digits_aux f2 b n acc.
Proof.
  intros Hb. induction f1 as [|f1 IH]; intros f2 n acc H1 H2.
  - simpl in H1. assert (n = 0) by lia. subst. destruct f2; reflexivity.
  - destruct f2 as [|f2].
    + simpl in H2. assert (n = 0) by lia. subst. reflexivity.
    + cbn [digits_aux]. destruct (Z.eqb_spec n 0); auto.
      rewrite !Nat2Z.inj_succ, !Z.pow_succ_r in * by lia.
      apply IH; (split; [apply Z.div_pos; lia | apply Z.div_lt_upper_bound; lia]).
Qed.

(* canonical: no leading zero.  Shown through the inverse lemma: *)
Lemma digits_no_lead0 fuel b n : 1 < b -> 0 <= n < b ^ Z.of_nat fuel -> no_lead0 (digits fuel b n).
Proof.
  intros Hb. unfold digits.
  assert (G : forall f n acc, 0 <= n -> (n <> 0 \/ no_lead0 acc) ->
              (n = 0 -> no_lead0 acc) -> 0 <= n < b ^ Z.of_nat f -> no_lead0 (digits_aux f b n acc)).
  { induction f as [|f IH]; intros m acc Hm Hor H0 Hlt.
    - simpl in *. apply H0. lia.
    - cbn [digits_aux]. destruct (Z.eqb_spec m 0) as [->|Hnz]; [auto|].
      rewrite Nat2Z.inj_succ, Z.pow_succ_r in Hlt by lia.
      apply IH.
      + apply Z.div_pos; lia.
      + destruct (Z.eq_dec (m / b) 0) as [E|E]; [right|left; exact E].
        simpl. apply Z.div_small_iff in E; [|lia]. rewrite Z.mod_small by lia. exact Hnz.
      + intros E. simpl. apply Z.div_small_iff in E; [|lia]. rewrite Z.mod_small by lia. exact Hnz.
      + split; [apply Z.div_pos; lia | apply Z.div_lt_upper_bound; lia]. }
  intros Hn. apply G; try lia; simpl; auto.
Qed.

(* bytes as base-256 digit lists *)
Lemma of_be_undigits bs : of_be bs = undigits 256 (map b2z bs).
Proof.
  induction bs as [|b bs IH] using rev_ind; [reflexivity|].
  rewrite of_be_app, map_app. cbn [map]. rewrite undigits_snoc, <- IH. simpl.
  unfold of_be at 2. simpl. lia.
Qed.

Lemma map_b2z_in_range bs : in_range 256 (map b2z bs).
Proof. induction bs; simpl; constructor; auto. apply b2z_range. Qed.

Lemma map_z2b_b2z bs : map z2b (map b2z bs) = bs.
Proof. induction bs as [|b bs IH]; simpl; [auto|]. now rewrite z2b_b2z, IH. Qed.

Lemma map_b2z_z2b ds : in_range 256 ds -> map b2z (map z2b ds) = ds.
Proof. induction 1 as [|d ds H _ IH]; simpl; [auto|]. now rewrite b2z_z2b, IH. Qed.
