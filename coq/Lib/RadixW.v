(* Fixed-width positional notation (most significant digit first) on top of Radix:
   [digits_w b w n] = the w low-order base-b digits of n; inverse lemmas, splitting a digit list =
   div/mod, regrouping 2^k-digits into bits.  Used by C10 (8-bit bytes <-> 11-bit word indices). *)
From Coq Require Import ZArith List Lia Bool.
Require Import Bits.Lib.Result Bits.Lib.Bytes Bits.Lib.Radix.
Import ListNotations.
Local Open Scope Z_scope.

Fixpoint digits_w (b : Z) (w : nat) (n : Z) : list Z :=
  match w with
  | O => []
  | S w' => digits_w b w' (n / b) ++ [n mod b]
  end.

Lemma digits_w_length b w n : length (digits_w b w n) = w.
Proof.
  revert n. induction w as [|w IH]; intros n; cbn [digits_w]; [reflexivity|].
  rewrite app_length, IH. simpl. lia.
Qed.

Lemma digits_w_in_range b w n : 0 < b -> in_range b (digits_w b w n).
Proof.
  intros Hb. revert n. induction w as [|w IH]; intros n; cbn [digits_w]; [constructor|].
  apply Forall_app. split; [apply IH|]. constructor; [|constructor]. apply Z.mod_pos_bound. lia.
Qed.

Lemma undigits_digits_w b w n : 0 < b -> undigits b (digits_w b w n) = n mod b ^ Z.of_nat w.
Proof.
  intros Hb. revert n. induction w as [|w IH]; intros n; cbn [digits_w].
  - unfold undigits. simpl. now rewrite Z.mod_1_r.
  - rewrite undigits_snoc, IH, Nat2Z.inj_succ, Z.pow_succ_r by lia.
    assert (0 < b ^ Z.of_nat w) by (apply Z.pow_pos_nonneg; lia).
    rewrite Z.rem_mul_r by lia. lia.
Qed.

Lemma undigits_digits_w_small b w n : 0 < b -> 0 <= n < b ^ Z.of_nat w ->
  undigits b (digits_w b w n) = n.
Proof. intros Hb Hn. rewrite undigits_digits_w by assumption. apply Z.mod_small. exact Hn. Qed.

Lemma digits_w_undigits b ds : 0 < b -> in_range b ds -> digits_w b (length ds) (undigits b ds) = ds.
Proof.
  intros Hb. induction ds as [|d ds IH] using rev_ind; intros Hr; [reflexivity|].
  apply Forall_app in Hr as [Hr1 Hr2]. inversion Hr2 as [|? ? Hd _]; subst.
  rewrite app_length. cbn [length]. rewrite Nat.add_1_r. cbn [digits_w].
  rewrite undigits_snoc.
  replace ((undigits b ds * b + d) / b) with (undigits b ds).
  2:{ rewrite Z.add_comm, Z.div_add by lia. rewrite Z.div_small by lia. lia. }
  replace ((undigits b ds * b + d) mod b) with d.
  2:{ rewrite Z.add_comm, Z.mod_add by lia. rewrite Z.mod_small by lia. lia. }
  now rewrite IH.
Qed.

(* fixed-width digit lists are determined by their value *)
Lemma undigits_inj b xs ys : 0 < b -> in_range b xs -> in_range b ys -> length xs = length ys ->
  undigits b xs = undigits b ys -> xs = ys.
Proof.
  intros Hb Hx Hy Hl E. rewrite <- (digits_w_undigits b xs Hb Hx), <- (digits_w_undigits b ys Hb Hy).
  now rewrite Hl, E.
Qed.

Lemma digits_w_mod b w n : 0 < b -> digits_w b w (n mod b ^ Z.of_nat w) = digits_w b w n.
Proof.
  intros Hb.
  assert (P : 0 < b ^ Z.of_nat w) by (apply Z.pow_pos_nonneg; lia).
  apply (undigits_inj b); auto using digits_w_in_range.
  - now rewrite !digits_w_length.
  - rewrite !undigits_digits_w by assumption. apply Z.mod_mod. lia.
Qed.

(* splitting: the first digits are the quotient, the last digits the remainder *)
Lemma undigits_app_divmod b xs ys : 0 < b -> in_range b ys ->
  undigits b (xs ++ ys) / b ^ Z.of_nat (length ys) = undigits b xs /\
  undigits b (xs ++ ys) mod b ^ Z.of_nat (length ys) = undigits b ys.
Proof.
  intros Hb Hs.
  assert (P : 0 < b ^ Z.of_nat (length ys)) by (apply Z.pow_pos_nonneg; lia).
  pose proof (undigits_nonneg b _ Hb Hs) as N. pose proof (undigits_bound b _ Hb Hs) as B.
  rewrite undigits_app. split.
  - rewrite Z.add_comm, Z.div_add by lia. rewrite Z.div_small by lia. lia.
  - rewrite Z.add_comm, Z.mod_add by lia. rewrite Z.mod_small by lia. reflexivity.
Qed.

Lemma in_range_firstn b n l : in_range b l -> in_range b (firstn n l).
Proof.
  unfold in_range. rewrite !Forall_forall. intros H x Hx. apply H.
  rewrite <- (firstn_skipn n l). apply in_or_app. now left.
Qed.

Lemma in_range_skipn b n l : in_range b l -> in_range b (skipn n l).
Proof.
  unfold in_range. rewrite !Forall_forall. intros H x Hx. apply H.
  rewrite <- (firstn_skipn n l). apply in_or_app. now right.
Qed.

Lemma undigits_firstn b l (c : nat) : 0 < b -> in_range b l -> (c <= length l)%nat ->
  undigits b (firstn (length l - c) l) = undigits b l / b ^ Z.of_nat c.
Proof.
  intros Hb Hr Hc.
  pose proof (undigits_app_divmod b (firstn (length l - c) l) (skipn (length l - c) l) Hb
                (in_range_skipn b _ l Hr)) as [D _].
  rewrite firstn_skipn, skipn_length in D.
  replace (length l - (length l - c))%nat with c in D by lia. now rewrite D.
Qed.

Lemma undigits_skipn b l (c : nat) : 0 < b -> in_range b l -> (c <= length l)%nat ->
  undigits b (skipn (length l - c) l) = undigits b l mod b ^ Z.of_nat c.
Proof.
  intros Hb Hr Hc.
  pose proof (undigits_app_divmod b (firstn (length l - c) l) (skipn (length l - c) l) Hb
                (in_range_skipn b _ l Hr)) as [_ M].
  rewrite firstn_skipn, skipn_length in M.
  replace (length l - (length l - c))%nat with c in M by lia. now rewrite M.
Qed.

(* regrouping: writing every base-2^k digit with k bits gives the bits of the same number *)
Definition expand (k : nat) (ds : list Z) : list Z := flat_map (digits_w 2 k) ds.

Lemma expand_length k ds : length (expand k ds) = (k * length ds)%nat.
Proof.
  unfold expand. induction ds as [|d ds IH]; cbn [flat_map length]; [lia|].
  rewrite app_length, digits_w_length, IH. lia.
Qed.

Lemma expand_in_range k ds : in_range 2 (expand k ds).
Proof.
  unfold expand. induction ds as [|d ds IH]; cbn [flat_map]; [constructor|].
  apply Forall_app. split; [apply digits_w_in_range; lia|exact IH].
Qed.

Lemma undigits_expand k ds : in_range (2 ^ Z.of_nat k) ds ->
  undigits 2 (expand k ds) = undigits (2 ^ Z.of_nat k) ds.
Proof.
  induction 1 as [|d ds Hd _ IH]; [reflexivity|].
  change (expand k (d :: ds)) with (digits_w 2 k d ++ expand k ds).
  rewrite undigits_app, undigits_cons, IH, expand_length.
  rewrite undigits_digits_w_small by lia.
  rewrite <- Z.pow_mul_r by lia. f_equal. f_equal. f_equal. lia.
Qed.

(* the bits of a byte string *)
Definition bits_of_bytes (bs : bytes) : list Z := expand 8 (map b2z bs).

Lemma bits_of_bytes_length bs : length (bits_of_bytes bs) = (8 * length bs)%nat.
Proof. unfold bits_of_bytes. now rewrite expand_length, map_length. Qed.

Lemma bits_of_bytes_in_range bs : in_range 2 (bits_of_bytes bs).
Proof. apply expand_in_range. Qed.

Lemma undigits_bits_of_bytes bs : undigits 2 (bits_of_bytes bs) = of_be bs.
Proof.
  unfold bits_of_bytes. rewrite (undigits_expand 8) by apply map_b2z_in_range.
  symmetry. apply of_be_undigits.
Qed.

Lemma bits_of_bytes_inj a b : bits_of_bytes a = bits_of_bytes b -> a = b.
Proof.
  intros E.
  assert (L : length a = length b).
  { apply (f_equal (@length Z)) in E. rewrite !bits_of_bytes_length in E. lia. }
  apply (f_equal (undigits 2)) in E. rewrite !undigits_bits_of_bytes in E.
  rewrite <- (to_be_of_be a), <- (to_be_of_be b). now rewrite L, E.
Qed.

Lemma bits_of_bytes_cons x bs : bits_of_bytes (x :: bs) = digits_w 2 8 (b2z x) ++ bits_of_bytes bs.
Proof. reflexivity. Qed.
