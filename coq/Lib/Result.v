(* Result type used by every model: Python exceptions become [Err e]. *)
From Coq Require Import List.
Import ListNotations.

Inductive err : Type :=
| AssertionE | ValueE | KeyE | IndexE | TypeE | OverflowE | AttributeE
| ConnE | OtherE | FuelE.

Inductive result (A : Type) : Type :=
| Ok (a : A)
| Err (e : err).
Arguments Ok {A} a.
Arguments Err {A} e.

Definition bind {A B} (r : result A) (f : A -> result B) : result B :=
  match r with Ok a => f a | Err e => Err e end.

Definition rmap {A B} (f : A -> B) (r : result A) : result B :=
  match r with Ok a => Ok (f a) | Err e => Err e end.

Definition is_ok {A} (r : result A) : bool :=
  match r with Ok _ => true | Err _ => false end.

Definition of_option {A} (e : err) (o : option A) : result A :=
  match o with Some a => Ok a | None => Err e end.

Definition assert_ (b : bool) (e : err) : result unit :=
  if b then Ok tt else Err e.

Declare Scope result_scope.
Delimit Scope result_scope with result.
Notation "x <- r ;; k" := (bind r (fun x => k))
  (at level 61, r at next level, right associativity) : result_scope.
Notation "' p <- r ;; k" := (bind r (fun x => let p := x in k))
  (at level 61, p pattern, r at next level, right associativity) : result_scope.
Notation "r ;;; k" := (bind r (fun _ => k))
  (at level 61, right associativity) : result_scope.

(* map a fallible function over a list, left to right, stopping at the first error *)
Fixpoint mapM {A B} (f : A -> result B) (l : list A) : result (list B) :=
  match l with
  | [] => Ok []
  | x :: xs => bind (f x) (fun y => bind (mapM f xs) (fun ys => Ok (y :: ys)))
  end.

Lemma bind_ok {A B} (r : result A) (f : A -> result B) b :
  bind r f = Ok b -> exists a, r = Ok a /\ f a = Ok b.
Proof. destruct r as [a|e]; simpl; intros H; [exists a; auto | discriminate]. Qed.
