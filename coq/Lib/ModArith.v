(* Congruence reasoning modulo n for the ECDSA / Schnorr / BIP32 algebra (stdlib's eqm setoid). *)
From Coq Require Import ZArith Lia Zdiv Setoid Morphisms.
Local Open Scope Z_scope.

Section Mod.
  Variable n : Z.
  Hypothesis Hn : 1 < n.
  Variable inv : Z -> Z.
  Hypothesis inv_ok : forall s, 0 < s < n -> (s * inv s) mod n = 1.

  Notation "x == y" := (eqm n x y) (at level 70).

  Local Instance eqm_equiv : Equivalence (eqm n) := eqm_setoid n.
  Local Instance add_eqm : Proper (eqm n ==> eqm n ==> eqm n) Z.add := Zplus_eqm n.
  Local Instance sub_eqm : Proper (eqm n ==> eqm n ==> eqm n) Z.sub := Zminus_eqm n.
  Local Instance mul_eqm : Proper (eqm n ==> eqm n ==> eqm n) Z.mul := Zmult_eqm n.
  Local Instance opp_eqm : Proper (eqm n ==> eqm n) Z.opp := Zopp_eqm n.

  Lemma eq_eqm x y : x = y -> x == y.
  Proof. intros ->. reflexivity. Qed.

  Lemma eqm_mod x : x mod n == x.
  Proof. unfold eqm. apply Z.mod_mod. lia. Qed.

  Lemma eqm_inv s : 0 < s < n -> s * inv s == 1.
  Proof. intros H. unfold eqm. rewrite inv_ok by assumption. rewrite Z.mod_small; lia. Qed.

  Lemma eqm_small x y : 0 <= x < n -> 0 <= y < n -> x == y -> x = y.
  Proof. unfold eqm. intros Hx Hy H. rewrite !Z.mod_small in H by lia. exact H. Qed.

  (* s = (e + r d)/k  ==>  (e/s + (r/s) d) = k *)
  Lemma ecdsa_core e r d k :
    0 < k < n ->
    let num := (e + (r * d) mod n) mod n in
    let s := (num * inv k) mod n in
    0 < s < n ->
    ((e * inv s) mod n + ((r * inv s) mod n) * d) mod n = k.
  Proof.
    intros Hk num s Hs.
    apply eqm_small; [apply Z.mod_pos_bound; lia | lia |].
    rewrite eqm_mod. rewrite !eqm_mod.
    assert (E1 : s * k == e + r * d).
    { subst s num. rewrite !eqm_mod.
      transitivity ((e + r * d) * (k * inv k)); [apply eq_eqm; ring|].
      rewrite (eqm_inv k Hk). apply eq_eqm; ring. }
    transitivity (inv s * (e + r * d)); [apply eq_eqm; ring|].
    rewrite <- E1.
    transitivity ((s * inv s) * k); [apply eq_eqm; ring|].
    rewrite (eqm_inv s Hs). apply eq_eqm; ring.
  Qed.

  (* the negated s gives -k *)
  Lemma ecdsa_core_neg e r d k :
    0 < k < n ->
    let num := (e + (r * d) mod n) mod n in
    let s := (num * inv k) mod n in
    0 < s < n ->
    let s' := (0 - s) mod n in
    ((e * inv s') mod n + ((r * inv s') mod n) * d) mod n = (- k) mod n.
  Proof.
    intros Hk num s Hs s'.
    assert (Hs' : 0 < s' < n).
    { subst s'. replace (0 - s) with (- s) by lia.
      rewrite Z.mod_opp_l_nz by (try lia; rewrite Z.mod_small by lia; lia).
      rewrite Z.mod_small by lia. lia. }
    apply eqm_small; [apply Z.mod_pos_bound; lia | apply Z.mod_pos_bound; lia |].
    rewrite !eqm_mod.
    assert (E1 : s * k == e + r * d).
    { subst s num. rewrite !eqm_mod.
      transitivity ((e + r * d) * (k * inv k)); [apply eq_eqm; ring|].
      rewrite (eqm_inv k Hk). apply eq_eqm; ring. }
    assert (E2 : s == - s').
    { subst s'. rewrite eqm_mod. apply eq_eqm; ring. }
    transitivity (inv s' * (e + r * d)); [apply eq_eqm; ring|].
    rewrite <- E1. rewrite E2.
    transitivity (- ((s' * inv s') * k)); [apply eq_eqm; ring|].
    rewrite (eqm_inv s' Hs'). apply eq_eqm; ring.
  Qed.
End Mod.
