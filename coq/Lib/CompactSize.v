(* CompactSize unsigned integers, transcribed from the Bitcoin developer reference
   (https://developer.bitcoin.org/reference/transactions.html#compactsize-unsigned-integers):
     0 .. 252            1 byte   uint8
     253 .. 0xffff       3 bytes  0xfd ++ uint16 little endian
     0x10000 .. 2^32-1   5 bytes  0xfe ++ uint32 little endian
     2^32 .. 2^64-1      9 bytes  0xff ++ uint64 little endian
   [cs_enc] is the SPECIFICATION encoder (total; meaningful for 0 <= n < 2^64);
   [cs_dec] the matching decoder (accepts non-minimal encodings, like the reference parser). *)
From Coq Require Import ZArith List Lia Bool.
Require Import Bits.Lib.Result Bits.Lib.Bytes.
Import ListNotations.
Import Coq.Init.Byte.
Local Open Scope Z_scope.

Definition cs_enc (n : Z) : bytes :=
  if n <? 253 then to_le 1 n
  else if n <? 2 ^ 16 then xfd :: to_le 2 n
  else if n <? 2 ^ 32 then xfe :: to_le 4 n
  else xff :: to_le 8 n.

(* number of bytes of the encoding *)
Definition cs_len (n : Z) : nat :=
  if n <? 253 then 1%nat else if n <? 2 ^ 16 then 3%nat else if n <? 2 ^ 32 then 5%nat else 9%nat.

Definition cs_dec (bs : bytes) : option (Z * bytes) :=
  match bs with
  | [] => None
  | b :: rest =>
    let take (k : nat) :=
      if (k <=? length rest)%nat then Some (of_le (firstn k rest), skipn k rest) else None in
    if byte_eqb b xff then take 8%nat
    else if byte_eqb b xfe then take 4%nat
    else if byte_eqb b xfd then take 2%nat
    else Some (b2z b, rest)
  end.

Lemma cs_enc_length n : length (cs_enc n) = cs_len n.
Proof.
  unfold cs_enc, cs_len.
  destruct (n <? 253); [reflexivity|].
  destruct (n <? 2 ^ 16); [reflexivity|].
  destruct (n <? 2 ^ 32); reflexivity.
Qed.

Lemma cs_enc_nonempty n : cs_enc n <> [].
Proof.
  intro H. apply (f_equal (@length byte)) in H. rewrite cs_enc_length in H.
  unfold cs_len in H. destruct (n <? 253); [discriminate|].
  destruct (n <? 2 ^ 16); [discriminate|]. destruct (n <? 2 ^ 32); discriminate.
Qed.

Lemma cs_take_app k (a rest : bytes) : length a = k ->
  (if (k <=? length (a ++ rest))%nat then Some (of_le (firstn k (a ++ rest)), skipn k (a ++ rest)) else None)
  = Some (of_le a, rest).
Proof.
  intros <-. rewrite app_length.
  replace (length a <=? length a + length rest)%nat with true by (symmetry; apply Nat.leb_le; lia).
  rewrite firstn_app, Nat.sub_diag, firstn_all, skipn_app, Nat.sub_diag, skipn_all. simpl.
  now rewrite app_nil_r.
Qed.

(* decode . encode = id, with arbitrary trailing bytes *)
Lemma cs_dec_enc n rest : 0 <= n < 2 ^ 64 -> cs_dec (cs_enc n ++ rest) = Some (n, rest).
Proof.
  intros Hn. unfold cs_enc.
  destruct (Z.ltb_spec n 253) as [H1|H1].
  - cbn [to_le app cs_dec].
    assert (Hb : b2z (z2b n) = n) by (apply b2z_z2b; lia).
    assert (Hne : forall c, b2z c > 252 -> byte_eqb (z2b n) c = false).
    { intros c Hc. destruct (byte_eqb (z2b n) c) eqn:E; [|reflexivity].
      apply byte_eqb_eq in E. rewrite <- E, Hb in Hc. lia. }
    rewrite !Hne by (vm_compute; reflexivity). now rewrite Hb.
  - destruct (Z.ltb_spec n (2 ^ 16)) as [H2|H2].
    + change ((xfd :: to_le 2 n) ++ rest) with (xfd :: (to_le 2 n ++ rest)).
      cbn [cs_dec]. change (byte_eqb xfd xff) with false. change (byte_eqb xfd xfe) with false.
      change (byte_eqb xfd xfd) with true. cbv iota.
      rewrite (cs_take_app 2 (to_le 2 n) rest (to_le_length 2 n)).
      rewrite of_le_to_le; [reflexivity|]. change (256 ^ Z.of_nat 2) with (2 ^ 16). lia.
    + destruct (Z.ltb_spec n (2 ^ 32)) as [H3|H3].
      * change ((xfe :: to_le 4 n) ++ rest) with (xfe :: (to_le 4 n ++ rest)).
        cbn [cs_dec]. change (byte_eqb xfe xff) with false. change (byte_eqb xfe xfe) with true. cbv iota.
        rewrite (cs_take_app 4 (to_le 4 n) rest (to_le_length 4 n)).
        rewrite of_le_to_le; [reflexivity|]. change (256 ^ Z.of_nat 4) with (2 ^ 32). lia.
      * change ((xff :: to_le 8 n) ++ rest) with (xff :: (to_le 8 n ++ rest)).
        cbn [cs_dec]. change (byte_eqb xff xff) with true. cbv iota.
        rewrite (cs_take_app 8 (to_le 8 n) rest (to_le_length 8 n)).
        rewrite of_le_to_le; [reflexivity|]. change (256 ^ Z.of_nat 8) with (2 ^ 64). lia.
Qed.

Lemma cs_enc_inj a b : 0 <= a < 2 ^ 64 -> 0 <= b < 2 ^ 64 -> cs_enc a = cs_enc b -> a = b.
Proof.
  intros Ha Hb E.
  pose proof (cs_dec_enc a [] Ha) as Da. pose proof (cs_dec_enc b [] Hb) as Db.
  rewrite E in Da. rewrite Da in Db. now injection Db.
Qed.
