(* BIP173 (Bech32, segwit address format) and BIP350 (Bech32m), transcribed from the BIP TEXT.
   Nothing here is taken from /repo.

   BIP173 "Bech32":
     * a Bech32 string is at most 90 characters long and consists of
         - the human-readable part (HRP): 1 to 83 US-ASCII characters, each in the range [33-126],
         - the separator, which is always "1"; in case "1" is allowed inside the HRP, the LAST one in
           the string is the separator,
         - the data part, at least 6 characters long, only consisting of characters of the table
           "qpzry9x8gf2tvdw0s3jn54khce6mua7l" (value of a character = its index, 0..31);
     * the last six characters of the data part form a checksum:
         bech32_polymod(bech32_hrp_expand(hrp) + data) == 1            (BIP350 Bech32m: == 0x2bc830a3)
       with GEN = [0x3b6a57b2, 0x26508e6d, 0x1ea119fa, 0x3d4233dd, 0x2a1462b3];
     * "Decoders MUST NOT accept strings where some characters are uppercase and some are lowercase";
       "The lowercase form is used when determining a character's value for checksum purposes"
       (so an all-uppercase string is accepted and denotes its lowercase form).
   BIP173 "Segwit address format" / decoding:
     * the HRP is "bc" for mainnet, "tb" for testnet  ("bcrt" for regtest is Bitcoin Core's convention,
       the third network of the property);
     * the first decoded data value (the witness version) is between 0 and 16, inclusive;
     * the rest of the data (without the checksum) is converted to bytes: translate the values to 5 bits,
       most significant bit first; re-arrange those bits into groups of 8 bits; any incomplete group at
       the end MUST be 4 bits or less, MUST be all zeroes, and is discarded;
     * there MUST be between 2 and 40 groups, which are interpreted as the bytes of the witness program;
     * BIP141: a version-0 witness program is 20 or 32 bytes.
   BIP350: version 0 uses the Bech32 constant 1, versions 1..16 use Bech32m's 0x2bc830a3. *)
From Coq Require Import ZArith List Bool.
Require Import Bits.Lib.Bytes Bits.Lib.Radix Bits.Lib.RadixW.
Import ListNotations.
Import Coq.Init.Byte.
Local Open Scope Z_scope.

(* "qpzry9x8gf2tvdw0s3jn54khce6mua7l" *)
Definition charset : bytes :=
  [x71; x70; x7a; x72; x79; x39; x78; x38; x67; x66; x32; x74; x76; x64; x77; x30;
   x73; x33; x6a; x6e; x35; x34; x6b; x68; x63; x65; x36; x6d; x75; x61; x37; x6c].

Definition separator : byte := x31.      (* "1" *)
Definition max_len : Z := 90.

Definition GEN : list Z := [0x3b6a57b2; 0x26508e6d; 0x1ea119fa; 0x3d4233dd; 0x2a1462b3].
Definition BECH32_CONST : Z := 1.
Definition BECH32M_CONST : Z := 0x2bc830a3.

(* value of a data character: its position in the table *)
Fixpoint position (c : byte) (l : bytes) : option Z :=
  match l with
  | [] => None
  | x :: xs => if byte_eqb x c then Some 0
               else match position c xs with Some i => Some (i + 1) | None => None end
  end.
Definition char_value (c : byte) : option Z := position c charset.

Fixpoint values_of (s : bytes) : option (list Z) :=
  match s with
  | [] => Some []
  | c :: r => match char_value c, values_of r with
              | Some v, Some vs => Some (v :: vs)
              | _, _ => None
              end
  end.

(* chk' = (chk & 0x1ffffff) << 5 ^ v, then for i in 0..4: chk' ^= GEN[i] if bit i of (chk >> 25) *)
Definition polymod_step (chk v : Z) : Z :=
  let top := Z.shiftr chk 25 in
  fold_left (fun c ig => if Z.testbit top (fst ig) then Z.lxor c (snd ig) else c)
            (combine [0; 1; 2; 3; 4] GEN)
            (Z.lxor (Z.shiftl (Z.land chk 0x1ffffff) 5) v).
Definition polymod (values : list Z) : Z := fold_left polymod_step values 1.

(* [ord(x) >> 5 for x in hrp] + [0] + [ord(x) & 31 for x in hrp] *)
Definition hrp_expand (hrp : bytes) : list Z :=
  map (fun c => b2z c / 32) hrp ++ [0] ++ map (fun c => b2z c mod 32) hrp.

(* case *)
Definition is_upper (c : byte) : bool := (65 <=? b2z c) && (b2z c <=? 90).     (* 'A'..'Z' *)
Definition is_lower (c : byte) : bool := (97 <=? b2z c) && (b2z c <=? 122).    (* 'a'..'z' *)
Definition mixed_case (s : bytes) : bool := existsb is_upper s && existsb is_lower s.
Definition to_lower (c : byte) : byte := if is_upper c then z2b (b2z c + 32) else c.
Definition lowercase (s : bytes) : bytes := map to_lower s.

(* split at the LAST separator *)
Fixpoint split_last_sep (s : bytes) : option (bytes * bytes) :=
  match s with
  | [] => None
  | c :: r => match split_last_sep r with
              | Some (h, d) => Some (c :: h, d)
              | None => if byte_eqb c separator then Some ([], r) else None
              end
  end.

(* 5-bit groups -> bytes: bits MSB first, complete groups of 8; the incomplete group at the end must
   be at most 4 bits and all zero *)
Fixpoint groups8 (k : nat) (bits : list Z) : list (list Z) :=
  match k with
  | O => []
  | S k' => firstn 8 bits :: groups8 k' (skipn 8 bits)
  end.

Definition convert_5to8 (vals : list Z) : option bytes :=
  let bits := expand 5 vals in
  let k := (length bits / 8)%nat in
  let rest := skipn (8 * k) bits in
  if (length rest <=? 4)%nat && forallb (Z.eqb 0) rest
  then Some (map (fun g => z2b (undigits 2 g)) (groups8 k bits))
  else None.

Definition segwit_hrps : list bytes :=
  [[x62; x63]; [x74; x62]; [x62; x63; x72; x74]].          (* "bc", "tb", "bcrt" *)

Definition program_length_ok (version : Z) (n : nat) : bool :=
  (2 <=? n)%nat && (n <=? 40)%nat && (if version =? 0 then (n =? 20)%nat || (n =? 32)%nat else true).

(* the decoder the BIPs define: Some (hrp, witness version, witness program) exactly for valid addresses *)
Definition spec_decode (s : bytes) : option (bytes * Z * bytes) :=
  if negb (Z.of_nat (length s) <=? max_len) then None else
  if mixed_case s then None else
  match split_last_sep (lowercase s) with
  | None => None
  | Some (hrp, dp) =>
    if negb ((1 <=? length hrp)%nat && (length hrp <=? 83)%nat
             && forallb (fun c => (33 <=? b2z c) && (b2z c <=? 126)) hrp) then None else
    if negb (6 <=? length dp)%nat then None else
    match values_of dp with
    | None => None
    | Some [] => None
    | Some (version :: rest) =>
      if negb (version <=? 16) then None else
      if negb (polymod (hrp_expand hrp ++ version :: rest)
               =? (if version =? 0 then BECH32_CONST else BECH32M_CONST)) then None else
      match convert_5to8 (droplast 6 rest) with
      | None => None
      | Some prog =>
        if program_length_ok version (length prog) && existsb (bytes_eqb hrp) segwit_hrps
        then Some (hrp, version, prog) else None
      end
    end
  end.

Definition valid_segwit (s : bytes) : bool :=
  match spec_decode s with Some _ => true | None => false end.

(* the generic Bech32 / Bech32m string decoder of BIP173 (no segwit rules): Some (hrp, data values
   without the checksum) exactly for the strings that are valid for the given checksum constant *)
Definition spec_bech32_decode (s : bytes) (const : Z) : option (bytes * list Z) :=
  if negb (Z.of_nat (length s) <=? max_len) then None else
  if mixed_case s then None else
  match split_last_sep (lowercase s) with
  | None => None
  | Some (hrp, dp) =>
    if negb ((1 <=? length hrp)%nat && (length hrp <=? 83)%nat
             && forallb (fun c => (33 <=? b2z c) && (b2z c <=? 126)) hrp) then None else
    if negb (6 <=? length dp)%nat then None else
    match values_of dp with
    | None => None
    | Some vals => if polymod (hrp_expand hrp ++ vals) =? const then Some (hrp, droplast 6 vals) else None
    end
  end.
