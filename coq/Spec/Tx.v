(* Transaction serialisation formats and identifiers, transcribed FROM THE STANDARDS (not from the code):

   Bitcoin developer reference, "Raw transaction format"
   (https://developer.bitcoin.org/reference/transactions.html#raw-transaction-format):
     version   int32/uint32 little endian (4 bytes)
     tx_in count   compactSize uint       | tx_in   = outpoint (32-byte hash, uint32 LE index)
     tx_in                                |           script bytes (compactSize), signature script,
     tx_out count  compactSize uint       |           sequence (uint32, 4 bytes)
     tx_out                               | tx_out  = value (int64 LE, 8 bytes), pk_script bytes
     lock_time uint32 little endian       |           (compactSize), pk_script

   BIP141 "Transaction ID" / BIP144 "Serialization":
     original format   [nVersion][txins][txouts][nLockTime]
     witness format    [nVersion][marker][flag][txins][txouts][witness][nLockTime]
       marker = 0x00, flag = 0x01; witness = for each txin, in order: compactSize count of stack items,
       then each item as compactSize length + bytes (not a script).
     txid  = double SHA256 of the ORIGINAL format (also for witness transactions)
     wtxid = double SHA256 of the witness format; "if all txins are not witness program, a transaction's
             wtxid is equal to its txid" (the original format is used).

   All functions here are total byte-string builders over plain arguments (no dependency on the model);
   they are meaningful for fields within their widths. *)
From Coq Require Import ZArith List.
Require Import Bits.Lib.Bytes Bits.Lib.CompactSize.
Import ListNotations.
Import Coq.Init.Byte.
Local Open Scope Z_scope.

Definition spec_var_bytes (s : bytes) : bytes := cs_enc (Z.of_nat (length s)) ++ s.

Definition spec_txin (prev_hash : bytes) (prev_index : Z) (script_sig sequence : bytes) : bytes :=
  prev_hash ++ to_le 4 prev_index ++ spec_var_bytes script_sig ++ sequence.

Definition spec_txout (value : Z) (pk_script : bytes) : bytes :=
  to_le 8 value ++ spec_var_bytes pk_script.

Definition spec_witness_stack (items : list bytes) : bytes :=
  cs_enc (Z.of_nat (length items)) ++ concat (map spec_var_bytes items).

Definition spec_vector (elems : list bytes) : bytes :=
  cs_enc (Z.of_nat (length elems)) ++ concat elems.

(* original format: [nVersion][txins][txouts][nLockTime] *)
Definition spec_tx_original (version : Z) (txins txouts : list bytes) (locktime : Z) : bytes :=
  to_le 4 version ++ spec_vector txins ++ spec_vector txouts ++ to_le 4 locktime.

(* witness format: [nVersion][marker][flag][txins][txouts][witness][nLockTime] *)
Definition spec_marker : byte := x00.
Definition spec_flag : byte := x01.
Definition spec_tx_witness (version : Z) (txins txouts : list bytes) (witnesses : list bytes) (locktime : Z)
  : bytes :=
  to_le 4 version ++ [spec_marker] ++ [spec_flag] ++ spec_vector txins ++ spec_vector txouts ++
  concat witnesses ++ to_le 4 locktime.

(* default / final sequence number and the 32-bit maximum *)
Definition spec_sequence_final : bytes := [xff; xff; xff; xff].
Definition spec_uint32_max : Z := 4294967295.
