(* Block subsidy, transcribed from Bitcoin Core validation.cpp (GetBlockSubsidy) and chainparams.cpp:

     CAmount GetBlockSubsidy(int nHeight, const Consensus::Params& consensusParams) {
         int halvings = nHeight / consensusParams.nSubsidyHalvingInterval;
         // Force block reward to zero when right shift is undefined.
         if (halvings >= 64) return 0;
         CAmount nSubsidy = 50 * COIN;
         // Subsidy is cut in half every 210,000 blocks which will occur approximately every 4 years.
         nSubsidy >>= halvings;
         return nSubsidy;
     }
     static constexpr CAmount COIN = 100000000;
     main/test:  consensus.nSubsidyHalvingInterval = 210000;
     regtest:    consensus.nSubsidyHalvingInterval = 150;                                           *)
From Coq Require Import ZArith.
Local Open Scope Z_scope.

Definition COIN : Z := 100000000.
Definition halving_interval_main : Z := 210000.
Definition halving_interval_regtest : Z := 150.

Definition subsidy (height interval : Z) : Z :=
  let halvings := height / interval in
  if 64 <=? halvings then 0 else Z.shiftr (50 * COIN) halvings.

Definition interval_of (regtest : bool) : Z :=
  if regtest then halving_interval_regtest else halving_interval_main.
