(* Byte layouts of the standard templates, as DECODERS - the arguments [decode_inner] of Spec/Sighash.unlocks, the items a
   push-only scriptSig pushes, and the lock a scriptPubKey denotes.  Transcribed from the Script reference
   (https://en.bitcoin.it/wiki/Script "Constants"), the developer guide (standard pubkey / P2PKH / multisig / P2SH scripts),
   BIP16 and BIP141 (witness programs), NOT from the code:

     pubkey      <33 or 65 byte SEC1 key> OP_CHECKSIG                         21|41 key ac
     P2PKH       OP_DUP OP_HASH160 <20 bytes> OP_EQUALVERIFY OP_CHECKSIG     76 a9 14 h 88 ac
     multisig    OP_m <key> ... <key> OP_n OP_CHECKMULTISIG                   5m (21|41 key)* 5n ae     1 <= m <= n <= 16
     P2SH        OP_HASH160 <20 bytes> OP_EQUAL                               a9 14 h 87
     P2WPKH      OP_0 <20 bytes>                                              00 14 h
     P2WSH       OP_0 <32 bytes>                                              00 20 h

   push-only script (BIP16 / BIP62 rule 2): only opcodes <= OP_16:
     00                 pushes the empty item            01..4b  push that many bytes
     4c n / 4d nn / 4e nnnn  OP_PUSHDATA1/2/4             4f OP_1NEGATE pushes 81        51..60 OP_1..OP_16 push 01..10  *)
From Coq Require Import ZArith List Bool.
Require Import Bits.Lib.Bytes Bits.Lib.PyStr Bits.Spec.Sighash.
Import ListNotations.
Import Coq.Init.Byte.
Local Open Scope Z_scope.

(* ---------------- the data items pushed by a push-only script ---------------- *)
Definition take_push (n : Z) (r : bytes) (k : bytes -> option (list bytes)) : option (list bytes) :=
  if n <=? lenZ r then option_map (cons (firstn (Z.to_nat n) r)) (k (skipn (Z.to_nat n) r)) else None.

(* fuel = length of the script: every element is at least one byte long *)
Fixpoint push_items_fuel (fuel : nat) (bs : bytes) : option (list bytes) :=
  match bs with
  | [] => Some []
  | b :: rest =>
    match fuel with
    | O => None
    | S f =>
      let v := b2z b in
      if v <=? 75 then take_push v rest (push_items_fuel f)
      else if v =? 76 then
        match rest with l :: r => take_push (b2z l) r (push_items_fuel f) | [] => None end
      else if v =? 77 then
        if 2 <=? lenZ rest then take_push (of_le (firstn 2 rest)) (skipn 2 rest) (push_items_fuel f) else None
      else if v =? 78 then
        if 4 <=? lenZ rest then take_push (of_le (firstn 4 rest)) (skipn 4 rest) (push_items_fuel f) else None
      else if v =? 79 then option_map (cons [x81]) (push_items_fuel f rest)
      else if (81 <=? v) && (v <=? 96) then option_map (cons [z2b (v - 80)]) (push_items_fuel f rest)
      else None                                                  (* not push-only (0x50 OP_RESERVED included) *)
    end
  end.
Definition push_items (script_sig : bytes) : option (list bytes) := push_items_fuel (length script_sig) script_sig.

(* ---------------- the three inner templates ---------------- *)
Definition is_pk_len (b : byte) : bool := (b2z b =? 33) || (b2z b =? 65).

(* OP_1 .. OP_16 *)
Definition small_int (b : byte) : option nat :=
  let v := b2z b in if (81 <=? v) && (v <=? 96) then Some (Z.to_nat (v - 80)) else None.

(* the run of key pushes; returns the keys and what follows.  fuel = S (length bs) *)
Fixpoint parse_keys (fuel : nat) (bs : bytes) : option (list bytes * bytes) :=
  match fuel with
  | O => None
  | S f =>
    match bs with
    | [] => Some ([], [])
    | b :: rest =>
      if is_pk_len b then
        if b2z b <=? lenZ rest then
          match parse_keys f (skipn (Z.to_nat (b2z b)) rest) with
          | Some (pks, tl) => Some (firstn (Z.to_nat (b2z b)) rest :: pks, tl)
          | None => None
          end
        else None
      else Some ([], bs)
    end
  end.

Definition decode_inner (bs : bytes) : option inner_script :=
  match bs with
  | [] => None
  | b0 :: rest =>
    if is_pk_len b0 then                                                         (* <key> OP_CHECKSIG *)
      if (lenZ rest =? b2z b0 + 1) && bytes_eqb (skipn (Z.to_nat (b2z b0)) rest) [xac]
      then Some (I_p2pk (firstn (Z.to_nat (b2z b0)) rest)) else None
    else if byte_eqb b0 x76 then                                                 (* 76 a9 14 h 88 ac *)
      if (lenZ rest =? 24) && bytes_eqb (firstn 2 rest) [xa9; x14] && bytes_eqb (skipn 22 rest) [x88; xac]
      then Some (I_p2pkh (firstn 20 (skipn 2 rest))) else None
    else
      match small_int b0 with                                                    (* OP_m keys OP_n ae *)
      | None => None
      | Some m =>
        match parse_keys (S (length rest)) rest with
        | Some (pks, bn :: tl) =>
          match small_int bn with
          | Some n => if bytes_eqb tl [xae] && (n =? length pks)%nat && (m <=? n)%nat then Some (I_multisig m pks) else None
          | None => None
          end
        | _ => None
        end
      end
  end.

(* the same layouts as encoders (used to STATE that a script is a standard one) *)
Definition push_key (pk : bytes) : bytes := z2b (lenZ pk) :: pk.
Definition enc_inner (s : inner_script) : bytes :=
  match s with
  | I_p2pk pk => push_key pk ++ [xac]
  | I_p2pkh h => [x76; xa9; x14] ++ h ++ [x88; xac]
  | I_multisig m pks => [z2b (80 + Z.of_nat m)] ++ concat (map push_key pks) ++ [z2b (80 + lenZ pks); xae]
  end.
Definition pk_len_ok (pk : bytes) : Prop := length pk = 33%nat \/ length pk = 65%nat.
Definition wf_inner (s : inner_script) : Prop :=
  match s with
  | I_p2pk pk => pk_len_ok pk
  | I_p2pkh h => length h = 20%nat
  | I_multisig m pks => (1 <= m <= length pks)%nat /\ (length pks <= 16)%nat /\ Forall pk_len_ok pks
  end.

(* ---------------- the lock a scriptPubKey denotes ---------------- *)
Definition spk_p2sh (h : bytes) : bytes := [xa9; x14] ++ h ++ [x87].
Definition spk_p2wpkh (h : bytes) : bytes := [x00; x14] ++ h.
Definition spk_p2wsh (h : bytes) : bytes := [x00; x20] ++ h.

Definition lock_of (spk : bytes) : option lock :=
  if (length spk =? 23)%nat && bytes_eqb (firstn 2 spk) [xa9; x14] && bytes_eqb (skipn 22 spk) [x87]
  then Some (L_p2sh (firstn 20 (skipn 2 spk)))
  else if (length spk =? 22)%nat && bytes_eqb (firstn 2 spk) [x00; x14] then Some (L_p2wpkh (skipn 2 spk))
  else if (length spk =? 34)%nat && bytes_eqb (firstn 2 spk) [x00; x20] then Some (L_p2wsh (skipn 2 spk))
  else match decode_inner spk with
       | Some s => Some (L_bare s spk)
       | None => None
       end.
