(* Script numbers and integer pushes, transcribed from Bitcoin Core src/script/script.h, and the BIP34 rule.

   BIP34: "the first item in the coinbase scriptSig must be the serialized block height: minimally encoded
   serialized CScript".  Bitcoin Core enforces it as (validation.cpp, ContextualCheckBlock)

       CScript expect = CScript() << nHeight;
       if (block.vtx[0]->vin[0].scriptSig.size() < expect.size() ||
           !std::equal(expect.begin(), expect.end(), block.vtx[0]->vin[0].scriptSig.begin())) -> "bad-cb-height"

   so the consensus rule is: the coinbase script STARTS WITH [push_int height] below.

   CScriptNum::serialize(value):
       if (value == 0) return {};
       neg = value < 0; absvalue = |value|;
       while (absvalue) { result.push_back(absvalue & 0xff); absvalue >>= 8; }
       if (result.back() & 0x80) result.push_back(neg ? 0x80 : 0);
       else if (neg) result.back() |= 0x80;
   CScriptNum::set_vch(vch):
       if (vch.empty()) return 0;
       result = little-endian value of vch;
       if (vch.back() & 0x80) return -(result & ~(0x80 << (8 * (vch.size() - 1))));
       return result;
   minimal encoding (CScriptNum(vch, fRequireMinimal = true)):
       if (vch.size() > 0 && (vch.back() & 0x7f) == 0)
           if (vch.size() <= 1 || (vch[vch.size() - 2] & 0x80) == 0) throw "non-minimally encoded script number";
   CScript::push_int64(n)          ( = operator<<(int64_t) ):
       if (n == -1 || (n >= 1 && n <= 16)) push_back(n + (OP_1 - 1));      OP_1 = 0x51
       else if (n == 0) push_back(OP_0);                                    OP_0 = 0x00
       else *this << CScriptNum::serialize(n);
   CScript::operator<<(vector b):
       size < OP_PUSHDATA1 (0x4c): one length byte;  <= 0xff: 0x4c + 1 byte;  <= 0xffff: 0x4d + 2 bytes LE;
       else 0x4e + 4 bytes LE;  then the data.                                                    *)
From Coq Require Import ZArith List Bool.
Require Import Bits.Lib.Bytes.
Import ListNotations.
Import Coq.Init.Byte.
Local Open Scope Z_scope.

(* while (absvalue) { push_back(absvalue & 0xff); absvalue >>= 8; }   -- least significant byte first *)
Fixpoint magnitude_le (fuel : nat) (a : Z) : bytes :=
  match fuel with
  | O => []
  | S f => if a =? 0 then [] else z2b a :: magnitude_le f (a / 256)
  end.

(* vch.back() & 0x80  (false on the empty vector) *)
Definition top_bit_set (bs : bytes) : bool := 128 <=? b2z (last bs x00).

(* result.back() |= 0x80   (only used when the bit is clear) *)
Definition set_top_bit (bs : bytes) : bytes := removelast bs ++ [z2b (b2z (last bs x00) + 128)].

Definition scriptnum_enc (n : Z) : bytes :=
  if n =? 0 then []
  else
    let neg := n <? 0 in
    let a := Z.abs n in
    let m := magnitude_le (S (Z.to_nat (Z.log2 a))) a in
    if top_bit_set m then m ++ [if neg then x80 else x00]
    else if neg then set_top_bit m else m.

Definition scriptnum_dec (bs : bytes) : Z :=
  match bs with
  | [] => 0
  | _ :: _ =>
    let r := of_le bs in
    if top_bit_set bs then - (r - 128 * 256 ^ (Z.of_nat (length bs) - 1)) else r
  end.

Definition scriptnum_minimal (bs : bytes) : bool :=
  match rev bs with
  | [] => true
  | back :: before =>
    if (b2z back) mod 128 =? 0
    then match before with
         | [] => false
         | b2 :: _ => 128 <=? b2z b2
         end
    else true
  end.

Definition push_data (b : bytes) : bytes :=
  let n := Z.of_nat (length b) in
  if n <? 76 then z2b n :: b
  else if n <=? 255 then x4c :: z2b n :: b
  else if n <=? 65535 then x4d :: to_le 2 n ++ b
  else x4e :: to_le 4 n ++ b.

Definition push_int (n : Z) : bytes :=
  if (n =? -1) || ((1 <=? n) && (n <=? 16)) then [z2b (n + 80)]
  else if n =? 0 then [x00]
  else push_data (scriptnum_enc n).

(* Reading such a push back (the inverse used to say "the first item decodes to h"):
   opcode 0x00 -> 0, 0x4f -> -1, 0x51..0x60 -> 1..16, 0x01..0x4b -> that many bytes as a script number
   which must be minimally encoded AND must not be expressible by a one-byte opcode
   (interpreter.cpp CheckMinimalPush: a single byte 1..16 or 0x81 has to use OP_1..OP_16 / OP_1NEGATE,
   the empty vector OP_0). *)
Definition read_push_int (s : bytes) : option (Z * bytes) :=
  match s with
  | [] => None
  | op :: rest =>
    let o := b2z op in
    if o =? 0 then Some (0, rest)
    else if o =? 79 then Some (-1, rest)
    else if (81 <=? o) && (o <=? 96) then Some (o - 80, rest)
    else if (1 <=? o) && (o <=? 75) then
      let k := Z.to_nat o in
      if (k <=? length rest)%nat then
        let d := firstn k rest in
        let v := scriptnum_dec d in
        if scriptnum_minimal d && negb ((k =? 1)%nat && (((1 <=? v) && (v <=? 16)) || (v =? -1)))
        then Some (v, skipn k rest) else None
      else None
    else None
  end.
