(* SEC 1 v2 section 2.3.3 / 2.3.4 (elliptic-curve-point <-> octet-string), for a prime field F_p with
   mlen = 32 octets per field element (the width the library fixes), and the curve y^2 = x^3 + a x + b.
   Only the two forms bitcoin uses: compressed (02/03 || X) and uncompressed (04 || X || Y).  The point at
   infinity (single octet 00) and the hybrid forms 06/07 are NOT valid public keys here.

   [valid_encoding p a b bs x y]: the octet string bs is a valid encoding and denotes the point (x, y):
   2.3.4 step 2.2-2.4 (compressed): |bs| = mlen + 1, first octet 02 or 03, X converts to a field element
     (an integer < p: 2.3.6), y~ = first octet - 2, and y is THE field element with y^2 = x^3 + a x + b whose
     rightmost bit is y~;
   2.3.4 step 3 (uncompressed): |bs| = 2 mlen + 1, first octet 04, X and Y convert to field elements and
     satisfy the curve equation. *)
From Coq Require Import ZArith List.
Require Import Bits.Lib.Bytes.
Import ListNotations.
Import Coq.Init.Byte.
Local Open Scope Z_scope.

Definition curve_eq (p a b x y : Z) : Prop := (y * y) mod p = (x * x * x + a * x + b) mod p.

Definition valid_encoding (p a b : Z) (bs : bytes) (x y : Z) : Prop :=
  (exists pre X, bs = pre :: X /\ length X = 32%nat /\ (pre = x02 \/ pre = x03) /\
      x = of_be X /\ 0 <= x < p /\ 0 <= y < p /\ curve_eq p a b x y /\ y mod 2 = b2z pre - 2)
  \/
  (exists X Y, bs = x04 :: X ++ Y /\ length X = 32%nat /\ length Y = 32%nat /\
      x = of_be X /\ y = of_be Y /\ 0 <= x < p /\ 0 <= y < p /\ curve_eq p a b x y).

(* 2.3.3: point -> octet string *)
Definition encode (compressed : bool) (x y : Z) : bytes :=
  if compressed then (if y mod 2 =? 0 then x02 else x03) :: to_be 32 x
  else x04 :: to_be 32 x ++ to_be 32 y.
