(* The standard scriptPubKey templates AS RAW BYTES and the address version bytes, transcribed from the
   Bitcoin developer reference / the BIPs -- NOT derived from the code:

     P2PKH  OP_DUP OP_HASH160 <20-byte pubkey hash> OP_EQUALVERIFY OP_CHECKSIG   76 a9 14 <20> 88 ac
            (https://developer.bitcoin.org/devguide/transactions.html#p2pkh-script-validation)
     P2SH   OP_HASH160 <20-byte script hash> OP_EQUAL                            a9 14 <20> 87        (BIP16)
     P2PK   <pubkey> OP_CHECKSIG                                                 21 <33> ac / 41 <65> ac
     P2WPKH 0 <20-byte key hash>                                                 00 14 <20>           (BIP141)
     P2WSH  0 <32-byte script hash>                                              00 20 <32>           (BIP141)
     witness program, version n: a 1-byte push opcode (OP_0, OP_1 .. OP_16 = 0x00, 0x51 .. 0x60) followed by
            a direct push of 2 to 40 bytes                                       (BIP141, BIP350)

   Address version bytes (https://developer.bitcoin.org/reference/address_conversion.html, "Address prefixes"
   https://en.bitcoin.it/wiki/List_of_address_prefixes): P2PKH 0x00 (mainnet) / 0x6f (testnet, regtest);
   P2SH 0x05 (mainnet) / 0xc4 (testnet, regtest).  Segwit human-readable parts: Spec/Bip173.v (segwit_hrps). *)
From Coq Require Import ZArith List Bool.
Require Import Bits.Lib.Bytes.
Import ListNotations.
Import Coq.Init.Byte.
Local Open Scope Z_scope.

(* opcodes used by the templates *)
Definition OP_0 : byte := x00.
Definition OP_DUP : byte := x76.
Definition OP_EQUAL : byte := x87.
Definition OP_EQUALVERIFY : byte := x88.
Definition OP_HASH160 : byte := xa9.
Definition OP_CHECKSIG : byte := xac.
(* OP_0 = 0x00; OP_1 .. OP_16 = 0x51 .. 0x60 *)
Definition OP_N (n : Z) : byte := if n =? 0 then x00 else z2b (0x50 + n).

(* a direct push of 1..75 bytes: one length byte, then the data *)
Definition push (d : bytes) : bytes := z2b (Z.of_nat (length d)) :: d.

Definition tpl_p2pkh (h : bytes) : bytes := [OP_DUP; OP_HASH160; x14] ++ h ++ [OP_EQUALVERIFY; OP_CHECKSIG].
Definition tpl_p2sh (h : bytes) : bytes := [OP_HASH160; x14] ++ h ++ [OP_EQUAL].
Definition tpl_p2wpkh (h : bytes) : bytes := [OP_0; x14] ++ h.
Definition tpl_p2wsh (h : bytes) : bytes := [OP_0; x20] ++ h.
Definition tpl_witness (version : Z) (program : bytes) : bytes := OP_N version :: push program.
Definition tpl_p2pk (key : bytes) : bytes := push key ++ [OP_CHECKSIG].

(* networks and address kinds, by the names the library's API uses *)
Inductive network := Mainnet | Testnet | Regtest.
Inductive addr_kind := P2PKH | P2SH.

Definition version_byte (k : addr_kind) (n : network) : byte :=
  match k, n with
  | P2PKH, Mainnet => x00
  | P2PKH, _ => x6f
  | P2SH, Mainnet => x05
  | P2SH, _ => xc4
  end.

(* the version bytes an address decoder has to know *)
Definition p2pkh_versions : list byte := [x00; x6f].
Definition p2sh_versions : list byte := [x05; xc4].

(* a scriptPubKey is one of the standard forms an address or key can denote *)
Definition standard_script (s : bytes) : Prop :=
  (exists h, length h = 20%nat /\ (s = tpl_p2pkh h \/ s = tpl_p2sh h))
  \/ (exists v prog, 0 <= v <= 16 /\ (2 <= length prog <= 40)%nat /\ s = tpl_witness v prog)
  \/ (exists key, (length key = 33%nat \/ length key = 65%nat) /\ s = tpl_p2pk key).
