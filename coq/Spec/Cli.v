(* C20 -- what the property and the repo's DOCUMENTATION fix (nothing here is transcribed from the code):

   * hexadecimal / binary-string representation of a byte string: two lower-case hex digits, resp. eight bits,
     per byte, most significant first;
   * a hex / binary string that is not a whole number of bytes denotes the same NUMBER, written in
     ceil(len / digits-per-byte) bytes -- i.e. it is left-padded with zeros;
   * precedence: explicit command-line value > configuration file > built-in default; the configuration file is
     config.toml when TOML is supported and the file exists, otherwise config.json (README.md, "Config file
     support"; --config-dir help text);
   * the built-in defaults: README.md "See conf/ for default configuration files" -- transcribed below from
     conf/config.toml = conf/config.json of the pinned snapshot. *)
From Coq Require Import ZArith List Bool.
Require Import Bits.Lib.Bytes Bits.Lib.Radix.
Import ListNotations.
Import Coq.Init.Byte.
Local Open Scope Z_scope.

(* "0123456789abcdef" *)
Definition hex_alphabet : list Z := [48; 49; 50; 51; 52; 53; 54; 55; 56; 57; 97; 98; 99; 100; 101; 102].
Definition spec_digit (d : Z) : Z := nth (Z.to_nat d) hex_alphabet 0.

Definition spec_hex (data : bytes) : list Z :=
  flat_map (fun b => [spec_digit (b2z b / 16); spec_digit (b2z b mod 16)]) data.

Definition spec_bin (data : bytes) : list Z :=
  flat_map (fun b => map (fun i => if Z.testbit (b2z b) i then 49 else 48) [7; 6; 5; 4; 3; 2; 1; 0]) data.

(* the byte string denoted by a digit string `ds` (digit VALUES, base b, k digits per byte):
   the number, in ceil(len/k) bytes big-endian == ds left-padded with zeros to a whole number of bytes *)
Definition spec_padded (b : Z) (k : nat) (ds : list Z) : bytes :=
  to_be (Nat.div (length ds + (k - 1)) k) (undigits b ds).

(* precedence *)
Definition spec_effective {V} (cli file : option V) (default : V) : V :=
  match cli with
  | Some v => v
  | None => match file with Some v => v | None => default end
  end.

(* which file is "the configuration file": None = file absent *)
Definition spec_config_file {D} (toml_supported : bool) (toml json : option D) : option D :=
  if toml_supported then match toml with Some d => Some d | None => json end else json.

(* documented defaults (option name, value), all of them strings *)
Definition spec_defaults : list (bytes * bytes) :=
  [ ([x6c; x6f; x67; x5f; x6c; x65; x76; x65; x6c], [x65; x72; x72; x6f; x72])                       (* log_level="error" *)
  ; ([x6e; x65; x74; x77; x6f; x72; x6b], [x6d; x61; x69; x6e; x6e; x65; x74])                       (* network="mainnet" *)
  ; ([x72; x70; x63; x5f; x75; x72; x6c], [])                                                        (* rpc_url="" *)
  ; ([x72; x70; x63; x5f; x75; x73; x65; x72], [])                                                   (* rpc_user="" *)
  ; ([x72; x70; x63; x5f; x70; x61; x73; x73; x77; x6f; x72; x64], [])                               (* rpc_password="" *)
  ; ([x72; x70; x63; x5f; x64; x61; x74; x61; x64; x69; x72], [])                                    (* rpc_datadir="" *)
  ; ([x69; x6e; x70; x75; x74; x5f; x66; x6f; x72; x6d; x61; x74], [x68; x65; x78])                  (* input_format="hex" *)
  ; ([x6f; x75; x74; x70; x75; x74; x5f; x66; x6f; x72; x6d; x61; x74], [x68; x65; x78])             (* output_format="hex" *)
  ].
