(* DER encodings of EC keys, transcribed from the RFCs (not from the code):

   RFC 5915 section 3      ECPrivateKey ::= SEQUENCE {
                              version        INTEGER { ecPrivkeyVer1(1) } (ecPrivkeyVer1),
                              privateKey     OCTET STRING,
                              parameters [0] ECParameters {{ NamedCurve }} OPTIONAL,
                              publicKey  [1] BIT STRING OPTIONAL }
                           privateKey is the octet string of length ceil(log2(n)/8) (32 for secp256k1, leading
                           zeros kept); [0] and [1] are EXPLICIT context tags (constructed: 0xA0, 0xA1);
                           publicKey holds the SEC1 (uncompressed here) point, BIT STRING with 0 unused bits.
   RFC 5480 section 2      SubjectPublicKeyInfo ::= SEQUENCE { algorithm AlgorithmIdentifier, subjectPublicKey BIT STRING }
                           AlgorithmIdentifier ::= SEQUENCE { algorithm OID id-ecPublicKey, parameters namedCurve OID }
                           id-ecPublicKey = 1.2.840.10045.2.1;  secp256k1 = 1.3.132.0.10 (SEC 2 / RFC 5480 2.1.1.1)
   X.690                   tag octets 0x30 SEQUENCE, 0x02 INTEGER, 0x03 BIT STRING, 0x04 OCTET STRING, 0x06 OID;
                           definite short form length (one octet, < 128) for every element here;
                           8.19: OID = 40*X+Y then base-128 groups, high bit set on all but the last octet.
   RFC 7468 / RFC 5915 4   PEM labels "EC PRIVATE KEY" and "PUBLIC KEY". *)
From Coq Require Import ZArith List String.
Require Import Bits.Lib.Bytes.
Import ListNotations.
Import Coq.Init.Byte.
Local Open Scope Z_scope.

(* X.690 8.19.2: base-128, most significant group first, bit 8 set except on the last octet *)
Fixpoint base128_groups (fuel : nat) (v : Z) (acc : list Z) : list Z :=
  match fuel with
  | O => acc
  | S f => if v <? 128 then v :: acc else base128_groups f (v / 128) (v mod 128 :: acc)
  end.
Definition subid (v : Z) : bytes :=
  let gs := base128_groups 64 v [] in
  let k := List.length gs in
  map (fun iv : nat * Z => z2b (snd iv + (if Nat.ltb (S (fst iv)) k then 128 else 0)))
      (combine (seq 0 k) gs).
Definition oid_content (arcs : list Z) : bytes :=
  match arcs with
  | x :: y :: rest => z2b (40 * x + y) :: flat_map subid rest
  | _ => []
  end.

Definition id_ecPublicKey : list Z := [1; 2; 840; 10045; 2; 1].
Definition secp256k1_oid : list Z := [1; 3; 132; 0; 10].

(* definite short form TLV (only used with contents shorter than 128 bytes) *)
Definition tlv (t : byte) (content : bytes) : bytes := t :: z2b (Z.of_nat (List.length content)) :: content.

(* k: the 32-byte private key octets; pub: the SEC1 public key octets *)
Definition ec_private_key (k pub : bytes) : bytes :=
  tlv x30 (tlv x02 [x01]
           ++ tlv x04 k
           ++ tlv xa0 (tlv x06 (oid_content secp256k1_oid))
           ++ tlv xa1 (tlv x03 (x00 :: pub))).

Definition subject_public_key_info (pub : bytes) : bytes :=
  tlv x30 (tlv x30 (tlv x06 (oid_content id_ecPublicKey) ++ tlv x06 (oid_content secp256k1_oid))
           ++ tlv x03 (x00 :: pub)).

Definition label_private : bytes := list_byte_of_string "EC PRIVATE KEY".
Definition label_public : bytes := list_byte_of_string "PUBLIC KEY".
Definition pem_begin (label : bytes) : bytes :=
  list_byte_of_string "-----BEGIN " ++ label ++ list_byte_of_string "-----".
Definition pem_end (label : bytes) : bytes :=
  list_byte_of_string "-----END " ++ label ++ list_byte_of_string "-----".

Example oid_ecpk : oid_content id_ecPublicKey = [x2a; x86; x48; xce; x3d; x02; x01].
Proof. vm_compute. reflexivity. Qed.
Example oid_k1 : oid_content secp256k1_oid = [x2b; x81; x04; x00; x0a].
Proof. vm_compute. reflexivity. Qed.
