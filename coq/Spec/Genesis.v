(* The genesis block of the Bitcoin main network, transcribed from the published block, NOT from the repo:
   Bitcoin Core chainparams.cpp CreateGenesisBlock(1231006505, 2083236893, 0x1d00ffff, 1, 50 * COIN) with
   pszTimestamp "The Times 03/Jan/2009 Chancellor on brink of second bailout for banks" and Satoshi's public key
   04678afd...1d5f; raw block as served by every node / https://en.bitcoin.it/wiki/Genesis_block (285 bytes):
   block hash 000000000019d6689c085ae165831e934ff763ae46a2a6c172b3f1b60a8ce26f,
   merkle root (= txid of the only transaction, RPC byte order) 4a5e1e4baab89f3a32518a88c31bc87f618f76673e2cc77ab2127b7afdeda33b. *)
From Coq Require Import ZArith List.
Require Import Bits.Lib.Bytes.
Import ListNotations.
Import Coq.Init.Byte.
Local Open Scope Z_scope.

Definition genesis_version : Z := 1.
Definition genesis_time : Z := 1231006505.
Definition genesis_nbits : Z := 486604799.          (* 0x1d00ffff *)
Definition genesis_nonce : Z := 2083236893.

(* internal byte order, as it stands in the header *)
Definition genesis_merkle_root : bytes := [
  x3b; xa3; xed; xfd; x7a; x7b; x12; xb2; x7a; xc7; x2c; x3e; x67; x76; x8f; x61; x7f; xc8; x1b; xc3; x88; x8a; x51; x32;
  x3a; x9f; xb8; xaa; x4b; x1e; x5e; x4a].

(* the coinbase transaction, 204 bytes *)
Definition genesis_coinbase : bytes := [
  x01; x00; x00; x00; x01; x00; x00; x00; x00; x00; x00; x00; x00; x00; x00; x00; x00; x00; x00; x00; x00; x00; x00; x00;
  x00; x00; x00; x00; x00; x00; x00; x00; x00; x00; x00; x00; x00; xff; xff; xff; xff; x4d; x04; xff; xff; x00; x1d; x01;
  x04; x45; x54; x68; x65; x20; x54; x69; x6d; x65; x73; x20; x30; x33; x2f; x4a; x61; x6e; x2f; x32; x30; x30; x39; x20;
  x43; x68; x61; x6e; x63; x65; x6c; x6c; x6f; x72; x20; x6f; x6e; x20; x62; x72; x69; x6e; x6b; x20; x6f; x66; x20; x73;
  x65; x63; x6f; x6e; x64; x20; x62; x61; x69; x6c; x6f; x75; x74; x20; x66; x6f; x72; x20; x62; x61; x6e; x6b; x73; xff;
  xff; xff; xff; x01; x00; xf2; x05; x2a; x01; x00; x00; x00; x43; x41; x04; x67; x8a; xfd; xb0; xfe; x55; x48; x27; x19;
  x67; xf1; xa6; x71; x30; xb7; x10; x5c; xd6; xa8; x28; xe0; x39; x09; xa6; x79; x62; xe0; xea; x1f; x61; xde; xb6; x49;
  xf6; xbc; x3f; x4c; xef; x38; xc4; xf3; x55; x04; xe5; x1e; xc1; x12; xde; x5c; x38; x4d; xf7; xba; x0b; x8d; x57; x8a;
  x4c; x70; x2b; x6b; xf1; x1d; x5f; xac; x00; x00; x00; x00].

(* header fields before and after the merkle root *)
Definition genesis_header_prefix : bytes := [
  x01; x00; x00; x00; x00; x00; x00; x00; x00; x00; x00; x00; x00; x00; x00; x00; x00; x00; x00; x00; x00; x00; x00; x00;
  x00; x00; x00; x00; x00; x00; x00; x00; x00; x00; x00; x00].
Definition genesis_header_suffix : bytes := [
  x29; xab; x5f; x49; xff; xff; x00; x1d; x1d; xac; x2b; x7c].

Definition genesis_header : bytes := genesis_header_prefix ++ genesis_merkle_root ++ genesis_header_suffix.
(* header, transaction count 1, the coinbase transaction *)
Definition genesis_block : bytes := genesis_header ++ [x01] ++ genesis_coinbase.
