(* Wallet Import Format version bytes.
   Source: https://en.bitcoin.it/wiki/Wallet_import_format (0x80 mainnet; 0xEF testnet, which regtest shares) and
   List_of_address_prefixes; the script-type offsets are the extension documented in the wif_encode docstring
   ("influenced by electrum": electrum 4.4.0 bitcoin.py WIF_SCRIPT_TYPES p2pkh 0, p2wpkh 1, p2wpkh-p2sh 2,
   p2sh 5, p2wsh 6, p2wsh-p2sh 7; the library adds p2pk 3 and multisig 4).  version = base + offset. *)
From Coq Require Import ZArith List String.
Require Import Bits.Lib.Bytes.
Import ListNotations.
Local Open Scope Z_scope.

Definition ascii (s : string) : bytes := list_byte_of_string s.

Definition mainnet : bytes := ascii "mainnet".
Definition testnet : bytes := ascii "testnet".
Definition regtest : bytes := ascii "regtest".
Definition p2pkh : bytes := ascii "p2pkh".

Definition network_base : list (bytes * Z) :=
  [(ascii "mainnet", 0x80); (ascii "testnet", 0xEF); (ascii "regtest", 0xEF)].

Definition script_offset : list (bytes * Z) :=
  [(ascii "p2pkh", 0); (ascii "p2wpkh", 1); (ascii "p2sh-p2wpkh", 2); (ascii "p2pk", 3);
   (ascii "multisig", 4); (ascii "p2sh", 5); (ascii "p2wsh", 6); (ascii "p2sh-p2wsh", 7)].

(* the network CLASS recovered from a version byte: regtest is indistinguishable from testnet *)
Definition network_class (net : bytes) : bytes :=
  if bytes_eqb net (ascii "regtest") then ascii "testnet" else net.

(* version byte -> (network class, address type): all 2 x 8 combinations *)
Definition version_table : list (Z * (bytes * bytes)) :=
  flat_map (fun nb : bytes * Z =>
              map (fun so : bytes * Z => (snd nb + snd so, (fst nb, fst so))) script_offset)
           [(ascii "mainnet", 0x80); (ascii "testnet", 0xEF)].
