(* The compact "nBits" encoding of the proof-of-work target, transcribed from the standard, NOT from the repo.

   Bitcoin developer reference, "Target nBits" (https://developer.bitcoin.org/reference/block_chain.html#target-nbits):
     the 32-bit nBits is  exponent (the most significant byte)  and  mantissa/significand (the low 3 bytes);
         target = mantissa * 256 ^ (exponent - 3)
     "the target threshold is a signed number: the high bit of the mantissa (0x00800000) is the sign".

   Bitcoin Core, src/arith_uint256.cpp (the consensus definition; arith_uint256 is a 256-bit unsigned integer):

     arith_uint256& arith_uint256::SetCompact(uint32_t nCompact, bool* pfNegative, bool* pfOverflow)
     {
         int nSize = nCompact >> 24;
         uint32_t nWord = nCompact & 0x007fffff;
         if (nSize <= 3) {
             nWord >>= 8 * (3 - nSize);
             *this = nWord;
         } else {
             *this = nWord;
             *this <<= 8 * (nSize - 3);
         }
         if (pfNegative)
             *pfNegative = nWord != 0 && (nCompact & 0x00800000) != 0;
         if (pfOverflow)
             *pfOverflow = nWord != 0 && ((nSize > 34) ||
                                          (nWord > 0xff && nSize > 33) ||
                                          (nWord > 0xffff && nSize > 32));
         return *this;
     }

   (pow.cpp CheckProofOfWork refuses a header when fNegative, fOverflow or the value is 0 / above powLimit.) *)
From Coq Require Import ZArith Bool.
Local Open Scope Z_scope.

(* the developer reference's equation *)
Definition ref_target (exponent mantissa : Z) : Z := mantissa * 256 ^ (exponent - 3).

(* nCompact = exponent byte, then three mantissa bytes *)
Definition compact (exponent mantissa : Z) : Z := exponent * 2 ^ 24 + mantissa.

Definition sc_size (c : Z) : Z := c / 2 ^ 24.                         (* nCompact >> 24 *)
Definition sc_word0 (c : Z) : Z := c mod 2 ^ 23.                      (* nCompact & 0x007fffff *)
Definition sc_sign (c : Z) : bool := (c / 2 ^ 23) mod 2 =? 1.         (* nCompact & 0x00800000 *)
(* nWord after the `if` *)
Definition sc_word (c : Z) : Z :=
  if sc_size c <=? 3 then sc_word0 c / 2 ^ (8 * (3 - sc_size c)) else sc_word0 c.
(* *this: a 256-bit register, the left shift drops what does not fit *)
Definition sc_value (c : Z) : Z :=
  if sc_size c <=? 3 then sc_word c else (sc_word0 c * 2 ^ (8 * (sc_size c - 3))) mod 2 ^ 256.
Definition sc_negative (c : Z) : bool := negb (sc_word c =? 0) && sc_sign c.
Definition sc_overflow (c : Z) : bool :=
  negb (sc_word c =? 0) &&
  ((34 <? sc_size c) || ((255 <? sc_word c) && (33 <? sc_size c)) || ((65535 <? sc_word c) && (32 <? sc_size c))).

(* chainparams.cpp: powLimit of main/test and of regtest, as nBits *)
Definition pow_limit_main : Z := 2 ^ 224 - 1.          (* 00000000ffffffff...ff *)
Definition nbits_main : Z := 486604799.                 (* 0x1d00ffff *)
Definition nbits_regtest : Z := 545259519.              (* 0x207fffff *)
