(* Constants of the Bitcoin peer-to-peer wire protocol and of the block-file store, transcribed from
   the references (NOT from /repo):
     - message start strings: bitcoin/src/chainparams.cpp v23.0 (pchMessageStart)
         mainnet f9 be b4 d9, testnet3 0b 11 09 07, regtest fa bf b5 da
     - message header: https://developer.bitcoin.org/reference/p2p_networking.html#message-headers
         start string (4) | command name, NUL padded (12) | payload size uint32 LE (4) | checksum (4) = 24 bytes,
         checksum = first 4 bytes of SHA256(SHA256(payload))
     - MAX_SIZE = 0x02000000: bitcoin/src/serialize.h
     - command names: https://en.bitcoin.it/wiki/Network#Messages (+ ping/pong)
     - inventory type identifiers: developer reference "Data messages" / bitcoin/src/protocol.h (GetDataMsg)
     - MAX_BLOCKFILE_SIZE = 0x8000000 (128 MiB): bitcoin/src/node/blockstorage.h
     - block file record: magic (4) | block size uint32 LE (4) | block ; files blkNNNNN.dat (5 decimal digits) *)
From Coq Require Import ZArith List.
Require Import Bits.Lib.Bytes Bits.Lib.CompactSize.
Import ListNotations.
Import Coq.Init.Byte.
Local Open Scope Z_scope.

Definition mainnet_start : bytes := [xf9; xbe; xb4; xd9].
Definition testnet_start : bytes := [x0b; x11; x09; x07].
Definition regtest_start : bytes := [xfa; xbf; xb5; xda].

Definition msg_header_len : Z := 24.
Definition max_size : Z := 33554432.            (* 0x02000000 *)
Definition max_blockfile_size : Z := 134217728. (* 0x8000000 *)

(* ASCII command names *)
Definition commands : list bytes :=
  [ [x76;x65;x72;x73;x69;x6f;x6e]                       (* version *)
  ; [x76;x65;x72;x61;x63;x6b]                           (* verack *)
  ; [x61;x64;x64;x72]                                   (* addr *)
  ; [x69;x6e;x76]                                       (* inv *)
  ; [x67;x65;x74;x64;x61;x74;x61]                       (* getdata *)
  ; [x67;x65;x74;x62;x6c;x6f;x63;x6b;x73]               (* getblocks *)
  ; [x67;x65;x74;x68;x65;x61;x64;x65;x72;x73]           (* getheaders *)
  ; [x74;x78]                                           (* tx *)
  ; [x62;x6c;x6f;x63;x6b]                               (* block *)
  ; [x68;x65;x61;x64;x65;x72;x73]                       (* headers *)
  ; [x67;x65;x74;x61;x64;x64;x72]                       (* getaddr *)
  ; [x73;x75;x62;x6d;x69;x74;x6f;x72;x64;x65;x72]       (* submitorder *)
  ; [x63;x68;x65;x63;x6b;x6f;x72;x64;x65;x72]           (* checkorder *)
  ; [x72;x65;x70;x6c;x79]                               (* reply *)
  ; [x61;x6c;x65;x72;x74]                               (* alert *)
  ; [x70;x69;x6e;x67]                                   (* ping *)
  ; [x70;x6f;x6e;x67]                                   (* pong *)
  ].

(* inventory type name -> identifier *)
Definition msg_witness_flag : Z := 1073741824.  (* 1 << 30 *)
Definition inventory_type_id : list (bytes * Z) :=
  [ ([x4d;x53;x47;x5f;x54;x58], 1)                                                       (* MSG_TX *)
  ; ([x4d;x53;x47;x5f;x42;x4c;x4f;x43;x4b], 2)                                           (* MSG_BLOCK *)
  ; ([x4d;x53;x47;x5f;x46;x49;x4c;x54;x45;x52;x45;x44;x5f;x42;x4c;x4f;x43;x4b], 3)       (* MSG_FILTERED_BLOCK *)
  ; ([x4d;x53;x47;x5f;x43;x4d;x50;x43;x54;x5f;x42;x4c;x4f;x43;x4b], 4)                   (* MSG_CMPCT_BLOCK *)
  ; ([x4d;x53;x47;x5f;x57;x49;x54;x4e;x45;x53;x53;x5f;x54;x58], 1073741825)              (* MSG_WITNESS_TX = 1 | flag *)
  ; ([x4d;x53;x47;x5f;x57;x49;x54;x4e;x45;x53;x53;x5f;x42;x4c;x4f;x43;x4b], 1073741826)  (* MSG_WITNESS_BLOCK = 2 | flag *)
  ].

(* commands for which a payload parser exists (bits.p2p.parse_<command>_payload), sorted *)
Definition parser_commands : list bytes :=
  [ [x61;x64;x64;x72]                                   (* addr *)
  ; [x66;x65;x65;x66;x69;x6c;x74;x65;x72]               (* feefilter *)
  ; [x67;x65;x74;x68;x65;x61;x64;x65;x72;x73]           (* getheaders *)
  ; [x69;x6e;x76]                                       (* inv *)
  ; [x70;x69;x6e;x67]                                   (* ping *)
  ; [x73;x65;x6e;x64;x63;x6d;x70;x63;x74]               (* sendcmpct *)
  ; [x76;x65;x72;x73;x69;x6f;x6e]                       (* version *)
  ].

(* The version message payload, https://developer.bitcoin.org/reference/p2p_networking.html#version :
   version int32 | services uint64 | timestamp int64 | addr_recv services uint64 | addr_recv IP (16 bytes, IPv6
   network order) | addr_recv port uint16 BIG endian | addr_trans services | addr_trans IP | addr_trans port |
   nonce uint64 | user_agent bytes (CompactSize) | user_agent | start_height int32 | relay bool (OPTIONAL, BIP37).
   All integers little endian unless stated; only non-negative values are considered here. *)
Record version_msg : Type := {
  m_protocol_version : Z; m_services : Z; m_timestamp : Z;
  m_recv_services : Z; m_recv_ip : bytes; m_recv_port : Z;
  m_trans_services : Z; m_trans_ip : bytes; m_trans_port : Z;
  m_nonce : Z; m_user_agent : bytes; m_start_height : Z;
  m_relay : option bool
}.

Definition spec_version_payload (m : version_msg) : bytes :=
  to_le 4 (m_protocol_version m) ++ to_le 8 (m_services m) ++ to_le 8 (m_timestamp m)
  ++ to_le 8 (m_recv_services m) ++ m_recv_ip m ++ to_be 2 (m_recv_port m)
  ++ to_le 8 (m_trans_services m) ++ m_trans_ip m ++ to_be 2 (m_trans_port m)
  ++ to_le 8 (m_nonce m) ++ cs_enc (Z.of_nat (length (m_user_agent m))) ++ m_user_agent m
  ++ to_le 4 (m_start_height m)
  ++ match m_relay m with Some true => [x01] | Some false => [x00] | None => [] end.

(* ranges of the fields (what the wire format can carry) *)
Definition version_msg_wf (m : version_msg) : Prop :=
  0 <= m_protocol_version m < 2 ^ 32 /\ 0 <= m_services m < 2 ^ 64 /\ 0 <= m_timestamp m < 2 ^ 64 /\
  0 <= m_recv_services m < 2 ^ 64 /\ length (m_recv_ip m) = 16%nat /\ 0 <= m_recv_port m < 2 ^ 16 /\
  0 <= m_trans_services m < 2 ^ 64 /\ length (m_trans_ip m) = 16%nat /\ 0 <= m_trans_port m < 2 ^ 16 /\
  0 <= m_nonce m < 2 ^ 64 /\ 0 <= m_start_height m < 2 ^ 32.
