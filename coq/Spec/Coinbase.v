(* The coinbase transaction layout and the BIP141 witness commitment, transcribed from the standards.

   Developer reference, "Coinbase Input: The Input Of The First Transaction In A Block":
     hash (null)   32 bytes  "A 32-byte null, as a coinbase has no previous outpoint."
     index          4 bytes  "0xffffffff, as a coinbase has no previous outpoint."
     script bytes   compactSize   "The number of bytes in the coinbase script, up to a maximum of 100 bytes."
     height, coinbase script, sequence (4 bytes)
   Raw transaction format: version (4, LE) | tx_in count | tx_in.. | tx_out count | tx_out.. | lock_time (4, LE);
   TxOut: value (8, LE) | pk_script bytes (compactSize) | pk_script.
   BIP144: version | marker 0x00 | flag 0x01 | txin count | txins | txout count | txouts | script witnesses
           (per input: compactSize item count, each item compactSize length + bytes) | lock_time.

   BIP141, "Commitment structure": "The commitment is recorded in a scriptPubKey of the coinbase transaction.
     It must be at least 38 bytes, with the first 6-byte of 0x6a24aa21a9ed, that is:
        1-byte - OP_RETURN (0x6a)   1-byte - Push the following 36 bytes (0x24)
        4-byte - Commitment header (0xaa21a9ed)
       32-byte - Commitment hash: Double-SHA256(witness root hash|witness reserved value)
     ... The coinbase's input's witness must consist of a single 32-byte array for the witness reserved value."
   The witness root hash is the merkle root over the wtxids, the coinbase's wtxid being 0x00..00 (32 bytes).
   Bitcoin Core (GenerateCoinbaseCommitment) uses the all-zero 32-byte reserved value. *)
From Coq Require Import ZArith List.
Require Import Bits.Lib.Bytes Bits.Lib.CompactSize Bits.Spec.Merkle.
Import ListNotations.
Import Coq.Init.Byte.
Local Open Scope Z_scope.

Definition null_txid : bytes := repeat x00 32.
Definition null_outpoint : bytes := null_txid ++ [xff; xff; xff; xff].
Definition max_coinbase_script : nat := 100.
Definition default_sequence : bytes := [xff; xff; xff; xff].

Definition len_cs {A} (l : list A) : bytes := cs_enc (Z.of_nat (length l)).

Definition coinbase_input (script sequence : bytes) : bytes :=
  null_outpoint ++ len_cs script ++ script ++ sequence.

Definition tx_output (value : Z) (pk_script : bytes) : bytes :=
  to_le 8 value ++ len_cs pk_script ++ pk_script.

(* one input, the listed outputs; version 1, lock_time 0 (what a freshly built coinbase uses) *)
Definition coinbase_legacy (script : bytes) (outs : list (Z * bytes)) : bytes :=
  to_le 4 1 ++ [x01] ++ coinbase_input script default_sequence
  ++ len_cs outs ++ concat (map (fun o => tx_output (fst o) (snd o)) outs) ++ to_le 4 0.

(* BIP144 form with the single witness item [reserved] for the single input *)
Definition coinbase_segwit (script : bytes) (outs : list (Z * bytes)) (reserved : bytes) : bytes :=
  to_le 4 1 ++ [x00; x01] ++ [x01] ++ coinbase_input script default_sequence
  ++ len_cs outs ++ concat (map (fun o => tx_output (fst o) (snd o)) outs)
  ++ ([x01] ++ len_cs reserved ++ reserved) ++ to_le 4 0.

(* ---- BIP141 ---- *)
Definition witness_reserved_value : bytes := repeat x00 32.
Definition commitment_header : bytes := [xaa; x21; xa9; xed].
Definition commitment_script (commitment_hash : bytes) : bytes :=
  [x6a; x24] ++ commitment_header ++ commitment_hash.

Section WithHash.
  Variable sha256 : bytes -> bytes.
  Definition commitment_hash (witness_root reserved : bytes) : bytes :=
    hash256 sha256 (witness_root ++ reserved).
  (* the witness root of a block whose non-coinbase transactions have the given wtxids *)
  Definition witness_root (wtxids_without_coinbase : list bytes) : bytes :=
    merkle sha256 (null_txid :: wtxids_without_coinbase).
End WithHash.
