(* The standard script templates as item lists, transcribed from the developer guide
   (https://developer.bitcoin.org/devguide/transactions.html: P2PKH, P2SH, multisig, pubkey, null data),
   BIP16 (scriptSig = ...signatures... {serialized script}), BIP141 (witness programs, P2SH-nested forms).
   NOT derived from the code. *)
From Coq Require Import ZArith List.
Require Coq.Strings.String.
Import Coq.Strings.String.StringSyntax.
Require Import Bits.Lib.Bytes Bits.Lib.PyStr Bits.Spec.Opcodes Bits.Spec.Script.
Import ListNotations.
Local Open Scope Z_scope.

Local Open Scope string_scope.
Definition n_DUP := str "OP_DUP".
Definition n_HASH160 := str "OP_HASH160".
Definition n_EQUALVERIFY := str "OP_EQUALVERIFY".
Definition n_EQUAL := str "OP_EQUAL".
Definition n_CHECKSIG := str "OP_CHECKSIG".
Definition n_CHECKMULTISIG := str "OP_CHECKMULTISIG".
Definition n_RETURN := str "OP_RETURN".
Definition n_0 := str "OP_0".
Definition n_OP_ := str "OP_".
Local Close Scope string_scope.

(* OP_0 .. OP_16 by number *)
Definition n_small (k : Z) : bytes := n_OP_ ++ dec_str k.

(* scriptPubKeys *)
Definition tpl_p2pk (pk : bytes) : list item := [Data pk; Op n_CHECKSIG].
Definition tpl_p2pkh (pk_hash : bytes) : list item :=
  [Op n_DUP; Op n_HASH160; Data pk_hash; Op n_EQUALVERIFY; Op n_CHECKSIG].
Definition tpl_p2sh (script_hash : bytes) : list item := [Op n_HASH160; Data script_hash; Op n_EQUAL].
Definition tpl_multisig (m : Z) (pubkeys : list bytes) : list item :=
  Op (n_small m) :: map Data pubkeys ++ [Op (n_small (lenZ pubkeys)); Op n_CHECKMULTISIG].
Definition tpl_null_data (data : bytes) : list item := [Op n_RETURN; Data data].
(* BIP141: <version opcode> <witness program> *)
Definition tpl_witness_program (version : Z) (program : bytes) : list item := [Op (n_small version); Data program].

(* scriptSigs *)
Definition tpl_p2pk_sig (sig : bytes) : list item := [Data sig].
Definition tpl_p2pkh_sig (sig pk : bytes) : list item := [Data sig; Data pk].
Definition tpl_p2sh_sig (sigs : list bytes) (redeem_script : bytes) : list item :=
  map Data sigs ++ [Data redeem_script].
Definition tpl_multisig_sig (sigs : list bytes) : list item := Op n_0 :: map Data sigs.
Definition tpl_p2sh_multisig_sig (sigs : list bytes) (redeem_script : bytes) : list item :=
  Op n_0 :: map Data sigs ++ [Data redeem_script].
