(* Signature hashes and template-level script validity - transcribed FROM THE STANDARD, never from the code.

   Legacy signature hash: Bitcoin's original SignatureHash as documented at
     https://en.bitcoin.it/wiki/OP_CHECKSIG  ("How it works", steps 5-10 and the hashtype procedures) and implemented in
     Bitcoin Core script/interpreter.cpp (CTransactionSignatureSerializer):
       - the scriptSig of every input is emptied, the one of the input being signed becomes the subscript
         (scriptPubKey / redeem script, free of OP_CODESEPARATOR and of the signature);
       - SIGHASH_NONE: no outputs; every OTHER input's nSequence is 0;
       - SIGHASH_SINGLE: outputs resized to idx+1, those before idx become (value -1, empty script); every OTHER input's
         nSequence is 0; if idx >= number of outputs the hash is the constant 1 (uint256 one);
       - SIGHASH_ANYONECANPAY: only the input being signed is serialised;
       - the 4-byte little-endian hash type is appended and the result double-SHA256ed.
     The base type is nHashType & 0x1f.
   Segwit v0 programs use BIP143 (Spec/Bip143.v).

   [unlocks]: which unlocking data (scriptSig given as its list of pushed items, witness stack) satisfies which standard
   locking template - BIP16 (P2SH: last push is the redeem script, HASH160 commitment), BIP141 (P2WPKH: witness
   <sig> <pubkey>, HASH160 commitment, scriptCode 76a914{h}88ac; P2WSH: last witness item is the witness script, SHA256
   commitment; P2SH-wrapped: scriptSig is exactly the push of the program), OP_CHECKMULTISIG's in-order key matching and
   the empty dummy element (BIP147), strict DER (BIP66).  It replaces a script interpreter for these templates only. *)
From Coq Require Import ZArith List Bool.
Require Import Bits.Lib.Result Bits.Lib.Bytes Bits.Lib.CompactSize Bits.Spec.Bip143.
Import ListNotations.
Import Coq.Init.Byte.
Local Open Scope Z_scope.

(* the transaction without witness data, as hashed for txid and by the legacy signature hash *)
Definition ser_legacy (t : tx) : bytes :=
  u32le (tx_version t)
  ++ cs_enc (Z.of_nat (length (tx_ins t))) ++ concat (map ser_txin (tx_ins t))
  ++ cs_enc (Z.of_nat (length (tx_outs t))) ++ concat (map ser_txout (tx_outs t))
  ++ u32le (tx_locktime t).

Fixpoint mapi_from {A B} (f : nat -> A -> B) (k : nat) (l : list A) : list B :=
  match l with [] => [] | x :: r => f k x :: mapi_from f (S k) r end.

(* input j of the copy that is hashed when input idx is signed *)
Definition legacy_input (zero_seq : bool) (idx : nat) (script_code : bytes) (j : nat) (i : tx_input) : tx_input :=
  if Nat.eqb j idx then mk_txin (ti_txid i) (ti_vout i) script_code (ti_seq i)
  else mk_txin (ti_txid i) (ti_vout i) [] (if zero_seq then 0 else ti_seq i).

Definition minus_one_out : tx_output := mk_txout (2 ^ 64 - 1) [].           (* CTxOut::SetNull: nValue = -1 *)

(* the byte string that is double-SHA256ed; None: no such input, or the SIGHASH_SINGLE "one" case *)
Definition legacy_preimage (t : tx) (idx : nat) (script_code : bytes) (ht : Z) : option bytes :=
  match nth_error (tx_ins t) idx with
  | None => None
  | Some inp =>
    if is_single ht && (length (tx_outs t) <=? idx)%nat then None
    else
      let all_ins := mapi_from (legacy_input (is_none ht || is_single ht) idx script_code) 0 (tx_ins t) in
      let ins := if anyonecanpay ht then [legacy_input false idx script_code idx inp] else all_ins in
      let outs := if is_none ht then []
                  else if is_single ht then repeat minus_one_out idx ++ firstn 1 (skipn idx (tx_outs t))
                  else tx_outs t in
      Some (ser_legacy (mk_tx (tx_version t) ins outs (tx_locktime t)) ++ u32le ht)
  end.

Definition uint256_one : bytes := x01 :: repeat x00 31.

Section Hash.
  Variable sha256 : bytes -> bytes.
  Variable ripemd160 : bytes -> bytes.
  Definition h256 (m : bytes) : bytes := sha256 (sha256 m).
  Definition h160 (m : bytes) : bytes := ripemd160 (sha256 m).

  Definition legacy_sighash (t : tx) (idx : nat) (script_code : bytes) (ht : Z) : option bytes :=
    match nth_error (tx_ins t) idx with
    | None => None
    | Some _ =>
      if is_single ht && (length (tx_outs t) <=? idx)%nat then Some uint256_one
      else option_map h256 (legacy_preimage t idx script_code ht)
    end.

  (* ---------------- template-level validity ---------------- *)
  (* ECDSA over secp256k1 with SEC1 public keys and strict-DER signatures is a parameter: [ecdsa pk der digest] *)
  Variable ecdsa : bytes -> bytes -> bytes -> Prop.
  Variable strict_der : bytes -> bool.                       (* BIP66, on DER || hashtype *)

  (* OP_CHECKSIG on <sig> <pubkey>; [digest ht] is the signature hash for the hash type carried by the signature *)
  Definition checksig (digest : Z -> option bytes) (sg pk : bytes) : Prop :=
    exists der fl d, sg = der ++ [fl] /\ strict_der sg = true /\ digest (b2z fl) = Some d /\ ecdsa pk der d.

  (* OP_CHECKMULTISIG: every signature matches a key, keys consumed in order *)
  Fixpoint checkmultisig (digest : Z -> option bytes) (sigs pks : list bytes) : Prop :=
    match sigs with
    | [] => True
    | sg :: sigs' =>
      (fix try_keys (pks : list bytes) : Prop :=
         match pks with
         | [] => False
         | pk :: pks' => (checksig digest sg pk /\ checkmultisig digest sigs' pks') \/ try_keys pks'
         end) pks
    end.

  (* the scripts that may sit behind a hash or stand bare *)
  Inductive inner_script :=
  | I_p2pk (pk : bytes)
  | I_p2pkh (h : bytes)
  | I_multisig (m : nat) (pks : list bytes).

  (* stack = the items below the script (bottom first) *)
  Definition inner_unlocks (digest : Z -> option bytes) (s : inner_script) (stack : list bytes) : Prop :=
    match s with
    | I_p2pk pk => exists sg, stack = [sg] /\ checksig digest sg pk
    | I_p2pkh h => exists sg pk, stack = [sg; pk] /\ h160 pk = h /\ checksig digest sg pk
    | I_multisig m pks =>
      exists sigs, stack = [] :: sigs /\ length sigs = m /\ checkmultisig digest sigs pks       (* empty dummy *)
    end.

  Inductive lock :=
  | L_bare (s : inner_script) (spk : bytes)                     (* spk = the serialised scriptPubKey = subscript *)
  | L_p2sh (h : bytes)
  | L_p2wpkh (h : bytes)
  | L_p2wsh (h : bytes).

  (* how a serialised script decodes to an inner script / a v0 witness program is a parameter of the statement
     (Spec/ScriptTemplates.v gives the byte layouts; the harness' c16ref.classify is the executable version) *)
  Variable decode_inner : bytes -> option inner_script.
  Definition p2pkh_code (h : bytes) : bytes := [x76; xa9; x14] ++ h ++ [x88; xac].
  Definition program_of (l : lock) : option bytes :=
    match l with
    | L_p2wpkh h => Some ([x00; x14] ++ h)
    | L_p2wsh h => Some ([x00; x20] ++ h)
    | _ => None
    end.

  Definition witness_unlocks (t : tx) (idx : nat) (amount : Z) (l : lock) (wit : list bytes) : Prop :=
    match l with
    | L_p2wpkh h =>
      exists sg pk, wit = [sg; pk] /\ h160 pk = h /\        (* compressed keys only: policy, not consensus *)
                    checksig (fun ht => sighash sha256 t idx amount (p2pkh_code h) ht) sg pk
    | L_p2wsh h =>
      exists stack ws s, wit = stack ++ [ws] /\ sha256 ws = h /\ decode_inner ws = Some s /\
                         inner_unlocks (fun ht => sighash sha256 t idx amount ws ht) s stack
    | _ => False
    end.

  (* [items] = the data pushed by the scriptSig (it must be push-only), [ss] = the scriptSig bytes of input idx in t *)
  Definition unlocks (t : tx) (idx : nat) (amount : Z) (l : lock) (items : list bytes) (wit : list bytes) : Prop :=
    match l with
    | L_bare s spk => wit = [] /\ inner_unlocks (fun ht => legacy_sighash t idx spk ht) s items
    | L_p2sh h =>
      exists stack redeem, items = stack ++ [redeem] /\ h160 redeem = h /\
        ((exists s, decode_inner redeem = Some s /\ wit = [] /\
                    inner_unlocks (fun ht => legacy_sighash t idx redeem ht) s stack)
         \/ (exists l', program_of l' = Some redeem /\ stack = [] /\ witness_unlocks t idx amount l' wit))
    | L_p2wpkh _ | L_p2wsh _ => items = [] /\ witness_unlocks t idx amount l wit
    end.
End Hash.
