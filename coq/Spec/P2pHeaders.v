(* "getblocks" and "headers" messages, transcribed from the Bitcoin developer reference, P2P network
   (https://developer.bitcoin.org/reference/p2p_networking.html#getblocks, #headers), NOT from the repo:

   getblocks payload:   4   version              uint32_t (little endian)
                        var hash count           compactSize uint
                        32n block header hashes  char[32] each, internal byte order, highest-height first
                        32  stop hash            char[32]; all zeroes = "as many blocks as possible" (max 500)
   (getheaders has the identical layout.)

   headers payload:     var count                compactSize uint, "number of block headers up to a maximum of 2,000"
                        81n headers              block_header: 80-byte header, each followed by a transaction
                                                 count that is always 0x00 *)
From Coq Require Import ZArith List Bool.
Require Import Bits.Lib.Bytes Bits.Lib.CompactSize.
Import ListNotations.
Import Coq.Init.Byte.
Local Open Scope Z_scope.

Definition stop_hash_all : bytes := repeat x00 32.
Definition max_headers : Z := 2000.

Definition spec_getblocks_payload (version : Z) (hashes : list bytes) (stop_hash : bytes) : bytes :=
  to_le 4 version ++ cs_enc (Z.of_nat (length hashes)) ++ concat hashes ++ stop_hash.

Definition header_entry (h : bytes) : bytes := h ++ [x00].
Definition spec_headers_payload (headers : list bytes) : bytes :=
  cs_enc (Z.of_nat (length headers)) ++ concat (map header_entry headers).

(* reference receiver: n entries of 80 bytes + a zero transaction count *)
Fixpoint spec_parse_entries (n : nat) (b : bytes) : option (list bytes * bytes) :=
  match n with
  | O => Some ([], b)
  | S n' =>
    if (length b <? 81)%nat then None
    else if negb (b2z (nth 80 b xff) =? 0) then None
    else match spec_parse_entries n' (skipn 81 b) with
         | Some (hs, rest) => Some (firstn 80 b :: hs, rest)
         | None => None
         end
  end.

Definition spec_parse_headers (payload : bytes) : option (list bytes) :=
  match cs_dec payload with
  | None => None
  | Some (count, rest) =>
    if max_headers <? count then None
    else match spec_parse_entries (Z.to_nat count) rest with
         | Some (hs, []) => Some hs
         | _ => None
         end
  end.
