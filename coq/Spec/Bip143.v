(* BIP143 (segwit v0) signature message -- transcribed FROM THE BIP TEXT
   https://github.com/bitcoin/bips/blob/master/bip-0143.mediawiki  ("Specification"), never from the code.

     Double SHA256 of the serialization of:
       1. nVersion of the transaction (4-byte little endian)
       2. hashPrevouts (32-byte hash)
       3. hashSequence (32-byte hash)
       4. outpoint (32-byte hash + 4-byte little endian)
       5. scriptCode of the input (serialized as scripts inside CTxOuts)
       6. value of the output spent by this input (8-byte little endian)
       7. nSequence of the input (4-byte little endian)
       8. hashOutputs (32-byte hash)
       9. nLocktime of the transaction (4-byte little endian)
      10. sighash type of the signature (4-byte little endian)

   "serialized as scripts inside CTxOuts" = CompactSize length prefix followed by the script bytes.
   The flag tests follow the reference code printed in the BIP:
       nHashType & SIGHASH_ANYONECANPAY,  (nHashType & 0x1f) == SIGHASH_SINGLE / SIGHASH_NONE.
   The hash function is a Section variable: every theorem holds for any [sha256]. *)
From Coq Require Import ZArith List Bool.
Require Import Bits.Lib.Result Bits.Lib.Bytes Bits.Lib.CompactSize.
Import ListNotations.
Import Coq.Init.Byte.
Local Open Scope Z_scope.

(* ---- structured transaction ---- *)
Record tx_input := mk_txin {
  ti_txid : bytes;       (* previous transaction id, 32 bytes, internal byte order *)
  ti_vout : Z;           (* index of the spent output, uint32 *)
  ti_script : bytes;     (* scriptSig *)
  ti_seq : Z             (* nSequence, uint32 *)
}.
Record tx_output := mk_txout {
  to_value : Z;          (* amount in satoshi, 8-byte little endian *)
  to_script : bytes      (* scriptPubKey *)
}.
Record tx := mk_tx {
  tx_version : Z;
  tx_ins : list tx_input;
  tx_outs : list tx_output;
  tx_locktime : Z
}.

(* ---- sighash types (BIP143 / script/interpreter.h) ---- *)
Definition SIGHASH_ALL : Z := 1.
Definition SIGHASH_NONE : Z := 2.
Definition SIGHASH_SINGLE : Z := 3.
Definition SIGHASH_ANYONECANPAY : Z := 0x80.

(* the six standard signature-hash types *)
Definition standard_flags : list Z := [0x01; 0x02; 0x03; 0x81; 0x82; 0x83].
Definition standard_flag (f : Z) : Prop := In f standard_flags.

Definition anyonecanpay (ht : Z) : bool := negb (Z.land ht SIGHASH_ANYONECANPAY =? 0).
Definition is_single (ht : Z) : bool := Z.land ht 0x1f =? SIGHASH_SINGLE.
Definition is_none (ht : Z) : bool := Z.land ht 0x1f =? SIGHASH_NONE.

(* ---- field serialisations ---- *)
Definition u32le (n : Z) : bytes := to_le 4 n.
Definition u64le (n : Z) : bytes := to_le 8 n.
Definition zero32 : bytes := repeat x00 32.

Definition ser_script (s : bytes) : bytes := cs_enc (Z.of_nat (length s)) ++ s.
Definition ser_outpoint (i : tx_input) : bytes := ti_txid i ++ u32le (ti_vout i).
Definition ser_txin (i : tx_input) : bytes := ser_outpoint i ++ ser_script (ti_script i) ++ u32le (ti_seq i).
Definition ser_txout (o : tx_output) : bytes := u64le (to_value o) ++ ser_script (to_script o).

(* every field fits its wire width *)
Definition wf_txin (i : tx_input) : Prop :=
  length (ti_txid i) = 32%nat /\ 0 <= ti_vout i < 2 ^ 32 /\ 0 <= ti_seq i < 2 ^ 32
  /\ Z.of_nat (length (ti_script i)) < 2 ^ 64.
Definition wf_txout (o : tx_output) : Prop :=
  0 <= to_value o < 2 ^ 64 /\ Z.of_nat (length (to_script o)) < 2 ^ 64.
Definition wf_tx (t : tx) : Prop :=
  0 <= tx_version t < 2 ^ 32 /\ 0 <= tx_locktime t < 2 ^ 32
  /\ Forall wf_txin (tx_ins t) /\ Forall wf_txout (tx_outs t).

Section Spec.
  Variable sha256 : bytes -> bytes.
  Definition hash256 (m : bytes) : bytes := sha256 (sha256 m).

  (* "If the ANYONECANPAY flag is not set, hashPrevouts is the double SHA256 of the serialization of all
      input outpoints; otherwise, hashPrevouts is a uint256 of 0x0000......0000." *)
  Definition hash_prevouts (t : tx) (ht : Z) : bytes :=
    if anyonecanpay ht then zero32
    else hash256 (concat (map ser_outpoint (tx_ins t))).

  (* "If none of the ANYONECANPAY, SINGLE, NONE sighash type is set, hashSequence is the double SHA256 of the
      serialization of nSequence of all inputs; otherwise, hashSequence is a uint256 of 0x0000......0000." *)
  Definition hash_sequence (t : tx) (ht : Z) : bytes :=
    if negb (anyonecanpay ht) && negb (is_single ht) && negb (is_none ht)
    then hash256 (concat (map (fun i => u32le (ti_seq i)) (tx_ins t)))
    else zero32.

  (* "If the sighash type is neither SINGLE nor NONE, hashOutputs is the double SHA256 of the serialization of
      all output amount (8-byte little endian) with scriptPubKey (serialized as scripts inside CTxOuts);
      if sighash type is SINGLE and the input index is smaller than the number of outputs, hashOutputs is the
      double SHA256 of the output amount with scriptPubKey of the same index as the input;
      otherwise, hashOutputs is a uint256 of 0x0000......0000." *)
  Definition hash_outputs (t : tx) (idx : nat) (ht : Z) : bytes :=
    if negb (is_single ht) && negb (is_none ht)
    then hash256 (concat (map ser_txout (tx_outs t)))
    else if is_single ht && (idx <? length (tx_outs t))%nat
    then match nth_error (tx_outs t) idx with
         | Some o => hash256 (ser_txout o)
         | None => zero32
         end
    else zero32.

  (* the message that is double-SHA256ed; [None] when there is no input [idx] *)
  Definition preimage (t : tx) (idx : nat) (amount : Z) (script_code : bytes) (ht : Z) : option bytes :=
    match nth_error (tx_ins t) idx with
    | None => None
    | Some inp =>
      Some (u32le (tx_version t)
            ++ hash_prevouts t ht
            ++ hash_sequence t ht
            ++ ser_outpoint inp
            ++ ser_script script_code
            ++ u64le amount
            ++ u32le (ti_seq inp)
            ++ hash_outputs t idx ht
            ++ u32le (tx_locktime t)
            ++ u32le ht)
    end.

  Definition sighash (t : tx) (idx : nat) (amount : Z) (script_code : bytes) (ht : Z) : option bytes :=
    option_map hash256 (preimage t idx amount script_code ht).
End Spec.
