(* BIP32 (Hierarchical Deterministic Wallets), transcribed FROM THE BIP TEXT
   https://github.com/bitcoin/bips/blob/master/bip-0032.mediawiki   -- not from the code.

   Conventions of the BIP: point(p) = p*G, ser32, ser256, serP (SEC1 compressed), parse256; n = order of G.
   The group is abstract here: [pointG] is "EC point multiplication of the base point", [padd] is "EC group
   operation"; a point is a coordinate pair, [None] is the point at infinity.
   HMAC-SHA512, SHA256 and RIPEMD160 are parameters. *)
From Coq Require Import ZArith List Bool.
Require Import Bits.Lib.Bytes.
Import ListNotations.
Import Coq.Init.Byte.
Local Open Scope Z_scope.

(* ---- "Serialization format": the four version byte strings ---- *)
Definition version_pub_main : Z := 0x0488B21E.   (* xpub *)
Definition version_prv_main : Z := 0x0488ADE4.   (* xprv *)
Definition version_pub_test : Z := 0x043587CF.   (* tpub *)
Definition version_prv_test : Z := 0x04358394.   (* tprv *)

(* "hardened child keys use indices 2^31 through 2^32-1" *)
Definition hardened_offset : Z := 2 ^ 31.

Definition ser32 (i : Z) : bytes := to_be 4 i.
Definition ser256 (k : Z) : bytes := to_be 32 k.
Definition parse256 (b : bytes) : Z := of_be b.

Definition pt : Type := option (Z * Z).

(* serP(P): SEC1 compressed form (0x02 or 0x03) || ser256(x), the header byte depending on the parity of y *)
Definition serP (P : pt) : bytes :=
  match P with
  | Some (x, y) => (if Z.even y then x02 else x03) :: ser256 x
  | None => []          (* the point at infinity has no serialisation; never used for valid keys *)
  end.

Definition vbytes (public testnet : bool) : bytes :=
  ser32 (if public then (if testnet then version_pub_test else version_pub_main)
         else (if testnet then version_prv_test else version_prv_main)).

Definition zero4 : bytes := [x00; x00; x00; x00].

Section Bip32.
  Variables p a b n : Z.                      (* the curve y^2 = x^3 + a x + b over F_p, group order n *)
  Variable pointG : Z -> pt.                  (* point(k) = k*G *)
  Variable padd : pt -> pt -> pt.             (* the EC group operation *)
  Variable hmac_sha512 : bytes -> bytes -> bytes.   (* key, data *)
  Variable sha256 ripemd160 : bytes -> bytes.

  Definition on_curve (P : pt) : Prop :=
    match P with
    | Some (x, y) => 0 <= x < p /\ 0 <= y < p /\ (y * y) mod p = (x * x * x + a * x + b) mod p
    | None => False
    end.

  (* ---- Private parent key -> private child key.   None = "the resulting key is invalid" ---- *)
  Definition ckd_priv (kpar : Z) (cpar : bytes) (i : Z) : option (Z * bytes) :=
    let I := if hardened_offset <=? i
             then hmac_sha512 cpar (x00 :: ser256 kpar ++ ser32 i)
             else hmac_sha512 cpar (serP (pointG kpar) ++ ser32 i) in
    let IL := firstn 32 I in
    let IR := skipn 32 I in
    let ki := (parse256 IL + kpar) mod n in
    if (n <=? parse256 IL) || (ki =? 0) then None else Some (ki, IR).

  (* ---- Public parent key -> public child key.   Hardened: "failure"; invalid: None ---- *)
  Definition ckd_pub (Kpar : pt) (cpar : bytes) (i : Z) : option (pt * bytes) :=
    if hardened_offset <=? i then None
    else
      let I := hmac_sha512 cpar (serP Kpar ++ ser32 i) in
      let IL := firstn 32 I in
      let IR := skipn 32 I in
      let Ki := padd (pointG (parse256 IL)) Kpar in
      if n <=? parse256 IL then None else
      match Ki with None => None | Some _ => Some (Ki, IR) end.

  (* ---- Private parent key -> public child key: N((k, c)) = (point(k), c) ---- *)
  Definition neuter (k : Z) (c : bytes) : pt * bytes := (pointG k, c).

  (* ---- Master key generation: I = HMAC-SHA512(Key = "Bitcoin seed", Data = S) ---- *)
  Definition bitcoin_seed : bytes := [x42; x69; x74; x63; x6f; x69; x6e; x20; x73; x65; x65; x64].
  Definition master (seed : bytes) : option (Z * bytes) :=
    let I := hmac_sha512 bitcoin_seed seed in
    let k := parse256 (firstn 32 I) in
    if (k =? 0) || (n <=? k) then None else Some (k, skipn 32 I).

  (* ---- Key identifiers: HASH160 of the serialized public key; fingerprint = its first 32 bits ---- *)
  Definition identifier (K : pt) : bytes := ripemd160 (sha256 (serP K)).
  Definition fingerprint (K : pt) : bytes := firstn 4 (identifier K).

  (* ---- extended keys with their position in the tree ---- *)
  Inductive keyt := Prv (k : Z) | Pub (K : pt).
  Record xkey := {
    xk_testnet : bool;
    xk_depth : Z;          (* 0x00 for master nodes, 0x01 for level-1 derived keys, ... *)
    xk_fp : bytes;         (* fingerprint of the parent's key (0x00000000 if master key) *)
    xk_child : Z;          (* child number: the i in xi = xpar/i; 0 if master *)
    xk_cc : bytes;         (* chain code *)
    xk_key : keyt
  }.

  Definition is_pub (k : keyt) : bool := match k with Pub _ => true | Prv _ => false end.
  Definition ser_key (k : keyt) : bytes :=
    match k with Prv k => x00 :: ser256 k | Pub K => serP K end.

  (* 4 version | 1 depth | 4 fingerprint | 4 child number (ser32) | 32 chain code | 33 key *)
  Definition serialize (X : xkey) : bytes :=
    vbytes (is_pub (xk_key X)) (xk_testnet X) ++ [z2b (xk_depth X)] ++ xk_fp X ++ ser32 (xk_child X)
      ++ xk_cc X ++ ser_key (xk_key X).

  (* which structured keys are VALID (the rules exercised by the BIP's test vector 5):
     depth fits a byte; 4-byte fingerprint; 32-bit child number; 32-byte chain code; private key in 1..n-1,
     public key a point of the curve; at depth 0 the fingerprint and the child number are zero.
     (unknown version / key type not matching the version / bad prefix byte are excluded by [serialize]) *)
  Definition key_valid (k : keyt) : Prop :=
    match k with Prv k => 1 <= k < n | Pub K => on_curve K end.
  Definition wf (X : xkey) : Prop :=
    0 <= xk_depth X <= 255 /\ length (xk_fp X) = 4%nat /\ 0 <= xk_child X < 2 ^ 32 /\
    length (xk_cc X) = 32%nat /\ key_valid (xk_key X) /\
    (xk_depth X = 0 -> xk_fp X = zero4 /\ xk_child X = 0).

  (* the 78-byte payload [d] is a valid serialised extended key and denotes X *)
  Definition decodes (d : bytes) (X : xkey) : Prop := d = serialize X /\ wf X.

  (* ---- child extended keys: depth + 1, parent fingerprint, child number i ---- *)
  Definition pub_of (k : keyt) : pt := match k with Prv k => pointG k | Pub K => K end.

  Definition child (X : xkey) (i : Z) : option xkey :=
    match xk_key X with
    | Prv k =>
      match ckd_priv k (xk_cc X) i with
      | Some (ki, ci) => Some {| xk_testnet := xk_testnet X; xk_depth := xk_depth X + 1;
                                 xk_fp := fingerprint (pointG k); xk_child := i; xk_cc := ci; xk_key := Prv ki |}
      | None => None
      end
    | Pub K =>
      match ckd_pub K (xk_cc X) i with
      | Some (Ki, ci) => Some {| xk_testnet := xk_testnet X; xk_depth := xk_depth X + 1;
                                 xk_fp := fingerprint K; xk_child := i; xk_cc := ci; xk_key := Pub Ki |}
      | None => None
      end
    end.

  (* m/i1/i2/... : CKD applied along the path *)
  Fixpoint derive (X : xkey) (path : list Z) : option xkey :=
    match path with
    | [] => Some X
    | i :: rest => match child X i with Some X' => derive X' rest | None => None end
    end.

  (* the neutered version of an extended private key (same position in the tree) *)
  Definition neuter_xkey (X : xkey) : xkey :=
    {| xk_testnet := xk_testnet X; xk_depth := xk_depth X; xk_fp := xk_fp X; xk_child := xk_child X;
       xk_cc := xk_cc X; xk_key := Pub (pub_of (xk_key X)) |}.
End Bip32.
