(* The Script opcode table, transcribed from the Bitcoin Script reference
   (https://en.bitcoin.it/wiki/Script, Bitcoin Core src/script/script.h `enum opcodetype`, BIP65, BIP112, BIP342).
   NOT derived from the code.  Names are Coq strings here, converted to byte strings by [spec_opcodes]. *)
From Coq Require Import ZArith List String.
Require Import Bits.Lib.Bytes Bits.Lib.PyStr.
Import ListNotations.
Local Open Scope Z_scope.
Local Open Scope string_scope.

Definition spec_table : list (string * Z) :=
  [ (* push value *)
    ("OP_0", 0x00); ("OP_FALSE", 0x00);
    ("OP_PUSHDATA1", 0x4c); ("OP_PUSHDATA2", 0x4d); ("OP_PUSHDATA4", 0x4e);
    ("OP_1NEGATE", 0x4f); ("OP_RESERVED", 0x50);
    ("OP_1", 0x51); ("OP_TRUE", 0x51);
    ("OP_2", 0x52); ("OP_3", 0x53); ("OP_4", 0x54); ("OP_5", 0x55); ("OP_6", 0x56); ("OP_7", 0x57);
    ("OP_8", 0x58); ("OP_9", 0x59); ("OP_10", 0x5a); ("OP_11", 0x5b); ("OP_12", 0x5c); ("OP_13", 0x5d);
    ("OP_14", 0x5e); ("OP_15", 0x5f); ("OP_16", 0x60);
    (* flow control *)
    ("OP_NOP", 0x61); ("OP_VER", 0x62); ("OP_IF", 0x63); ("OP_NOTIF", 0x64); ("OP_VERIF", 0x65);
    ("OP_VERNOTIF", 0x66); ("OP_ELSE", 0x67); ("OP_ENDIF", 0x68); ("OP_VERIFY", 0x69); ("OP_RETURN", 0x6a);
    (* stack *)
    ("OP_TOALTSTACK", 0x6b); ("OP_FROMALTSTACK", 0x6c); ("OP_2DROP", 0x6d); ("OP_2DUP", 0x6e);
    ("OP_3DUP", 0x6f); ("OP_2OVER", 0x70); ("OP_2ROT", 0x71); ("OP_2SWAP", 0x72); ("OP_IFDUP", 0x73);
    ("OP_DEPTH", 0x74); ("OP_DROP", 0x75); ("OP_DUP", 0x76); ("OP_NIP", 0x77); ("OP_OVER", 0x78);
    ("OP_PICK", 0x79); ("OP_ROLL", 0x7a); ("OP_ROT", 0x7b); ("OP_SWAP", 0x7c); ("OP_TUCK", 0x7d);
    (* splice *)
    ("OP_CAT", 0x7e); ("OP_SUBSTR", 0x7f); ("OP_LEFT", 0x80); ("OP_RIGHT", 0x81); ("OP_SIZE", 0x82);
    (* bitwise logic *)
    ("OP_INVERT", 0x83); ("OP_AND", 0x84); ("OP_OR", 0x85); ("OP_XOR", 0x86); ("OP_EQUAL", 0x87);
    ("OP_EQUALVERIFY", 0x88); ("OP_RESERVED1", 0x89); ("OP_RESERVED2", 0x8a);
    (* arithmetic *)
    ("OP_1ADD", 0x8b); ("OP_1SUB", 0x8c); ("OP_2MUL", 0x8d); ("OP_2DIV", 0x8e); ("OP_NEGATE", 0x8f);
    ("OP_ABS", 0x90); ("OP_NOT", 0x91); ("OP_0NOTEQUAL", 0x92); ("OP_ADD", 0x93); ("OP_SUB", 0x94);
    ("OP_MUL", 0x95); ("OP_DIV", 0x96); ("OP_MOD", 0x97); ("OP_LSHIFT", 0x98); ("OP_RSHIFT", 0x99);
    ("OP_BOOLAND", 0x9a); ("OP_BOOLOR", 0x9b); ("OP_NUMEQUAL", 0x9c); ("OP_NUMEQUALVERIFY", 0x9d);
    ("OP_NUMNOTEQUAL", 0x9e); ("OP_LESSTHAN", 0x9f); ("OP_GREATERTHAN", 0xa0); ("OP_LESSTHANOREQUAL", 0xa1);
    ("OP_GREATERTHANOREQUAL", 0xa2); ("OP_MIN", 0xa3); ("OP_MAX", 0xa4); ("OP_WITHIN", 0xa5);
    (* crypto *)
    ("OP_RIPEMD160", 0xa6); ("OP_SHA1", 0xa7); ("OP_SHA256", 0xa8); ("OP_HASH160", 0xa9); ("OP_HASH256", 0xaa);
    ("OP_CODESEPARATOR", 0xab); ("OP_CHECKSIG", 0xac); ("OP_CHECKSIGVERIFY", 0xad);
    ("OP_CHECKMULTISIG", 0xae); ("OP_CHECKMULTISIGVERIFY", 0xaf);
    (* expansion / locktime (BIP65, BIP112) *)
    ("OP_NOP1", 0xb0);
    ("OP_CHECKLOCKTIMEVERIFY", 0xb1); ("OP_NOP2", 0xb1);
    ("OP_CHECKSEQUENCEVERIFY", 0xb2); ("OP_NOP3", 0xb2);
    ("OP_NOP4", 0xb3); ("OP_NOP5", 0xb4); ("OP_NOP6", 0xb5); ("OP_NOP7", 0xb6); ("OP_NOP8", 0xb7);
    ("OP_NOP9", 0xb8); ("OP_NOP10", 0xb9);
    (* BIP342 *)
    ("OP_CHECKSIGADD", 0xba);
    ("OP_INVALIDOPCODE", 0xff) ].

(* pseudo-words of the wiki that are used only for template matching (not in script.h any more):
   the code need not define them, but must not give them another value *)
Definition spec_pseudo_table : list (string * Z) :=
  [ ("OP_PUBKEYHASH", 0xfd); ("OP_PUBKEY", 0xfe) ].

Definition conv (t : list (string * Z)) : list (bytes * Z) := map (fun p => (str (fst p), snd p)) t.
Definition spec_opcodes : list (bytes * Z) := conv spec_table.
Definition spec_pseudo : list (bytes * Z) := conv spec_pseudo_table.

Local Close Scope string_scope.

(* the three opcodes followed by an explicit little-endian length *)
Definition OP_PUSHDATA1_v : Z := 0x4c.
Definition OP_PUSHDATA2_v : Z := 0x4d.
Definition OP_PUSHDATA4_v : Z := 0x4e.

(* byte values that are an opcode of the reference (0x01..0x4b are direct pushes, not opcodes) *)
Definition spec_defined (v : Z) : bool := existsb (fun p => snd p =? v) spec_opcodes.
Definition spec_is_pushdata (v : Z) : bool := (v =? 0x4c) || (v =? 0x4d) || (v =? 0x4e).
Definition spec_defined_nonpush (v : Z) : bool := spec_defined v && negb (spec_is_pushdata v).
