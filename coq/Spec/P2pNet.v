(* Network names accepted by the P2P layer's network selection and the message start string each one selects
   (bitcoin/src/chainparams.cpp v23.0 pchMessageStart; see Spec/P2p.v).  Names are matched case-insensitively. *)
From Coq Require Import List.
Require Import Bits.Lib.Bytes Bits.Spec.P2p.
Import ListNotations.
Import Coq.Init.Byte.

Definition network_magics : list (bytes * bytes) :=
  [ ([x6d;x61;x69;x6e;x6e;x65;x74], mainnet_start)     (* "mainnet" *)
  ; ([x74;x65;x73;x74;x6e;x65;x74], testnet_start)     (* "testnet" *)
  ; ([x72;x65;x67;x74;x65;x73;x74], regtest_start) ].  (* "regtest" *)
