(* Script serialisation rules from the Script reference (https://en.bitcoin.it/wiki/Script "Constants",
   BIP62 rule 3 "minimal push"), NOT derived from the code:

     byte 0x01..0x4b  N            the next N bytes are pushed
     0x4c OP_PUSHDATA1             the next byte is the length, then that many bytes
     0x4d OP_PUSHDATA2             the next two bytes (little endian) are the length
     0x4e OP_PUSHDATA4             the next four bytes (little endian) are the length
   A push is MINIMAL when no shorter form could have been used for that length.               *)
From Coq Require Import ZArith List Lia Bool.
Require Import Bits.Lib.Bytes Bits.Lib.PyStr Bits.Spec.Opcodes.
Import ListNotations.
Import Coq.Init.Byte.
Local Open Scope Z_scope.

(* a script as its author writes it: opcode names and data items *)
Inductive item := Op (name : bytes) | Data (d : bytes).

Inductive push_form := Direct | PD1 | PD2 | PD4.

(* can a data item of length len be pushed with this form at all? *)
Definition form_valid (f : push_form) (len : Z) : bool :=
  match f with
  | Direct => (1 <=? len) && (len <=? 75)
  | PD1 => (0 <=? len) && (len <=? 255)
  | PD2 => (0 <=? len) && (len <=? 65535)
  | PD4 => (0 <=? len) && (len <=? 4294967295)
  end.

(* the bytes in front of the data *)
Definition form_prefix (f : push_form) (len : Z) : bytes :=
  match f with
  | Direct => to_le 1 len
  | PD1 => x4c :: to_le 1 len
  | PD2 => x4d :: to_le 2 len
  | PD4 => x4e :: to_le 4 len
  end.

Definition form_overhead (f : push_form) : Z :=
  match f with Direct => 1 | PD1 => 2 | PD2 => 3 | PD4 => 5 end.

(* the minimal form for a length (1 <= len < 2^32) *)
Definition minimal_form (len : Z) : push_form :=
  if len <=? 75 then Direct else if len <=? 255 then PD1 else if len <=? 65535 then PD2 else PD4.

Definition spec_push (d : bytes) : bytes := form_prefix (minimal_form (lenZ d)) (lenZ d) ++ d.

(* ---- the reference assembler -------------------------------------------------------------- *)
Definition spec_value (name : bytes) : option Z := assoc_b name spec_opcodes.

(* a name of the reference table that is not one of the three PUSHDATA opcodes *)
Definition spec_nonpush_name (name : bytes) : bool :=
  match spec_value name with Some v => negb (spec_is_pushdata v) | None => false end.

(* the items the property quantifies over: defined non-push opcode names, non-empty data below 2^32 bytes *)
Definition valid_item (it : item) : Prop :=
  match it with
  | Op name => spec_nonpush_name name = true
  | Data d => 1 <= lenZ d < 2 ^ 32
  end.

Definition spec_asm_item (it : item) : bytes :=
  match it with
  | Op name => match spec_value name with Some v => [z2b v] | None => [] end
  | Data d => spec_push d
  end.
Definition spec_asm (items : list item) : bytes := concat (map spec_asm_item items).

Lemma minimal_form_valid len : 1 <= len < 2 ^ 32 -> form_valid (minimal_form len) len = true.
Proof.
  intros H. unfold minimal_form.
  destruct (Z.leb_spec len 75); [cbn; lia|].
  destruct (Z.leb_spec len 255); [cbn; lia|].
  destruct (Z.leb_spec len 65535); cbn; lia.
Qed.

Lemma minimal_form_least len g : form_valid g len = true ->
  form_overhead (minimal_form len) <= form_overhead g.
Proof.
  unfold minimal_form.
  destruct (Z.leb_spec len 75); [destruct g; cbn; lia|].
  destruct (Z.leb_spec len 255); [destruct g; cbn; lia|].
  destruct (Z.leb_spec len 65535); destruct g; cbn; lia.
Qed.

(* ---- canonical scripts: an independent recogniser ------------------------------------------
   A script is canonical when it is a sequence of
     - opcodes of the reference table other than the three PUSHDATA opcodes, and
     - complete, minimal pushes of NON-EMPTY data (the empty push is the opcode OP_0).
   Fuel = length of the script (every element is at least one byte long).                      *)
Fixpoint canonical_fuel (fuel : nat) (bs : bytes) : bool :=
  match bs with
  | [] => true
  | b :: rest =>
    match fuel with
    | O => false
    | S f =>
      let v := b2z b in
      if (1 <=? v) && (v <=? 75) then
        (v <=? lenZ rest) && canonical_fuel f (zdrop v rest)
      else if v =? 0x4c then
        match rest with
        | [] => false
        | l :: r => let n := b2z l in (76 <=? n) && (n <=? lenZ r) && canonical_fuel f (zdrop n r)
        end
      else if v =? 0x4d then
        (2 <=? lenZ rest) &&
        (let n := of_le (firstn 2 rest) in
         (256 <=? n) && (n <=? lenZ rest - 2) && canonical_fuel f (zdrop n (skipn 2 rest)))
      else if v =? 0x4e then
        (4 <=? lenZ rest) &&
        (let n := of_le (firstn 4 rest) in
         (65536 <=? n) && (n <=? lenZ rest - 4) && canonical_fuel f (zdrop n (skipn 4 rest)))
      else spec_defined_nonpush v && canonical_fuel f rest
    end
  end.

Definition canonical (bs : bytes) : bool := canonical_fuel (length bs) bs.
