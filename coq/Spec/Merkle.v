(* Bitcoin's merkle tree root, transcribed from the developer reference
   (https://developer.bitcoin.org/reference/block_chain.html#merkle-trees) and Bitcoin Core's
   consensus/merkle.cpp (ComputeMerkleRoot):

     "If a block only has a coinbase transaction, the coinbase TXID is used as the merkle root hash.
      ... the TXIDs are placed in order, paired, starting with the coinbase TXID; each pair is
      concatenated together as 64 raw bytes and SHA256(SHA256()) hashed to form a second row of hashes.
      If there are an odd (non-even) number of TXIDs, the last TXID is concatenated with a copy of
      itself and hashed.  If there are more than two hashes in the second row, the process is repeated
      to create a third row (and, if necessary, repeated further ...)."

   i.e. level by level, and the last node of EVERY level with an odd number of nodes is duplicated.
   The hash is a Section variable (any function); [hash256 m = sha256 (sha256 m)]. *)
From Coq Require Import List.
Require Import Bits.Lib.Bytes.
Import ListNotations.

Section WithHash.
  Variable sha256 : bytes -> bytes.
  Definition hash256 (m : bytes) : bytes := sha256 (sha256 m).

  (* the next row: adjacent pairs, an unpaired last node is paired with itself *)
  Fixpoint next_level (row : list bytes) : list bytes :=
    match row with
    | [] => []
    | [a] => [hash256 (a ++ a)]
    | a :: b :: rest => hash256 (a ++ b) :: next_level rest
    end.

  (* repeat until one node is left.  [n] bounds the number of levels (a row of k >= 2 nodes is followed by
     a row of ceil(k/2) < k nodes, so [length l] levels always suffice: see [merkle_unfold] in
     Proofs/Merkle.v, which characterises [merkle] without mentioning the bound). *)
  Fixpoint merkle_levels (n : nat) (row : list bytes) : bytes :=
    match row with
    | [] => []
    | [a] => a
    | _ :: _ :: _ =>
      match n with
      | O => []
      | S n' => merkle_levels n' (next_level row)
      end
    end.

  Definition merkle (txids : list bytes) : bytes := merkle_levels (length txids) txids.
End WithHash.
