(* The Bitcoin Base58 alphabet, from the Bitcoin wiki / Satoshi client base58.h:
   "123456789ABCDEFGHJKLMNPQRSTUVWXYZabcdefghijkmnopqrstuvwxyz" *)
From Coq Require Import List.
Require Import Bits.Lib.Bytes.
Import ListNotations.
Import Coq.Init.Byte.

Definition alphabet : bytes :=
  [x31; x32; x33; x34; x35; x36; x37; x38; x39; x41; x42; x43; x44; x45; x46; x47; x48; x4a; x4b; x4c; x4d; x4e; x50; x51; x52; x53; x54; x55; x56; x57; x58; x59; x5a; x61; x62; x63; x64; x65; x66; x67; x68; x69; x6a; x6b; x6d; x6e; x6f; x70; x71; x72; x73; x74; x75; x76; x77; x78; x79; x7a].
