(* BIP66 "Strict DER signatures": the reference predicate IsValidSignatureEncoding, transcribed line by line
   from the BIP text.  The input is the DER signature FOLLOWED BY the one-byte sighash type.

     // Format: 0x30 [total-length] 0x02 [R-length] [R] 0x02 [S-length] [S] [sighash]
     if (sig.size() < 9) return false;
     if (sig.size() > 73) return false;
     if (sig[0] != 0x30) return false;
     if (sig[1] != sig.size() - 3) return false;
     unsigned int lenR = sig[3];
     if (5 + lenR >= sig.size()) return false;
     unsigned int lenS = sig[5 + lenR];
     if ((size_t)(lenR + lenS + 7) != sig.size()) return false;
     if (sig[2] != 0x02) return false;
     if (lenR == 0) return false;
     if (sig[4] & 0x80) return false;
     if (lenR > 1 && (sig[4] == 0x00) && !(sig[5] & 0x80)) return false;
     if (sig[lenR + 4] != 0x02) return false;
     if (lenS == 0) return false;
     if (sig[lenR + 6] & 0x80) return false;
     if (lenS > 1 && (sig[lenR + 6] == 0x00) && !(sig[lenR + 7] & 0x80)) return false;
     return true;

   sig[i] is [byte_at sig i].  Every index the C++ code reads is in range once the earlier checks have passed
   (5+lenR < size guards sig[5+lenR]; lenR+lenS+7 = size guards the rest), so the default 00 of the total [nth]
   is only consulted on inputs that are rejected anyway.  For a byte c, "c & 0x80" is non-zero exactly when
   128 <= c. *)
From Coq Require Import ZArith List Bool.
Require Import Bits.Lib.Bytes.
Import ListNotations.
Local Open Scope Z_scope.

Definition byte_at (sig : bytes) (i : Z) : Z := b2z (nth (Z.to_nat i) sig Coq.Init.Byte.x00).

Definition bip66_valid (sig : bytes) : bool :=
  let size := Z.of_nat (length sig) in
  if size <? 9 then false else
  if size >? 73 then false else
  if negb (byte_at sig 0 =? 48) then false else                         (* 0x30 *)
  if negb (byte_at sig 1 =? size - 3) then false else
  let lenR := byte_at sig 3 in
  if 5 + lenR >=? size then false else
  let lenS := byte_at sig (5 + lenR) in
  if negb (lenR + lenS + 7 =? size) then false else
  if negb (byte_at sig 2 =? 2) then false else
  if lenR =? 0 then false else
  if 128 <=? byte_at sig 4 then false else
  if (lenR >? 1) && (byte_at sig 4 =? 0) && negb (128 <=? byte_at sig 5) then false else
  if negb (byte_at sig (lenR + 4) =? 2) then false else
  if lenS =? 0 then false else
  if 128 <=? byte_at sig (lenR + 6) then false else
  if (lenS >? 1) && (byte_at sig (lenR + 6) =? 0) && negb (128 <=? byte_at sig (lenR + 7)) then false else
  true.
