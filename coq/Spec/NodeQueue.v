(* C18: what the node owes its peers (Bitcoin P2P protocol: a version message is acknowledged with
   verack, a ping is answered with a pong carrying the same nonce - developer reference "P2P
   Network / Control Messages", BIP 31), and the statement of the property on a final state of
   Model/NodeQueue.v.  Nothing here refers to schedules. *)
From Coq Require Import ZArith List Bool Arith Permutation.
Require Import Bits.Lib.Bytes Bits.Model.NodeQueue.
Import ListNotations.

(* ---------------------------------------------------------------------------------------- *)
(* the schedule-free specification                                                            *)
(* ---------------------------------------------------------------------------------------- *)
Definition unhandled (l : list msg) : list msg := filter (fun m => negb (handled m)) l.
Definition tag (p : tid) (l : list msg) : list (tid * msg) := map (pair p) l.
Definition qproj (p : tid) (q : list (tid * msg)) : list (tid * msg) :=
  filter (fun x => Nat.eqb (fst x) p) q.

(* verack for a version, pong with the same nonce for a ping, nothing for anything else *)
Definition expected_reply (m : msg) : list reply :=
  match m with
  | Ping n => [Pong n]
  | Version _ => [VerackR]
  | Verack => []
  | Other _ _ => []
  end.
Definition expected_sent (l : list msg) : list reply := flat_map expected_reply l.

(* the payload of the last version message seen so far *)
Definition stored_after (o : option bytes) (l : list msg) : option bytes :=
  fold_left (fun o m => match m with Version v => Some v | _ => o end) l o.
Definition expected_stored (l : list msg) : option bytes := stored_after None l.

(* all unhandled messages of all peers, peer by peer *)
Definition all_unhandled (progs : list (list msg)) : list (tid * msg) :=
  concat (map (fun p => tag p (unhandled (prog_of progs p))) (seq 0 (length progs))).

(* THE property, as a predicate on a final state *)
Definition exactly_once (progs : list (list msg)) (s : state) : Prop :=
  (* per peer: exactly its unhandled messages, in sending order, attributed to it *)
  (forall p, qproj p (queue s) = tag p (unhandled (prog_of progs p))) /\
  (* per peer: exactly the replies to its versions and pings, in order, on its own socket *)
  (forall p, sent s p = expected_sent (prog_of progs p)) /\
  (* globally: no loss, no duplication *)
  Permutation (queue s) (all_unhandled progs) /\
  (* nothing handled stays queued, nothing is attributed to a peer that does not exist *)
  Forall (fun x => handled (snd x) = false /\ fst x < length progs) (queue s) /\
  (* the version payload kept for the peer is the last one it sent *)
  (forall p, stored s p = expected_stored (prog_of progs p)).

