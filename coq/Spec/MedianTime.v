(* Median time past, transcribed from Bitcoin Core src/chain.h (BIP113 uses it as the lock-time clock):

     static constexpr int nMedianTimeSpan = 11;
     int64_t GetMedianTimePast() const
     {
         int64_t pmedian[nMedianTimeSpan];
         int64_t* pbegin = &pmedian[nMedianTimeSpan];
         int64_t* pend = &pmedian[nMedianTimeSpan];
         const CBlockIndex* pindex = this;
         for (int i = 0; i < nMedianTimeSpan && pindex; i++, pindex = pindex->pprev)
             *(--pbegin) = pindex->GetBlockTime();
         std::sort(pbegin, pend);
         return pbegin[(pend - pbegin) / 2];
     }

   i.e. the times of the block and of up to 10 ancestors (the genesis block INCLUDED when the chain is that short),
   sorted, element number  count / 2  (an element of the list for every count: no averaging). *)
From Coq Require Import ZArith List Sorting.Sorted Sorting.Permutation.
Import ListNotations.
Local Open Scope Z_scope.

Definition median_time_span : nat := 11.

(* "the sorted list": characterised, not computed *)
Definition is_sort_of (s l : list Z) : Prop := Permutation s l /\ StronglySorted Z.le s.

(* chain = block times by height, genesis first, tip last *)
Definition window (chain : list Z) : list Z := firstn median_time_span (rev chain).

Definition is_median_time_past (chain : list Z) (m : Z) : Prop :=
  exists s, is_sort_of s (window chain) /\ nth_error s (length s / 2) = Some m.
