(* BIP340 (Schnorr signatures for secp256k1), transcribed from the BIP text
   https://github.com/bitcoin/bips/blob/master/bip-0340.mediawiki  (sections "Notation",
   "Public Key Generation", "Default Signing", "Verification") -- not from the code.

   Generic in the field size p, the group order n and the base point G of a curve y^2 = x^3 + 7
   (the BIP fixes p, n, G to secp256k1's: Spec/Secp256k1.v); all encodings are 32 bytes.
   "Addition of points refers to the usual elliptic curve group operation" is the section variable
   [add]; "multiplication of an integer and a point refers to the repeated application of the group
   operation" is [nmul] of Lib/Group.v; SHA256 is the section variable [sha256]. *)
From Coq Require Import ZArith List Bool.
Require Import Bits.Lib.Bytes Bits.Lib.Group.
Import ListNotations.
Import Coq.Init.Byte.
Local Open Scope Z_scope.

(* a point of the curve: None is the point at infinity *)
Definition pt : Type := option (Z * Z).

(* UTF-8 encodings of the three tag names *)
Definition tag_aux : bytes := [x42;x49;x50;x30;x33;x34;x30;x2f;x61;x75;x78].                        (* "BIP0340/aux" *)
Definition tag_nonce : bytes := [x42;x49;x50;x30;x33;x34;x30;x2f;x6e;x6f;x6e;x63;x65].              (* "BIP0340/nonce" *)
Definition tag_challenge : bytes :=
  [x42;x49;x50;x30;x33;x34;x30;x2f;x63;x68;x61;x6c;x6c;x65;x6e;x67;x65].                            (* "BIP0340/challenge" *)

(* byte-wise xor of two byte arrays of the same length *)
Definition xor_byte (x y : byte) : byte := z2b (Z.lxor (b2z x) (b2z y)).
Fixpoint xor_bytes (a b : bytes) : bytes :=
  match a, b with
  | x :: a', y :: b' => xor_byte x y :: xor_bytes a' b'
  | _, _ => []
  end.

Section Bip340.
  Variables p n : Z.
  Variable G : pt.
  Variable add : pt -> pt -> pt.
  Variable sha256 : bytes -> bytes.

  (* k.P : repeated application of the group operation *)
  Definition mul (k : Z) (P : pt) : pt := nmul pt add None (Z.to_nat k) P.
  (* -P = (x(P), p - y(P))  (reduced into 0..p-1), used for "R = s.G - e.P" *)
  Definition neg (P : pt) : pt :=
    match P with None => None | Some (x, y) => Some (x, (- y) mod p) end.

  (* bytes(x): 32-byte big-endian encoding; int(x): its inverse *)
  Definition bytes32 (x : Z) : bytes := to_be 32 x.
  Definition int (x : bytes) : Z := of_be x.

  (* hash_name(x) = SHA256(SHA256(tag) || SHA256(tag) || x) *)
  Definition tagged_hash (tag x : bytes) : bytes := sha256 (sha256 tag ++ sha256 tag ++ x).

  Definition has_even_y (x y : Z) : bool := y mod 2 =? 0.

  (* lift_x(x): Fail if x >= p.  c = x^3 + 7 mod p.  y = c^((p+1)/4) mod p.  Fail if c <> y^2 mod p.
     Return the point P with x(P) = x and y(P) = y if y mod 2 = 0, y(P) = p - y otherwise. *)
  Definition lift_x (x : Z) : option (Z * Z) :=
    if p <=? x then None else
    let c := (x ^ 3 + 7) mod p in
    let y := (c ^ ((p + 1) / 4)) mod p in
    if negb (c =? (y ^ 2) mod p) then None else
    Some (x, if y mod 2 =? 0 then y else p - y).

  (* e = int(hash_BIP0340/challenge(bytes(R) || bytes(P) || m)) mod n, on the encodings *)
  Definition challenge (rb pb m : bytes) : Z := int (tagged_hash tag_challenge (rb ++ pb ++ m)) mod n.

  (* ---- Public Key Generation: sk is a 32-byte array ---- *)
  Definition pubkey_gen (sk : bytes) : option bytes :=
    let d' := int sk in
    if (d' =? 0) || (n <=? d') then None else
    match mul d' G with
    | None => None
    | Some (x, _) => Some (bytes32 x)
    end.

  (* ---- Verification: pk 32-byte array, m byte array, sig 64-byte array ---- *)
  Definition verify (pk m sig : bytes) : bool :=
    if negb (Nat.eqb (length pk) 32 && Nat.eqb (length sig) 64) then false else
    match lift_x (int pk) with
    | None => false
    | Some (px, py) =>
      let r := int (firstn 32 sig) in
      if p <=? r then false else
      let s := int (skipn 32 sig) in
      if n <=? s then false else
      let e := challenge (bytes32 r) (bytes32 px) m in
      match add (mul s G) (neg (mul e (Some (px, py)))) with
      | None => false                                        (* is_infinite(R) *)
      | Some (rx, ry) => has_even_y rx ry && (rx =? r)
      end
    end.

  (* ---- Default Signing: sk 32-byte array, m byte array, a 32-byte array; None = fail/abort ---- *)
  Definition sign (sk m a : bytes) : option bytes :=
    let d' := int sk in
    if (d' =? 0) || (n <=? d') then None else
    match mul d' G with
    | None => None
    | Some (px, py) =>
      let d := if has_even_y px py then d' else n - d' in
      let t := xor_bytes (bytes32 d) (tagged_hash tag_aux a) in
      let rand := tagged_hash tag_nonce (t ++ bytes32 px ++ m) in
      let k' := int rand mod n in
      if k' =? 0 then None else
      match mul k' G with
      | None => None
      | Some (rx, ry) =>
        let k := if has_even_y rx ry then k' else n - k' in
        let e := challenge (bytes32 rx) (bytes32 px) m in
        let sig := bytes32 rx ++ bytes32 ((k + e * d) mod n) in
        if verify (bytes32 px) m sig then Some sig else None
      end
    end.
End Bip340.
