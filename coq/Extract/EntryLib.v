(* Shared entry points used by the OCaml driver itself. *)
Require Import Bits.Lib.Result Bits.Lib.Bytes.
Definition lib_b2z := b2z.
Definition lib_z2b := z2b.
