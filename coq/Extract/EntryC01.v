(* Entry points for C01 (generic in the curve: the harness passes secp256k1 or a small curve) *)
Require Import Bits.Lib.Result Bits.Lib.Bytes Bits.Model.Ecmath Bits.Model.Keys Bits.Model.Der.
Definition c01_sign_with := sign_with.
Definition c01_verify := verify.
Definition c01_der_encode_sig := der_encode_sig.
Definition c01_der_decode_sig := der_decode_sig.
Definition c01_sig := sig.
Definition c01_sig_verify := sig_verify.

(* sign, then verify the result under the public key d*G with the same (unreduced) digest:
   by C01_sign_sound this is [Ok true] whenever signing succeeds *)
Require Import Bits.Lib.Result.
Definition c01_sign_then_verify (p a b n : BinNums.Z) (G : point) (draws : list BinNums.Z) (d z : BinNums.Z)
  : result bool :=
  bind (sign_with p a n G draws d z) (fun rs =>
  let '(r, s, _) := rs in
  bind (point_scalar_mul p a d G) (fun Q => verify p a b n G r s Q z)).
