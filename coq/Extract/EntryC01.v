(* Entry points for C01 (generic in the curve: the harness passes secp256k1 or a small curve) *)
Require Import Bits.Lib.Result Bits.Lib.Bytes Bits.Model.Ecmath Bits.Model.Keys Bits.Model.Der.
Definition c01_sign_with := sign_with.
Definition c01_verify := verify.
Definition c01_der_encode_sig := der_encode_sig.
Definition c01_der_decode_sig := der_decode_sig.
Definition c01_sig := sig.
Definition c01_sig_verify := sig_verify.
