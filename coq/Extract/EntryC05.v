(* Entry points extracted for the correspondence check of C05 (unique c05_ prefix). *)
Require Import Bits.Lib.Result Bits.Lib.Bytes Bits.Model.CompactSize Bits.Model.Witness Bits.Model.Tx.
Definition c05_cs_enc := compact_size_uint.
Definition c05_cs_dec := parse_compact_size_uint.
Definition c05_wit_ser := witness_ser.
Definition c05_wit_deser := witness_deser.
Definition c05_outpoint := outpoint.
Definition c05_txin := txin.
Definition c05_txout := txout.
Definition c05_txin_default := fun o s => txin o s default_sequence.   (* txin(o, s) with the default argument *)
Definition c05_tx_raw := tx_raw.
Definition c05_tx_ser := tx_ser.
Definition c05_txin_deser := txin_deser.
Definition c05_txout_deser := txout_deser.
Definition c05_tx_deser := tx_deser.
