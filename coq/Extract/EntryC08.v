(* Entry points extracted for the correspondence check of C08 (unique c08_ prefix).  The curve parameters are
   explicit arguments (secp256k1 or a small curve, chosen by the harness); sha256 is answered by the harness. *)
Require Import Bits.Lib.Result Bits.Lib.Bytes Bits.Model.Address.
Local Open Scope result_scope.
Definition c08_scriptpubkey := scriptpubkey.
Definition c08_to_bitcoin_address := to_bitcoin_address.
(* scriptpubkey(to_bitcoin_address(...)): the address and its script *)
Definition c08_addr_script (sha256 : bytes -> bytes) (p a b : BinNums.Z) (payload addr_type network : bytes)
    (witness_version : option BinNums.Z) : result (bytes * bytes) :=
  addr <- to_bitcoin_address sha256 payload addr_type network witness_version ;;
  s <- scriptpubkey sha256 p a b addr ;;
  Ok (addr, s).
