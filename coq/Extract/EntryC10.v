(* Entry points extracted for the correspondence check of C10 (unique c10_ prefix); the word list is
   the generated one (Gen/Wordlist.v = what load_wordlist() returns now). *)
Require Import Bits.Lib.Result Bits.Lib.Bytes Bits.Model.Bip39.
Require Bits.Gen.Wordlist.
Definition c10_mnemonic_words (sha256 : bytes -> bytes) := mnemonic_words sha256 Bits.Gen.Wordlist.wordlist.
Definition c10_calculate_mnemonic_phrase (sha256 : bytes -> bytes) :=
  calculate_mnemonic_phrase sha256 Bits.Gen.Wordlist.wordlist.
Definition c10_to_entropy_words (sha256 : bytes -> bytes) := to_entropy_words sha256 Bits.Gen.Wordlist.wordlist.
Definition c10_to_entropy (sha256 : bytes -> bytes) := to_entropy sha256 Bits.Gen.Wordlist.wordlist.
Definition c10_to_seed := to_seed.
Definition c10_split_ws := split_ws.
Definition c10_wordlist := Bits.Gen.Wordlist.wordlist.
