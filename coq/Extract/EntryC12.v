(* Entry points for C12 (generic in the curve parameters: the harness passes secp256k1 or a small curve) *)
Require Import Bits.Lib.Result Bits.Lib.Bytes Bits.Model.Ecmath Bits.Model.Keys Bits.Model.Schnorr.
Definition c12_sign := sign.
Definition c12_verify := verify.
Definition c12_lift_x := lift_x.
Definition c12_pubkey := pubkey.
Definition c12_pubkey_of_key := pubkey_of_key.
