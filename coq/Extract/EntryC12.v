(* Entry points for C12 (generic in the curve parameters: the harness passes secp256k1 or a small curve) *)
Require Import Bits.Lib.Result Bits.Lib.Bytes Bits.Model.Ecmath Bits.Model.Keys Bits.Model.Schnorr.
Definition c12_sign := sign.
Definition c12_verify := verify.
Definition c12_lift_x := lift_x.
Definition c12_pubkey := pubkey.
Definition c12_pubkey_of_key := pubkey_of_key.
(* steps of cross-function sequences (harness op "seq"): the ecmath functions other parts of the library call with
   the full public point before / after BIP340 is used under the same key *)
Definition c12_point_scalar_mul := point_scalar_mul.
Definition c12_ecdsa_verify := Bits.Model.Ecmath.verify.
