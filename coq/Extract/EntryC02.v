(* Entry points for C02 *)
Require Import Bits.Lib.Result Bits.Lib.Bytes Bits.Model.Ecmath Bits.Model.Keys Bits.Model.Der Bits.Model.Sec1.
Definition c02_verify := verify.
Definition c02_sig_verify := sig_verify.
Definition c02_ensure_sig_low_s := ensure_sig_low_s.
Definition c02_der_decode_sig := der_decode_sig.
Definition c02_der_encode_sig := der_encode_sig.
Definition c02_sec1_point := sec1_point.
