(* Entry points extracted for the correspondence check of C04 (unique c04_ prefix). *)
Require Import Bits.Lib.Result Bits.Lib.Bytes Bits.Model.CompactSize Bits.Model.Witness Bits.Model.Tx.
Definition c04_tx_deser := tx_deser.
Definition c04_tx_ser := tx_ser.
Definition c04_tx_ser_nowit := tx_ser_nowit.
Definition c04_txid := txid.
Definition c04_txin_default := fun o s => txin o s default_sequence.   (* txin(o, s) with the default argument *)

(* the ids and raw bytes of every transaction of a block, as blockchain.block_deser reports them *)
Require Bits.Model.Block.
Definition c04_block_ids (sha256 : bytes -> bytes) (b : bytes) : result (list (bytes * bytes * bytes)) :=
  rmap (fun hp => List.map (fun p => (p_txid p, p_wtxid p, p_raw p)) (snd hp))
       (Bits.Model.Block.block_deser tx_parsed (tx_deser sha256) b).
