(* Entry points extracted for the correspondence check of C15 (unique c15_ prefix). *)
Require Import Bits.Lib.Result Bits.Lib.Bytes Bits.Model.Tx.
Require Bits.Spec.Merkle Bits.Spec.Subsidy Bits.Spec.ScriptNum.
Require Bits.Model.Merkle Bits.Model.Coinbase Bits.Model.Block Bits.Model.MineBlock.
Definition c15_merkle_root := Bits.Model.Merkle.merkle_root.
Definition c15_coinbase_txin := Bits.Model.Coinbase.coinbase_txin.
(* = coinbase_tx (Proofs/Coinbase.v: coinbase_tx_fast_eq); avoids building 2**halvings *)
Definition c15_coinbase_tx := Bits.Model.Coinbase.coinbase_tx_fast.
Definition c15_block_header := Bits.Model.Block.block_header.
Definition c15_mk_header := Bits.Model.Block.mk_header.
Definition c15_block_header_deser := Bits.Model.Block.block_header_deser.
Definition c15_block_ser := Bits.Model.Block.block_ser.
Definition c15_block_deser (sha256 : bytes -> bytes) := Bits.Model.Block.block_deser tx_parsed (tx_deser sha256).
Definition c15_mine_block_commitment := Bits.Model.Coinbase.mine_block_commitment.
Definition c15_mine_block_assemble := Bits.Model.MineBlock.mine_block_assemble.
(* the SPECIFICATIONS, extracted as well: the harness compares them with its independent Python references *)
Definition c15_spec_merkle := Bits.Spec.Merkle.merkle.
Definition c15_spec_subsidy := Bits.Spec.Subsidy.subsidy.
Definition c15_spec_push_int := Bits.Spec.ScriptNum.push_int.
(* ---- extension (Props/C15Ext.v): target_threshold, median_time, genesis_* ---- *)
Require Bits.Model.Target Bits.Model.MedianTime Bits.Model.Genesis Bits.Model.Difficulty Bits.Spec.Target.
Definition c15_target_threshold := Bits.Model.Target.target_threshold.
Definition c15_median_time := Bits.Model.MedianTime.median_time.
Definition c15_genesis_coinbase_tx := Bits.Model.Genesis.genesis_coinbase_tx.
Definition c15_genesis_block := Bits.Model.Genesis.genesis_block.
(* Bitcoin Core's SetCompact (the SPECIFICATION): (value, negative, overflow) *)
Definition c15_spec_setcompact (c : BinNums.Z) :=
  (Bits.Spec.Target.sc_value c, Bits.Spec.Target.sc_negative c, Bits.Spec.Target.sc_overflow c).
Definition c15_difficulty := Bits.Model.Difficulty.difficulty.
