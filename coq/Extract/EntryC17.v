(* Entry points extracted for the correspondence check of C17 (unique c17_ prefix). *)
From Coq Require Import ZArith List.
Require Import Bits.Lib.Result Bits.Lib.Bytes Bits.Model.P2pFrame Bits.Model.P2pCodec Bits.Model.P2pSession Bits.Model.P2pTables.
Import ListNotations.
Local Open Scope Z_scope.

Definition c17_msg_ser := msg_ser.

(* (start_bytes, command, payload, bytes left in the socket, number of recv calls made) *)
Definition c17_recv_msg (sha256 : bytes -> bytes) (fuel : Z) (magic stream : bytes) (sched : list Z)
  : result (bytes * bytes * bytes * bytes * Z) :=
  match recv_msg sha256 (Z.to_nat fuel) magic (stream, sched) with
  | Ok ((m, c, p), (rest, _), f') => Ok (m, c, p, rest, fuel - Z.of_nat f')
  | Err e => Err e
  end.

(* k consecutive calls on one socket, [fuel] recv calls allowed per message *)
Definition c17_recv_msgs (sha256 : bytes -> bytes) (k fuel : Z) (magic stream : bytes) (sched : list Z)
  : result (list (bytes * bytes * bytes) * bytes) :=
  match recv_msgs sha256 (Z.to_nat k) (Z.to_nat fuel) magic (stream, sched) with
  | Ok (ms, (rest, _)) => Ok (ms, rest)
  | Err e => Err e
  end.

Definition c17_version_payload := version_payload.
Definition c17_parse_version_payload := parse_version_payload.
Definition c17_ping_payload := ping_payload.
Definition c17_parse_ping_payload := parse_ping_payload.
Definition c17_getheaders_payload := getheaders_payload.
Definition c17_parse_getheaders_payload := parse_getheaders_payload.
Definition c17_inventory := inventory.
Definition c17_inv_payload := inv_payload.
Definition c17_parse_inventory := parse_inventory.
Definition c17_parse_inv_payload := parse_inv_payload.
Definition c17_network_ip_addr := network_ip_addr.
Definition c17_addr_payload := addr_payload.
Definition c17_parse_network_ip_addr := parse_network_ip_addr.
Definition c17_parse_addr_payload := parse_addr_payload.
Definition c17_parse_feefilter_payload := parse_feefilter_payload.
Definition c17_parse_sendcmpct_payload := parse_sendcmpct_payload.
Definition c17_parse_payload := parse_payload.

(* build-then-parse compositions (the round trips of the property), returning (payload, parsed) *)
Local Open Scope result_scope.
Definition c17_version_rt (ts sh rp tp pv sv : Z) (relay : bool) :=
  p <- version_payload ts sh rp tp pv sv relay ;; r <- parse_version_payload p ;; Ok (p, r).
Definition c17_ping_rt (nonce : Z) :=
  p <- ping_payload nonce ;; Ok (p, parse_ping_payload p).
Definition c17_getheaders_rt (pv hc : Z) (hs : list bytes) (stop : bytes) :=
  p <- getheaders_payload pv hc hs stop ;; r <- parse_getheaders_payload p ;; Ok (p, r).
Definition c17_inv_rt (count : Z) (items : list (bytes * bytes)) :=
  sers <- mapM (fun it => inventory (fst it) (snd it)) items ;;
  p <- inv_payload count sers ;; r <- parse_inv_payload p ;; Ok (p, r).
Definition c17_addr_rt (count : Z) (addrs : list (Z * bytes * bytes * Z)) :=
  sers <- mapM (fun a : Z * bytes * bytes * Z =>
                  let '(t, sv, ip, port) := a in network_ip_addr t sv ip port) addrs ;;
  p <- addr_payload count sers ;; r <- parse_addr_payload p ;; Ok (p, r).

(* sessions over the module global MAGIC_START_BYTES: (outcomes, final value of the global) *)
Definition c17_step_select (n : bytes) : step := SSelect n.
Definition c17_step_select_bad : step := SSelectBadType.
Definition c17_step_recv (fuel : Z) (stream : bytes) (sched : list Z) : step := SRecv (Z.to_nat fuel) stream sched.
Definition c17_step_ser (c p : bytes) : step := SSer c p.
Definition c17_magic_session := session.
Definition c17_network_magic := network_magic.

(* the codecs with the tables they read at call time as parameters *)
Definition c17_inventory_in := inventory_in.
Definition c17_parse_inventory_in := parse_inventory_in.
Definition c17_parse_inv_payload_in := parse_inv_payload_in.
Definition c17_inv_rt_in (tbl : inv_table) (count : Z) (items : list (bytes * bytes)) :=
  sers <- mapM (fun it => inventory_in tbl (fst it) (snd it)) items ;;
  p <- inv_payload count sers ;; r <- parse_inv_payload_in tbl p ;; Ok (p, r).
(* msg_ser with COMMANDS = cmds, then recv_msg of the frame (+ rest) over a scripted socket *)
Definition c17_ser_recv_in (sha256 : bytes -> bytes) (cmds : list bytes) (fuel : Z) (magic c p rest : bytes) (sched : list Z)
  : result (bytes * (bytes * bytes * bytes * bytes * Z)) :=
  fr <- msg_ser_in sha256 cmds magic c p ;;
  r <- c17_recv_msg sha256 fuel magic (fr ++ rest) sched ;; Ok (fr, r).

(* ---- extension (Props/C17Ext.v): getblocks_payload (optional protocol_version), headers_payload ---- *)
Require Import Bits.Model.P2pCodecExt.
Require Bits.Spec.P2pHeaders.
Definition c17_getblocks_payload := getblocks_payload_opt.
(* build, then the repo's parser of the same layout *)
Definition c17_getblocks_rt (hs : list bytes) (pv : option Z) :=
  p <- getblocks_payload_opt hs pv ;; r <- parse_getheaders_payload p ;; Ok (p, r).
Definition c17_headers_payload := headers_payload.
(* the reference receiver of a headers message (the SPECIFICATION), and build-then-receive *)
Definition c17_spec_parse_headers := Bits.Spec.P2pHeaders.spec_parse_headers.
Definition c17_headers_rt (count : Z) (hs : list bytes) :=
  p <- headers_payload count hs ;; Ok (p, Bits.Spec.P2pHeaders.spec_parse_headers p).
