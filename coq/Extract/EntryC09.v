(* Entry points extracted for the correspondence check of C09 (unique c09_ prefix).
   Every entry takes the curve (p a b n G) and the hash functions explicitly. *)
From Coq Require Import ZArith.
Require Import Bits.Lib.Result Bits.Lib.Bytes Bits.Model.Ecmath Bits.Model.Sec1 Bits.Model.Bip32 Bits.Model.Hd.

Definition c09_ckdpriv (p a b n : Z) (G : point) (hm : bytes -> bytes -> bytes) := CKDpriv p a n G hm.
Definition c09_ckdpub (p a b n : Z) (G : point) (hm : bytes -> bytes -> bytes) := CKDpub p a n G hm.
Definition c09_neuter (p a b n : Z) (G : point) := N_ p a G.
(* N(CKDpriv(k, c, i)) -- the private side of the commutation *)
Definition c09_n_ckdpriv (p a b n : Z) (G : point) (hm : bytes -> bytes -> bytes) (k : Z) (c : bytes) (i : Z) :=
  bind (CKDpriv p a n G hm k c i) (fun kc => N_ p a G (fst kc) (snd kc)).
(* CKDpub(N(k, c), i) -- the public side *)
Definition c09_ckdpub_n (p a b n : Z) (G : point) (hm : bytes -> bytes -> bytes) (k : Z) (c : bytes) (i : Z) :=
  bind (N_ p a G k c) (fun Kc => CKDpub p a n G hm (fst Kc) (snd Kc) i).
Definition c09_master := to_master_key.
Definition c09_ser := serialized_extended_key.
Definition c09_deser (p a b n : Z) := deserialized_extended_key p a b n.
Definition c09_get_xpub (p a b n : Z) (G : point) := get_xpub p a b n G.
Definition c09_derive (p a b n : Z) (G : point) := derive_from_path p a b n G.
Definition c09_py_int := py_int.
Definition c09_path_tree := path_tree.
Definition c09_sec1_point (p a b : Z) := sec1_point p a b.
Definition c09_cli_hd (p a b n : Z) (G : point) := cli_hd p a b n G.

(* ---- cross-function sequences (writer -> reader): the model is pure, so a sequence is the composition ---- *)
Definition c09_ser_deser (p a b n : Z) (sha : bytes -> bytes) (key : xk) (cc : bytes) (depth : bz) (fp : bytes)
           (child : bz) (testnet : bool) :=
  bind (serialized_extended_key sha key cc depth fp child testnet) (fun s =>
  bind (deserialized_extended_key p a b n sha s) (fun f => Ok (s, f))).
Definition c09_ser_get_xpub (p a b n : Z) (G : point) (sha : bytes -> bytes) (key : xk) (cc : bytes) (depth : bz)
           (fp : bytes) (child : bz) (testnet : bool) :=
  bind (serialized_extended_key sha key cc depth fp child testnet) (fun s =>
  bind (get_xpub p a b n G sha s) (fun y => Ok (s, y))).
Definition c09_ser_derive (p a b n : Z) (G : point) (hm : bytes -> bytes -> bytes) (sha rip : bytes -> bytes)
           (key : xk) (cc : bytes) (depth : bz) (fp : bytes) (child : bz) (testnet : bool) (path : bytes) :=
  bind (serialized_extended_key sha key cc depth fp child testnet) (fun s =>
  bind (derive_from_path p a b n G hm sha rip path s) (fun y => Ok (s, y))).
(* deserialise -> serialise the returned fields -> deserialise again *)
Definition c09_deser_ser_deser (p a b n : Z) (sha : bytes -> bytes) (x : bytes) :=
  bind (deserialized_extended_key p a b n sha x) (fun f =>
  let '(v, d, fp, ch, cc, k) := f in
  bind (serialized_extended_key sha k cc (AsBytes d) fp (AsBytes ch) (is_testnet_version v)) (fun s =>
  bind (deserialized_extended_key p a b n sha s) (fun f2 => Ok (s, f2)))).
(* to_master_key -> root_serialized_extended_key -> derive_from_path -> get_xpub *)
Definition c09_master_chain (p a b n : Z) (G : point) (hm : bytes -> bytes -> bytes) (sha rip : bytes -> bytes)
           (seed : bytes) (testnet : bool) (path : bytes) :=
  bind (to_master_key hm seed) (fun kc =>
  bind (root_serialized_extended_key sha (KPriv (fst kc)) (snd kc) testnet) (fun s =>
  bind (derive_from_path p a b n G hm sha rip path s) (fun y =>
  bind (get_xpub p a b n G sha y) (fun z => Ok (s, y, z))))).

(* ---- wallet/hd.py: derive_child and class HD (Model/Hd.v, theorems in Props/C09Ext.v) ---- *)
Definition c09_derive_child := derive_child.
Definition c09_derive_child_body (p a b n : Z) (G : point) := derive_child_body p a b n G.
Definition c09_hd_init (p a b n : Z) (G : point) := hd_init p a G.
Definition c09_hd_from_mnemonic_then_new (p a b n : Z) (G : point) := from_mnemonic_then_new p a G.
Definition c09_hd_get_root_keys (p a b n : Z) (G : point) := get_root_keys p a G.
Definition c09_hd_from_xkey := from_xkey.
Definition c09_hd_get_xkeys_from_path := get_xkeys_from_path.
