(* Entry points extracted for the correspondence check of C18 (unique c18_ prefix).
   Programs arrive as frames (command, payload) and are classified by the model; thread ids and
   the queue are exchanged as Z. *)
From Coq Require Import ZArith List Bool Arith.
Require Import Bits.Lib.Result Bits.Lib.Bytes Bits.Model.NodeQueue Bits.Spec.NodeQueue.
Import ListNotations.

Definition c18_frame := (bytes * bytes)%type.
(* (the queue as it is, the queue restricted to each peer, sent per peer, stored version per peer,
    all threads finished and no queue entry of a thread that does not exist) *)
Definition c18_observation :=
  (list (Z * c18_frame) * list (list c18_frame) * list (list c18_frame) * list (option bytes) * bool)%type.

Definition c18_progs (frames : list (list c18_frame)) : list (list msg) :=
  map (map (fun f => classify (fst f) (snd f))) frames.

(* a negative or too large id names no thread: an idle step *)
Definition c18_tid (n : nat) (z : Z) : tid := if (z <? 0)%Z then n else Z.to_nat z.

Definition c18_observe (n : nat) (s : state) : c18_observation :=
  (map (fun x => (Z.of_nat (fst x), frame_of_msg (snd x))) (queue s),
   map (fun p => map (fun x => frame_of_msg (snd x)) (qproj p (queue s))) (seq 0 n),
   map (fun p => map frame_of_reply (sent s p)) (seq 0 n),
   map (stored s) (seq 0 n),
   finishedb n s && forallb (fun x => Nat.ltb (fst x) n) (queue s)).

(* the schedule-independent part of an observation *)
Definition c18_final (o : c18_observation) :=
  match o with (_, proj, snt, sto, fin) => (proj, snt, sto, fin) end.

(* the repaired loop body under the given schedule *)
Definition c18_run (frames : list (list c18_frame)) (sched : list Z) : c18_observation :=
  let progs := c18_progs frames in
  let n := length progs in
  c18_observe n (run (init progs) (map (c18_tid n) sched)).

(* the loop body before the repair under the given schedule *)
Definition c18_run_old (frames : list (list c18_frame)) (sched : list Z) : c18_observation :=
  let progs := c18_progs frames in
  let n := length progs in
  c18_observe n (run_old (init progs) (map (c18_tid n) sched)).

(* the same two bodies under the coarser scheduler (recv is not a scheduling point: every thread
   has received its first message, and receives the next one as soon as it is back at the top) *)
Definition c18_run_eager (frames : list (list c18_frame)) (sched : list Z) : c18_observation :=
  let progs := c18_progs frames in
  let n := length progs in
  c18_observe n (run_with (eager step) (start_eager step n (init progs)) (map (c18_tid n) sched)).

Definition c18_run_old_eager (frames : list (list c18_frame)) (sched : list Z) : c18_observation :=
  let progs := c18_progs frames in
  let n := length progs in
  c18_observe n (run_with (eager step_old) (start_eager step_old n (init progs)) (map (c18_tid n) sched)).

(* the schedule-free specification: per peer the expected queue projection, replies, stored version *)
Definition c18_spec (frames : list (list c18_frame))
  : list (list c18_frame) * list (list c18_frame) * list (option bytes) :=
  let progs := c18_progs frames in
  (map (fun l => map frame_of_msg (unhandled l)) progs,
   map (fun l => map frame_of_reply (expected_sent l)) progs,
   map expected_stored progs).

(* the driver's reply type mentions [result]/[err]; no C18 entry point can fail *)
Definition c18_never_fails : Bits.Lib.Result.result unit := Bits.Lib.Result.Ok tt.
