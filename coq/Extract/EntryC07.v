(* Entry points extracted for the correspondence check of C07 (unique c07_ prefix). *)
Require Import Bits.Lib.Result Bits.Lib.Bytes Bits.Model.Base58.
Definition c07_base58encode := base58encode.
Definition c07_base58decode := base58decode.
Definition c07_base58check := base58check.
Definition c07_base58check_decode := base58check_decode.
Definition c07_is_base58check := is_base58check.
