(* Entry points for C16 (the harness passes the curve - secp256k1 - as for C01) *)
Require Import Bits.Lib.Result Bits.Lib.Bytes Bits.Model.SendValue Bits.Model.Send.
Definition c16_send := send_tx.
Definition c16_values := send_values.
Definition c16_sat_of_btc := sat_of_btc.
Definition c16_amount_to_send := amount_to_send.
Definition c16_sf_of_me := sf_of_me.
Definition c16_mk_utxo := mk_utxo.
