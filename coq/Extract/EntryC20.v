(* Entry points extracted for the correspondence check of C20 (unique c20_ prefix).  The parser table and the
   Config defaults are the generated ones (Gen/CliTable.v = what setup_parser() / Config() build now). *)
Require Import Bits.Lib.Result Bits.Lib.Bytes Bits.Model.Cli.
Require Bits.Gen.CliTable.
Definition c20_mkin := mkIn.
Definition c20_read_bytes := read_bytes.
Definition c20_write_bytes := write_bytes.
Definition c20_main_config := main_config Bits.Gen.CliTable.config_defaults Bits.Gen.CliTable.table.
Definition c20_main_base (udec : BinNums.Z -> option BinNums.Z) (linesep : text) :=
  main_base Bits.Gen.CliTable.config_defaults udec linesep Bits.Gen.CliTable.table.
Definition c20_format_option := format_option.
Definition c20_convert (udec : BinNums.Z -> option BinNums.Z) := reconvert udec (cons (BinNums.Zpos (BinNums.xO (BinNums.xI (BinNums.xO BinNums.xH)))) nil).
(* do the model's Config of `bits <sub> <cli>` carry these input / output formats? *)
Definition c20_io_formats (has_toml : bool) (sub : bytes) (cli : list (key * option bytes)) (ftoml fjson : option dict)
           (fin fout : pyval) : result bool :=
  match c20_main_config has_toml sub cli ftoml fjson with
  | Ok c => Ok (andb (pyval_eqb (dgetd k_input_format c PNone) fin) (pyval_eqb (dgetd k_output_format c PNone) fout))
  | Err e => Err e
  end.
(* is this the value of option opt in the model's Config of `bits <sub> <cli>`? *)
Definition c20_option_is (has_toml : bool) (sub : bytes) (cli : list (key * option bytes)) (ftoml fjson : option dict)
           (opt : key) (v : pyval) : result bool :=
  match c20_main_config has_toml sub cli ftoml fjson with
  | Ok c => Ok (pyval_eqb (dgetd opt c PNone) v)
  | Err e => Err e
  end.
