(* Entry points extracted for the correspondence check of C11 (unique c11_ prefix). *)
From Coq Require Import ZArith List.
Require Import Bits.Lib.Result Bits.Lib.Bytes Bits.Spec.Bip143 Bits.Model.Bip143.

(* structured transaction as plain tuples: inputs (txid, vout, scriptSig, sequence), outputs (value, scriptPubKey) *)
Definition c11_mk_tx (ver : Z) (ins : list (bytes * Z * bytes * Z)) (outs : list (Z * bytes)) (lt : Z) : tx :=
  mk_tx ver
        (map (fun x => match x with (a, b, c, d) => mk_txin a b c d end) ins)
        (map (fun x => match x with (a, b) => mk_txout a b end) outs)
        lt.

(* model of bits.bips.bip143.witness_message on raw byte strings; None = argument omitted (default) *)
Definition c11_witness_message := witness_message_py.

(* model of: build txins/txouts/scriptcode with bits.tx.outpoint/txin/txout + compact_size_uint, then witness_message *)
Definition c11_wm_tx (sha256 : bytes -> bytes) ver ins outs lt (idx amount : Z) (script : bytes) (flag : option Z) :=
  witness_message_tx sha256 (c11_mk_tx ver ins outs lt) idx amount script flag.

(* the BIP143 preimage of Spec/Bip143.v over the structured transaction *)
Definition c11_spec_preimage (sha256 : bytes -> bytes) ver ins outs lt (idx amount : Z) (script : bytes) (flag : Z) :=
  preimage sha256 (c11_mk_tx ver ins outs lt) (Z.to_nat idx) amount script flag.

(* models of the serialisers on their own *)
Definition c11_outpoint := outpoint.
Definition c11_txin := txin.
Definition c11_txout := txout.
Definition c11_compact_size_uint := compact_size_uint.
Definition c11_witness_digest := witness_digest.

(* a SEQUENCE of calls: the pure model mapped over the content of the transaction at the moment of each call
   (harness op wm_edit: the caller edits the same txins/txouts list objects in place between the calls) *)
Definition c11_wm_tx_seq (sha256 : bytes -> bytes)
           (snaps : list (Z * list (bytes * Z * bytes * Z) * list (Z * bytes) * Z * Z * Z * bytes * option Z))
  : list (result bytes) :=
  map (fun s => match s with
                | (ver, ins, outs, lt, idx, amount, script, flag) => c11_wm_tx sha256 ver ins outs lt idx amount script flag
                end) snaps.
