(* Entry points extracted for the correspondence check of C19 (unique c19_ prefix). *)
From Coq Require Import ZArith NArith List.
Require Import Bits.Lib.Result Bits.Lib.Bytes Bits.Model.BlockFiles.
Import ListNotations.
Local Open Scope Z_scope.

Definition c19_dir (fs : list (Z * bytes)) : files := map (fun f => (Z.to_N (fst f), snd f)) fs.

(* directory listing (name, content) after the history of batches *)
Definition c19_history (max : Z) (magic : bytes) (fs : list (Z * bytes)) (batches : list (list bytes))
  : list (bytes * bytes) := listing (history max magic (c19_dir fs) batches).

(* the same with a crash after k primitive operations; (listing, crashed?) *)
Definition c19_history_crash (max : Z) (magic : bytes) (fs : list (Z * bytes)) (batches : list (list bytes)) (k : Z)
  : list (bytes * bytes) * bool :=
  let r := history_crash max magic (c19_dir fs) batches (Z.to_nat k) in (listing (fst r), snd r).

Definition c19_blk_name (n : Z) : bytes := blk_name (Z.to_N n).
Definition c19_current_file (fs : list (Z * bytes)) : Z := Z.of_N (current_file (c19_dir fs)).

(* MAGIC_START_BYTES + len(blk).to_bytes(4, "little") + blk, with the OverflowError the theorems exclude by hypothesis *)
Definition c19_record (magic blk : bytes) : result bytes :=
  if zlen blk <? 2 ^ 32 then Ok (record magic blk) else Err OverflowE.
