(* Entry points extracted for the correspondence check of C13 (unique c13_ prefix).  The opcode tables inside
   the model are the generated ones (Gen/Opcodes.v = what the code defines now). *)
Require Import Bits.Lib.Result Bits.Lib.Bytes Bits.Lib.PyStr Bits.Spec.Script Bits.Model.Script.
Require Bits.Model.Witness Bits.Model.ScriptWitnessParse.
Definition c13_script := script.
Definition c13_decode_script := decode_script.
Definition c13_p2pkh_script_pubkey := p2pkh_script_pubkey.
Definition c13_p2pkh_script_sig := p2pkh_script_sig.
Definition c13_p2pk_script_pubkey := p2pk_script_pubkey.
Definition c13_p2pk_script_sig := p2pk_script_sig.
Definition c13_p2sh_script_pubkey := p2sh_script_pubkey.
Definition c13_p2sh_script_sig := p2sh_script_sig.
Definition c13_multisig_script_pubkey := multisig_script_pubkey.
Definition c13_multisig_script_sig := multisig_script_sig.
Definition c13_null_data_script_pubkey := null_data_script_pubkey.
Definition c13_p2sh_multisig_script_pubkey := p2sh_multisig_script_pubkey.
Definition c13_p2sh_multisig_script_sig := p2sh_multisig_script_sig.
Definition c13_p2wpkh_script_pubkey := p2wpkh_script_pubkey.
Definition c13_p2wpkh_script_sig := p2wpkh_script_sig.
Definition c13_p2wsh_script_pubkey := p2wsh_script_pubkey.
Definition c13_p2wsh_script_sig := p2wsh_script_sig.
Definition c13_p2sh_p2wpkh_script_pubkey := p2sh_p2wpkh_script_pubkey.
Definition c13_p2sh_p2wpkh_script_sig := p2sh_p2wpkh_script_sig.
Definition c13_p2sh_p2wsh_script_pubkey := p2sh_p2wsh_script_pubkey.
Definition c13_p2sh_p2wsh_script_sig := p2sh_p2wsh_script_sig.
(* witness-stack mode (model of build C05/C04: Model/Witness.v) *)
Definition c13_witness_ser := Bits.Model.Witness.witness_ser.
Definition c13_witness_deser := Bits.Model.Witness.witness_deser.
(* the Spec recogniser of canonical scripts, compared with the harness' independent Python reference *)
Definition c13_canonical := canonical.
(* decode_script(witness=True, parse=True) *)
Definition c13_witness_parse := Bits.Model.ScriptWitnessParse.witness_parse.
