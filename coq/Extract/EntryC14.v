(* Entry points extracted for the correspondence check of C14 (unique c14_ prefix).  The curve parameters are
   explicit arguments (secp256k1 or a small curve, chosen by the harness). *)
Require Import Bits.Lib.Result Bits.Lib.Bytes Bits.Model.Ecmath Bits.Model.Keys Bits.Model.Sec1 Bits.Model.Wif
  Bits.Model.Asn1 Bits.Model.Pem Bits.Model.CliKeys Bits.Model.PemExt.
Definition c14_pubkey := pubkey.
Definition c14_point := sec1_point.
Definition c14_is_point := is_point.
Definition c14_compressed_pubkey := compressed_pubkey.
Definition c14_wif_encode := wif_encode.
Definition c14_wif_decode := wif_decode.
Definition c14_wif_decode_full := wif_decode_full.
Definition c14_parse_asn1 := parse_asn1_top.
Definition c14_encode_node := encode_node.
Definition c14_encode_oid := encode_oid.
Definition c14_parse_oid := parse_oid_nodes.
Definition c14_encode_pem := encode_pem.
Definition c14_decode_base64_pem := decode_base64_pem.
Definition c14_pem_encode_key := pem_encode_key.
Definition c14_der_encode_key := der_encode_key.
Definition c14_pem_decode_key := pem_decode_key.
Definition c14_pubkey_from_pem := pubkey_from_pem.
Definition c14_cli_pubkey := cli_pubkey.
(* a sequence of dict-mode decodes in one process: every result is what a fresh decode of that string gives *)
Definition c14_wif_decode_seq (sha256 : bytes -> bytes) (ws : list bytes) := mapM (wif_decode_full sha256) ws.

(* ---- armor layer for any label (Model/PemExt.v, theorems in Props/C14Ext.v) ---- *)
Definition c14_decode_pem := decode_pem.
Definition c14_encode_pem_default := encode_pem_default.
(* encode_pem(der, BEGIN label, END label), white space around it, decode_pem of that text: (the armor text, the bytes) *)
Definition c14_pem_roundtrip (b64enc : bytes -> bytes) (b64dec : bytes -> option bytes) (label der ws1 ws2 : bytes) :=
  let pem := encode_pem b64enc der (pem_header label) (pem_footer label) in
  bind (decode_pem b64dec (List.app ws1 (List.app pem ws2))) (fun d => Ok (pem, d)).
