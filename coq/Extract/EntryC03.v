(* Entry points for C03 (generic in the curve parameters: the harness passes secp256k1 or a small curve) *)
Require Import Bits.Lib.Result Bits.Lib.Bytes Bits.Model.Ecmath Bits.Model.Keys.
Definition c03_point_add := point_add.
Definition c03_point_scalar_mul := point_scalar_mul.
Definition c03_point_negate := point_negate.
Definition c03_point_is_on_curve := point_is_on_curve.
Definition c03_privkey_int := privkey_int.
Definition c03_compute_point := compute_point.
Definition c03_key_of_draw := key_of_draw.

(* keys.pub(privkey, compressed): compute_point then SEC1-encode *)
Require Import Bits.Model.Sec1.
Definition c03_pub (p a n : BinNums.Z) (G : point) (k : bytes) (c : bool) : result bytes :=
  bind (compute_point p a n G k) (fun P =>
  match P with Some (x, y) => pubkey x y c | None => Err TypeE end).
