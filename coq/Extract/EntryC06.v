(* Entry points extracted for the correspondence check of C06 (unique c06_ prefix). *)
Require Import Bits.Lib.Result Bits.Lib.Bytes Bits.Spec.Bip173 Bits.Model.Bech32.
Definition c06_segwit_addr := segwit_addr.
Definition c06_to_bitcoin_address_witness := to_bitcoin_address_witness.
Definition c06_decode_segwit_addr := decode_segwit_addr.
Definition c06_decode_segwit_addr_ := decode_segwit_addr_.
Definition c06_assert_valid_segwit := assert_valid_segwit.
Definition c06_decode_valid := decode_valid.
Definition c06_is_segwit_addr := is_segwit_addr.
Definition c06_is_addr := is_addr.
Definition c06_assert_addr := assert_addr.
Definition c06_parse_bech32 := parse_bech32.
Definition c06_assert_valid_bech32 := assert_valid_bech32.
Definition c06_bech32_encode := bech32_encode.
Definition c06_bech32_decode := bech32_decode.
Definition c06_decode_bech32_string := decode_bech32_string.
Definition c06_bech32_polymod := bech32_polymod.
Definition c06_bech32_create_checksum := bech32_create_checksum.
Definition c06_bech32_verify_checksum := bech32_verify_checksum.
Definition c06_spec_decode := spec_decode.
Definition c06_valid_segwit := valid_segwit.
Definition c06_cli_bech32_decode := cli_bech32_decode.
Definition c06_cli_bech32_encode := cli_bech32_encode.
