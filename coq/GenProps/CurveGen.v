(* The curve constants ecmath.py defines NOW (and the defaults bound into its functions) are SEC 2's secp256k1. *)
From Coq Require Import ZArith List Bool.
Require Import Bits.Lib.Bytes Bits.Model.Ecmath Bits.Proofs.Ecmath Bits.Proofs.SmallCurves.
Require Bits.Spec.Secp256k1 Bits.Gen.CurveGen.
Import ListNotations.
Local Open Scope Z_scope.
Module S := Bits.Spec.Secp256k1.
Module G := Bits.Gen.CurveGen.

Theorem gen_curve_is_secp256k1 :
  G.p = S.p /\ G.a = S.a /\ G.b = S.b /\ G.n = S.n /\ G.Gx = S.Gx /\ G.Gy = S.Gy /\ G.G_n = S.n /\ G.G_h = 1.
Proof. vm_compute. repeat split. Qed.

Theorem gen_defaults_are_secp256k1 :
  forallb (Z.eqb S.p) G.field_defaults = true /\
  forallb (fun ab => (fst ab =? S.a) && (snd ab =? S.b)) G.curve_defaults = true /\
  forallb (fun ng => (fst ng =? S.n) && (fst (snd ng) =? S.Gx) && (snd (snd ng) =? S.Gy)) G.sig_defaults = true.
Proof. vm_compute. repeat split. Qed.

Theorem gen_G_encodings :
  G.G_compressed = Coq.Init.Byte.x02 :: to_be 32 S.Gx /\
  G.G_uncompressed = Coq.Init.Byte.x04 :: to_be 32 S.Gx ++ to_be 32 S.Gy.
Proof. vm_compute. split; reflexivity. Qed.

Theorem gen_G_on_curve : oncurveb G.p G.a G.b (Some (G.Gx, G.Gy)) = true.
Proof. vm_compute. reflexivity. Qed.
